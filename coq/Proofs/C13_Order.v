(* Proofs/C13_Order.v — the order-dependent clauses of C13, generically:
   (1) under [comp_facts] (Z and binary64 satisfy it): never negative, <= a non-negative maximum,
       leftover >= 0, expired <-> elapsed > duration;
   (2) under [clock_facts] on a good monotone clock: the clock distance is non-negative (so elapsed is
       max(0, now - started) with nothing to clamp but a zero), split elapsed values never decrease;
   (3) in every totally ordered abelian group: (1), (2) hold and the exact clauses: elapsed = now - started_at,
       = stopped_at - started_at, split lengths = successive differences. *)
From Coq Require Import List Bool Lia Sorting.Sorted PeanoNat.
Require Import OV.Base.Bytes OV.Base.Py OV.Base.C13_Types OV.Model.C13 OV.Model.C13_Order OV.Proofs.C13.
Import ListNotations.

Lemma monotone_uptob_spec {T} (leb : T -> T -> bool) clk n : monotone_uptob leb clk n = true <-> monotone_upto leb clk n.
Proof.
  unfold monotone_uptob, monotone_upto. rewrite forallb_forall. split.
  - intros H i Hi. apply H, in_seq. lia.
  - intros H i Hi. apply in_seq in Hi. apply H. lia.
Qed.

(* ===================================================================== *)
Section Comp.
Variable T : Type.
Variable N : num T.
Variable leb : T -> T -> bool.
Variable ok : T -> Prop.
Hypothesis CF : comp_facts N leb ok.
Variable clk : nat -> T.

Notation zero := (n_zero N).

Lemma pos0_ok e : pos0 T N e -> ok e.
Proof. intros [->|H]; [apply (cf_ok_zero _ _ _ CF)|apply (cf_gt_ok _ _ _ CF _ _ H)]. Qed.

Lemma pos0_nonneg e : pos0 T N e -> leb zero e = true.
Proof.
  intros [->|H]; [apply (cf_le_refl _ _ _ CF), (cf_ok_zero _ _ _ CF)|apply (cf_gt_le _ _ _ CF), H].
Qed.

(* a zero-or-positive value is not negative: e < 0 is false *)
Lemma pos0_not_neg e : pos0 T N e -> n_gtb N zero e = false.
Proof.
  intro H. destruct (n_gtb N zero e) eqn:E; [|reflexivity].
  apply (cf_gt_not_le _ _ _ CF) in E. rewrite (pos0_nonneg e H) in E. discriminate.
Qed.

Lemma elapsed_nonneg w t m c e : elapsed N clk w t m = (c, Ok e) -> leb zero e = true /\ ok e.
Proof. intro H. apply elapsed_pos0 in H. split; [apply pos0_nonneg, H|apply pos0_ok, H]. Qed.

Lemma max0_le m : ok m -> leb zero m = true -> leb (max0 N m) m = true.
Proof.
  intros Hm H0. destruct (max0_cases T N m) as [[_ ->]|[_ ->]]; [apply (cf_le_refl _ _ _ CF), Hm|exact H0].
Qed.

Lemma clamp_max_le m e : ok e -> ok m -> leb zero m = true -> leb (clamp_max N (Some m) e) m = true.
Proof.
  intros He Hm H0. destruct (clamp_max_cases T N m e) as [[H ->]|[H ->]].
  - apply (cf_not_gt_le _ _ _ CF); assumption.
  - apply max0_le; assumption.
Qed.

(* elapsed(maximum) never exceeds a comparable, non-negative maximum *)
Lemma elapsed_max_le w t m c e :
  elapsed N clk w t (Some m) = (c, Ok e) -> ok m -> leb zero m = true -> leb e m = true.
Proof.
  intros H Hm H0. destruct (elapsed_max T N clk w t m c e H) as (e0 & HE & ->).
  apply clamp_max_le; [|exact Hm|exact H0]. apply pos0_ok. eapply elapsed_pos0, HE.
Qed.

(* ... and in general is at most max(0.0, maximum) *)
Lemma elapsed_max_le0 w t m c e :
  elapsed N clk w t (Some m) = (c, Ok e) -> ok m -> leb e (max0 N m) = true.
Proof.
  intros H Hm. destruct (elapsed_max T N clk w t m c e H) as (e0 & HE & ->).
  assert (Hp : pos0 T N e0) by (eapply elapsed_pos0, HE).
  destruct (clamp_max_cases T N m e0) as [[Hg ->]|[Hg ->]].
  - destruct (max0_cases T N m) as [[_ ->]|[Hz ->]].
    + apply (cf_not_gt_le _ _ _ CF); [apply pos0_ok, Hp|exact Hm|exact Hg].
    + (* m <= 0 and e0 <= m: e0 is zero-or-positive, so e0 <= 0 needs e0 not > 0 *)
      destruct Hp as [->|Hp]; [apply (cf_le_refl _ _ _ CF), (cf_ok_zero _ _ _ CF)|].
      exfalso. assert (Hle : leb e0 m = true) by (apply (cf_not_gt_le _ _ _ CF); [apply (cf_gt_ok _ _ _ CF _ _ Hp)|exact Hm|exact Hg]).
      rewrite (cf_lt_le_trans0 _ _ _ CF _ _ Hp Hle) in Hz. discriminate.
  - apply (cf_le_refl _ _ _ CF), pos0_ok, max0_pos0.
Qed.

Lemma leftover_nonneg w t rn c z :
  leftover N clk w t rn = (c, Ok (Some z)) -> leb zero z = true /\ ok z.
Proof.
  unfold leftover. destruct (w_state w); try discriminate. destruct (w_duration w); [|destruct rn; discriminate].
  destruct (elapsed N clk w t None) as [c' [e'|x]]; intro H; inversion H.
  split; [apply pos0_nonneg|apply pos0_ok]; apply max0_pos0.
Qed.

(* expired <-> elapsed > duration <-> not (elapsed <= duration) *)
Lemma expired_iff w t d c e :
  w_state w <> SNone -> w_duration w = Some d -> elapsed N clk w t None = (c, Ok e) ->
  exists b, expired N clk w t = (c, Ok b) /\ b = n_gtb N e d /\ (ok d -> (b = true <-> leb e d = false)).
Proof.
  intros HS HD HE. pose proof (expired_spec T N clk w t HS) as H. rewrite HD in H. rewrite (H c e HE).
  eexists. split; [reflexivity|]. split; [reflexivity|]. intro Hd. split.
  - apply (cf_gt_not_le _ _ _ CF).
  - intro Hl. destruct (n_gtb N e d) eqn:E; [reflexivity|].
    rewrite (cf_not_gt_le _ _ _ CF e d) in Hl; [discriminate| |exact Hd|exact E].
    apply pos0_ok. eapply elapsed_pos0, HE.
Qed.

Lemma history_numbers_nonneg duration w0 ops :
  init N duration = Ok w0 ->
  Forall (fun cr => forall z, snd cr = Ok (VNum z) -> leb zero z = true /\ ok z) (trace N clk ops w0 0%nat).
Proof.
  intro Hi. eapply Forall_impl; [|apply (history_numbers_pos0 T N clk duration w0 ops Hi)].
  cbn. intros cr H z Hz. split; [apply pos0_nonneg|apply pos0_ok]; apply H, Hz.
Qed.

Lemma max0_mono x y : leb x y = true -> leb (max0 N x) (max0 N y) = true.
Proof.
  intro H. destruct (max0_cases T N x) as [[Hx ->]|[Hx ->]], (max0_cases T N y) as [[Hy ->]|[Hy ->]].
  - exact H.
  - rewrite (cf_lt_le_trans0 _ _ _ CF _ _ Hx H) in Hy. discriminate.
  - apply (cf_gt_le _ _ _ CF), Hy.
  - apply (cf_le_refl _ _ _ CF), (cf_ok_zero _ _ _ CF).
Qed.

(* ---- good monotone clocks ---- *)
Variable okc : T -> Prop.
Variable sub_ok : T -> T -> Prop.
Hypothesis KF : clock_facts N leb okc sub_ok.

Lemma monotone_le n : clock_ok okc sub_ok clk n -> monotone_upto leb clk n ->
  forall i j, (i <= j < n)%nat -> leb (clk i) (clk j) = true.
Proof.
  intros [Hok _] H i j [Hij Hj]. induction j as [|j IH].
  - assert (i = 0%nat) by lia. subst. apply (kf_le_refl _ _ _ _ KF), Hok. lia.
  - destruct (Nat.eq_dec i (S j)) as [->|Hne]; [apply (kf_le_refl _ _ _ _ KF), Hok; lia|].
    apply (kf_le_trans _ _ _ _ KF) with (b := clk j); try (apply Hok; lia); [apply IH; lia|apply H; lia].
Qed.

(* under a good monotone clock the distance from an earlier to a later reading is not negative *)
Lemma distance_nonneg n i j : clock_ok okc sub_ok clk n -> monotone_upto leb clk n -> (i <= j < n)%nat ->
  leb zero (n_sub N (clk j) (clk i)) = true.
Proof.
  intros HC HM Hij. pose proof (monotone_le n HC HM i j Hij) as Hle. destruct HC as [Hok Hsub].
  apply (kf_sub_nonneg _ _ _ _ KF); [apply Hok; lia|apply Hok; lia|apply Hsub; lia|exact Hle].
Qed.

(* later readings give larger elapsed values *)
Lemma delta_mono n i k k' : clock_ok okc sub_ok clk n -> monotone_upto leb clk n -> (i <= k)%nat -> (k <= k' < n)%nat ->
  leb (delta N (clk i) (clk k)) (delta N (clk i) (clk k')) = true.
Proof.
  intros HC HM Hik Hk. pose proof (monotone_le n HC HM k k' Hk) as Hle. destruct HC as [Hok Hsub].
  unfold delta. apply max0_mono. apply (kf_sub_mono _ _ _ _ KF); try (apply Hok; lia); try (apply Hsub; lia). exact Hle.
Qed.

Lemma sorted_elapsed i t ks :
  clock_ok okc sub_ok clk t -> monotone_upto leb clk t -> ticks_ok i t ks ->
  StronglySorted (fun a b => leb a b = true) (map (fun k => delta N (clk i) (clk k)) ks).
Proof.
  intros HC HM [Hs Hf]. induction Hs as [|a r Hs IH Ha]; [constructor|].
  inversion Hf as [|? ? Hat Hr]; subst. cbn [map]. constructor; [apply IH, Hr|].
  rewrite Forall_map. rewrite Forall_forall in *. intros k Hk.
  specialize (Ha k Hk). specialize (Hr k Hk). apply (delta_mono t); try assumption; lia.
Qed.

(* monotone clock => the elapsed values of the splits never decrease *)
Lemma splits_sorted w t :
  reachable N clk (w, t) -> clock_ok okc sub_ok clk t -> monotone_upto leb clk t ->
  StronglySorted (fun a b => leb a b = true) (map sp_elapsed (w_splits w)).
Proof.
  intros HR HC HM. destruct (splits_are_built T N clk w t HR) as [->|(i & ks & _ & _ & Hk & ->)]; [constructor|].
  rewrite build_elapsed. apply (sorted_elapsed i t); assumption.
Qed.

(* monotone clock => while running, now - started_at is not negative: elapsed = max(0.0, now - started_at) has
   nothing to clamp but a zero *)
Lemma running_distance_nonneg w t :
  reachable N clk (w, t) -> w_state w = SStarted -> clock_ok okc sub_ok clk (S t) -> monotone_upto leb clk (S t) ->
  exists s, w_started w = Some s /\ leb zero (n_sub N (clk t) s) = true /\
            forall m, elapsed N clk w t m = ((w, S t), Ok (clamp_max N m (max0 N (n_sub N (clk t) s)))).
Proof.
  intros HR HS HC HM. destruct (elapsed_running T N clk w t HR HS) as (i & Hi & Hst & HE).
  exists (clk i). split; [exact Hst|]. split; [apply (distance_nonneg (S t)); try assumption; lia|exact HE].
Qed.

Lemma stopped_distance_nonneg w t :
  reachable N clk (w, t) -> w_state w = SStopped -> clock_ok okc sub_ok clk t -> monotone_upto leb clk t ->
  exists s p, w_started w = Some s /\ w_stopped w = Some p /\ leb zero (n_sub N p s) = true /\
              forall m, elapsed N clk w t m = ((w, t), Ok (clamp_max N m (max0 N (n_sub N p s)))).
Proof.
  intros HR HS HC HM. destruct (elapsed_stopped T N clk w t HR HS) as (i & j & Hij & Hst & Hsp & HE).
  exists (clk i), (clk j). split; [exact Hst|]. split; [exact Hsp|].
  split; [apply (distance_nonneg t); try assumption; lia|exact HE].
Qed.

End Comp.

(* ===================================================================== *)
(* every totally ordered abelian group                                    *)
(* ===================================================================== *)
Section Group.
Variable T : Type.
Variable zero : T.
Variable add : T -> T -> T.
Variable opp : T -> T.
Variable le : T -> T -> Prop.
Variable N : num T.
Hypothesis OG : ordered_group zero add opp le N.
Variable clk : nat -> T.

(* <= as the operations compute it *)
Definition g_leb (a b : T) : bool := negb (n_gtb N a b).
Notation sub := (n_sub N).
Definition anyT (x : T) : Prop := True.
Definition any2 (x y : T) : Prop := True.

Lemma g_leb_le a b : g_leb a b = true <-> le a b.
Proof.
  unfold g_leb. rewrite <- (og_gtb _ _ _ _ _ OG). destruct (n_gtb N a b); cbn; split; congruence.
Qed.

Lemma gtb_nle a b : n_gtb N a b = true <-> ~ le a b.
Proof.
  rewrite <- (og_gtb _ _ _ _ _ OG). destruct (n_gtb N a b); split; congruence.
Qed.

Lemma nle_le a b : ~ le a b -> le b a.
Proof. intro H. destruct (og_le_total _ _ _ _ _ OG a b); tauto. Qed.

Lemma opp_zero : opp zero = zero.
Proof.
  pose proof (og_add_opp _ _ _ _ _ OG zero) as H.
  rewrite (og_add_comm _ _ _ _ _ OG), (og_add_zero _ _ _ _ _ OG) in H. exact H.
Qed.

Lemma sub_self a : sub a a = zero.
Proof. rewrite (og_sub _ _ _ _ _ OG). apply (og_add_opp _ _ _ _ _ OG). Qed.

Lemma sub_zero a : sub a zero = a.
Proof. rewrite (og_sub _ _ _ _ _ OG), opp_zero. apply (og_add_zero _ _ _ _ _ OG). Qed.

Lemma sub_le_mono a b s : le a b -> le (sub a s) (sub b s).
Proof. intro H. rewrite !(og_sub _ _ _ _ _ OG). apply (og_add_le _ _ _ _ _ OG), H. Qed.

Lemma le_sub_nonneg a b : le a b -> le zero (sub b a).
Proof. intro H. rewrite <- (sub_self a). apply sub_le_mono, H. Qed.

Lemma group_comp_facts : comp_facts N g_leb anyT.
Proof.
  constructor; unfold anyT; auto.
  - intros a _. apply g_leb_le, (og_le_refl _ _ _ _ _ OG).
  - intros a b _ _ H. unfold g_leb. rewrite H. reflexivity.
  - intros a b H. unfold g_leb. rewrite H. reflexivity.
  - intros a b H. apply g_leb_le, nle_le, gtb_nle, H.
  - intros x y Hx Hxy. apply gtb_nle. apply gtb_nle in Hx. apply g_leb_le in Hxy.
    rewrite (og_zero _ _ _ _ _ OG) in *. intro Hy. apply Hx. eapply (og_le_trans _ _ _ _ _ OG); eassumption.
Qed.

Lemma group_clock_facts : clock_facts N g_leb anyT any2.
Proof.
  constructor.
  - intros a _. apply g_leb_le, (og_le_refl _ _ _ _ _ OG).
  - intros a b c _ _ _ H1 H2. apply g_leb_le. apply g_leb_le in H1, H2. eapply (og_le_trans _ _ _ _ _ OG); eassumption.
  - intros a b s _ _ _ _ _ H. apply g_leb_le, sub_le_mono, g_leb_le, H.
  - intros a b _ _ _ H. apply g_leb_le. rewrite (og_zero _ _ _ _ _ OG). apply le_sub_nonneg, g_leb_le, H.
Qed.

Lemma any_clock_ok n : clock_ok anyT any2 clk n.
Proof. split; intros; exact I. Qed.

Ltac solve_facts :=
  first [apply group_comp_facts | apply group_clock_facts | apply any_clock_ok | eassumption | exact I | lia].

(* max(0, x) = x for x >= 0 *)
Lemma max0_id x : le zero x -> max0 N x = x.
Proof.
  intro H. destruct (max0_cases T N x) as [[_ ->]|[Hx ->]]; [reflexivity|].
  rewrite (og_zero _ _ _ _ _ OG) in *. apply (og_gtb _ _ _ _ _ OG) in Hx.
  apply (og_le_antisym _ _ _ _ _ OG); assumption.
Qed.

Lemma max0_nonneg x : le zero (max0 N x).
Proof.
  assert (H : g_leb (n_zero N) (max0 N x) = true) by (eapply pos0_nonneg; [solve_facts|apply max0_pos0]).
  apply g_leb_le in H. rewrite (og_zero _ _ _ _ _ OG) in H. exact H.
Qed.

Lemma delta_exact a b : le a b -> delta N a b = sub b a.
Proof. intro H. apply max0_id, le_sub_nonneg, H. Qed.

(* elapsed is never negative *)
Lemma g_elapsed_nonneg w t m c e : elapsed N clk w t m = (c, Ok e) -> le zero e.
Proof.
  intro H. eapply elapsed_nonneg in H; [|apply group_comp_facts]. destruct H as [H _].
  apply g_leb_le in H. rewrite (og_zero _ _ _ _ _ OG) in H. exact H.
Qed.

(* while running under a monotonic clock: exactly now - started_at *)
Lemma g_elapsed_running w t :
  reachable N clk (w, t) -> w_state w = SStarted ->
  exists s, w_started w = Some s /\
    (forall m, elapsed N clk w t m = ((w, S t), Ok (clamp_max N m (max0 N (sub (clk t) s))))) /\
    (monotone_upto g_leb clk (S t) -> le zero (sub (clk t) s) /\ elapsed N clk w t None = ((w, S t), Ok (sub (clk t) s))).
Proof.
  intros HR HS. destruct (elapsed_running T N clk w t HR HS) as (i & Hi & Hst & HE).
  exists (clk i). split; [exact Hst|]. split; [exact HE|]. intro HM.
  assert (HL : le zero (sub (clk t) (clk i))).
  { rewrite <- (og_zero _ _ _ _ _ OG). apply g_leb_le.
    eapply distance_nonneg with (n := S t); solve_facts. }
  split; [exact HL|]. rewrite HE. unfold clamp_max, delta. rewrite (max0_id _ HL). reflexivity.
Qed.

(* while stopped: exactly stopped_at - started_at *)
Lemma g_elapsed_stopped w t :
  reachable N clk (w, t) -> w_state w = SStopped ->
  exists s p, w_started w = Some s /\ w_stopped w = Some p /\
    (forall m, elapsed N clk w t m = ((w, t), Ok (clamp_max N m (max0 N (sub p s))))) /\
    (monotone_upto g_leb clk t -> le zero (sub p s) /\ elapsed N clk w t None = ((w, t), Ok (sub p s))).
Proof.
  intros HR HS. destruct (elapsed_stopped T N clk w t HR HS) as (i & j & Hij & Hst & Hsp & HE).
  exists (clk i), (clk j). split; [exact Hst|]. split; [exact Hsp|]. split; [exact HE|]. intro HM.
  assert (HL : le zero (sub (clk j) (clk i))).
  { rewrite <- (og_zero _ _ _ _ _ OG). apply g_leb_le.
    eapply distance_nonneg with (n := t); solve_facts. }
  split; [exact HL|]. rewrite HE. unfold clamp_max, delta. rewrite (max0_id _ HL). reflexivity.
Qed.

(* elapsed(maximum): cut at the maximum; never above max(0, maximum); never above a non-negative maximum *)
Lemma g_elapsed_max w t m c e :
  elapsed N clk w t (Some m) = (c, Ok e) ->
  exists e0, elapsed N clk w t None = (c, Ok e0) /\
             e = (if g_leb e0 m then e0 else max0 N m) /\ le e (max0 N m) /\ (le zero m -> le e m).
Proof.
  intro H. destruct (elapsed_max T N clk w t m c e H) as (e0 & HE & Hc). exists e0. split; [exact HE|].
  split; [rewrite Hc; unfold clamp_max, g_leb; destruct (n_gtb N e0 m); reflexivity|].
  split.
  - apply g_leb_le. eapply elapsed_max_le0; [apply group_comp_facts|exact H|exact I].
  - intro Hm. apply g_leb_le. eapply elapsed_max_le; [apply group_comp_facts|exact H|exact I|].
    apply g_leb_le. rewrite (og_zero _ _ _ _ _ OG). exact Hm.
Qed.

(* expired <-> elapsed > duration *)
Lemma g_expired_iff w t d c e :
  w_state w <> SNone -> w_duration w = Some d -> elapsed N clk w t None = (c, Ok e) ->
  exists b, expired N clk w t = (c, Ok b) /\ (b = true <-> ~ le e d).
Proof.
  intros HS HD HE. pose proof (expired_spec T N clk w t HS) as H. rewrite HD in H. rewrite (H c e HE).
  eexists. split; [reflexivity|]. apply gtb_nle.
Qed.

(* leftover = max(0, duration - elapsed) >= 0 *)
Lemma g_leftover_nonneg w t rn c z : leftover N clk w t rn = (c, Ok (Some z)) -> le zero z.
Proof.
  intro H. eapply leftover_nonneg in H; [|apply group_comp_facts]. destruct H as [H _].
  apply g_leb_le in H. rewrite (og_zero _ _ _ _ _ OG) in H. exact H.
Qed.

Lemma clamped_sorted_diffs l : forall p,
  clamped_diffs_from N (Some p) l -> StronglySorted (fun a b => g_leb a b = true) (p :: map sp_elapsed l) -> diffs_from N p l.
Proof.
  induction l as [|x r IH]; intros p HC HS; [exact I|].
  cbn [clamped_diffs_from diffs_from map] in *. destruct HC as [HL HC].
  inversion HS as [|? ? HS' Hall]; subst. inversion Hall as [|? ? Hpx _]; subst.
  split; [rewrite HL; apply delta_exact, g_leb_le, Hpx|]. apply IH; [exact HC|exact HS'].
Qed.

(* under a monotonic clock the splits have non-decreasing elapsed values and lengths equal to the successive
   differences (the first one counted from zero) *)
Lemma g_splits_monotone w t :
  reachable N clk (w, t) -> monotone_upto g_leb clk t ->
  StronglySorted le (map sp_elapsed (w_splits w)) /\ diffs_from N zero (w_splits w).
Proof.
  intros HR HM.
  assert (HS : StronglySorted (fun a b => g_leb a b = true) (map sp_elapsed (w_splits w)))
    by (eapply splits_sorted with (t := t); solve_facts).
  destruct (splits_clamped T N clk w t HR) as [HC HP].
  split.
  - clear HC HP. induction HS as [|a r HS IH Ha]; constructor; [exact IH|].
    eapply Forall_impl; [|exact Ha]. intros b Hb. apply g_leb_le, Hb.
  - destruct (w_splits w) as [|x r]; [exact I|].
    cbn [clamped_diffs_from diffs_from map] in *. destruct HC as [HL HC].
    split; [rewrite HL, <- (og_zero _ _ _ _ _ OG), (og_zero _ _ _ _ _ OG), sub_zero; reflexivity|].
    apply clamped_sorted_diffs; assumption.
Qed.

Lemma g_history_numbers_nonneg duration w0 ops :
  init N duration = Ok w0 ->
  Forall (fun cr => forall z, snd cr = Ok (VNum z) -> le zero z) (trace N clk ops w0 0%nat).
Proof.
  intro Hi. eapply Forall_impl; [|eapply history_numbers_nonneg; [apply group_comp_facts|exact Hi]].
  cbn. intros cr H z Hz. destruct (H z Hz) as [H1 _]. apply g_leb_le in H1. rewrite (og_zero _ _ _ _ _ OG) in H1. exact H1.
Qed.

End Group.
