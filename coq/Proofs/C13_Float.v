(* Proofs/C13_Float.v — binary64 satisfies the two layers of premises of Proofs/C13_Order.v:
   [comp_facts] by case analysis on SpecFloat's comparison (no hypothesis, NaN = not comparable);
   [clock_facts] for valid finite readings whose differences do not overflow, through Flocq's
   Bminus_correct / Bleb_correct (rounding is monotone).  The second part uses the classical-reals axioms of
   the standard library that Flocq's real-number specifications rest on. *)
From Coq Require Import String.
From Coq Require Import ZArith Bool List Lia Reals Lra SpecFloat Sorting.Sorted.
From Flocq Require Import Core.Core IEEE754.BinarySingleNaN.
Require Import OV.Base.Bytes OV.Base.Py OV.Base.PyFloat OV.Base.C13_Types.
Require Import OV.Model.C13 OV.Model.C13_Order OV.Model.C13_Float OV.Proofs.C13 OV.Proofs.C13_Order.
Import ListNotations.
Open Scope Z_scope.

(* ---------------------------------------------------------------- comparison facts on SpecFloat *)

Lemma Pcompare_refl m : Pos.compare_cont Eq m m = Eq.
Proof. apply Pos.compare_cont_refl. Qed.

Lemma SFcompare_refl x : f_is_nan x = false -> SFcompare x x = Some Eq.
Proof.
  destruct x as [s|s| |s m e]; cbn; intro H; try discriminate H; try (destruct s; reflexivity).
  destruct s; rewrite Z.compare_refl, Pcompare_refl; reflexivity.
Qed.

Lemma SFcompare_antisym x y : SFcompare y x = option_map CompOpp (SFcompare x y).
Proof.
  destruct x as [sx|sx| |sx mx ex], y as [sy|sy| |sy my ey]; cbn; try reflexivity;
    try (destruct sx; reflexivity); try (destruct sy; reflexivity); try (destruct sx, sy; reflexivity).
  destruct sx, sy; cbn; try reflexivity; rewrite (Z.compare_antisym ex ey);
    destruct (ex ?= ey); cbn; try reflexivity;
    change (Pos.compare_cont Eq my mx) with (Pos.compare my mx); change (Pos.compare_cont Eq mx my) with (Pos.compare mx my);
    rewrite (Pos.compare_antisym mx my); destruct (mx ?= my)%positive; reflexivity.
Qed.

Lemma float_comp_facts : comp_facts Fnum f_leb f_ok.
Proof.
  constructor; unfold f_ok; cbn [n_zero n_gtb Fnum]; unfold f_gtb, f_leb, SFltb, SFleb.
  - reflexivity.
  - intros x y H. destruct x as [sx|sx| |sx mx ex], y as [sy|sy| |sy my ey]; cbn in *; try discriminate H; auto.
  - intros a H. rewrite (SFcompare_refl a H). reflexivity.
  - intros a b Ha Hb H. rewrite (SFcompare_antisym b a).
    destruct a as [sx|sx| |sx mx ex], b as [sy|sy| |sy my ey]; cbn in Ha, Hb; try discriminate;
      destruct (SFcompare _ _) as [[| |]|] eqn:E; cbn in *; try reflexivity; try discriminate H; try discriminate E.
  - intros a b H. rewrite (SFcompare_antisym b a). destruct (SFcompare b a) as [[| |]|]; cbn; try discriminate H; reflexivity.
  - intros a b H. destruct (SFcompare b a) as [[| |]|]; try discriminate H; reflexivity.
  - intros x y Hx Hxy.
    destruct x as [sx|sx| |sx mx ex]; cbn in Hx; try discriminate Hx; try (destruct sx; discriminate Hx);
    destruct sx; try discriminate Hx;
    destruct y as [sy|sy| |sy my ey]; cbn in Hxy |- *; try discriminate Hxy; try (destruct sy; try discriminate Hxy; reflexivity).
Qed.

(* ---------------------------------------------------------------- SpecFloat operations = Flocq's, on valid floats *)

Definition prec := 53.
Definition emax := 1024.
Lemma Hprec : Prec_gt_0 prec. Proof. reflexivity. Qed.
Lemma Hmax : Prec_lt_emax prec emax. Proof. reflexivity. Qed.
Local Existing Instance Hprec.
Local Existing Instance Hmax.
Notation bf := (binary_float prec emax).

Lemma round_nearest_even_equiv s m l :
  SpecFloat.round_nearest_even m l = choice_mode mode_NE s m l.
Proof.
case l; [reflexivity|intro c].
case c; [ | reflexivity..].
now simpl; unfold Round.cond_incr; case Z.even.
Qed.

Lemma binary_round_aux_equiv sx mx ex lx :
  SpecFloat.binary_round_aux prec emax sx mx ex lx
  = BinarySingleNaN.binary_round_aux prec emax mode_NE sx mx ex lx.
Proof.
unfold SpecFloat.binary_round_aux, binary_round_aux.
set (mrse' := shr_fexp _ _ _).
case mrse'; intros mrs' e'; simpl.
now rewrite (round_nearest_even_equiv sx).
Qed.

Lemma binary_round_equiv s m e :
  SpecFloat.binary_round prec emax s m e =
  BinarySingleNaN.binary_round prec emax mode_NE s m e.
Proof.
unfold SpecFloat.binary_round, binary_round, shl_align_fexp.
set (mez := shl_align _ _ _); case mez as [mz ez].
apply binary_round_aux_equiv.
Qed.

Lemma binary_normalize_equiv m e szero :
  SpecFloat.binary_normalize prec emax m e szero
  = B2SF (BinarySingleNaN.binary_normalize prec emax Hprec Hmax mode_NE m e szero).
Proof.
case m as [ | p | p].
- now simpl.
- simpl; rewrite B2SF_SF2B; apply binary_round_equiv.
- simpl; rewrite B2SF_SF2B; apply binary_round_equiv.
Qed.

Lemma SFsub_Bminus (x y : bf) :
  SFsub prec emax (B2SF x) (B2SF y) = B2SF (Bminus mode_NE x y).
Proof.
case x as [sx|sx| |sx mx ex Bx]; case y as [sy|sy| |sy my ey By];
  [now (trivial || simpl; case Bool.eqb).. | ].
simpl. unfold Zminus. rewrite <- cond_Zopp_negb.
apply binary_normalize_equiv.
Qed.

Lemma Bleb_le (a b : bf) : is_finite a = true -> is_finite b = true -> (Bleb a b = true <-> (B2R a <= B2R b)%R).
Proof.
  intros Fa Fb. rewrite Bleb_correct by assumption. split.
  - case Rle_bool_spec; [auto|discriminate].
  - apply Rle_bool_true.
Qed.

Lemma Bminus_finite_round (a s : bf) :
  is_finite a = true -> is_finite s = true -> is_finite (Bminus mode_NE a s) = true ->
  B2R (Bminus mode_NE a s) = round radix2 (fexp prec emax) (round_mode mode_NE) (B2R a - B2R s).
Proof.
  intros Fa Fs Fas.
  generalize (Bminus_correct prec emax Hprec Hmax mode_NE a s Fa Fs).
  case Rlt_bool_spec; intro H1; [intros [H _]; exact H|].
  intros [H _]. assert (HF : is_finite_SF (B2SF (Bminus mode_NE a s)) = true) by (rewrite is_finite_SF_B2SF; exact Fas).
  rewrite H in HF. discriminate HF.
Qed.

Lemma B_sub_mono (a b s : bf) :
  is_finite a = true -> is_finite b = true -> is_finite s = true ->
  is_finite (Bminus mode_NE a s) = true -> is_finite (Bminus mode_NE b s) = true ->
  Bleb a b = true -> Bleb (Bminus mode_NE a s) (Bminus mode_NE b s) = true.
Proof.
  intros Fa Fb Fs Fas Fbs Hab. apply Bleb_le in Hab; try assumption. apply Bleb_le; try assumption.
  rewrite !Bminus_finite_round by assumption.
  apply round_le; [apply fexp_correct; apply Hprec | apply valid_rnd_N | lra].
Qed.

Lemma B_sub_nonneg (a b : bf) :
  is_finite a = true -> is_finite b = true -> is_finite (Bminus mode_NE b a) = true ->
  Bleb a b = true -> Bleb (B754_zero false) (Bminus mode_NE b a) = true.
Proof.
  intros Fa Fb Fba Hab. apply Bleb_le in Hab; try assumption. apply Bleb_le; try assumption; [reflexivity|].
  rewrite Bminus_finite_round by assumption. cbn [B2R].
  rewrite <- (round_0 radix2 (fexp prec emax) (round_mode mode_NE)).
  apply round_le; [apply fexp_correct; apply Hprec | apply valid_rnd_N | lra].
Qed.

Lemma B_le_trans (a b c : bf) :
  is_finite a = true -> is_finite b = true -> is_finite c = true ->
  Bleb a b = true -> Bleb b c = true -> Bleb a c = true.
Proof.
  intros Fa Fb Fc H1 H2. apply Bleb_le in H1, H2; try assumption. apply Bleb_le; try assumption. lra.
Qed.

(* ---------------------------------------------------------------- transport to SpecFloat values *)

Lemma valid_eq (x : float64) : f_valid x = true -> valid_binary prec emax x = true.
Proof. exact (fun H => H). Qed.

Lemma finite_SF (x : float64) : f_is_finite x = is_finite_SF x.
Proof. destruct x; reflexivity. Qed.

Definition toB (x : float64) (H : f_valid x = true) : bf := SF2B x (valid_eq x H).

Lemma toB_B2SF x H : B2SF (toB x H) = x.
Proof. apply B2SF_SF2B. Qed.

Lemma toB_finite x H : is_finite (toB x H) = f_is_finite x.
Proof. unfold toB. rewrite is_finite_SF2B. symmetry. apply finite_SF. Qed.

Lemma f_sub_toB a s Ha Hs : f_sub a s = B2SF (Bminus mode_NE (toB a Ha) (toB s Hs)).
Proof. rewrite <- SFsub_Bminus, !toB_B2SF. reflexivity. Qed.

Lemma f_leb_toB a b Ha Hb : f_leb a b = Bleb (toB a Ha) (toB b Hb).
Proof. unfold Bleb. rewrite !toB_B2SF. reflexivity. Qed.

Lemma float_clock_facts : clock_facts Fnum f_leb f_okc f_sub_ok.
Proof.
  constructor; unfold f_okc, f_sub_ok; cbn [n_zero n_sub Fnum].
  - intros a [_ Fa]. apply (cf_le_refl _ _ _ float_comp_facts). unfold f_ok. destruct a; cbn in *; congruence.
  - intros a b c [Va Fa] [Vb Fb] [Vc Fc] H1 H2.
    rewrite (f_leb_toB a b Va Vb) in H1. rewrite (f_leb_toB b c Vb Vc) in H2. rewrite (f_leb_toB a c Va Vc).
    eapply B_le_trans; try eassumption; rewrite toB_finite; assumption.
  - intros a b s [Va Fa] [Vb Fb] [Vs Fs] Fas Fbs Hab.
    rewrite (f_sub_toB a s Va Vs) in *. rewrite (f_sub_toB b s Vb Vs) in *.
    rewrite (f_leb_toB a b Va Vb) in Hab. unfold f_leb. change (SFleb ?x ?y) with (SFleb x y).
    rewrite finite_SF, is_finite_SF_B2SF in Fas, Fbs.
    apply (B_sub_mono (toB a Va) (toB b Vb) (toB s Vs)); try assumption; rewrite toB_finite; assumption.
  - intros a b [Va Fa] [Vb Fb] Fba Hab.
    rewrite (f_sub_toB b a Vb Va) in *. rewrite (f_leb_toB a b Va Vb) in Hab.
    rewrite finite_SF, is_finite_SF_B2SF in Fba.
    change f_zero with (B2SF (B754_zero false : bf)). unfold f_leb.
    apply (B_sub_nonneg (toB a Va) (toB b Vb)); try assumption; rewrite toB_finite; assumption.
Qed.

Lemma f_clock_okb_spec clk n : f_clock_okb clk n = true -> clock_ok f_okc f_sub_ok clk n.
Proof.
  unfold f_clock_okb. rewrite andb_true_iff, !forallb_forall. intros [H1 H2]. split.
  - intros i Hi. specialize (H1 i). rewrite andb_true_iff in H1. apply H1, in_seq. lia.
  - intros i j Hij. specialize (H2 j). rewrite forallb_forall in H2. apply H2; apply in_seq; lia.
Qed.

(* ---------------------------------------------------------------- the float-robust clauses of C13 *)
Section FloatCor.
Variable clk : nat -> float64.

(* elapsed is never negative, never NaN — for ANY clock readings (even infinite or NaN ones) and any maximum:
   max(0.0, x) answers 0.0 unless x > 0.0 *)
Lemma F_elapsed_nonneg w t m c e :
  elapsed Fnum clk w t m = (c, Ok e) -> f_leb f_zero e = true /\ f_is_nan e = false /\ f_ltb e f_zero = false.
Proof.
  intro H. pose proof (elapsed_pos0 _ Fnum clk w t m c e H) as HP.
  destruct (elapsed_nonneg _ Fnum f_leb f_ok float_comp_facts clk w t m c e H) as [H1 H2].
  split; [exact H1|]. split; [exact H2|]. exact (pos0_not_neg _ Fnum f_leb f_ok float_comp_facts e HP).
Qed.

Lemma F_history_numbers_nonneg duration w0 ops :
  init Fnum duration = Ok w0 ->
  Forall (fun cr => forall z, snd cr = Ok (VNum z) -> f_leb f_zero z = true /\ f_is_nan z = false) (trace Fnum clk ops w0 0%nat).
Proof. exact (history_numbers_nonneg _ Fnum f_leb f_ok float_comp_facts clk duration w0 ops). Qed.

(* elapsed(maximum) <= maximum for a maximum that is a number (not NaN) and not negative *)
Lemma F_elapsed_max_le w t m c e :
  elapsed Fnum clk w t (Some m) = (c, Ok e) -> f_is_nan m = false -> f_leb f_zero m = true -> f_leb e m = true.
Proof. exact (elapsed_max_le _ Fnum f_leb f_ok float_comp_facts clk w t m c e). Qed.

Lemma F_leftover_nonneg w t rn c z :
  leftover Fnum clk w t rn = (c, Ok (Some z)) -> f_leb f_zero z = true /\ f_is_nan z = false.
Proof. exact (leftover_nonneg _ Fnum f_leb f_ok float_comp_facts clk w t rn c z). Qed.

(* expired is the float comparison elapsed > duration; for a duration that is a number: <-> not (elapsed <= duration) *)
Lemma F_expired_iff w t d c e :
  w_state w <> SNone -> w_duration w = Some d -> elapsed Fnum clk w t None = (c, Ok e) ->
  exists b, expired Fnum clk w t = (c, Ok b) /\ b = f_gtb e d /\ (f_is_nan d = false -> (b = true <-> f_leb e d = false)).
Proof. exact (expired_iff _ Fnum f_leb f_ok float_comp_facts clk w t d c e). Qed.

(* what elapsed computes on floats: max(0.0, now (-) started_at) with (-) the IEEE subtraction, cut at the maximum;
   on valid finite monotone readings whose differences do not overflow, now (-) started_at >= 0 *)
Lemma F_elapsed_running w t :
  reachable Fnum clk (w, t) -> w_state w = SStarted ->
  exists s, w_started w = Some s /\
    (forall m, elapsed Fnum clk w t m = ((w, S t), Ok (clamp_max Fnum m (max0 Fnum (f_sub (clk t) s))))) /\
    (f_clock_okb clk (S t) = true -> monotone_uptob f_leb clk (S t) = true -> f_leb f_zero (f_sub (clk t) s) = true).
Proof.
  intros HR HS. destruct (elapsed_running _ Fnum clk w t HR HS) as (i & Hi & Hst & HE).
  exists (clk i). split; [exact Hst|]. split; [exact HE|]. intros HC HM.
  apply (distance_nonneg _ Fnum f_leb clk f_okc f_sub_ok float_clock_facts (S t) i t (f_clock_okb_spec _ _ HC)
           (proj1 (monotone_uptob_spec _ _ _) HM)). lia.
Qed.

Lemma F_elapsed_stopped w t :
  reachable Fnum clk (w, t) -> w_state w = SStopped ->
  exists s p, w_started w = Some s /\ w_stopped w = Some p /\
    (forall m, elapsed Fnum clk w t m = ((w, t), Ok (clamp_max Fnum m (max0 Fnum (f_sub p s))))) /\
    (f_clock_okb clk t = true -> monotone_uptob f_leb clk t = true -> f_leb f_zero (f_sub p s) = true).
Proof.
  intros HR HS. destruct (elapsed_stopped _ Fnum clk w t HR HS) as (i & j & Hij & Hst & Hsp & HE).
  exists (clk i), (clk j). split; [exact Hst|]. split; [exact Hsp|]. split; [exact HE|]. intros HC HM.
  apply (distance_nonneg _ Fnum f_leb clk f_okc f_sub_ok float_clock_facts t i j (f_clock_okb_spec _ _ HC)
           (proj1 (monotone_uptob_spec _ _ _) HM)). lia.
Qed.

(* monotone clock => split elapsed values never decrease (IEEE subtraction and max(0.0, .) are monotone) *)
Lemma F_splits_sorted w t :
  reachable Fnum clk (w, t) -> f_clock_okb clk t = true -> monotone_uptob f_leb clk t = true ->
  StronglySorted (fun a b => f_leb a b = true) (map sp_elapsed (w_splits w)).
Proof.
  intros HR HC HM.
  exact (splits_sorted _ Fnum f_leb f_ok float_comp_facts clk f_okc f_sub_ok float_clock_facts w t HR
           (f_clock_okb_spec _ _ HC) (proj1 (monotone_uptob_spec _ _ _) HM)).
Qed.

End FloatCor.

(* ---------------------------------------------------------------- non-vacuity on real doubles *)
(* the clock 0.1, 0.2, 0.30000000000000004, 0.4, ... : (n+1) * 0.1 rounded (non-dyadic readings) *)
Definition f_tenth : float64 := f_normalize 3602879701896397 (-55).
Definition exf_clk (n : nat) : float64 := f_mul (f_normalize (Z.of_nat (S n)) 0) f_tenth.
Definition exf_watch : watch float64 := mkWatch SNone None None [] (Some (f_normalize 1 (-2))).   (* duration 0.25 *)

Example exf_running :
  let c := final Fnum exf_clk [OStart; OSplit; OSplit] exf_watch 0 in
  reachable Fnum exf_clk c /\ w_state (fst c) = SStarted /\
  f_clock_okb exf_clk 5 = true /\ monotone_uptob f_leb exf_clk 5 = true /\
  map float_hex (map sp_elapsed (w_splits (fst c))) = [lit "0x1.999999999999ap-4"; lit "0x1.999999999999bp-3"] /\
  (* 0.4 - 0.1 in binary64 is 0.30000000000000004, not 0.3: "the clock distance" is the IEEE difference *)
  option_map float_hex (match snd (elapsed Fnum exf_clk (fst c) 3 None) with Ok e => Some e | _ => None end)
    = Some (lit "0x1.3333333333334p-2") /\
  snd (expired Fnum exf_clk (fst c) 3) = Ok true.
Proof.
  split; [exists (Some (f_normalize 1 (-2))), exf_watch, [OStart; OSplit; OSplit]; split; reflexivity|].
  vm_compute. repeat split.
Qed.
