Require Import OV.Base.Bytes OV.Base.Py OV.Base.PyInt OV.Base.C11_Lib OV.Gen.C11_Netutils OV.Gen.C11_Code OV.Model.C11.
Lemma placeholder : True. Proof. exact I. Qed.
