(* Proofs/C11.v — oslo's own logic over the library models: scope rule, CIDR segment test,
   MAC pattern, integer ranges, totality; translator-equivalence lemmas (named ..._equiv). *)
From Coq Require Import String.
Require Import OV.Base.Bytes OV.Base.Py OV.Base.PyInt OV.Base.Str OV.Base.Regex OV.Base.C11_Lib.
Require Import OV.Gen.Unicode OV.Gen.C11_Netutils OV.Gen.C11_Code OV.Model.C11 OV.Model.C11_Spec.
Require Import OV.Proofs.C11_Split OV.Proofs.C11_V4 OV.Proofs.C11_V6 OV.Proofs.C11_Regex.
Open Scope N_scope.

(* ================================================================== rsplit *)
Lemma rsplit1_none c s : ~ In c s -> rsplit1 c s = (s, None).
Proof. intros H. unfold rsplit1. rewrite split_notin by exact H. reflexivity. Qed.

Lemma rsplit1_last c a sc : ~ In c sc -> rsplit1 c (a ++ c :: sc) = (a, Some sc).
Proof.
  intros H. unfold rsplit1. rewrite split_app, (split_notin c sc H).
  pose proof (split_nonnil c a) as Hne. pose proof (join_split c a) as J.
  rewrite app_length. cbn [length].
  replace (length (split_char c a) + 1 <=? 1)%nat with false.
  2:{ symmetry. apply Nat.leb_gt. destruct (split_char c a); [congruence|cbn; lia]. }
  rewrite removelast_last, last_last, J. reflexivity.
Qed.

Lemma last_occurrence (c : N) (s : str) : In c s -> exists a sc, s = a ++ c :: sc /\ ~ In c sc.
Proof.
  induction s as [|x t IH]; intros H; [destruct H|].
  destruct (in_dec N.eq_dec c t) as [Hin|Hnot].
  - destruct (IH Hin) as [a [sc [-> Hsc]]]. exists (x :: a), sc. split; [reflexivity|exact Hsc].
  - destruct H as [->|H]; [|contradiction]. exists [], t. split; [reflexivity|exact Hnot].
Qed.

(* ================================================================== is_valid_ipv6 *)
Definition v6_char (c : N) : bool := is_hex c || (c =? 58) || (c =? 46).

Lemma h16_chars f : h16 f -> forallb v6_char f = true.
Proof.
  intros [_ H]. rewrite forallb_forall. rewrite Forall_forall in H. intros c Hc.
  specialize (H c Hc). apply is_hex_iff in H. unfold v6_char. rewrite H. reflexivity.
Qed.

Lemma quad_v6_chars q : dotted_quad q -> forallb v6_char q = true.
Proof.
  intros Q. apply quad_chars in Q. revert Q. apply forallb_impl.
  intros c. unfold quad_char, v6_char, is_hex, ascii_digit. lia.
Qed.

Lemma colons_chars l : Forall (fun f => forallb v6_char f = true) l -> forallb v6_char (colons l) = true.
Proof. apply join_forallb. reflexivity. Qed.

Lemma ipv6_text_chars s : ipv6_text s -> forallb v6_char s = true.
Proof.
  assert (HH : forall l, Forall h16 l -> Forall (fun f => forallb v6_char f = true) l).
  { intros l. apply Forall_impl. exact h16_chars. }
  assert (HQ : forall l q, Forall h16 l -> dotted_quad q -> Forall (fun f => forallb v6_char f = true) (l ++ [q])).
  { intros l q Hl Q. apply Forall_app. split; [apply HH, Hl|constructor; [apply quad_v6_chars, Q|constructor]]. }
  intros [[g [Hg [_ ->]]]|[[g [q [Hg [_ [Q ->]]]]]|[[l [r [Hl [Hr [_ ->]]]]]|[l [r [q [Hl [Hr [Q [_ ->]]]]]]]]]].
  - apply colons_chars, HH, Hg.
  - apply colons_chars, HQ; assumption.
  - rewrite !forallb_app, !colons_chars by (apply HH; assumption). reflexivity.
  - rewrite !forallb_app, !colons_chars by (first [apply HH; assumption|apply HQ; assumption]). reflexivity.
Qed.

Lemma ipv6_text_nonempty s : ipv6_text s -> s <> [].
Proof. intros H E. subst s. apply pton6b_iff in H. discriminate. Qed.

Lemma v6_chars_no_percent s : forallb v6_char s = true -> ~ In 37 s.
Proof. intros H Hin. rewrite forallb_forall in H. specialize (H _ Hin). discriminate. Qed.

Lemma v6_chars_cstr s : forallb v6_char s = true -> cstr_ok s = true.
Proof. apply forallb_impl. intros c. unfold v6_char, is_hex, cstr_char_ok. lia. Qed.

Lemma netaddr_v6_true_iff a : netaddr_valid_ipv6 a = AOk true <-> ipv6_text a.
Proof.
  unfold netaddr_valid_ipv6, inet_pton. split.
  - destruct (cstr_ok a); cbn [negb]; [|discriminate].
    destruct (pton6b a) eqn:E; [|discriminate]. intros _. apply pton6b_iff. exact E.
  - intros H. rewrite (v6_chars_cstr a (ipv6_text_chars a H)). cbn [negb].
    apply pton6b_iff in H. rewrite H. reflexivity.
Qed.

Lemma scope_ok sc :
  ((zlen sc <? scope_min)%Z || (zlen sc >? scope_max)%Z || existsb (N.eqb scope_forbidden) sc) = false <->
  (1 <= length sc <= 15)%nat /\ ~ In 47 sc.
Proof.
  change scope_forbidden with 47. rewrite orb_false_iff.
  assert (E : existsb (N.eqb 47) sc = false <-> ~ In 47 sc).
  { split.
    - intros H Hin. assert (X : existsb (N.eqb 47) sc = true) by (apply existsb_exists; exists 47; split; [exact Hin|apply N.eqb_refl]). congruence.
    - intros H. destruct (existsb (N.eqb 47) sc) eqn:X; [|reflexivity]. apply existsb_exists in X. destruct X as [x [Hin Hx]].
      apply N.eqb_eq in Hx. subst x. contradiction. }
  rewrite E. unfold zlen, blen, scope_min, scope_max. split; intros [H1 H2]; split; try exact H2; lia.
Qed.

Theorem is_valid_ipv6_iff s : is_valid_ipv6 s = AOk true <-> ipv6_scoped_text s.
Proof.
  unfold is_valid_ipv6, ipv6_scoped_text. change scope_sep with 37. split.
  - destruct s as [|c0 t0]; [discriminate|]. set (s := c0 :: t0).
    destruct (in_dec N.eq_dec 37 s) as [Hin|Hnot].
    + destruct (last_occurrence 37 s Hin) as [a [sc [E Hsc]]]. rewrite E, (rsplit1_last 37 a sc Hsc).
      match goal with |- context [if ?b then _ else _] => destruct b eqn:B end; [discriminate|].
      rewrite guard_true, netaddr_v6_true_iff. intros H. right. exists a, sc. apply scope_ok in B. destruct B as [L S].
      repeat split; [exact H|lia|lia|exact Hsc|exact S].
    + rewrite (rsplit1_none 37 s Hnot). rewrite guard_true, netaddr_v6_true_iff. intros H. left. exact H.
  - intros [H|[a [sc [H [L [Hsc [Hsl ->]]]]]]].
    + pose proof (ipv6_text_nonempty s H) as Hne. destruct s as [|c0 t0]; [congruence|].
      rewrite rsplit1_none by (apply v6_chars_no_percent, ipv6_text_chars, H).
      rewrite guard_true, netaddr_v6_true_iff. exact H.
    + pose proof (ipv6_text_nonempty a H) as Hne. destruct a as [|c0 t0]; [congruence|].
      cbn [app]. change (c0 :: t0 ++ 37 :: sc) with ((c0 :: t0) ++ 37 :: sc).
      rewrite (rsplit1_last 37 _ sc Hsc).
      match goal with |- context [if ?b then _ else _] => replace b with false by (symmetry; apply scope_ok; split; assumption) end.
      rewrite guard_true, netaddr_v6_true_iff. exact H.
Qed.

(* no '/' anywhere in an accepted address (agreement with ipaddress, which refuses any '/') *)
Theorem is_valid_ipv6_no_slash s : is_valid_ipv6 s = AOk true -> ~ In 47 s.
Proof.
  intros V Hin. apply is_valid_ipv6_iff in V.
  assert (T : forall a, ipv6_text a -> ~ In 47 a).
  { intros a Ha Hi. apply ipv6_text_chars in Ha. rewrite forallb_forall in Ha. specialize (Ha _ Hi). discriminate. }
  destruct V as [V|[a [sc [Ha [_ [_ [Hsl ->]]]]]]]; [exact (T _ V Hin)|].
  apply in_app_or in Hin. destruct Hin as [Hi|Hi]; [exact (T _ Ha Hi)|].
  cbn [app] in Hi. destruct Hi as [Hi|Hi]; [discriminate|contradiction].
Qed.

(* ================================================================== is_valid_ipv4 (non-strict), is_valid_ip *)
Lemma ipv4_caught_covers e : caught [AValueError; AAddrFormatError] e = true -> caught ipv4_caught e = true.
Proof. destruct e; cbn; intros H; try discriminate; reflexivity. Qed.
Lemma ipv6_caught_covers e : caught [AValueError; AAddrFormatError] e = true -> caught ipv6_caught e = true.
Proof. destruct e; cbn; intros H; try discriminate; reflexivity. Qed.
Lemma cidr_caught_covers e : caught [AValueError; ATypeError; AAddrFormatError] e = true -> caught cidr_caught e = true.
Proof. destruct e; cbn; intros H; try discriminate; reflexivity. Qed.
Lemma v6cidr_caught_covers e : caught [AValueError; ATypeError; AAddrFormatError] e = true -> caught v6cidr_caught e = true.
Proof. destruct e; cbn; intros H; try discriminate; reflexivity. Qed.

Lemma ipv4_nonstrict_logic aton s : is_valid_ipv4 false aton s = AOk true <-> s <> [] /\ aton = AOk true.
Proof.
  unfold is_valid_ipv4. destruct s as [|c t].
  - split; [discriminate|intros [H _]; congruence].
  - rewrite guard_true. split; [intros H; split; [discriminate|exact H]|intros [_ H]; exact H].
Qed.

Lemma ipv4_nonstrict_total aton s : aton_contract aton = true -> exists b, is_valid_ipv4 false aton s = AOk b.
Proof.
  intros C. unfold is_valid_ipv4. destruct s as [|c t]; [exists false; reflexivity|].
  destruct aton as [b|e]; cbn [guard]; [exists b; reflexivity|].
  cbn [aton_contract] in C. rewrite (ipv4_caught_covers e C). exists false. reflexivity.
Qed.

Theorem is_valid_ip_logic aton s : aton_contract aton = true ->
  (is_valid_ip aton s = AOk true <-> s <> [] /\ (aton = AOk true \/ ipv6_scoped_text s)).
Proof.
  intros C. unfold is_valid_ip. change ip_v4_strict with false.
  destruct (ipv4_nonstrict_total aton s C) as [b Hb]. rewrite Hb. destruct b.
  - apply ipv4_nonstrict_logic in Hb. destruct Hb as [Hne ->]. split; [intros _; split; [exact Hne|left; reflexivity]|reflexivity].
  - rewrite is_valid_ipv6_iff. split.
    + intros H. split; [|right; exact H]. intros ->. destruct H as [H|[a [sc [_ [_ [_ [_ H]]]]]]].
      * apply ipv6_text_nonempty in H. congruence.
      * destruct a; discriminate.
    + intros [Hne [Ha|H]]; [|exact H]. subst aton.
      destruct (ipv4_nonstrict_logic (AOk true) s) as [_ X]. rewrite X in Hb by (split; [exact Hne|reflexivity]). discriminate.
Qed.

(* ================================================================== is_valid_cidr *)
Theorem is_valid_cidr_logic net s :
  is_valid_cidr net s = AOk true <->
  (exists b, net = AOk b) /\
  exists a p more, ~ In 47 a /\ ~ In 47 p /\ p <> [] /\ s = a ++ [47] ++ p ++ more /\ (more = [] \/ exists m, more = 47 :: m).
Proof.
  unfold is_valid_cidr. change cidr_sep with 47. change cidr_seg_bad_max with 1%Z.
  pose proof (join_split 47 s) as J. pose proof (split_fields 47 s) as F.
  split.
  - destruct net as [b|e]; [|destruct (caught cidr_caught e); discriminate].
    destruct (split_char 47 s) as [|a [|p rest]] eqn:E; cbn [length]; try (intros H; discriminate).
    replace (Z.of_nat (S (S (length rest))) <=? 1)%Z with false by lia.
    intros H. injection H as H. apply negb_true_iff in H.
    split; [exists b; reflexivity|].
    pose proof (Forall_inv F) as Fa. pose proof (Forall_inv (Forall_inv_tail F)) as Fp. cbv beta in Fa, Fp.
    exists a, p. destruct rest as [|r rest'].
    + exists []. cbn [join app] in J. repeat split; try assumption.
      * intros ->. discriminate.
      * rewrite app_nil_r. symmetry. exact J.
      * left. reflexivity.
    + exists (47 :: join [47] (r :: rest')). repeat split; try assumption.
      * intros ->. discriminate.
      * rewrite <- J. rewrite (join_cons_ne [47] a) by discriminate. rewrite (join_cons_ne [47] p) by discriminate. reflexivity.
      * right. eexists. reflexivity.
  - intros [[b ->] [a [p [more [Ha [Hp [Hne [-> Hm]]]]]]]].
    assert (S : exists rest, split_char 47 (a ++ [47] ++ p ++ more) = a :: p :: rest).
    { cbn [app]. rewrite split_app, (split_notin 47 a Ha). destruct Hm as [->|[m ->]].
      - rewrite app_nil_r, (split_notin 47 p Hp). exists []. reflexivity.
      - rewrite split_app, (split_notin 47 p Hp). eexists. reflexivity. }
    destruct S as [rest ->]. cbn [length].
    match goal with |- context [if ?c then _ else _] => destruct c eqn:Eq end; [lia|].
    destruct p; [congruence|reflexivity].
Qed.

Lemma is_valid_cidr_total net s : net_contract net = true -> exists b, is_valid_cidr net s = AOk b.
Proof.
  intros C. unfold is_valid_cidr. change cidr_seg_bad_max with 1%Z. destruct net as [b|e].
  - destruct (split_char cidr_sep s) as [|a [|p rest]]; cbn [length].
    + exists false. reflexivity.
    + exists false. reflexivity.
    + replace (Z.of_nat (S (S (length rest))) <=? 1)%Z with false by lia. eexists. reflexivity.
  - cbn [net_contract] in C. rewrite (cidr_caught_covers e C). exists false. reflexivity.
Qed.

Theorem is_valid_ipv6_cidr_logic net6 s : is_valid_ipv6_cidr net6 s = AOk true <-> exists b, net6 = AOk b.
Proof.
  unfold is_valid_ipv6_cidr. destruct net6 as [b|e].
  - split; [intros _; exists b; reflexivity|reflexivity].
  - split; [destruct (caught v6cidr_caught e); discriminate|intros [b H]; discriminate].
Qed.

Lemma is_valid_ipv6_cidr_total net6 s : net_contract net6 = true -> exists b, is_valid_ipv6_cidr net6 s = AOk b.
Proof.
  intros C. unfold is_valid_ipv6_cidr. destruct net6 as [b|e]; [exists true; reflexivity|].
  cbn [net_contract] in C. rewrite (v6cidr_caught_covers e C). exists false. reflexivity.
Qed.

(* ================================================================== totality of the fully modelled validators *)
Lemma inet_pton_outcomes v6 s : inet_pton v6 s = AOk true \/ inet_pton v6 s = ARaise AValueError \/ inet_pton v6 s = ARaise AOSError.
Proof.
  unfold inet_pton. destruct (cstr_ok s); cbn [negb]; [|right; left; reflexivity].
  destruct (if v6 then pton6b s else pton4b s); [left|right; right]; reflexivity.
Qed.

Lemma is_valid_ipv4_strict_total aton s : exists b, is_valid_ipv4 true aton s = AOk b.
Proof.
  unfold is_valid_ipv4. destruct s as [|c t]; [exists false; reflexivity|]. set (s := c :: t).
  unfold netaddr_valid_ipv4_pton.
  destruct (existsb (N.eqb 58) s); [exists false; reflexivity|].
  destruct (existsb leading_zero_part (split_char 46 s)); [exists false; reflexivity|].
  destruct (inet_pton_outcomes false s) as [H|[H|H]]; rewrite H; cbn [guard].
  - exists true. reflexivity.
  - rewrite (ipv4_caught_covers AValueError eq_refl). exists false. reflexivity.
  - exists false. reflexivity.
Qed.

Lemma is_valid_ipv6_total s : exists b, is_valid_ipv6 s = AOk b.
Proof.
  unfold is_valid_ipv6. destruct s as [|c t]; [exists false; reflexivity|]. set (s := c :: t).
  destruct (rsplit1 scope_sep s) as [addr scope].
  match goal with |- context [if ?b then _ else _] => destruct b end; [exists false; reflexivity|].
  unfold netaddr_valid_ipv6.
  destruct (inet_pton_outcomes true addr) as [H|[H|H]]; rewrite H; cbn [guard].
  - exists true. reflexivity.
  - rewrite (ipv6_caught_covers AValueError eq_refl). exists false. reflexivity.
  - exists false. reflexivity.
Qed.

Lemma is_valid_ip_total aton s : aton_contract aton = true -> exists b, is_valid_ip aton s = AOk b.
Proof.
  intros C. unfold is_valid_ip. destruct (ipv4_nonstrict_total aton s C) as [b Hb].
  change ip_v4_strict with false. rewrite Hb. destruct b; [exists true; reflexivity|apply is_valid_ipv6_total].
Qed.

(* ================================================================== is_valid_mac *)
(* the pattern, read off the GENERATED regex: hex hex (':' hex hex) x 5, then \Z (mac_eos) *)
Definition mac_pat : list bool :=
  [true; true; false; true; true; false; true; true; false; true; true; false; true; true; false; true; true].
Definition cls_of (b : bool) : cset := if b then [(48, 57); (97, 102)] else [(58, 58)].

Lemma mac_re_flat : flat mac_re = Some (map cls_of mac_pat).
Proof. vm_compute. reflexivity. Qed.

Definition low_class (b : bool) (c : N) : Prop :=
  if b then (48 <= c <= 57) \/ (97 <= c <= 102) else c = 58.
Definition up_class (b : bool) (c : N) : Prop := if b then hex_char c else c = 58.

Lemma in_cls_of b c : in_cs (cls_of b) c <-> low_class b c.
Proof. unfold in_cs, cls_of, low_class. destruct b; cbn [cmem]; lia. Qed.

Lemma fits_cls pat t : fits (map cls_of pat) t <-> Forall2 low_class pat t.
Proof.
  unfold fits. revert t. induction pat as [|b pat IH]; intros t; cbn [map].
  - split; intros H; inversion H; constructor.
  - split; intros H; inversion H as [|? c ? t' Hc Ht]; subst; constructor; try (apply in_cls_of; exact Hc); apply IH; exact Ht.
Qed.

Theorem mac_re_match L : re_match_eos mac_re L = true <-> Forall2 low_class mac_pat L.
Proof.
  rewrite <- fits_cls, <- (flat_eos_match mac_re _ L mac_re_flat). unfold re_match_eos.
  destruct (m _ mac_re L 0 [] _); split; intros H; try reflexivity; try discriminate; congruence.
Qed.

(* ---------- str.lower() on the MAC alphabet ---------- *)
(* lowered alphabet: 0-9 a-f ':' '\n' ; original alphabet adds A-F *)
Definition inA (c : N) : bool := ((48 <=? c) && (c <=? 57)) || ((97 <=? c) && (c <=? 102)) || (c =? 58) || (c =? 10).
Definition inAU (c : N) : bool := inA c || ((65 <=? c) && (c <=? 70)).

Lemma lower_run_In c runs l : lower_run c runs = Some l ->
  exists lo hi tgt, In (lo, hi, tgt) runs /\ lo <= c <= hi /\ l = c - lo + tgt.
Proof.
  induction runs as [|[[lo hi] tgt] t IH]; cbn [lower_run]; [discriminate|].
  destruct ((lo <=? c) && (c <=? hi)) eqn:E.
  - intros [= <-]. exists lo, hi, tgt. split; [left; reflexivity|]. split; [lia|reflexivity].
  - intros H. destruct (IH H) as [lo' [hi' [tgt' [Hin R]]]]. exists lo', hi', tgt'. split; [right; exact Hin|exact R].
Qed.

Lemma lower_multi_In c l v : lower_multi_find c l = Some v -> exists k, In (k, v) l.
Proof.
  induction l as [|[k w] t IH]; cbn [lower_multi_find]; [discriminate|].
  destruct (k =? c).
  - intros [= <-]. exists k. left. reflexivity.
  - intros H. destruct (IH H) as [k' Hin]. exists k'. right. exact Hin.
Qed.

(* facts about the GENERATED Unicode tables, by computation *)
Definition run_safe (r : N * N * N) : bool :=
  let '(lo, hi, tgt) := r in ((lo =? 65) && (hi =? 90) && (tgt =? 97)) || (102 <? tgt).
Lemma lower_runs_safe : forallb run_safe lower_runs = true.
Proof. vm_compute. reflexivity. Qed.
Lemma lower_multi_safe : forallb (fun kv : N * list N => negb (forallb inA (snd kv))) lower_multi = true.
Proof. vm_compute. reflexivity. Qed.

Lemma lower_ascii1_A c : inA (lower_ascii1 c) = true -> inAU c = true.
Proof. unfold lower_ascii1, inAU, inA. destruct ((65 <=? c) && (c <=? 90)) eqn:E; lia. Qed.

Lemma lower1_safe c : forallb inA (py_lower1 c) = true -> py_lower1 c = [lower_ascii1 c].
Proof.
  unfold py_lower1. destruct (lower_run c lower_runs) as [l|] eqn:R.
  - cbn [forallb]. rewrite andb_true_r. intros Hl.
    destruct (lower_run_In _ _ _ R) as [lo [hi [tgt [Hin [Hc ->]]]]].
    pose proof lower_runs_safe as S. rewrite forallb_forall in S. specialize (S _ Hin). cbn [run_safe] in S.
    apply orb_true_iff in S. destruct S as [S|S].
    + assert (lo = 65 /\ hi = 90 /\ tgt = 97) as [-> [-> ->]] by lia.
      unfold lower_ascii1. replace ((65 <=? c) && (c <=? 90)) with true by lia. f_equal. lia.
    + unfold inA in Hl. lia.
  - destruct (lower_multi_find c lower_multi) as [v|] eqn:M.
    + intros Hv. destruct (lower_multi_In _ _ _ M) as [k Hin].
      pose proof lower_multi_safe as S. rewrite forallb_forall in S. specialize (S _ Hin). cbn [snd] in S.
      rewrite Hv in S. discriminate.
    + cbn [forallb]. rewrite andb_true_r. intros Hc. f_equal.
      unfold lower_ascii1. replace ((65 <=? c) && (c <=? 90)) with false by (unfold inA in Hc; lia). reflexivity.
Qed.

Lemma lower_AU c : inAU c = true -> py_lower1 c = [lower_ascii1 c].
Proof.
  intros H. assert (Hc : c < 103) by (unfold inAU, inA in H; lia).
  apply beq_eq. revert c Hc H.
  assert (X : forall c, c < N.of_nat 103 -> implb (inAU c) (beq (py_lower1 c) [lower_ascii1 c]) = true).
  { apply forall_below. vm_compute. reflexivity. }
  intros c Hc H. specialize (X c Hc). rewrite H in X. exact X.
Qed.

Lemma py_lower_safe s : forallb inA (py_lower s) = true ->
  py_lower s = map lower_ascii1 s /\ forallb inAU s = true.
Proof.
  unfold py_lower. induction s as [|c t IH]; cbn [flat_map map forallb]; [split; reflexivity|].
  rewrite forallb_app, andb_true_iff. intros [Hc Ht]. destruct (IH Ht) as [E F].
  pose proof (lower1_safe c Hc) as L. rewrite L in Hc |- *. cbn [forallb] in Hc. rewrite andb_true_r in Hc.
  split; [cbn [app]; f_equal; exact E|]. rewrite (lower_ascii1_A c Hc), F. reflexivity.
Qed.

Lemma py_lower_AU s : forallb inAU s = true -> py_lower s = map lower_ascii1 s.
Proof.
  unfold py_lower. induction s as [|c t IH]; cbn [flat_map map forallb]; [reflexivity|].
  rewrite andb_true_iff. intros [Hc Ht]. rewrite (lower_AU c Hc), (IH Ht). reflexivity.
Qed.

(* ---------- classes before and after lowering ---------- *)
Lemma low_inA b c : low_class b c -> inA c = true.
Proof. unfold low_class, inA. destruct b; lia. Qed.

Lemma low_up b c : low_class b (lower_ascii1 c) -> up_class b c.
Proof.
  unfold low_class, up_class, hex_char, lower_ascii1. destruct b; destruct ((65 <=? c) && (c <=? 90)) eqn:E; lia.
Qed.

Lemma up_low b c : up_class b c -> low_class b (lower_ascii1 c).
Proof.
  unfold low_class, up_class, hex_char, lower_ascii1. destruct b; destruct ((65 <=? c) && (c <=? 90)) eqn:E; lia.
Qed.

Lemma up_inAU b c : up_class b c -> inAU c = true.
Proof. unfold up_class, hex_char, inAU, inA. destruct b; lia. Qed.

Lemma Forall2_low_inA pat t : Forall2 low_class pat t -> forallb inA t = true.
Proof. intros H. induction H as [|b c pat t Hc _ IH]; [reflexivity|]. cbn [forallb]. rewrite (low_inA b c Hc), IH. reflexivity. Qed.

Lemma Forall2_up_inAU pat t : Forall2 up_class pat t -> forallb inAU t = true.
Proof. intros H. induction H as [|b c pat t Hc _ IH]; [reflexivity|]. cbn [forallb]. rewrite (up_inAU b c Hc), IH. reflexivity. Qed.

Lemma Forall2_low_up pat t : Forall2 low_class pat (map lower_ascii1 t) <-> Forall2 up_class pat t.
Proof.
  revert t. induction pat as [|b pat IH]; intros t.
  - split; intros H; inversion H as [|? ? ? ? ? ? E1 E2]; [destruct t; [constructor|discriminate]|constructor].
  - split; intros H.
    + destruct t as [|c t']; [inversion H|]. cbn [map] in H. inversion H as [|? ? ? ? Hc Ht]; subst.
      constructor; [apply low_up; exact Hc|apply IH; exact Ht].
    + inversion H as [|? c ? t' Hc Ht]; subst. cbn [map]. constructor; [apply up_low; exact Hc|apply IH; exact Ht].
Qed.

(* ---------- the 17-character shape <-> six pairs joined by ':' ---------- *)
Lemma hex_pair_intro a b : hex_char a -> hex_char b -> hex_pair [a; b].
Proof. intros Ha Hb. split; [reflexivity|]. constructor; [exact Ha|]. constructor; [exact Hb|constructor]. Qed.

Lemma mac_shape_text t : Forall2 up_class mac_pat t <-> mac_text t.
Proof.
  unfold mac_text, mac_pat. split.
  - intros H.
    repeat match goal with
           | H : Forall2 up_class (_ :: _) _ |- _ => inversion H; clear H; subst
           | H : Forall2 up_class [] _ |- _ => inversion H; clear H; subst
           end.
    cbn [up_class] in *. subst.
    match goal with
    | |- exists ps, _ /\ _ /\ [?a1; ?b1; _; ?a2; ?b2; _; ?a3; ?b3; _; ?a4; ?b4; _; ?a5; ?b5; _; ?a6; ?b6] = colons ps =>
        exists [[a1; b1]; [a2; b2]; [a3; b3]; [a4; b4]; [a5; b5]; [a6; b6]]
    end.
    split; [reflexivity|]. split; [|reflexivity].
    repeat (apply Forall_cons; [apply hex_pair_intro; assumption|]). apply Forall_nil.
  - intros [ps [L [F ->]]].
    destruct ps as [|p1 [|p2 [|p3 [|p4 [|p5 [|p6 [|p7 ps]]]]]]]; try discriminate.
    repeat match goal with
           | H : Forall hex_pair (_ :: _) |- _ => inversion H; clear H; subst
           end.
    repeat match goal with
           | H : hex_pair ?p |- _ =>
               let HL := fresh in let HF := fresh in destruct H as [HL HF];
               destruct p as [|? [|? [|? ?]]]; try discriminate HL; clear HL;
               inversion HF as [|? ? ? HF2]; clear HF; subst; inversion HF2; clear HF2; subst
           end.
    cbn [colons join app].
    repeat (apply Forall2_cons; [cbn [up_class]; first [assumption|reflexivity]|]). apply Forall2_nil.
Qed.

Theorem is_valid_mac_iff s : is_valid_mac s = true <-> mac_text s.
Proof.
  unfold is_valid_mac. change mac_eos with true. cbv iota. rewrite mac_re_match. split.
  - intros H. pose proof (Forall2_low_inA _ _ H) as HA.
    destruct (py_lower_safe s HA) as [EL _]. rewrite EL in H.
    apply mac_shape_text, Forall2_low_up. exact H.
  - intros H. apply mac_shape_text in H.
    rewrite (py_lower_AU s (Forall2_up_inAU _ _ H)). apply Forall2_low_up. exact H.
Qed.

Lemma Forall2_len {A B} (P : A -> B -> Prop) l t : Forall2 P l t -> length t = length l.
Proof. intros H. induction H; cbn; [reflexivity|lia]. Qed.

Lemma mac_text_length t : mac_text t -> length t = 17%nat.
Proof. intros H. apply mac_shape_text in H. apply Forall2_len in H. exact H. Qed.

(* ================================================================== _is_int_in_range, port, ICMP *)
(* translator equivalence: the statement-level translations of the four functions
   (Gen/C11_Code.v, regenerated from the source on every run) equal the hand model *)
Lemma is_int_in_range_equiv v lo hi : gen_is_int_in_range v lo hi = is_int_in_range v lo hi.
Proof.
  unfold gen_is_int_in_range, is_int_in_range. destruct (py_int_of v) as [z|e]; [reflexivity|].
  destruct e; reflexivity.
Qed.

Lemma res_eta (r : res bool) : match r with Exn e => Exn e | Ok x => Ok x end = r.
Proof. destruct r; reflexivity. Qed.

Lemma is_valid_port_equiv v : gen_is_valid_port v = is_valid_port v.
Proof. unfold gen_is_valid_port, is_valid_port. rewrite is_int_in_range_equiv. apply res_eta. Qed.

Lemma is_valid_icmp_type_equiv v : gen_is_valid_icmp_type v = is_valid_icmp_type v.
Proof. unfold gen_is_valid_icmp_type, is_valid_icmp_type. rewrite is_int_in_range_equiv. apply res_eta. Qed.

Lemma is_valid_icmp_code_equiv v : gen_is_valid_icmp_code v = is_valid_icmp_code v.
Proof.
  unfold gen_is_valid_icmp_code, is_valid_icmp_code. destruct v; cbn [pyval_is_none]; try reflexivity;
    rewrite is_int_in_range_equiv; apply res_eta.
Qed.

Lemma is_int_in_range_iff v lo hi :
  is_int_in_range v lo hi = Ok true <-> exists z, pyint v = Some z /\ (lo <= z <= hi)%Z.
Proof.
  unfold is_int_in_range, pyint. destruct (py_int_of v) as [z|e].
  - split.
    + intros [= H]. exists z. split; [reflexivity|lia].
    + intros [z' [[= <-] H]]. f_equal. lia.
  - split; [destruct e; discriminate|intros [z [H _]]; discriminate].
Qed.

Lemma py_int_of_exn v e : py_int_of v = Exn e -> e = ValueError \/ e = TypeError.
Proof.
  destruct v as [s|z|b|]; cbn [py_int_of].
  - destruct (py_int_str s); [discriminate|]. intros [= <-]. left. reflexivity.
  - discriminate.
  - discriminate.
  - intros [= <-]. right. reflexivity.
Qed.

Lemma is_int_in_range_total v lo hi : exists b, is_int_in_range v lo hi = Ok b.
Proof.
  unfold is_int_in_range. destruct (py_int_of v) as [z|e] eqn:E; [eexists; reflexivity|].
  destruct (py_int_of_exn v e E) as [-> | ->]; exists false; reflexivity.
Qed.

Theorem port_iff v : gen_is_valid_port v = Ok true <-> exists z, pyint v = Some z /\ (0 <= z <= 65535)%Z.
Proof. rewrite is_valid_port_equiv. apply is_int_in_range_iff. Qed.

Theorem icmp_type_iff v : gen_is_valid_icmp_type v = Ok true <-> exists z, pyint v = Some z /\ (0 <= z <= 255)%Z.
Proof. rewrite is_valid_icmp_type_equiv. apply is_int_in_range_iff. Qed.

Theorem icmp_code_iff v : gen_is_valid_icmp_code v = Ok true <->
  v = VNone \/ exists z, pyint v = Some z /\ (0 <= z <= 255)%Z.
Proof.
  rewrite is_valid_icmp_code_equiv. unfold is_valid_icmp_code. destruct v as [s|z|b|].
  - rewrite is_int_in_range_iff. split; [intros H; right; exact H|intros [H|H]; [discriminate|exact H]].
  - rewrite is_int_in_range_iff. split; [intros H; right; exact H|intros [H|H]; [discriminate|exact H]].
  - rewrite is_int_in_range_iff. split; [intros H; right; exact H|intros [H|H]; [discriminate|exact H]].
  - split; [intros _; left; reflexivity|reflexivity].
Qed.

Theorem int_validators_total v :
  (exists b, gen_is_valid_port v = Ok b) /\ (exists b, gen_is_valid_icmp_type v = Ok b) /\ (exists b, gen_is_valid_icmp_code v = Ok b).
Proof.
  rewrite is_valid_port_equiv, is_valid_icmp_type_equiv, is_valid_icmp_code_equiv.
  unfold is_valid_port, is_valid_icmp_type, is_valid_icmp_code.
  repeat split; try apply is_int_in_range_total.
  destruct v; try apply is_int_in_range_total. exists true. reflexivity.
Qed.

(* int() of the str forms: decimal text of an integer is read back (Base/PyInt) *)
Lemma pyint_dec z : pyint (VStr (dec_of_Z z)) = Some z.
Proof.
  unfold pyint, py_int_of, py_int_str.
  replace (existsb is_ascii_sep (dec_of_Z z)) with false.
  - rewrite py_int_dec_of_Z. reflexivity.
  - symmetry. apply existsb_false_forallb.
    assert (D : forall n, forallb (fun x => negb (is_ascii_sep x)) (dec_of_N n) = true).
    { intros n. pose proof (dec_of_N_digits n) as H. unfold all_ascii_digits in H. revert H. apply forallb_impl.
      intros c. unfold ascii_digit, is_ascii_sep. lia. }
    destruct z as [|p|p]; cbn [dec_of_Z]; [reflexivity|apply D|]. cbn [forallb]. rewrite D. reflexivity.
Qed.

(* ================================================================== all validators answer *)
Theorem validators_total_modelled s :
  (exists b, is_valid_ipv4 ipv4_strict_default (ARaise AOther) s = AOk b) /\
  (exists b, is_valid_ipv6 s = AOk b) /\
  (exists b, is_valid_mac s = b).
Proof.
  change ipv4_strict_default with true.
  split; [apply is_valid_ipv4_strict_total|]. split; [apply is_valid_ipv6_total|]. eexists. reflexivity.
Qed.

Theorem validators_total_oracles aton net net6 s :
  aton_contract aton = true -> net_contract net = true -> net_contract net6 = true ->
  (exists b, is_valid_ipv4 false aton s = AOk b) /\
  (exists b, is_valid_ip aton s = AOk b) /\
  (exists b, is_valid_cidr net s = AOk b) /\
  (exists b, is_valid_ipv6_cidr net6 s = AOk b).
Proof.
  intros Ca Cn C6. repeat split.
  - apply ipv4_nonstrict_total, Ca.
  - apply is_valid_ip_total, Ca.
  - apply is_valid_cidr_total, Cn.
  - apply is_valid_ipv6_cidr_total, C6.
Qed.

(* the contract is needed: an exception outside it escapes (this is what D6 was, before ValueError was caught) *)
Example oracle_contract_needed : is_valid_cidr (ARaise AOSError) (lit "10.0.0.0/8") = ARaise AOSError.
Proof. reflexivity. Qed.

(* the default of is_valid_ipv4 is the strict mode *)
Lemma ipv4_default_strict : ipv4_strict_default = true.
Proof. reflexivity. Qed.

(* ================================================================== non-vacuity: instances of the grammars and of the hypotheses *)
Example ex_quad : dotted_quad (lit "192.168.0.255").
Proof. apply pton4b_iff. vm_compute. reflexivity. Qed.
Example ex_quad_not : ~ dotted_quad (lit "192.168.0.256") /\ ~ dotted_quad (lit "192.168.00.1") /\ ~ dotted_quad (lit "1.2.3").
Proof. repeat split; intros H; apply pton4b_iff in H; vm_compute in H; discriminate. Qed.
Example ex_v6_full : ipv6_text (lit "2001:db8:0:0:8:800:200C:417A").
Proof. apply pton6b_iff. vm_compute. reflexivity. Qed.
Example ex_v6_compressed : ipv6_text (lit "fe80::1") /\ ipv6_text (lit "::") /\ ipv6_text (lit "1:2:3:4:5:6:7::").
Proof. repeat split; apply pton6b_iff; vm_compute; reflexivity. Qed.
Example ex_v6_embedded : ipv6_text (lit "::ffff:1.2.3.4") /\ ipv6_text (lit "1:2:3:4:5:6:1.2.3.4").
Proof. repeat split; apply pton6b_iff; vm_compute; reflexivity. Qed.
Example ex_v6_not : ~ ipv6_text (lit "1:2:3:4:5:6:7::8") /\ ~ ipv6_text (lit "1:2:3:4:5:6::1.2.3.4") /\ ~ ipv6_text (lit "1::2::3") /\ ~ ipv6_text (lit "12345::").
Proof. repeat split; intros H; apply pton6b_iff in H; vm_compute in H; discriminate. Qed.
Example ex_v6_scoped : ipv6_scoped_text (lit "fe80::1%eth0") /\ ~ ipv6_scoped_text (lit "fe80::1%") /\ ~ ipv6_scoped_text (lit "fe80::1%0123456789abcdef")
  /\ ~ ipv6_scoped_text (lit "fe80::1%eth0/64").
Proof.
  repeat split; [apply is_valid_ipv6_iff; vm_compute; reflexivity| | |]; intros H; apply is_valid_ipv6_iff in H; vm_compute in H; discriminate.
Qed.
Example ex_mac : mac_text (lit "00:1B:44:11:3a:B7") /\ ~ mac_text (lit "00:1B:44:11:3a:B7" ++ [10]) /\ ~ mac_text (lit "00-1B-44-11-3a-B7").
Proof. repeat split; [apply is_valid_mac_iff; vm_compute; reflexivity| |]; intros H; apply is_valid_mac_iff in H; vm_compute in H; discriminate. Qed.
Example ex_ip_logic_hyp : aton_contract (ARaise AAddrFormatError) = true /\ is_valid_ip (ARaise AAddrFormatError) (lit "::1") = AOk true.
Proof. split; vm_compute; reflexivity. Qed.
Example ex_total_hyp : aton_contract (ARaise AValueError) = true /\ net_contract (ARaise AValueError) = true /\ net_contract (ARaise ATypeError) = true
  /\ is_valid_cidr (ARaise AValueError) (lit "10.0.0.0/8/8") = AOk false.
Proof. repeat split; vm_compute; reflexivity. Qed.
Example ex_cidr : is_valid_cidr (AOk true) (lit "10.0.0.0/8") = AOk true /\ is_valid_cidr (AOk true) (lit "10.0.0.0") = AOk false
  /\ is_valid_cidr (AOk true) (lit "10.0.0.0/") = AOk false.
Proof. repeat split; vm_compute; reflexivity. Qed.
Example ex_port : gen_is_valid_port (VStr (lit "65535")) = Ok true /\ gen_is_valid_port (VStr (lit "65536")) = Ok false
  /\ gen_is_valid_port (VInt 0) = Ok true /\ gen_is_valid_port (VInt (-1)) = Ok false /\ gen_is_valid_port VNone = Ok false
  /\ gen_is_valid_icmp_code VNone = Ok true /\ gen_is_valid_icmp_type VNone = Ok false.
Proof. repeat split; vm_compute; reflexivity. Qed.
