(* Proofs/C07_Static.v — C07 for the static inspectors (qcow2, VHD, VDI, ISO, LUKS, raw, GPT):
   the inspector object is a function of the bytes consumed so far, so virtual_size is. *)
From Coq Require Import String.
Require Import OV.Base.Bytes OV.Base.Py OV.Base.Str OV.Base.Insp_Struct OV.Gen.Insp_Consts
               OV.Model.Insp_Engine OV.Model.Insp_All OV.Model.C07 OV.Proofs.C07_Engine.
Require Import OV.Model.Insp_Raw OV.Model.Insp_Qcow2 OV.Model.Insp_Vhd OV.Model.Insp_Vdi
               OV.Model.Insp_Iso OV.Model.Insp_Gpt OV.Model.Insp_Luks.
Open Scope N_scope.

(* the first-sector region of qcow2 / VHD / VDI after consuming [b] *)
Definition hdr512 (b : bytes) : region := mkRegion 0 false 0 512 None (bslice 0 512 b) false.

Lemma rcomplete_hdr512 b : rcomplete (hdr512 b) = (512 <=? blen b).
Proof.
  unfold rcomplete, base_complete, hdr512. cbn [r_end r_min r_len r_data].
  rewrite flen_blen, blen_bslice. destruct (512 <=? blen b) eqn:E; lia.
Qed.

(* ---------- the unit-state formats: run / feed in terms of sstate ---------- *)
Section UnitFmt.
Variable f : fmt_id.
Hypothesis Hpost : forall s, f_post (ufmt f) s = (s, None).
Hypothesis Hrc : forall n s0, f_rcomplete (ufmt f) n s0 = (s0, None).
Hypothesis Hplain : all_plain (i_regs (init_ist (ufmt f))).
Hypothesis Hinit : init f = I_unit f (init_ist (ufmt f)).

Lemma feed_unit cs : feed f cs = (I_unit f (sstate unit (ufmt f) tt (concat cs)), None).
Proof.
  unfold feed. rewrite Hinit, eat_list_unit.
  rewrite <- (sstate_init (ufmt f)).
  replace (f_ext0 (ufmt f)) with tt by (destruct (f_ext0 (ufmt f)); reflexivity).
  rewrite (eat_all_static unit (ufmt f) Hpost Hplain Hrc). reflexivity.
Qed.

Lemma run_unit cs : run f cs = (I_unit f (fstate unit (ufmt f) tt (concat cs)), None).
Proof.
  unfold run. fold (feed f cs). rewrite feed_unit. cbn [finish]. rewrite (finish_sstate unit (ufmt f) Hplain). reflexivity.
Qed.
End UnitFmt.

(* ================= VHD ================= *)
Lemma vhd_regs b : fill b (i_regs (init_ist vhd_fmt)) = [(R_header, hdr512 b)].
Proof. reflexivity. Qed.

Lemma vhd_plain : all_plain (i_regs (init_ist vhd_fmt)).
Proof. repeat constructor. Qed.

Definition vhd_size_of (b : bytes) : res Z :=
  if blen b <? 512 then Ok 0%Z
  else if prefixb SPEC_VHD_COOKIE b then Ok (Z.of_N (be_val (bslice 40 8 b))) else Ok 0%Z.

Lemma vhd_vsize_fill (s : ist unit) b :
  i_regs s = fill b (i_regs (init_ist vhd_fmt)) -> vhd_vsize s = vhd_size_of b.
Proof.
  intros Hr. unfold vhd_vsize, vhd_match, get_region, vhd_size_of. rewrite Hr, vhd_regs.
  cbn [rget]. change (rname_beq R_header R_header) with true. cbv iota. cbn [bind].
  rewrite rcomplete_hdr512.
  destruct (blen b <? 512) eqn:E.
  - replace (512 <=? blen b) with false by lia. reflexivity.
  - replace (512 <=? blen b) with true by lia. cbn [negb].
    cbn [hdr512 r_data]. change (bslice 0 512 b) with (btake 512 b).
    rewrite prefixb_btake_le by (vm_compute; discriminate).
    change VHD_MAGIC with SPEC_VHD_COOKIE.
    destruct (prefixb SPEC_VHD_COOKIE b); cbn [negb]; [|reflexivity].
    rewrite nsub_bslice. change (btake 512 b) with (bslice 0 512 b).
    rewrite bslice_bslice by (vm_compute; discriminate).
    change (VHD_SIZE_HI - VHD_SIZE_LO) with 8. change (0 + VHD_SIZE_LO) with 40.
    rewrite unpack_ok by (rewrite blen_bslice; change (sf_size sf_vhd_size) with 8; lia).
    cbn [bind]. unfold sint, sraw. cbn [sf_vhd_size sf_big sf_fields nth].
    rewrite bslice_0_all by (rewrite blen_bslice; lia). reflexivity.
Qed.

Lemma vhd_feed cs : feed F_vhd cs = (I_unit F_vhd (sstate unit vhd_fmt tt (concat cs)), None).
Proof. apply (feed_unit F_vhd); try reflexivity. exact vhd_plain. Qed.
Lemma vhd_run cs : run F_vhd cs = (I_unit F_vhd (fstate unit vhd_fmt tt (concat cs)), None).
Proof. apply (run_unit F_vhd); try reflexivity. exact vhd_plain. Qed.

(* virtual_size of the VHD inspector is a function of the bytes consumed, whatever the chunking *)
Lemma vhd_vsize_now cs : vsize_now F_vhd cs = vhd_size_of (concat cs).
Proof. unfold vsize_now. rewrite vhd_feed. cbn [fst virtual_size ufmt f_vsize vhd_fmt]. apply vhd_vsize_fill. reflexivity. Qed.
Lemma vhd_vsize_end cs : vsize_end F_vhd cs = vhd_size_of (concat cs).
Proof. unfold vsize_end. rewrite vhd_run. cbn [fst virtual_size ufmt f_vsize vhd_fmt]. apply vhd_vsize_fill. reflexivity. Qed.
Lemma vhd_quiet cs : quiet F_vhd cs.
Proof. unfold quiet. rewrite vhd_feed. reflexivity. Qed.

Lemma beq_true a b : beq a b = true -> a = b.
Proof. apply beq_eq. Qed.

Lemma vsize_vhd_wellformed_lemma size b cs :
  size < 2 ^ 64 -> wf_vhd size b = true -> concat cs = b ->
  quiet F_vhd cs /\ vsize_end F_vhd cs = Ok (Z.of_N size).
Proof.
  intros Hs Hwf Hc. split; [apply vhd_quiet|]. rewrite vhd_vsize_end, Hc.
  unfold wf_vhd in Hwf. apply andb_true_iff in Hwf. destruct Hwf as [Hwf H3].
  apply andb_true_iff in Hwf. destruct Hwf as [H1 H2].
  unfold vhd_size_of. unfold SPEC_HDR_512 in H1. replace (blen b <? 512) with false by lia.
  rewrite H2. apply beq_true in H3. rewrite H3. rewrite be_val_enc by exact Hs. reflexivity.
Qed.

Lemma vsize_zero_while_unknown_vhd_lemma cs :
  blen (concat cs) < 512 ->
  quiet F_vhd cs /\ vsize_now F_vhd cs = Ok 0%Z /\ vsize_end F_vhd cs = Ok 0%Z.
Proof.
  intros H. split; [apply vhd_quiet|]. rewrite vhd_vsize_now, vhd_vsize_end. unfold vhd_size_of.
  replace (blen (concat cs) <? 512) with true by lia. split; reflexivity.
Qed.

(* ================= VDI ================= *)
Lemma vdi_regs b : fill b (i_regs (init_ist vdi_fmt)) = [(R_header, hdr512 b)].
Proof. reflexivity. Qed.
Lemma vdi_plain : all_plain (i_regs (init_ist vdi_fmt)).
Proof. repeat constructor. Qed.

Definition vdi_size_of (b : bytes) : res Z :=
  if blen b <? 512 then Ok 0%Z
  else if le_val (bslice 64 4 b) =? SPEC_VDI_SIGNATURE then Ok (Z.of_N (le_val (bslice 368 8 b))) else Ok 0%Z.

(* reading one integer field out of the captured first sector *)
Lemma hdr512_field (sf : sfmt) lo hi w b :
  512 <= blen b -> hi <= 512 -> hi - lo = w -> lo <= hi -> sf_size sf = w -> sf_fields sf = [(0, w)] ->
  unpack sf (nsub lo hi (r_data (hdr512 b))) = Ok (bslice lo w b) /\
  sint sf 0 (bslice lo w b) = if sf_big sf then be_val (bslice lo w b) else le_val (bslice lo w b).
Proof.
  intros Hb Hhi Hw Hlo Hsz Hf. cbn [hdr512 r_data]. rewrite nsub_bslice, Hw.
  rewrite bslice_bslice by lia. rewrite N.add_0_l. split.
  - apply unpack_ok. rewrite blen_bslice. lia.
  - unfold sint, sraw. rewrite Hf. cbn [nth]. rewrite bslice_0_all by (rewrite blen_bslice; lia). reflexivity.
Qed.

Lemma vdi_vsize_fill (s : ist unit) b :
  i_regs s = fill b (i_regs (init_ist vdi_fmt)) -> vdi_vsize s = vdi_size_of b.
Proof.
  intros Hr. unfold vdi_vsize, vdi_match, get_region, vdi_size_of. rewrite Hr, vdi_regs.
  cbn [rget]. change (rname_beq R_header R_header) with true. cbv iota. cbn [bind].
  rewrite rcomplete_hdr512.
  destruct (blen b <? 512) eqn:E.
  - replace (512 <=? blen b) with false by lia. reflexivity.
  - replace (512 <=? blen b) with true by lia. cbn [negb].
    destruct (hdr512_field sf_vdi_sig VDI_SIG_LO VDI_SIG_HI 4 b) as [U1 S1]; try reflexivity; try (vm_compute; discriminate); [lia|].
    destruct (hdr512_field sf_vdi_size VDI_SIZE_LO VDI_SIZE_HI 8 b) as [U2 S2]; try reflexivity; try (vm_compute; discriminate); [lia|].
    rewrite U1. cbn [bind]. rewrite S1. cbn [sf_vdi_sig sf_big].
    change VDI_SIG_LO with 64. change VDI_SIG with SPEC_VDI_SIGNATURE.
    destruct (le_val (bslice 64 4 b) =? SPEC_VDI_SIGNATURE); cbn [negb]; [|reflexivity].
    rewrite U2. cbn [bind]. rewrite S2. reflexivity.
Qed.

Lemma vdi_feed cs : feed F_vdi cs = (I_unit F_vdi (sstate unit vdi_fmt tt (concat cs)), None).
Proof. apply (feed_unit F_vdi); try reflexivity. exact vdi_plain. Qed.
Lemma vdi_run cs : run F_vdi cs = (I_unit F_vdi (fstate unit vdi_fmt tt (concat cs)), None).
Proof. apply (run_unit F_vdi); try reflexivity. exact vdi_plain. Qed.
Lemma vdi_vsize_now cs : vsize_now F_vdi cs = vdi_size_of (concat cs).
Proof. unfold vsize_now. rewrite vdi_feed. cbn [fst virtual_size ufmt f_vsize vdi_fmt]. apply vdi_vsize_fill. reflexivity. Qed.
Lemma vdi_vsize_end cs : vsize_end F_vdi cs = vdi_size_of (concat cs).
Proof. unfold vsize_end. rewrite vdi_run. cbn [fst virtual_size ufmt f_vsize vdi_fmt]. apply vdi_vsize_fill. reflexivity. Qed.
Lemma vdi_quiet cs : quiet F_vdi cs.
Proof. unfold quiet. rewrite vdi_feed. reflexivity. Qed.

Lemma vsize_vdi_wellformed_lemma size b cs :
  size < 2 ^ 64 -> wf_vdi size b = true -> concat cs = b ->
  quiet F_vdi cs /\ vsize_end F_vdi cs = Ok (Z.of_N size).
Proof.
  intros Hs Hwf Hc. split; [apply vdi_quiet|]. rewrite vdi_vsize_end, Hc.
  unfold wf_vdi in Hwf. apply andb_true_iff in Hwf. destruct Hwf as [Hwf H3].
  apply andb_true_iff in Hwf. destruct Hwf as [H1 H2].
  unfold vdi_size_of. unfold SPEC_HDR_512 in H1. replace (blen b <? 512) with false by lia.
  apply beq_true in H2. apply beq_true in H3. rewrite H2, H3.
  rewrite le_val_enc by (vm_compute; reflexivity). rewrite N.eqb_refl.
  rewrite le_val_enc by exact Hs. reflexivity.
Qed.

Lemma vsize_zero_while_unknown_vdi_lemma cs :
  blen (concat cs) < 512 ->
  quiet F_vdi cs /\ vsize_now F_vdi cs = Ok 0%Z /\ vsize_end F_vdi cs = Ok 0%Z.
Proof.
  intros H. split; [apply vdi_quiet|]. rewrite vdi_vsize_now, vdi_vsize_end. unfold vdi_size_of.
  replace (blen (concat cs) <? 512) with true by lia. split; reflexivity.
Qed.

(* ================= raw, GPT: the stream length ================= *)
Lemma raw_feed cs : feed F_raw cs = (I_unit F_raw (sstate unit raw_fmt tt (concat cs)), None).
Proof. apply (feed_unit F_raw); try reflexivity. constructor. Qed.
Lemma raw_run cs : run F_raw cs = (I_unit F_raw (fstate unit raw_fmt tt (concat cs)), None).
Proof. apply (run_unit F_raw); try reflexivity. constructor. Qed.
Lemma gpt_plain : all_plain (i_regs (init_ist gpt_fmt)).
Proof. repeat constructor. Qed.
Lemma gpt_feed cs : feed F_gpt cs = (I_unit F_gpt (sstate unit gpt_fmt tt (concat cs)), None).
Proof. apply (feed_unit F_gpt); try reflexivity. exact gpt_plain. Qed.
Lemma gpt_run cs : run F_gpt cs = (I_unit F_gpt (fstate unit gpt_fmt tt (concat cs)), None).
Proof. apply (run_unit F_gpt); try reflexivity. exact gpt_plain. Qed.

Lemma vsize_raw_lemma cs :
  quiet F_raw cs /\ vsize_now F_raw cs = Ok (Z.of_N (blen (concat cs))) /\ vsize_end F_raw cs = Ok (Z.of_N (blen (concat cs))).
Proof. unfold quiet, vsize_now, vsize_end. rewrite raw_feed, raw_run. repeat split. Qed.

Lemma vsize_gpt_lemma cs :
  quiet F_gpt cs /\ vsize_now F_gpt cs = Ok (Z.of_N (blen (concat cs))) /\ vsize_end F_gpt cs = Ok (Z.of_N (blen (concat cs))).
Proof. unfold quiet, vsize_now, vsize_end. rewrite gpt_feed, gpt_run. repeat split. Qed.

(* ================= LUKS ================= *)
Definition luks_hdr (b : bytes) : region := mkRegion 0 false 0 592 None (bslice 0 592 b) false.
Lemma luks_regs b : fill b (i_regs (init_ist luks_fmt)) = [(R_header, luks_hdr b)].
Proof. reflexivity. Qed.
Lemma luks_plain : all_plain (i_regs (init_ist luks_fmt)).
Proof. repeat constructor. Qed.

(* struct.error while fewer than 108 bytes have been seen; afterwards position - payload_offset*512 *)
Definition luks_size_of (b : bytes) : res Z :=
  if blen b <? 108 then Exn StructError
  else Ok (Z.of_N (blen b) - Z.of_N (be_val (bslice 104 4 b)) * 512)%Z.

Lemma luks_vsize_fill (s : ist unit) b :
  i_regs s = fill b (i_regs (init_ist luks_fmt)) -> i_pos s = blen b -> luks_vsize s = luks_size_of b.
Proof.
  intros Hr Hp. unfold luks_vsize, luks_header_items, get_region, luks_size_of. rewrite Hr, luks_regs, Hp.
  cbn [rget]. change (rname_beq R_header R_header) with true. cbv iota. cbn [bind luks_hdr r_data].
  rewrite ntake_bslice. rewrite bslice_bslice by (vm_compute; discriminate). rewrite N.add_0_l.
  change LUKS_HDR_SLICE with 108.
  destruct (blen b <? 108) eqn:E.
  - rewrite unpack_bad; [reflexivity|]. rewrite blen_bslice. change (sf_size sf_luks_hdr) with 108. lia.
  - rewrite unpack_ok by (rewrite blen_bslice; change (sf_size sf_luks_hdr) with 108; lia).
    cbn [bind]. unfold sint, sraw. cbn [sf_luks_hdr sf_big sf_fields nth].
    rewrite bslice_bslice by (vm_compute; discriminate). rewrite N.add_0_l. reflexivity.
Qed.

Lemma luks_feed cs : feed F_luks cs = (I_unit F_luks (sstate unit luks_fmt tt (concat cs)), None).
Proof. apply (feed_unit F_luks); try reflexivity. exact luks_plain. Qed.
Lemma luks_run cs : run F_luks cs = (I_unit F_luks (fstate unit luks_fmt tt (concat cs)), None).
Proof. apply (run_unit F_luks); try reflexivity. exact luks_plain. Qed.
Lemma luks_vsize_now cs : vsize_now F_luks cs = luks_size_of (concat cs).
Proof. unfold vsize_now. rewrite luks_feed. cbn [fst virtual_size ufmt f_vsize luks_fmt]. apply luks_vsize_fill; reflexivity. Qed.
Lemma luks_vsize_end cs : vsize_end F_luks cs = luks_size_of (concat cs).
Proof. unfold vsize_end. rewrite luks_run. cbn [fst virtual_size ufmt f_vsize luks_fmt]. apply luks_vsize_fill; reflexivity. Qed.
Lemma luks_quiet cs : quiet F_luks cs.
Proof. unfold quiet. rewrite luks_feed. reflexivity. Qed.

(* the value is the (possibly negative) integer |b| - payload*512 *)
Lemma vsize_luks_wellformed_lemma payload b cs :
  payload < 2 ^ 32 -> wf_luks payload b = true -> concat cs = b ->
  quiet F_luks cs /\ vsize_end F_luks cs = Ok (Z.of_N (blen b) - Z.of_N payload * 512)%Z.
Proof.
  intros Hs Hwf Hc. split; [apply luks_quiet|]. rewrite luks_vsize_end, Hc.
  unfold wf_luks in Hwf. apply andb_true_iff in Hwf. destruct Hwf as [Hwf H3].
  apply andb_true_iff in Hwf. destruct Hwf as [H1 H2].
  unfold luks_size_of. unfold SPEC_LUKS_NEED in H1. replace (blen b <? 108) with false by lia.
  apply beq_true in H3. rewrite H3. rewrite be_val_enc by exact Hs. reflexivity.
Qed.

(* ================= ISO ================= *)
Definition iso_sys (b : bytes) : region := mkRegion 0 false 0 32768 None (bslice 0 32768 b) false.
Definition iso_hdr (b : bytes) : region := mkRegion 1 false 32768 2048 None (bslice 32768 2048 b) false.
Lemma iso_regs b : fill b (i_regs (init_ist iso_fmt)) = [(R_system_area, iso_sys b); (R_header, iso_hdr b)].
Proof. reflexivity. Qed.
Lemma iso_plain : all_plain (i_regs (init_ist iso_fmt)).
Proof. repeat constructor. Qed.

Definition iso_size_of (b : bytes) : res Z :=
  if blen b <? 34816 then Ok 0%Z
  else if mem_str (bslice 32769 5 b) SPEC_ISO_IDENTS then
         if bnth 32768 b =? 1 then Ok (Z.of_N (le_val (bslice 32848 4 b) * le_val (bslice 32896 2 b))) else Ok 0%Z
       else Ok 0%Z.

Lemma iso_complete (s : ist unit) b :
  i_regs s = fill b (i_regs (init_ist iso_fmt)) -> Insp_Engine.complete s = (34816 <=? blen b).
Proof.
  intros Hr. unfold Insp_Engine.complete. rewrite Hr, iso_regs. cbn [forallb snd].
  unfold rcomplete, base_complete, iso_sys, iso_hdr. cbn [r_end r_min r_len r_data].
  rewrite !flen_blen, !blen_bslice. destruct (34816 <=? blen b) eqn:E.
  - replace (32768 =? N.min 32768 (blen b - 0)) with true by lia.
    replace (2048 =? N.min 2048 (blen b - 32768)) with true by lia. reflexivity.
  - destruct (32768 =? N.min 32768 (blen b - 0)) eqn:E1; [|reflexivity].
    replace (2048 =? N.min 2048 (blen b - 32768)) with false by lia. reflexivity.
Qed.

Lemma iso_vsize_fill (s : ist unit) b :
  i_regs s = fill b (i_regs (init_ist iso_fmt)) -> iso_vsize s = iso_size_of b.
Proof.
  intros Hr. unfold iso_vsize, iso_match, iso_size_of. rewrite (iso_complete s b Hr).
  destruct (blen b <? 34816) eqn:E.
  - replace (34816 <=? blen b) with false by lia. reflexivity.
  - replace (34816 <=? blen b) with true by lia. cbn [negb]. unfold get_region. rewrite Hr, iso_regs.
    cbn [rget]. change (rname_beq R_system_area R_header) with false. change (rname_beq R_header R_header) with true.
    cbv iota. cbn [bind iso_hdr r_data].
    rewrite nsub_bslice. rewrite bslice_bslice by (vm_compute; discriminate).
    change (ISO_SIG_HI - ISO_SIG_LO) with 5. change (32768 + ISO_SIG_LO) with 32769.
    change [ISO_SIG_A; ISO_SIG_B; ISO_SIG_C] with SPEC_ISO_IDENTS.
    destruct (mem_str (bslice 32769 5 b) SPEC_ISO_IDENTS); cbn [negb]; [|reflexivity].
    unfold bidx. rewrite flen_blen, blen_bslice. change ISO_TYPE_IDX with 0.
    replace (0 <? N.min 2048 (blen b - 32768)) with true by lia. cbn [bind].
    rewrite bnth_bslice by lia. rewrite N.add_0_r. change ISO_TYPE_PVD with 1.
    destruct (bnth 32768 b =? 1); cbn [negb]; [|reflexivity].
    rewrite !nsub_bslice, !ntake_bslice.
    change (ISO_LBS_HI - ISO_LBS_LO) with 4. change (ISO_VSS_HI - ISO_VSS_LO) with 8.
    rewrite (bslice_bslice ISO_LBS_LO 4 0 ISO_LBS_TAKE) by (vm_compute; discriminate).
    rewrite (bslice_bslice ISO_VSS_LO 8 0 ISO_VSS_TAKE) by (vm_compute; discriminate).
    rewrite !bslice_bslice by (vm_compute; discriminate).
    change (32768 + (ISO_LBS_LO + 0)) with 32896. change (32768 + (ISO_VSS_LO + 0)) with 32848.
    change ISO_LBS_TAKE with 2. change ISO_VSS_TAKE with 4.
    rewrite unpack_ok by (rewrite blen_bslice; change (sf_size sf_iso_lbs) with 2; lia). cbn [bind].
    rewrite unpack_ok by (rewrite blen_bslice; change (sf_size sf_iso_vss) with 4; lia). cbn [bind].
    unfold sint, sraw. cbn [sf_iso_vss sf_iso_lbs sf_big sf_fields nth].
    rewrite !bslice_0_all by (rewrite blen_bslice; lia). reflexivity.
Qed.

Lemma iso_feed cs : feed F_iso cs = (I_unit F_iso (sstate unit iso_fmt tt (concat cs)), None).
Proof. apply (feed_unit F_iso); try reflexivity. exact iso_plain. Qed.
Lemma iso_run cs : run F_iso cs = (I_unit F_iso (fstate unit iso_fmt tt (concat cs)), None).
Proof. apply (run_unit F_iso); try reflexivity. exact iso_plain. Qed.
Lemma iso_vsize_now cs : vsize_now F_iso cs = iso_size_of (concat cs).
Proof. unfold vsize_now. rewrite iso_feed. cbn [fst virtual_size ufmt f_vsize iso_fmt]. apply iso_vsize_fill. reflexivity. Qed.
Lemma iso_vsize_end cs : vsize_end F_iso cs = iso_size_of (concat cs).
Proof. unfold vsize_end. rewrite iso_run. cbn [fst virtual_size ufmt f_vsize iso_fmt]. apply iso_vsize_fill. reflexivity. Qed.
Lemma iso_quiet cs : quiet F_iso cs.
Proof. unfold quiet. rewrite iso_feed. reflexivity. Qed.

Lemma vsize_iso_wellformed_lemma blocks bsize b cs :
  blocks < 2 ^ 32 -> bsize < 2 ^ 16 -> wf_iso blocks bsize b = true -> concat cs = b ->
  quiet F_iso cs /\ vsize_end F_iso cs = Ok (Z.of_N (blocks * bsize)).
Proof.
  intros Hb Hs Hwf Hc. split; [apply iso_quiet|]. rewrite iso_vsize_end, Hc.
  unfold wf_iso in Hwf.
  apply andb_true_iff in Hwf. destruct Hwf as [Hwf H5]. apply andb_true_iff in Hwf. destruct Hwf as [Hwf H4].
  apply andb_true_iff in Hwf. destruct Hwf as [Hwf H3]. apply andb_true_iff in Hwf. destruct Hwf as [H1 H2].
  unfold iso_size_of. unfold SPEC_ISO_END in H1. replace (blen b <? 34816) with false by lia.
  unfold SPEC_ISO_PVD in *. change (32768 + 1) with 32769 in H3. rewrite H3, H2.
  change (32768 + 80) with 32848 in H4. change (32768 + 128) with 32896 in H5.
  apply beq_true in H4. apply beq_true in H5. rewrite H4, H5.
  rewrite !le_val_enc by assumption. reflexivity.
Qed.

Lemma vsize_zero_while_unknown_iso_lemma cs :
  blen (concat cs) < 34816 ->
  quiet F_iso cs /\ vsize_now F_iso cs = Ok 0%Z /\ vsize_end F_iso cs = Ok 0%Z.
Proof.
  intros H. split; [apply iso_quiet|]. rewrite iso_vsize_now, iso_vsize_end. unfold iso_size_of.
  replace (blen (concat cs) <? 34816) with true by lia. split; reflexivity.
Qed.

(* ================= qcow2 (region_complete callback fills qemu_header_info) ================= *)
Lemma qcow_regs b : fill b (i_regs (init_ist qcow_fmt)) = [(R_header, hdr512 b)].
Proof. reflexivity. Qed.
Lemma qcow_plain : all_plain (i_regs (init_ist qcow_fmt)).
Proof. repeat constructor. Qed.

(* qemu_header_info as computed from the captured sector [d] *)
Definition qcow_hdr_of (d : bytes) : qx :=
  match unpack sf_qcow_hdr (ntake QCOW_HDR_SLICE d) with
  | Exn _ => None
  | Ok h => if beq (sraw sf_qcow_hdr 0 h) QCOW_MAGIC
            then Some (mkQhdr (sraw sf_qcow_hdr 0 h) (sint sf_qcow_hdr 1 h) (sint sf_qcow_hdr 2 h)
                              (sint sf_qcow_hdr 3 h) (sint sf_qcow_hdr 4 h) (sint sf_qcow_hdr 5 h))
            else None
  end.
Definition qcow_ext (b : bytes) : qx := if blen b <? 512 then None else qcow_hdr_of (bslice 0 512 b).

Lemma set_ext_set_ext {X} (s : ist X) x y : set_ext (set_ext s x) y = set_ext s y.
Proof. reflexivity. Qed.

Lemma qcow_rcomplete_spec n (s : ist qx) r :
  rget R_header (i_regs s) = Some r -> rcomplete r = true -> blen (r_data r) = 512 ->
  qcow_rcomplete n s = (set_ext s (qcow_hdr_of (r_data r)), None).
Proof.
  intros Hg Hc Hl. unfold qcow_rcomplete, qcow_hdr_of, get_region. rewrite Hg.
  rewrite ntake_bslice.
  rewrite unpack_ok by (rewrite blen_bslice, Hl; vm_compute; reflexivity).
  unfold qcow_match, get_region. cbn [set_ext i_regs i_ext bind]. rewrite Hg. cbn [bind]. rewrite Hc. cbn [negb q_magic].
  destruct (beq (sraw sf_qcow_hdr 0 (bslice 0 QCOW_HDR_SLICE (r_data r))) QCOW_MAGIC); reflexivity.
Qed.

Lemma qcow_eat b c :
  eat_chunk qcow_fmt (sstate qx qcow_fmt (qcow_ext b) b) c = (sstate qx qcow_fmt (qcow_ext (b ++ c)) (b ++ c), None).
Proof.
  rewrite eat_static; [|reflexivity|exact qcow_plain].
  rewrite !qcow_regs. unfold complete_ids, newly_complete, ids. cbn [filter map snd fst].
  rewrite !rcomplete_hdr512. unfold qcow_ext at 2. rewrite blen_app.
  destruct (512 <=? blen b) eqn:E1.
  - (* the header was complete before this chunk *)
    replace (512 <=? blen b + blen c) with true by lia. cbn [map mem_nat hdr512 r_id Nat.eqb orb negb andb filter run_callbacks].
    replace (blen b + blen c <? 512) with false by lia.
    unfold qcow_ext. replace (blen b <? 512) with false by lia.
    rewrite bslice_full_ext by (rewrite blen_bslice; lia). reflexivity.
  - cbn [map mem_nat negb]. rewrite andb_true_r.
    destruct (512 <=? blen b + blen c) eqn:E2; cbn [filter map fst run_callbacks f_rcomplete qcow_fmt].
    + replace (blen b + blen c <? 512) with false by lia.
      rewrite (qcow_rcomplete_spec R_header _ (hdr512 (b ++ c))); [reflexivity|reflexivity|..].
      * rewrite rcomplete_hdr512, blen_app. exact E2.
      * cbn [hdr512 r_data]. rewrite blen_bslice, blen_app. lia.
    + replace (blen b + blen c <? 512) with true by lia.
      unfold qcow_ext. replace (blen b <? 512) with true by lia. reflexivity.
Qed.

Lemma qcow_eat_all b cs :
  eat_all qcow_fmt (sstate qx qcow_fmt (qcow_ext b) b) cs
  = (sstate qx qcow_fmt (qcow_ext (b ++ concat cs)) (b ++ concat cs), None).
Proof.
  revert b. induction cs as [|c cs IH]; intros b; cbn [eat_all concat].
  - rewrite app_nil_r. reflexivity.
  - rewrite qcow_eat. rewrite IH, app_assoc. reflexivity.
Qed.

Lemma qcow_feed cs : feed F_qcow2 cs = (I_qcow (sstate qx qcow_fmt (qcow_ext (concat cs)) (concat cs)), None).
Proof.
  unfold feed. change (init F_qcow2) with (I_qcow (init_ist qcow_fmt)). rewrite eat_list_qcow.
  rewrite <- (sstate_init qcow_fmt). change (f_ext0 qcow_fmt) with (qcow_ext []).
  rewrite qcow_eat_all. reflexivity.
Qed.
Lemma qcow_run cs : run F_qcow2 cs = (I_qcow (fstate qx qcow_fmt (qcow_ext (concat cs)) (concat cs)), None).
Proof.
  unfold run. fold (feed F_qcow2 cs). rewrite qcow_feed. cbn [finish]. rewrite (finish_sstate qx qcow_fmt qcow_plain). reflexivity.
Qed.

Definition qcow_size_of (b : bytes) : res Z :=
  if blen b <? 512 then Ok 0%Z
  else if prefixb SPEC_QCOW2_MAGIC b then Ok (Z.of_N (be_val (bslice 24 8 b))) else Ok 0%Z.

Lemma qcow_vsize_ext (s : ist qx) b : i_ext s = qcow_ext b -> qcow_vsize s = qcow_size_of b.
Proof.
  intros He. unfold qcow_vsize, qcow_size_of. rewrite He. unfold qcow_ext.
  destruct (blen b <? 512) eqn:E; [reflexivity|].
  unfold qcow_hdr_of. rewrite ntake_bslice. rewrite bslice_bslice by (vm_compute; discriminate). rewrite N.add_0_l.
  change QCOW_HDR_SLICE with 32.
  rewrite unpack_ok by (rewrite blen_bslice; change (sf_size sf_qcow_hdr) with 32; lia).
  unfold sraw at 1. cbn [sf_qcow_hdr sf_fields nth].
  rewrite (bslice_bslice 0 32 0 4 b) by (vm_compute; discriminate). rewrite N.add_0_l.
  rewrite (prefixb_bslice SPEC_QCOW2_MAGIC b). change (blen SPEC_QCOW2_MAGIC) with 4. change QCOW_MAGIC with SPEC_QCOW2_MAGIC.
  destruct (beq (bslice 0 4 b) SPEC_QCOW2_MAGIC); [|reflexivity].
  cbn [q_size]. unfold sint, sraw. cbn [sf_qcow_hdr sf_big sf_fields nth].
  rewrite (bslice_bslice 0 32 24 8 b) by (vm_compute; discriminate). rewrite N.add_0_l. reflexivity.
Qed.

Lemma qcow_vsize_now cs : vsize_now F_qcow2 cs = qcow_size_of (concat cs).
Proof. unfold vsize_now. rewrite qcow_feed. cbn [fst virtual_size f_vsize qcow_fmt]. apply qcow_vsize_ext. reflexivity. Qed.
Lemma qcow_vsize_end cs : vsize_end F_qcow2 cs = qcow_size_of (concat cs).
Proof. unfold vsize_end. rewrite qcow_run. cbn [fst virtual_size f_vsize qcow_fmt]. apply qcow_vsize_ext. reflexivity. Qed.
Lemma qcow_quiet cs : quiet F_qcow2 cs.
Proof. unfold quiet. rewrite qcow_feed. reflexivity. Qed.

Lemma vsize_qcow2_wellformed_lemma size b cs :
  size < 2 ^ 64 -> wf_qcow2 size b = true -> concat cs = b ->
  quiet F_qcow2 cs /\ vsize_end F_qcow2 cs = Ok (Z.of_N size).
Proof.
  intros Hs Hwf Hc. split; [apply qcow_quiet|]. rewrite qcow_vsize_end, Hc.
  unfold wf_qcow2 in Hwf. apply andb_true_iff in Hwf. destruct Hwf as [Hwf H3].
  apply andb_true_iff in Hwf. destruct Hwf as [H1 H2].
  unfold qcow_size_of. unfold SPEC_HDR_512 in H1. replace (blen b <? 512) with false by lia.
  rewrite H2. apply beq_true in H3. rewrite H3. rewrite be_val_enc by exact Hs. reflexivity.
Qed.

Lemma vsize_zero_while_unknown_qcow2_lemma cs :
  blen (concat cs) < 512 ->
  quiet F_qcow2 cs /\ vsize_now F_qcow2 cs = Ok 0%Z /\ vsize_end F_qcow2 cs = Ok 0%Z.
Proof.
  intros H. split; [apply qcow_quiet|]. rewrite qcow_vsize_now, qcow_vsize_end. unfold qcow_size_of.
  replace (blen (concat cs) <? 512) with true by lia. split; reflexivity.
Qed.
