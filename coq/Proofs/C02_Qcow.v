(* Proofs/C02_Qcow.v — QcowInspector: the run for every chunk list, and the three checks on the bytes *)
Require Import OV.Base.Bytes OV.Base.Py OV.Base.Insp_Struct OV.Gen.Insp_Consts OV.Model.Insp_Engine.
Require Import OV.Model.Insp_Qcow2 OV.Model.Insp_All.
Require Import OV.Model.C02 OV.Proofs.C02_Engine OV.Proofs.C02_Bytes OV.Proofs.C02_Bits OV.Proofs.C02_Static.
Open Scope N_scope.

(* what region_complete computes from the first 32 bytes once 512 bytes have arrived *)
Definition qhdr_of (b : bytes) : qhdr :=
  let d := bslice 0 32 b in
  mkQhdr (sraw sf_qcow_hdr 0 d) (sint sf_qcow_hdr 1 d) (sint sf_qcow_hdr 2 d)
         (sint sf_qcow_hdr 3 d) (sint sf_qcow_hdr 4 d) (sint sf_qcow_hdr 5 d).
Definition qext (b : bytes) : qx :=
  if 512 <=? blen b then (if beq (q_magic (qhdr_of b)) QCOW_MAGIC then Some (qhdr_of b) else None) else None.

Definition qst (b : bytes) (fin : bool) (x : qx) : ist qx :=
  mkIst (blen b) [(R_header, mkRegion 0 false 0 512 None (bslice 0 512 b) false)] 1 fin
        [K_backing_file; K_data_file; K_unknown_features] x.

Lemma qcow_state b fin x : static_state qcow_fmt b fin x = qst b fin x.
Proof. reflexivity. Qed.

Lemma bslice_prefix_app o l a c : o + l <= blen a -> bslice o l (a ++ c) = bslice o l a.
Proof.
  intros H. unfold bslice. rewrite bskip_app_le by lia. rewrite btake_app_le; [reflexivity|].
  rewrite blen_bskip. lia.
Qed.

Lemma qhdr_of_app a c : 32 <= blen a -> qhdr_of (a ++ c) = qhdr_of a.
Proof. intros H. unfold qhdr_of. rewrite bslice_prefix_app by lia. reflexivity. Qed.

Lemma qext_app a c : 512 <= blen a -> qext (a ++ c) = qext a.
Proof.
  intros H. unfold qext. rewrite blen_app. rewrite qhdr_of_app by lia.
  replace (512 <=? blen a + blen c) with true by lia. replace (512 <=? blen a) with true by lia. reflexivity.
Qed.

Lemma qcow_rcomplete_state b x n : 512 <= blen b ->
  qcow_rcomplete n (qst b false x) = (qst b false (qext b), None).
Proof.
  intros Hl. unfold qcow_rcomplete, qst. cbn [get_region i_regs rget rname_beq r_data].
  unfold QCOW_HDR_SLICE. slices. change (0 + 0) with 0.
  rewrite unpack_slice by (try reflexivity; lia).
  unfold qcow_match. cbn [set_ext get_region i_regs rget rname_beq bind i_pos i_next i_fin i_checks i_ext].
  rewrite rcomplete_header. replace (512 <=? blen b) with true by lia. cbn [negb q_magic].
  unfold qext. replace (512 <=? blen b) with true by lia. unfold qhdr_of. cbn [q_magic].
  destruct (beq (sraw sf_qcow_hdr 0 (bslice 0 32 b)) QCOW_MAGIC); reflexivity.
Qed.

Lemma qcow_callbacks sofar c :
  run_callbacks qcow_fmt
    (newly_complete (complete_ids (static_regs 0 (init_regions (f_id qcow_fmt)) sofar))
                    (static_regs 0 (init_regions (f_id qcow_fmt)) (sofar ++ c)))
    (static_state qcow_fmt (sofar ++ c) false (qext sofar))
  = (static_state qcow_fmt (sofar ++ c) false (qext (sofar ++ c)), None).
Proof.
  rewrite !qcow_state.
  change (static_regs 0 (init_regions (f_id qcow_fmt)) sofar)
    with [(R_header, mkRegion 0 false 0 512 None (bslice 0 512 sofar) false)].
  change (static_regs 0 (init_regions (f_id qcow_fmt)) (sofar ++ c))
    with [(R_header, mkRegion 0 false 0 512 None (bslice 0 512 (sofar ++ c)) false)].
  unfold complete_ids, newly_complete, ids. cbn [filter map snd fst].
  rewrite !rcomplete_header.
  destruct (512 <=? blen sofar) eqn:Hs.
  - (* complete before this chunk: no callback, and the header does not change *)
    cbn [map r_id snd mem_nat Nat.eqb orb negb]. rewrite andb_false_r. cbn [map run_callbacks].
    rewrite qext_app by lia. reflexivity.
  - cbn [map mem_nat negb]. rewrite andb_true_r.
    destruct (512 <=? blen (sofar ++ c)) eqn:Hn; cbn [map fst run_callbacks].
    + cbn [f_rcomplete qcow_fmt]. rewrite qcow_rcomplete_state by lia. reflexivity.
    + unfold qext. rewrite Hs, Hn. reflexivity.
Qed.

Theorem run_qcow_static cs :
  Insp_All.run F_qcow2 cs = (I_qcow (qst (concat cs) true (qext (concat cs))), None).
Proof.
  rewrite run_qcow.
  rewrite (run_fmt_static qcow_fmt eq_refl eq_refl qext eq_refl qcow_callbacks cs).
  rewrite qcow_state. reflexivity.
Qed.

(* ---------- the header fields ---------- *)
Lemma q_magic_of b : q_magic (qhdr_of b) = bslice 0 4 b.
Proof.
  unfold qhdr_of. cbn [q_magic]. change (sraw sf_qcow_hdr 0 (bslice 0 32 b)) with (bslice 0 4 (bslice 0 32 b)).
  slices. reflexivity.
Qed.
Lemma q_version_of b : q_version (qhdr_of b) = qcow2_version b.
Proof.
  unfold qhdr_of. cbn [q_version]. change (sint sf_qcow_hdr 1 (bslice 0 32 b)) with (be_val (bslice 4 4 (bslice 0 32 b))).
  slices. reflexivity.
Qed.

Lemma qcow_match_state b fin : 512 <= blen b ->
  qcow_match (qst b fin (qext b)) = Ok (beq (bslice 0 4 b) qcow2_magic).
Proof.
  intros Hl. unfold qcow_match, qst. cbn [get_region i_regs rget rname_beq bind i_ext].
  rewrite rcomplete_header. replace (512 <=? blen b) with true by lia. cbn [negb].
  unfold qext. replace (512 <=? blen b) with true by lia. rewrite q_magic_of.
  change QCOW_MAGIC with qcow2_magic.
  destruct (beq (bslice 0 4 b) qcow2_magic) eqn:E; [|reflexivity].
  rewrite q_magic_of. change QCOW_MAGIC with qcow2_magic. rewrite E. reflexivity.
Qed.

(* ---------- check_backing_file ---------- *)
Lemma qcow_backing_state b fin x : 512 <= blen b ->
  qcow_check_backing_file (qst b fin x) = if qcow2_backing_offset b =? 0 then Ok tt else violation.
Proof.
  intros Hl. unfold qcow_check_backing_file, qst. cbn [get_region i_regs rget rname_beq bind r_data].
  unfold QCOW_BF_OFFSET, QCOW_BF_OFFSET_LEN. slices. change (8 + 8 - 8) with 8. change (0 + 8) with 8.
  rewrite unpack_slice by (try reflexivity; lia). cbn [bind].
  change (sint sf_qcow_bf 0 (bslice 8 8 b)) with (be_val (bslice 0 8 (bslice 8 8 b))). slices. reflexivity.
Qed.

(* ---------- the eight feature bytes ---------- *)
Definition feats (b : bytes) : bytes := bslice 72 8 b.

Lemma qcow_features_state b :
  qcow_features (mkRegion 0 false 0 512 None (bslice 0 512 b) false) = feats b.
Proof.
  unfold qcow_features, feats. cbn [r_data]. unfold QCOW_I_FEATURES, QCOW_I_FEATURES_LEN. slices. reflexivity.
Qed.

Lemma list8 (l : bytes) : blen l = 8 -> exists a0 a1 a2 a3 a4 a5 a6 a7, l = [a0; a1; a2; a3; a4; a5; a6; a7].
Proof.
  unfold blen. intros H.
  do 8 (destruct l as [|? l]; [cbn in H; lia|]). destruct l; [|cbn in H; lia].
  repeat eexists.
Qed.

Lemma be_val8 a0 a1 a2 a3 a4 a5 a6 a7 :
  be_val [a0; a1; a2; a3; a4; a5; a6; a7]
  = a7 + 256 * (a6 + 256 * (a5 + 256 * (a4 + 256 * (a3 + 256 * (a2 + 256 * (a1 + 256 * (a0 + 256 * 0))))))).
Proof. reflexivity. Qed.

(* ---------- check_data_file ---------- *)
Lemma qcow_datafile_state b fin x : 512 <= blen b -> all_bytes b = true ->
  qcow_check_data_file (qst b fin x) = if N.testbit (qcow2_incompat b) qcow2_datafile_bit then violation else Ok tt.
Proof.
  intros Hl Hb. unfold qcow_check_data_file, qst. cbn [get_region i_regs rget rname_beq bind].
  rewrite (qcow_features_state b).
  change (QCOW_I_FEATURES_LEN - 1 - QCOW_I_FEATURES_DATAFILE_BIT / 8) with 7.
  change (N.shiftl 1 (QCOW_I_FEATURES_DATAFILE_BIT - 1 mod 8)) with (2 ^ 2).
  assert (Hlen : blen (feats b) = 8) by (unfold feats; rewrite blen_bslice; lia).
  rewrite bidx_ok by lia. cbn [bind].
  assert (Hbit : N.testbit (qcow2_incompat b) qcow2_datafile_bit = N.testbit (bnth 7 (feats b)) 2).
  { unfold qcow2_incompat, be_at. fold (feats b).
    assert (Hfb : all_bytes (feats b) = true) by (apply all_bytes_bslice; exact Hb).
    destruct (list8 _ Hlen) as [a0 [a1 [a2 [a3 [a4 [a5 [a6 [a7 E]]]]]]]]. rewrite E in *.
    rewrite be_val8. change (bnth 7 [a0; a1; a2; a3; a4; a5; a6; a7]) with a7.
    assert (H7 : a7 < 2 ^ 8).
    { change (2 ^ 8) with 256. pose proof (all_bytes_bnth 7 _ Hfb) as H. exact H. }
    change 256 with (2 ^ 8) at 1. apply testbit_low_add; [exact H7|reflexivity]. }
  rewrite Hbit.
  destruct (N.testbit (bnth 7 (feats b)) 2) eqn:E.
  - destruct (N.land (bnth 7 (feats b)) (2 ^ 2) =? 0) eqn:E2; [|reflexivity].
    apply N.eqb_eq, land_pow2_zero_iff in E2. congruence.
  - apply land_pow2_zero_iff in E. rewrite E. reflexivity.
Qed.

(* ---------- check_unknown_features ---------- *)
Lemma feature_loop_spec fs : blen fs = 8 -> forall k i, i + N.of_nat k = 8 ->
  (qcow_feature_loop k i fs = Ok tt <->
   forall j, i <= j < 8 -> N.ldiff (bnth j fs) (qcow_allow_mask (7 - j)) = 0).
Proof.
  intros Hlen. induction k as [|k IH]; intros i Hk; cbn [qcow_feature_loop].
  - split; [intros _ j Hj; lia|reflexivity].
  - assert (Hi : i < 8) by lia.
    rewrite bidx_ok by lia. cbn [bind]. change (QCOW_I_FEATURES_LEN - 1 - i) with (8 - 1 - i).
    replace (8 - 1 - i) with (7 - i) by lia.
    destruct (N.ldiff (bnth i fs) (qcow_allow_mask (7 - i)) =? 0) eqn:E.
    + rewrite IH by lia. apply N.eqb_eq in E. split.
      * intros H j Hj. destruct (N.eq_dec j i) as [->|Hne]; [exact E|apply H; lia].
      * intros H j Hj. apply H. lia.
    + split.
      * intros H. destruct (bidx fs (7 - i)); discriminate H.
      * intros H. apply N.eqb_neq in E. exfalso. apply E, H. lia.
Qed.

(* the masks: the code allows the bits below I_FEATURES_MAX_BIT in the last byte and nothing elsewhere *)
Lemma max_bit_small : QCOW_I_FEATURES_MAX_BIT < 8.
Proof. reflexivity. Qed.
Lemma mask_last : qcow_allow_mask 0 = N.shiftl 1 QCOW_I_FEATURES_MAX_BIT - 1.
Proof. reflexivity. Qed.
Lemma mask_other n : 0 < n -> qcow_allow_mask n = 0.
Proof.
  intros H. unfold qcow_allow_mask. change (QCOW_I_FEATURES_MAX_BIT / 8) with 0.
  replace (n =? 0) with false by lia. replace (0 <? n) with true by lia. reflexivity.
Qed.

Lemma feature_bytes_ok_iff fs : blen fs = 8 -> all_bytes fs = true ->
  ((forall j, 0 <= j < 8 -> N.ldiff (bnth j fs) (qcow_allow_mask (7 - j)) = 0)
   <-> be_val fs < 2 ^ QCOW_I_FEATURES_MAX_BIT).
Proof.
  intros Hlen Hb.
  destruct (list8 _ Hlen) as [a0 [a1 [a2 [a3 [a4 [a5 [a6 [a7 E]]]]]]]]. subst fs.
  rewrite be_val8.
  assert (B : forall i, bnth i [a0; a1; a2; a3; a4; a5; a6; a7] < 256) by (intros i; apply all_bytes_bnth; exact Hb).
  pose proof (B 0) as B0. pose proof (B 1) as B1. pose proof (B 2) as B2. pose proof (B 3) as B3.
  pose proof (B 4) as B4. pose proof (B 5) as B5. pose proof (B 6) as B6. pose proof (B 7) as B7.
  change (bnth 0 _) with a0 in B0. change (bnth 1 _) with a1 in B1. change (bnth 2 _) with a2 in B2.
  change (bnth 3 _) with a3 in B3. change (bnth 4 _) with a4 in B4. change (bnth 5 _) with a5 in B5.
  change (bnth 6 _) with a6 in B6. change (bnth 7 _) with a7 in B7. clear B.
  assert (HP : 2 ^ QCOW_I_FEATURES_MAX_BIT <= 128).
  { change 128 with (2 ^ 7). apply N.pow_le_mono_r; [lia|]. pose proof max_bit_small. lia. }
  set (P := 2 ^ QCOW_I_FEATURES_MAX_BIT) in *.
  split.
  - intros H.
    pose proof (H 0 ltac:(lia)) as H0. pose proof (H 1 ltac:(lia)) as H1. pose proof (H 2 ltac:(lia)) as H2.
    pose proof (H 3 ltac:(lia)) as H3. pose proof (H 4 ltac:(lia)) as H4. pose proof (H 5 ltac:(lia)) as H5.
    pose proof (H 6 ltac:(lia)) as H6. pose proof (H 7 ltac:(lia)) as H7.
    change (bnth 0 _) with a0 in H0. change (bnth 1 _) with a1 in H1. change (bnth 2 _) with a2 in H2.
    change (bnth 3 _) with a3 in H3. change (bnth 4 _) with a4 in H4. change (bnth 5 _) with a5 in H5.
    change (bnth 6 _) with a6 in H6. change (bnth 7 _) with a7 in H7.
    rewrite mask_other, ldiff_zero_mask in H0, H1, H2, H3, H4, H5, H6 by lia.
    change (7 - 7) with 0 in H7. rewrite mask_last in H7. apply ldiff_ones_zero_iff in H7. fold P in H7.
    subst. lia.
  - intros H j Hj.
    assert (Hz : a0 = 0 /\ a1 = 0 /\ a2 = 0 /\ a3 = 0 /\ a4 = 0 /\ a5 = 0 /\ a6 = 0 /\ a7 < P) by lia.
    destruct Hz as [-> [-> [-> [-> [-> [-> [-> H7]]]]]]].
    assert (Hc : j = 0 \/ j = 1 \/ j = 2 \/ j = 3 \/ j = 4 \/ j = 5 \/ j = 6 \/ j = 7) by lia.
    destruct Hc as [->|[->|[->|[->|[->|[->|[->| ->]]]]]]];
      try (rewrite mask_other by lia; reflexivity).
    change (7 - 7) with 0. rewrite mask_last. apply ldiff_ones_zero_iff. exact H7.
Qed.

Lemma qcow_unknown_state b fin : 512 <= blen b -> all_bytes b = true ->
  beq (bslice 0 4 b) qcow2_magic = true ->
  (qcow_check_unknown_features (qst b fin (qext b)) = Ok tt <->
   (qcow2_version b = 2 \/ qcow2_version b = 3) /\
   (qcow2_version b = 3 -> no_unknown_bits QCOW_I_FEATURES_MAX_BIT (qcow2_incompat b))).
Proof.
  intros Hl Hb Hm. unfold qcow_check_unknown_features, qst. cbn [i_ext].
  unfold qext. replace (512 <=? blen b) with true by lia. rewrite q_magic_of.
  change QCOW_MAGIC with qcow2_magic. rewrite Hm. rewrite q_version_of.
  unfold QCOW_VER_A, QCOW_VER_B.
  destruct (qcow2_version b =? 2) eqn:E2.
  - apply N.eqb_eq in E2. split; [|reflexivity]. intros _. split; [left; exact E2|]. intros H3. lia.
  - apply N.eqb_neq in E2. destruct (qcow2_version b =? 3) eqn:E3; cbn [negb].
    + apply N.eqb_eq in E3. cbn [get_region i_regs rget rname_beq bind].
      rewrite (qcow_features_state b).
      assert (Hlen : blen (feats b) = 8) by (unfold feats; rewrite blen_bslice; lia).
      assert (Hfb : all_bytes (feats b) = true) by (apply all_bytes_bslice; exact Hb).
      change (N.to_nat QCOW_I_FEATURES_LEN) with 8%nat.
      rewrite (feature_loop_spec _ Hlen 8 0) by reflexivity.
      rewrite (feature_bytes_ok_iff _ Hlen Hfb).
      unfold no_unknown_bits. rewrite high_bits_clear_iff. unfold qcow2_incompat, be_at. fold (feats b).
      split; [intros H; split; [right; exact E3|intros _; exact H]|intros [_ H]; apply H; exact E3].
    + apply N.eqb_neq in E3. split; [discriminate|]. intros [[H|H] _]; contradiction.
Qed.

(* ---------- the theorem ---------- *)
Theorem qcow2_pass_iff cs : all_bytes (concat cs) = true ->
  (safety (fst (Insp_All.run F_qcow2 cs)) = Pass <-> qcow2_safe (concat cs)).
Proof.
  intros Hb. rewrite run_qcow_static. cbn [fst safety]. set (b := concat cs) in *.
  rewrite safety_pass_iff.
  assert (Hcomp : Insp_Engine.complete (qst b true (qext b)) = (512 <=? blen b)).
  { unfold Insp_Engine.complete, qst. cbn [i_regs forallb snd]. rewrite rcomplete_header. apply andb_true_r. }
  rewrite Hcomp. cbn [f_match qcow_fmt f_check]. unfold qcow2_safe.
  split.
  - intros [Hc [Hm Hk]]. assert (Hl : 512 <= blen b) by lia.
    rewrite (qcow_match_state b true Hl) in Hm. injection Hm as Hm.
    pose proof (Hk K_backing_file ltac:(cbn; auto)) as Hbf. cbn [qcow_check] in Hbf.
    rewrite (qcow_backing_state b true _ Hl) in Hbf.
    pose proof (Hk K_data_file ltac:(cbn; auto)) as Hdf. cbn [qcow_check] in Hdf.
    rewrite (qcow_datafile_state b true _ Hl Hb) in Hdf.
    pose proof (Hk K_unknown_features ltac:(cbn; auto)) as Huf. cbn [qcow_check] in Huf.
    apply (qcow_unknown_state b true Hl Hb Hm) in Huf. destruct Huf as [Hv Hu].
    split; [exact Hl|]. split; [apply beq_true_eq; exact Hm|].
    split; [destruct (qcow2_backing_offset b =? 0) eqn:E; [lia|discriminate]|].
    split; [exact Hv|]. split; [|exact Hu].
    destruct (N.testbit (qcow2_incompat b) qcow2_datafile_bit); [discriminate|reflexivity].
  - intros [Hl [Hm [Hbf [Hv [Hdf Hu]]]]].
    assert (Hm' : beq (bslice 0 4 b) qcow2_magic = true) by (rewrite Hm; apply beq_refl).
    split; [lia|]. split; [rewrite (qcow_match_state b true Hl), Hm'; reflexivity|].
    intros c Hc. cbn [i_checks qst In] in Hc. destruct Hc as [<-|[<-|[<-|[]]]]; cbn [qcow_check].
    + rewrite (qcow_backing_state b true _ Hl), Hbf. reflexivity.
    + rewrite (qcow_datafile_state b true _ Hl Hb), Hdf. reflexivity.
    + apply (qcow_unknown_state b true Hl Hb Hm'). split; assumption.
Qed.
