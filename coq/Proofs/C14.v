(* Proofs/C14.v — translator-equivalence lemmas: the statement-level translations of the
   source (Gen/C14.v) compute exactly what the hand-written model (Model/C14.v) computes. *)
From Coq Require Import String.
Require Import OV.Base.Bytes OV.Base.Py OV.Base.PyInt OV.Base.Str.
Require Import OV.Model.C14_Py OV.Gen.C14 OV.Model.C14 OV.Proofs.C14_Uuid.
Open Scope Z_scope.

(* Robust against behaviour-preserving refactors of the source: case analysis on every value,
   every raised exception class and every remaining scrutinee, computing closed [catches] tests,
   until both sides are syntactically equal. *)
Ltac simp_rt := cbn [is_bool is_str py_str py_int_of need_str uuid_UUID bind try_except] in *; rewrite ?uuid_str_unhyphen.
Ltac closed_catches :=
  repeat match goal with
         | |- context [catches ?l ?e] =>
             tryif is_var e then fail
             else (let v := eval vm_compute in (catches l e) in change (catches l e) with v)
         end.
Ltac equiv_step :=
  match goal with
  | v : pyval |- _ => destruct v
  | |- context [catches _ ?e] => is_var e; destruct e
  | |- context [match ?x with _ => _ end] => destruct x eqn:?
  end.
Ltac equiv_solve :=
  intros; repeat rewrite Z.gtb_ltb; repeat rewrite Z.geb_leb; simp_rt; closed_catches; try reflexivity;
  repeat (equiv_step; simp_rt; closed_catches; try reflexivity; try congruence; try (exfalso; lia)).

Lemma format_uuid_string_equiv lim s : gen_format_uuid_string lim s = format_uuid_string s.
Proof. reflexivity. Qed.

Lemma bool_from_string_equiv lim subject strict default :
  gen_bool_from_string lim subject strict default = bool_from_string lim subject strict default.
Proof. unfold gen_bool_from_string, bool_from_string, classify_bool, norm_bool. equiv_solve. Qed.

Lemma int_from_bool_as_string_equiv lim subject :
  gen_int_from_bool_as_string lim subject = int_from_bool_as_string lim subject.
Proof.
  unfold gen_int_from_bool_as_string, int_from_bool_as_string. rewrite ?bool_from_string_equiv.
  generalize (bool_from_string lim subject false (PBool false)). intros r. clear subject. equiv_solve.
Qed.

Lemma is_valid_boolstr_equiv lim value : gen_is_valid_boolstr lim value = is_valid_boolstr lim value.
Proof. unfold gen_is_valid_boolstr, is_valid_boolstr. equiv_solve. Qed.

Lemma is_int_like_equiv lim val : gen_is_int_like lim val = is_int_like lim val.
Proof. unfold gen_is_int_like, is_int_like. equiv_solve. Qed.

Lemma check_string_length_equiv lim value min_length max_length :
  gen_check_string_length lim value min_length max_length = check_string_length value min_length max_length.
Proof. unfold gen_check_string_length, check_string_length. equiv_solve. Qed.

Lemma validate_integer_equiv lim value min_value max_value :
  gen_validate_integer lim value min_value max_value = validate_integer lim value min_value max_value.
Proof. unfold gen_validate_integer, validate_integer, below, above. equiv_solve. Qed.

Lemma is_uuid_like_equiv lim val : gen_is_uuid_like lim val = is_uuid_like lim val.
Proof.
  unfold gen_is_uuid_like, is_uuid_like. rewrite ?format_uuid_string_equiv.
  repeat match goal with |- context [gen_format_uuid_string ?l ?x] => change (gen_format_uuid_string l x) with (format_uuid_string x) end.
  equiv_solve.
Qed.

Lemma generate_uuid_equiv lim u4 dashed : gen_generate_uuid lim u4 dashed = generate_uuid u4 dashed.
Proof. unfold gen_generate_uuid, generate_uuid. destruct dashed; reflexivity. Qed.

Lemma translated_source_is_the_model :
  (forall lim v strict d, gen_bool_from_string lim v strict d = bool_from_string lim v strict d) /\
  (forall lim v, gen_int_from_bool_as_string lim v = int_from_bool_as_string lim v) /\
  (forall lim v, gen_is_valid_boolstr lim v = is_valid_boolstr lim v) /\
  (forall lim v, gen_is_int_like lim v = is_int_like lim v) /\
  (forall lim v mn mx, gen_check_string_length lim v mn mx = check_string_length v mn mx) /\
  (forall lim v lo hi, gen_validate_integer lim v lo hi = validate_integer lim v lo hi) /\
  (forall lim s, gen_format_uuid_string lim s = format_uuid_string s) /\
  (forall lim v, gen_is_uuid_like lim v = is_uuid_like lim v) /\
  (forall lim u4 dashed, gen_generate_uuid lim u4 dashed = generate_uuid u4 dashed).
Proof.
  repeat split; intros;
    first [apply bool_from_string_equiv | apply int_from_bool_as_string_equiv | apply is_valid_boolstr_equiv
          | apply is_int_like_equiv | apply check_string_length_equiv | apply validate_integer_equiv
          | apply format_uuid_string_equiv | apply is_uuid_like_equiv | apply generate_uuid_equiv].
Qed.
