(* Proofs/C14.v — translator-equivalence lemmas: the statement-level translations of the
   source (Gen/C14.v) compute exactly what the hand-written model (Model/C14.v) computes. *)
From Coq Require Import String.
Require Import OV.Base.Bytes OV.Base.Py OV.Base.PyInt OV.Base.Str.
Require Import OV.Model.C14_Py OV.Gen.C14 OV.Model.C14.
Open Scope Z_scope.

(* case analysis on every scrutinee until both sides are syntactically equal *)
Ltac split_all :=
  repeat match goal with
         | |- context [match ?x with _ => _ end] => destruct x eqn:?; try reflexivity
         end; try reflexivity; try congruence.

Lemma bool_from_string_equiv lim subject strict default :
  gen_bool_from_string lim subject strict default = bool_from_string lim subject strict default.
Proof.
  unfold gen_bool_from_string, bool_from_string, classify_bool, norm_bool, bind.
  destruct subject; cbn [is_bool py_str]; split_all.
Qed.

Lemma int_from_bool_as_string_equiv lim subject :
  gen_int_from_bool_as_string lim subject = int_from_bool_as_string lim subject.
Proof.
  unfold gen_int_from_bool_as_string, int_from_bool_as_string, bind.
  rewrite bool_from_string_equiv. split_all.
Qed.

Lemma is_valid_boolstr_equiv lim value : gen_is_valid_boolstr lim value = is_valid_boolstr lim value.
Proof. unfold gen_is_valid_boolstr, is_valid_boolstr, bind. split_all. Qed.

Lemma is_int_like_equiv lim val : gen_is_int_like lim val = is_int_like lim val.
Proof. unfold gen_is_int_like, is_int_like, try_except, bind. split_all. Qed.

Lemma check_string_length_equiv lim value min_length max_length :
  gen_check_string_length lim value min_length max_length = check_string_length value min_length max_length.
Proof. unfold gen_check_string_length, check_string_length. split_all. Qed.

Lemma validate_integer_equiv lim value min_value max_value :
  gen_validate_integer lim value min_value max_value = validate_integer lim value min_value max_value.
Proof. unfold gen_validate_integer, validate_integer, try_except, below, above, bind. split_all. Qed.

Lemma format_uuid_string_equiv lim s : gen_format_uuid_string lim s = format_uuid_string s.
Proof. reflexivity. Qed.

Lemma is_uuid_like_equiv lim val : gen_is_uuid_like lim val = is_uuid_like lim val.
Proof.
  unfold gen_is_uuid_like, is_uuid_like, try_except, bind.
  split_all; rewrite format_uuid_string_equiv; reflexivity.
Qed.

Lemma generate_uuid_equiv lim u4 dashed : gen_generate_uuid lim u4 dashed = generate_uuid u4 dashed.
Proof. reflexivity. Qed.

Lemma translated_source_is_the_model :
  (forall lim v strict d, gen_bool_from_string lim v strict d = bool_from_string lim v strict d) /\
  (forall lim v, gen_int_from_bool_as_string lim v = int_from_bool_as_string lim v) /\
  (forall lim v, gen_is_valid_boolstr lim v = is_valid_boolstr lim v) /\
  (forall lim v, gen_is_int_like lim v = is_int_like lim v) /\
  (forall lim v mn mx, gen_check_string_length lim v mn mx = check_string_length v mn mx) /\
  (forall lim v lo hi, gen_validate_integer lim v lo hi = validate_integer lim v lo hi) /\
  (forall lim s, gen_format_uuid_string lim s = format_uuid_string s) /\
  (forall lim v, gen_is_uuid_like lim v = is_uuid_like lim v) /\
  (forall lim u4 dashed, gen_generate_uuid lim u4 dashed = generate_uuid u4 dashed).
Proof.
  repeat split; intros;
    first [apply bool_from_string_equiv | apply int_from_bool_as_string_equiv | apply is_valid_boolstr_equiv
          | apply is_int_like_equiv | apply check_string_length_equiv | apply validate_integer_equiv
          | apply format_uuid_string_equiv | apply is_uuid_like_equiv | apply generate_uuid_equiv].
Qed.
