(* Proofs/C16_Regex.v — what [re_sub] of Base/Regex.v computes for the two pattern
   shapes to_slug uses, proved from the engine's definitions for every character
   set, template of literals and subject:
     one character of a class        Chr cs           -> every member is replaced
     a maximal run of a class        Rep cs 1 None    -> every maximal run is replaced  *)
Require Import OV.Base.Bytes OV.Base.PyInt OV.Base.Regex.
Open Scope N_scope.

(* templates without group references *)
Fixpoint tlits (t : list titem) : option str :=
  match t with
  | [] => Some []
  | TLit c :: r => option_map (cons c) (tlits r)
  | TGrp _ :: _ => None
  end.

Lemma expand_tlits t : forall l whole g, tlits t = Some l -> expand t whole g = l.
Proof.
  induction t as [|[c|i] r IH]; intros l whole g H; cbn in H.
  - injection H as <-. reflexivity.
  - destruct (tlits r) as [l'|] eqn:E; cbn in H; [|discriminate].
    injection H as <-. cbn [expand]. f_equal. apply IH. reflexivity.
  - discriminate.
Qed.

(* ---------- the two meanings ---------- *)
Definition replace_each (cs : cset) (l : str) (s : str) : str :=
  flat_map (fun c => if cmem c cs then l else [c]) s.

(* [in_run]: the previous character belonged to a run that has already been replaced *)
Fixpoint replace_runs (cs : cset) (l : str) (s : str) (in_run : bool) : str :=
  match s with
  | [] => []
  | c :: t => if cmem c cs then (if in_run then replace_runs cs l t true else l ++ replace_runs cs l t true)
              else c :: replace_runs cs l t false
  end.

(* ---------- Chr ---------- *)
Lemma match_at_Chr cs c t p :
  match_at (Chr cs) (c :: t) p = if cmem c cs then Some (p + 1, []) else None.
Proof. unfold match_at. cbn [m]. destruct (cmem c cs); reflexivity. Qed.

Lemma sub_go_Chr cs t l whole : tlits t = Some l ->
  forall s p, sub_go (Chr cs) t whole s p 0 = replace_each cs l s.
Proof.
  intros Ht s. induction s as [|c rest IH]; intros p; [reflexivity|].
  cbn [sub_go]. rewrite match_at_Chr. unfold replace_each. cbn [flat_map].
  destruct (cmem c cs).
  - replace (p <? p + 1) with true by lia.
    replace (N.to_nat (p + 1 - p) - 1)%nat with 0%nat by lia.
    rewrite (expand_tlits _ _ _ _ Ht). f_equal. apply IH.
  - cbn [app]. f_equal. apply IH.
Qed.

Theorem re_sub_Chr cs t l s : tlits t = Some l -> re_sub (Chr cs) t s = replace_each cs l s.
Proof. intros H. unfold re_sub. apply sub_go_Chr. exact H. Qed.

(* ---------- Rep cs 1 None ---------- *)
Lemma try_counts_now (s : str) p g mn n :
  try_counts (N * groups) s p g (fun _ p' g' => Some (p', g')) mn n = Some (p + N.of_nat n, g).
Proof. destruct n; reflexivity. Qed.

Lemma match_at_Rep1 cs s p :
  match_at (Rep cs 1 None) s p =
  match run_len cs s None with O => None | S k => Some (p + N.of_nat (S k), []) end.
Proof.
  unfold match_at. cbn [m]. destruct (run_len cs s None) as [|k] eqn:E.
  - reflexivity.
  - replace (Nat.ltb (S k) 1) with false by (symmetry; apply Nat.ltb_ge; lia).
    apply try_counts_now.
Qed.

Lemma run_len_cons cs c t :
  run_len cs (c :: t) None = if cmem c cs then S (run_len cs t None) else 0%nat.
Proof. reflexivity. Qed.

Lemma sub_go_Rep1 cs t l whole : tlits t = Some l ->
  forall s p,
    sub_go (Rep cs 1 None) t whole s p 0 = replace_runs cs l s false /\
    sub_go (Rep cs 1 None) t whole s p (run_len cs s None) = replace_runs cs l s true.
Proof.
  intros Ht s. induction s as [|c rest IH]; intros p; [split; reflexivity|].
  destruct (IH (p + 1)) as [IH0 IH1].
  rewrite run_len_cons. cbn [replace_runs].
  destruct (cmem c cs) eqn:Ec.
  - split.
    + cbn [sub_go]. rewrite match_at_Rep1, run_len_cons, Ec.
      replace (p <? p + N.of_nat (S (run_len cs rest None))) with true by lia.
      replace (N.to_nat (p + N.of_nat (S (run_len cs rest None)) - p) - 1)%nat with (run_len cs rest None) by lia.
      rewrite (expand_tlits _ _ _ _ Ht). f_equal. exact IH1.
    + cbn [sub_go]. exact IH1.
  - assert (H0 : sub_go (Rep cs 1 None) t whole (c :: rest) p 0 = c :: replace_runs cs l rest false).
    { cbn [sub_go]. rewrite match_at_Rep1, run_len_cons, Ec. f_equal. exact IH0. }
    split; exact H0.
Qed.

Theorem re_sub_Rep1 cs t l s : tlits t = Some l ->
  re_sub (Rep cs 1 None) t s = replace_runs cs l s false.
Proof. intros H. unfold re_sub. apply (sub_go_Rep1 cs t l s H s 0). Qed.

(* ---------- a descriptor for "class substitution" patterns ---------- *)
Inductive csub := CsEach (cs : cset) (l : str) | CsRuns (cs : cset) (l : str).
Definition csub_of (r : re) (t : list titem) : option csub :=
  match tlits t with
  | None => None
  | Some l =>
    match r with
    | Chr cs => Some (CsEach cs l)
    | Rep cs 1%nat None => Some (CsRuns cs l)
    | _ => None
    end
  end.
Definition csub_apply (d : csub) (s : str) : str :=
  match d with
  | CsEach cs l => replace_each cs l s
  | CsRuns cs l => replace_runs cs l s false
  end.

Theorem csub_correct r t d s : csub_of r t = Some d -> re_sub r t s = csub_apply d s.
Proof.
  unfold csub_of. destruct (tlits t) as [l|] eqn:Ht; [|discriminate].
  destruct r as [|cs|a b|a b|cs mn mx|a|i a| |]; try discriminate.
  - intros H. injection H as <-. apply re_sub_Chr. exact Ht.
  - destruct mn as [|[|mn]]; try discriminate. destruct mx; try discriminate.
    intros H. injection H as <-. apply re_sub_Rep1. exact Ht.
Qed.

(* ---------- properties of the two meanings ---------- *)
(* deleting (empty replacement) is filtering, for both shapes *)
Lemma replace_each_nil cs s : replace_each cs [] s = filter (fun c => negb (cmem c cs)) s.
Proof.
  induction s as [|c t IH]; [reflexivity|]. unfold replace_each in *. cbn [flat_map filter].
  destruct (cmem c cs); cbn [negb app]; [exact IH|f_equal; exact IH].
Qed.
Lemma replace_runs_nil cs s : forall b, replace_runs cs [] s b = filter (fun c => negb (cmem c cs)) s.
Proof.
  induction s as [|c t IH]; intros b; [reflexivity|]. cbn [replace_runs filter].
  destruct (cmem c cs); cbn [negb]; [destruct b; cbn [app]; apply IH|f_equal; apply IH].
Qed.
Definition deletes (d : csub) : option cset :=
  match d with CsEach cs [] => Some cs | CsRuns cs [] => Some cs | _ => None end.
Lemma deletes_filter d cs s : deletes d = Some cs -> csub_apply d s = filter (fun c => negb (cmem c cs)) s.
Proof.
  destruct d as [cs' [|x l]|cs' [|x l]]; cbn [deletes]; intros H; try discriminate; injection H as <-.
  - apply replace_each_nil.
  - apply replace_runs_nil.
Qed.

(* run replacement by one character h that itself belongs to the class *)
Lemma replace_runs_chars cs h s : forall b c,
  In c (replace_runs cs [h] s b) -> c = h \/ (In c s /\ cmem c cs = false).
Proof.
  induction s as [|x t IH]; intros b c H; [destruct H|].
  cbn [replace_runs] in H. destruct (cmem x cs) eqn:Ex.
  - destruct b.
    + destruct (IH _ _ H) as [->|[Hi Hc]]; [left; reflexivity|right; split; [right; exact Hi|exact Hc]].
    + cbn [app] in H. destruct H as [<-|H]; [left; reflexivity|].
      destruct (IH _ _ H) as [->|[Hi Hc]]; [left; reflexivity|right; split; [right; exact Hi|exact Hc]].
  - destruct H as [<-|H]; [right; split; [left; reflexivity|exact Ex]|].
    destruct (IH _ _ H) as [->|[Hi Hc]]; [left; reflexivity|right; split; [right; exact Hi|exact Hc]].
Qed.

(* no two adjacent h *)
Fixpoint no_double (h : N) (s : str) : bool :=
  match s with
  | a :: ((b :: _) as t) => negb ((a =? h) && (b =? h)) && no_double h t
  | _ => true
  end.

Lemma no_double_cons2 h a y r :
  no_double h (a :: y :: r) = negb ((a =? h) && (y =? h)) && no_double h (y :: r).
Proof. reflexivity. Qed.

Lemma replace_runs_no_double cs h : cmem h cs = true -> forall s b,
  no_double h (replace_runs cs [h] s b) = true /\
  (b = true -> match replace_runs cs [h] s b with x :: _ => x <> h | [] => True end).
Proof.
  intros Hh s. induction s as [|x t IH]; intros b.
  - split; [reflexivity|intros _; exact I].
  - cbn [replace_runs]. destruct (cmem x cs) eqn:Ex.
    + destruct (IH true) as [IHn IHh]. destruct b.
      * split; [exact IHn|intros _; apply IHh; reflexivity].
      * split; [|discriminate]. cbn [app].
        specialize (IHh eq_refl).
        destruct (replace_runs cs [h] t true) as [|y r] eqn:E; [reflexivity|].
        rewrite no_double_cons2.
        replace (y =? h) with false by (symmetry; apply N.eqb_neq; exact IHh).
        rewrite andb_false_r. cbn [negb andb]. exact IHn.
    + destruct (IH false) as [IHn _]. 
      assert (Hx : x <> h) by (intros ->; rewrite Hh in Ex; discriminate).
      split.
      * destruct (replace_runs cs [h] t false) as [|y r] eqn:E; [reflexivity|].
        rewrite no_double_cons2. replace (x =? h) with false by (symmetry; apply N.eqb_neq; exact Hx).
        cbn [andb negb]. exact IHn.
      * intros _. exact Hx.
Qed.

(* a text whose only class members are isolated h's is a fixed point *)
Lemma replace_runs_fixed cs h : forall s b,
  (forall c, In c s -> cmem c cs = true -> c = h) ->
  cmem h cs = true ->
  no_double h s = true ->
  (b = true -> match s with x :: _ => x <> h | [] => True end) ->
  replace_runs cs [h] s b = s.
Proof.
  induction s as [|x t IH]; intros b Hc Hh Hn Hb; [reflexivity|].
  cbn [replace_runs].
  assert (Hn' : no_double h t = true).
  { destruct t as [|y r]; [reflexivity|]. rewrite no_double_cons2 in Hn. apply andb_true_iff in Hn. apply Hn. }
  assert (Hc' : forall c, In c t -> cmem c cs = true -> c = h) by (intros c Hi; apply Hc; right; exact Hi).
  destruct (cmem x cs) eqn:Ex.
  - assert (x = h) by (apply Hc; [left; reflexivity|exact Ex]). subst x.
    destruct b; [exfalso; apply (Hb eq_refl); reflexivity|].
    cbn [app]. f_equal. apply IH; try assumption.
    intros _. destruct t as [|y r]; [exact I|].
    rewrite no_double_cons2 in Hn. apply andb_true_iff in Hn. destruct Hn as [Hn _].
    rewrite N.eqb_refl in Hn. cbn [andb] in Hn. apply negb_true_iff in Hn. apply N.eqb_neq in Hn. exact Hn.
  - f_equal. apply IH; try assumption. discriminate.
Qed.
