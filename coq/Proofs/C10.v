(* Proofs/C10.v — string_to_bytes / _extract_bytes: the lemmas behind Properties/C10.v.
   Everything about the source's tables and regexes is obtained by evaluating
   boolean checkers on the regenerated Gen/C10_Units.v values. *)
From Coq Require Import String.
From Coq Require Import ZArith SpecFloat.
Require Import OV.Base.Bytes OV.Base.Py OV.Base.PyInt OV.Base.Str OV.Base.Regex OV.Base.PyFloat.
Require Import OV.Gen.C10_Units OV.Model.C10.
Require Import OV.Proofs.C10_Regex OV.Proofs.C10_Form OV.Proofs.C10_Float.
Open Scope Z_scope.

(* ---------- the specification's tables (SI / IEC) ---------- *)

(* K M G T P E Z Y R Q *)
Definition letters : list N := [75; 77; 71; 84; 80; 69; 90; 89; 82; 81]%N.
Definition with_i (l : list N) : list str := flat_map (fun c => [[c]; [c; 105%N]]) l.
Definition iec_prefixes : list str := with_i letters.
Definition si_prefixes : list str := map (fun c => [c]) (107%N :: tl letters).
Definition mixed_prefixes : list str := with_i (107%N :: letters).
Definition spec_systems : list (str * list str) :=
  [(lit "IEC", iec_prefixes); (lit "SI", si_prefixes); (lit "mixed", mixed_prefixes)].

(* kilo 1, mega 2, giga 3, tera 4, peta 5, exa 6, zetta 7, yotta 8, ronna 9, quetta 10 *)
Fixpoint index_of (c : N) (l : list N) (i : Z) : Z :=
  match l with [] => 0 | x :: t => if (x =? c)%N then i else index_of c t (i + 1) end.
Definition spec_exp (p : str) : Z :=
  match p with
  | c :: _ => if (c =? 107)%N then 1 else index_of c letters 1
  | [] => 0
  end.
Definition ends_with_i (p : str) : bool := match rev p with c :: _ => (c =? 105)%N | [] => false end.
Definition spec_base (u p : str) : Z :=
  if beq u (lit "IEC") then 1024
  else if beq u (lit "SI") then 1000
  else if ends_with_i p then 1024 else 1000.

(* ---------- checks on the generated values ---------- *)

Definition systems_ok : bool :=
  forallb (fun sp => match lookup (fst sp) unit_system_info with
                     | Some (_, rx) => unit_ok rx (snd sp) && uniq_ok (snd sp)
                     | None => false
                     end) spec_systems.
Lemma systems_ok_true : systems_ok = true.
Proof. vm_compute. reflexivity. Qed.

Definition keys_ok : bool :=
  forallb (fun e => str_mem (fst e) (map fst spec_systems)) unit_system_info.
Lemma keys_ok_true : keys_ok = true.
Proof. vm_compute. reflexivity. Qed.

(* every prefix of every system: exponent found and equal to the SI/IEC one, the base in effect
   is the specified one, and base^exponent converts to a finite float *)
Definition is_some_finite (o : option float64) : bool :=
  match o with Some x => f_is_finite x | None => false end.
Definition tables_ok : bool :=
  forallb (fun sp =>
    match lookup (fst sp) unit_system_info with
    | Some (base, _) =>
        forallb (fun p =>
          match lookup p unit_prefix_exponent with
          | Some e => (e =? spec_exp p) && (0 <=? e) &&
                      match effective_base (fst sp) base (Some p) with
                      | Some b => (b =? spec_base (fst sp) p) && is_some_finite (float_of_Z (b ^ e))
                      | None => false
                      end
          | None => false
          end) (snd sp)
    | None => false
    end) spec_systems.
Lemma tables_ok_true : tables_ok = true.
Proof. vm_compute. reflexivity. Qed.

Definition eight : float64 := S754_finite false 4503599627370496 (-49).
Lemma float_of_8 : float_of_Z 8 = Some eight.
Proof. vm_compute. reflexivity. Qed.

(* ---------- small facts ---------- *)

Lemma lookup_in {A} k (d : list (str * A)) v : lookup k d = Some v -> In (k, v) d.
Proof.
  induction d as [|[k' v'] t IH]; cbn [lookup]; [discriminate|].
  destruct (beq k k') eqn:E.
  - apply beq_eq in E. subst. intros H. injection H as ->. left. reflexivity.
  - intros H. right. apply IH. exact H.
Qed.

Lemma known_system u base rx : lookup u unit_system_info = Some (base, rx) ->
  exists prefixes, In (u, prefixes) spec_systems.
Proof.
  intros H. apply lookup_in in H.
  pose proof keys_ok_true as K. unfold keys_ok in K. rewrite forallb_forall in K.
  specialize (K _ H). cbn [fst] in K. apply str_mem_In in K.
  apply in_map_iff in K. destruct K as [[u' prefixes] [E I]]. cbn [fst] in E. subst. eauto.
Qed.

Lemma system_facts u prefixes : In (u, prefixes) spec_systems ->
  exists base rx, lookup u unit_system_info = Some (base, rx) /\
    unit_ok rx prefixes = true /\ uniq_ok prefixes = true.
Proof.
  intros H. pose proof systems_ok_true as S. unfold systems_ok in S. rewrite forallb_forall in S.
  specialize (S _ H). cbn [fst snd] in S.
  destruct (lookup u unit_system_info) as [[base rx]|]; [|discriminate].
  apply andb_true_iff in S. exists base, rx. tauto.
Qed.

Lemma table_facts u prefixes base rx p :
  In (u, prefixes) spec_systems -> lookup u unit_system_info = Some (base, rx) -> In p prefixes ->
  lookup p unit_prefix_exponent = Some (spec_exp p) /\ 0 <= spec_exp p /\
  effective_base u base (Some p) = Some (spec_base u p) /\
  exists x, float_of_Z (spec_base u p ^ spec_exp p) = Some x /\ f_is_finite x = true.
Proof.
  intros H L Hp. pose proof tables_ok_true as T. unfold tables_ok in T. rewrite forallb_forall in T.
  specialize (T _ H). cbn [fst snd] in T. rewrite L in T. rewrite forallb_forall in T. specialize (T _ Hp).
  destruct (lookup p unit_prefix_exponent) as [e|]; [|discriminate].
  destruct (effective_base u base (Some p)) as [b|]; [|rewrite andb_false_r in T; discriminate].
  repeat match goal with H : _ && _ = true |- _ => apply andb_true_iff in H; destruct H end.
  match goal with H : (e =? _) = true |- _ => apply Z.eqb_eq in H; subst e end.
  match goal with H : (b =? _) = true |- _ => apply Z.eqb_eq in H; subst b end.
  split; [reflexivity|]. split; [lia|]. split; [reflexivity|].
  unfold is_some_finite in *. destruct (float_of_Z (spec_base u p ^ spec_exp p)) as [x|]; [|discriminate].
  exists x. auto.
Qed.

(* ---------- the evaluation a well-formed text gets ---------- *)

Definition is_bit (un : str) : bool := beq un (lit "b") || beq un (lit "bit").

Definition spec_eval (u nm pre un : str) (ri : bool) : res num :=
  match py_float_of_str nm with
  | None => Exn ValueError
  | Some m =>
      do m' <- (if is_bit un then f_div_int m 8 else Ok m);
      do r <- (match pre with [] => Ok m' | _ => f_mul_int m' (spec_base u pre ^ spec_exp pre) end);
      finish ri r
  end.

Theorem string_to_bytes_eval u prefixes : In (u, prefixes) spec_systems ->
  forall num pre un nl ri,
  numform num -> (pre = [] \/ In pre prefixes) -> In un units3 -> (nl = [] \/ nl = [10%N]) ->
  string_to_bytes (num ++ pre ++ un ++ nl) u ri = spec_eval u num pre un ri.
Proof.
  intros HS num pre un nl ri Hn Hp Hu Hl.
  destruct (system_facts u prefixes HS) as [base [rx [L [OKr UQ]]]].
  destruct (unit_match_groups rx prefixes OKr UQ num pre un nl Hn Hp Hu Hl) as [e [g [M [G1 [G2 G3]]]]].
  unfold string_to_bytes, spec_eval. rewrite L, M, G1, G3.
  destruct (py_float_of_str num) as [m|]; [|reflexivity].
  change (is_bit_unit (Some un)) with (is_bit un).
  destruct (if is_bit un then f_div_int m 8 else Ok m) as [m'|ex]; cbn [bind]; [|reflexivity].
  destruct pre as [|c p'].
  - rewrite G2. reflexivity.
  - rewrite G2. destruct Hp as [Hp|Hp]; [discriminate|].
    destruct (table_facts u prefixes base rx (c :: p') HS L Hp) as [T1 [T2 [T3 _]]].
    cbv zeta. unfold str, bytes in *. rewrite T1, T3. unfold py_pow. replace (spec_exp (c :: p') <? 0) with false by lia.
    cbn [bind]. reflexivity.
Qed.

(* a well-formed text always yields a float when return_int is off *)
Theorem admitted_returns_float u prefixes : In (u, prefixes) spec_systems ->
  forall num pre un nl,
  numform num -> (pre = [] \/ In pre prefixes) -> In un units3 -> (nl = [] \/ nl = [10%N]) ->
  exists r, string_to_bytes (num ++ pre ++ un ++ nl) u false = Ok (NFloat r).
Proof.
  intros HS num pre un nl Hn Hp Hu Hl.
  rewrite (string_to_bytes_eval u prefixes HS num pre un nl false Hn Hp Hu Hl).
  unfold spec_eval.
  destruct (py_float_of_str num) as [m|] eqn:E; [|exfalso; exact (float_of_numform_total num Hn E)].
  assert (D : exists m', (if is_bit un then f_div_int m 8 else Ok m) = Ok m').
  { destruct (is_bit un); [|eauto]. unfold f_div_int. rewrite float_of_8. cbn. eauto. }
  destruct D as [m' ->]. cbn [bind].
  destruct pre as [|c p']; [cbn; eauto|].
  destruct Hp as [Hp|Hp]; [discriminate|].
  destruct (system_facts u prefixes HS) as [base [rx [L _]]].
  destruct (table_facts u prefixes base rx (c :: p') HS L Hp) as [_ [_ [_ [x [Fx _]]]]].
  unfold f_mul_int. rewrite Fx. cbn. eauto.
Qed.

(* ---------- return_int is the ceiling of the float result ---------- *)

Theorem return_int_is_ceil t u :
  string_to_bytes t u true =
  match string_to_bytes t u false with
  | Ok (NFloat r) => (do z <- ceil_to_Z r; Ok (NInt z))
  | other => other
  end.
Proof.
  unfold string_to_bytes.
  destruct (lookup u unit_system_info) as [[base rx]|]; [|reflexivity].
  destruct (re_match rx t) as [[e g]|]; [|reflexivity].
  destruct (group_text t g 1) as [g1|]; [|reflexivity].
  destruct (py_float_of_str g1) as [m|]; [|reflexivity].
  destruct (if is_bit_unit (group_text t g 3) then f_div_int m 8 else Ok m) as [m'|ex]; cbn [bind]; [|reflexivity].
  destruct (group_text t g 2) as [[|c p']|]; try reflexivity.
  destruct (lookup (c :: p') unit_prefix_exponent) as [ex|]; [|reflexivity].
  destruct (py_pow _ ex) as [pw|]; cbn [bind]; [|reflexivity].
  destruct (f_mul_int m' pw) as [r|]; cbn [bind]; reflexivity.
Qed.

(* ceil_to_Z is the mathematical ceiling of the float's value (-1)^s * m * 2^e *)
Lemma ceil_to_Z_spec s m e z : ceil_to_Z (S754_finite s m e) = Ok z ->
  let v := if s then Zneg m else Zpos m in
  if 0 <=? e then z = v * 2 ^ e
  else (z - 1) * 2 ^ (- e) < v <= z * 2 ^ (- e).
Proof.
  cbn [ceil_to_Z]. intros H. injection H as <-. cbn zeta.
  set (v := if s then Z.neg m else Z.pos m).
  destruct (0 <=? e) eqn:E; [reflexivity|].
  unfold f_pow2. assert (0 < 2 ^ (- e)) by (apply Z.pow_pos_nonneg; lia).
  pose proof (Z.div_mod (- v) (2 ^ (- e)) ltac:(lia)) as D.
  pose proof (Z.mod_pos_bound (- v) (2 ^ (- e)) ltac:(lia)) as B.
  nia.
Qed.

(* ---------- only ValueError (and the overflow zone, finding K14) ---------- *)

(* the float result of the text is infinite *)
Definition overflow_zone (t u : str) : bool :=
  match string_to_bytes t u false with
  | Ok (NFloat (S754_infinity _)) => true
  | _ => false
  end.

Theorem only_ValueError_or_overflow t u ri e :
  string_to_bytes t u ri = Exn e ->
  e = ValueError \/ (e = OverflowError /\ ri = true /\ overflow_zone t u = true).
Proof.
  intros H.
  destruct (lookup u unit_system_info) as [[base rx]|] eqn:L.
  2:{ unfold string_to_bytes in H. rewrite L in H. injection H as <-. auto. }
  destruct (known_system u base rx L) as [prefixes HS].
  destruct (system_facts u prefixes HS) as [base' [rx' [L' [OKr UQ]]]].
  rewrite L in L'. injection L' as <- <-.
  destruct (re_matchb rx t) eqn:M.
  2:{ unfold string_to_bytes in H. rewrite L in H. unfold re_matchb in M.
      destruct (re_match rx t) as [[? ?]|]; [discriminate|]. injection H as <-. auto. }
  apply (unit_match_iff_form rx prefixes OKr) in M.
  destruct M as [num [pre [un [nl [-> [Hn [Hp [Hu Hl]]]]]]]].
  destruct (admitted_returns_float u prefixes HS num pre un nl Hn Hp Hu Hl) as [r Hr].
  unfold overflow_zone. rewrite Hr.
  destruct ri.
  - rewrite return_int_is_ceil, Hr in H.
    destruct r as [s|s| |s m ex]; cbn in H; try discriminate; injection H as <-; auto.
  - rewrite Hr in H. discriminate.
Qed.

(* the full statement (ValueError and nothing else) is refuted by a 400-digit magnitude *)
Definition only_ValueError_full_statement : Prop :=
  forall t u ri e, string_to_bytes t u ri = Exn e -> e = ValueError.

Definition overflow_witness : str := repeatN 57%N 400 ++ lit "B".

Lemma overflow_witness_raises :
  string_to_bytes overflow_witness (lit "IEC") true = Exn OverflowError.
Proof. vm_compute. reflexivity. Qed.

Theorem only_ValueError_refuted : ~ only_ValueError_full_statement.
Proof.
  intros F. specialize (F _ _ _ _ overflow_witness_raises). discriminate.
Qed.

(* outside the zone the statement holds *)
Corollary only_ValueError_outside_zone t u ri e :
  overflow_zone t u = false -> string_to_bytes t u ri = Exn e -> e = ValueError.
Proof.
  intros Z H. destruct (only_ValueError_or_overflow t u ri e H) as [->|[_ [_ Z']]]; [reflexivity|congruence].
Qed.

(* ---------- admitted <-> form; unknown systems; foreign prefixes ---------- *)

Theorem admitted_iff_form u prefixes base rx :
  In (u, prefixes) spec_systems -> lookup u unit_system_info = Some (base, rx) ->
  forall t, re_matchb rx t = true <-> form prefixes t.
Proof.
  intros HS L t. destruct (system_facts u prefixes HS) as [base' [rx' [L' [OKr _]]]].
  rewrite L in L'. injection L' as <- <-. apply unit_match_iff_form. exact OKr.
Qed.

Theorem system_known_iff u :
  lookup u unit_system_info <> None <-> (u = lit "IEC" \/ u = lit "SI" \/ u = lit "mixed").
Proof.
  split.
  - destruct (lookup u unit_system_info) as [[base rx]|] eqn:L; [|congruence]. intros _.
    destruct (known_system u base rx L) as [prefixes HS].
    cbn in HS. destruct HS as [E|[E|[E|[]]]]; injection E as <- _; auto.
  - intros [->|[->| ->]].
    + destruct (system_facts (lit "IEC") iec_prefixes) as [b [r [L _]]]; [left; reflexivity|]. rewrite L. discriminate.
    + destruct (system_facts (lit "SI") si_prefixes) as [b [r [L _]]]; [right; left; reflexivity|]. rewrite L. discriminate.
    + destruct (system_facts (lit "mixed") mixed_prefixes) as [b [r [L _]]]; [right; right; left; reflexivity|]. rewrite L. discriminate.
Qed.

Theorem not_admitted_raises_ValueError t u ri :
  (forall prefixes, In (u, prefixes) spec_systems -> ~ form prefixes t) ->
  string_to_bytes t u ri = Exn ValueError.
Proof.
  intros NF. unfold string_to_bytes.
  destruct (lookup u unit_system_info) as [[base rx]|] eqn:L; [|reflexivity].
  destruct (known_system u base rx L) as [prefixes HS].
  pose proof (admitted_iff_form u prefixes base rx HS L t) as A.
  unfold re_matchb in A. destruct (re_match rx t) as [[e g]|]; [|reflexivity].
  exfalso. apply (NF prefixes HS). apply A. reflexivity.
Qed.

(* ---------- every capturable prefix is a key of the exponent table ---------- *)

Theorem prefix_table_total u base rx t e g p :
  lookup u unit_system_info = Some (base, rx) ->
  re_match rx t = Some (e, g) -> group_text t g 2 = Some p -> p <> [] ->
  lookup p unit_prefix_exponent = Some (spec_exp p) /\
  effective_base u base (Some p) = Some (spec_base u p) /\
  exists x, float_of_Z (spec_base u p ^ spec_exp p) = Some x /\ f_is_finite x = true.
Proof.
  intros L M G Hne.
  destruct (known_system u base rx L) as [prefixes HS].
  destruct (system_facts u prefixes HS) as [base' [rx' [L' [OKr UQ]]]].
  rewrite L in L'. injection L' as <- <-.
  assert (F : form prefixes t).
  { apply (unit_match_iff_form rx prefixes OKr). unfold re_matchb. rewrite M. reflexivity. }
  destruct F as [num [pre [un [nl [-> [Hn [Hp [Hu Hl]]]]]]]].
  destruct (unit_match_groups rx prefixes OKr UQ num pre un nl Hn Hp Hu Hl) as [e' [g' [M' [_ [G2 _]]]]].
  rewrite M in M'. injection M' as <- <-. rewrite G in G2.
  destruct pre as [|c p']; [discriminate|]. injection G2 as ->.
  destruct Hp as [Hp|Hp]; [discriminate|].
  destruct (table_facts u prefixes base rx (c :: p') HS L Hp) as [T1 [_ [T3 T4]]]. auto.
Qed.

