(* Proofs/C10.v — string_to_bytes / _extract_bytes: the lemmas behind Properties/C10.v.
   Everything about the source's tables and regexes is obtained by evaluating
   boolean checkers on the regenerated Gen/C10_Units.v values. *)
From Coq Require Import String.
From Coq Require Import ZArith SpecFloat.
Require Import OV.Base.Bytes OV.Base.Py OV.Base.PyInt OV.Base.Str OV.Base.Regex OV.Base.PyFloat.
Require Import OV.Model.C10_Regex OV.Gen.C10_Units OV.Model.C10.
Require Import OV.Proofs.C10_Regex OV.Proofs.C10_Form OV.Proofs.C10_Float.
Open Scope Z_scope.

(* ---------- the specification's tables (SI / IEC) ---------- *)

(* K M G T P E Z Y R Q *)
Definition letters : list N := [75; 77; 71; 84; 80; 69; 90; 89; 82; 81]%N.
Definition with_i (l : list N) : list str := flat_map (fun c => [[c]; [c; 105%N]]) l.
Definition iec_prefixes : list str := with_i letters.
Definition si_prefixes : list str := map (fun c => [c]) (107%N :: tl letters).
Definition mixed_prefixes : list str := with_i (107%N :: letters).
Definition spec_systems : list (str * list str) :=
  [(lit "IEC", iec_prefixes); (lit "SI", si_prefixes); (lit "mixed", mixed_prefixes)].

(* kilo 1, mega 2, giga 3, tera 4, peta 5, exa 6, zetta 7, yotta 8, ronna 9, quetta 10 *)
Fixpoint index_of (c : N) (l : list N) (i : Z) : Z :=
  match l with [] => 0 | x :: t => if (x =? c)%N then i else index_of c t (i + 1) end.
Definition spec_exp (p : str) : Z :=
  match p with
  | c :: _ => if (c =? 107)%N then 1 else index_of c letters 1
  | [] => 0
  end.
Definition ends_with_i (p : str) : bool := match rev p with c :: _ => (c =? 105)%N | [] => false end.
Definition spec_base (u p : str) : Z :=
  if beq u (lit "IEC") then 1024
  else if beq u (lit "SI") then 1000
  else if ends_with_i p then 1024 else 1000.

(* ---------- checks on the generated values ---------- *)

Definition systems_ok : bool :=
  forallb (fun sp => match lookup (fst sp) unit_system_info with
                     | Some (_, rx) => unit_ok rx (snd sp) && uniq_ok (snd sp)
                     | None => false
                     end) spec_systems.
Lemma systems_ok_true : systems_ok = true.
Proof. vm_compute. reflexivity. Qed.

Definition keys_ok : bool :=
  forallb (fun e => str_mem (fst e) (map fst spec_systems)) unit_system_info.
Lemma keys_ok_true : keys_ok = true.
Proof. vm_compute. reflexivity. Qed.

(* every prefix of every system: exponent found and equal to the SI/IEC one, the base in effect
   is the specified one, and base^exponent converts to a finite float *)
Definition is_some_finite (o : option float64) : bool :=
  match o with Some x => f_is_finite x | None => false end.
Definition tables_ok : bool :=
  forallb (fun sp =>
    match lookup (fst sp) unit_system_info with
    | Some (base, _) =>
        forallb (fun p =>
          match lookup p unit_prefix_exponent with
          | Some e => (e =? spec_exp p) && (0 <=? e) &&
                      match effective_base (fst sp) base (Some p) with
                      | Some b => (b =? spec_base (fst sp) p) && is_some_finite (float_of_Z (b ^ e)) && (8 <=? b ^ e)
                      | None => false
                      end
          | None => false
          end) (snd sp)
    | None => false
    end) spec_systems.
Lemma tables_ok_true : tables_ok = true.
Proof. vm_compute. reflexivity. Qed.

Definition eight : float64 := S754_finite false 4503599627370496 (-49).
Lemma float_of_8 : float_of_Z 8 = Some eight.
Proof. vm_compute. reflexivity. Qed.

(* ---------- small facts ---------- *)

Lemma lookup_in {A} k (d : list (str * A)) v : lookup k d = Some v -> In (k, v) d.
Proof.
  induction d as [|[k' v'] t IH]; cbn [lookup]; [discriminate|].
  destruct (beq k k') eqn:E.
  - apply beq_eq in E. subst. intros H. injection H as ->. left. reflexivity.
  - intros H. right. apply IH. exact H.
Qed.

Lemma known_system u base rx : lookup u unit_system_info = Some (base, rx) ->
  exists prefixes, In (u, prefixes) spec_systems.
Proof.
  intros H. apply lookup_in in H.
  pose proof keys_ok_true as K. unfold keys_ok in K. rewrite forallb_forall in K.
  specialize (K _ H). cbn [fst] in K. apply str_mem_In in K.
  apply in_map_iff in K. destruct K as [[u' prefixes] [E I]]. cbn [fst] in E. subst. eauto.
Qed.

Lemma system_facts u prefixes : In (u, prefixes) spec_systems ->
  exists base rx, lookup u unit_system_info = Some (base, rx) /\
    unit_ok rx prefixes = true /\ uniq_ok prefixes = true.
Proof.
  intros H. pose proof systems_ok_true as S. unfold systems_ok in S. rewrite forallb_forall in S.
  specialize (S _ H). cbn [fst snd] in S.
  destruct (lookup u unit_system_info) as [[base rx]|]; [|discriminate].
  apply andb_true_iff in S. exists base, rx. tauto.
Qed.

Lemma table_facts u prefixes base rx p :
  In (u, prefixes) spec_systems -> lookup u unit_system_info = Some (base, rx) -> In p prefixes ->
  lookup p unit_prefix_exponent = Some (spec_exp p) /\ 0 <= spec_exp p /\
  effective_base u base (Some p) = Some (spec_base u p) /\
  (exists x, float_of_Z (spec_base u p ^ spec_exp p) = Some x /\ f_is_finite x = true) /\
  8 <= spec_base u p ^ spec_exp p.
Proof.
  intros H L Hp. pose proof tables_ok_true as T. unfold tables_ok in T. rewrite forallb_forall in T.
  specialize (T _ H). cbn [fst snd] in T. rewrite L in T. rewrite forallb_forall in T. specialize (T _ Hp).
  destruct (lookup p unit_prefix_exponent) as [e|]; [|discriminate].
  destruct (effective_base u base (Some p)) as [b|]; [|rewrite andb_false_r in T; discriminate].
  repeat match goal with H : _ && _ = true |- _ => apply andb_true_iff in H; destruct H end.
  match goal with H : (e =? _) = true |- _ => apply Z.eqb_eq in H; subst e end.
  match goal with H : (b =? _) = true |- _ => apply Z.eqb_eq in H; subst b end.
  split; [reflexivity|]. split; [lia|]. split; [reflexivity|].
  split; [|lia].
  unfold is_some_finite in *. destruct (float_of_Z (spec_base u p ^ spec_exp p)) as [x|]; [|discriminate].
  exists x. auto.
Qed.

(* ---------- the evaluation a well-formed text gets ---------- *)

Definition is_bit (un : str) : bool := beq un (lit "b") || beq un (lit "bit").

Definition spec_eval (u nm pre un : str) (ri : bool) : res num :=
  match py_float_of_str nm with
  | None => Exn ValueError
  | Some m =>
      do m' <- (if is_bit un then f_div_int m 8 else Ok m);
      do r <- (match pre with [] => Ok m' | _ => f_mul_int m' (spec_base u pre ^ spec_exp pre) end);
      finish ri r
  end.

Theorem string_to_bytes_eval u prefixes : In (u, prefixes) spec_systems ->
  forall num pre un ri,
  numform num -> (pre = [] \/ In pre prefixes) -> In un units3 ->
  string_to_bytes (num ++ pre ++ un) u ri = spec_eval u num pre un ri.
Proof.
  intros HS num pre un ri Hn Hp Hu.
  destruct (system_facts u prefixes HS) as [base [[rx eos] [L [OKr UQ]]]].
  destruct (unit_match_groups rx eos prefixes OKr UQ num pre un Hn Hp Hu) as [e [g [M [G1 [G2 G3]]]]].
  unfold string_to_bytes, spec_eval. rewrite L, M, G1, G3.
  destruct (py_float_of_str num) as [m|]; [|reflexivity].
  change (is_bit_unit (Some un)) with (is_bit un).
  destruct (if is_bit un then f_div_int m 8 else Ok m) as [m'|ex]; cbn [bind]; [|reflexivity].
  destruct pre as [|c p'].
  - rewrite G2. reflexivity.
  - rewrite G2. destruct Hp as [Hp|Hp]; [discriminate|].
    destruct (table_facts u prefixes base (rx, eos) (c :: p') HS L Hp) as [T1 [T2 [T3 _]]].
    cbv zeta. unfold str, bytes in *. rewrite T1, T3. unfold py_pow. replace (spec_exp (c :: p') <? 0) with false by lia.
    cbn [bind]. reflexivity.
Qed.

(* a well-formed text always yields a float when return_int is off *)
Theorem admitted_returns_float u prefixes : In (u, prefixes) spec_systems ->
  forall num pre un,
  numform num -> (pre = [] \/ In pre prefixes) -> In un units3 ->
  exists r, string_to_bytes (num ++ pre ++ un) u false = Ok (NFloat r).
Proof.
  intros HS num pre un Hn Hp Hu.
  rewrite (string_to_bytes_eval u prefixes HS num pre un false Hn Hp Hu).
  unfold spec_eval.
  destruct (py_float_of_str num) as [m|] eqn:E; [|exfalso; exact (float_of_numform_total num Hn E)].
  assert (D : exists m', (if is_bit un then f_div_int m 8 else Ok m) = Ok m').
  { destruct (is_bit un); [|eauto]. unfold f_div_int. rewrite float_of_8. cbn. eauto. }
  destruct D as [m' ->]. cbn [bind].
  destruct pre as [|c p']; [cbn; eauto|].
  destruct Hp as [Hp|Hp]; [discriminate|].
  destruct (system_facts u prefixes HS) as [base [rx [L _]]].
  destruct (table_facts u prefixes base rx (c :: p') HS L Hp) as [_ [_ [_ [[x [Fx _]] _]]]].
  unfold f_mul_int. rewrite Fx. cbn. eauto.
Qed.

(* ---------- return_int is the ceiling of the float result ---------- *)

(* int(math.ceil(r)), an OverflowError (r infinite) turned into ValueError *)
Definition ceil_or_ValueError (r : float64) : res num :=
  match ceil_to_Z r with
  | Ok z => Ok (NInt z)
  | Exn OverflowError => Exn ValueError
  | Exn e => Exn e
  end.

Theorem return_int_is_ceil t u :
  string_to_bytes t u true =
  match string_to_bytes t u false with
  | Ok (NFloat r) => ceil_or_ValueError r
  | other => other
  end.
Proof.
  unfold string_to_bytes.
  destruct (lookup u unit_system_info) as [[base rx]|]; [|reflexivity].
  destruct (rz_match rx t) as [[e g]|]; [|reflexivity].
  destruct (group_text t g 1) as [g1|]; [|reflexivity].
  destruct (py_float_of_str g1) as [m|]; [|reflexivity].
  destruct (if is_bit_unit (group_text t g 3) then f_div_int m 8 else Ok m) as [m'|ex]; cbn [bind]; [|reflexivity].
  destruct (group_text t g 2) as [[|c p']|]; try reflexivity.
  destruct (lookup (c :: p') unit_prefix_exponent) as [ex|]; [|reflexivity].
  destruct (py_pow _ ex) as [pw|]; cbn [bind]; [|reflexivity].
  destruct (f_mul_int m' pw) as [r|]; cbn [bind]; reflexivity.
Qed.

Lemma ceil_or_ValueError_exn r e : ceil_or_ValueError r = Exn e -> e = ValueError.
Proof.
  unfold ceil_or_ValueError. destruct r as [s|s| |s m ex]; cbn; intros H; try discriminate; injection H as <-; reflexivity.
Qed.

(* ceil_to_Z is the mathematical ceiling of the float's value (-1)^s * m * 2^e *)
Lemma ceil_to_Z_spec s m e z : ceil_to_Z (S754_finite s m e) = Ok z ->
  let v := if s then Zneg m else Zpos m in
  if 0 <=? e then z = v * 2 ^ e
  else (z - 1) * 2 ^ (- e) < v <= z * 2 ^ (- e).
Proof.
  cbn [ceil_to_Z]. intros H. injection H as <-. cbn zeta.
  set (v := if s then Z.neg m else Z.pos m).
  destruct (0 <=? e) eqn:E; [reflexivity|].
  unfold f_pow2. assert (0 < 2 ^ (- e)) by (apply Z.pow_pos_nonneg; lia).
  pose proof (Z.div_mod (- v) (2 ^ (- e)) ltac:(lia)) as D.
  pose proof (Z.mod_pos_bound (- v) (2 ^ (- e)) ltac:(lia)) as B.
  nia.
Qed.

(* ---------- only ValueError ---------- *)

Theorem only_ValueError t u ri e : string_to_bytes t u ri = Exn e -> e = ValueError.
Proof.
  intros H.
  destruct (lookup u unit_system_info) as [[base rx]|] eqn:L.
  2:{ unfold string_to_bytes in H. rewrite L in H. injection H as <-. reflexivity. }
  destruct (known_system u base rx L) as [prefixes HS].
  destruct (system_facts u prefixes HS) as [base' [rx' [L' [OKr UQ]]]].
  rewrite L in L'. injection L' as <- <-.
  destruct (rz_matchb rx t) eqn:M.
  2:{ unfold string_to_bytes in H. rewrite L in H. unfold rz_matchb in M.
      destruct (rz_match rx t) as [[? ?]|]; [discriminate|]. injection H as <-. reflexivity. }
  destruct rx as [rx eos].
  apply (unit_match_iff_form rx eos prefixes OKr) in M.
  destruct M as [num [pre [un [-> [Hn [Hp Hu]]]]]].
  destruct (admitted_returns_float u prefixes HS num pre un Hn Hp Hu) as [r Hr].
  destruct ri.
  - rewrite return_int_is_ceil, Hr in H. apply (ceil_or_ValueError_exn r e H).
  - rewrite Hr in H. discriminate.
Qed.

(* a quantity beyond binary64: the float evaluation is inf (the IEEE evaluation); with return_int the
   OverflowError of math.ceil(inf) is turned into ValueError *)
Definition overflow_witness : str := repeatN 57%N 400 ++ lit "B".
Example overflow_witness_float :
  string_to_bytes overflow_witness (lit "IEC") false = Ok (NFloat (S754_infinity false)).
Proof. vm_compute. reflexivity. Qed.
Example overflow_witness_int :
  string_to_bytes overflow_witness (lit "IEC") true = Exn ValueError.
Proof. vm_compute. reflexivity. Qed.

(* ---------- admitted <-> form; unknown systems; foreign prefixes ---------- *)

Theorem admitted_iff_form u prefixes base rx :
  In (u, prefixes) spec_systems -> lookup u unit_system_info = Some (base, rx) ->
  forall t, rz_matchb rx t = true <-> form prefixes t.
Proof.
  intros HS L t. destruct (system_facts u prefixes HS) as [base' [rx' [L' [OKr _]]]].
  rewrite L in L'. injection L' as <- <-. destruct rx as [rx eos]. apply unit_match_iff_form. exact OKr.
Qed.

Theorem system_known_iff u :
  lookup u unit_system_info <> None <-> (u = lit "IEC" \/ u = lit "SI" \/ u = lit "mixed").
Proof.
  split.
  - destruct (lookup u unit_system_info) as [[base rx]|] eqn:L; [|congruence]. intros _.
    destruct (known_system u base rx L) as [prefixes HS].
    cbn in HS. destruct HS as [E|[E|[E|[]]]]; injection E as <- _; auto.
  - intros [->|[->| ->]].
    + destruct (system_facts (lit "IEC") iec_prefixes) as [b [r [L _]]]; [left; reflexivity|]. rewrite L. discriminate.
    + destruct (system_facts (lit "SI") si_prefixes) as [b [r [L _]]]; [right; left; reflexivity|]. rewrite L. discriminate.
    + destruct (system_facts (lit "mixed") mixed_prefixes) as [b [r [L _]]]; [right; right; left; reflexivity|]. rewrite L. discriminate.
Qed.

Theorem not_admitted_raises_ValueError t u ri :
  (forall prefixes, In (u, prefixes) spec_systems -> ~ form prefixes t) ->
  string_to_bytes t u ri = Exn ValueError.
Proof.
  intros NF. unfold string_to_bytes.
  destruct (lookup u unit_system_info) as [[base rx]|] eqn:L; [|reflexivity].
  destruct (known_system u base rx L) as [prefixes HS].
  pose proof (admitted_iff_form u prefixes base rx HS L t) as A.
  unfold rz_matchb in A. destruct (rz_match rx t) as [[e g]|]; [|reflexivity].
  exfalso. apply (NF prefixes HS). apply A. reflexivity.
Qed.

(* ---------- every capturable prefix is a key of the exponent table ---------- *)

Theorem prefix_table_total u base rx t e g p :
  lookup u unit_system_info = Some (base, rx) ->
  rz_match rx t = Some (e, g) -> group_text t g 2 = Some p -> p <> [] ->
  lookup p unit_prefix_exponent = Some (spec_exp p) /\
  effective_base u base (Some p) = Some (spec_base u p) /\
  exists x, float_of_Z (spec_base u p ^ spec_exp p) = Some x /\ f_is_finite x = true.
Proof.
  intros L M G Hne.
  destruct (known_system u base rx L) as [prefixes HS].
  destruct (system_facts u prefixes HS) as [base' [rx' [L' [OKr UQ]]]].
  rewrite L in L'. injection L' as <- <-.
  assert (F : form prefixes t).
  { destruct rx as [rx eos]. apply (unit_match_iff_form rx eos prefixes OKr). unfold rz_matchb. rewrite M. reflexivity. }
  destruct F as [num [pre [un [-> [Hn [Hp Hu]]]]]].
  destruct rx as [rx eos].
  destruct (unit_match_groups rx eos prefixes OKr UQ num pre un Hn Hp Hu) as [e' [g' [M' [_ [G2 _]]]]].
  rewrite M in M'. injection M' as <- <-. rewrite G in G2.
  destruct pre as [|c p']; [discriminate|]. injection G2 as ->.
  destruct Hp as [Hp|Hp]; [discriminate|].
  destruct (table_facts u prefixes base (rx, eos) (c :: p') HS L Hp) as [T1 [_ [T3 [T4 _]]]]. auto.
Qed.


(* ---------- exactness when everything is representable ---------- *)

(* the binary64 whose value is exactly the integer (-1)^neg * a, for a < 2^53 *)
Definition float_of_small_int (neg : bool) (a : positive) : float64 := normal neg a 0.

Lemma normal_of_odd_part s p : dig p <= 53 ->
  normal s (fst (odd_part p)) (snd (odd_part p)) = normal s p 0.
Proof.
  intros D. pose proof (odd_part_spec p) as S. destruct (odd_part p) as [q j]. destruct S as [Hj [Hp _]].
  cbn [fst snd]. assert (E : p = Z.to_pos (Zpos q * 2 ^ j)) by (rewrite <- Hp; reflexivity).
  rewrite E at 1. symmetry. apply normal_scale; [exact Hj|].
  rewrite <- (dig_shift q j Hj), <- E. exact D.
Qed.

(* it is what float(int) gives *)
Lemma float_of_small_int_spec (neg : bool) a : Zpos a < 2 ^ 53 ->
  float_of_Z (if neg then Zneg a else Zpos a) = Some (float_of_small_int neg a).
Proof.
  intros H. assert (D : dig a <= 53) by (apply dig_le_of_lt; lia).
  unfold float_of_Z, f_normalize, float_of_small_int.
  destruct neg; cbn [binary_normalize];
    change fprec with 53; change femax with 1024;
    rewrite round_odd_part by (try apply repr53b_of_lt; lia); rewrite normal_of_odd_part by exact D; reflexivity.
Qed.

Lemma repr53b_xO p : repr53b p~0 = repr53b p.
Proof. unfold repr53b. cbn [odd_part]. destruct (odd_part p). reflexivity. Qed.

Definition exact_hyps (u : str) (prefixes : list str) (sg ds pre un : str) (n F a : positive) : Prop :=
  In (u, prefixes) spec_systems /\
  (sg = [] \/ sg = [43%N] \/ sg = [45%N]) /\
  digits ds = true /\ ds <> [] /\
  (pre = [] \/ In pre prefixes) /\ In un units3 /\
  dvalN (map asc ds) 0 = Npos n /\
  Zpos F = match pre with [] => 1 | _ => spec_base u pre ^ spec_exp pre end /\
  repr53b F = true /\
  Zpos n * Zpos F = Zpos a * (if is_bit un then 8 else 1) /\
  Zpos a < 2 ^ 53.

Lemma ex_prod u prefixes sg ds pre un n F a (HH : exact_hyps u prefixes sg ds pre un n F a) : Zpos n * Zpos F = Zpos a * 2 ^ (if is_bit un then 3 else 0).
Proof.
  destruct HH as [_ [_ [_ [_ [_ [_ [_ [_ [_ [Hprod _]]]]]]]]]].
  rewrite Hprod. destruct (is_bit un); reflexivity.
Qed.

Lemma ex_F_ge u prefixes sg ds pre un n F a (HH : exact_hyps u prefixes sg ds pre un n F a) : pre <> [] -> 8 <= Zpos F.
Proof.
  pose proof HH as HH0. destruct HH as [HS [Hsg [Hds [Hne [Hpre [Hun [Hn [HF [HrF [Hprod Ha]]]]]]]]]].
  set (neg := beq sg [45%N]) in *. set (k := if is_bit un then 3 else 0) in *.
  intros Hp. destruct pre as [|c p'] eqn:E; [congruence|]. rewrite HF.
  destruct Hpre as [Hq|Hq]; [discriminate|].
  destruct (system_facts u prefixes HS) as [base [rx [L _]]].
  destruct (table_facts u prefixes base rx (c :: p') HS L Hq) as [_ [_ [_ [_ T]]]]. exact T.
Qed.

Lemma ex_bounds u prefixes sg ds pre un n F a (HH : exact_hyps u prefixes sg ds pre un n F a) : Zpos n < 2 ^ 56 /\ Zpos F < 2 ^ 56.
Proof.
  pose proof HH as HH0. destruct HH as [HS [Hsg [Hds [Hne [Hpre [Hun [Hn [HF [HrF [Hprod Ha]]]]]]]]]].
  set (neg := beq sg [45%N]) in *. set (k := if is_bit un then 3 else 0) in *.
  pose proof (ex_prod _ _ _ _ _ _ _ _ _ HH0) as P. change (if is_bit un then 3 else 0) with k in P. assert (2 ^ k <= 8) by (unfold k; destruct (is_bit un); cbn; lia).
  assert (0 < 2 ^ k) by (unfold k; destruct (is_bit un); cbn; lia).
  change (2 ^ 56) with (2 ^ 53 * 8). set (X := 2 ^ k) in *. clearbody X.
  assert (Zpos n <= Zpos n * Zpos F) by nia. assert (Zpos F <= Zpos n * Zpos F) by nia.
  assert (Zpos a * X <= Zpos a * 8) by nia. split; lia.
Qed.

Lemma ex_repr_n u prefixes sg ds pre un n F a (HH : exact_hyps u prefixes sg ds pre un n F a) : repr53b n = true.
Proof.
  pose proof HH as HH0. destruct HH as [HS [Hsg [Hds [Hne [Hpre [Hun [Hn [HF [HrF [Hprod Ha]]]]]]]]]].
  set (neg := beq sg [45%N]) in *. set (k := if is_bit un then 3 else 0) in *.
  destruct pre as [|c p'] eqn:E.
  - assert (F1 : Zpos F = 1) by exact HF. pose proof (ex_prod _ _ _ _ _ _ _ _ _ HH0) as P. change (if is_bit un then 3 else 0) with k in P. rewrite F1 in P. unfold k in P.
    destruct (is_bit un).
    + assert (En : n = (a~0~0~0)%positive) by (apply Pos2Z.inj; change (Z.pos a~0~0~0) with (8 * Z.pos a); change (2 ^ 3) with 8 in P; lia).
      rewrite En, !repr53b_xO. apply repr53b_of_lt. exact Ha.
    + apply repr53b_of_lt. change (2 ^ 0) with 1 in P. lia.
  - assert (G : 8 <= Zpos F) by (apply (ex_F_ge _ _ _ _ _ _ _ _ _ HH0); discriminate).
    apply repr53b_of_lt. pose proof (ex_prod _ _ _ _ _ _ _ _ _ HH0) as P. change (if is_bit un then 3 else 0) with k in P.
    assert (2 ^ k <= 8) by (unfold k; destruct (is_bit un); cbn; lia). nia.
Qed.

(* float(number) *)
Lemma ex_magnitude u prefixes sg ds pre un n F a (HH : exact_hyps u prefixes sg ds pre un n F a) : py_float_of_str (sg ++ ds) = Some (normal (beq sg [45%N]) (fst (odd_part n)) (snd (odd_part n))).
Proof.
  pose proof HH as HH0. destruct HH as [HS [Hsg [Hds [Hne [Hpre [Hun [Hn [HF [HrF [Hprod Ha]]]]]]]]]].
  set (neg := beq sg [45%N]) in *. set (k := if is_bit un then 3 else 0) in *.
  rewrite (float_of_signed_digits sg ds Hsg Hds Hne). fold neg. rewrite Hn.
  unfold f_of_decimal. replace (400 <=? 0) with false by reflexivity.
  replace (Z.of_nat (length ds) + 0 <=? -400) with false by lia.
  replace (0 <=? 0) with true by reflexivity.
  change (Z.to_pos (10 ^ 0)) with 1%positive. rewrite Pos.mul_1_r. unfold f_round. f_equal.
  change fprec with 53. change femax with 1024.
  apply round_odd_part; [exact (ex_repr_n _ _ _ _ _ _ _ _ _ HH0)|]. apply dig_le_of_lt; [lia|]. destruct (ex_bounds _ _ _ _ _ _ _ _ _ HH0). lia.
Qed.

Lemma ex_result u prefixes sg ds pre un n F a (HH : exact_hyps u prefixes sg ds pre un n F a) :
  exists r, spec_eval u (sg ++ ds) pre un false = Ok (NFloat r) /\ r = float_of_small_int (beq sg [45%N]) a.
Proof.
  pose proof HH as HH0. destruct HH as [HS [Hsg [Hds [Hne [Hpre [Hun [Hn [HF [HrF [Hprod Ha]]]]]]]]]].
  set (neg := beq sg [45%N]) in *. set (k := if is_bit un then 3 else 0) in *.
  unfold spec_eval. rewrite (ex_magnitude _ _ _ _ _ _ _ _ _ HH0). change (beq sg [45%N]) with neg.
  pose proof (ex_repr_n _ _ _ _ _ _ _ _ _ HH0) as Rn. unfold repr53b in Rn. apply Z.leb_le in Rn.
  pose proof (odd_part_spec n) as Sn. destruct (odd_part n) as [qn jn]. destruct Sn as [Hjn [Hpn Hon]].
  pose proof (odd_part_spec F) as Sf. pose proof HrF as RF. unfold repr53b in RF.
  destruct (odd_part F) as [qf jf] eqn:EF. destruct Sf as [Hjf [Hpf Hof]]. cbn [fst snd] in *. apply Z.leb_le in RF.
  destruct (ex_bounds _ _ _ _ _ _ _ _ _ HH0) as [Bn Bf]. pose proof (ex_prod _ _ _ _ _ _ _ _ _ HH0) as P. change (if is_bit un then 3 else 0) with k in P.
  assert (Dn : dig n <= 56) by (apply dig_le_of_lt; lia).
  assert (DF : dig F <= 56) by (apply dig_le_of_lt; lia).
  assert (Dqn : dig n = dig qn + jn).
  { rewrite <- (dig_shift qn jn Hjn). f_equal. rewrite <- Hpn. reflexivity. }
  assert (Dqf : dig F = dig qf + jf).
  { rewrite <- (dig_shift qf jf Hjf). f_equal. rewrite <- Hpf. reflexivity. }
  pose proof (dig_pos qn). pose proof (dig_pos qf).
  assert (Hk : 0 <= k) by (unfold k; destruct (is_bit un); lia).
  (* the odd part of n * F against a * 2^k *)
  assert (E0 : Zpos (qn * qf) * 2 ^ (jn + jf) = Zpos a * 2 ^ k).
  { rewrite <- P, Hpn, Hpf, Pos2Z.inj_mul, Z.pow_add_r by lia. lia. }
  assert (Ot : Z.odd (Zpos (qn * qf)) = true) by (rewrite Pos2Z.inj_mul, Z.odd_mul, Hon, Hof; reflexivity).
  assert (Hjj : 0 <= jn + jf) by lia.
  assert (Kle : k <= jn + jf) by (apply (odd_pow_div (Zpos (qn * qf)) (jn + jf) (Zpos a) k Ot Hjj Hk E0)).
  assert (Ea : Zpos (qn * qf) * 2 ^ (jn + jf - k) = Zpos a).
  { replace (jn + jf) with (jn + jf - k + k) in E0 by lia. rewrite Z.pow_add_r in E0 by lia.
    pose proof (pow2_pos k Hk). nia. }
  assert (Da : dig a <= 53) by (apply dig_le_of_lt; lia).
  assert (Dsum : dig (qn * qf) + (jn + jf - k) = dig a).
  { rewrite <- (dig_shift (qn * qf) (jn + jf - k)) by lia. f_equal. rewrite Ea. reflexivity. }
  assert (Final : normal neg (qn * qf) (jn + jf - k) = float_of_small_int neg a).
  { unfold float_of_small_int. rewrite <- (normal_scale neg (qn * qf) (jn + jf - k)) by lia.
    rewrite Ea. reflexivity. }
  (* the optional division by 8 *)
  assert (M' : exists m', (if is_bit un then f_div_int (normal neg qn jn) 8 else Ok (normal neg qn jn)) = Ok m' /\
                          m' = normal neg qn (jn - k)).
  { unfold k. destruct (is_bit un).
    - unfold f_div_int. rewrite float_of_8. unfold eight. rewrite div8_normal by lia. eauto.
    - exists (normal neg qn jn). split; [reflexivity|]. f_equal. lia. }
  destruct M' as [m' [-> ->]]. cbn [bind].
  destruct pre as [|c p'] eqn:Epre.
  - (* no prefix: F = 1 *)
    assert (F1 : F = 1%positive) by (apply Pos2Z.inj; exact HF). subst F. change (Z.pos 1) with 1 in Hpf.
    assert (qf = 1%positive /\ jf = 0).
    { pose proof (Pos2Z.is_pos qf) as Pq.
      destruct (Z.eq_dec jf 0) as [->|Nz]; [split; [|reflexivity]; change (2 ^ 0) with 1 in Hpf; lia|].
      exfalso. assert (T2 : 2 ^ 1 <= 2 ^ jf) by (apply Z.pow_le_mono_r; lia). change (2 ^ 1) with 2 in T2.
      set (X := 2 ^ jf) in *. clearbody X. nia. }
    destruct H1 as [-> ->]. cbn [finish]. eexists. split; [reflexivity|].
    rewrite <- Final. rewrite Pos.mul_1_r. f_equal. lia.
  - unfold f_mul_int. rewrite <- HF.
    assert (FF : float_of_Z (Zpos F) = Some (normal false qf jf)).
    { unfold float_of_Z, f_normalize. cbn [binary_normalize]. change fprec with 53. change femax with 1024.
      assert (DF2 : dig F <= 1024) by lia.
      pose proof (round_odd_part false F HrF DF2) as R. rewrite EF in R. cbn [fst snd] in R. rewrite R. reflexivity. }
    rewrite FF. cbn [bind finish]. eexists. split; [reflexivity|].
    pose proof (dig_pos (qn * qf)).
    assert (D3 : dig (qn * qf) <= 53) by (rewrite <- Dsum in Da; lia).
    rewrite mul_normal by lia.
    rewrite Bool.xorb_false_r, <- Final. f_equal. lia.
Qed.

Theorem exact_when_representable u prefixes sg ds pre un n F a :
  exact_hyps u prefixes sg ds pre un n F a ->
  string_to_bytes (sg ++ ds ++ pre ++ un) u false = Ok (NFloat (float_of_small_int (beq sg [45%N]) a)) /\
  string_to_bytes (sg ++ ds ++ pre ++ un) u true = Ok (NInt (if beq sg [45%N] then Zneg a else Zpos a)).
Proof.
  intros HH. pose proof HH as HH0.
  destruct HH as [HS [Hsg [Hds [Hne [Hpre [Hun [Hn [HF [HrF [Hprod Ha]]]]]]]]]].
  assert (NF : numform (sg ++ ds)).
  { exists sg, [], [], ds. repeat split; auto. }
  assert (E1 : string_to_bytes (sg ++ ds ++ pre ++ un) u false = Ok (NFloat (float_of_small_int (beq sg [45%N]) a))).
  { rewrite app_assoc. rewrite (string_to_bytes_eval u prefixes HS (sg ++ ds) pre un false NF Hpre Hun).
    destruct (ex_result _ _ _ _ _ _ _ _ _ HH0) as [r [Hr ->]]. exact Hr. }
  split; [exact E1|].
  rewrite return_int_is_ceil, E1. unfold float_of_small_int, ceil_or_ValueError.
  assert (Da : dig a <= 53) by (apply dig_le_of_lt; lia).
  rewrite ceil_normal by lia. f_equal. f_equal.
  change (2 ^ 0) with 1. destruct (beq sg [45%N]); lia.
Qed.

(* instances of the hypotheses (non-vacuity) *)
Example exact_3KiB : exact_hyps (lit "IEC") iec_prefixes [] (lit "3") (lit "Ki") (lit "B") 3 1024 3072.
Proof. unfold exact_hyps. repeat split; try reflexivity; try (vm_compute; tauto); try (vm_compute; congruence). Qed.
Example exact_minus_16Mbit_SI : exact_hyps (lit "SI") si_prefixes (lit "-") (lit "16") (lit "M") (lit "bit") 16 1000000 2000000.
Proof. unfold exact_hyps. repeat split; try reflexivity; try (vm_compute; tauto); try (vm_compute; congruence). Qed.
Example exact_big_bits : exact_hyps (lit "mixed") mixed_prefixes [] (lit "72057594037927928") [] (lit "b") 72057594037927928 1 9007199254740991.
Proof. unfold exact_hyps. repeat split; try reflexivity; try (vm_compute; tauto); try (vm_compute; congruence). Qed.
Example exact_arabic_indic : exact_hyps (lit "mixed") mixed_prefixes (lit "+") [1635%N; 1634%N] (lit "ki") (lit "bit") 32 1024 4096.
Proof. unfold exact_hyps. repeat split; try reflexivity; try (vm_compute; tauto); try (vm_compute; congruence). Qed.
Example exact_3KiB_value :
  string_to_bytes (lit "3KiB") (lit "IEC") true = Ok (NInt 3072).
Proof. exact (proj2 (exact_when_representable _ _ _ _ _ _ _ _ _ exact_3KiB)). Qed.

(* ---------- oslo_utils.units: the SI / IEC constants agree with base ^ exponent ---------- *)

(* every constant of units.py whose name is a key of the exponent table is base^exponent with base 1024
   when the name ends in i and 1000 otherwise; and the 20 SI / IEC names are all there *)
Definition units_ok : bool :=
  forallb (fun nv => match lookup (fst nv) unit_prefix_exponent with
                     | Some e => snd nv =? (if ends_with_i (fst nv) then 1024 else 1000) ^ e
                     | None => true
                     end) units_constants &&
  forallb (fun p => match lookup p units_constants with
                    | Some v => v =? 1000 ^ spec_exp p
                    | None => false
                    end) si_prefixes &&
  forallb (fun p => negb (ends_with_i p) ||
                    match lookup p units_constants with
                    | Some v => v =? 1024 ^ spec_exp p
                    | None => false
                    end) iec_prefixes.
Lemma units_ok_true : units_ok = true.
Proof. vm_compute. reflexivity. Qed.

Theorem units_agree :
  (forall nm v e, In (nm, v) units_constants -> lookup nm unit_prefix_exponent = Some e ->
                  v = (if ends_with_i nm then 1024 else 1000) ^ e) /\
  (forall p, In p si_prefixes -> lookup p units_constants = Some (1000 ^ spec_exp p)) /\
  (forall p, In p iec_prefixes -> ends_with_i p = true -> lookup p units_constants = Some (1024 ^ spec_exp p)).
Proof.
  pose proof units_ok_true as U. unfold units_ok in U.
  apply andb_true_iff in U. destruct U as [U U3]. apply andb_true_iff in U. destruct U as [U1 U2].
  rewrite forallb_forall in U1, U2, U3.
  split; [|split].
  - intros nm v e HI HL. specialize (U1 _ HI). cbn [fst snd] in U1. rewrite HL in U1. apply Z.eqb_eq in U1. exact U1.
  - intros p HI. specialize (U2 _ HI). destruct (lookup p units_constants) as [v|]; [|discriminate].
    apply Z.eqb_eq in U2. subst v. reflexivity.
  - intros p HI HE. specialize (U3 _ HI). rewrite HE in U3. cbn [negb orb] in U3.
    destruct (lookup p units_constants) as [v|]; [|discriminate].
    apply Z.eqb_eq in U3. subst v. reflexivity.
Qed.

(* magnitude zero (any number of zero digits, any sign): the result is a zero, return_int gives 0 *)
Theorem exact_zero u prefixes sg ds pre un :
  In (u, prefixes) spec_systems -> (sg = [] \/ sg = [43%N] \/ sg = [45%N]) ->
  digits ds = true -> ds <> [] -> dvalN (map asc ds) 0 = 0%N ->
  (pre = [] \/ In pre prefixes) -> In un units3 ->
  string_to_bytes (sg ++ ds ++ pre ++ un) u false = Ok (NFloat (S754_zero (beq sg [45%N]))) /\
  string_to_bytes (sg ++ ds ++ pre ++ un) u true = Ok (NInt 0).
Proof.
  intros HS Hsg Hds Hne Hz Hpre Hun.
  assert (NF : numform (sg ++ ds)) by (exists sg, [], [], ds; repeat split; auto).
  assert (E1 : string_to_bytes (sg ++ ds ++ pre ++ un) u false = Ok (NFloat (S754_zero (beq sg [45%N])))).
  { rewrite app_assoc. rewrite (string_to_bytes_eval u prefixes HS (sg ++ ds) pre un false NF Hpre Hun).
    unfold spec_eval. rewrite (float_of_signed_digits sg ds Hsg Hds Hne), Hz. cbn [f_of_decimal].
    set (neg := beq sg [45%N]).
    match goal with |- bind ?X _ = _ => assert (D : X = Ok (S754_zero neg)) end.
    { destruct (is_bit un); [|reflexivity]. unfold f_div_int. rewrite float_of_8. unfold eight, f_div. cbn.
      rewrite Bool.xorb_false_r. reflexivity. }
    rewrite D. cbn [bind].
    destruct pre as [|c p']; [reflexivity|].
    destruct Hpre as [Hq|Hq]; [discriminate|].
    destruct (system_facts u prefixes HS) as [base [rx [L _]]].
    destruct (table_facts u prefixes base rx (c :: p') HS L Hq) as [_ [_ [_ [[x [Fx Ffin]] F8]]]].
    unfold f_mul_int. rewrite Fx. cbn [bind finish].
    destruct (spec_base u (c :: p') ^ spec_exp (c :: p')) as [|pF|pF] eqn:EF; try lia.
    pose proof (float_of_pos_sign pF x Fx) as Sx.
    destruct x as [s|s| |s m e]; try discriminate; try contradiction; subst s; unfold f_mul; cbn; rewrite Bool.xorb_false_r; reflexivity. }
  split; [exact E1|]. rewrite return_int_is_ceil, E1. reflexivity.
Qed.

Example exact_zero_example :
  string_to_bytes (lit "-000QiB") (lit "IEC") true = Ok (NInt 0).
Proof.
  apply (proj2 (exact_zero (lit "IEC") iec_prefixes (lit "-") (lit "000") (lit "Qi") (lit "B")
                  ltac:(vm_compute; tauto) ltac:(auto) eq_refl ltac:(discriminate) eq_refl ltac:(right; vm_compute; tauto) ltac:(vm_compute; tauto))).
Qed.
