(* Proofs/C14_Str.v — facts about str.strip() and str.lower() (Base/PyInt.v, Base/Str.v)
   and about the generated Unicode tables, as far as C14 needs them. *)
Require Import OV.Base.Bytes OV.Base.PyInt OV.Base.Str OV.Gen.Unicode.
Open Scope N_scope.

(* ---------------------------------------------------------------- strip *)
Definition all_space (s : str) : bool := forallb is_space s.

Lemma all_space_app a b : all_space (a ++ b) = all_space a && all_space b.
Proof. apply forallb_app. Qed.

Lemma all_space_rev a : all_space (rev a) = all_space a.
Proof.
  unfold all_space. induction a as [|c a IH]; [reflexivity|].
  cbn [rev forallb]. rewrite forallb_app, IH. cbn [forallb]. rewrite andb_true_r. apply andb_comm.
Qed.

Lemma lstrip_split s : exists pre, s = pre ++ lstrip s /\ all_space pre = true.
Proof.
  induction s as [|c t IH].
  - exists []. split; reflexivity.
  - cbn [lstrip]. destruct (is_space c) eqn:Hc.
    + destruct IH as [pre [H1 H2]]. exists (c :: pre). split.
      * cbn [app]. f_equal. exact H1.
      * unfold all_space in *. cbn [forallb]. rewrite Hc, H2. reflexivity.
    + exists []. split; reflexivity.
Qed.

Lemma lstrip_app_space pre x : all_space pre = true -> lstrip (pre ++ x) = lstrip x.
Proof.
  induction pre as [|c pre IH]; intros H; [reflexivity|].
  unfold all_space in H. cbn [forallb] in H. apply andb_true_iff in H. destruct H as [Hc Hp].
  cbn [app lstrip]. rewrite Hc. apply IH. exact Hp.
Qed.

Lemma lstrip_all_space s : all_space s = true -> lstrip s = [].
Proof. intros H. rewrite <- (app_nil_r s). rewrite lstrip_app_space by exact H. reflexivity. Qed.

Lemma rstrip_split s : exists post, s = rstrip s ++ post /\ all_space post = true.
Proof.
  unfold rstrip. destruct (lstrip_split (rev s)) as [pre [H1 H2]].
  exists (rev pre). split.
  - rewrite <- (rev_involutive s) at 1. rewrite H1 at 1. apply rev_app_distr.
  - rewrite all_space_rev. exact H2.
Qed.

(* strip s is s without a whitespace prefix and a whitespace suffix *)
Lemma strip_padded s : exists pre post,
  s = pre ++ strip s ++ post /\ all_space pre = true /\ all_space post = true.
Proof.
  unfold strip. destruct (lstrip_split s) as [pre [H1 H2]].
  destruct (rstrip_split (lstrip s)) as [post [H3 H4]].
  exists pre, post. split; [|split; assumption].
  rewrite <- H3. exact H1.
Qed.

(* first and last characters are not whitespace *)
Definition ends_nonspace (x : str) : bool :=
  match x with [] => false | c :: _ => negb (is_space c) && negb (is_space (last x 0)) end.

Lemma last_rev_cons (c : N) t d : last (rev (c :: t)) d = c.
Proof. cbn [rev]. apply last_last. Qed.

Lemma hd_rev_last (x : str) d : x <> [] -> hd d (rev x) = last x d.
Proof.
  intros H. destruct x as [|c t] using rev_ind; [congruence|].
  rewrite rev_app_distr, last_last. reflexivity.
Qed.

Lemma strip_unique pre x post :
  all_space pre = true -> all_space post = true -> ends_nonspace x = true ->
  strip (pre ++ x ++ post) = x.
Proof.
  intros Hpre Hpost Hx. unfold strip.
  destruct x as [|c t]; [discriminate|]. cbn [ends_nonspace] in Hx.
  apply andb_true_iff in Hx. destruct Hx as [Hc Hl]. apply negb_true_iff in Hc, Hl.
  rewrite lstrip_app_space by exact Hpre.
  change ((c :: t) ++ post) with (c :: (t ++ post)).
  rewrite lstrip_nospace by exact Hc.
  unfold rstrip.
  change (c :: t ++ post) with ((c :: t) ++ post).
  rewrite rev_app_distr. rewrite lstrip_app_space by (rewrite all_space_rev; exact Hpost).
  assert (Hne : c :: t <> []) by discriminate.
  pose proof (hd_rev_last (c :: t) 0 Hne) as Hh.
  destruct (rev (c :: t)) as [|r rt] eqn:Er.
  - apply (f_equal (@length N)) in Er. rewrite rev_length in Er. discriminate.
  - cbn [hd] in Hh. rewrite lstrip_nospace by (rewrite Hh; exact Hl).
    rewrite <- Er. apply rev_involutive.
Qed.

Lemma strip_all_space s : all_space s = true -> strip s = [].
Proof. intros H. unfold strip. rewrite lstrip_all_space by exact H. reflexivity. Qed.

(* no whitespace character is an ASCII capital letter (computed on the generated table) *)
Fixpoint cset_disjoint (lo hi : N) (cs : cset) : bool :=
  match cs with [] => true | (a, b) :: t => ((b <? lo) || (hi <? a)) && cset_disjoint lo hi t end.

Lemma cset_disjoint_spec lo hi cs c :
  cset_disjoint lo hi cs = true -> lo <= c <= hi -> cmem c cs = false.
Proof.
  induction cs as [|[a b] t IH]; intros H Hc; [reflexivity|].
  cbn [cset_disjoint] in H. apply andb_true_iff in H. destruct H as [H1 H2].
  cbn [cmem]. rewrite (IH H2 Hc). replace ((a <=? c) && (c <=? b)) with false by lia. reflexivity.
Qed.

Lemma space_not_capital : cset_disjoint 65 90 py_space = true.
Proof. vm_compute. reflexivity. Qed.

Lemma is_space_lower_ascii1 c : is_space (lower_ascii1 c) = false -> is_space c = false.
Proof.
  unfold lower_ascii1. destruct ((65 <=? c) && (c <=? 90)) eqn:E; [|auto].
  intros _. unfold is_space. apply (cset_disjoint_spec 65 90); [exact space_not_capital|lia].
Qed.

Lemma last_map (f : N -> N) (x : str) d : x <> [] -> last (map f x) d = f (last x d).
Proof.
  intros H. destruct x as [|c t] using rev_ind; [congruence|].
  rewrite map_app. cbn [map]. rewrite !last_last. reflexivity.
Qed.

Lemma ends_nonspace_lower_ascii x : ends_nonspace (lower_ascii x) = true -> ends_nonspace x = true.
Proof.
  destruct x as [|c t]; [auto|]. unfold lower_ascii. cbn [map ends_nonspace].
  change (lower_ascii1 c :: map lower_ascii1 t) with (map lower_ascii1 (c :: t)).
  rewrite last_map by discriminate. intros H.
  apply andb_true_iff in H. destruct H as [H1 H2]. apply negb_true_iff in H1, H2.
  rewrite (is_space_lower_ascii1 _ H1), (is_space_lower_ascii1 _ H2). reflexivity.
Qed.

(* ---------------------------------------------------------------- lower *)
Lemma memN_In c l : memN c l = true <-> In c l.
Proof.
  induction l as [|x t IH]; cbn [memN In]; [split; [discriminate|tauto]|].
  rewrite orb_true_iff, IH, N.eqb_eq. tauto.
Qed.

Definition ascii_range : list N := map N.of_nat (seq 0 128).

Lemma in_ascii_range c : c < 128 -> In c ascii_range.
Proof.
  intros H. unfold ascii_range. rewrite <- (N2Nat.id c). apply in_map. apply in_seq. lia.
Qed.

(* on ASCII, str.lower() is the ASCII rule (computed on the generated tables) *)
Lemma lower_ascii_table :
  forallb (fun c => beq (py_lower1 c) [lower_ascii1 c]) ascii_range = true.
Proof. vm_compute. reflexivity. Qed.

Lemma py_lower1_ascii c : c < 128 -> py_lower1 c = [lower_ascii1 c].
Proof.
  intros H. pose proof lower_ascii_table as T. rewrite forallb_forall in T.
  apply beq_eq. apply T. apply in_ascii_range. exact H.
Qed.

(* which non-ASCII code points lower into a given set of ASCII characters: a check of
   the generated tables that is parametric in the set *)
Definition run_bad (x : N) (r : N * N * N) : bool :=
  let '(lo, hi, tgt) := r in (tgt <=? x) && (128 <=? x - tgt + lo) && (x - tgt + lo <=? hi).
Definition lower_avoids (cs : list N) : bool :=
  forallb (fun x => x <? 128) cs &&
  forallb (fun r => forallb (fun x => negb (run_bad x r)) cs) lower_runs &&
  forallb (fun kv => (fst kv <? 128) || negb (existsb (fun y => memN y cs) (snd kv))) lower_multi.
Definition lower_nonempty : bool :=
  forallb (fun kv : N * list N => match snd kv with [] => false | _ => true end) lower_multi.

Lemma lower_run_some c runs l : lower_run c runs = Some l ->
  exists lo hi tgt, In (lo, hi, tgt) runs /\ lo <= c <= hi /\ l = c - lo + tgt.
Proof.
  induction runs as [|[[lo hi] tgt] t IH]; intros H; [discriminate|].
  cbn [lower_run] in H. destruct ((lo <=? c) && (c <=? hi)) eqn:E.
  - injection H as <-. exists lo, hi, tgt. split; [left; reflexivity|]. split; [lia|reflexivity].
  - destruct (IH H) as (lo' & hi' & tgt' & Hin & Hr & Hl).
    exists lo', hi', tgt'. split; [right; exact Hin|]. split; assumption.
Qed.

Lemma lower_multi_some c l v : lower_multi_find c l = Some v -> In (c, v) l.
Proof.
  induction l as [|[k w] t IH]; intros H; [discriminate|].
  cbn [lower_multi_find] in H. destruct (k =? c) eqn:E.
  - injection H as <-. apply N.eqb_eq in E. subst. left. reflexivity.
  - right. apply IH. exact H.
Qed.

Lemma py_lower1_avoid cs : lower_avoids cs = true ->
  forall c x, 128 <= c -> In x (py_lower1 c) -> In x cs -> False.
Proof.
  unfold lower_avoids. intros H c x Hc Hx Hcs.
  apply andb_true_iff in H. destruct H as [H Hm]. apply andb_true_iff in H. destruct H as [Ha Hr].
  rewrite forallb_forall in Ha, Hr, Hm.
  unfold py_lower1 in Hx. destruct (lower_run c lower_runs) as [l|] eqn:El.
  - destruct Hx as [<-|[]].
    destruct (lower_run_some _ _ _ El) as (lo & hi & tgt & Hin & Hrange & ->).
    specialize (Hr _ Hin). rewrite forallb_forall in Hr. specialize (Hr _ Hcs).
    unfold run_bad in Hr. apply negb_true_iff in Hr.
    replace (c - lo + tgt - tgt + lo) with c in Hr by lia. lia.
  - destruct (lower_multi_find c lower_multi) as [v|] eqn:Em.
    + apply lower_multi_some in Em. specialize (Hm _ Em). cbn [fst snd] in Hm.
      apply orb_true_iff in Hm. destruct Hm as [Hm|Hm]; [lia|].
      apply negb_true_iff in Hm. assert (Ht : existsb (fun y => memN y cs) v = true).
      { apply existsb_exists. exists x. split; [exact Hx|]. apply memN_In. exact Hcs. }
      congruence.
    + destruct Hx as [<-|[]]. specialize (Ha _ Hcs). lia.
Qed.

Lemma lower_nonempty_ok : lower_nonempty = true.
Proof. vm_compute. reflexivity. Qed.

Lemma py_lower1_nonempty c : py_lower1 c <> [].
Proof.
  unfold py_lower1. destruct (lower_run c lower_runs); [discriminate|].
  destruct (lower_multi_find c lower_multi) as [v|] eqn:Em; [|discriminate].
  apply lower_multi_some in Em. pose proof lower_nonempty_ok as H. unfold lower_nonempty in H.
  rewrite forallb_forall in H. specialize (H _ Em). cbn [snd] in H. destruct v; [discriminate|discriminate].
Qed.

Lemma lower_ascii1_ge c : 128 <= c -> lower_ascii1 c = c.
Proof. intros H. unfold lower_ascii1. replace ((65 <=? c) && (c <=? 90)) with false by lia. reflexivity. Qed.

Lemma lower_ascii1_lt c : c < 128 -> lower_ascii1 c < 128.
Proof. intros H. unfold lower_ascii1. destruct ((65 <=? c) && (c <=? 90)) eqn:E; lia. Qed.

(* For a word w over a character set that no non-ASCII code point lowers into:
   x.lower() = w exactly when x is w up to ASCII case. *)
Lemma py_lower_eq_word cs w : lower_avoids cs = true -> (forall a, In a w -> In a cs) ->
  forall x, py_lower x = w <-> lower_ascii x = w.
Proof.
  intros Hav Hw x. revert w Hw. induction x as [|c t IH]; intros w Hw.
  - cbn. tauto.
  - unfold py_lower, lower_ascii. cbn [flat_map map]. fold (py_lower t). fold (lower_ascii t).
    assert (Hcs : forall a, In a cs -> a < 128).
    { unfold lower_avoids in Hav. apply andb_true_iff in Hav. destruct Hav as [Hav _].
      apply andb_true_iff in Hav. destruct Hav as [Hav _]. rewrite forallb_forall in Hav.
      intros a Ha. specialize (Hav _ Ha). lia. }
    destruct (N.lt_ge_cases c 128) as [Hc|Hc].
    + rewrite (py_lower1_ascii c Hc). cbn [app].
      destruct w as [|a w']; [split; discriminate|].
      assert (Hw' : forall a0, In a0 w' -> In a0 cs) by (intros; apply Hw; right; assumption).
      specialize (IH w' Hw'). split; intros H; injection H as H1 H2; f_equal; tauto.
    + split; intros H; exfalso.
      * destruct (py_lower1 c) as [|y ys] eqn:Ey; [exact (py_lower1_nonempty c Ey)|].
        cbn [app] in H. destruct w as [|a w']; [discriminate|]. injection H as H1 H2. subst a.
        apply (py_lower1_avoid cs Hav c y Hc); [rewrite Ey; left; reflexivity|apply Hw; left; reflexivity].
      * destruct w as [|a w']; [discriminate|]. injection H as H1 H2.
        rewrite (lower_ascii1_ge c Hc) in H1. subst a.
        assert (c < 128) by (apply Hcs, Hw; left; reflexivity). lia.
Qed.

(* every character of x.lower() lies in cs  ->  x is ASCII and lower() is the ASCII rule *)
Lemma py_lower_all_in cs : lower_avoids cs = true ->
  forall x, (forall a, In a (py_lower x) -> In a cs) ->
  py_lower x = lower_ascii x /\ Forall (fun c => c < 128) x.
Proof.
  intros Hav x. induction x as [|c t IH]; intros H.
  - split; [reflexivity|constructor].
  - unfold py_lower, lower_ascii in *. cbn [flat_map map] in *.
    destruct (N.lt_ge_cases c 128) as [Hc|Hc].
    + rewrite (py_lower1_ascii c Hc) in *. cbn [app] in *.
      destruct IH as [I1 I2]; [intros a Ha; apply H; right; exact Ha|].
      split; [f_equal; exact I1|constructor; assumption].
    + exfalso. destruct (py_lower1 c) as [|y ys] eqn:Ey; [exact (py_lower1_nonempty c Ey)|].
      apply (py_lower1_avoid cs Hav c y Hc); [rewrite Ey; left; reflexivity|].
      apply H. cbn [app]. left. reflexivity.
Qed.

(* the two code points that DO lower onto ASCII letters (stated so that the truth is on record) *)
Example kelvin_sign_lowers_to_k : py_lower1 8490 = [107].
Proof. vm_compute. reflexivity. Qed.
Example capital_i_with_dot_lowers_to_i_and_combining_dot : py_lower1 304 = [105; 775].
Proof. vm_compute. reflexivity. Qed.
