(* Proofs/C11_Aton.v — inet_aton (glibc) text form: model recogniser <-> declarative grammar;
   netaddr.valid_ipv4(s, INET_ATON). *)
Require Import OV.Base.Bytes OV.Base.Py OV.Base.PyInt OV.Base.Str OV.Base.C11_Lib.
Require Import OV.Gen.C11_Netutils OV.Model.C11 OV.Model.C11_Spec OV.Proofs.C11_Split OV.Proofs.C11_V4 OV.Proofs.C11_V6.
Open Scope N_scope.

(* ---------- before_space ---------- *)
Lemma is_c_space_iff c : is_c_space c = true <-> c_space c.
Proof. unfold is_c_space, c_space. lia. Qed.

Lemma before_space_split s : exists rest, s = before_space s ++ rest /\ (rest = [] \/ exists w t, rest = w :: t /\ c_space w).
Proof.
  induction s as [|c t IH]; cbn [before_space].
  - exists []. split; [reflexivity|left; reflexivity].
  - destruct (is_c_space c) eqn:E.
    + exists (c :: t). split; [reflexivity|]. right. exists c, t. split; [reflexivity|apply is_c_space_iff; exact E].
    + destruct IH as [rest [E1 E2]]. exists rest. split; [cbn [app]; f_equal; exact E1|exact E2].
Qed.

Lemma before_space_app b rest : forallb (fun c => negb (is_c_space c)) b = true ->
  (rest = [] \/ exists w t, rest = w :: t /\ c_space w) -> before_space (b ++ rest) = b.
Proof.
  intros Hb Hr. induction b as [|c t IH]; cbn [app].
  - destruct Hr as [->|[w [t [-> Hw]]]]; [reflexivity|]. cbn [before_space].
    apply is_c_space_iff in Hw. rewrite Hw. reflexivity.
  - cbn [forallb] in Hb. apply andb_true_iff in Hb. destruct Hb as [Hc Ht]. cbn [before_space].
    apply negb_true_iff in Hc. rewrite Hc. f_equal. apply IH, Ht.
Qed.

(* ---------- C literals ---------- *)
Lemma forallb_digit t : forallb ascii_digit t = true <-> Forall digit_char t.
Proof. apply forallb_Forall. intros c. unfold ascii_digit, digit_char. lia. Qed.
Lemma forallb_octal t : forallb is_octal t = true <-> Forall octal_char t.
Proof. apply forallb_Forall. intros c. unfold is_octal, octal_char. lia. Qed.
Lemma forallb_hex t : forallb is_hex t = true <-> Forall hex_char t.
Proof. apply forallb_Forall. exact is_hex_iff. Qed.

Lemma c_octal_iff t v : c_octal t = Some v <-> Forall octal_char t /\ v = octval t.
Proof.
  unfold c_octal. destruct (forallb is_octal t) eqn:E.
  - apply forallb_octal in E. split; [intros [= <-]; split; [exact E|reflexivity]|intros [_ ->]; reflexivity].
  - split; [discriminate|]. intros [H _]. apply forallb_octal in H. congruence.
Qed.

Lemma c_number_iff p v : c_number p = Some v <-> c_literal p v.
Proof.
  unfold c_number, c_literal. destruct p as [|c t].
  - split; [discriminate|]. intros [[c [t [H _]]]|[[t [H _]]|[x [t [H _]]]]]; discriminate.
  - destruct (c =? 48) eqn:E0.
    + apply N.eqb_eq in E0. subst c. destruct t as [|x h].
      * rewrite c_octal_iff. split.
        -- intros H. right. left. exists []. split; [reflexivity|exact H].
        -- intros [[c [t [[= <- <-] [Hc _]]]]|[[t [[= <-] H]]|[x [t [H _]]]]]; [lia|exact H|discriminate].
      * destruct (((x =? 120) || (x =? 88)) && negb (beq h [])) eqn:EX.
        -- apply andb_true_iff in EX. destruct EX as [Ex Eh]. apply negb_true_iff in Eh.
           assert (Hh : h <> []) by (intros ->; discriminate).
           assert (Hx : x = 120 \/ x = 88) by lia.
           destruct (forallb is_hex h) eqn:EH.
           ++ apply forallb_hex in EH. split.
              ** intros [= <-]. right. right. exists x, h. repeat split; assumption.
              ** intros [[c [t [[= <- <-] [Hc _]]]]|[[t [[= <-] [Ho _]]]|[x' [t [[= <- <-] [_ [_ [_ ->]]]]]]]]; [lia| |reflexivity].
                 inversion Ho as [|? ? Hxo _]. unfold octal_char in Hxo. lia.
           ++ split; [discriminate|].
              intros [[c [t [[= <- <-] [Hc _]]]]|[[t [[= <-] [Ho _]]]|[x' [t [[= <- <-] [_ [_ [Hf _]]]]]]]]; [lia| |].
              ** inversion Ho as [|? ? Hxo _]. unfold octal_char in Hxo. lia.
              ** apply forallb_hex in Hf. congruence.
        -- rewrite c_octal_iff. split.
           ++ intros H. right. left. exists (x :: h). split; [reflexivity|exact H].
           ++ intros [[c [t [[= <- <-] [Hc _]]]]|[[t [[= <-] H]]|[x' [t [[= <- <-] [Hx [Hne _]]]]]]]; [lia|exact H|].
              exfalso. apply andb_false_iff in EX. destruct EX as [EX|EX]; [lia|].
              apply negb_false_iff, beq_eq in EX. congruence.
    + apply N.eqb_neq in E0. destruct (ascii_digit c && forallb ascii_digit t) eqn:ED.
      * apply andb_true_iff in ED. destruct ED as [Hc Ht]. apply forallb_digit in Ht. unfold ascii_digit in Hc. split.
        -- intros [= <-]. left. exists c, t. repeat split; try assumption; lia.
        -- intros [[c' [t' [[= <- <-] [_ [_ ->]]]]]|[[t' [[= -> _] _]]|[x [t' [[= -> _] _]]]]]; [reflexivity|congruence|congruence].
      * split; [discriminate|].
        intros [[c' [t' [[= <- <-] [Hc [Ht _]]]]]|[[t' [[= -> _] _]]|[x [t' [[= -> _] _]]]]]; [|congruence|congruence].
        apply forallb_digit in Ht. rewrite Ht in ED. unfold ascii_digit in ED. lia.
Qed.

(* characters of a literal: digits, hex letters, x / X — neither '.' nor white space *)
Definition lit_char (c : N) : bool := is_hex c || (c =? 120) || (c =? 88).

Lemma Forall_forallb_impl (P : N -> Prop) (Q : N -> bool) t : (forall c, P c -> Q c = true) -> Forall P t -> forallb Q t = true.
Proof. intros I H. induction H as [|c t Hc _ IH]; [reflexivity|]. cbn [forallb]. rewrite (I c Hc), IH. reflexivity. Qed.

Lemma c_literal_chars p v : c_literal p v -> forallb lit_char p = true.
Proof.
  intros [[c [t [-> [Hc [Ht _]]]]]|[[t [-> [Ht _]]]|[x [t [-> [Hx [_ [Ht _]]]]]]]]; cbn [forallb].
  - rewrite (Forall_forallb_impl digit_char lit_char t) by (try exact Ht; intros d; unfold digit_char, lit_char, is_hex; lia).
    unfold lit_char, is_hex. lia.
  - rewrite (Forall_forallb_impl octal_char lit_char t) by (try exact Ht; intros d; unfold octal_char, lit_char, is_hex; lia).
    reflexivity.
  - rewrite (Forall_forallb_impl hex_char lit_char t) by (try exact Ht; intros d Hd; apply is_hex_iff in Hd; unfold lit_char; rewrite Hd; reflexivity).
    unfold lit_char, is_hex. lia.
Qed.

(* ---------- the parts ---------- *)
Definition num_of (p : str) (v : N) : Prop := c_number p = Some v.

Lemma aton_parts_iff ps : aton_parts ps 0 = true <-> exists vs, Forall2 num_of ps vs /\ aton_values vs.
Proof.
  unfold num_of. split.
  - intros H.
    destruct ps as [|a [|b [|c [|d [|e t]]]]]; cbn [aton_parts] in H; try discriminate.
    + destruct (c_number a) as [va|] eqn:Ea; [|discriminate]. exists [va].
      split; [repeat constructor; exact Ea|]. cbn [aton_values aton_limit] in *. lia.
    + destruct (c_number a) as [va|] eqn:Ea; [|discriminate]. destruct (c_number b) as [vb|] eqn:Eb; [|cbn in H; lia].
      exists [va; vb]. split; [repeat constructor; assumption|]. cbn [aton_values aton_limit] in *. lia.
    + destruct (c_number a) as [va|] eqn:Ea; [|discriminate]. destruct (c_number b) as [vb|] eqn:Eb; [|cbn in H; lia].
      destruct (c_number c) as [vc|] eqn:Ec; [|cbn in H; lia].
      exists [va; vb; vc]. split; [repeat constructor; assumption|]. cbn [aton_values aton_limit] in *. lia.
    + destruct (c_number a) as [va|] eqn:Ea; [|discriminate]. destruct (c_number b) as [vb|] eqn:Eb; [|cbn in H; lia].
      destruct (c_number c) as [vc|] eqn:Ec; [|cbn in H; lia]. destruct (c_number d) as [vd|] eqn:Ed; [|cbn in H; lia].
      exists [va; vb; vc; vd]. split; [repeat constructor; assumption|]. cbn [aton_values aton_limit] in *. lia.
    + exfalso. destruct (c_number a); [|discriminate]. destruct (c_number b); [|cbn in H; lia].
      destruct (c_number c); [|cbn in H; lia]. destruct (c_number d); cbn in H; lia.
  - intros [vs [F V]].
    destruct vs as [|va [|vb [|vc [|vd [|ve vs]]]]]; cbn [aton_values] in V; try contradiction.
    + inversion F as [|a ? ? t Ha Ht]; subst. inversion Ht; subst. cbn [aton_parts]. rewrite Ha. cbn [aton_limit]. lia.
    + inversion F as [|a ? ? t Ha Ht]; subst. inversion Ht as [|b ? ? t2 Hb Ht2]; subst. inversion Ht2; subst.
      cbn [aton_parts]. rewrite Ha, Hb. cbn [aton_limit]. lia.
    + inversion F as [|a ? ? t Ha Ht]; subst. inversion Ht as [|b ? ? t2 Hb Ht2]; subst.
      inversion Ht2 as [|c ? ? t3 Hc Ht3]; subst. inversion Ht3; subst.
      cbn [aton_parts]. rewrite Ha, Hb, Hc. cbn [aton_limit]. lia.
    + inversion F as [|a ? ? t Ha Ht]; subst. inversion Ht as [|b ? ? t2 Hb Ht2]; subst.
      inversion Ht2 as [|c ? ? t3 Hc Ht3]; subst. inversion Ht3 as [|d ? ? t4 Hd Ht4]; subst. inversion Ht4; subst.
      cbn [aton_parts]. rewrite Ha, Hb, Hc, Hd. cbn [aton_limit]. lia.
Qed.

Lemma Forall2_num_lit ps vs : Forall2 num_of ps vs <-> Forall2 c_literal ps vs.
Proof.
  split; intros H; induction H; constructor; try assumption; apply c_number_iff; assumption.
Qed.

Lemma aton_values_nonempty vs : aton_values vs -> vs <> [].
Proof. intros H ->. exact H. Qed.

Theorem aton_ok_iff s : aton_ok s = true <-> aton_text s.
Proof.
  unfold aton_ok, aton_text. rewrite aton_parts_iff. split.
  - intros [vs [F V]]. destruct (before_space_split s) as [rest [E R]].
    exists (split_char 46 (before_space s)), vs, rest. split; [apply Forall2_num_lit; exact F|].
    split; [exact V|]. split; [|exact R]. unfold dots. rewrite join_split. exact E.
  - intros [ps [vs [rest [F [V [-> R]]]]]]. exists vs. split; [|exact V].
    assert (Hps : Forall (fun p => forallb lit_char p = true) ps).
    { clear V. induction F as [|p v ps vs Hp _ IH]; constructor; [eapply c_literal_chars; exact Hp|exact IH]. }
    assert (Hne : ps <> []).
    { intros ->. inversion F; subst. exact V. }
    rewrite before_space_app; [| |exact R].
    + unfold dots. rewrite split_join; [apply Forall2_num_lit; exact F|exact Hne|].
      revert Hps. apply Forall_impl. intros p Hp Hin. rewrite forallb_forall in Hp. specialize (Hp _ Hin). discriminate.
    + assert (X : forallb (fun c => lit_char c || (c =? 46)) (dots ps) = true).
      { apply join_forallb; [reflexivity|]. revert Hps. apply Forall_impl. intros p. apply forallb_impl. intros c ->. reflexivity. }
      revert X. apply forallb_impl. intros c. unfold lit_char, is_hex, is_c_space. lia.
Qed.

(* socket.inet_aton and netaddr.valid_ipv4(s, flags=INET_ATON) *)
Theorem inet_aton_iff s : inet_aton s = AOk true <-> cstr_ok s = true /\ aton_text s.
Proof.
  unfold inet_aton. destruct (cstr_ok s); cbn [negb].
  - destruct (aton_ok s) eqn:E.
    + apply aton_ok_iff in E. split; [intros _; split; [reflexivity|exact E]|reflexivity].
    + split; [discriminate|]. intros [_ H]. apply aton_ok_iff in H. congruence.
  - split; [discriminate|intros [H _]; discriminate].
Qed.

Lemma existsb_eqb_In c s : existsb (N.eqb c) s = true <-> In c s.
Proof.
  rewrite existsb_exists. split.
  - intros [x [Hin E]]. apply N.eqb_eq in E. subst. exact Hin.
  - intros H. exists c. split; [exact H|apply N.eqb_refl].
Qed.

Theorem netaddr_aton_iff s : netaddr_valid_ipv4_aton s = AOk true <-> ~ In 58 s /\ cstr_ok s = true /\ aton_text s.
Proof.
  unfold netaddr_valid_ipv4_aton. destruct (existsb (N.eqb 58) s) eqn:E.
  - apply existsb_eqb_In in E. split; [discriminate|]. intros [H _]. contradiction.
  - assert (Hn : ~ In 58 s) by (intros H; apply existsb_eqb_In in H; congruence).
    rewrite <- inet_aton_iff. destruct (inet_aton s) as [b|e] eqn:EA.
    + split; [intros [= ->]; split; [exact Hn|reflexivity]|intros [_ H]; exact H].
    + destruct e; split; try discriminate; intros [_ H]; discriminate.
Qed.

Lemma netaddr_aton_contract s : aton_contract (netaddr_valid_ipv4_aton s) = true.
Proof.
  unfold netaddr_valid_ipv4_aton, inet_aton. destruct (existsb (N.eqb 58) s); [reflexivity|].
  destruct (cstr_ok s); cbn [negb]; [|reflexivity]. destruct (aton_ok s); reflexivity.
Qed.
