(* Proofs/Insp_HookEquiv.v — the format hooks translated statement by statement from the source
   (Gen/Insp_HookCode.v) equal the hand-written hooks of Model/Insp_Qcow2.v, Insp_Vhdx.v, Insp_Vmdk.v. *)
Require Import OV.Base.Bytes OV.Base.Py OV.Base.PyInt OV.Base.Str OV.Base.Insp_Struct OV.Gen.Insp_Consts OV.Model.Insp_Engine OV.Model.Insp_PyPrims.
Require Import OV.Model.Insp_Qcow2 OV.Model.Insp_Vhdx OV.Model.Insp_Vmdk OV.Model.Insp_HookPrims.
Require Import OV.Gen.Insp_EngineCode OV.Gen.Insp_FormatCode OV.Gen.Insp_HookCode.
Require Import OV.Proofs.Insp_Engine OV.Proofs.Insp_EngineEquiv OV.Proofs.Insp_FormatMatchEquiv.
Open Scope N_scope.

(* ---------- slicing with computed bounds vs walking the buffer ---------- *)
Lemma nskip_nskip a b d : nskip a (nskip b d) = nskip (b + a) d.
Proof. rewrite !nskip_bskip. apply bskip_bskip. Qed.
Lemma nsub_window a l d : nsub a (a + l) d = ntake l (nskip a d).
Proof. unfold nsub. replace (a + l - a) with l by lia. reflexivity. Qed.
Lemma nsub_window2 a lo hi d : lo <= hi -> nsub (a + lo) (a + hi) d = nsub lo hi (nskip a d).
Proof. intros H. unfold nsub. rewrite nskip_nskip. replace (a + hi - (a + lo)) with (hi - lo) by lia. reflexivity. Qed.

(* ---------- qcow2 ---------- *)
Lemma gen_qcow_region_complete_equiv s n : gen_qcow_region_complete s n = qcow_rcomplete n s.
Proof.
  unfold gen_qcow_region_complete, qcow_rcomplete. rewrite gen_region_equiv.
  change (mkSfmt true 32 [(0, 4); (4, 4); (8, 8); (16, 4); (20, 4); (24, 8)]) with sf_qcow_hdr.
  change (ntake 32) with (ntake QCOW_HDR_SLICE).
  destruct (get_region R_header s) as [r|]; [|reflexivity].
  destruct (unpack sf_qcow_hdr (ntake QCOW_HDR_SLICE (r_data r))) as [b|]; [|reflexivity].
  rewrite gen_qcow2_format_match_equiv. cbn [f_match qcow_fmt].
  destruct (qcow_match _) as [[|]|]; reflexivity.
Qed.

(* ---------- VHDX ---------- *)
Lemma gen_vhdx_guid_equiv buf g : (do b <- gen_vhdx_guid buf; Ok (beq b g)) = vhdx_guid_is buf g.
Proof. reflexivity. Qed.

Lemma gen_vhdx_rt_loop_equiv (s : ist unit) r : get_region R_header s = Ok r ->
  forall k i first regi cksum count reserved mo,
  gen_vhdx_find_meta_region_loop1 k i s first regi cksum count reserved mo
  = (s, vhdx_rt_loop k (nskip (first + i * 32) (r_data r))).
Proof.
  intros Hr. induction k as [|k IH]; intros i first regi cksum count reserved mo; cbn [gen_vhdx_find_meta_region_loop1 vhdx_rt_loop]; [reflexivity|].
  rewrite gen_region_equiv, Hr.
  rewrite (nsub_window (first + i * 32) 32 (r_data r)).
  set (rest := nskip (first + i * 32) (r_data r)).
  change VHDX_RT_ENTRY with 32. change VHDX_RT_GUID with 16. change VHDX_RT_REST with 16. change VHDX_RT_STRIDE with 32.
  unfold vhdx_guid_is, gen_vhdx_guid.
  change (mkSfmt false 16 [(0, 4); (4, 2); (6, 2); (8, 1); (9, 1); (10, 1); (11, 1); (12, 1); (13, 1); (14, 1); (15, 1)]) with sf_vhdx_guid.
  destruct (unpack sf_vhdx_guid (ntake 16 (ntake 32 rest))) as [g|]; cbn [bind]; [|reflexivity].
  destruct (beq g VHDX_GUID_METAREGION).
  - change (mkSfmt false 16 [(0, 8); (8, 4); (12, 4)]) with sf_vhdx_rt_rest.
    destruct (unpack sf_vhdx_rt_rest (nskip 16 (ntake 32 rest))); reflexivity.
  - rewrite IH. subst rest. rewrite nskip_nskip. do 3 f_equal. lia.
Qed.

Lemma gen_vhdx_find_meta_region_equiv (s : ist unit) : gen_vhdx_find_meta_region s = (s, vhdx_find_meta_region s).
Proof.
  unfold gen_vhdx_find_meta_region, vhdx_find_meta_region. rewrite gen_region_equiv.
  destruct (get_region R_header s) as [r|] eqn:Hr; cbn [bind]; [|reflexivity].
  change (mkSfmt false 16 [(0, 4); (4, 4); (8, 4); (12, 4)]) with sf_vhdx_rt_hdr. change VHDX_RT_HDR with 16.
  destruct (unpack sf_vhdx_rt_hdr (ntake 16 (r_data r))) as [b|]; cbn [bind]; [|reflexivity].
  change VHDX_REGI with 1768383858. change VHDX_RT_LIMIT with 2048.
  destruct (negb (sint sf_vhdx_rt_hdr 0 b =? 1768383858)); [reflexivity|].
  destruct (2048 <=? sint sf_vhdx_rt_hdr 2 b); [reflexivity|].
  rewrite (gen_vhdx_rt_loop_equiv s r Hr). change VHDX_RT_FIRST with 16. rewrite N.mul_0_l, N.add_0_r. reflexivity.
Qed.

Lemma rget_rset_same n l m m' : rget n l = Some m -> rget n (rset n m' l) = Some m'.
Proof.
  induction l as [|[k r] t IH]; cbn [rget rset]; [discriminate|].
  destruct (rname_beq k n) eqn:Hb; cbn [rget]; rewrite Hb; [reflexivity | exact IH].
Qed.

Lemma gen_vhdx_mt_loop_equiv (s : ist unit) m : rget R_metadata (i_regs s) = Some m ->
  forall k i guid buf sig reserved count es,
  gen_vhdx_find_meta_entry_loop1 k i s guid buf sig reserved count es
  = match vhdx_mt_loop k guid (nskip (32 + i * 32) buf) with
    | Exn e => (s, Exn e)
    | Ok None => (s, Ok None)
    | Ok (Some (io, il)) =>
      (set_regs s (rset R_metadata (set_len m (flen buf)) (i_regs s)), Ok (Some (mkRspec false (r_off m + io) il None)))
    end.
Proof.
  intros Hm. induction k as [|k IH]; intros i guid buf sig reserved count es; cbn [gen_vhdx_find_meta_entry_loop1 vhdx_mt_loop]; [reflexivity|].
  rewrite (nsub_window (32 + i * 32) 16 buf).
  rewrite (nsub_window2 (32 + i * 32) 16 28 buf) by lia.
  set (rest := nskip (32 + i * 32) buf).
  change VHDX_MT_GUID with 16. change VHDX_MT_F_LO with 16. change VHDX_MT_F_HI with 28. change VHDX_MT_STRIDE2 with 32.
  unfold vhdx_guid_is, gen_vhdx_guid.
  change (mkSfmt false 16 [(0, 4); (4, 2); (6, 2); (8, 1); (9, 1); (10, 1); (11, 1); (12, 1); (13, 1); (14, 1); (15, 1)]) with sf_vhdx_guid.
  destruct (unpack sf_vhdx_guid (ntake 16 rest)) as [g|]; cbn [bind]; [|reflexivity].
  destruct (beq g guid).
  - change (mkSfmt false 12 [(0, 4); (4, 4); (8, 4)]) with sf_vhdx_mt_item.
    destruct (unpack sf_vhdx_mt_item (nsub 16 28 rest)) as [b|]; cbn [bind]; [|reflexivity].
    unfold py_set_region_length. rewrite Hm. rewrite gen_region_equiv. unfold get_region. cbn [set_regs i_regs].
    rewrite (rget_rset_same _ _ _ _ Hm). cbn [set_len r_off]. reflexivity.
  - rewrite IH. subst rest. rewrite nskip_nskip. replace (32 + (i + 1) * 32) with (32 + i * 32 + 32) by lia. reflexivity.
Qed.

Lemma gen_vhdx_find_meta_entry_equiv (s : ist unit) g : gen_vhdx_find_meta_entry s g = vhdx_find_meta_entry g s.
Proof.
  unfold gen_vhdx_find_meta_entry, vhdx_find_meta_entry. rewrite gen_region_equiv. unfold get_region.
  destruct (rget R_metadata (i_regs s)) as [m|] eqn:Hm; [|reflexivity].
  change VHDX_MT_MIN with 32. destruct (flen (r_data m) <? 32); [reflexivity|].
  change (mkSfmt false 12 [(0, 8); (8, 2); (10, 2)]) with sf_vhdx_mt_hdr. change VHDX_MT_HDR with 12.
  destruct (unpack sf_vhdx_mt_hdr (ntake 12 (r_data m))) as [b|]; [|reflexivity].
  change ([109; 101; 116; 97; 100; 97; 116; 97] : bytes) with VHDX_META_SIG.
  destruct (negb (beq (sraw sf_vhdx_mt_hdr 0 b) VHDX_META_SIG)); [reflexivity|].
  change VHDX_MT_BASE with 32. change VHDX_MT_STRIDE with 32. change VHDX_MT_LIMIT with 2048.
  destruct (flen (r_data m) <? 32 + sint sf_vhdx_mt_hdr 2 b * 32); [reflexivity|].
  destruct (2048 <=? sint sf_vhdx_mt_hdr 2 b); [reflexivity|].
  rewrite (gen_vhdx_mt_loop_equiv s m Hm). rewrite N.mul_0_l, N.add_0_r. change VHDX_MT_BASE2 with 32.
  destruct (vhdx_mt_loop _ g (nskip 32 (r_data m))) as [[[io il]|]|]; reflexivity.
Qed.

Lemma gen_vhdx_post_process_equiv (s : ist unit) : gen_vhdx_post_process s = vhdx_post s.
Proof.
  unfold gen_vhdx_post_process, vhdx_post. rewrite gen_region_equiv, !gen_has_region_equiv.
  destruct (get_region R_header s) as [h|]; [|reflexivity].
  unfold py_region_complete.
  rewrite gen_vhdx_find_meta_region_equiv, gen_vhdx_find_meta_entry_equiv.
  destruct (rcomplete h), (has_region R_metadata s), (has_region R_vds s); cbn [andb negb];
    try reflexivity;
    try (destruct (vhdx_find_meta_entry VHDX_GUID_VIRTUAL_DISK_SIZE s) as [s' [[sp|]|]]; try reflexivity;
         destruct (new_region R_vds sp s') as [s2 [e|]]; reflexivity);
    try (destruct (vhdx_find_meta_region s) as [[sp|]|]; try reflexivity;
         destruct (new_region R_metadata sp s) as [s2 [e|]]; reflexivity).
Qed.

(* ---------- VMDK ---------- *)
Ltac crush :=
  repeat (first [ reflexivity
                | match goal with |- context [match ?x with _ => _ end] => lazymatch x with (_, _) => fail | _ => destruct x end end ]).

Lemma gen_vmdk_parse_descriptor_equiv (s : ist vx) : gen_vmdk_parse_descriptor s = vmdk_parse_descriptor s.
Proof.
  unfold gen_vmdk_parse_descriptor, vmdk_parse_descriptor, vmdk_type_of, py_index, py_find_from, py_decode_ascii.
  rewrite gen_region_equiv.
  cbv delta [VMDK_NUL VMDK_CREATETYPE VMDK_QUOTE VMDK_NOTFOUND VMDK_TYPE_CAP is_ascii].
  destruct (get_region R_descriptor s) as [d|]; [|reflexivity].
  destruct (find [0] (r_data d)) as [i|].
  - destruct (forallb (fun c : N => c <? 128) (ntake i (r_data d))); cbn [negb]; [|reflexivity].
    destruct (find _ (lower_ascii (ntake i (r_data d)))) as [j|]; [|reflexivity].
    destruct (find_at _ _ _); match goal with |- context [if ?b then _ else _] => destruct b end; reflexivity.
  - destruct (forallb (fun c : N => c <? 128) (r_data d)); cbn [negb]; [|reflexivity].
    destruct (find _ (lower_ascii (r_data d))) as [j|]; [|reflexivity].
    destruct (find_at _ _ _); match goal with |- context [if ?b then _ else _] => destruct b end; reflexivity.
Qed.

Lemma gen_vmdk_region_complete_equiv (s : ist vx) n : gen_vmdk_region_complete s n = vmdk_rcomplete n s.
Proof.
  unfold gen_vmdk_region_complete, vmdk_rcomplete. rewrite gen_vmdk_parse_descriptor_equiv.
  destruct n; cbn [rname_beq]; try reflexivity. destruct (vmdk_parse_descriptor s) as [s' [e|]]; reflexivity.
Qed.

Lemma is_text_char c :
  (c <? 128) && negb (negb (cmem c ASCII_PRINT_RANGES) && negb (cmem c ASCII_SPACE_RANGES)) = ascii_text c.
Proof. unfold ascii_text, ASCII_TEXT_RANGES, ASCII_PRINT_RANGES, ASCII_SPACE_RANGES. cbn [cmem]. lia. Qed.

Lemma is_text_equiv b :
  py_all_ascii (fun char => negb (negb (cmem char ASCII_PRINT_RANGES) && negb (cmem char ASCII_SPACE_RANGES))) b = forallb ascii_text b.
Proof. unfold py_all_ascii. induction b as [|c t IH]; cbn [forallb]; [reflexivity|]. rewrite is_text_char, IH. reflexivity. Qed.

Ltac vmdk_tail S :=
  rewrite ?gen_region_equiv; unfold get_region;
  match goal with |- context [negb (?a =? 512)] => destruct (negb (a =? 512)); [reflexivity|] end;
  destruct (rget R_descriptor (i_regs S)) as [?d|]; [|reflexivity];
  match goal with |- context [r_off ?d =? 0] => destruct (r_off d =? 0); [|reflexivity] end;
  destruct (delete_region R_descriptor S) as [?s2 [?e|]]; [reflexivity|];
  match goal with |- context [new_region R_descriptor ?sp ?s2] => destruct (new_region R_descriptor sp s2) as [?s3 [?e|]]; reflexivity end.

Lemma gen_vmdk_post_process_equiv (s : ist vx) : gen_vmdk_post_process s = vmdk_post s.
Proof.
  unfold gen_vmdk_post_process, vmdk_post. rewrite !gen_has_region_equiv, !gen_region_equiv.
  unfold has_region, rhas, get_region, py_region_complete.
  cbv delta [VMDK_MAGIC_PP VMDK_VER_A VMDK_VER_B VMDK_VER_C VMDK_GD_AT_END VMDK_FOOTER_LEN VMDK_SECTOR_A VMDK_SECTOR_B VMDK_DESC_MAX_SIZE VMDK_DESC_OFFSET].
  destruct (rget R_header (i_regs s)) as [h|]; [|reflexivity].
  destruct (rcomplete h); cbn [negb]; [|reflexivity].
  destruct (vmdk_parse_sparse s R_header 0) as [[[[[sig ver] ds] dn] gd]|]; [|reflexivity].
  rewrite is_text_equiv.
  destruct (negb (beq sig [75; 68; 77; 86])).
  { destruct (forallb ascii_text (r_data h)); [|reflexivity]. destruct (delete_region R_header s) as [s' [e|]]; reflexivity. }
  destruct (negb ((ver =? 1) || (ver =? 2) || (ver =? 3))); [reflexivity|].
  destruct (gd =? 18446744073709551615); cbn [andb].
  - destruct (rget R_footer (i_regs s)); cbn [negb].
    + vmdk_tail s.
    + destruct (new_region R_footer _ s) as [sa [e|]]; [reflexivity|].
      destruct (add_check K_footer sa) as [sb [e|]]; [reflexivity|]. vmdk_tail sb.
  - vmdk_tail s.
Qed.

(* The guard literals of the hooks as they were when the hand-written hooks were transcribed.  The model follows the
   regenerated constants (so the lemmas above survive a changed literal); this lemma does not: a changed limit, cap or
   window size is reported as a broken obligation even when model and code still agree. *)
Lemma hook_literals_equiv :
  (VMDK_TYPE_CAP, VMDK_FOOTER_LEN, VMDK_DESC_OFFSET, VMDK_DESC_MAX_SIZE, VMDK_MIN_SPARSE_HEADER) = (64, 1536, 512, 1048575, 64) /\
  (VHDX_RT_LIMIT, VHDX_MT_LIMIT, VHDX_META_A * VHDX_META_B, VHDX_VHDX_METADATA_TABLE_MAX_SIZE, VHDX_MT_MIN) = (2048, 2048, 65536, 65536, 32) /\
  QCOW_HDR_SLICE = 32.
Proof. repeat split. Qed.
