(* Proofs/C02_Cli.v — the exit status of the translated cli.main *)
Require Import OV.Base.Bytes OV.Base.Py OV.Model.Insp_Engine OV.Model.C02_Cli OV.Gen.C02_Cli.
Open Scope Z_scope.

(* exit status 0 <-> the path is a file, detection returned an inspector, safety_check() returned normally
   and reading virtual_size did not raise — whatever -v says *)
Lemma cli_exit0_iff_main env :
  cli_exec cli_main env = 0 <->
  e_path_ok env = true /\ e_detect env = Ok tt /\ e_safety env = Pass /\ e_vsize_ok env = true.
Proof.
  destruct env as [p d s v vb]. cbn [e_path_ok e_detect e_safety e_vsize_ok].
  destruct p; destruct d as [[]|ed]; destruct v; destruct vb;
    (destruct s as [|names| |ec]; [| | |destruct ec]); vm_compute;
    (split; [intros H; try discriminate H; repeat split|intros [H1 [H2 [H3 H4]]]; try discriminate; reflexivity]).
Qed.

(* the status is 0 or 1, nothing else *)
Lemma cli_exit_01 env : cli_exec cli_main env = 0 \/ cli_exec cli_main env = 1.
Proof.
  destruct env as [p d s v vb].
  destruct p; destruct d as [[]|ed]; destruct v; destruct vb;
    (destruct s as [|names| |ec]; [| | |destruct ec]); vm_compute; auto.
Qed.

(* every way safety_check() can fail to return gives status 1 *)
Lemma cli_safety_failure_exit1 env : e_safety env <> Pass -> cli_exec cli_main env = 1.
Proof.
  intros H. destruct (cli_exit_01 env) as [H0|H1]; [|exact H1].
  apply cli_exit0_iff_main in H0. destruct H0 as [_ [_ [Hs _]]]. contradiction.
Qed.

(* main() performs detection and the safety check (once each, detection first) *)
Lemma cli_calls : map (fun s => (is_detect s, is_safety s)) (filter (fun s => is_detect s || is_safety s) cli_main) = [(true, false); (false, true)].
Proof. vm_compute. reflexivity. Qed.

(* non-vacuity: an environment with status 0 and one with status 1 *)
Example cli_ok_example : cli_exec cli_main (mkCenv true (Ok tt) Pass true false) = 0.
Proof. vm_compute. reflexivity. Qed.
Example cli_refused_example : cli_exec cli_main (mkCenv true (Ok tt) Refused true true) = 1.
Proof. vm_compute. reflexivity. Qed.
