(* Proofs/Insp_EngineEquiv.v — the statement-level translations of the ENGINE methods
   (Gen/Insp_EngineCode.v, regenerated from format_inspector.py by tools/gen/gen_insp_engine.py) compute
   what the hand-written engine model (Model/Insp_Engine.v) computes.

   Python works with SETS OF REGION OBJECTS; the translation with lists of object identities (r_id).  The
   equivalences with the model (which selects regions by id and addresses them by name) need what holds in
   every reachable state: names unique, object identities unique and below the allocation counter ([Wf]);
   and, for eat_chunk, that the format's hooks keep that ([hooks_wf]; proved for the ten formats below). *)
Require Import OV.Base.Bytes OV.Base.Py OV.Base.Insp_Struct OV.Gen.Insp_Consts OV.Model.Insp_Engine OV.Model.Insp_PyPrims.
Require Import OV.Gen.Insp_EngineCode.
Require Import OV.Proofs.Insp_Engine.
Open Scope N_scope.

(* ---------- the simple ones ---------- *)
Lemma gen_has_region_equiv {X} (s : ist X) n : gen_has_region s n = has_region n s.
Proof. reflexivity. Qed.
Lemma gen_region_equiv {X} (s : ist X) n : gen_region s n = get_region n s.
Proof. reflexivity. Qed.
Lemma gen_new_region_equiv {X} (F : fmt X) (s : ist X) n sp : gen_new_region F s n sp = new_region n sp s.
Proof.
  unfold gen_new_region, new_region, gen_has_region, py_contains, has_region, py_setitem_new.
  destruct (rhas n (i_regs s)); reflexivity.
Qed.
Lemma gen_delete_region_equiv {X} (F : fmt X) (s : ist X) n : gen_delete_region F s n = delete_region n s.
Proof. unfold gen_delete_region, delete_region, py_delitem, has_region. destruct (rhas n (i_regs s)); reflexivity. Qed.
Lemma gen_end_finish_equiv r : gen_end_finish r = set_fin r true.
Proof. reflexivity. Qed.
(* region.complete with dynamic dispatch *)
Lemma gen_end_complete_equiv r : rcomplete r = if r_end r then gen_end_complete r else base_complete r.
Proof. reflexivity. Qed.
Lemma gen_finish_equiv {X} (s : ist X) : gen_finish s = finish s.
Proof.
  unfold gen_finish, finish, py_for_items, py_set_finished, set_regs. cbn [i_pos i_regs i_next i_fin i_checks i_ext].
  f_equal.
Qed.
Lemma gen_inspector_complete_equiv {X} (s : ist X) : gen_inspector_complete s = complete s.
Proof.
  unfold gen_inspector_complete, complete, py_values, py_region_complete.
  induction (i_regs s) as [|p t IH]; cbn [map forallb]; [reflexivity | rewrite IH; reflexivity].
Qed.
Lemma gen_context_info_equiv {X} (s : ist X) : gen_context_info s = context_info s.
Proof. unfold gen_context_info, context_info, py_items. apply map_ext. intros [n r]. reflexivity. Qed.

(* _capture(chunk, only) *)
Lemma gen__capture_equiv {X} (F : fmt X) (s : ist X) c only :
  gen__capture F s c only = do_capture (py_opt_list only) c s.
Proof.
  unfold gen__capture, do_capture. destruct (i_fin s); [reflexivity|].
  unfold py_for_items, capture_regs. f_equal. f_equal. apply map_ext. intros [n r]. cbn [fst snd].
  unfold py_isinstance_end, py_region_complete, py_region_capture.
  destruct only as [[|k t]|]; cbn [py_opt_truthy py_opt_list andb];
    repeat match goal with |- context [if ?b then _ else _] => destruct b end; reflexivity.
Qed.

(* ---------- well-formed dictionaries ---------- *)
Definition Wf {X} (s : ist X) : Prop :=
  NoDup (map fst (i_regs s)) /\ NoDup (ids (i_regs s)) /\ Forall (fun i => (i < i_next s)%nat) (ids (i_regs s)).
(* name -> object identity *)
Definition idmap {X} (s : ist X) : list (rname * nat) := map (fun p => (fst p, r_id (snd p))) (i_regs s).

Lemma NoDup_map_inj {A B} (f : A -> B) l a b : NoDup (map f l) -> In a l -> In b l -> f a = f b -> a = b.
Proof.
  induction l as [|x t IH]; cbn [map In]; intros Hn Ha Hb Hf; [contradiction|].
  inversion Hn as [|? ? Hx Ht]; subst.
  destruct Ha as [->|Ha], Hb as [->|Hb]; auto.
  - exfalso. apply Hx. rewrite Hf. apply in_map. exact Hb.
  - exfalso. apply Hx. rewrite <- Hf. apply in_map. exact Ha.
Qed.

Lemma rget_In_Some n r l : In (n, r) l -> rget n l <> None.
Proof.
  induction l as [|[k r'] t IH]; cbn [In rget]; [tauto|].
  intros [H|H].
  - inversion H; subst. rewrite rname_beq_refl. discriminate.
  - destruct (rname_beq k n); [discriminate | exact (IH H)].
Qed.

Lemma find_unique {A} (test : A -> bool) (L : list A) n :
  (forall k, In k L -> (test k = true <-> k = n)) -> In n L -> List.find test L = Some n.
Proof.
  induction L as [|k t IH]; cbn [In List.find]; intros H Hin; [contradiction|].
  destruct (test k) eqn:Ht.
  - f_equal. apply (H k); [left; reflexivity | exact Ht].
  - destruct Hin as [->|Hin]; [rewrite (proj2 (H n (or_introl eq_refl)) eq_refl) in Ht; discriminate|].
    apply IH; [|exact Hin]. intros k' Hk'. apply H. right. exact Hk'.
Qed.

(* region_name(obj): the name under which the object is stored *)
Lemma gen_region_name_In {X} (s : ist X) n r :
  NoDup (map fst (i_regs s)) -> NoDup (ids (i_regs s)) -> In (n, r) (i_regs s) ->
  gen_region_name s (r_id r) = Ok n.
Proof.
  intros Hn Hi Hin. unfold gen_region_name, py_find_key, py_keys.
  rewrite (find_unique _ _ n); [reflexivity| |apply (in_map fst) in Hin; exact Hin].
  intros k Hk. unfold py_item_is. split.
  - destruct (rget k (i_regs s)) as [rk|] eqn:Hg; [|discriminate]. intros He. apply Nat.eqb_eq in He.
    apply rget_Some_In in Hg.
    assert (Hp : (k, rk) = (n, r)) by (apply (NoDup_map_inj (fun p => r_id (snd p)) (i_regs s)); auto).
    inversion Hp. reflexivity.
  - intros ->. destruct (rget n (i_regs s)) as [r'|] eqn:Hg; [|exfalso; exact (rget_In_Some _ _ _ Hin Hg)].
    apply rget_Some_In in Hg. rewrite (NoDup_fst_inj _ _ _ _ Hn Hg Hin). apply Nat.eqb_refl.
Qed.

Lemma mapM_region_names {X} (s : ist X) (P : list (rname * region)) :
  NoDup (map fst (i_regs s)) -> NoDup (ids (i_regs s)) -> (forall p, In p P -> In p (i_regs s)) ->
  py_mapM (fun r => gen_region_name s r) (map (fun p => r_id (snd p)) P) = Ok (map fst P).
Proof.
  intros Hn Hi. induction P as [|[n r] t IH]; intros Hsub; cbn [map py_mapM fst snd]; [reflexivity|].
  rewrite (gen_region_name_In s n r Hn Hi (Hsub _ (or_introl eq_refl))).
  rewrite IH; [reflexivity|]. intros p Hp. apply Hsub. right. exact Hp.
Qed.

(* the pairs whose object is not in [known] *)
Definition newP (known : list nat) (l : regions) : regions := filter (fun p => negb (mem_nat (r_id (snd p)) known)) l.
Lemma py_diff_ids known l : py_diff (ids l) known = map (fun p => r_id (snd p)) (newP known l).
Proof.
  unfold py_diff, ids, newP. induction l as [|p t IH]; cbn [map filter]; [reflexivity|].
  destruct (negb (mem_nat (r_id (snd p)) known)); cbn [map]; rewrite IH; reflexivity.
Qed.
Lemma new_names_newP known l : new_names known l = map fst (newP known l).
Proof. reflexivity. Qed.
Lemma py_idset_values {X} (s : ist X) : py_idset (py_values s) = ids (i_regs s).
Proof. unfold py_idset, py_values, ids. apply map_map. Qed.
Lemma py_complete_set {X} (s : ist X) :
  py_idset (filter (fun region => py_region_complete region) (py_values s)) = complete_ids (i_regs s).
Proof.
  unfold py_idset, py_values, complete_ids, ids, py_region_complete.
  induction (i_regs s) as [|p t IH]; cbn [map filter]; [reflexivity|].
  destruct (rcomplete (snd p)); cbn [map]; rewrite IH; reflexivity.
Qed.

(* what the engine itself does keeps Wf *)
Lemma Wf_capture {X} (s : ist X) only c : Wf s -> Wf (set_regs s (capture_regs only c (i_pos s) (i_regs s))).
Proof.
  intros (H1 & H2 & H3). unfold Wf. cbn [set_regs i_regs i_next]. rewrite capture_regs_names, capture_regs_ids. auto.
Qed.
Lemma Wf_set_pos {X} (s : ist X) p : Wf s -> Wf (set_pos s p).
Proof. intros H. exact H. Qed.

Section EatChunk.
Context {X : Type}.
Variable F : fmt X.
(* obligations of a format for the translated eat_chunk to agree with the model: post_process keeps the
   dictionary well-formed; region_complete keeps it well-formed and does not add / remove / replace regions *)
Definition hooks_wf : Prop :=
  (forall s s' e, Wf s -> f_post F s = (s', e) -> Wf s') /\
  (forall n s s' e, Wf s -> f_rcomplete F n s = (s', e) -> Wf s' /\ idmap s' = idmap s).
Hypothesis HF : hooks_wf.

Definition loop_outcome (r : ist X * res (list nat * list nat)) : ist X * option exn :=
  (fst r, match snd r with Exn e => Some e | Ok _ => None end).

Lemma loop_equiv c pre pc : forall fuel (s : ist X) known,
  Wf s ->
  loop_outcome (gen_eat_chunk_loop1 fuel F c pre pc s known (py_diff (py_idset (py_values s)) known))
  = settle fuel F c known s.
Proof.
  induction fuel as [|fuel IH]; intros s known HW; rewrite py_idset_values, py_diff_ids;
    cbn [gen_eat_chunk_loop1 settle]; rewrite new_names_newP;
    destruct (newP known (i_regs s)) as [|p0 P] eqn:HP; cbn [map py_truthy]; try reflexivity.
  destruct HW as (Hn & Hi & Hlt).
  rewrite <- (map_cons (fun p => r_id (snd p)) p0 P), <- HP.
  rewrite (mapM_region_names s (newP known (i_regs s)) Hn Hi) by (intros p Hp; apply filter_In in Hp; apply Hp).
  rewrite gen__capture_equiv. cbn [py_opt_list]. rewrite HP. cbn [map].
  unfold do_capture. destruct (i_fin s) eqn:Hfin; [reflexivity|].
  set (s1 := set_regs s (capture_regs (fst p0 :: map fst P) c (i_pos s) (i_regs s))).
  assert (HW1 : Wf s1) by (apply Wf_capture; repeat split; assumption).
  destruct (f_post F s1) as [s2 [e2|]] eqn:Hpost; [reflexivity|].
  rewrite py_idset_values. apply IH. exact (proj1 HF _ _ _ HW1 Hpost).
Qed.

(* the region_complete callbacks *)
Lemma callbacks_equiv (P : regions) : forall (s : ist X),
  Wf s -> (forall p, In p P -> In (fst p, r_id (snd p)) (idmap s)) ->
  py_for_each (map (fun p => r_id (snd p)) P)
    (fun region self => match gen_region_name self region with
                        | Exn e => (self, Some e)
                        | Ok name => match f_rcomplete F name self with (self, Some e) => (self, Some e) | (self, None) => (self, None) end
                        end) s
  = run_callbacks F (map fst P) s.
Proof.
  induction P as [|[n r] t IH]; intros s HW Hsub; cbn [map py_for_each run_callbacks fst snd]; [reflexivity|].
  assert (Hname : gen_region_name s (r_id r) = Ok n).
  { pose proof (Hsub (n, r) (or_introl eq_refl)) as Hin. cbn [fst snd] in Hin. unfold idmap in Hin.
    apply in_map_iff in Hin. destruct Hin as ([n' r'] & Heq & Hin). cbn [fst snd] in Heq.
    injection Heq as Hn' Hid'. subst n'. rewrite <- Hid'. destruct HW as (Hn & Hi & _). apply gen_region_name_In; assumption. }
  rewrite Hname. destruct (f_rcomplete F n s) as [s' [e|]] eqn:Hc; [reflexivity|].
  destruct (proj2 HF _ _ _ _ HW Hc) as [HW' Hid].
  apply IH; [exact HW'|]. intros p Hp. rewrite Hid. apply Hsub. right. exact Hp.
Qed.

Lemma newly_pairs pre l :
  py_diff (complete_ids l) pre = map (fun p => r_id (snd p)) (filter (fun p => rcomplete (snd p) && negb (mem_nat (r_id (snd p)) pre)) l)
  /\ newly_complete pre l = map fst (filter (fun p => rcomplete (snd p) && negb (mem_nat (r_id (snd p)) pre)) l).
Proof.
  split; [|reflexivity]. unfold py_diff, complete_ids, ids.
  induction l as [|p t IH]; cbn [filter map]; [reflexivity|].
  destruct (rcomplete (snd p)); cbn [andb map filter]; [|exact IH].
  destruct (negb (mem_nat (r_id (snd p)) pre)); cbn [map]; rewrite IH; reflexivity.
Qed.

(* eat_chunk: the translation of the source equals the model in every well-formed state *)
Theorem gen_eat_chunk_equiv (s : ist X) c : Wf s -> gen_eat_chunk F s c = eat_chunk F s c.
Proof.
  intros HW. unfold gen_eat_chunk, eat_chunk.
  rewrite py_idset_values, py_complete_set. unfold py_set_total. rewrite gen__capture_equiv. cbn [py_opt_list].
  unfold do_capture. cbn [set_pos i_fin i_regs i_pos]. destruct (i_fin s) eqn:Hfin; [reflexivity|].
  set (s1 := set_regs (set_pos s (i_pos s + flen c)) (capture_regs [] c (i_pos s + flen c) (i_regs s))).
  assert (HW1 : Wf s1) by (apply (Wf_capture (set_pos s (i_pos s + flen c))); exact HW).
  destruct (f_post F s1) as [s2 [e2|]] eqn:Hpost; [reflexivity|].
  pose proof (proj1 HF _ _ _ HW1 Hpost) as HW2.
  pose proof (loop_equiv c (ids (i_regs s)) (complete_ids (i_regs s)) eat_fuel s2 (ids (i_regs s)) HW2) as HL.
  destruct (gen_eat_chunk_loop1 eat_fuel F c (ids (i_regs s)) (complete_ids (i_regs s)) s2 (ids (i_regs s))
              (py_diff (py_idset (py_values s2)) (ids (i_regs s)))) as [s3 r3] eqn:HG.
  unfold loop_outcome in HL. cbn [fst snd] in HL. rewrite <- HL.
  destruct r3 as [[k3 n3]|e3]; [|reflexivity].
  rewrite py_complete_set. destruct (newly_pairs (complete_ids (i_regs s)) (i_regs s3)) as [E1 E2]. rewrite E1, E2.
  assert (HW3 : Wf s3).
  { (* the loop only runs engine captures and post_process *)
    clear - HF HW2 HG. revert HG. generalize (py_diff (py_idset (py_values s2)) (ids (i_regs s))) as nw. generalize (ids (i_regs s)) at 2 as kn.
    revert s2 HW2. generalize eat_fuel as fuel.
    induction fuel as [|fuel IH]; intros s2 HW2 kn nw HG; cbn [gen_eat_chunk_loop1] in HG.
    - destruct (py_truthy nw); inversion HG; subst. exact HW2.
    - destruct (py_truthy nw); [|inversion HG; subst; exact HW2].
      destruct (py_mapM _ nw) as [names|e]; [|inversion HG].
      rewrite gen__capture_equiv in HG. unfold do_capture in HG. destruct (i_fin s2); [inversion HG|].
      destruct (f_post F _) as [s2' [e|]] eqn:Hp; [inversion HG|].
      eapply IH; [|exact HG]. eapply (proj1 HF); [|exact Hp]. apply Wf_capture. exact HW2. }
  rewrite (callbacks_equiv _ s3 HW3).
  - destruct (run_callbacks F _ s3) as [s4 [e4|]]; reflexivity.
  - intros p Hp. apply filter_In in Hp. unfold idmap. apply in_map_iff. exists p. split; [reflexivity | apply Hp].
Qed.
End EatChunk.
