(* Proofs/C02_Vmdk.v — VMDKInspector.check_descriptor / check_footer characterised on the inspector state,
   and what a Pass implies in sparse mode. *)
Require Import OV.Base.Bytes OV.Base.Py OV.Base.PyInt OV.Base.Str OV.Base.Insp_Struct OV.Gen.Insp_Consts OV.Model.Insp_Engine.
Require Import OV.Model.Insp_Vmdk OV.Model.Insp_All.
Require Import OV.Model.C02 OV.Proofs.C02_Engine OV.Proofs.C02_Bytes OV.Proofs.C02_Static OV.Proofs.C02_Checks.
Open Scope N_scope.

(* ---------- check_descriptor ---------- *)
Lemma existsb_false_iff {A} (p : A -> bool) l : existsb p l = false <-> forall x, In x l -> p x = false.
Proof.
  induction l as [|a l IH]; cbn [existsb In]; [split; [intros _ x []|reflexivity]|].
  rewrite orb_false_iff, IH. split.
  - intros [Ha Hl] x [<-|Hx]; auto.
  - intros H. split; [apply H; left; reflexivity|intros x Hx; apply H; right; exact Hx].
Qed.

Lemma is_bad_false c : is_bad c = false <-> c <> L_bad.
Proof. destruct c; cbn; split; congruence. Qed.

Theorem check_descriptor_iff (s : ist vx) :
  vmdk_check_descriptor s = Ok tt <-> descriptor_ok (i_ext s).
Proof.
  unfold vmdk_check_descriptor, descriptor_ok.
  destruct (v_desc_text (i_ext s)) as [[|c0 text]|] eqn:Ht.
  - split; [discriminate|]. intros [t [H1 [H2 _]]]. injection H1 as <-. congruence.
  - change VMDK_CH_NL with 10. change VMDK_CH_SLASH with 47.
    fold (desc_lines (c0 :: text)).
    destruct (mem_str (v_vmdktype (i_ext s)) VMDK_SUBFORMATS) eqn:Hty; cbn [negb].
    2:{ split; [discriminate|]. intros [t [_ [_ [Hin _]]]]. apply mem_str_In in Hin. congruence. }
    destruct (existsb (fun l => is_bad (classify_line l)) (desc_lines (c0 :: text))) eqn:Hbad.
    { split; [discriminate|]. intros [t [H1 [_ [_ [Hl _]]]]]. injection H1 as <-.
      apply existsb_exists in Hbad. destruct Hbad as [l [Hin Hb]]. specialize (Hl l Hin).
      unfold line_ok in Hl. destruct (classify_line l); try discriminate. congruence. }
    fold (extent_lines (c0 :: text)).
    destruct (existsb (memN 47) (extent_lines (c0 :: text))) eqn:Hsl.
    { split; [discriminate|]. intros [t [H1 [_ [_ [_ [_ Hp]]]]]]. injection H1 as <-.
      apply existsb_exists in Hsl. destruct Hsl as [l [Hin Hb]]. rewrite (Hp l Hin) in Hb. discriminate. }
    destruct (extent_lines (c0 :: text)) as [|e0 el] eqn:Hex.
    { split; [discriminate|]. intros [t [H1 [_ [_ [_ [Hne _]]]]]]. injection H1 as <-. congruence. }
    split; [intros _|reflexivity].
    exists (c0 :: text). split; [reflexivity|]. split; [discriminate|]. split; [apply mem_str_In; exact Hty|].
    split; [|split].
    + intros l Hin. apply (proj1 (existsb_false_iff _ _) Hbad) in Hin. apply is_bad_false. exact Hin.
    + rewrite Hex. discriminate.
    + rewrite Hex. apply (proj1 (existsb_false_iff _ _) Hsl).
  - split; [discriminate|]. intros [t [H1 _]]. discriminate.
Qed.

(* what the line classes are (the property's "every line blank/comment/ddb.../single-word key=/extent") *)
Lemma classify_line_cases l :
  match classify_line l with
  | L_skip => l = [] \/ prefixb [35] l = true                                   (* blank or comment *)
  | L_ddb => prefixb VMDK_DDB l = true
  | L_field => memN 61 l = true /\ memN 32 (line_prefix 61 l) = false           (* single word before '=' *)
  | L_extent => In (line_prefix 32 l) VMDK_EXTENT_ACCESS                        (* first word is rw / rdonly / noaccess *)
  | L_bad => True
  end.
Proof.
  unfold classify_line. change VMDK_CH_HASH with 35. change VMDK_CH_EQ with 61. change VMDK_CH_SP with 32.
  destruct (prefixb [35] l) eqn:H1; cbn [orb]; [right; reflexivity|].
  destruct l as [|c l']; [left; reflexivity|].
  destruct (prefixb VMDK_DDB (c :: l')) eqn:H2; [reflexivity|].
  destruct (memN 61 (c :: l') && negb (memN 32 (line_prefix 61 (c :: l')))) eqn:H3.
  - apply andb_true_iff in H3. destruct H3 as [Ha Hb]. apply negb_true_iff in Hb. split; assumption.
  - destruct (mem_str (line_prefix 32 (c :: l')) VMDK_EXTENT_ACCESS) eqn:H4; [apply mem_str_In; exact H4|exact I].
Qed.

(* ---------- check_footer ---------- *)
Lemma parse_sparse_state (s : ist vx) n r off :
  rget n (i_regs s) = Some r -> off + 64 <= blen (r_data r) ->
  vmdk_parse_sparse s n off =
  let h := bslice off 64 (r_data r) in Ok (vmdk_sig h, vmdk_ver h, vmdk_desc_sec h, vmdk_desc_num h, vmdk_gd h).
Proof.
  intros Hr Hl. unfold vmdk_parse_sparse, get_region. rewrite Hr. cbn [bind].
  unfold VMDK_MIN_SPARSE_HEADER. slices. replace (off + 64 - off) with 64 by lia.
  rewrite unpack_slice by (try reflexivity; lia). cbn [bind]. reflexivity.
Qed.

Lemma repeatN_zeros n : repeatN (hd 0 VMDK_PAD_BYTE) n = zeros n.
Proof. reflexivity. Qed.

Theorem check_footer_iff (s : ist vx) h f :
  rget R_header (i_regs s) = Some h -> rget R_footer (i_regs s) = Some f ->
  64 <= blen (r_data h) -> blen (r_data f) = 1536 ->
  (vmdk_check_footer s = Ok tt <-> footer_ok (r_data h) (r_data f)).
Proof.
  intros Hh Hf Hlh Hlf. unfold vmdk_check_footer.
  rewrite (parse_sparse_state s R_header h 0 Hh) by lia.
  unfold VMDK_FT_HDR_OFF. rewrite (parse_sparse_state s R_footer f 512 Hf) by lia.
  cbn zeta. cbn [bind].
  set (hd := r_data h) in *. set (ft := r_data f) in *.
  set (fh := bslice 512 64 ft).
  unfold footer_ok. fold fh.
  assert (Hsig : forall x, vmdk_sig (bslice 0 64 x) = vmdk_sig x) by (intros x; unfold vmdk_sig; slices; reflexivity).
  assert (Hver : forall x, vmdk_ver (bslice 0 64 x) = vmdk_ver x) by (intros x; unfold vmdk_ver, le_at; slices; reflexivity).
  assert (Hds : forall x, vmdk_desc_sec (bslice 0 64 x) = vmdk_desc_sec x) by (intros x; unfold vmdk_desc_sec, le_at; slices; reflexivity).
  assert (Hdn : forall x, vmdk_desc_num (bslice 0 64 x) = vmdk_desc_num x) by (intros x; unfold vmdk_desc_num, le_at; slices; reflexivity).
  rewrite Hsig, Hver, Hds, Hdn.
  change VMDK_GD_AT_END with gd_at_end. change VMDK_MARKER_FOOTER with 3. change VMDK_MARKER_EOS with 0.
  unfold get_region. rewrite Hf. cbn [bind]. fold ft.
  unfold VMDK_FT_FIRST, VMDK_FT_LAST, VMDK_FT_PAD. change (N.to_nat 496) with 496%nat. rewrite repeatN_zeros.
  rewrite ntake_bslice. rewrite unpack_slice by (try reflexivity; lia). cbn [bind].
  assert (Hlast : nlast 512 ft = bslice 1024 512 ft).
  { unfold nlast. change (if 512 =? 0 then ft else nskip (flen ft - 512) ft) with (nskip (flen ft - 512) ft).
    rewrite nskip_bskip, flen_blen, Hlf. change (1536 - 512) with 1024.
    unfold bslice. symmetry. apply btake_all. rewrite blen_bskip. lia. }
  rewrite Hlast. rewrite unpack_slice by (try reflexivity; lia). cbn [bind].
  change (sint sf_vmdk_marker 1 (bslice 0 512 ft)) with (le_val (bslice 8 4 (bslice 0 512 ft))).
  change (sint sf_vmdk_marker 2 (bslice 0 512 ft)) with (le_val (bslice 12 4 (bslice 0 512 ft))).
  change (sraw sf_vmdk_marker 3 (bslice 0 512 ft)) with (bslice 16 496 (bslice 0 512 ft)).
  change (sint sf_vmdk_marker2 0 (bslice 1024 512 ft)) with (le_val (bslice 0 8 (bslice 1024 512 ft))).
  change (sint sf_vmdk_marker2 1 (bslice 1024 512 ft)) with (le_val (bslice 8 4 (bslice 1024 512 ft))).
  change (sint sf_vmdk_marker2 2 (bslice 1024 512 ft)) with (le_val (bslice 12 4 (bslice 1024 512 ft))).
  change (sraw sf_vmdk_marker2 3 (bslice 1024 512 ft)) with (bslice 16 496 (bslice 1024 512 ft)).
  slices. change (0 + 8) with 8. change (0 + 12) with 12. change (0 + 16) with 16.
  change (1024 + 0) with 1024. change (1024 + 8) with 1032. change (1024 + 12) with 1036. change (1024 + 16) with 1040.
  unfold le_at.
  destruct (beq (vmdk_sig hd) (vmdk_sig fh)) eqn:E1; cbn [negb].
  2:{ split; [discriminate|]. intros [_ [H _]]. apply beq_false_neq in E1. congruence. }
  apply beq_true_eq in E1.
  destruct (vmdk_ver hd =? vmdk_ver fh) eqn:E2; cbn [negb].
  2:{ split; [discriminate|]. intros [_ [_ [H _]]]. lia. }
  destruct (vmdk_desc_sec hd =? vmdk_desc_sec fh) eqn:E3; cbn [negb orb].
  2:{ split; [discriminate|]. intros [_ [_ [_ [H _]]]]. lia. }
  destruct (vmdk_desc_num hd =? vmdk_desc_num fh) eqn:E4; cbn [negb].
  2:{ split; [discriminate|]. intros [_ [_ [_ [_ [H _]]]]]. lia. }
  destruct (vmdk_gd fh =? gd_at_end) eqn:E5.
  { split; [discriminate|]. intros [_ [_ [_ [_ [_ [H _]]]]]]. lia. }
  destruct (le_val (bslice 8 4 ft) =? 0) eqn:M1; cbn [negb orb].
  2:{ split; [discriminate|]. intros H. decompose [and] H. lia. }
  destruct (le_val (bslice 12 4 ft) =? 3) eqn:M2; cbn [negb orb].
  2:{ split; [discriminate|]. intros H. decompose [and] H. lia. }
  destruct (beq (bslice 16 496 ft) (zeros 496)) eqn:M3; cbn [negb].
  2:{ split; [discriminate|]. intros H. decompose [and] H. apply beq_false_neq in M3. congruence. }
  destruct (le_val (bslice 1024 8 ft) =? 0) eqn:M4; cbn [negb orb].
  2:{ split; [discriminate|]. intros H. decompose [and] H. lia. }
  destruct (le_val (bslice 1032 4 ft) =? 0) eqn:M5; cbn [negb orb].
  2:{ split; [discriminate|]. intros H. decompose [and] H. lia. }
  destruct (le_val (bslice 1036 4 ft) =? 0) eqn:M6; cbn [negb orb].
  2:{ split; [discriminate|]. intros H. decompose [and] H. lia. }
  destruct (beq (bslice 1040 496 ft) (zeros 496)) eqn:M7; cbn [negb].
  2:{ split; [discriminate|]. intros H. decompose [and] H. apply beq_false_neq in M7. congruence. }
  apply beq_true_eq in M3, M7.
  split; [intros _|reflexivity].
  repeat split; try lia; try congruence.
Qed.

(* ---------- what a Pass implies, any VMDK inspector object ---------- *)
Theorem vmdk_pass_implies_state (s : ist vx) :
  safety_check vmdk_fmt s = Pass ->
  Insp_Engine.complete s = true /\
  (In K_descriptor (i_checks s) -> descriptor_ok (i_ext s)) /\
  (forall h, rget R_header (i_regs s) = Some h ->
     prefixb VMDK_MAGIC (r_data h) = true /\
     (In K_footer (i_checks s) -> forall f, rget R_footer (i_regs s) = Some f ->
        64 <= blen (r_data h) -> blen (r_data f) = 1536 -> footer_ok (r_data h) (r_data f))).
Proof.
  intros Hp. apply safety_pass_iff in Hp. destruct Hp as [Hc [Hm Hk]].
  split; [exact Hc|]. split.
  - intros Hin. apply check_descriptor_iff. apply (Hk K_descriptor Hin).
  - intros h Hh. split.
    + cbn [f_match vmdk_fmt] in Hm. unfold vmdk_match in Hm. rewrite Hh in Hm. injection Hm as Hm. exact Hm.
    + intros Hin f Hf Hlh Hlf. apply (check_footer_iff s h f Hh Hf Hlh Hlf). apply (Hk K_footer Hin).
Qed.

(* every reachable VMDK inspector keeps the descriptor check registered, so a Pass always means the parsed
   descriptor was acceptable: type monolithicsparse/streamoptimized, every line recognised, >= 1 extent, no '/' *)
Theorem vmdk_pass_implies_descriptor cs :
  safety (fst (Insp_All.run F_vmdk cs)) = Pass -> descriptor_ok (vmdk_ext_of (fst (Insp_All.run F_vmdk cs))).
Proof.
  pose proof (checks_of_run F_vmdk cs) as Hext.
  rewrite run_vmdk in *. destruct (run_fmt vmdk_fmt cs) as [s e]. cbn [fst safety vmdk_ext_of checks_of] in *.
  intros Hp. apply vmdk_pass_implies_state in Hp. destruct Hp as [_ [Hd _]].
  apply Hd. eapply extends_In; [exact Hext|]. left. reflexivity.
Qed.

(* a descriptor that was never parsed, or whose type is not one of the two sparse types, never passes *)
Corollary vmdk_no_descriptor_never_passes (s : ist vx) :
  In K_descriptor (i_checks s) -> v_desc_text (i_ext s) = None -> safety_check vmdk_fmt s <> Pass.
Proof.
  intros Hin Hn Hp. apply vmdk_pass_implies_state in Hp. destruct Hp as [_ [Hd _]].
  destruct (Hd Hin) as [t [Ht _]]. congruence.
Qed.
Corollary vmdk_other_type_never_passes (s : ist vx) :
  In K_descriptor (i_checks s) -> ~ In (v_vmdktype (i_ext s)) VMDK_SUBFORMATS -> safety_check vmdk_fmt s <> Pass.
Proof.
  intros Hin Hn Hp. apply vmdk_pass_implies_state in Hp. destruct Hp as [_ [Hd _]].
  destruct (Hd Hin) as [t [_ [_ [Ht _]]]]. contradiction.
Qed.

(* the two accepted types, as the code spells them (lower case) *)
Lemma vmdk_subformats_spelled :
  VMDK_SUBFORMATS = [lower_ascii [109;111;110;111;108;105;116;104;105;99;83;112;97;114;115;101];
                     lower_ascii [115;116;114;101;97;109;79;112;116;105;109;105;122;101;100]].
Proof. reflexivity. Qed.
