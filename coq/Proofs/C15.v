(* Proofs/C15.v — translator equivalences, parse_host_port / escape_ipv6 round trip,
   urlsplit post-processing, params(). *)
From Coq Require Import String.
Require Import OV.Base.Bytes OV.Base.Py OV.Base.PyInt OV.Base.Str OV.Base.C15_PyVal.
Require Import OV.Gen.C15_Netutils OV.Model.C15 OV.Model.C15_Spec OV.Proofs.C15_Str.
Open Scope N_scope.

(* ================================================================== translator equivalences *)

Theorem gen_eui64_combine_equiv first e : gen_eui64_combine first e = eui64_combine first e.
Proof. reflexivity. Qed.

Theorem gen_mac_of_ipv6_equiv v : gen_mac_of_ipv6 v = mac_of_ipv6 v.
Proof. reflexivity. Qed.

Theorem gen_parse_host_port_equiv a d : gen_parse_host_port a d = parse_host_port a d.
Proof.
  unfold gen_parse_host_port, parse_host_port.
  destruct a as [|c rest]; [reflexivity|].
  cbn [bempty nth_error].
  destruct (c =? 91) eqn:E.
  - rewrite zslice_from by lia. change (bskip (Z.to_N 1) (c :: rest)) with rest.
    rewrite rsplit_max1.
    destruct (rcut_at 93 rest) as [[h p]|]; [|reflexivity].
    destruct (has_char 58 p) eqn:Hp; [|reflexivity].
    destruct (split_char 58 p) as [|f0 [|q l]]; reflexivity.
  - destruct (count_char 58 (c :: rest) =? 1)%Z; [|reflexivity].
    destruct (split_char 58 (c :: rest)) as [|h [|p [|x l]]]; reflexivity.
Qed.

Theorem gen_urlsplit_post_equiv s n p q f a :
  gen_urlsplit_post s n p q f a = Ok (urlsplit_post s n p q f a).
Proof.
  unfold gen_urlsplit_post, urlsplit_post, split_char_max.
  assert (Q : forall (path qq ff : str),
    (if has_char 63 path
     then match split_char_max_aux 63 path [] 1 with
          | [f0__; f1__] => Ok (s, n, f0__, f1__, ff)
          | _ => Exn ValueError
          end
     else Ok (s, n, path, qq, ff)) =
    Ok (s, n, fst (match cut_at 63 path with Some (a, b) => (a, b) | None => (path, qq) end),
        snd (match cut_at 63 path with Some (a, b) => (a, b) | None => (path, qq) end), ff)).
  { intros path qq ff. rewrite split_max1_aux, cut_at_has.
    destruct (cut_at 63 path) as [[a1 b1]|]; reflexivity. }
  (* robust to the order of the two conjuncts of `allow_fragments and '#' in path` *)
  rewrite (cut_at_has 35 p).
  destruct a; destruct (cut_at 35 p) as [[a1 b1]|] eqn:E35; cbn [andb fst snd]; try apply Q.
  rewrite split_max1_aux, E35. cbn [rev app]. apply Q.
Qed.

(* ================================================================== parse_host_port *)

Lemma opt_int_dec port : opt_int (VStr (dec_of_Z port)) = Ok (Some port).
Proof. cbn [opt_int]. rewrite py_int_dec_of_Z. reflexivity. Qed.

Lemma parse_bracket rest d :
  parse_host_port (91 :: rest) d =
  match rcut_at 93 rest with
  | Some (h, p) =>
      if has_char 58 p then
        match split_char 58 p with
        | _ :: q :: _ => do pn <- opt_int (VStr q); Ok (Some h, pn)
        | _ => Exn IndexError
        end
      else do pn <- opt_int d; Ok (Some h, pn)
  | None => Exn ValueError
  end.
Proof. reflexivity. Qed.

Lemma parse_nobracket a d : a <> [] -> prefixb [91] a = false ->
  parse_host_port a d =
  if (count_char 58 a =? 1)%Z then
    match split_char 58 a with
    | [h; p] => do pn <- opt_int (VStr p); Ok (Some h, pn)
    | _ => Exn ValueError
    end
  else do pn <- opt_int d; Ok (Some a, pn).
Proof.
  intros Hne Hp. destruct a as [|c rest]; [congruence|].
  cbn [prefixb] in Hp. rewrite andb_true_r in Hp.
  unfold parse_host_port. rewrite N.eqb_sym, Hp. reflexivity.
Qed.

Lemma bind_host_inv (X : res (option Z)) (h host : str) y :
  (do pn <- X; Ok (Some h, pn)) = Ok (Some host, y) -> h = host.
Proof. destruct X; cbn [bind]; intros H; inversion H; reflexivity. Qed.

(* the host a bracketed address yields is what precedes its last ']' *)
Lemma bracket_host_inv rest d host y :
  parse_host_port (91 :: rest) d = Ok (Some host, y) ->
  exists p, rcut_at 93 rest = Some (host, p).
Proof.
  rewrite parse_bracket. intros H.
  destruct (rcut_at 93 rest) as [[h p]|] eqn:E; [|discriminate].
  assert (h = host).
  { destruct (has_char 58 p).
    - destruct (split_char 58 p) as [|f0 [|q l]]; try discriminate. eapply bind_host_inv; exact H.
    - eapply bind_host_inv; exact H. }
  subst h. exists p. reflexivity.
Qed.

(* ... so it is strictly shorter than the text after the '[' *)
Lemma rcut_shorter c s a b : rcut_at c s = Some (a, b) -> (length a < length s)%nat.
Proof.
  intros H. destruct (rcut_at_spec _ _ _ _ H) as [-> _]. rewrite app_length. cbn [length]. lia.
Qed.

Lemma length_app_neq {A} (a b : list A) : b <> [] -> a ++ b <> a.
Proof.
  intros Hb E. apply (f_equal (@length A)) in E. rewrite app_length in E.
  destruct b; [congruence|]. cbn [length] in E. lia.
Qed.

(* parse_host_port (escape_ipv6 host ++ ":" ++ str(port)) = (host, port)
   exactly for the hosts described by rt_host; any integer port *)
Theorem host_port_roundtrip_iff valid host port :
  parse_host_port (escape_ipv6 valid host ++ [58] ++ dec_of_Z port) VNone = Ok (Some host, Some port)
  <-> rt_host valid host = true.
Proof.
  assert (D93 : has_char 93 (58 :: dec_of_Z port) = false).
  { rewrite has_char_cons. rewrite dec_of_Z_no_char by lia. reflexivity. }
  assert (D58 : has_char 58 (dec_of_Z port) = false) by (apply dec_of_Z_no_char; lia).
  unfold rt_host, escape_ipv6. destruct valid.
  - (* bracketed: every host *)
    replace (([91] ++ host ++ [93]) ++ [58] ++ dec_of_Z port)
      with (91 :: (host ++ 93 :: (58 :: dec_of_Z port)))
      by (cbn [app]; rewrite <- !app_assoc; reflexivity).
    rewrite parse_bracket, rcut_at_last by exact D93.
    rewrite has_char_cons, N.eqb_refl. cbn [orb].
    change (58 :: dec_of_Z port) with ([] ++ 58 :: dec_of_Z port).
    rewrite split_char_two by (reflexivity || assumption).
    rewrite opt_int_dec. split; reflexivity.
  - (* not bracketed *)
    cbn [app]. destruct (prefixb [91] host) eqn:Hp.
    + rewrite andb_false_r. split; [|discriminate]. intros H. exfalso.
      destruct host as [|c rest]; [discriminate|].
      cbn [prefixb] in Hp. rewrite andb_true_r in Hp. apply N.eqb_eq in Hp. subst c.
      cbn [app] in H. apply bracket_host_inv in H. destruct H as (p & Hs).
      rewrite rcut_at_app_tail in Hs by exact D93.
      destruct (rcut_at 93 rest) as [[a b]|] eqn:E; [|discriminate].
      inversion Hs; subst. apply rcut_shorter in E. cbn [length] in E. lia.
    + rewrite andb_true_r.
      assert (Hne : host ++ 58 :: dec_of_Z port <> []) by (destruct host; discriminate).
      assert (Hp' : prefixb [91] (host ++ 58 :: dec_of_Z port) = false).
      { destruct host as [|c rest]; [reflexivity|exact Hp]. }
      rewrite (parse_nobracket _ _ Hne Hp'), count_char_app.
      cbn [count_char]. rewrite N.eqb_refl.
      apply count_char_0 in D58. rewrite D58.
      destruct (has_char 58 host) eqn:H58; cbn [negb]; split; intros H; try discriminate; try reflexivity.
      * exfalso. pose proof (count_char_pos _ _ H58).
        replace (count_char 58 host + (1 + 0) =? 1)%Z with false in H by lia.
        cbn [opt_int bind] in H. discriminate.
      * pose proof (proj1 (count_char_0 _ _) H58) as C0. rewrite C0.
        cbn [Z.add Z.eqb Pos.eqb Pos.add].
        rewrite split_char_two by (assumption || apply count_char_0; assumption).
        rewrite opt_int_dec. reflexivity.
Qed.

(* a missing port yields the default — exactly for the hosts described by rt_host_default *)
Theorem host_default_roundtrip_iff valid host (d : option Z) :
  parse_host_port (escape_ipv6 valid host) (pv_of d) = Ok (Some host, d)
  <-> rt_host_default valid host = true.
Proof.
  assert (OI : opt_int (pv_of d) = Ok d) by (destruct d; reflexivity).
  unfold rt_host_default, escape_ipv6. destruct valid.
  - replace ([91] ++ host ++ [93]) with (91 :: (host ++ 93 :: [])) by reflexivity.
    rewrite parse_bracket, rcut_at_last by reflexivity.
    cbn [has_char memN]. rewrite OI. split; reflexivity.
  - destruct host as [|c rest].
    + cbn. split; discriminate.
    + cbn [bempty negb andb].
      destruct (prefixb [91] (c :: rest)) eqn:Hp; cbn [negb andb].
      * split; [|discriminate]. intros H. exfalso.
        cbn [prefixb] in Hp. rewrite andb_true_r in Hp. apply N.eqb_eq in Hp. subst c.
        apply bracket_host_inv in H. destruct H as (p & Hs).
        apply rcut_shorter in Hs. cbn [length] in Hs. lia.
      * rewrite (parse_nobracket (c :: rest) _ ltac:(discriminate) Hp).
        destruct (count_char 58 (c :: rest) =? 1)%Z eqn:C1; cbn [negb]; split; intros H; try discriminate.
        -- exfalso.
           destruct (split_char 58 (c :: rest)) as [|h [|p [|x l]]] eqn:E; try discriminate.
           apply bind_host_inv in H. subst h.
           destruct (split_char_two_inv _ _ _ _ E) as (Hs & _ & _).
           symmetry in Hs. revert Hs. apply length_app_neq. discriminate.
        -- reflexivity.
        -- rewrite OI. reflexivity.
Qed.

(* ---- the three families of the property text ---- *)

(* names and IPv4 literals: no ':' and no leading '[' — whatever is_valid_ipv6 says *)
Corollary host_port_roundtrip_plain valid host port :
  has_char 58 host = false -> prefixb [91] host = false ->
  parse_host_port (escape_ipv6 valid host ++ [58] ++ dec_of_Z port) VNone = Ok (Some host, Some port).
Proof.
  intros H58 H91. apply host_port_roundtrip_iff. unfold rt_host.
  destruct valid; [reflexivity|]. rewrite H58, H91. reflexivity.
Qed.

(* IPv6 literals with or without a scope id — everything escape_ipv6 brackets, no condition *)
Corollary host_port_roundtrip_ipv6 host port :
  parse_host_port (escape_ipv6 true host ++ [58] ++ dec_of_Z port) VNone = Ok (Some host, Some port).
Proof. apply host_port_roundtrip_iff. reflexivity. Qed.

Corollary host_default_plain valid host d :
  host <> [] -> has_char 58 host = false -> prefixb [91] host = false ->
  parse_host_port (escape_ipv6 valid host) (pv_of d) = Ok (Some host, d).
Proof.
  intros Hne H58 H91. apply host_default_roundtrip_iff. unfold rt_host_default.
  destruct valid; [reflexivity|].
  destruct host as [|c rest]; [congruence|]. rewrite H91.
  apply count_char_0 in H58. rewrite H58. reflexivity.
Qed.

Corollary host_default_ipv6 host d :
  parse_host_port (escape_ipv6 true host) (pv_of d) = Ok (Some host, d).
Proof. apply host_default_roundtrip_iff. reflexivity. Qed.

(* non-vacuity and the negative instances *)
Example ex_rt_name : rt_host false (lit "server01") = true /\ rt_host_default false (lit "server01") = true.
Proof. split; reflexivity. Qed.
Example ex_rt_ipv4 : rt_host false (lit "10.0.0.1") = true /\ rt_host_default false (lit "10.0.0.1") = true.
Proof. split; reflexivity. Qed.
(* repaired finding H1 (03fda28): a scope id containing ']' now round-trips *)
Example ex_scope_bracket_ok :
  parse_host_port (escape_ipv6 true (lit "fe80::1%a]b") ++ [58] ++ dec_of_Z 80) VNone = Ok (Some (lit "fe80::1%a]b"), Some 80%Z).
Proof. vm_compute. reflexivity. Qed.
(* one ':' and no brackets (is_valid_ipv6 says no): host and port are confused *)
Example ex_one_colon_fails :
  rt_host false (lit "a:b") = false /\
  parse_host_port (escape_ipv6 false (lit "a:b") ++ [58] ++ dec_of_Z 80) VNone = Ok (Some (lit "a:b:80"), None).
Proof. split; vm_compute; reflexivity. Qed.
Example ex_one_colon_default_fails :
  rt_host_default false (lit "a:b") = false /\
  parse_host_port (escape_ipv6 false (lit "a:b")) (pv_of (Some 7%Z)) = Exn ValueError.
Proof. split; vm_compute; reflexivity. Qed.
(* an unbracketed host with two or more colons keeps its default port but not an explicit one *)
Example ex_unescaped_ipv6 :
  rt_host_default false (lit "a:b:c") = true /\ rt_host false (lit "a:b:c") = false.
Proof. split; reflexivity. Qed.

(* what is still excluded: the statement for hosts escape_ipv6 does NOT bracket is false
   without the side conditions (a host with a ':' that is_valid_ipv6 refuses) *)
Lemma host_port_unescaped_refuted :
  ~ (forall host port, parse_host_port (escape_ipv6 false host ++ [58] ++ dec_of_Z port) VNone = Ok (Some host, Some port)).
Proof.
  intros H. specialize (H (lit "a:b") 80%Z).
  rewrite (proj2 ex_one_colon_fails) in H. discriminate.
Qed.

(* ================================================================== urlsplit *)

(* under the post-condition of urllib.parse.urlsplit (no '?' in the path; no '#' when
   fragments are allowed) oslo's urlsplit returns the stdlib's five components unchanged *)
Theorem urlsplit_post_identity s n p q f a :
  has_char 63 p = false -> (a = true -> has_char 35 p = false) ->
  urlsplit_post s n p q f a = (s, n, p, q, f).
Proof.
  intros H63 H35. unfold urlsplit_post.
  assert (E : (if a then match cut_at 35 p with Some (a0, b) => (a0, b) | None => (p, f) end else (p, f)) = (p, f)).
  { destruct a; [|reflexivity]. specialize (H35 eq_refl). rewrite cut_at_has in H35.
    destruct (cut_at 35 p) as [[? ?]|]; [discriminate|reflexivity]. }
  rewrite E. cbn [fst snd]. rewrite cut_at_has in H63.
  destruct (cut_at 63 p) as [[? ?]|]; [discriminate|reflexivity].
Qed.

Theorem urlsplit_agrees s n p q f a :
  has_char 63 p = false -> (a = true -> has_char 35 p = false) ->
  gen_urlsplit_post s n p q f a = Ok (s, n, p, q, f).
Proof. intros H1 H2. rewrite gen_urlsplit_post_equiv, urlsplit_post_identity by assumption. reflexivity. Qed.

Lemma cut_prefix_clean c d s a b : cut_at c s = Some (a, b) -> has_char d s = false -> has_char d a = false.
Proof.
  intros H Hd. destruct (cut_at_spec _ _ _ _ H) as [-> _].
  rewrite has_char_app in Hd. apply orb_false_iff in Hd. tauto.
Qed.

(* whatever the stdlib returned: afterwards the path has no '?', and no '#' when fragments
   are allowed; nothing is lost (the pieces glue back to the stdlib's path) *)
Theorem urlsplit_post_clean s n p q f a :
  match urlsplit_post s n p q f a with
  | (s', n', p', q', f') =>
      s' = s /\ n' = n /\ has_char 63 p' = false /\ (a = true -> has_char 35 p' = false) /\
      (exists tl, p = p' ++ tl)
  end.
Proof.
  unfold urlsplit_post.
  set (pf := if a then match cut_at 35 p with Some (a0, b) => (a0, b) | None => (p, f) end else (p, f)).
  assert (P1 : (a = true -> has_char 35 (fst pf) = false) /\ exists tl, p = fst pf ++ tl).
  { subst pf. destruct a.
    - destruct (cut_at 35 p) as [[a0 b0]|] eqn:E; cbn [fst].
      + destruct (cut_at_spec _ _ _ _ E) as [-> Ha]. split; [intros _; exact Ha|]. eexists; reflexivity.
      + split; [intros _; rewrite cut_at_has, E; reflexivity|]. exists []. symmetry; apply app_nil_r.
    - cbn [fst]. split; [discriminate|]. exists []. symmetry; apply app_nil_r. }
  destruct P1 as [P35 [tl1 Ptl]].
  destruct (cut_at 63 (fst pf)) as [[a1 b1]|] eqn:E; cbn [fst snd].
  - destruct (cut_at_spec _ _ _ _ E) as [Es Ha]. repeat split; try assumption.
    + intros Ht. eapply cut_prefix_clean; [exact E|]. auto.
    + exists (63 :: b1 ++ tl1). rewrite Ptl, Es, <- app_assoc. reflexivity.
  - repeat split; try assumption.
    + rewrite cut_at_has, E. reflexivity.
    + exists tl1. exact Ptl.
Qed.

Example ex_urlsplit_contract : has_char 63 (lit "/a;b/c") = false /\ has_char 35 (lit "/a;b/c") = false.
Proof. split; reflexivity. Qed.
(* what the post-processing would do to a path the contract excludes *)
Example ex_urlsplit_post_splits :
  urlsplit_post (lit "http") (lit "h") (lit "/p#f?q") [] [] true = (lit "http", lit "h", lit "/p", [], lit "f?q").
Proof. vm_compute. reflexivity. Qed.

(* ================================================================== params() *)

Section Dict.
  Context {V : Type}.

  Lemma dict_get_set (k k' : str) (v : V) d :
    dict_get k (dict_set k' v d) = if beq k k' then Some v else dict_get k d.
  Proof.
    induction d as [|[k0 v0] d IH]; cbn [dict_set dict_get].
    - destruct (beq k k'); reflexivity.
    - destruct (beq k' k0) eqn:E; cbn [dict_get].
      + apply beq_eq in E. subst k0. destruct (beq k k'); reflexivity.
      + destruct (beq k k0) eqn:E0.
        * apply beq_eq in E0. subst k0.
          destruct (beq k k') eqn:E1; [|reflexivity].
          apply beq_eq in E1. subst k'. rewrite beq_refl in E. discriminate.
        * exact IH.
  Qed.

  Lemma dict_set_keys (k : str) (v : V) d :
    map fst (dict_set k v d) = if existsb (beq k) (map fst d) then map fst d else map fst d ++ [k].
  Proof.
    induction d as [|[k0 v0] d IH]; cbn [dict_set map fst existsb]; [reflexivity|].
    destruct (beq k k0); cbn [orb map fst]; [reflexivity|].
    rewrite IH. destruct (existsb (beq k) (map fst d)); reflexivity.
  Qed.

  Lemma NoDup_snoc {A} (l : list A) x : NoDup l -> ~ In x l -> NoDup (l ++ [x]).
  Proof.
    induction l as [|a l IH]; intros H Hx; cbn [app].
    - constructor; [intros []|constructor].
    - inversion H as [|? ? Ha Hl]; subst. constructor.
      + intros Hin. apply in_app_or in Hin. destruct Hin as [Hin|[->|[]]]; [contradiction|].
        apply Hx. left. reflexivity.
      + apply IH; [exact Hl|]. intros Hin. apply Hx. right. exact Hin.
  Qed.

  Lemma dict_set_nodup (k : str) (v : V) d : NoDup (map fst d) -> NoDup (map fst (dict_set k v d)).
  Proof.
    intros H. rewrite dict_set_keys. destruct (existsb (beq k) (map fst d)) eqn:E; [exact H|].
    apply NoDup_snoc; [exact H|]. intros Hin.
    assert (existsb (beq k) (map fst d) = true); [|congruence].
    apply existsb_exists. exists k. split; [exact Hin|apply beq_refl].
  Qed.
End Dict.

Lemma params_collapse_snoc l kv :
  params_collapse (l ++ [kv]) = dict_set (fst kv) (snd kv) (params_collapse l).
Proof. unfold params_collapse. rewrite fold_left_app. reflexivity. Qed.

Lemma params_all_snoc l kv : params_all (l ++ [kv]) = params_step (params_all l) kv.
Proof. unfold params_all. rewrite fold_left_app. reflexivity. Qed.

Lemma values_of_snoc k l kv :
  values_of k (l ++ [kv]) = values_of k l ++ (if beq k (fst kv) then [snd kv] else []).
Proof.
  unfold values_of. rewrite filter_app, map_app. cbn [filter]. cbv beta.
  unfold str, bytes in *. destruct (beq k (fst kv)); reflexivity || (cbn [map]; reflexivity).
Qed.

(* collapse=True: every name maps to the LAST value given for it; absent names are absent *)
Theorem params_last_wins pairs k :
  dict_get k (params_collapse pairs) = last_opt (values_of k pairs).
Proof.
  induction pairs as [|kv l IH] using rev_ind; [reflexivity|].
  rewrite params_collapse_snoc, dict_get_set, values_of_snoc.
  destruct (beq k (fst kv)).
  - unfold last_opt. rewrite rev_app_distr. reflexivity.
  - rewrite app_nil_r. exact IH.
Qed.

(* collapse=False: every name maps to ALL its values in order (a single value stays bare) *)
Theorem params_all_values pairs k :
  dict_get k (params_all pairs) = pval_of (values_of k pairs).
Proof.
  induction pairs as [|kv l IH] using rev_ind; [reflexivity|].
  rewrite params_all_snoc, values_of_snoc. unfold params_step.
  destruct (beq k (fst kv)) eqn:E.
  - apply beq_eq in E. subst k. rewrite IH.
    destruct (values_of (fst kv) l) as [|v1 [|v2 vs]]; cbn [pval_of app];
      rewrite dict_get_set, beq_refl; reflexivity.
  - rewrite app_nil_r, <- IH.
    destruct (dict_get (fst kv) (params_all l)) as [[x|xs]|]; rewrite dict_get_set, E; reflexivity.
Qed.

Theorem params_keys_nodup pairs :
  NoDup (map fst (params_collapse pairs)) /\ NoDup (map fst (params_all pairs)).
Proof.
  split; induction pairs as [|kv l IH] using rev_ind; try (cbn; constructor).
  - rewrite params_collapse_snoc. apply dict_set_nodup. exact IH.
  - rewrite params_all_snoc. unfold params_step.
    destruct (dict_get (fst kv) (params_all l)) as [[x|xs]|]; apply dict_set_nodup; exact IH.
Qed.

(* params() itself: `if self.query:` short-cuts an empty query to {} — the same thing under the
   parse_qsl contract that an empty query has no pairs *)
Theorem params_method query pairs k :
  (bempty query = true -> pairs = []) ->
  dict_get k (params_c query pairs) = last_opt (values_of k pairs) /\
  dict_get k (params_a query pairs) = pval_of (values_of k pairs).
Proof.
  intros C. unfold params_c, params_a. destruct (bempty query).
  - rewrite (C eq_refl). split; reflexivity.
  - split; [apply params_last_wins|apply params_all_values].
Qed.

Definition ex_pairs : list (str * str) := [(lit "a", lit "1"); (lit "b", lit "x"); (lit "a", lit "2"); (lit "a", lit "3")].
Example ex_params :
  (params_collapse ex_pairs = [(lit "a", lit "3"); (lit "b", lit "x")]) /\
  (params_all ex_pairs = [(lit "a", Many [lit "1"; lit "2"; lit "3"]); (lit "b", One (lit "x"))]).
Proof. split; vm_compute; reflexivity. Qed.

Example ex_plain_hyps :
  has_char 58 (lit "server01") = false /\ prefixb [91] (lit "server01") = false /\ lit "server01" <> [].
Proof. repeat split; try reflexivity. discriminate. Qed.
Example ex_params_contract : bempty (lit "a=1") = true -> [(lit "a", lit "1")] = @nil (str * str).
Proof. discriminate. Qed.
