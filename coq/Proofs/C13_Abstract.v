(* Proofs/C13_Abstract.v — the arithmetic facts the C13 theorems rest on, for every ordered
   abelian group; Z with Model/C13.v's delta / clamp_max is an instance. *)
From Coq Require Import ZArith Bool Lia.
Require Import OV.Model.C13 OV.Model.C13_Abstract.

Section OrderedGroup.
Variable T : Type.
Variable zero : T.
Variable sub : T -> T -> T.
Variable leb : T -> T -> bool.

(* contract: a total order compatible with subtraction *)
Hypothesis le_refl : forall a, leb a a = true.
Hypothesis le_trans : forall a b c, leb a b = true -> leb b c = true -> leb a c = true.
Hypothesis le_total : forall a b, leb a b = true \/ leb b a = true.
Hypothesis le_antisym : forall a b, leb a b = true -> leb b a = true -> a = b.
Hypothesis sub_le : forall a b, leb zero (sub b a) = leb a b.           (* 0 <= b - a  <->  a <= b *)
Hypothesis sub_mono : forall a b c, leb a b = true -> leb (sub a c) (sub b c) = true.

Notation max0 := (g_max0 T zero leb).
Notation gdelta := (g_delta T zero sub leb).
Notation gclamp := (g_clamp_max T zero leb).

Lemma max0_nonneg x : leb zero (max0 x) = true.
Proof.
  unfold g_max0, g_gtb. destruct (leb x zero) eqn:E; cbn [negb]; [apply le_refl|].
  destruct (le_total zero x) as [H|H]; [exact H|congruence].
Qed.

Lemma max0_id x : leb zero x = true -> max0 x = x.
Proof.
  intro H. unfold g_max0, g_gtb. destruct (leb x zero) eqn:E; cbn [negb]; [|reflexivity].
  apply le_antisym; assumption.
Qed.

Lemma max0_mono x y : leb x y = true -> leb (max0 x) (max0 y) = true.
Proof.
  intro H. unfold g_max0, g_gtb.
  destruct (leb x zero) eqn:E1, (leb y zero) eqn:E2; cbn [negb].
  - apply le_refl.
  - destruct (le_total zero y); congruence.
  - assert (leb x zero = true) by (eapply le_trans; eassumption). congruence.
  - exact H.
Qed.

(* elapsed time is never negative *)
Lemma g_delta_nonneg a b : leb zero (gdelta a b) = true.
Proof. apply max0_nonneg. Qed.

(* under an ordered (monotonic) pair of readings it is exactly the clock distance *)
Lemma g_delta_exact a b : leb a b = true -> gdelta a b = sub b a.
Proof. intro H. apply max0_id. rewrite sub_le. exact H. Qed.

(* later readings give larger elapsed values (splits are non-decreasing) *)
Lemma g_delta_mono s a b : leb a b = true -> leb (gdelta s a) (gdelta s b) = true.
Proof. intro H. apply max0_mono, sub_mono, H. Qed.

(* the maximum clause *)
Lemma g_clamp_nonneg m e : leb zero e = true -> leb zero (gclamp m e) = true.
Proof.
  intro H. unfold g_clamp_max. destruct m as [m|]; [|exact H].
  destruct (g_gtb T leb e m); [apply max0_nonneg|exact H].
Qed.

Lemma g_clamp_le m e : leb zero m = true -> leb (gclamp (Some m) e) m = true.
Proof.
  intro H. unfold g_clamp_max, g_gtb. destruct (leb e m) eqn:E; cbn [negb]; [exact E|].
  rewrite (max0_id m H). apply le_refl.
Qed.

(* leftover = max(0, duration - elapsed) is non-negative and at most the duration; expired <-> elapsed > duration *)
Lemma g_leftover_nonneg d e : leb zero (g_leftover T zero sub leb d e) = true.
Proof. apply max0_nonneg. Qed.

Lemma g_expired_iff d e : g_expired T leb d e = true <-> leb e d = false.
Proof. unfold g_expired, g_gtb. destruct (leb e d); cbn; split; congruence. Qed.

Lemma g_expired_leftover d e :
  leb zero d = true -> g_expired T leb d e = true -> g_leftover T zero sub leb d e = zero.
Proof.
  intros Hd H. apply g_expired_iff in H. unfold g_leftover, g_max0, g_gtb.
  destruct (leb (sub d e) zero) eqn:E; cbn [negb]; [reflexivity|].
  exfalso. assert (leb zero (sub d e) = true) by (destruct (le_total zero (sub d e)); congruence).
  rewrite sub_le in H0. congruence.
Qed.

End OrderedGroup.

(* the contract and the facts, closed *)
Definition ordered_group (T : Type) (zero : T) (sub : T -> T -> T) (leb : T -> T -> bool) : Prop :=
  (forall a, leb a a = true) /\
  (forall a b c, leb a b = true -> leb b c = true -> leb a c = true) /\
  (forall a b, leb a b = true \/ leb b a = true) /\
  (forall a b, leb a b = true -> leb b a = true -> a = b) /\
  (forall a b, leb zero (sub b a) = leb a b) /\
  (forall a b c, leb a b = true -> leb (sub a c) (sub b c) = true).

Lemma abstract_arithmetic T zero sub leb :
  ordered_group T zero sub leb ->
  (forall a b, leb zero (g_delta T zero sub leb a b) = true) /\
  (forall a b, leb a b = true -> g_delta T zero sub leb a b = sub b a) /\
  (forall s a b, leb a b = true -> leb (g_delta T zero sub leb s a) (g_delta T zero sub leb s b) = true) /\
  (forall m e, leb zero e = true -> leb zero (g_clamp_max T zero leb m e) = true) /\
  (forall m e, leb zero m = true -> leb (g_clamp_max T zero leb (Some m) e) m = true) /\
  (forall d e, leb zero (g_leftover T zero sub leb d e) = true) /\
  (forall d e, g_expired T leb d e = true <-> leb e d = false) /\
  (forall d e, leb zero d = true -> g_expired T leb d e = true -> g_leftover T zero sub leb d e = zero).
Proof.
  intros (H1 & H2 & H3 & H4 & H5 & H6). repeat split.
  - intros; apply g_delta_nonneg; assumption.
  - intros; apply g_delta_exact; assumption.
  - intros; apply g_delta_mono; assumption.
  - intros; apply g_clamp_nonneg; assumption.
  - intros; apply g_clamp_le; assumption.
  - intros; apply g_leftover_nonneg; assumption.
  - apply g_expired_iff.
  - apply g_expired_iff.
  - intros; eapply g_expired_leftover; eassumption.
Qed.

(* Z — the number type of Model/C13.v — is an instance, and the generic functions are the model's *)
Open Scope Z_scope.

Lemma Z_is_an_instance : ordered_group Z 0 Z.sub Z.leb.
Proof. unfold ordered_group. repeat split; intros; lia. Qed.

Lemma Z_functions_are_generic :
  (forall a b, g_delta Z 0 Z.sub Z.leb a b = delta a b) /\
  (forall m e, g_clamp_max Z 0 Z.leb m e = clamp_max m e) /\
  (forall d e, g_leftover Z 0 Z.sub Z.leb d e = Z.max 0 (d - e)) /\
  (forall d e, g_expired Z Z.leb d e = (e >? d)).
Proof.
  repeat split; intros.
  - unfold g_delta, g_max0, g_gtb, delta. destruct (b - a <=? 0) eqn:E; cbn [negb]; lia.
  - unfold g_clamp_max, clamp_max, g_max0, g_gtb. destruct m as [m|]; [|reflexivity].
    destruct (e <=? m) eqn:E1, (e >? m) eqn:E2, (m <=? 0) eqn:E3; cbn [negb]; lia.
  - unfold g_leftover, g_max0, g_gtb. destruct (d - e <=? 0) eqn:E; cbn [negb]; lia.
  - unfold g_expired, g_gtb. destruct (e <=? d) eqn:E1, (e >? d) eqn:E2; cbn [negb]; lia.
Qed.


Lemma Z_instance_summary :
  ordered_group Z 0 Z.sub Z.leb /\
  (forall a b, g_delta Z 0 Z.sub Z.leb a b = delta a b) /\
  (forall m e, g_clamp_max Z 0 Z.leb m e = clamp_max m e) /\
  (forall d e, g_leftover Z 0 Z.sub Z.leb d e = Z.max 0 (d - e)) /\
  (forall d e, g_expired Z Z.leb d e = (e >? d)).
Proof. exact (conj Z_is_an_instance Z_functions_are_generic). Qed.
