(* Proofs/C04_Sweep6.v — shard 6 of 8 of the bounded whole-function sweep (kernel VM computation) *)
Require Import OV.Base.Bytes OV.Model.C04 OV.Model.C04_Spec OV.Model.C04_Sweep.
Lemma sweep_shard_6 : forallb check_case (shard 8 6 family_quick) = true.
Proof. vm_cast_no_check (eq_refl true). Qed.   (* one evaluation, by the kernel VM at Qed *)
