(* Proofs/C02_Spec.v — the boolean (executable) forms of the declarative predicates agree with them;
   corollaries of the per-format characterisations that the property text names; clean images. *)
Require Import OV.Base.Bytes OV.Base.Py OV.Base.Insp_Struct OV.Gen.Insp_Consts OV.Model.Insp_Engine OV.Model.Insp_All.
Require Import OV.Model.C02 OV.Proofs.C02_Engine OV.Proofs.C02_Bytes OV.Proofs.C02_Bits OV.Proofs.C02_Static
               OV.Proofs.C02_Gpt OV.Proofs.C02_Qcow.
Open Scope N_scope.

Lemma qcow2_safeb_iff b : qcow2_safeb b = true <-> qcow2_safe b.
Proof.
  unfold qcow2_safeb, qcow2_safe. rewrite !andb_true_iff, orb_true_iff, negb_true_iff.
  unfold no_unknown_bits. rewrite high_bits_clear_iff. rewrite beq_eq.
  split.
  - intros [[[[[H1 H2] H3] H4] H5] H6].
    split; [lia|]. split; [exact H2|]. split; [lia|]. split; [lia|]. split; [exact H5|].
    intros Hv. lia.
  - intros [H1 [H2 [H3 [H4 [H5 H6]]]]].
    split; [split; [split; [split; [split|]|]|]|]; try assumption; try lia.
Qed.

Lemma luks_safeb_iff b : luks_safeb b = true <-> luks_safe b.
Proof. unfold luks_safeb, luks_safe. rewrite !andb_true_iff, beq_eq, N.leb_le, N.eqb_eq. tauto. Qed.
Lemma vhd_okb_iff b : vhd_okb b = true <-> vhd_ok b.
Proof. unfold vhd_okb, vhd_ok. rewrite !andb_true_iff, beq_eq, N.leb_le. tauto. Qed.
Lemma vdi_okb_iff b : vdi_okb b = true <-> vdi_ok b.
Proof. unfold vdi_okb, vdi_ok. rewrite !andb_true_iff, N.leb_le, N.eqb_eq. tauto. Qed.
Lemma iso_okb_iff b : iso_okb b = true <-> iso_ok b.
Proof. unfold iso_okb, iso_ok. rewrite !andb_true_iff, mem_str_In, N.leb_le. tauto. Qed.

Lemma mbr_table_okb_iff b : mbr_table_okb b = true <-> mbr_table_ok b.
Proof.
  rewrite <- table_conditions_iff. unfold mbr_table_okb, T, nonzero. rewrite !andb_true_iff, orb_true_iff, negb_true_iff.
  split.
  - intros [[HA HB] HC]. split; [exact HA|]. split; [|exact HC].
    intros Hee. destruct HB as [HB|HB]; [congruence|].
    rewrite !andb_true_iff, !negb_true_iff in HB. lia.
  - intros [HA [HB HC]]. split; [split; [exact HA|]|exact HC].
    destruct (existsb (fun j => is_ee (pte b j)) idx4) eqn:E; [right|left; reflexivity].
    specialize (HB eq_refl). rewrite !andb_true_iff, !negb_true_iff. lia.
Qed.

Lemma gpt_safeb_iff b : gpt_safeb b = true <-> gpt_safe b.
Proof.
  unfold gpt_safeb, gpt_safe, looks_like_fat. rewrite !andb_true_iff, negb_true_iff, mbr_table_okb_iff.
  split.
  - intros [[[H1 H2] H3] H4]. split; [lia|]. split; [lia|]. split; [|exact H4]. intros [Ha Hb]. lia.
  - intros [H1 [H2 [H3 H4]]]. split; [split; [split; [lia|lia]|]|exact H4].
    destruct (bnth 16 b =? 2) eqn:E1; destruct (bnth 21 b =? 248) eqn:E2; try reflexivity.
    exfalso. apply H3. lia.
Qed.

(* one statement for the eight static formats: the verdict of safety_check() after ANY chunking of the bytes
   is the declarative predicate of the whole byte string *)
Theorem static_safeb_correct f cs v :
  all_bytes (concat cs) = true -> static_safeb f (concat cs) = Some v ->
  (safety (fst (Insp_All.run f cs)) = Pass <-> v = true).
Proof.
  intros Hb Hs. destruct f; cbn [static_safeb] in Hs; try discriminate; injection Hs as <-.
  - split; [reflexivity|intros _; apply raw_pass].
  - rewrite qcow2_safeb_iff. apply qcow2_pass_iff. exact Hb.
  - rewrite vhd_okb_iff. apply vhd_pass_iff.
  - rewrite vdi_okb_iff. apply vdi_pass_iff.
  - split; [intros H; exfalso; revert H; apply qed_never_passes|discriminate].
  - rewrite iso_okb_iff. apply iso_pass_iff.
  - rewrite gpt_safeb_iff. apply gpt_pass_iff.
  - rewrite luks_safeb_iff. apply luks_pass_iff.
Qed.

(* chunking independence of the safety verdict for the static formats is a corollary *)
Corollary static_pass_chunking_independent f cs cs' :
  concat cs = concat cs' -> all_bytes (concat cs) = true -> static_safeb f (concat cs) <> None ->
  (safety (fst (Insp_All.run f cs)) = Pass <-> safety (fst (Insp_All.run f cs')) = Pass).
Proof.
  intros He Hb Hs. destruct (static_safeb f (concat cs)) as [v|] eqn:E; [|congruence].
  rewrite (static_safeb_correct f cs v Hb E).
  rewrite He in Hb, E. rewrite (static_safeb_correct f cs' v Hb E). reflexivity.
Qed.

(* ---------- qcow2: the consequences the property names ---------- *)
Section Qcow2.
Variable cs : list bytes.
Hypothesis Hb : all_bytes (concat cs) = true.
Let b := concat cs.

Corollary qcow2_backing_file_rejected : qcow2_backing_offset b <> 0 -> safety (fst (Insp_All.run F_qcow2 cs)) <> Pass.
Proof. intros H Hp. apply (qcow2_pass_iff cs Hb) in Hp. destruct Hp as [_ [_ [H0 _]]]. contradiction. Qed.

Corollary qcow2_data_file_rejected :
  N.testbit (qcow2_incompat b) qcow2_datafile_bit = true -> safety (fst (Insp_All.run F_qcow2 cs)) <> Pass.
Proof. intros H Hp. apply (qcow2_pass_iff cs Hb) in Hp. destruct Hp as [_ [_ [_ [_ [H0 _]]]]]. subst b. congruence. Qed.

(* each single unknown bit of the big-endian 64-bit word at 0x48, version 3 *)
Corollary qcow2_unknown_bit_rejected i :
  qcow2_version b = 3 -> QCOW_I_FEATURES_MAX_BIT <= i -> N.testbit (qcow2_incompat b) i = true ->
  safety (fst (Insp_All.run F_qcow2 cs)) <> Pass.
Proof.
  intros Hv Hi Ht Hp. apply (qcow2_pass_iff cs Hb) in Hp. destruct Hp as [_ [_ [_ [_ [_ Hu]]]]].
  specialize (Hu Hv i Hi). subst b. congruence.
Qed.

(* ... in particular every bit 4..63 *)
Corollary qcow2_unknown_bit_4_63_rejected i :
  qcow2_version b = 3 -> 4 <= i <= 63 -> N.testbit (qcow2_incompat b) i = true ->
  safety (fst (Insp_All.run F_qcow2 cs)) <> Pass.
Proof.
  intros Hv Hi. apply qcow2_unknown_bit_rejected; [exact Hv|].
  assert (H : QCOW_I_FEATURES_MAX_BIT <= 4) by (vm_compute; discriminate). lia.
Qed.

Corollary qcow2_other_version_rejected :
  qcow2_version b <> 2 -> qcow2_version b <> 3 -> safety (fst (Insp_All.run F_qcow2 cs)) <> Pass.
Proof. intros H2 H3 Hp. apply (qcow2_pass_iff cs Hb) in Hp. destruct Hp as [_ [_ [_ [[H|H] _]]]]; contradiction. Qed.

(* what the code does for version 2: the word at 0x48 is not a feature word there, and it is not examined,
   EXCEPT that check_data_file still looks at bit 2 of byte 79 *)
Corollary qcow2_v2_feature_bytes_ignored :
  512 <= blen b -> bslice 0 4 b = qcow2_magic -> qcow2_backing_offset b = 0 -> qcow2_version b = 2 ->
  N.testbit (qcow2_incompat b) qcow2_datafile_bit = false ->
  safety (fst (Insp_All.run F_qcow2 cs)) = Pass.
Proof.
  intros H1 H2 H3 H4 H5. apply (qcow2_pass_iff cs Hb). repeat split; try assumption; [left; exact H4|].
  intros H. subst b. lia.
Qed.

Corollary qcow2_truncated_refused : blen b < 512 -> safety (fst (Insp_All.run F_qcow2 cs)) = Refused.
Proof.
  intros H. rewrite run_qcow_static. cbn [fst safety]. apply safety_incomplete_refused.
  unfold Insp_Engine.complete, qst. cbn [i_regs forallb snd]. rewrite rcomplete_header. subst b. lia.
Qed.
End Qcow2.

(* ---------- clean images (the <- directions, named) ---------- *)
Theorem clean_image_accepted_qcow2 cs : all_bytes (concat cs) = true -> qcow2_safe (concat cs) -> safety (fst (Insp_All.run F_qcow2 cs)) = Pass.
Proof. intros Hb H. apply (qcow2_pass_iff cs Hb). exact H. Qed.
Theorem clean_image_accepted_luks cs : luks_safe (concat cs) -> safety (fst (Insp_All.run F_luks cs)) = Pass.
Proof. apply luks_pass_iff. Qed.
Theorem clean_image_accepted_gpt cs : gpt_safe (concat cs) -> safety (fst (Insp_All.run F_gpt cs)) = Pass.
Proof. apply gpt_pass_iff. Qed.
Theorem clean_image_accepted_vhd cs : vhd_ok (concat cs) -> safety (fst (Insp_All.run F_vhd cs)) = Pass.
Proof. apply vhd_pass_iff. Qed.
Theorem clean_image_accepted_vdi cs : vdi_ok (concat cs) -> safety (fst (Insp_All.run F_vdi cs)) = Pass.
Proof. apply vdi_pass_iff. Qed.
Theorem clean_image_accepted_iso cs : iso_ok (concat cs) -> safety (fst (Insp_All.run F_iso cs)) = Pass.
Proof. apply iso_pass_iff. Qed.

(* non-vacuity: concrete clean images *)
Definition zpad (n : nat) (b : bytes) : bytes := b ++ repeatN 0 (n - length b).
Definition ex_qcow2 : bytes := zpad 512 (qcow2_magic ++ [0; 0; 0; 3] ++ repeatN 0 16 ++ [0; 0; 0; 0; 0; 16; 0; 0] ++ repeatN 0 40 ++ [0; 0; 0; 0; 0; 0; 0; 11]).
Example ex_qcow2_safe : qcow2_safeb ex_qcow2 = true /\ all_bytes ex_qcow2 = true.
Proof. split; vm_compute; reflexivity. Qed.
Definition ex_luks : bytes := zpad 600 (luks_magic ++ [0; 1]).
Example ex_luks_safe : luks_safeb ex_luks = true. Proof. vm_compute. reflexivity. Qed.
Definition ex_gpt : bytes := repeatN 0 446 ++ [0; 0; 2; 0; 238; 255; 255; 255; 1; 0; 0; 0; 255; 255; 255; 255] ++ repeatN 0 48 ++ [85; 170].
Example ex_gpt_safe : gpt_safeb ex_gpt = true. Proof. vm_compute. reflexivity. Qed.
Definition ex_mbr : bytes := repeatN 0 446 ++ [128; 32; 33; 0; 131; 254; 255; 255; 0; 8; 0; 0; 0; 32; 3; 0] ++ repeatN 0 48 ++ [85; 170] ++ repeatN 7 100.
Example ex_mbr_safe : gpt_safeb ex_mbr = true. Proof. vm_compute. reflexivity. Qed.
Definition ex_vhd : bytes := zpad 512 vhd_magic.
Example ex_vhd_ok : vhd_okb ex_vhd = true. Proof. vm_compute. reflexivity. Qed.
Definition ex_vdi : bytes := zpad 512 (repeatN 60 64 ++ [127; 16; 218; 190]).
Example ex_vdi_ok : vdi_okb ex_vdi = true. Proof. vm_compute. reflexivity. Qed.
(* unsafe instances for the corollaries' hypotheses *)
Definition ex_qcow2_bit37 : bytes := zpad 512 (qcow2_magic ++ [0; 0; 0; 3] ++ repeatN 0 64 ++ [0; 0; 0; 32; 0; 0; 0; 0]).
Example ex_qcow2_bit37_unknown : qcow2_version ex_qcow2_bit37 = 3 /\ N.testbit (qcow2_incompat ex_qcow2_bit37) 37 = true /\ all_bytes ex_qcow2_bit37 = true.
Proof. repeat split; vm_compute; reflexivity. Qed.
Definition ex_qcow2_v0 : bytes := zpad 512 qcow2_magic.
Example ex_qcow2_v0_version : qcow2_version ex_qcow2_v0 = 0. Proof. vm_compute. reflexivity. Qed.
