(* Proofs/C01_Vhdx.v — C01 for VHDXInspector: outside the two known-finding zones the verdict of a
   run is the whole-buffer function [vhdx_spec] of the concatenated bytes, for ALL chunk lists. *)
Require Import OV.Base.Bytes OV.Base.Py OV.Base.Insp_Struct OV.Gen.Insp_Consts OV.Model.Insp_Engine.
Require Import OV.Model.Insp_Vhdx OV.Model.Insp_All OV.Model.C01_Vhdx.
Require Import OV.Proofs.Insp_Engine OV.Proofs.Insp_Static OV.Proofs.Insp_All.
Require Import OV.Proofs.C01_Vhdx_Tables OV.Proofs.C01_Vhdx_Step.
Open Scope N_scope.

(* the two tables of a stream, and the size of the metadata entry table *)
Notation rt_of st := (vx_region_table (bslice VX_HDR_OFF VX_HDR_LEN st)) (only parsing).
Notation mt_of mo st := (vx_meta_table (bslice mo VX_META_LEN st)) (only parsing).
Notation esz_of mo st := (vx_entries_size (bslice mo VX_META_LEN st)) (only parsing).

Lemma VX_META_LEN_val : VX_META_LEN = 65536.
Proof. reflexivity. Qed.

(* ------------------------------------------------------------------ the specification, in bslice form *)
Definition vx_verdict' (b : bytes) (e : option exn) (complete : bool) (vs : res Z) : verdict :=
  let fm := prefixb VHDX_MAGIC (bslice 0 VX_IDENT_LEN b) in
  mkVerdict e (Ok fm) complete vs (if complete then (if fm then Pass else Refused) else Refused).

Lemma vx_verdict_eq b e c vs : vx_verdict b e c vs = vx_verdict' b e c vs.
Proof. unfold vx_verdict, vx_verdict'. rewrite nslice_bslice. reflexivity. Qed.

Definition vds_size (vds : bytes) : res Z := do x <- unpack sf_vhdx_vds vds; Ok (Z.of_N (sint sf_vhdx_vds 0 x)).

Lemma vhdx_spec_eq b :
  vhdx_spec b =
  if blen b <? VX_HDR_END then vx_verdict' b None false (Ok 0%Z)
  else match rt_of b with
  | Exn e => vx_verdict' b (Some e) true (Ok 0%Z)
  | Ok None => vx_verdict' b None true (Ok 0%Z)
  | Ok (Some mo) =>
    match mt_of mo b with
    | Exn e => vx_verdict' b (Some e) (blen (bslice mo VX_META_LEN b) =? VX_META_LEN) (Ok 0%Z)
    | Ok None => vx_verdict' b None (blen (bslice mo VX_META_LEN b) =? VX_META_LEN) (Ok 0%Z)
    | Ok (Some (io, il)) =>
      let have := blen (bslice (mo + io) il b) =? il in
      vx_verdict' b None have (if have then vds_size (bslice (mo + io) il b) else Ok 0%Z)
    end
  end.
Proof.
  unfold vhdx_spec. rewrite flen_blen, nslice_bslice, !vx_verdict_eq.
  destruct (blen b <? VX_HDR_END); [reflexivity|].
  destruct (vx_region_table (bslice VX_HDR_OFF VX_HDR_LEN b)) as [[mo|]|e]; try (rewrite ?vx_verdict_eq; reflexivity).
  rewrite nslice_bslice, flen_blen.
  destruct (vx_meta_table (bslice mo VX_META_LEN b)) as [[[io il]|]|e]; rewrite ?vx_verdict_eq; try reflexivity.
  cbv zeta. rewrite ?vx_verdict_eq, !nslice_bslice, !flen_blen. reflexivity.
Qed.

(* ------------------------------------------------------------------ what the zones exclude *)
Definition good (b : bytes) : Prop := zone_vhdx_backptr b = false /\ zone_vhdx_metasig b = false.

Lemma zone_backptr_false b mo :
  zone_vhdx_backptr b = false -> VX_HDR_END <= blen b -> rt_of b = Ok (Some mo) ->
  (mo <? VX_HDR_END) || match mt_of mo b with Ok (Some (io, _)) => io <? esz_of mo b | _ => false end = false.
Proof.
  intros Hb Hlen Hrt. unfold zone_vhdx_backptr in Hb. cbv zeta in Hb. rewrite flen_blen, nslice_bslice in Hb.
  rewrite Hrt in Hb. rewrite nslice_bslice in Hb.
  replace (VX_HDR_END <=? blen b) with true in Hb by lia. rewrite andb_true_l in Hb. exact Hb.
Qed.

Lemma zone_metasig_false b mo :
  zone_vhdx_metasig b = false -> VX_HDR_END <= blen b -> rt_of b = Ok (Some mo) ->
  (32 <=? blen (bslice mo VX_META_LEN b)) && negb (beq (bslice 0 8 (bslice mo VX_META_LEN b)) VHDX_META_SIG) = false.
Proof.
  intros Hb Hlen Hrt. unfold zone_vhdx_metasig in Hb. cbv zeta in Hb. rewrite flen_blen, nslice_bslice in Hb.
  rewrite Hrt in Hb. rewrite !nslice_bslice, flen_blen in Hb.
  replace (VX_HDR_END <=? blen b) with true in Hb by lia.
  rewrite andb_true_l in Hb. unfold VHDX_MT_MIN in Hb. exact Hb.
Qed.

Lemma good_forward b mo :
  good b -> VX_HDR_END <= blen b -> rt_of b = Ok (Some mo) ->
  VX_HDR_END <= mo /\
  (forall io il, mt_of mo b = Ok (Some (io, il)) -> esz_of mo b <= io) /\
  (forall e, mt_of mo b <> Exn e).
Proof.
  intros [Hb Hs] Hlen Hrt.
  pose proof (zone_backptr_false b mo Hb Hlen Hrt) as Hb'. pose proof (zone_metasig_false b mo Hs Hlen Hrt) as Hs'.
  apply orb_false_iff in Hb'. destruct Hb' as [Hmo Hio].
  split; [lia|]. split.
  - intros io il Hmt. rewrite Hmt in Hio. lia.
  - intros e Hmt.
    destruct (meta_table_exn _ _ Hmt) as [H32 Hsig].
    { rewrite blen_bslice. lia. }
    rewrite Hsig in Hs'. cbn [negb] in Hs'. rewrite andb_true_r in Hs'. lia.
Qed.

(* ------------------------------------------------------------------ the tables of a prefix *)
Lemma rt_of_app st x : VX_HDR_END <= blen st -> rt_of (st ++ x) = rt_of st.
Proof. intros H. rewrite bslice_app_le; [reflexivity|]. unfold VX_HDR_OFF, VX_HDR_LEN, VX_HDR_END in *. lia. Qed.

Lemma mt_of_app mo st x :
  (mt_of mo st = Ok None /\
   (blen (bslice mo VX_META_LEN st) < 32 \/ (32 <= blen (bslice mo VX_META_LEN st) /\ blen (bslice mo VX_META_LEN st) < esz_of mo st)))
  \/ mt_of mo (st ++ x) = mt_of mo st.
Proof.
  destruct (bslice_prefix mo VX_META_LEN st x) as [y Hy]. rewrite Hy. apply meta_table_prefix.
Qed.

Lemma esz_of_app mo st x : 32 <= blen (bslice mo VX_META_LEN st) -> esz_of mo (st ++ x) = esz_of mo st.
Proof.
  intros H. destruct (bslice_prefix mo VX_META_LEN st x) as [y Hy]. rewrite Hy. apply entries_size_prefix. exact H.
Qed.

(* something decided on a prefix stays decided *)
Lemma mt_of_decided mo st x r : mt_of mo st = r -> r <> Ok None -> mt_of mo (st ++ x) = r.
Proof.
  intros H Hn. destruct (mt_of_app mo st x) as [[H0 _]|H1]; [congruence|]. rewrite H1. exact H.
Qed.

(* ------------------------------------------------------------------ the verdict of a tracked state *)
Definition vfin (skel : skeleton) (st : bytes) : ist unit :=
  mkIst (blen st) (fill_regs 0 skel st) (length skel) true [K_null] tt.

Lemma finish_vst skel st : Insp_Engine.finish (vst skel st) = vfin skel st.
Proof. unfold Insp_Engine.finish, vst, vfin. cbn [i_pos i_regs i_next i_checks i_ext]. rewrite finish_fill. reflexivity. Qed.

Definition vverdict (s : ist unit) (e : option exn) : verdict := verdict_of (I_unit F_vhdx s, e).

Definition rcomp (off len : N) (st : bytes) : bool := blen (bslice off len st) =? len.

Lemma rcomplete_mk id off len st :
  rcomplete (mkRegion id false off len None (bslice off len st) false) = rcomp off len st.
Proof. unfold rcomplete, base_complete, rcomp. cbn [r_end r_min r_len r_data]. rewrite flen_blen. apply N.eqb_sym. Qed.

Lemma rcomp_true off len st : off + len <= blen st -> rcomp off len st = true.
Proof. intros H. unfold rcomp. rewrite blen_bslice. lia. Qed.

Lemma complete_SK0 st : Insp_Engine.complete (vfin SK0 st) = (VX_HDR_END <=? blen st).
Proof.
  unfold Insp_Engine.complete, vfin, SK0. cbn [i_regs fill_regs forallb snd rs_off rs_len].
  rewrite !rcomplete_mk. unfold rcomp. rewrite !blen_bslice.
  unfold VX_IDENT_LEN, VX_HDR_LEN, VX_HDR_OFF, VX_HDR_END.
  destruct (262144 <=? blen st) eqn:H; lia.
Qed.

Lemma complete_SK1 mo L st : VX_HDR_END <= blen st ->
  Insp_Engine.complete (vfin (SK1 mo L) st) = rcomp mo L st.
Proof.
  intros H. unfold Insp_Engine.complete, vfin, SK1, SK0. cbn [app i_regs fill_regs forallb snd rs_off rs_len].
  rewrite !rcomplete_mk. rewrite !rcomp_true by (unfold VX_IDENT_LEN, VX_HDR_LEN, VX_HDR_OFF, VX_HDR_END in *; lia).
  cbn [andb]. apply andb_true_r.
Qed.

Lemma complete_SK2 mo L vo il st : VX_HDR_END <= blen st -> mo + L <= blen st ->
  Insp_Engine.complete (vfin (SK2 mo L vo il) st) = rcomp vo il st.
Proof.
  intros H HL. unfold Insp_Engine.complete, vfin, SK2, SK1, SK0. cbn [app i_regs fill_regs forallb snd rs_off rs_len].
  rewrite !rcomplete_mk. rewrite !rcomp_true by (unfold VX_IDENT_LEN, VX_HDR_LEN, VX_HDR_OFF, VX_HDR_END in *; lia).
  cbn [andb]. apply andb_true_r.
Qed.

(* the safety result of a VHDX inspector state: complete, signature, the one null check *)
Lemma safety_vfin skel st fm :
  f_match vhdx_fmt (vfin skel st) = Ok fm ->
  safety_check vhdx_fmt (vfin skel st) =
  if Insp_Engine.complete (vfin skel st) then (if fm then Pass else Refused) else Refused.
Proof.
  intros Hm. unfold safety_check. rewrite Hm. destruct (Insp_Engine.complete (vfin skel st)); cbn [negb]; [|reflexivity].
  destruct fm; reflexivity.
Qed.

Lemma verdict_vfin skel st e fm c vs :
  f_match vhdx_fmt (vfin skel st) = Ok fm -> Insp_Engine.complete (vfin skel st) = c -> f_vsize vhdx_fmt (vfin skel st) = vs ->
  vverdict (vfin skel st) e = mkVerdict e (Ok fm) c vs (if c then (if fm then Pass else Refused) else Refused).
Proof.
  intros Hm Hc Hv. unfold vverdict, verdict_of. cbn [fst snd format_match complete virtual_size safety ufmt].
  rewrite (safety_vfin skel st fm Hm), Hm, Hc, Hv. reflexivity.
Qed.

Lemma ident_app st x : VX_IDENT_LEN <= blen st -> bslice 0 VX_IDENT_LEN (st ++ x) = bslice 0 VX_IDENT_LEN st.
Proof. intros H. apply bslice_app_le. lia. Qed.

(* the state left behind by the region-table ImageFormatError, seen from the whole stream *)
Lemma verdict_SK0_any st x e c :
  (c = true -> VX_HDR_END <= blen st) -> Insp_Engine.complete (vfin SK0 st) = c ->
  (VX_IDENT_LEN <= blen st \/ x = []) ->
  vverdict (vfin SK0 st) e = vx_verdict' (st ++ x) e c (Ok 0%Z).
Proof.
  intros _ Hc Hx. unfold vx_verdict'.
  assert (Hi : bslice 0 VX_IDENT_LEN (st ++ x) = bslice 0 VX_IDENT_LEN st).
  { destruct Hx as [H| ->]; [apply ident_app; exact H | rewrite app_nil_r; reflexivity]. }
  rewrite Hi. apply verdict_vfin; [reflexivity | exact Hc | reflexivity].
Qed.

(* ------------------------------------------------------------------ tracked states *)
(* [tracked st skel]: the skeleton is the one the tables of the stream [st] call for *)
Inductive tracked (st : bytes) : skeleton -> Prop :=
| T_early : blen st < VX_HDR_END -> tracked st SK0
| T_none : VX_HDR_END <= blen st -> rt_of st = Ok None -> tracked st SK0
| T_meta mo : VX_HDR_END <= blen st -> rt_of st = Ok (Some mo) -> mt_of mo st = Ok None ->
              tracked st (SK1 mo VX_META_LEN)
| T_vds mo L io il : VX_HDR_END <= blen st -> rt_of st = Ok (Some mo) -> mt_of mo st = Ok (Some (io, il)) ->
              mo + L <= blen st -> tracked st (SK2 mo L (mo + io) il).

(* the verdict of a tracked state after finish is the specification of the stream *)
Lemma verdict_tracked st skel : tracked st skel -> vverdict (vfin skel st) None = vhdx_spec st.
Proof.
  intros HT. rewrite vhdx_spec_eq. destruct HT as [H|H Hrt|mo H Hrt Hmt|mo L io il H Hrt Hmt HL].
  - replace (blen st <? VX_HDR_END) with true by lia.
    rewrite <- (app_nil_r st) at 2. apply verdict_SK0_any; [lia| |right; reflexivity].
    rewrite complete_SK0. lia.
  - replace (blen st <? VX_HDR_END) with false by lia. rewrite Hrt.
    rewrite <- (app_nil_r st) at 2. apply verdict_SK0_any; [lia| |right; reflexivity].
    rewrite complete_SK0. lia.
  - replace (blen st <? VX_HDR_END) with false by lia. rewrite Hrt, Hmt. unfold vx_verdict'.
    assert (A1 : f_match vhdx_fmt (vfin (SK1 mo VX_META_LEN) st) = Ok (prefixb VHDX_MAGIC (bslice 0 VX_IDENT_LEN st))) by reflexivity.
    assert (A3 : f_vsize vhdx_fmt (vfin (SK1 mo VX_META_LEN) st) = Ok 0%Z) by reflexivity.
    rewrite (verdict_vfin (SK1 mo VX_META_LEN) st None _ _ _ A1 (complete_SK1 mo VX_META_LEN st H) A3). reflexivity.
  - replace (blen st <? VX_HDR_END) with false by lia. rewrite Hrt, Hmt. cbv zeta. unfold vx_verdict'.
    assert (A1 : f_match vhdx_fmt (vfin (SK2 mo L (mo + io) il) st) = Ok (prefixb VHDX_MAGIC (bslice 0 VX_IDENT_LEN st))) by reflexivity.
    assert (A3 : f_vsize vhdx_fmt (vfin (SK2 mo L (mo + io) il) st)
                 = if rcomp (mo + io) il st then vds_size (bslice (mo + io) il st) else Ok 0%Z).
    { cbn [f_vsize vhdx_fmt]. unfold vhdx_vsize.
      change (has_region R_vds (vfin (SK2 mo L (mo + io) il) st)) with true. cbn [negb].
      change (get_region R_vds (vfin (SK2 mo L (mo + io) il) st))
        with (Ok (A:=region) (mkRegion 3 false (mo + io) il None (bslice (mo + io) il st) false)).
      cbn [bind]. rewrite rcomplete_mk.
      destruct (rcomp (mo + io) il st); reflexivity. }
    rewrite (verdict_vfin (SK2 mo L (mo + io) il) st None _ _ _ A1 (complete_SK2 mo L (mo + io) il st H HL) A3). reflexivity.
Qed.

(* ------------------------------------------------------------------ one chunk keeps a state tracked *)
Lemma bslice_found_len mo st io il :
  mt_of mo st = Ok (Some (io, il)) ->
  mo + blen (bslice mo VX_META_LEN st) <= blen st /\ esz_of mo st <= blen (bslice mo VX_META_LEN st).
Proof.
  intros H. destruct (meta_table_found _ _ _ H) as (H32 & Hes & _).
  split; [|exact Hes]. rewrite blen_bslice in *. lia.
Qed.

(* what one chunk does to a tracked state when the whole stream [st ++ c ++ rest] is outside the zones:
   either a tracked state of [st ++ c], or the region-table error with the state it leaves *)
Lemma step_tracked st skel c rest :
  tracked st skel -> good (st ++ c ++ rest) ->
  (exists skel', eat_chunk vhdx_fmt (vst skel st) c = (vst skel' (st ++ c), None) /\ tracked (st ++ c) skel')
  \/ (exists e, eat_chunk vhdx_fmt (vst skel st) c = (vst SK0 (st ++ c), Some e) /\
                VX_HDR_END <= blen (st ++ c) /\ rt_of (st ++ c) = Exn e).
Proof.
  intros HT Hgood. rewrite app_assoc in Hgood.
  (* facts about the prefix st ++ c inherited from the whole stream *)
  assert (Hfw : forall mo, VX_HDR_END <= blen (st ++ c) -> rt_of (st ++ c) = Ok (Some mo) ->
                VX_HDR_END <= mo /\
                (forall io il, mt_of mo (st ++ c) = Ok (Some (io, il)) -> esz_of mo (st ++ c) <= io) /\
                (forall e, mt_of mo (st ++ c) <> Exn e)).
  { intros mo Hl Hrt.
    assert (Hl' : VX_HDR_END <= blen ((st ++ c) ++ rest)) by (rewrite blen_app; lia).
    assert (Hrt' : rt_of ((st ++ c) ++ rest) = Ok (Some mo)) by (rewrite rt_of_app by exact Hl; exact Hrt).
    destruct (good_forward _ mo Hgood Hl' Hrt') as (G1 & G2 & G3).
    split; [exact G1|]. split.
    - intros io il Hmt.
      assert (Hmt' : mt_of mo ((st ++ c) ++ rest) = Ok (Some (io, il))) by (apply mt_of_decided; [exact Hmt | discriminate]).
      specialize (G2 io il Hmt'). destruct (bslice_found_len _ _ _ _ Hmt) as [_ Hes].
      rewrite esz_of_app in G2; [exact G2|]. pose proof (entries_size_ge (bslice mo VX_META_LEN (st ++ c))). lia.
    - intros e Hmt. apply (G3 e). apply mt_of_decided; [exact Hmt | discriminate]. }
  (* the outcome once the metadata region exists *)
  assert (Hafter : forall mo, VX_HDR_END <= blen (st ++ c) -> rt_of (st ++ c) = Ok (Some mo) ->
            exists skel', after_meta mo VX_META_LEN (st ++ c) = (vst skel' (st ++ c), None) /\ tracked (st ++ c) skel').
  { intros mo Hl Hrt. destruct (Hfw mo Hl Hrt) as (_ & _ & G3). unfold after_meta.
    destruct (mt_of mo (st ++ c)) as [[[io il]|]|e] eqn:Hmt.
    - eexists. split; [reflexivity|]. destruct (bslice_found_len _ _ _ _ Hmt) as [HL _].
      apply T_vds; assumption.
    - eexists. split; [reflexivity|]. apply T_meta; assumption.
    - exfalso. exact (G3 e eq_refl). }
  assert (Hbl : blen (st ++ c) = blen st + blen c) by apply blen_app.
  destruct HT as [H|H Hrt|mo H Hrt Hmt|mo L io il H Hrt Hmt HL].
  - (* header not complete before this chunk *)
    rewrite eat_chunk_SK0.
    + destruct (blen (st ++ c) <? VX_HDR_END) eqn:Hh.
      * left. exists SK0. split; [reflexivity|]. apply T_early. lia.
      * destruct (rt_of (st ++ c)) as [[mo|]|e] eqn:Hrt.
        -- left. apply Hafter; [lia | reflexivity].
        -- left. exists SK0. split; [reflexivity|]. apply T_none; [lia | exact Hrt].
        -- right. exists e. split; [reflexivity|]. split; [lia | reflexivity].
    + intros mo Hrt Hl. destruct (Hfw mo Hl Hrt) as (G1 & _ & _).
      split; [lia|]. intros io il _. lia.
  - (* header complete, no metadata entry: nothing ever changes *)
    assert (Hrt' : rt_of (st ++ c) = Ok None) by (rewrite rt_of_app by exact H; exact Hrt).
    rewrite eat_chunk_SK0.
    + replace (blen (st ++ c) <? VX_HDR_END) with false by lia. rewrite Hrt'.
      left. exists SK0. split; [reflexivity|]. apply T_none; [lia | exact Hrt'].
    + intros mo Hrt2 _. congruence.
  - (* metadata region capturing *)
    assert (Hl : VX_HDR_END <= blen (st ++ c)) by lia.
    assert (Hrt' : rt_of (st ++ c) = Ok (Some mo)) by (rewrite rt_of_app by exact H; exact Hrt).
    rewrite eat_chunk_SK1; [left; apply Hafter; assumption|].
    intros io il Hmt'.
    destruct (Hfw mo Hl Hrt') as (G1 & G2 & _). specialize (G2 io il Hmt').
    destruct (bslice_found_len _ _ _ _ Hmt') as [_ Hes'].
    pose proof (entries_size_ge (bslice mo VX_META_LEN (st ++ c))) as Hge.
    (* before the chunk the table was not decided: fewer than entries_size bytes of it had arrived *)
    destruct (mt_of_app mo st c) as [[_ Hshort]|Hsame]; [|rewrite Hmt in Hsame; congruence].
    rewrite blen_bslice in Hshort. pose proof VX_META_LEN_val as HML.
    destruct Hshort as [Hs|[Hs1 Hs2]].
    + lia.
    + rewrite <- (esz_of_app mo st c) in Hs2 by (rewrite blen_bslice; lia).
      rewrite blen_bslice in Hes'. lia.
  - (* everything found *)
    rewrite eat_chunk_SK2. left. eexists. split; [reflexivity|].
    apply T_vds; [lia | rewrite rt_of_app by exact H; exact Hrt | apply mt_of_decided; [exact Hmt | discriminate] | lia].
Qed.

(* ------------------------------------------------------------------ the whole run *)
(* the region-table ImageFormatError ends the run; what it leaves is what the specification says *)
Lemma verdict_rt_error st x e :
  VX_HDR_END <= blen st -> rt_of st = Exn e -> vverdict (vfin SK0 st) (Some e) = vhdx_spec (st ++ x).
Proof.
  intros Hl Hrt. rewrite vhdx_spec_eq.
  assert (E : (blen (st ++ x) <? VX_HDR_END) = false) by (rewrite blen_app; lia).
  rewrite E. rewrite rt_of_app by exact Hl. rewrite Hrt.
  apply verdict_SK0_any; [lia | rewrite complete_SK0; lia |].
  left. unfold VX_IDENT_LEN, VX_HDR_END in *. lia.
Qed.

Lemma run_tracked : forall cs st skel,
  tracked st skel -> good (st ++ concat cs) ->
  let '(s, e) := eat_all vhdx_fmt (vst skel st) cs in
  vverdict (Insp_Engine.finish s) e = vhdx_spec (st ++ concat cs).
Proof.
  induction cs as [|c t IH]; intros st skel HT Hgood; cbn [eat_all concat].
  - rewrite app_nil_r, finish_vst. apply verdict_tracked. exact HT.
  - destruct (step_tracked st skel c (concat t) HT Hgood) as [(skel' & He & HT')|(e & He & Hl & Hrt)]; rewrite He.
    + rewrite app_assoc. apply IH; [exact HT' | rewrite <- app_assoc; exact Hgood].
    + rewrite finish_vst, app_assoc. apply verdict_rt_error; assumption.
Qed.

Lemma eat_list_vhdx cs s :
  eat_list (I_unit F_vhdx s) cs = (let '(s', e) := eat_all vhdx_fmt s cs in (I_unit F_vhdx s', e)).
Proof.
  revert s. induction cs as [|c t IH]; intros s; cbn [eat_list eat_all]; [reflexivity|].
  cbn [eat ufmt]. destruct (eat_chunk vhdx_fmt s c) as [s' [e|]]; [reflexivity|]. apply IH.
Qed.

(* vhdx_refines_spec: for ALL byte strings outside the two zones and ALL chunk lists *)
Theorem vhdx_refines_spec b cs :
  zone_vhdx_backptr b = false -> zone_vhdx_metasig b = false -> concat cs = b ->
  verdict_of (run F_vhdx cs) = vhdx_spec b.
Proof.
  intros Hb Hs Hc. subst b. unfold run. cbn [init ufmt]. rewrite eat_list_vhdx, vhdx_init.
  assert (HT : tracked [] SK0) by (apply T_early; reflexivity).
  pose proof (run_tracked cs [] SK0 HT (conj Hb Hs)) as H. cbn [app] in H.
  destruct (eat_all vhdx_fmt (vst SK0 []) cs) as [s e]. exact H.
Qed.

Corollary vhdx_chunking_independent cs1 cs2 :
  zone_vhdx_backptr (concat cs1) = false -> zone_vhdx_metasig (concat cs1) = false ->
  concat cs1 = concat cs2 -> verdict_of (run F_vhdx cs1) = verdict_of (run F_vhdx cs2).
Proof.
  intros Hb Hs Hc. rewrite (vhdx_refines_spec (concat cs1) cs1 Hb Hs eq_refl).
  rewrite (vhdx_refines_spec (concat cs1) cs2 Hb Hs (eq_sym Hc)). reflexivity.
Qed.

Corollary vhdx_empty_chunks_irrelevant cs :
  zone_vhdx_backptr (concat cs) = false -> zone_vhdx_metasig (concat cs) = false ->
  verdict_of (run F_vhdx (filter nonempty cs)) = verdict_of (run F_vhdx cs).
Proof.
  intros Hb Hs. symmetry. apply vhdx_chunking_independent; [exact Hb | exact Hs |].
  symmetry. apply concat_filter_nonempty.
Qed.
