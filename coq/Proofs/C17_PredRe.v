(* Proofs/C17_PredRe.v — what re.match(PREDICATE, s) computes, for every regex of the shape
        ^ W* (o1|o2|...|on) W* (N+) W* $        with literal alternatives o_i
   (recognised by [pred_parts]): a complete functional description [pred_split] of the
   backtracking matcher's answer, groups included.  Side conditions ([pred_ok]): every
   alternative is non-empty and starts outside W, W and N are disjoint, '\n' is in W. *)
Require Import OV.Base.Bytes OV.Base.PyInt OV.Base.Regex.
Require Import OV.Proofs.C11_Regex OV.Proofs.C04_Regex OV.Proofs.C17_Regex.
Open Scope N_scope.

Fixpoint cset_eqb (a b : cset) : bool :=
  match a, b with
  | [], [] => true
  | (x, y) :: a', (u, v) :: b' => (x =? u) && (y =? v) && cset_eqb a' b'
  | _, _ => false
  end.
Lemma cset_eqb_eq a b : cset_eqb a b = true -> a = b.
Proof.
  revert b. induction a as [|[x y] a IH]; intros [|[u v] b] H; cbn in H; try discriminate; [reflexivity|].
  apply andb_true_iff in H. destruct H as [H H3]. apply andb_true_iff in H. destruct H as [H1 H2].
  apply N.eqb_eq in H1, H2. subst. f_equal. auto.
Qed.

Definition pred_parts (r : re) : option (cset * list str * cset) :=
  match r with
  | Seq Bol (Seq (Rep w1 0%nat None) (Seq (Group 1%nat a) (Seq (Rep w2 0%nat None)
      (Seq (Group 2%nat (Rep n 1%nat None)) (Seq (Rep w3 0%nat None) Eol))))) =>
      match alts_of a with
      | Some l => if cset_eqb w1 w2 && cset_eqb w1 w3 then Some (w1, l, n) else None
      | None => None
      end
  | _ => None
  end.

Definition pred_ok (ws : cset) (ops : list str) (nw : cset) : bool :=
  forallb (fun o => match o with [] => false | c :: _ => negb (cmem c ws) end) ops
  && cset_disj ws nw && cmem 10 ws.

Section Pred.
Variables (r : re) (ws : cset) (ops : list str) (nw : cset).
Hypothesis Hparts : pred_parts r = Some (ws, ops, nw).
Hypothesis Hok : pred_ok ws ops nw = true.

Lemma pr_shape : exists a, r = Seq Bol (Seq (Rep ws 0%nat None) (Seq (Group 1%nat a) (Seq (Rep ws 0%nat None)
      (Seq (Group 2%nat (Rep nw 1%nat None)) (Seq (Rep ws 0%nat None) Eol))))) /\ alts_of a = Some ops.
Proof.
  unfold pred_parts in Hparts.
  destruct r as [| |x0 y0| | | | | |]; try discriminate. destruct x0; try discriminate.
  destruct y0 as [| |x1 y1| | | | | |]; try discriminate.
  destruct x1 as [| | | |w1 mn mx| | | |]; try discriminate. destruct mn; try discriminate. destruct mx; try discriminate.
  destruct y1 as [| |x2 y2| | | | | |]; try discriminate.
  destruct x2 as [| | | | | |i a| |]; try discriminate. destruct i as [|[|i]]; try discriminate.
  destruct y2 as [| |x3 y3| | | | | |]; try discriminate.
  destruct x3 as [| | | |w2 mn mx| | | |]; try discriminate. destruct mn; try discriminate. destruct mx; try discriminate.
  destruct y3 as [| |x4 y4| | | | | |]; try discriminate.
  destruct x4 as [| | | | | |i b| |]; try discriminate. destruct i as [|[|[|i]]]; try discriminate.
  destruct b as [| | | |n mn mx| | | |]; try discriminate. destruct mn as [|[|mn]]; try discriminate. destruct mx; try discriminate.
  destruct y4 as [| |x5 y5| | | | | |]; try discriminate.
  destruct x5 as [| | | |w3 mn mx| | | |]; try discriminate. destruct mn; try discriminate. destruct mx; try discriminate.
  destruct y5; try discriminate.
  destruct (alts_of a) as [l|] eqn:E; [|discriminate].
  destruct (cset_eqb w1 w2 && cset_eqb w1 w3) eqn:Q; [|discriminate].
  apply andb_true_iff in Q. destruct Q as [Q1 Q2]. apply cset_eqb_eq in Q1, Q2. subst w2 w3.
  injection Hparts as <- <- <-. exists a. split; [reflexivity|exact E].
Qed.

Lemma ok_op o : In o ops -> exists c t, o = c :: t /\ cmem c ws = false.
Proof.
  intros Hin. unfold pred_ok in Hok. apply andb_true_iff in Hok. destruct Hok as [H _]. apply andb_true_iff in H. destruct H as [H _].
  rewrite forallb_forall in H. specialize (H o Hin). destruct o as [|c t]; [discriminate|].
  exists c, t. split; [reflexivity|]. apply negb_true_iff in H. exact H.
Qed.
Lemma ok_disj c : cmem c ws = true -> cmem c nw = false.
Proof.
  unfold pred_ok in Hok. apply andb_true_iff in Hok. destruct Hok as [H _]. apply andb_true_iff in H. destruct H as [_ H].
  apply cset_disj_sound. exact H.
Qed.
Lemma ok_disj' c : cmem c nw = true -> cmem c ws = false.
Proof. intros H. destruct (cmem c ws) eqn:E; [|reflexivity]. rewrite (ok_disj c E) in H. discriminate. Qed.
Lemma ok_nl : cmem 10 ws = true.
Proof. unfold pred_ok in Hok. apply andb_true_iff in Hok. destruct Hok as [_ H]. exact H. Qed.

(* ---------- a greedy repeat whose continuation fails on every string starting inside the class ---------- *)
Lemma m_rep_greedy R cs mn s p g (k : cont R) :
  (forall c t q, cmem c cs = true -> k (c :: t) q g = None) ->
  m R (Rep cs mn None) s p g k =
    if Nat.leb mn (length (fst (span_cs cs s))) then k (snd (span_cs cs s)) (p + blen (fst (span_cs cs s))) g else None.
Proof.
  intros Hk. destruct (span_cs_spec cs s) as (E & A & B).
  set (v := fst (span_cs cs s)) in *. set (rest := snd (span_cs cs s)) in *.
  rewrite E at 1. destruct (Nat.leb mn (length v)) eqn:L.
  - apply Nat.leb_le in L. apply m_rep_exact; auto. intros j Hj.
    destruct (skipn j (v ++ rest)) as [|c t] eqn:Es.
    + exfalso. assert (length (skipn j (v ++ rest)) = 0%nat) by (rewrite Es; reflexivity).
      rewrite skipn_length, app_length in H. lia.
    + apply Hk. assert (Hc : nth_error (v ++ rest) j = Some c) by (rewrite <- hd_skipn, Es; reflexivity).
      rewrite nth_error_app1 in Hc by lia. apply nth_error_In in Hc.
      unfold all_in in A. rewrite forallb_forall in A. auto.
  - apply Nat.leb_gt in L. apply m_rep_short; auto.
Qed.

Lemma span_cs_hd cs c t : cmem c cs = false -> span_cs cs (c :: t) = ([], c :: t).
Proof. intros H. cbn [span_cs]. rewrite H. reflexivity. Qed.

Lemma span_cs_app cs v rest : all_in cs v = true -> hd_notin cs rest = true -> span_cs cs (v ++ rest) = (v, rest).
Proof.
  induction v as [|c v IH]; intros A B.
  - cbn [app]. destruct rest as [|c t]; [reflexivity|]. apply span_cs_hd. cbn [hd_notin] in B. apply negb_true_iff in B. exact B.
  - cbn [all_in forallb] in A. apply andb_true_iff in A. destruct A as [A1 A2].
    cbn [app span_cs]. rewrite A1, (IH A2 B). reflexivity.
Qed.

(* ---------- the tail  W* $ ---------- *)
Definition Kf : cont (N * groups) := fun _ p' g' => Some (p', g').
Definition tail_okb (s : str) : bool := match snd (span_cs ws s) with [] => true | _ => false end.

Lemma eol_fail2 R a b t q g (k : cont R) : m R Eol (a :: b :: t) q g k = None.
Proof. cbn [m]. destruct a as [|pa]; [reflexivity|]. do 4 (try (destruct pa as [pa|pa|]; try reflexivity)). Qed.
Lemma eol_fail1 R c q g (k : cont R) : c <> 10 -> m R Eol [c] q g k = None.
Proof. intros H. rewrite <- (app_nil_l [c]). cbn [m app]. rewrite (eol_case [c]). cbn [eol_ok]. replace (c =? 10) with false by lia. reflexivity. Qed.

Lemma m_Rep_unfold R cs mn mx s p g (k : cont R) :
  m R (Rep cs mn mx) s p g k = if Nat.ltb (run_len cs s mx) mn then None else try_counts R s p g k mn (run_len cs s mx).
Proof. reflexivity. Qed.

Lemma tail_eval s p g :
  m _ (Rep ws 0 None) s p g (fun s' p' g' => m _ Eol s' p' g' Kf) = if tail_okb s then Some (p + blen s, g) else None.
Proof.
  destruct (span_cs_spec ws s) as (E & A & B). unfold tail_okb.
  set (v := fst (span_cs ws s)) in *. set (rest := snd (span_cs ws s)) in *. rewrite E at 1.
  destruct rest as [|c t] eqn:Er.
  - rewrite (m_rep_max _ ws 0 None v [] p g _ (p + blen s, g)); auto; [lia|].
    cbn [m Kf]. rewrite E, app_nil_r. reflexivity.
  - cbn [hd_notin] in B. apply negb_true_iff in B.
    rewrite m_Rep_unfold. rewrite (C04_Regex.run_len_exact ws v (c :: t) None A eq_refl) by (left; cbn [hd_notin]; rewrite B; reflexivity).
    cbn [Nat.ltb Nat.leb]. apply try_counts_none; [lia|]. intros j Hj.
    destruct (Nat.eq_dec j (length v)) as [->|Hne].
    + rewrite skipn_app_exact. cbv beta. destruct t as [|c2 t]; [apply eol_fail1|apply eol_fail2].
      intros ->. rewrite ok_nl in B. discriminate.
    + rewrite skipn_app. replace (j - length v)%nat with 0%nat by lia. cbn [skipn].
      destruct (skipn j v) as [|x y] eqn:Es.
      * exfalso. assert (length (skipn j v) = 0%nat) by (rewrite Es; reflexivity). rewrite skipn_length in H. lia.
      * cbv beta. destruct y; cbn [app]; apply eol_fail2.
Qed.

Lemma tail_fail_nw c t q g : cmem c nw = true ->
  m _ (Rep ws 0 None) (c :: t) q g (fun s' p' g' => m _ Eol s' p' g' Kf) = None.
Proof.
  intros H. rewrite tail_eval. unfold tail_okb. rewrite span_cs_hd by (apply ok_disj'; exact H). reflexivity.
Qed.

(* ---------- W* (N+) W* $  after the operator ---------- *)
Definition split_after_op (s : str) : option (str * str * str) :=
  let a2 := fst (span_cs ws s) in let s2 := snd (span_cs ws s) in
  let ver := fst (span_cs nw s2) in let a3 := snd (span_cs nw s2) in
  match ver with [] => None | _ => if tail_okb a3 then Some (a2, ver, a3) else None end.

Definition K_after (g0 : groups) : cont (N * groups) :=
  fun s p g => m _ (Rep ws 0 None) s p g (fun s1 p1 g1 =>
    m _ (Group 2 (Rep nw 1 None)) s1 p1 g1 (fun s2 p2 g2 =>
      m _ (Seq (Rep ws 0 None) Eol) s2 p2 g2 Kf)).

Lemma ver_eval s p g :
  m _ (Group 2 (Rep nw 1 None)) s p g (fun s2 p2 g2 => m _ (Seq (Rep ws 0 None) Eol) s2 p2 g2 Kf) =
  let ver := fst (span_cs nw s) in let a3 := snd (span_cs nw s) in
  match ver with [] => None | _ => if tail_okb a3 then Some (p + blen ver + blen a3, (2%nat, (p, p + blen ver)) :: g) else None end.
Proof.
  change (m _ (Group 2 (Rep nw 1 None)) s p g (fun s2 p2 g2 => m _ (Seq (Rep ws 0 None) Eol) s2 p2 g2 Kf))
    with (m _ (Rep nw 1 None) s p g (fun s2 p2 g2 => m _ (Rep ws 0 None) s2 p2 ((2%nat, (p, p2)) :: g2) (fun s' p' g' => m _ Eol s' p' g' Kf))).
  rewrite m_rep_greedy.
  - cbv zeta. destruct (fst (span_cs nw s)) as [|c v]; [reflexivity|]. cbn [length Nat.leb]. apply tail_eval.
  - intros c t q Hc. apply tail_fail_nw. exact Hc.
Qed.

Lemma ver_fail_ws c t q g : cmem c ws = true ->
  m _ (Group 2 (Rep nw 1 None)) (c :: t) q g (fun s2 p2 g2 => m _ (Seq (Rep ws 0 None) Eol) s2 p2 g2 Kf) = None.
Proof. intros H. rewrite ver_eval. rewrite span_cs_hd by (apply ok_disj; exact H). reflexivity. Qed.

Lemma after_eval g0 s p g : K_after g0 s p g =
  match split_after_op s with
  | Some (a2, ver, a3) => Some (p + blen a2 + blen ver + blen a3, (2%nat, (p + blen a2, p + blen a2 + blen ver)) :: g)
  | None => None
  end.
Proof.
  unfold K_after. rewrite m_rep_greedy.
  - cbn [Nat.leb]. rewrite ver_eval. unfold split_after_op. cbv zeta.
    destruct (fst (span_cs nw (snd (span_cs ws s)))); [reflexivity|].
    destruct (tail_okb _); reflexivity.
  - intros c t q Hc. apply ver_fail_ws. exact Hc.
Qed.

(* ---------- the whole pattern ---------- *)
Definition pred_split (s : str) : option (str * str * str * str * str) :=
  let a1 := fst (span_cs ws s) in let s1 := snd (span_cs ws s) in
  first_some (fun o => if prefixb o s1 then
                         match split_after_op (skipn (length o) s1) with
                         | Some (a2, ver, a3) => Some (a1, o, a2, ver, a3)
                         | None => None
                         end
                       else None) ops.

Definition pred_groups (d : str * str * str * str * str) : N * groups :=
  match d with (a1, o, a2, ver, a3) =>
    (blen a1 + blen o + blen a2 + blen ver + blen a3,
     [(2%nat, (blen a1 + blen o + blen a2, blen a1 + blen o + blen a2 + blen ver)); (1%nat, (blen a1, blen a1 + blen o))])
  end.

Lemma first_some_ext {A B} (f g : A -> option B) l : (forall a, In a l -> f a = g a) -> first_some f l = first_some g l.
Proof.
  induction l as [|x l IH]; intros H; [reflexivity|]. cbn [first_some]. rewrite (H x (or_introl eq_refl)).
  destruct (g x); [reflexivity|]. apply IH. intros a Ha. apply H. right. exact Ha.
Qed.

Lemma first_some_in {A B} (f : A -> option B) l y : first_some f l = Some y -> exists a, In a l /\ f a = Some y.
Proof.
  induction l as [|x l IH]; [discriminate|]. cbn [first_some]. destruct (f x) eqn:E.
  - intros H. injection H as <-. exists x. split; [left; reflexivity|exact E].
  - intros H. destruct (IH H) as [a [Ha Hf]]. exists a. split; [right; exact Ha|exact Hf].
Qed.

Lemma first_some_map {A B C} (f : A -> option B) (h : B -> C) l :
  first_some (fun a => option_map h (f a)) l = option_map h (first_some f l).
Proof. induction l as [|x l IH]; [reflexivity|]. cbn [first_some]. destruct (f x); [reflexivity|exact IH]. Qed.

Theorem re_match_pred s : re_match r s = option_map pred_groups (pred_split s).
Proof.
  destruct pr_shape as [a [-> Ha]]. unfold re_match, match_at.
  change (m _ (Seq Bol ?x) s 0 [] ?k) with (m _ x s 0 [] k).
  change (m (N * groups) (Seq (Rep ws 0 None) (Seq (Group 1 a) (Seq (Rep ws 0 None) (Seq (Group 2 (Rep nw 1 None)) (Seq (Rep ws 0 None) Eol))))) s 0 [] (fun _ p' g' => Some (p', g')))
    with (m (N * groups) (Rep ws 0 None) s 0 [] (fun s1 p1 g1 => m _ a s1 p1 g1 (fun s2 p2 g2 => K_after [] s2 p2 ((1%nat, (p1, p2)) :: g2)))).
  rewrite m_rep_greedy.
  - cbn [Nat.leb]. rewrite (m_alts _ a ops) by exact Ha. unfold pred_split. cbv zeta.
    rewrite <- first_some_map. apply first_some_ext. intros o Ho. unfold alt_k.
    destruct (prefixb o (snd (span_cs ws s))); [|reflexivity].
    rewrite after_eval. destruct (split_after_op _) as [[[a2 ver] a3]|]; [|reflexivity].
    cbn [option_map pred_groups]. rewrite !N.add_0_l. reflexivity.
  - intros c t q Hc. rewrite (m_alts _ a ops) by exact Ha. apply first_some_none. intros o Ho. unfold alt_k.
    destruct (ok_op o Ho) as [x [y [-> Hx]]]. rewrite prefixb_false_hd; [reflexivity|]. intros ->. congruence.
Qed.

(* ---------- facts about pred_split ---------- *)
Lemma split_after_op_sound s a2 ver a3 : split_after_op s = Some (a2, ver, a3) ->
  s = a2 ++ ver ++ a3 /\ all_in ws a2 = true /\ all_in nw ver = true /\ ver <> [] /\ all_in ws a3 = true.
Proof.
  unfold split_after_op. cbv zeta.
  destruct (span_cs_spec ws s) as (E1 & A1 & B1). destruct (span_cs_spec nw (snd (span_cs ws s))) as (E2 & A2 & B2).
  destruct (fst (span_cs nw (snd (span_cs ws s)))) as [|c v] eqn:Ev; [discriminate|].
  unfold tail_okb. destruct (span_cs_spec ws (snd (span_cs nw (snd (span_cs ws s))))) as (E3 & A3 & B3).
  destruct (snd (span_cs ws (snd (span_cs nw (snd (span_cs ws s)))))) eqn:Et; [|discriminate].
  intros H. injection H as <- <- <-. rewrite app_nil_r in E3.
  split; [rewrite E1 at 1; f_equal; exact E2|]. split; [exact A1|]. split; [exact A2|]. split; [discriminate|].
  rewrite E3. exact A3.
Qed.

Lemma split_after_op_complete a2 ver a3 :
  all_in ws a2 = true -> all_in nw ver = true -> ver <> [] -> all_in ws a3 = true ->
  split_after_op (a2 ++ ver ++ a3) = Some (a2, ver, a3).
Proof.
  intros A2 Av Nv A3. unfold split_after_op. cbv zeta.
  assert (H1 : hd_notin ws (ver ++ a3) = true).
  { destruct ver as [|c v]; [congruence|]. cbn [app hd_notin]. cbn [all_in forallb] in Av. apply andb_true_iff in Av.
    rewrite (ok_disj' c) by apply Av. reflexivity. }
  assert (H2 : hd_notin nw a3 = true).
  { destruct a3 as [|c v]; [reflexivity|]. cbn [hd_notin]. cbn [all_in forallb] in A3. apply andb_true_iff in A3.
    rewrite (ok_disj c) by apply A3. reflexivity. }
  rewrite (span_cs_app ws a2 (ver ++ a3) A2 H1). cbn [fst snd].
  rewrite (span_cs_app nw ver a3 Av H2). cbn [fst snd].
  destruct ver as [|c v]; [congruence|]. unfold tail_okb.
  rewrite <- (app_nil_r a3) at 1. rewrite (span_cs_app ws a3 [] A3 eq_refl). reflexivity.
Qed.

Lemma pred_split_sound s a1 o a2 ver a3 : pred_split s = Some (a1, o, a2, ver, a3) ->
  s = a1 ++ o ++ a2 ++ ver ++ a3 /\ In o ops /\ all_in ws a1 = true /\ all_in ws a2 = true /\
  all_in nw ver = true /\ ver <> [] /\ all_in ws a3 = true.
Proof.
  unfold pred_split. cbv zeta. destruct (span_cs_spec ws s) as (E1 & A1 & _).
  set (s1 := snd (span_cs ws s)) in *. set (v1 := fst (span_cs ws s)) in *. clearbody s1 v1.
  intros H. apply first_some_in in H. destruct H as [x [Hx H]].
  destruct (prefixb x s1) eqn:P; [|discriminate].
  destruct (split_after_op (skipn (length x) s1)) as [[[b2 bv] b3]|] eqn:Sp; [|discriminate].
  injection H as <- <- <- <- <-. apply split_after_op_sound in Sp. destruct Sp as (E & R).
  apply prefixb_spec in P. destruct P as [t Ht]. rewrite Ht, skipn_app_exact in E. subst t.
  split; [rewrite E1, Ht; reflexivity|]. split; [exact Hx|]. split; [exact A1|exact R].
Qed.

Lemma first_some_find {A B} (P : A -> bool) (F : A -> option B) l a x :
  find P l = Some a -> F a = Some x -> first_some (fun o => if P o then F o else None) l = Some x.
Proof.
  induction l as [|y l IH]; [discriminate|]. cbn [find first_some]. destruct (P y) eqn:E.
  - intros H. injection H as ->. intros ->. reflexivity.
  - intros H Hx. apply IH; assumption.
Qed.

Lemma first_some_some {A B} (f : A -> option B) l a : In a l -> f a <> None -> first_some f l <> None.
Proof.
  induction l as [|y l IH]; [intros []|]. cbn [first_some]. intros [->|Hin] Hf.
  - destruct (f a); [discriminate|congruence].
  - destruct (f y); [discriminate|]. apply IH; assumption.
Qed.

Lemma hd_notin_op o rest : In o ops -> hd_notin ws (o ++ rest) = true.
Proof. intros Ho. destruct (ok_op o Ho) as [c [t [-> Hc]]]. cbn [app hd_notin]. rewrite Hc. reflexivity. Qed.

(* the parser's answer on a well-formed part *)
Theorem pred_split_complete a1 o a2 ver a3 :
  all_in ws a1 = true -> all_in ws a2 = true -> all_in nw ver = true -> ver <> [] -> all_in ws a3 = true ->
  find (fun x => prefixb x (o ++ a2 ++ ver ++ a3)) ops = Some o ->
  pred_split (a1 ++ o ++ a2 ++ ver ++ a3) = Some (a1, o, a2, ver, a3).
Proof.
  intros A1 A2 Av Nv A3 Hf. unfold pred_split. cbv zeta.
  assert (Ho : In o ops) by (apply find_some in Hf; apply Hf).
  rewrite (span_cs_app ws a1 _ A1 (hd_notin_op o _ Ho)). cbn [fst snd].
  apply (first_some_find (fun x => prefixb x (o ++ a2 ++ ver ++ a3))
           (fun x => match split_after_op (skipn (length x) (o ++ a2 ++ ver ++ a3)) with
                     | Some (b2, bv, b3) => Some (a1, x, b2, bv, b3) | None => None end) ops o); [exact Hf|].
  rewrite skipn_app_exact, split_after_op_complete by assumption. reflexivity.
Qed.

(* exactly which strings the pattern accepts *)
Theorem pred_split_accepts s :
  pred_split s <> None <->
  exists a1 o a2 ver a3, s = a1 ++ o ++ a2 ++ ver ++ a3 /\ In o ops /\ all_in ws a1 = true /\ all_in ws a2 = true /\
                         all_in nw ver = true /\ ver <> [] /\ all_in ws a3 = true.
Proof.
  split.
  - destruct (pred_split s) as [[[[[a1 o] a2] ver] a3]|] eqn:E; [|congruence]. intros _.
    exists a1, o, a2, ver, a3. apply pred_split_sound. exact E.
  - intros (a1 & o & a2 & ver & a3 & -> & Ho & A1 & A2 & Av & Nv & A3). unfold pred_split. cbv zeta.
    rewrite (span_cs_app ws a1 _ A1 (hd_notin_op o _ Ho)). cbn [fst snd].
    apply (first_some_some _ ops o Ho). rewrite prefixb_app, skipn_app_exact, split_after_op_complete by assumption. discriminate.
Qed.

(* ---------- families of rejected strings ---------- *)
(* no operator of the table after the leading blanks *)
Theorem reject_no_operator s :
  (forall o, In o ops -> prefixb o (snd (span_cs ws s)) = false) -> pred_split s = None.
Proof. intros H. unfold pred_split. cbv zeta. apply first_some_none. intros o Ho. rewrite (H o Ho). reflexivity. Qed.

Lemma split_after_blank a2 : all_in ws a2 = true -> split_after_op a2 = None.
Proof.
  intros A. unfold split_after_op. cbv zeta. rewrite <- (app_nil_r a2).
  rewrite (span_cs_app ws a2 [] A eq_refl). reflexivity.
Qed.

(* nothing after the operator (when no other operator of the table is a prefix of "o blanks") *)
Theorem reject_empty_version a1 o a2 :
  all_in ws a1 = true -> In o ops -> all_in ws a2 = true ->
  (forall x, In x ops -> prefixb x (o ++ a2) = true -> x = o) ->
  pred_split (a1 ++ o ++ a2) = None.
Proof.
  intros A1 Ho A2 Hu. unfold pred_split. cbv zeta.
  rewrite (span_cs_app ws a1 _ A1 (hd_notin_op o _ Ho)). cbn [fst snd].
  apply first_some_none. intros x Hx. destruct (prefixb x (o ++ a2)) eqn:P; [|reflexivity].
  rewrite (Hu x Hx P), skipn_app_exact, split_after_blank by exact A2. reflexivity.
Qed.

Lemma span_stops cs z : hd_notin cs z = true -> forall x, exists x1 x2, x = x1 ++ x2 /\ span_cs cs (x ++ z) = (x1, x2 ++ z).
Proof.
  intros Hz. induction x as [|c x IH].
  - exists [], []. split; [reflexivity|]. cbn [app]. destruct z as [|c t]; [reflexivity|].
    apply span_cs_hd. cbn [hd_notin] in Hz. apply negb_true_iff in Hz. exact Hz.
  - destruct IH as [x1 [x2 [E S]]]. cbn [app span_cs]. destruct (cmem c cs) eqn:Ec.
    + exists (c :: x1), x2. split; [cbn [app]; f_equal; exact E|]. rewrite S. reflexivity.
    + exists [], (c :: x). split; reflexivity.
Qed.

Lemma no_split_inner y' c w v2 a3 :
  cmem c nw = true -> w <> [] -> all_in ws w = true -> v2 <> [] -> all_in nw v2 = true ->
  split_after_op (y' ++ [c] ++ w ++ v2 ++ a3) = None.
Proof.
  intros Hc Nw Aw N2 A2. unfold split_after_op. cbv zeta.
  assert (Hw : hd_notin nw (w ++ v2 ++ a3) = true).
  { destruct w as [|x w]; [congruence|]. cbn [app hd_notin]. cbn [all_in forallb] in Aw. apply andb_true_iff in Aw.
    rewrite (ok_disj x) by apply Aw. reflexivity. }
  assert (H2 : hd_notin ws (v2 ++ a3) = true).
  { destruct v2 as [|x v]; [congruence|]. cbn [app hd_notin]. cbn [all_in forallb] in A2. apply andb_true_iff in A2.
    rewrite (ok_disj' x) by apply A2. reflexivity. }
  assert (H1 : hd_notin ws ([c] ++ w ++ v2 ++ a3) = true) by (cbn [app hd_notin]; rewrite (ok_disj' c Hc); reflexivity).
  destruct (span_stops ws _ H1 y') as [x1 [x2 [E1 S1]]]. rewrite S1. cbn [fst snd].
  replace (x2 ++ [c] ++ w ++ v2 ++ a3) with ((x2 ++ [c]) ++ w ++ v2 ++ a3) by (rewrite <- app_assoc; reflexivity).
  destruct (span_stops nw _ Hw (x2 ++ [c])) as [u1 [u2 [E2 S2]]]. rewrite S2. cbn [fst snd].
  destruct u1 as [|d u1]; [reflexivity|].
  replace (u2 ++ w ++ v2 ++ a3) with ((u2 ++ w) ++ v2 ++ a3) by (rewrite <- app_assoc; reflexivity).
  destruct (span_stops ws _ H2 (u2 ++ w)) as [t1 [t2 [E3 S3]]]. unfold tail_okb. rewrite S3. cbn [snd].
  destruct t2; destruct v2; try congruence; reflexivity.
Qed.

(* blanks inside the version text (when no operator of the table swallows the first fragment) *)
Theorem reject_inner_space a1 o a2 v1 w v2 a3 :
  all_in ws a1 = true -> In o ops -> v1 <> [] -> all_in nw v1 = true ->
  w <> [] -> all_in ws w = true -> v2 <> [] -> all_in nw v2 = true ->
  (forall x, In x ops -> prefixb x (o ++ a2 ++ v1 ++ w ++ v2 ++ a3) = true -> (length x < length (o ++ a2 ++ v1))%nat) ->
  pred_split (a1 ++ o ++ a2 ++ v1 ++ w ++ v2 ++ a3) = None.
Proof.
  intros A1 Ho N1 Av1 Nw Aw N2 Av2 Hlen. unfold pred_split. cbv zeta.
  rewrite (span_cs_app ws a1 _ A1 (hd_notin_op o _ Ho)). cbn [fst snd].
  apply first_some_none. intros x Hx. destruct (prefixb x (o ++ a2 ++ v1 ++ w ++ v2 ++ a3)) eqn:P; [|reflexivity].
  specialize (Hlen x Hx P).
  destruct (exists_last N1) as [v1' [c Ev1]].
  assert (Hc : cmem c nw = true).
  { unfold all_in in Av1. rewrite forallb_forall in Av1. apply Av1. rewrite Ev1. apply in_or_app. right. left. reflexivity. }
  set (Pfx := o ++ a2 ++ v1') in *.
  assert (ET : o ++ a2 ++ v1 ++ w ++ v2 ++ a3 = Pfx ++ [c] ++ w ++ v2 ++ a3) by (unfold Pfx; rewrite Ev1, <- !app_assoc; reflexivity).
  assert (EL : length (o ++ a2 ++ v1) = S (length Pfx)) by (unfold Pfx; rewrite Ev1, !app_length; cbn; lia).
  rewrite ET in *. apply prefixb_spec in P. destruct P as [t Ht].
  assert (Ex : Pfx = x ++ skipn (length x) Pfx).
  { assert (F : firstn (length x) (Pfx ++ [c] ++ w ++ v2 ++ a3) = x) by (rewrite Ht, firstn_app, firstn_all, Nat.sub_diag; cbn; apply app_nil_r).
    rewrite firstn_app in F. replace (length x - length Pfx)%nat with 0%nat in F by lia. cbn [firstn] in F. rewrite app_nil_r in F.
    rewrite <- F at 1. rewrite firstn_skipn. reflexivity. }
  rewrite Ex, <- app_assoc, skipn_app_exact. rewrite no_split_inner by assumption. reflexivity.
Qed.
End Pred.
