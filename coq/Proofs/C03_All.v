(* Proofs/C03_All.v — all ten formats through the wrapper, using the two refinement theorems
   C01_vhdx_refines_spec / C01_vmdk_refines_spec (outside the known-finding zones F1-F4):
     - the verdict held by EVERY slot of the closed wrapper is a function of the content (an inspector that
       raised is frozen by the wrapper; [run f cs] is exactly that: feeding stops at the first exception,
       finish() still runs, and the refinement theorems speak about this state);
     - format_match of the closed inspector IS the signature predicate, for all ten formats (the converse
       "signature present => matches" for vhdx and vmdk);
     - formats / format after close are functions of the content for every allowed_formats. *)
Require Import OV.Base.Bytes OV.Base.Py OV.Base.C06_WrapShape OV.Base.Insp_Struct.
Require Import OV.Gen.Insp_Consts OV.Gen.C06_Wrapper OV.Model.Insp_Engine OV.Model.Insp_All OV.Model.Insp_Vmdk.
Require Import OV.Model.Wrap OV.Model.C03 OV.Model.C01_Vhdx OV.Model.C01_Vmdk.
Require Import OV.Proofs.Insp_All OV.Proofs.C01_Vhdx_Tables OV.Proofs.C01_Vhdx OV.Proofs.C01_Vmdk_Run.
Require Import OV.Proofs.C03_Total OV.Proofs.C03_Sig OV.Proofs.Wrap OV.Proofs.C06 OV.Proofs.C03_Wrap OV.Proofs.C03_Stable OV.Proofs.C03_Props.
Open Scope N_scope.

(* the known-finding zones of a format, as one predicate on the bytes *)
Definition in_zone (f : fmt_id) (b : bytes) : bool :=
  match f with
  | F_vhdx => zone_vhdx_backptr b || zone_vhdx_metasig b          (* F2, F4 *)
  | F_vmdk => zone_vmdk_text b || zone_vmdk_shortfoot b           (* F1, F3 *)
  | _ => false
  end.

(* the verdict of inspector f as a function of the whole content *)
Definition spec_verdict_all (f : fmt_id) (b : bytes) : verdict :=
  match f with
  | F_vhdx => vhdx_spec b
  | F_vmdk => vmdk_spec b
  | _ => spec_verdict f b
  end.

Theorem run_verdict_all f cs : in_zone f (concat cs) = false -> verdict_of (run f cs) = spec_verdict_all f (concat cs).
Proof.
  intros Hz. destruct f; try (apply static_inspector_refines_spec; reflexivity); cbn [in_zone spec_verdict_all] in *;
    apply orb_false_iff in Hz; destruct Hz as [H1 H2].
  - apply vhdx_refines_spec; auto.
  - apply vmdk_refines_spec; auto.
Qed.

(* ------------------------------------------------------------------ format_match of the specifications *)
Lemma vhdx_spec_match b : v_match (vhdx_spec b) = Ok (prefixb VHDX_MAGIC b).
Proof.
  assert (H : forall e c vs, v_match (vx_verdict b e c vs) = Ok (prefixb VHDX_MAGIC b)).
  { intros. unfold vx_verdict. cbn [v_match]. f_equal. rewrite nslice_bslice. unfold bslice. rewrite bskip_0.
    apply prefixb_btake_le. vm_compute. discriminate. }
  unfold vhdx_spec. destruct (flen b <? VX_HDR_END); [apply H|].
  destruct (vx_region_table _) as [[mo|]|e]; try apply H.
  destruct (vx_meta_table _) as [[[io il]|]|e]; apply H.
Qed.

Lemma vmdk_spec_match b : v_match (vmdk_spec b) = Ok (prefixb VMDK_MAGIC b).
Proof.
  unfold vmdk_spec. destruct (blen b <? VMDK_MIN_SPARSE_HEADER); [reflexivity|].
  destruct (negb (beq (vh_sig b) VMDK_MAGIC_PP) || negb (ver_ok (vh_ver b))); [reflexivity|].
  destruct (negb (vh_desc_sec b * VMDK_SECTOR_A =? VMDK_DESC_OFFSET)); reflexivity.
Qed.

Lemma cmatch_verdict r : cmatch (fst r) = match v_match (verdict_of r) with Ok x => x | Exn _ => false end.
Proof. reflexivity. Qed.

(* outside zone F1 a text head that does not start with KDMV cannot exist: the vmdk signature is KDMV *)
Lemma vmdk_sig_outside_F1 b : zone_vmdk_text b = false -> sigb F_vmdk b = prefixb VMDK_MAGIC b.
Proof.
  intros Hz. cbn [sigb]. destruct (prefixb VMDK_MAGIC b) eqn:Hp; [reflexivity|]. cbn [orb].
  destruct (text_head b) eqn:Ht; [|reflexivity]. cbn [andb]. destruct (occ b); [|reflexivity]. exfalso.
  unfold text_head in Ht. apply andb_true_iff in Ht. destruct Ht as [H1 H2].
  assert (Hk : beq (btake 4 b) VMDK_MAGIC_PP = false).
  { rewrite prefixb_btake in Hp. exact Hp. }
  unfold zone_vmdk_text, valid_magic_ver in Hz. rewrite Hk in Hz. cbn [andb negb] in Hz.
  change VMDK_MIN_SPARSE_HEADER with vmdk_text_len in Hz. rewrite H1, H2 in Hz. cbn [andb] in Hz.
  rewrite orb_true_r in Hz. discriminate.
Qed.

(* C03_match_is_signature, all ten formats: outside the zones, format_match of the closed inspector IS
   the signature predicate of the content (for vhdx and vmdk this adds the converse: signature present =>
   the inspector matches, whatever the read sizes and whether or not it raised on the way) *)
Theorem match_is_signature_all f cs : in_zone f (concat cs) = false -> cmatch (fst (run f cs)) = sigb f (concat cs).
Proof.
  intros Hz. destruct (is_static f) eqn:Hs; [apply closed_static_match; exact Hs|].
  rewrite cmatch_verdict, (run_verdict_all f cs Hz).
  destruct f; try discriminate Hs; cbn [spec_verdict_all in_zone] in *.
  - rewrite vhdx_spec_match. reflexivity.
  - rewrite vmdk_spec_match. apply orb_false_iff in Hz. symmetry. apply vmdk_sig_outside_F1. tauto.
Qed.

(* ------------------------------------------------------------------ formats at the level of names *)
Definition name_formats (cpl mt : fmt_id -> bool) (fin : bool) (fs : list fmt_id) : option (list fmt_id) :=
  let nr := filter (fun f => negb (is_rawf f)) fs in
  if negb (forallb cpl nr) && negb fin then None
  else match filter mt nr with [] => Some (filter is_rawf fs) | l => Some l end.

Theorem formats_by_names (g : fmt_id -> cslot) fs ex fin : (forall f, s_name (g f) = fmt_name f) ->
  option_map (map (@s_name istate)) (cw_formats {| w_slots := map g fs; w_expected := ex; w_finished := fin |}) =
  option_map (map fmt_name) (name_formats (fun f => complete (s_insp (g f))) (fun f => cmatch (s_insp (g f))) fin fs).
Proof.
  intros Hn. unfold cw_formats, formats, all_complete, matches, non_raw, name_formats. cbn [w_slots w_finished]. cbv zeta.
  assert (Hr1 : forall f, is_raw_nr istate raw_lit_nonraw (g f) = is_rawf f).
  { intros f. unfold is_raw_nr, is_rawf. rewrite Hn, raw_lits_agree. reflexivity. }
  assert (Hr2 : forall f, is_raw istate raw_lit_raw (g f) = is_rawf f).
  { intros f. unfold is_raw, is_rawf. rewrite Hn. reflexivity. }
  rewrite !filter_map_comm, forallb_map_comm.
  rewrite (filter_ext (fun x => negb (is_raw_nr istate raw_lit_nonraw (g x))) (fun f => negb (is_rawf f))) by (intros f; rewrite Hr1; reflexivity).
  rewrite (filter_ext (fun x => is_raw istate raw_lit_raw (g x)) is_rawf) by exact Hr2.
  set (nr := filter (fun f => negb (is_rawf f)) fs).
  destruct (negb (forallb (fun x => complete (s_insp (g x))) nr) && negb fin); [reflexivity|].
  destruct (filter (fun x => cmatch (s_insp (g x))) nr) as [|f1 t]; cbn [map option_map]; rewrite !map_map;
    f_equal; [apply map_ext; exact Hn | f_equal; [apply Hn | apply map_ext; exact Hn]].
Qed.

Lemma name_format_ext cpl1 mt1 cpl2 mt2 fin fs :
  (forall f, In f fs -> cpl1 f = cpl2 f /\ mt1 f = mt2 f) -> name_format cpl1 mt1 fin fs = name_format cpl2 mt2 fin fs.
Proof.
  intros H. unfold name_format. cbv zeta. set (nr := filter (fun f => negb (is_rawf f)) fs).
  assert (Hin : forall f, In f nr -> In f fs) by (intros f Hf; subst nr; apply filter_In in Hf; tauto).
  rewrite (filter_ext_in mt1 mt2 nr) by (intros f Hf; apply H, Hin, Hf).
  assert (Hc : forallb cpl1 nr = forallb cpl2 nr).
  { clear - H Hin. induction nr as [|x t IH]; [reflexivity|]. cbn [forallb]. rewrite IH by (intros f Hf; apply Hin; right; exact Hf).
    destruct (H x (Hin x (or_introl eq_refl))) as [-> _]. reflexivity. }
  rewrite Hc. reflexivity.
Qed.
Lemma name_formats_ext cpl1 mt1 cpl2 mt2 fin fs :
  (forall f, In f fs -> cpl1 f = cpl2 f /\ mt1 f = mt2 f) -> name_formats cpl1 mt1 fin fs = name_formats cpl2 mt2 fin fs.
Proof.
  intros H. unfold name_formats. cbv zeta. set (nr := filter (fun f => negb (is_rawf f)) fs).
  assert (Hin : forall f, In f nr -> In f fs) by (intros f Hf; subst nr; apply filter_In in Hf; tauto).
  rewrite (filter_ext_in mt1 mt2 nr) by (intros f Hf; apply H, Hin, Hf).
  assert (Hc : forallb cpl1 nr = forallb cpl2 nr).
  { clear - H Hin. induction nr as [|x t IH]; [reflexivity|]. cbn [forallb]. rewrite IH by (intros f Hf; apply Hin; right; exact Hf).
    destruct (H x (Hin x (or_introl eq_refl))) as [-> _]. reflexivity. }
  rewrite Hc. reflexivity.
Qed.

(* ------------------------------------------------------------------ the wrapper verdict for all ten formats *)
(* what formats / format say after close(), from the content alone *)
Definition spec_match (f : fmt_id) (b : bytes) : bool := match v_match (spec_verdict_all f b) with Ok x => x | Exn _ => false end.
Definition spec_complete (f : fmt_id) (b : bytes) : bool := v_complete (spec_verdict_all f b).
Definition spec_format (allowed : list str) (b : bytes) : res (option str) :=
  show_name (name_format (fun f => spec_complete f b) (fun f => spec_match f b) true (allowed_fmts allowed)).
Definition spec_formats (allowed : list str) (b : bytes) : option (list str) :=
  option_map (map fmt_name) (name_formats (fun f => spec_complete f b) (fun f => spec_match f b) true (allowed_fmts allowed)).

Definition outside_zones (allowed : list str) (b : bytes) : Prop :=
  forall f, In f (allowed_fmts allowed) -> in_zone f b = false.

Theorem wrapper_verdict_all expected allowed cs w :
  read_and_closed expected allowed cs w -> outside_zones allowed (concat cs) ->
  (* every inspector of the collection: the verdict (escaped exception, format_match, complete, virtual_size,
     safety_check) of the state the wrapper holds is spec_verdict_all of the content *)
  (forall f, In f (allowed_fmts allowed) ->
     In (slot_closed cs f) (w_slots w) /\ verdict_of (run f cs) = spec_verdict_all f (concat cs)) /\
  cw_format_name w = spec_format allowed (concat cs) /\
  option_map (map (@s_name istate)) (cw_formats w) = spec_formats allowed (concat cs).
Proof.
  intros Hrc Hz. rewrite (read_and_closed_is _ _ _ _ Hrc).
  assert (Hpt : forall f, In f (allowed_fmts allowed) ->
            complete (s_insp (slot_closed cs f)) = spec_complete f (concat cs) /\
            cmatch (s_insp (slot_closed cs f)) = spec_match f (concat cs)).
  { intros f Hf. cbn [slot_closed s_insp]. unfold spec_complete, spec_match. rewrite <- (run_verdict_all f cs (Hz f Hf)). split; reflexivity. }
  split; [|split].
  - intros f Hf. split; [|apply run_verdict_all; apply Hz; exact Hf].
    cbn [closed_wrapper w_slots]. apply in_map. exact Hf.
  - unfold closed_wrapper. rewrite (format_by_names (slot_closed cs) _ _ _ (slot_closed_name cs)). unfold spec_format.
    f_equal. apply name_format_ext. exact Hpt.
  - unfold closed_wrapper. rewrite (formats_by_names (slot_closed cs) _ _ _ (slot_closed_name cs)). unfold spec_formats.
    f_equal. apply name_formats_ext. exact Hpt.
Qed.

Corollary wrapper_verdict_all_chunking expected allowed cs1 cs2 w1 w2 :
  read_and_closed expected allowed cs1 w1 -> read_and_closed expected allowed cs2 w2 ->
  concat cs1 = concat cs2 -> outside_zones allowed (concat cs1) ->
  cw_format_name w1 = cw_format_name w2 /\
  option_map (map (@s_name istate)) (cw_formats w1) = option_map (map (@s_name istate)) (cw_formats w2) /\
  (forall f, In f (allowed_fmts allowed) -> verdict_of (run f cs1) = verdict_of (run f cs2)).
Proof.
  intros H1 H2 Hc Hz.
  destruct (wrapper_verdict_all _ _ _ _ H1 Hz) as (A1 & B1 & C1).
  assert (Hz2 : outside_zones allowed (concat cs2)) by (rewrite <- Hc; exact Hz).
  destruct (wrapper_verdict_all _ _ _ _ H2 Hz2) as (A2 & B2 & C2).
  split; [rewrite B1, B2, Hc; reflexivity|]. split; [rewrite C1, C2, Hc; reflexivity|].
  intros f Hf. rewrite (proj2 (A1 f Hf)), (proj2 (A2 f Hf)), Hc. reflexivity.
Qed.

(* after close() only format_match counts (completeness is overridden by _finished): outside the zones the
   decision is the signature table of the content *)
Theorem closed_format_by_signatures expected allowed cs w :
  read_and_closed expected allowed cs w -> outside_zones allowed (concat cs) ->
  cw_format_name w = show_name (name_format (fun _ => true) (fun f => sigb f (concat cs)) true (allowed_fmts allowed)).
Proof.
  intros Hrc Hz. rewrite (read_and_closed_is _ _ _ _ Hrc). unfold closed_wrapper.
  rewrite (format_by_names (slot_closed cs) _ _ _ (slot_closed_name cs)). f_equal.
  unfold name_format. cbv zeta. rewrite !andb_false_r.
  set (nr := filter (fun f => negb (is_rawf f)) (allowed_fmts allowed)).
  rewrite (filter_ext_in (fun f => cmatch (s_insp (slot_closed cs f))) (fun f => sigb f (concat cs)) nr); [reflexivity|].
  intros f Hf. subst nr. apply filter_In in Hf. cbn [slot_closed s_insp]. apply match_is_signature_all. apply Hz. tauto.
Qed.
