(* Proofs/C02_VmdkRun.v — the run of the VMDK inspector on a stream with a valid sparse header
   (signature KDMV, version 1..3), for EVERY chunk list: the three phases of the object
     A  fewer than 64 bytes seen: header (0,512,min 64) and the provisional descriptor region (0, 2^20-1, min 4)
     B  header parsed: [footer region (last 1536 bytes) if gdOffset = GD_AT_END] and the descriptor region
        (512, min(desc_num*512, 2^20-1)) holding exactly stream[512 : 512+size]
   and what the object knows when safety_check() passes. *)
Require Import OV.Base.Bytes OV.Base.Py OV.Base.PyInt OV.Base.Str OV.Base.Insp_Struct OV.Gen.Insp_Consts OV.Model.Insp_Engine.
Require Import OV.Model.Insp_Vmdk OV.Model.Insp_All.
Require Import OV.Model.C02 OV.Proofs.C02_Engine OV.Proofs.C02_Bytes OV.Proofs.C02_Static OV.Proofs.C02_Checks OV.Proofs.C02_Vmdk.
Open Scope N_scope.

(* ---------- region and state shapes ---------- *)
Definition hreg (d : bytes) : region := mkRegion 0 false 0 512 (Some 64) d false.
Definition dreg0 (d : bytes) : region := mkRegion 1 false 0 VMDK_DESC_MAX_SIZE (Some 4) d false.
Definition freg (off : N) (d : bytes) : region := mkRegion 2 true off 1536 None d false.
Definition dreg (id : nat) (size : N) (d : bytes) : region := mkRegion id false 512 size None d false.

Definition stA (sofar p : bytes) (x : vx) : ist vx :=
  mkIst (blen sofar) [(R_header, hreg sofar); (R_descriptor, dreg0 p)] 2 false [K_descriptor] x.

Definition regsB (hd : bytes) (fo : option (N * bytes)) (size : N) (dd : bytes) : regions :=
  match fo with
  | Some (off, fd) => [(R_header, hreg hd); (R_footer, freg off fd); (R_descriptor, dreg 3 size dd)]
  | None => [(R_header, hreg hd); (R_descriptor, dreg 2 size dd)]
  end.
Definition stB (hd : bytes) (fo : option (N * bytes)) (size : N) (sofar : bytes) (x : vx) : ist vx :=
  mkIst (blen sofar) (regsB hd fo size (bslice 512 size sofar))
        (match fo with Some _ => 4%nat | None => 3%nat end) false
        (match fo with Some _ => [K_descriptor; K_footer] | None => [K_descriptor] end) x.

Lemma init_A : init_ist vmdk_fmt = stA [] [] (mkVx None VMDK_NOTFOUND).
Proof. reflexivity. Qed.

(* ---------- _parse_descriptor ---------- *)
Definition dparse (x : vx) (data : bytes) : vx :=
  let dd := match find VMDK_NUL data with Some i => ntake i data | None => data end in
  if negb (forallb is_ascii dd) then x else mkVx (Some (lower_ascii dd)) (vmdk_type_of (lower_ascii dd)).

Lemma set_ext_same {X} (s : ist X) : set_ext s (i_ext s) = s.
Proof. destruct s. reflexivity. Qed.

Lemma parse_descriptor_state (s : ist vx) d :
  rget R_descriptor (i_regs s) = Some d ->
  vmdk_parse_descriptor s = (set_ext s (dparse (i_ext s) (r_data d)), None).
Proof.
  intros H. unfold vmdk_parse_descriptor, get_region, dparse. rewrite H.
  destruct (negb (forallb is_ascii _)); [rewrite set_ext_same|]; reflexivity.
Qed.

(* ---------- the sparse header ---------- *)
Definition hdr_ok (h : bytes) : Prop :=
  vmdk_sig h = VMDK_MAGIC_PP /\ (vmdk_ver h = 1 \/ vmdk_ver h = 2 \/ vmdk_ver h = 3) /\ vmdk_desc_sec h * 512 = 512.
Definition wants_footer (h : bytes) : bool := vmdk_gd h =? gd_at_end.

Lemma fields64 x : 64 <= blen x ->
  vmdk_sig (bslice 0 64 x) = vmdk_sig x /\ vmdk_ver (bslice 0 64 x) = vmdk_ver x /\
  vmdk_desc_sec (bslice 0 64 x) = vmdk_desc_sec x /\ vmdk_desc_num (bslice 0 64 x) = vmdk_desc_num x /\
  vmdk_gd (bslice 0 64 x) = vmdk_gd x.
Proof.
  intros _. unfold vmdk_sig, vmdk_ver, vmdk_desc_sec, vmdk_desc_num, vmdk_gd, le_at. slices. repeat split.
Qed.

Lemma rcomplete_hreg d : rcomplete (hreg d) = (64 <=? blen d).
Proof. unfold rcomplete, base_complete, hreg. cbn [r_end r_min r_data]. rewrite flen_blen. reflexivity. Qed.
Lemma rcomplete_dreg0 d : rcomplete (dreg0 d) = (4 <=? blen d).
Proof. unfold rcomplete, base_complete, dreg0. cbn [r_end r_min r_data]. rewrite flen_blen. reflexivity. Qed.
Lemma rcomplete_freg off d : rcomplete (freg off d) = false.
Proof. unfold rcomplete, freg. cbn [r_end r_fin]. apply andb_false_r. Qed.
Lemma rcomplete_dreg id size d : rcomplete (dreg id size d) = (size =? blen d).
Proof. unfold rcomplete, base_complete, dreg. cbn [r_end r_min r_len r_data]. rewrite flen_blen. reflexivity. Qed.

(* post_process once the header is there and valid: the first half of the method is decided *)
Lemma vmdk_post_sparse (s : ist vx) hd :
  rget R_header (i_regs s) = Some (hreg hd) -> 64 <= blen hd -> hdr_ok hd ->
  vmdk_post s =
  match (if wants_footer hd && negb (has_region R_footer s)
         then match new_region R_footer (mkRspec true VMDK_FOOTER_LEN VMDK_FOOTER_LEN None) s with
              | (s', Some e) => (s', Some e) | (s', None) => add_check K_footer s' end
         else (s, None)) with
  | (s1, Some e) => (s1, Some e)
  | (s1, None) =>
    match get_region R_descriptor s1 with
    | Exn e => (s1, Some e)
    | Ok d => if r_off d =? 0
              then match delete_region R_descriptor s1 with
                   | (s2, Some e) => (s2, Some e)
                   | (s2, None) => new_region R_descriptor (mkRspec false 512 (dsize hd) None) s2 end
              else (s1, None)
    end
  end.
Proof.
  intros Hh Hl [Hsig [Hver Hsec]]. unfold vmdk_post. rewrite Hh. rewrite rcomplete_hreg.
  replace (64 <=? blen hd) with true by lia. cbn [negb].
  rewrite (parse_sparse_state s R_header (hreg hd) 0 Hh) by (cbn [r_data hreg]; lia).
  cbn zeta. cbn [r_data hreg].
  destruct (fields64 hd Hl) as [F1 [F2 [F3 [F4 F5]]]]. rewrite F1, F2, F3, F4, F5.
  rewrite Hsig, beq_refl. cbn [negb].
  unfold VMDK_VER_A, VMDK_VER_B, VMDK_VER_C.
  replace ((vmdk_ver hd =? 1) || (vmdk_ver hd =? 2) || (vmdk_ver hd =? 3)) with true by lia. cbn [negb].
  change VMDK_GD_AT_END with gd_at_end. fold (wants_footer hd).
  unfold VMDK_SECTOR_A, VMDK_SECTOR_B, VMDK_DESC_OFFSET. rewrite Hsec. cbn [N.eqb negb Pos.eqb].
  fold (dsize hd). reflexivity.
Qed.

(* ---------- phase B: one more chunk ---------- *)
Definition mkB (pos : N) hd fo size dd (x : vx) : ist vx :=
  mkIst pos (regsB hd fo size dd) (match fo with Some _ => 4%nat | None => 3%nat end) false
        (match fo with Some _ => [K_descriptor; K_footer] | None => [K_descriptor] end) x.

Definition fo_matches (hd : bytes) (fo : option (N * bytes)) : Prop :=
  wants_footer hd = match fo with Some _ => true | None => false end.

Lemma postB pos hd fo size dd x : 64 <= blen hd -> hdr_ok hd -> fo_matches hd fo ->
  vmdk_post (mkB pos hd fo size dd x) = (mkB pos hd fo size dd x, None).
Proof.
  intros Hl Hok Hfo. unfold fo_matches in Hfo.
  rewrite (vmdk_post_sparse _ hd); [|destruct fo as [[off fd]|]; reflexivity|exact Hl|exact Hok].
  rewrite Hfo. destruct fo as [[off fd]|]; reflexivity.
Qed.

Definition step_fo (pos : N) (c : bytes) (fo : option (N * bytes)) : option (N * bytes) :=
  match fo with
  | Some (off, fd) => let d := nlast 1536 (fd ++ c) in Some (pos - flen d, d)
  | None => None
  end.

Lemma dreg_static id size d : dreg id size d = static_region id (mkRspec false 512 size None) d.
Proof. reflexivity. Qed.

Lemma capture_regs_cons n r l c pos :
  capture_regs [] c pos ((n, r) :: l)
  = (n, if r_end r || negb (rcomplete r) then rcapture r c pos else r) :: capture_regs [] c pos l.
Proof. unfold capture_regs. cbn [map]. destruct (r_end r || negb (rcomplete r)); reflexivity. Qed.
Lemma capture_regs_nil only c pos : capture_regs only c pos [] = [].
Proof. reflexivity. Qed.
Lemma capture_only_cons o only n r l c pos :
  capture_regs (o :: only) c pos ((n, r) :: l)
  = (n, if negb (mem_rname n (o :: only)) then r
        else if r_end r || negb (rcomplete r) then rcapture r c pos else r) :: capture_regs (o :: only) c pos l.
Proof.
  unfold capture_regs. cbn [map]. destruct (negb (mem_rname n (o :: only))); [reflexivity|].
  destruct (r_end r || negb (rcomplete r)); reflexivity.
Qed.

Lemma captureB hd fo size sofar c : 64 <= blen hd ->
  capture_regs [] c (blen sofar + flen c) (regsB hd fo size (bslice 512 size sofar))
  = regsB hd (step_fo (blen sofar + flen c) c fo) size (bslice 512 size (sofar ++ c)).
Proof.
  intros Hl.
  assert (Hd : forall id, (if r_end (dreg id size (bslice 512 size sofar)) || negb (rcomplete (dreg id size (bslice 512 size sofar)))
                           then rcapture (dreg id size (bslice 512 size sofar)) c (blen sofar + flen c)
                           else dreg id size (bslice 512 size sofar))
                          = dreg id size (bslice 512 size (sofar ++ c))).
  { intros id. rewrite !dreg_static.
    pose proof (cap_fixed_slice id (mkRspec false 512 size None) sofar c eq_refl) as H. cbn zeta in H.
    cbn [rs_off rs_len] in H. cbn [static_region r_end rs_end orb].
    destruct (rcomplete (static_region id (mkRspec false 512 size None) (bslice 512 size sofar))); cbn [negb]; exact H. }
  assert (Hh : (if r_end (hreg hd) || negb (rcomplete (hreg hd)) then rcapture (hreg hd) c (blen sofar + flen c) else hreg hd) = hreg hd).
  { rewrite rcomplete_hreg. replace (64 <=? blen hd) with true by lia. reflexivity. }
  destruct fo as [[off fd]|]; unfold regsB, step_fo; rewrite !capture_regs_cons, capture_regs_nil, Hh, Hd; reflexivity.
Qed.

Definition dcomplete (size : N) (sofar : bytes) : bool := size =? blen (bslice 512 size sofar).

Lemma ids_regsB hd fo size dd dd' fo' :
  (match fo with Some _ => true | None => false end) = (match fo' with Some _ => true | None => false end) ->
  ids (regsB hd fo' size dd') = ids (regsB hd fo size dd).
Proof. destruct fo as [[? ?]|], fo' as [[? ?]|]; intros H; try discriminate; reflexivity. Qed.

Lemma step_fo_some pos c fo :
  (match fo with Some _ => true | None => false end) = (match step_fo pos c fo with Some _ => true | None => false end).
Proof. destruct fo as [[? ?]|]; reflexivity. Qed.

Lemma newlyB hd fo fo' size sofar sofar' :
  64 <= blen hd ->
  (match fo with Some _ => true | None => false end) = (match fo' with Some _ => true | None => false end) ->
  newly_complete (complete_ids (regsB hd fo size (bslice 512 size sofar))) (regsB hd fo' size (bslice 512 size sofar'))
  = if dcomplete size sofar' && negb (dcomplete size sofar) then [R_descriptor] else [].
Proof.
  intros Hl Hfo. unfold dcomplete.
  destruct fo as [[off fd]|], fo' as [[off' fd']|]; try discriminate;
    unfold regsB, complete_ids, newly_complete; cbn [filter snd fst map];
    rewrite ?rcomplete_hreg, ?rcomplete_freg, ?rcomplete_dreg; replace (64 <=? blen hd) with true by lia; cbn [andb];
    destruct (size =? blen (bslice 512 size sofar)); destruct (size =? blen (bslice 512 size sofar')); reflexivity.
Qed.

Theorem eat_B hd fo size sofar x c : 64 <= blen hd -> hdr_ok hd -> fo_matches hd fo ->
  eat_chunk vmdk_fmt (stB hd fo size sofar x) c =
  (stB hd (step_fo (blen sofar + flen c) c fo) size (sofar ++ c)
       (if dcomplete size (sofar ++ c) && negb (dcomplete size sofar) then dparse x (bslice 512 size (sofar ++ c)) else x), None).
Proof.
  intros Hl Hok Hfo. unfold eat_chunk, do_capture, stB, set_pos, set_regs. cbn [i_fin i_pos i_regs i_next i_checks i_ext].
  rewrite captureB by exact Hl.
  set (fo' := step_fo (blen sofar + flen c) c fo).
  assert (Hsame : (match fo with Some _ => true | None => false end) = (match fo' with Some _ => true | None => false end)) by apply step_fo_some.
  assert (Hnext : (match fo with Some _ => 4%nat | None => 3%nat end) = (match fo' with Some _ => 4%nat | None => 3%nat end)).
  { destruct fo as [[? ?]|]; reflexivity. }
  assert (Hchk : (match fo with Some _ => [K_descriptor; K_footer] | None => [K_descriptor] end)
                 = (match fo' with Some _ => [K_descriptor; K_footer] | None => [K_descriptor] end)).
  { destruct fo as [[? ?]|]; reflexivity. }
  rewrite Hnext, Hchk.
  change (mkIst (blen sofar + flen c) (regsB hd fo' size (bslice 512 size (sofar ++ c)))
                (match fo' with Some _ => 4%nat | None => 3%nat end) false
                (match fo' with Some _ => [K_descriptor; K_footer] | None => [K_descriptor] end) x)
    with (mkB (blen sofar + flen c) hd fo' size (bslice 512 size (sofar ++ c)) x).
  cbn [f_post vmdk_fmt].
  assert (Hfo' : fo_matches hd fo') by (unfold fo_matches in *; rewrite Hfo; exact Hsame).
  rewrite postB by assumption.
  unfold eat_fuel. cbn [settle]. unfold mkB at 1. cbn [i_regs].
  rewrite (new_names_same_ids (regsB hd fo size (bslice 512 size sofar))) by (apply ids_regsB; exact Hsame).
  unfold mkB at 1. cbn [i_regs]. rewrite newlyB by assumption.
  rewrite blen_app, flen_blen.
  destruct (dcomplete size (sofar ++ c) && negb (dcomplete size sofar)); cbn [run_callbacks].
  - cbn [f_rcomplete vmdk_fmt vmdk_rcomplete].
    rewrite (parse_descriptor_state _ (dreg (match fo' with Some _ => 3%nat | None => 2%nat end) size (bslice 512 size (sofar ++ c))))
      by (unfold mkB; cbn [i_regs]; destruct fo' as [[? ?]|]; reflexivity).
    unfold mkB, set_ext. cbn [i_pos i_regs i_next i_fin i_checks i_ext r_data dreg]. reflexivity.
  - reflexivity.
Qed.

(* ---------- phase A -> phase B: the chunk that completes the header ---------- *)
Lemma cap_hreg sofar c : blen sofar < 64 ->
  (if r_end (hreg sofar) || negb (rcomplete (hreg sofar)) then rcapture (hreg sofar) c (blen sofar + flen c) else hreg sofar)
  = hreg (bslice 0 512 (sofar ++ c)).
Proof.
  intros Hl. rewrite rcomplete_hreg. replace (64 <=? blen sofar) with false by lia. cbn [hreg r_end orb negb].
  unfold rcapture, cap_fixed, hreg. cbn [r_end r_off r_data r_len]. rewrite !flen_blen.
  replace (blen sofar + blen c - blen c) with (blen sofar) by lia. rewrite N.add_0_l.
  replace (blen sofar <=? blen sofar) with true by lia. replace (blen sofar <=? blen sofar + blen c) with true by lia.
  cbn [andb]. unfold set_data. cbn [r_id r_end r_off r_len r_min r_fin]. replace (blen sofar - blen sofar) with 0 by lia.
  rewrite nskip_bskip, bskip_0, ntake_bslice. reflexivity.
Qed.

Lemma cap_dreg0 p c pos : exists p',
  (if r_end (dreg0 p) || negb (rcomplete (dreg0 p)) then rcapture (dreg0 p) c pos else dreg0 p) = dreg0 p'.
Proof.
  cbn [dreg0 r_end orb]. destruct (negb _); [|exists p; reflexivity].
  unfold rcapture, cap_fixed. cbn [r_end]. destruct (_ && _); [|exists p; reflexivity].
  eexists. unfold set_data. reflexivity.
Qed.

Definition fo_init (hd : bytes) (pos : N) (c : bytes) : option (N * bytes) :=
  if wants_footer hd then Some (pos - flen (nlast 1536 c), nlast 1536 c) else None.

Lemma fo_init_matches hd pos c : fo_matches hd (fo_init hd pos c).
Proof. unfold fo_matches, fo_init. destruct (wants_footer hd); reflexivity. Qed.

Theorem eat_AB sofar p x c :
  blen sofar < 64 -> 64 <= blen (sofar ++ c) -> hdr_ok (bslice 0 512 (sofar ++ c)) ->
  let hd := bslice 0 512 (sofar ++ c) in
  let size := dsize hd in
  eat_chunk vmdk_fmt (stA sofar p x) c =
  (stB hd (fo_init hd (blen sofar + flen c) c) size (sofar ++ c)
       (if dcomplete size (sofar ++ c) then dparse x (bslice 512 size (sofar ++ c)) else x), None).
Proof.
  intros Hs Hl Hok hd size.
  assert (Hhd : 64 <= blen hd) by (unfold hd; rewrite blen_bslice; lia).
  unfold eat_chunk, do_capture, stA, set_pos, set_regs. cbn [i_fin i_pos i_regs i_next i_checks i_ext].
  rewrite !capture_regs_cons, capture_regs_nil. rewrite cap_hreg by exact Hs. fold hd.
  destruct (cap_dreg0 p c (blen sofar + flen c)) as [p' Hp']. rewrite Hp'. clear Hp'.
  cbn [f_post vmdk_fmt].
  rewrite (vmdk_post_sparse _ hd); [|reflexivity|exact Hhd|exact Hok].
  fold size.
  assert (Hempty : bslice 512 size sofar = []).
  { unfold bslice. rewrite bskip_all by lia. apply btake_nil. }
  (* the state after post_process: footer region (if announced) and the real descriptor region, both empty *)
  assert (Hpost :
    (match (if wants_footer hd && negb (has_region R_footer (mkIst (blen sofar + flen c) [(R_header, hreg hd); (R_descriptor, dreg0 p')] 2 false [K_descriptor] x))
            then match new_region R_footer (mkRspec true VMDK_FOOTER_LEN VMDK_FOOTER_LEN None)
                         (mkIst (blen sofar + flen c) [(R_header, hreg hd); (R_descriptor, dreg0 p')] 2 false [K_descriptor] x) with
                 | (s', Some e) => (s', Some e) | (s', None) => add_check K_footer s' end
            else (mkIst (blen sofar + flen c) [(R_header, hreg hd); (R_descriptor, dreg0 p')] 2 false [K_descriptor] x, None)) with
     | (s1, Some e) => (s1, Some e)
     | (s1, None) =>
       match get_region R_descriptor s1 with
       | Exn e => (s1, Some e)
       | Ok d => if r_off d =? 0
                 then match delete_region R_descriptor s1 with
                      | (s2, Some e) => (s2, Some e)
                      | (s2, None) => new_region R_descriptor (mkRspec false 512 size None) s2 end
                 else (s1, None)
       end
     end)
    = (mkB (blen sofar + flen c) hd (if wants_footer hd then Some (1536, ([] : bytes)) else None) size (bslice 512 size sofar) x, None)).
  { rewrite Hempty. destruct (wants_footer hd); reflexivity. }
  rewrite Hpost. clear Hpost.
  set (fo0 := if wants_footer hd then Some (1536, ([] : bytes)) else None).
  assert (Hfo0 : fo_matches hd fo0) by (unfold fo_matches, fo0; destruct (wants_footer hd); reflexivity).
  (* the while loop: one round presents the chunk to the new regions, the second finds nothing new *)
  unfold eat_fuel. cbn [settle].
  assert (Hnew : new_names (ids [(R_header, hreg sofar); (R_descriptor, dreg0 p)]) (i_regs (mkB (blen sofar + flen c) hd fo0 size (bslice 512 size sofar) x))
                 = match fo0 with Some _ => [R_footer; R_descriptor] | None => [R_descriptor] end).
  { unfold fo0. destruct (wants_footer hd); reflexivity. }
  rewrite Hnew.
  assert (Hcap : do_capture (match fo0 with Some _ => [R_footer; R_descriptor] | None => [R_descriptor] end) c
                            (mkB (blen sofar + flen c) hd fo0 size (bslice 512 size sofar) x)
                 = (mkB (blen sofar + flen c) hd (fo_init hd (blen sofar + flen c) c) size (bslice 512 size (sofar ++ c)) x, None)).
  { unfold do_capture, mkB. cbn [i_fin i_regs set_regs i_pos i_next i_checks i_ext].
    assert (Hd : forall id, (if r_end (dreg id size (bslice 512 size sofar)) || negb (rcomplete (dreg id size (bslice 512 size sofar)))
                             then rcapture (dreg id size (bslice 512 size sofar)) c (blen sofar + flen c)
                             else dreg id size (bslice 512 size sofar))
                            = dreg id size (bslice 512 size (sofar ++ c))).
    { intros id. rewrite !dreg_static.
      pose proof (cap_fixed_slice id (mkRspec false 512 size None) sofar c eq_refl) as H. cbn zeta in H.
      cbn [rs_off rs_len] in H. cbn [static_region r_end rs_end orb].
      destruct (rcomplete (static_region id (mkRspec false 512 size None) (bslice 512 size sofar))); cbn [negb]; exact H. }
    unfold fo0, fo_init. destruct (wants_footer hd); unfold regsB; rewrite !capture_only_cons, capture_regs_nil;
      cbn [mem_rname rname_beq orb negb]; rewrite Hd; reflexivity. }
  destruct fo0 as [[o0 f0]|] eqn:Efo0.
  - rewrite Hcap. cbn [f_post vmdk_fmt].
    rewrite postB by (try assumption; apply fo_init_matches).
    assert (Hnn : new_names (ids (i_regs (mkB (blen sofar + flen c) hd (fo_init hd (blen sofar + flen c) c) size (bslice 512 size (sofar ++ c)) x)))
                            (i_regs (mkB (blen sofar + flen c) hd (fo_init hd (blen sofar + flen c) c) size (bslice 512 size (sofar ++ c)) x)) = []).
    { apply new_names_same_ids. reflexivity. }
    rewrite Hnn.
    unfold fo_init in *. unfold fo0 in Efo0. destruct (wants_footer hd); [|discriminate].
    unfold mkB at 1. cbn [i_regs]. unfold regsB, complete_ids, newly_complete. cbn [filter snd fst map].
    rewrite ?rcomplete_hreg, ?rcomplete_freg, ?rcomplete_dreg, ?rcomplete_dreg0.
    replace (64 <=? blen sofar) with false by lia. replace (64 <=? blen hd) with true by lia. cbn [andb].
    fold (dcomplete size (sofar ++ c)).
    unfold stB, mkB. rewrite blen_app, !flen_blen.
    destruct (4 <=? blen p); cbn [ids map snd r_id hreg dreg0 dreg mem_nat Nat.eqb orb negb andb];
      destruct (dcomplete size (sofar ++ c)); cbn [map fst run_callbacks f_rcomplete vmdk_fmt vmdk_rcomplete andb];
      try rewrite (parse_descriptor_state _ (dreg 3 size (bslice 512 size (sofar ++ c)))) by reflexivity; reflexivity.
  - rewrite Hcap. cbn [f_post vmdk_fmt].
    rewrite postB by (try assumption; apply fo_init_matches).
    assert (Hnn : new_names (ids (i_regs (mkB (blen sofar + flen c) hd (fo_init hd (blen sofar + flen c) c) size (bslice 512 size (sofar ++ c)) x)))
                            (i_regs (mkB (blen sofar + flen c) hd (fo_init hd (blen sofar + flen c) c) size (bslice 512 size (sofar ++ c)) x)) = []).
    { apply new_names_same_ids. reflexivity. }
    rewrite Hnn.
    unfold fo_init in *. unfold fo0 in Efo0. destruct (wants_footer hd); [discriminate|].
    unfold mkB at 1. cbn [i_regs]. unfold regsB, complete_ids, newly_complete. cbn [filter snd fst map].
    rewrite ?rcomplete_hreg, ?rcomplete_dreg, ?rcomplete_dreg0.
    replace (64 <=? blen sofar) with false by lia. replace (64 <=? blen hd) with true by lia. cbn [andb].
    fold (dcomplete size (sofar ++ c)).
    unfold stB, mkB. rewrite blen_app, !flen_blen.
    destruct (4 <=? blen p); cbn [ids map snd r_id hreg dreg0 dreg mem_nat Nat.eqb orb negb andb];
      destruct (dcomplete size (sofar ++ c)); cbn [map fst run_callbacks f_rcomplete vmdk_fmt vmdk_rcomplete andb];
      try rewrite (parse_descriptor_state _ (dreg 2 size (bslice 512 size (sofar ++ c)))) by reflexivity; reflexivity.
Qed.

(* ---------- phase A: a chunk that leaves fewer than 64 bytes ---------- *)
Lemma cap_hreg_small sofar c : blen (sofar ++ c) < 64 ->
  (if r_end (hreg sofar) || negb (rcomplete (hreg sofar)) then rcapture (hreg sofar) c (blen sofar + flen c) else hreg sofar)
  = hreg (sofar ++ c).
Proof.
  intros Hl. rewrite blen_app in Hl. rewrite cap_hreg by lia. f_equal.
  apply bslice_full. rewrite blen_app. lia.
Qed.

Lemma cap_dreg0_small sofar c : blen (sofar ++ c) < 64 -> blen sofar < 4 ->
  (if r_end (dreg0 sofar) || negb (rcomplete (dreg0 sofar)) then rcapture (dreg0 sofar) c (blen sofar + flen c) else dreg0 sofar)
  = dreg0 (sofar ++ c).
Proof.
  intros Hl H4. rewrite rcomplete_dreg0. replace (4 <=? blen sofar) with false by lia. cbn [dreg0 r_end orb negb].
  unfold rcapture, cap_fixed, dreg0. cbn [r_end r_off r_data r_len]. rewrite !flen_blen.
  replace (blen sofar + blen c - blen c) with (blen sofar) by lia. rewrite N.add_0_l.
  replace (blen sofar <=? blen sofar) with true by lia. replace (blen sofar <=? blen sofar + blen c) with true by lia.
  cbn [andb]. unfold set_data. cbn [r_id r_end r_off r_len r_min r_fin]. replace (blen sofar - blen sofar) with 0 by lia.
  rewrite nskip_bskip, bskip_0, ntake_bslice. f_equal. apply bslice_full.
  unfold VMDK_DESC_MAX_SIZE. lia.
Qed.

Theorem eat_AA sofar p x c :
  blen (sofar ++ c) < 64 -> (blen p < 4 -> p = sofar) ->
  let p' := if 4 <=? blen p then p else sofar ++ c in
  eat_chunk vmdk_fmt (stA sofar p x) c =
  (stA (sofar ++ c) p' (if (4 <=? blen p') && negb (4 <=? blen p) then dparse x p' else x), None).
Proof.
  intros Hl Hp p'.
  unfold eat_chunk, do_capture, stA, set_pos, set_regs. cbn [i_fin i_pos i_regs i_next i_checks i_ext].
  rewrite !capture_regs_cons, capture_regs_nil. rewrite cap_hreg_small by exact Hl.
  assert (Hd : (if r_end (dreg0 p) || negb (rcomplete (dreg0 p)) then rcapture (dreg0 p) c (blen sofar + flen c) else dreg0 p) = dreg0 p').
  { unfold p'. destruct (4 <=? blen p) eqn:E.
    - rewrite rcomplete_dreg0, E. reflexivity.
    - assert (p = sofar) by (apply Hp; lia). subst p. apply cap_dreg0_small; [exact Hl|lia]. }
  rewrite Hd. clear Hd.
  cbn [f_post vmdk_fmt]. unfold vmdk_post at 1. cbn [i_regs rget rname_beq].
  rewrite rcomplete_hreg. replace (64 <=? blen (sofar ++ c)) with false by lia. cbn [negb].
  unfold eat_fuel. cbn [settle i_regs].
  rewrite (new_names_same_ids [(R_header, hreg sofar); (R_descriptor, dreg0 p)]) by reflexivity.
  unfold complete_ids, newly_complete. cbn [filter snd fst map i_regs].
  rewrite !rcomplete_hreg, !rcomplete_dreg0. rewrite blen_app in Hl.
  replace (64 <=? blen sofar) with false by lia. replace (64 <=? blen (sofar ++ c)) with false by (rewrite blen_app; lia).
  rewrite blen_app, flen_blen.
  destruct (4 <=? blen p) eqn:E4; cbn [ids map snd r_id dreg0 mem_nat Nat.eqb orb negb andb].
  - rewrite andb_false_r. reflexivity.
  - rewrite andb_true_r. destruct (4 <=? blen p'); cbn [map fst run_callbacks]; [|reflexivity].
    cbn [f_rcomplete vmdk_fmt vmdk_rcomplete].
    rewrite (parse_descriptor_state _ (dreg0 p')) by reflexivity. reflexivity.
Qed.

(* ---------- the chunk that completes a header announcing a misplaced descriptor: ImageFormatError ---------- *)

Theorem eat_AB_misplaced sofar p x c :
  blen sofar < 64 -> 64 <= blen (sofar ++ c) -> hdr_pre (bslice 0 512 (sofar ++ c)) ->
  vmdk_desc_sec (bslice 0 512 (sofar ++ c)) * 512 <> 512 ->
  exists s', eat_chunk vmdk_fmt (stA sofar p x) c = (s', Some ImageFormatError) /\ i_ext s' = x /\ In K_descriptor (i_checks s').
Proof.
  intros Hs Hl [Hsig Hver] Hsec. set (hd := bslice 0 512 (sofar ++ c)) in *.
  assert (Hhd : 64 <= blen hd) by (unfold hd; rewrite blen_bslice; lia).
  unfold eat_chunk, do_capture, stA, set_pos, set_regs. cbn [i_fin i_pos i_regs i_next i_checks i_ext].
  rewrite !capture_regs_cons, capture_regs_nil. rewrite cap_hreg by exact Hs. fold hd.
  destruct (cap_dreg0 p c (blen sofar + flen c)) as [p' Hp']. rewrite Hp'. clear Hp'.
  cbn [f_post vmdk_fmt]. unfold vmdk_post. cbn [i_regs rget rname_beq]. rewrite rcomplete_hreg.
  replace (64 <=? blen hd) with true by lia. cbn [negb].
  match goal with |- context [vmdk_parse_sparse ?s R_header 0] =>
    rewrite (parse_sparse_state s R_header (hreg hd) 0 eq_refl) by (cbn [r_data hreg]; lia) end.
  cbn zeta. cbn [r_data hreg].
  destruct (fields64 hd Hhd) as [F1 [F2 [F3 [F4 F5]]]]. rewrite F1, F2, F3, F4, F5.
  rewrite Hsig, beq_refl. cbn [negb].
  unfold VMDK_VER_A, VMDK_VER_B, VMDK_VER_C.
  replace ((vmdk_ver hd =? 1) || (vmdk_ver hd =? 2) || (vmdk_ver hd =? 3)) with true by lia. cbn [negb].
  unfold VMDK_SECTOR_A, VMDK_DESC_OFFSET.
  replace (vmdk_desc_sec hd * 512 =? 512) with false by lia. cbn [negb].
  destruct ((vmdk_gd hd =? VMDK_GD_AT_END) && _).
  - cbn [new_region has_region rhas rget i_regs rname_beq add_check i_checks mem_cname cname_beq orb]. eexists.
    split; [reflexivity|]. split; [reflexivity|]. left. reflexivity.
  - eexists. split; [reflexivity|]. split; [reflexivity|]. left. reflexivity.
Qed.

(* ---------- prefixes ---------- *)
Lemma bslice_btake o l n b : o + l <= n -> bslice o l (btake n b) = bslice o l b.
Proof.
  intros H. change (btake n b) with (bslice 0 n b) at 1.
  - rewrite bslice_bslice by lia. reflexivity.
Qed.

Lemma btake_app_prefix a c : btake (blen a) (a ++ c) = a.
Proof. rewrite btake_app_le by lia. apply btake_all. lia. Qed.

Lemma prefix_fields hd b : hd = btake (blen hd) b -> 64 <= blen hd ->
  vmdk_sig hd = vmdk_sig b /\ vmdk_ver hd = vmdk_ver b /\ vmdk_desc_sec hd = vmdk_desc_sec b /\
  vmdk_desc_num hd = vmdk_desc_num b /\ vmdk_gd hd = vmdk_gd b.
Proof.
  intros Hp Hl. rewrite Hp. unfold vmdk_sig, vmdk_ver, vmdk_desc_sec, vmdk_desc_num, vmdk_gd, le_at.
  rewrite !bslice_btake by lia. repeat split.
Qed.

(* ---------- small facts used by the run invariant ---------- *)
Lemma btake_min n a : btake (N.min n (blen a)) a = btake n a.
Proof.
  destruct (N.le_gt_cases n (blen a)) as [H|H].
  - replace (N.min n (blen a)) with n by lia. reflexivity.
  - replace (N.min n (blen a)) with (blen a) by lia. rewrite !btake_all by lia. reflexivity.
Qed.

Lemma bslice_app_prefix o l a c : o + l <= blen a -> bslice o l (a ++ c) = bslice o l a.
Proof.
  intros H. unfold bslice. rewrite bskip_app_le by lia. rewrite btake_app_le; [reflexivity|].
  rewrite blen_bskip. lia.
Qed.

Lemma dcomplete_iff size s : dcomplete size s = true <-> size = 0 \/ 512 + size <= blen s.
Proof. unfold dcomplete. rewrite blen_bslice. lia. Qed.

Lemma dcomplete_mono size s c : dcomplete size s = true ->
  dcomplete size (s ++ c) = true /\ bslice 512 size (s ++ c) = bslice 512 size s.
Proof.
  intros H. apply dcomplete_iff in H. split.
  - apply dcomplete_iff. rewrite blen_app. lia.
  - destruct H as [->|H]; [reflexivity|]. apply bslice_app_prefix. exact H.
Qed.

Lemma nlast_len n x : 0 < n -> flen (nlast n x) = N.min n (blen x).
Proof.
  intros Hn. unfold nlast. replace (n =? 0) with false by lia. rewrite nskip_bskip, !flen_blen, blen_bskip. lia.
Qed.

Lemma nlast_bskip n x : 0 < n -> nlast n x = bskip (blen x - n) x.
Proof. intros Hn. unfold nlast. replace (n =? 0) with false by lia. rewrite nskip_bskip, flen_blen. reflexivity. Qed.

Lemma nlast_app n x c : 0 < n -> nlast n (nlast n x ++ c) = nlast n (x ++ c).
Proof.
  intros Hn. rewrite !nlast_bskip by exact Hn. rewrite !blen_app, blen_bskip.
  destruct (N.le_gt_cases (blen x) n) as [H|H].
  - replace (blen x - n) with 0 by lia. rewrite bskip_0. f_equal. lia.
  - replace (blen x - (blen x - n) + blen c - n) with (blen c) by lia.
    replace (blen x + blen c - n) with ((blen x - n) + blen c) by lia.
    rewrite <- (bskip_bskip (blen c) (blen x - n) (x ++ c)). rewrite (bskip_app_le (blen x - n) x c) by lia. reflexivity.
Qed.

Lemma prefixb_len p s : prefixb p s = true -> blen p <= blen s.
Proof. intros H. apply prefixb_spec in H. destruct H as [t ->]. rewrite blen_app. lia. Qed.

Lemma find_short sub s i : blen s < blen sub -> find_from sub s i = None.
Proof.
  revert i. induction s as [|x s IH]; intros i H; cbn [find_from].
  - destruct (prefixb sub []) eqn:E; [apply prefixb_len in E; lia|reflexivity].
  - destruct (prefixb sub (x :: s)) eqn:E; [apply prefixb_len in E; lia|].
    apply IH. rewrite blen_cons in H. lia.
Qed.

Lemma bnth_cons_S k x t : 0 < k -> bnth k (x :: t) = bnth (k - 1) t.
Proof.
  intros H. unfold bnth. replace (N.to_nat k) with (S (N.to_nat (k - 1))) by lia. reflexivity.
Qed.

Lemma find_nul s : forall i k, k < blen s -> bnth k s = 0 -> exists j, find_from [0] s i = Some j /\ j <= i + k.
Proof.
  induction s as [|x s IH]; intros i k Hk H0; [rewrite blen_nil in Hk; lia|].
  cbn [find_from prefixb]. destruct (0 =? x) eqn:E; cbn [andb].
  - exists i. split; [reflexivity|lia].
  - destruct (N.eq_dec k 0) as [->|Hk0]; [cbn in H0; lia|].
    rewrite bnth_cons_S in H0 by lia. rewrite blen_cons in Hk.
    destruct (IH (i + 1) (k - 1) ltac:(lia) H0) as [j [Hj Hle]]. exists j. split; [exact Hj|lia].
Qed.

Lemma blen_lower s : blen (lower_ascii s) = blen s.
Proof. unfold blen, lower_ascii. rewrite map_length. reflexivity. Qed.

Lemma type_of_short t : blen t <= 5 -> vmdk_type_of t = VMDK_NOTFOUND.
Proof.
  intros H. unfold vmdk_type_of, find. rewrite find_short; [reflexivity|].
  change (blen VMDK_CREATETYPE) with 12. lia.
Qed.

Lemma ver_byte5 b : 8 <= blen b -> vmdk_ver b <= 3 -> bnth 5 b = 0.
Proof.
  intros Hl Hv. unfold vmdk_ver, le_at in Hv.
  change 4 with (1 + 3) in Hv at 2. rewrite bslice_split in Hv. change (4 + 1) with 5 in Hv.
  change 3 with (1 + 2) in Hv at 1. rewrite bslice_split in Hv.
  rewrite !bslice_one in Hv by lia. rewrite !le_val_app in Hv.
  change (blen [bnth 4 b]) with 1 in Hv. change (blen [bnth 5 b]) with 1 in Hv. change (256 ^ 1) with 256 in Hv.
  cbn [le_val] in Hv. lia.
Qed.

(* ---------- the run invariant ---------- *)
Section Run.
Variable b : bytes.
Hypothesis Hlen : 64 <= blen b.
Hypothesis Hpre : hdr_pre b.

Lemma dparse_early x q : q = btake (blen q) b -> v_vmdktype x = VMDK_NOTFOUND -> v_vmdktype (dparse x q) = VMDK_NOTFOUND.
Proof.
  intros Hq Hx. unfold dparse. change VMDK_NUL with [0].
  set (dd := match find [0] q with Some i => ntake i q | None => q end).
  destruct (negb (forallb is_ascii dd)); [exact Hx|]. cbn [v_vmdktype].
  apply type_of_short. rewrite blen_lower.
  destruct (N.le_gt_cases (blen q) 5) as [Hs|Hs].
  - unfold dd. destruct (find [0] q); [rewrite ntake_btake, blen_btake; lia|exact Hs].
  - assert (H5 : bnth 5 q = 0).
    { rewrite Hq. change (btake (blen q) b) with (bslice 0 (blen q) b). rewrite bnth_bslice by lia.
      apply ver_byte5; [lia|]. destruct Hpre as [_ Hv]. lia. }
    destruct (find_nul q 0 5 ltac:(lia) H5) as [j [Hj Hle]]. unfold dd, find. rewrite Hj.
    rewrite ntake_btake, blen_btake. lia.
Qed.

Definition foot_inv (sofar : bytes) (fo : option (N * bytes)) : Prop :=
  match fo with
  | Some (off, fd) => exists p0, p0 < 64 /\ p0 <= blen sofar /\ fd = nlast 1536 (bskip p0 sofar) /\ off = blen sofar - flen fd
  | None => True
  end.

Definition InvA (sofar : bytes) (s : ist vx) : Prop :=
  exists p x, s = stA sofar p x /\ blen sofar < 64 /\ (blen p < 4 -> p = sofar) /\ p = btake (blen p) sofar /\
              v_vmdktype x = VMDK_NOTFOUND.

Definition InvB (sofar : bytes) (s : ist vx) : Prop :=
  exists hd fo xA,
    s = stB hd fo (dsize hd) sofar (if dcomplete (dsize hd) sofar then dparse xA (bslice 512 (dsize hd) sofar) else xA) /\
    64 <= blen hd /\ hd = btake (blen hd) b /\ hdr_ok hd /\ fo_matches hd fo /\ foot_inv sofar fo /\
    v_vmdktype xA = VMDK_NOTFOUND.

Lemma prefix_of_b sofar rest q : b = sofar ++ rest -> q = btake (blen q) sofar -> q = btake (blen q) b.
Proof.
  intros Hb Hq. rewrite Hb. rewrite btake_app_le; [exact Hq|].
  rewrite Hq at 1. rewrite blen_btake. lia.
Qed.

Lemma header_data_prefix sofar c rest : b = (sofar ++ c) ++ rest ->
  bslice 0 512 (sofar ++ c) = btake (blen (bslice 0 512 (sofar ++ c))) b.
Proof.
  intros Hb. rewrite blen_bslice. rewrite N.sub_0_r. rewrite Hb.
  rewrite (btake_app_le _ (sofar ++ c) rest) by lia. rewrite btake_min. unfold bslice. rewrite bskip_0. reflexivity.
Qed.

(* one chunk, phase A *)
Lemma step_A sofar s c rest : b = (sofar ++ c) ++ rest -> InvA sofar s ->
  (vmdk_desc_sec b * 512 = 512 -> exists s', eat_chunk vmdk_fmt s c = (s', None) /\ (InvA (sofar ++ c) s' \/ InvB (sofar ++ c) s')) /\
  (vmdk_desc_sec b * 512 <> 512 ->
     (exists s', eat_chunk vmdk_fmt s c = (s', None) /\ InvA (sofar ++ c) s') \/
     (exists s' e, eat_chunk vmdk_fmt s c = (s', Some e) /\ v_vmdktype (i_ext s') = VMDK_NOTFOUND /\ In K_descriptor (i_checks s'))).
Proof.
  intros Hb [p [x [-> [Hs [Hp4 [Hpp Hx]]]]]].
  destruct (N.lt_ge_cases (blen (sofar ++ c)) 64) as [Hsmall|Hbig].
  - (* still fewer than 64 bytes *)
    assert (HA : exists s', eat_chunk vmdk_fmt (stA sofar p x) c = (s', None) /\ InvA (sofar ++ c) s').
    { rewrite eat_AA by assumption. eexists. split; [reflexivity|].
      set (p' := if 4 <=? blen p then p else sofar ++ c).
      assert (Hp' : p' = btake (blen p') (sofar ++ c)).
      { unfold p'. destruct (4 <=? blen p).
        - rewrite btake_app_le; [exact Hpp|]. rewrite Hpp at 1. rewrite blen_btake. lia.
        - symmetry. apply btake_all. lia. }
      exists p'. eexists. split; [reflexivity|]. split; [exact Hsmall|]. split; [|split; [exact Hp'|]].
      - unfold p'. destruct (4 <=? blen p) eqn:E; [lia|reflexivity].
      - destruct ((4 <=? blen p') && negb (4 <=? blen p)); [|exact Hx].
        apply dparse_early; [|exact Hx]. eapply prefix_of_b; [exact Hb|exact Hp']. }
    split; intros _; destruct HA as [s' [He Hi]].
    + exists s'. split; [exact He|left; exact Hi].
    + left. exists s'. split; assumption.
  - (* this chunk completes the header *)
    set (hd := bslice 0 512 (sofar ++ c)).
    assert (Hhdl : 64 <= blen hd) by (unfold hd; rewrite blen_bslice; lia).
    assert (Hhdp : hd = btake (blen hd) b) by (apply (header_data_prefix sofar c rest Hb)).
    destruct (prefix_fields hd b Hhdp Hhdl) as [F1 [F2 [F3 [F4 F5]]]].
    destruct Hpre as [Hsig Hver].
    split; intros Hsec.
    + assert (Hok : hdr_ok hd) by (unfold hdr_ok; rewrite F1, F2, F3; auto).
      rewrite eat_AB by assumption. fold hd. eexists. split; [reflexivity|]. right.
      exists hd, (fo_init hd (blen sofar + flen c) c), x.
      split; [reflexivity|]. split; [exact Hhdl|]. split; [exact Hhdp|]. split; [exact Hok|].
      split; [apply fo_init_matches|]. split; [|exact Hx].
      unfold foot_inv, fo_init. destruct (wants_footer hd); [|exact I].
      exists (blen sofar). split; [exact Hs|]. split; [rewrite blen_app; lia|]. split.
      * rewrite bskip_app_ge by lia. replace (blen sofar - blen sofar) with 0 by lia. rewrite bskip_0. reflexivity.
      * rewrite blen_app, !flen_blen. reflexivity.
    + right.
      destruct (eat_AB_misplaced sofar p x c Hs Hbig) as [s' [He [Hext Hchk]]].
      * unfold hdr_pre. fold hd. rewrite F1, F2. auto.
      * fold hd. rewrite F3. exact Hsec.
      * exists s', ImageFormatError. split; [exact He|]. split; [rewrite Hext; exact Hx|exact Hchk].
Qed.

(* one chunk, phase B *)
Lemma step_B sofar s c : InvB sofar s ->
  exists s', eat_chunk vmdk_fmt s c = (s', None) /\ InvB (sofar ++ c) s'.
Proof.
  intros [hd [fo [xA [-> [Hl [Hp [Hok [Hfo [Hfi Hx]]]]]]]]].
  rewrite eat_B by assumption. eexists. split; [reflexivity|].
  exists hd, (step_fo (blen sofar + flen c) c fo), xA.
  split.
  { f_equal. destruct (dcomplete (dsize hd) sofar) eqn:Eb.
    - destruct (dcomplete_mono _ _ c Eb) as [Ea Hd]. rewrite Ea. cbn [negb andb]. rewrite Hd. reflexivity.
    - cbn [negb]. rewrite andb_true_r. destruct (dcomplete (dsize hd) (sofar ++ c)); reflexivity. }
  split; [exact Hl|]. split; [exact Hp|]. split; [exact Hok|].
  split; [unfold fo_matches in *; rewrite Hfo; apply step_fo_some|]. split; [|exact Hx].
  unfold foot_inv in *. destruct fo as [[off fd]|]; [|exact I]. cbn [step_fo].
  destruct Hfi as [p0 [Hp64 [Hp0 [Hfd Hoff]]]]. exists p0. split; [exact Hp64|]. split; [rewrite blen_app; lia|]. split.
  - rewrite Hfd. rewrite nlast_app by lia. rewrite bskip_app_le by lia. reflexivity.
  - rewrite blen_app, flen_blen. reflexivity.
Qed.

(* all chunks *)
Lemma run_valid : vmdk_desc_sec b * 512 = 512 -> forall cs sofar s, b = sofar ++ concat cs ->
  InvA sofar s \/ InvB sofar s ->
  exists s', eat_all vmdk_fmt s cs = (s', None) /\ (InvA b s' \/ InvB b s').
Proof.
  intros Hsec. induction cs as [|c cs IH]; intros sofar s Hb Hi; cbn [eat_all concat] in *.
  - rewrite app_nil_r in Hb. subst sofar. exists s. split; [reflexivity|exact Hi].
  - assert (Hb' : b = (sofar ++ c) ++ concat cs) by (rewrite <- app_assoc; exact Hb).
    destruct Hi as [HA|HB].
    + destruct (proj1 (step_A sofar s c (concat cs) Hb' HA) Hsec) as [s' [He Hi']]. rewrite He. apply (IH (sofar ++ c) s' Hb' Hi').
    + destruct (step_B sofar s c HB) as [s' [He Hi']]. rewrite He. apply (IH (sofar ++ c) s' Hb'). right. exact Hi'.
Qed.

Lemma run_misplaced : vmdk_desc_sec b * 512 <> 512 -> forall cs sofar s, b = sofar ++ concat cs ->
  InvA sofar s -> exists s' e, eat_all vmdk_fmt s cs = (s', Some e) /\ v_vmdktype (i_ext s') = VMDK_NOTFOUND /\ In K_descriptor (i_checks s').
Proof.
  intros Hsec. induction cs as [|c cs IH]; intros sofar s Hb HA; cbn [eat_all concat] in *.
  - rewrite app_nil_r in Hb. subst sofar. destruct HA as [p [x [_ [Hs _]]]]. lia.
  - assert (Hb' : b = (sofar ++ c) ++ concat cs) by (rewrite <- app_assoc; exact Hb).
    destruct (proj2 (step_A sofar s c (concat cs) Hb' HA) Hsec) as [[s' [He Hi']]|[s' [e [He Hrest]]]].
    + rewrite He. apply (IH (sofar ++ c) s' Hb' Hi').
    + rewrite He. exists s', e. split; [reflexivity|exact Hrest].
Qed.
End Run.

(* ---------- reading the final state ---------- *)
Definition finB (hd : bytes) (fo : option (N * bytes)) (size : N) (sofar : bytes) (x : vx) : ist vx :=
  mkIst (blen sofar)
        (match fo with
         | Some (off, fd) => [(R_header, hreg hd); (R_footer, set_fin (freg off fd) true); (R_descriptor, dreg 3 size (bslice 512 size sofar))]
         | None => [(R_header, hreg hd); (R_descriptor, dreg 2 size (bslice 512 size sofar))]
         end)
        (match fo with Some _ => 4%nat | None => 3%nat end) true
        (match fo with Some _ => [K_descriptor; K_footer] | None => [K_descriptor] end) x.

Lemma finish_stB hd fo size sofar x : Insp_Engine.finish (stB hd fo size sofar x) = finB hd fo size sofar x.
Proof. destruct fo as [[off fd]|]; reflexivity. Qed.

Lemma not_notfound : ~ In VMDK_NOTFOUND VMDK_SUBFORMATS.
Proof. intros [H|[H|[]]]; discriminate H. Qed.

Lemma dparse_ok xA D : v_vmdktype xA = VMDK_NOTFOUND -> descriptor_ok (dparse xA D) ->
  is_ascii_text D = true /\ dparse xA D = mkVx (Some (text_of D)) (vmdk_type_of (text_of D)).
Proof.
  intros Hx Hok. unfold dparse in *. change VMDK_NUL with [0] in *.
  assert (Hdd : match find [0] D with Some i => ntake i D | None => D end = up_to_nul D).
  { unfold up_to_nul. destruct (find [0] D); [apply ntake_btake|reflexivity]. }
  rewrite Hdd in *. unfold is_ascii_text. change (fun c => c <? 128) with is_ascii.
  destruct (forallb is_ascii (up_to_nul D)); cbn [negb] in *.
  - split; reflexivity.
  - exfalso. destruct Hok as [t [_ [_ [Hty _]]]]. rewrite Hx in Hty. exact (not_notfound Hty).
Qed.

Theorem vmdk_sparse_pass_implies cs :
  let b := concat cs in
  64 <= blen b -> hdr_pre b ->
  safety (fst (Insp_All.run F_vmdk cs)) = Pass ->
  vmdk_desc_sec b * 512 = 512 /\
  512 + dsize b <= blen b /\
  is_ascii_text (bslice 512 (dsize b) b) = true /\
  descriptor_ok (mkVx (Some (text_of (bslice 512 (dsize b) b))) (vmdk_type_of (text_of (bslice 512 (dsize b) b)))) /\
  (vmdk_gd b = gd_at_end -> 1536 <= blen b /\ footer_ok b (bslice (blen b - 1536) 1536 b)).
Proof.
  intros b Hlen Hpre Hacc.
  rewrite run_vmdk in Hacc. unfold run_fmt in Hacc. rewrite init_A in Hacc.
  assert (HA0 : InvA [] (stA [] [] (mkVx None VMDK_NOTFOUND))).
  { exists [], (mkVx None VMDK_NOTFOUND). split; [reflexivity|]. split; [rewrite blen_nil; lia|]. split; [reflexivity|]. split; reflexivity. }
  destruct (N.eq_dec (vmdk_desc_sec b * 512) 512) as [Hsec|Hsec].
  2:{ destruct (run_misplaced b Hlen Hpre Hsec cs [] _ eq_refl HA0) as [s' [e [He [Hty Hchk]]]]. rewrite He in Hacc.
      cbn [fst safety] in Hacc. exfalso. revert Hacc. apply vmdk_other_type_never_passes.
      - exact Hchk.
      - cbn [Insp_Engine.finish i_ext]. rewrite Hty. exact not_notfound. }
  split; [exact Hsec|].
  destruct (run_valid b Hlen Hpre Hsec cs [] _ eq_refl (or_introl HA0)) as [s' [He [HA|HB]]].
  { destruct HA as [p [x [_ [Hs _]]]]. lia. }
  rewrite He in Hacc. cbn [fst] in Hacc.
  destruct HB as [hd [fo [xA [-> [Hl [Hp [Hok [Hfo [Hfi Hx]]]]]]]]].
  destruct (prefix_fields hd b Hp Hl) as [F1 [F2 [F3 [F4 F5]]]].
  assert (Hsize : dsize hd = dsize b) by (unfold dsize; rewrite F4; reflexivity).
  rewrite Hsize in *. set (size := dsize b) in *. set (D := bslice 512 size b) in *.
  cbn [safety] in Hacc. rewrite finish_stB in Hacc. pose proof Hacc as Hsafe. clear Hacc.
  apply safety_pass_iff in Hsafe. destruct Hsafe as [Hc [_ Hk]].
  (* completeness: the descriptor region is full (and the footer region, when there is one) *)
  assert (Hdc : dcomplete size b = true).
  { unfold Insp_Engine.complete, finB in Hc. cbn [i_regs] in Hc.
    destruct fo as [[off fd]|]; cbn [forallb snd] in Hc; rewrite rcomplete_dreg in Hc; unfold dcomplete; lia. }
  rewrite Hdc in Hk.
  (* the descriptor check *)
  assert (Hd : descriptor_ok (dparse xA D)).
  { apply (check_descriptor_iff (finB hd fo size b (dparse xA D))).
    apply (Hk K_descriptor). unfold finB. cbn [i_checks]. destruct fo; left; reflexivity. }
  destruct (dparse_ok xA D Hx Hd) as [Hascii Hpx]. rewrite Hpx in Hd.
  assert (Hfull : 512 + size <= blen b).
  { apply dcomplete_iff in Hdc. destruct Hdc as [H0|H]; [|exact H]. exfalso.
    destruct Hd as [t [Ht [Hne _]]]. cbn [v_desc_text] in Ht. injection Ht as <-. apply Hne.
    unfold D. rewrite H0. reflexivity. }
  split; [exact Hfull|]. split; [exact Hascii|]. split; [exact Hd|].
  (* the footer check *)
  intros Hgd. unfold fo_matches, wants_footer in Hfo. rewrite F5, Hgd, N.eqb_refl in Hfo.
  destruct fo as [[off fd]|]; [|discriminate Hfo].
  destruct Hfi as [p0 [Hp64 [Hp0 [Hfd Hoff]]]].
  assert (Hflen : blen fd = 1536).
  { unfold Insp_Engine.complete, finB in Hc. cbn [i_regs forallb snd] in Hc.
    unfold rcomplete at 2 in Hc. unfold base_complete in Hc. cbn [set_fin freg r_end r_min r_len r_data r_fin] in Hc.
    rewrite flen_blen in Hc. lia. }
  assert (Hy : 1536 <= blen (bskip p0 b)).
  { pose proof (nlast_len 1536 (bskip p0 b) ltac:(lia)) as H. rewrite <- Hfd, flen_blen, Hflen in H. lia. }
  rewrite blen_bskip in Hy.
  split; [lia|].
  assert (Hfd' : fd = bslice (blen b - 1536) 1536 b).
  { rewrite Hfd. rewrite nlast_bskip by lia. rewrite blen_bskip, bskip_bskip.
    replace (p0 + (blen b - p0 - 1536)) with (blen b - 1536) by lia.
    unfold bslice. symmetry. apply btake_all. rewrite blen_bskip. lia. }
  assert (Hfok : footer_ok hd fd).
  { apply (check_footer_iff (finB hd (Some (off, fd)) size b (dparse xA D)) (hreg hd) (set_fin (freg off fd) true));
      [reflexivity|reflexivity|exact Hl|exact Hflen|].
    apply (Hk K_footer). right. left. reflexivity. }
  rewrite <- Hfd'. unfold footer_ok in *. rewrite <- F1, <- F2, <- F3, <- F4. exact Hfok.
Qed.

(* ---------- the converse: a well-formed sparse VMDK is accepted, under every chunking ---------- *)
Lemma dparse_ascii xA D : is_ascii_text D = true ->
  dparse xA D = mkVx (Some (text_of D)) (vmdk_type_of (text_of D)).
Proof.
  intros H. unfold dparse. change VMDK_NUL with [0].
  assert (Hdd : match find [0] D with Some i => ntake i D | None => D end = up_to_nul D).
  { unfold up_to_nul. destruct (find [0] D); [apply ntake_btake|reflexivity]. }
  rewrite Hdd. unfold is_ascii_text in H. change (fun c => c <? 128) with is_ascii in H. rewrite H. reflexivity.
Qed.

Theorem clean_vmdk_accepted cs :
  let b := concat cs in
  64 <= blen b -> hdr_pre b -> vmdk_desc_sec b * 512 = 512 ->
  512 + dsize b <= blen b ->
  is_ascii_text (bslice 512 (dsize b) b) = true ->
  descriptor_ok (mkVx (Some (text_of (bslice 512 (dsize b) b))) (vmdk_type_of (text_of (bslice 512 (dsize b) b)))) ->
  (vmdk_gd b = gd_at_end -> 1599 <= blen b /\ footer_ok b (bslice (blen b - 1536) 1536 b)) ->
  accepted (Insp_All.run F_vmdk cs) = true.
Proof.
  intros b Hlen Hpre Hsec Hfull Hascii Hdesc Hfoot.
  rewrite run_vmdk. unfold run_fmt. rewrite init_A.
  assert (HA0 : InvA [] (stA [] [] (mkVx None VMDK_NOTFOUND))).
  { exists [], (mkVx None VMDK_NOTFOUND). split; [reflexivity|]. split; [rewrite blen_nil; lia|]. split; [reflexivity|]. split; reflexivity. }
  destruct (run_valid b Hlen Hpre Hsec cs [] _ eq_refl (or_introl HA0)) as [s' [He [HA|HB]]].
  { destruct HA as [p [x [_ [Hs _]]]]. lia. }
  rewrite He. cbn [accepted snd fst].
  destruct HB as [hd [fo [xA [-> [Hl [Hp [Hok [Hfo [Hfi Hx]]]]]]]]].
  destruct (prefix_fields hd b Hp Hl) as [F1 [F2 [F3 [F4 F5]]]].
  assert (Hsize : dsize hd = dsize b) by (unfold dsize; rewrite F4; reflexivity).
  rewrite Hsize in *. set (size := dsize b) in *. set (D := bslice 512 size b) in *.
  assert (Hdc : dcomplete size b = true) by (apply dcomplete_iff; right; exact Hfull).
  rewrite Hdc. rewrite (dparse_ascii xA D Hascii).
  cbn [Insp_All.finish safety]. rewrite finish_stB.
  assert (Hpass : safety_check vmdk_fmt (finB hd fo size b (mkVx (Some (text_of D)) (vmdk_type_of (text_of D)))) = Pass).
  { apply safety_pass_iff.
    assert (Hmatch : f_match vmdk_fmt (finB hd fo size b (mkVx (Some (text_of D)) (vmdk_type_of (text_of D)))) = Ok true).
    { cbn [f_match vmdk_fmt]. unfold vmdk_match, finB. cbn [i_regs].
      assert (Hm : prefixb VMDK_MAGIC (r_data (hreg hd)) = true).
      { cbn [r_data hreg]. rewrite prefixb_btake. change (blen VMDK_MAGIC) with 4.
        destruct Hok as [Hsig _]. unfold vmdk_sig, bslice in Hsig. rewrite bskip_0 in Hsig. rewrite Hsig. reflexivity. }
      destruct fo as [[off fd]|]; cbn [rget rname_beq]; rewrite Hm; reflexivity. }
    unfold fo_matches, wants_footer in Hfo. rewrite F5 in Hfo.
    destruct fo as [[off fd]|].
    - (* with footer *)
      assert (Hgd : vmdk_gd b = gd_at_end) by lia.
      destruct (Hfoot Hgd) as [H1599 Hfok].
      destruct Hfi as [p0 [Hp64 [Hp0 [Hfd Hoff]]]].
      assert (Hfd' : fd = bslice (blen b - 1536) 1536 b).
      { rewrite Hfd. rewrite nlast_bskip by lia. rewrite blen_bskip, bskip_bskip.
        replace (p0 + (blen b - p0 - 1536)) with (blen b - 1536) by lia.
        unfold bslice. symmetry. apply btake_all. rewrite blen_bskip. lia. }
      assert (Hflen : blen fd = 1536) by (rewrite Hfd', blen_bslice; lia).
      split; [|split; [exact Hmatch|]].
      + unfold Insp_Engine.complete, finB. cbn [i_regs forallb snd].
        rewrite rcomplete_hreg, rcomplete_dreg. fold D. unfold dcomplete in Hdc. fold D in Hdc. rewrite Hdc.
        unfold rcomplete, base_complete. cbn [set_fin freg r_end r_min r_len r_data r_fin]. rewrite flen_blen, Hflen.
        replace (64 <=? blen hd) with true by lia. reflexivity.
      + intros c Hc. cbn [i_checks finB In] in Hc. destruct Hc as [<-|[<-|[]]]; cbn [f_check vmdk_fmt vmdk_check].
        * apply check_descriptor_iff. exact Hdesc.
        * apply (check_footer_iff _ (hreg hd) (set_fin (freg off fd) true)); [reflexivity|reflexivity|exact Hl|exact Hflen|].
          cbn [r_data hreg set_fin freg]. rewrite Hfd'. unfold footer_ok in *. rewrite F1, F2, F3, F4. exact Hfok.
    - split; [|split; [exact Hmatch|]].
      + unfold Insp_Engine.complete, finB. cbn [i_regs forallb snd].
        rewrite rcomplete_hreg, rcomplete_dreg. fold D. unfold dcomplete in Hdc. fold D in Hdc. rewrite Hdc.
        replace (64 <=? blen hd) with true by lia. reflexivity.
      + intros c Hc. cbn [i_checks finB In] in Hc. destruct Hc as [<-|[]]; cbn [f_check vmdk_fmt vmdk_check].
        apply check_descriptor_iff. exact Hdesc. }
  rewrite Hpass. reflexivity.
Qed.

(* fewer than 64 bytes: refused, whatever the bytes *)
Definition InvA0 (sofar : bytes) (s : ist vx) : Prop :=
  exists p x, s = stA sofar p x /\ (blen p < 4 -> p = sofar).

Lemma run_short cs : forall sofar s, blen (sofar ++ concat cs) < 64 -> InvA0 sofar s ->
  exists s', eat_all vmdk_fmt s cs = (s', None) /\ InvA0 (sofar ++ concat cs) s'.
Proof.
  induction cs as [|c cs IH]; intros sofar s Hl Hi; cbn [eat_all concat] in *.
  - rewrite app_nil_r. exists s. split; [reflexivity|exact Hi].
  - destruct Hi as [p [x [-> Hp]]]. rewrite app_assoc in Hl.
    assert (Hc : blen (sofar ++ c) < 64) by (rewrite blen_app in Hl; lia).
    rewrite eat_AA by assumption. rewrite app_assoc. apply IH; [exact Hl|].
    eexists. eexists. split; [reflexivity|]. destruct (4 <=? blen p) eqn:E; [lia|reflexivity].
Qed.

Theorem vmdk_short_refused cs : blen (concat cs) < 64 -> safety (fst (Insp_All.run F_vmdk cs)) = Refused.
Proof.
  intros Hl. rewrite run_vmdk. unfold run_fmt. rewrite init_A.
  destruct (run_short cs [] (stA [] [] (mkVx None VMDK_NOTFOUND)) Hl) as [s' [He [p [x [-> _]]]]].
  { exists [], (mkVx None VMDK_NOTFOUND). split; reflexivity. }
  rewrite He. cbn [fst safety app]. apply safety_incomplete_refused.
  unfold Insp_Engine.complete, Insp_Engine.finish, stA. cbn [i_regs map fst snd forallb hreg dreg0 r_end].
  fold (hreg (concat cs)). rewrite rcomplete_hreg. replace (64 <=? blen (concat cs)) with false by lia. reflexivity.
Qed.
