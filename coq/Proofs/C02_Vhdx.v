(* Proofs/C02_Vhdx.v — VHDX at the byte level, through C01's refinement theorem vhdx_refines_spec:
   outside the zones F2/F4, for all chunkings, safety_check() passes exactly when the whole-buffer
   specification says "complete and matching" (the only check is the null check) — and what finding F7 is
   in those terms: the specification's exception field is set and the verdict is Pass all the same. *)
Require Import OV.Base.Bytes OV.Base.Py OV.Base.Insp_Struct OV.Gen.Insp_Consts OV.Model.Insp_Engine.
Require Import OV.Model.Insp_Vhdx OV.Model.Insp_All OV.Model.C01_Vhdx OV.Model.C02.
Require Import OV.Proofs.C01_Vhdx.
Open Scope N_scope.

Lemma vx_verdict_pass b e c vs :
  v_safety (vx_verdict b e c vs) = Pass <->
  v_complete (vx_verdict b e c vs) = true /\ v_match (vx_verdict b e c vs) = Ok true.
Proof.
  unfold vx_verdict. cbn [v_safety v_complete v_match].
  destruct c; destruct (prefixb VHDX_MAGIC (nslice 0 VX_IDENT_LEN b)); split; intros H; try discriminate H;
    try (split; reflexivity); try reflexivity; destruct H as [H1 H2]; try discriminate H1; discriminate H2.
Qed.

Lemma vhdx_spec_pass b :
  v_safety (vhdx_spec b) = Pass <-> v_complete (vhdx_spec b) = true /\ v_match (vhdx_spec b) = Ok true.
Proof.
  unfold vhdx_spec. destruct (flen b <? VX_HDR_END); [apply vx_verdict_pass|].
  destruct (vx_region_table _) as [[mo|]|e]; try apply vx_verdict_pass.
  destruct (vx_meta_table _) as [[[io il]|]|e]; apply vx_verdict_pass.
Qed.

Theorem vhdx_pass_iff b cs :
  zone_vhdx_backptr b = false -> zone_vhdx_metasig b = false -> concat cs = b ->
  (safety (fst (Insp_All.run F_vhdx cs)) = Pass <->
   v_complete (vhdx_spec b) = true /\ v_match (vhdx_spec b) = Ok true).
Proof.
  intros Z1 Z2 Hb. rewrite <- vhdx_spec_pass. rewrite <- (vhdx_refines_spec b cs Z1 Z2 Hb). reflexivity.
Qed.

(* the specification's match is the 8-byte identifier, its completeness a statement about lengths *)
Lemma vhdx_spec_match b : v_match (vhdx_spec b) = Ok (prefixb VHDX_MAGIC (nslice 0 VX_IDENT_LEN b)).
Proof.
  unfold vhdx_spec. destruct (flen b <? VX_HDR_END); [reflexivity|].
  destruct (vx_region_table _) as [[mo|]|e]; try reflexivity.
  destruct (vx_meta_table _) as [[[io il]|]|e]; reflexivity.
Qed.

(* fewer than 256 KiB: never accepted *)
Theorem vhdx_short_refused b cs :
  concat cs = b -> flen b <? VX_HDR_END = true -> safety (fst (Insp_All.run F_vhdx cs)) = Refused.
Proof.
  intros Hb Hs.
  assert (Z1 : zone_vhdx_backptr b = false) by (unfold zone_vhdx_backptr; rewrite flen_blen in *; replace (VX_HDR_END <=? blen b) with false by lia; reflexivity).
  assert (Z2 : zone_vhdx_metasig b = false) by (unfold zone_vhdx_metasig; rewrite flen_blen in *; replace (VX_HDR_END <=? blen b) with false by lia; reflexivity).
  change (v_safety (verdict_of (Insp_All.run F_vhdx cs)) = Refused).
  rewrite (vhdx_refines_spec b cs Z1 Z2 Hb). unfold vhdx_spec. rewrite Hs. reflexivity.
Qed.

(* Finding F7 as a theorem: a stream with the vhdxfile identifier whose region table is invalid (bad signature
   or an entry count of 2048 or more).  For EVERY chunking the inspector raises ImageFormatError in eat_chunk
   and the frozen object nevertheless passes safety_check(). *)
Theorem vhdx_frozen_inspector_passes b cs e :
  concat cs = b -> flen b <? VX_HDR_END = false ->
  prefixb VHDX_MAGIC (nslice 0 VX_IDENT_LEN b) = true ->
  vx_region_table (nslice VX_HDR_OFF VX_HDR_LEN b) = Exn e ->
  snd (Insp_All.run F_vhdx cs) = Some e /\ safety (fst (Insp_All.run F_vhdx cs)) = Pass.
Proof.
  intros Hb Hl Hm Hrt.
  assert (Z1 : zone_vhdx_backptr b = false) by (unfold zone_vhdx_backptr; rewrite Hrt; apply andb_false_r).
  assert (Z2 : zone_vhdx_metasig b = false) by (unfold zone_vhdx_metasig; rewrite Hrt; apply andb_false_r).
  pose proof (vhdx_refines_spec b cs Z1 Z2 Hb) as H. unfold vhdx_spec in H. rewrite Hl, Hrt in H.
  unfold vx_verdict in H. rewrite Hm in H. unfold verdict_of in H. injection H as H1 _ _ _ H5.
  split; assumption.
Qed.
