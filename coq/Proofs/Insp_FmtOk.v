(* Proofs/Insp_FmtOk.v — every one of the ten inspectors satisfies the obligations of the engine
   invariant ([fmt_ok]): its hooks keep the retained-bytes invariant and create regions empty. *)
Require Import OV.Base.Bytes OV.Base.Py OV.Base.Insp_Struct OV.Gen.Insp_Consts OV.Model.Insp_Engine.
Require Import OV.Model.Insp_Raw OV.Model.Insp_Qcow2 OV.Model.Insp_Qed OV.Model.Insp_Vhd OV.Model.Insp_Vdi
               OV.Model.Insp_Iso OV.Model.Insp_Gpt OV.Model.Insp_Luks OV.Model.Insp_Vhdx OV.Model.Insp_Vmdk.
Require Import OV.Proofs.Insp_Engine.
Open Scope N_scope.

Definition K_any : rname -> bool -> Prop := fun _ _ => True.
Definition K_fixed : rname -> bool -> Prop := fun _ e => e = false.

Section Step.
Context {X : Type}.
Variable K : rname -> bool -> Prop.
Variable st : bytes.

(* one hook action: the invariant holds afterwards, regions are old or empty, _finished untouched *)
Definition Step (s s' : ist X) : Prop :=
  Inv K st s' /\ old_or_empty (i_regs s) (i_regs s') /\ i_fin s' = i_fin s.
Lemma Step_refl s : Inv K st s -> Step s s.
Proof. intros H. split; [exact H|]. split; [apply ooe_refl | reflexivity]. Qed.
Lemma Step_trans s s1 s2 : Step s s1 -> Step s1 s2 -> Step s s2.
Proof.
  intros (_ & Ho1 & Hf1) (HI & Ho2 & Hf2). split; [exact HI|]. split; [eapply ooe_trans; eassumption | congruence].
Qed.
Lemma Step_post s s' : Step s s' -> Inv K st s' /\ fresh_empty (i_regs s) (i_regs s') /\ i_fin s' = i_fin s.
Proof. intros (HI & Ho & Hf). split; [exact HI|]. split; [apply ooe_fresh; exact Ho | exact Hf]. Qed.
End Step.

Lemma post_ok_no_post {X} K (F : fmt X) : f_post F = no_post -> post_ok K F.
Proof.
  intros HF st s s' e HI Hp. rewrite HF in Hp. unfold no_post in Hp. inversion Hp; subst.
  apply Step_post. apply Step_refl. exact HI.
Qed.
Lemma rc_ok_no_rcomplete {X} K (F : fmt X) : f_rcomplete F = no_rcomplete -> rc_ok K F.
Proof. intros HF n st s s' e HI Hp. rewrite HF in Hp. unfold no_rcomplete in Hp. inversion Hp; subst. exact HI. Qed.

Ltac init_side :=
  split; [cbn; repeat constructor; cbn; intuition discriminate
         | cbn; repeat constructor; cbn; try discriminate; try reflexivity; try exact I; try lia].

Lemma static_fmt_ok (F : fmt unit) :
  f_post F = no_post -> f_rcomplete F = no_rcomplete ->
  NoDup (map fst (init_regions (f_id F))) ->
  Forall (fun p => (rs_end (snd p) = true -> 0 < rs_len (snd p)) /\ K_fixed (fst p) (rs_end (snd p))) (init_regions (f_id F)) ->
  fmt_ok K_fixed F.
Proof.
  intros H1 H2 H3 H4. split; [apply post_ok_no_post; exact H1|]. split; [apply rc_ok_no_rcomplete; exact H2|]. split; assumption.
Qed.

Lemma raw_fmt_ok : fmt_ok K_fixed raw_fmt.
Proof. apply static_fmt_ok; try reflexivity; cbn; repeat constructor. Qed.
Lemma qed_fmt_ok : fmt_ok K_fixed qed_fmt.
Proof. apply static_fmt_ok; try reflexivity; cbn; repeat constructor; cbn; try tauto; try discriminate. Qed.
Lemma vhd_fmt_ok : fmt_ok K_fixed vhd_fmt.
Proof. apply static_fmt_ok; try reflexivity; cbn; repeat constructor; cbn; try tauto; try discriminate. Qed.
Lemma vdi_fmt_ok : fmt_ok K_fixed vdi_fmt.
Proof. apply static_fmt_ok; try reflexivity; cbn; repeat constructor; cbn; try tauto; try discriminate. Qed.
Lemma gpt_fmt_ok : fmt_ok K_fixed gpt_fmt.
Proof. apply static_fmt_ok; try reflexivity; cbn; repeat constructor; cbn; try tauto; try discriminate. Qed.
Lemma luks_fmt_ok : fmt_ok K_fixed luks_fmt.
Proof. apply static_fmt_ok; try reflexivity; cbn; repeat constructor; cbn; try tauto; try discriminate. Qed.
Lemma iso_fmt_ok : fmt_ok K_fixed iso_fmt.
Proof. apply static_fmt_ok; try reflexivity; cbn; repeat constructor; cbn; try tauto; try discriminate; intuition discriminate. Qed.

Lemma qcow_fmt_ok : fmt_ok K_fixed qcow_fmt.
Proof.
  split; [apply post_ok_no_post; reflexivity|]. split.
  - intros n st s s' e HI Hc. cbn [f_rcomplete qcow_fmt] in Hc. unfold qcow_rcomplete in Hc.
    destruct (get_region R_header s); [|inversion Hc; subst; exact HI].
    destruct (unpack sf_qcow_hdr _); [|inversion Hc; subst; exact HI].
    destruct (qcow_match _) as [[|]|]; inversion Hc; subst; repeat apply Inv_set_ext; exact HI.
  - split; cbn; repeat constructor; cbn; try tauto; try discriminate.
Qed.

(* ---------- VHDX ---------- *)
Lemma vhdx_rt_loop_kind k rest sp : vhdx_rt_loop k rest = Ok (Some sp) -> rs_end sp = false.
Proof.
  revert rest. induction k as [|k IH]; intros rest H; cbn [vhdx_rt_loop] in H; [discriminate|].
  destruct (vhdx_guid_is _ _) as [[|]|]; cbn [bind] in H; try discriminate.
  - destruct (unpack sf_vhdx_rt_rest _); cbn [bind] in H; [|discriminate]. inversion H; subst. reflexivity.
  - apply (IH _ H).
Qed.

Lemma vhdx_find_meta_entry_spec g (s s' : ist unit) r :
  vhdx_find_meta_entry g s = (s', r) ->
  (s' = s \/ exists m, rget R_metadata (i_regs s) = Some m /\
                       s' = set_regs s (rset R_metadata (set_len m (flen (r_data m))) (i_regs s)))
  /\ (forall sp, r = Ok (Some sp) -> rs_end sp = false).
Proof.
  unfold vhdx_find_meta_entry, get_region. intros H.
  destruct (rget R_metadata (i_regs s)) as [m|] eqn:Hg; [|inversion H; subst; split; [left; reflexivity | discriminate]].
  destruct (flen (r_data m) <? VHDX_MT_MIN); [inversion H; subst; split; [left; reflexivity | discriminate]|].
  destruct (unpack sf_vhdx_mt_hdr _); [|inversion H; subst; split; [left; reflexivity | discriminate]].
  destruct (negb (beq _ _)); [inversion H; subst; split; [left; reflexivity | discriminate]|].
  destruct (flen (r_data m) <? _); [inversion H; subst; split; [left; reflexivity | discriminate]|].
  destruct (VHDX_MT_LIMIT <=? _); [inversion H; subst; split; [left; reflexivity | discriminate]|].
  destruct (vhdx_mt_loop _ _ _) as [[[io il]|]|]; inversion H; subst; (split; [|try discriminate]).
  - right. exists m. split; reflexivity.
  - intros sp Hs. inversion Hs; subst. reflexivity.
  - left; reflexivity.
  - left; reflexivity.
Qed.

Lemma vhdx_post_ok : post_ok K_fixed vhdx_fmt.
Proof.
  intros st s s' e HI Hp. cbn [f_post vhdx_fmt] in Hp. unfold vhdx_post in Hp.
  destruct (get_region R_header s) as [h|]; [|inversion Hp; subst; apply Step_post, Step_refl; exact HI].
  destruct (rcomplete h && negb (has_region R_metadata s)).
  - apply Step_post.
    unfold vhdx_find_meta_region in Hp. destruct (get_region R_header s) as [h'|]; cbn [bind] in Hp; [|inversion Hp; subst; apply Step_refl; exact HI].
    destruct (unpack sf_vhdx_rt_hdr _); cbn [bind] in Hp; [|inversion Hp; subst; apply Step_refl; exact HI].
    destruct (negb (_ =? VHDX_REGI)); [inversion Hp; subst; apply Step_refl; exact HI|].
    destruct (VHDX_RT_LIMIT <=? _); [inversion Hp; subst; apply Step_refl; exact HI|].
    destruct (vhdx_rt_loop _ _) as [[sp|]|] eqn:Hl; try (inversion Hp; subst; apply Step_refl; exact HI).
    apply vhdx_rt_loop_kind in Hl.
    eapply Inv_new_region; [exact HI| | |exact Hp]; [rewrite Hl; discriminate | exact Hl].
  - destruct (has_region R_metadata s && negb (has_region R_vds s)); [|inversion Hp; subst; apply Step_post, Step_refl; exact HI].
    destruct (vhdx_find_meta_entry VHDX_GUID_VIRTUAL_DISK_SIZE s) as [s1 r] eqn:Hf.
    apply vhdx_find_meta_entry_spec in Hf. destruct Hf as [Hs1 Hk].
    assert (HI1 : Inv K_fixed st s1 /\ ids (i_regs s1) = ids (i_regs s) /\ i_fin s1 = i_fin s).
    { destruct Hs1 as [->|(m & Hg & ->)]; [split; [exact HI | split; reflexivity]|].
      destruct (Inv_region_RI _ _ _ _ _ HI Hg) as [(Hlen & Hsl & He) Hkm]. unfold K_fixed in Hkm.
      split; [|split; [|reflexivity]].
      - eapply Inv_rset; [exact HI | exact Hg | | exact Hkm].
        unfold RI. cbn [set_len r_data r_len r_off r_end]. rewrite flen_blen. split; [lia|]. split; [exact Hsl|].
        intros H. rewrite Hkm in H. discriminate.
      - cbn [set_regs i_regs]. eapply rset_ids; [exact Hg | reflexivity]. }
    destruct HI1 as (HI1 & Hids & Hfin1).
    assert (HS : Step K_fixed st s1 s').
    { destruct r as [[sp|]|].
      - eapply Inv_new_region; [exact HI1 | rewrite (Hk sp eq_refl); discriminate | exact (Hk sp eq_refl) | exact Hp].
      - inversion Hp; subst. apply Step_refl; exact HI1.
      - inversion Hp; subst. apply Step_refl; exact HI1. }
    destruct HS as (HI' & Ho & Hf). split; [exact HI'|]. split; [eapply ooe_ids; eassumption | congruence].
Qed.

Lemma vhdx_fmt_ok : fmt_ok K_fixed vhdx_fmt.
Proof.
  split; [exact vhdx_post_ok|]. split; [apply rc_ok_no_rcomplete; reflexivity|].
  split; cbn; repeat constructor; cbn; try tauto; try discriminate; intuition discriminate.
Qed.

(* ---------- VMDK ---------- *)
Lemma vmdk_footer_len_pos : 0 < VMDK_FOOTER_LEN.
Proof. reflexivity. Qed.

Lemma vmdk_post_ok : post_ok K_any vmdk_fmt.
Proof.
  intros st s s' e HI Hp. apply Step_post. cbn [f_post vmdk_fmt] in Hp. unfold vmdk_post in Hp.
  destruct (rget R_header (i_regs s)) as [h|]; [|inversion Hp; subst; apply Step_refl; exact HI].
  destruct (negb (rcomplete h)); [inversion Hp; subst; apply Step_refl; exact HI|].
  destruct (vmdk_parse_sparse s R_header 0) as [[[[[sig ver] dsec] dnum] gd]|ex]; [|inversion Hp; subst; apply Step_refl; exact HI].
  destruct (negb (beq sig VMDK_MAGIC_PP)).
  { destruct (forallb ascii_text (r_data h)); [|inversion Hp; subst; apply Step_refl; exact HI].
    eapply Inv_delete_region; [exact HI | exact Hp]. }
  destruct (negb _); [inversion Hp; subst; apply Step_refl; exact HI|].
  (* the footer region and its check *)
  match type of Hp with (match ?m with _ => _ end) = _ => destruct m as [s1 e1] eqn:Hm end.
  assert (HS1 : Step K_any st s s1).
  { destruct ((gd =? VMDK_GD_AT_END) && negb (has_region R_footer s)); [|inversion Hm; subst; apply Step_refl; exact HI].
    destruct (new_region R_footer _ s) as [sa ea] eqn:Hn.
    assert (HSa : Step K_any st s sa).
    { eapply Inv_new_region; [exact HI | | | exact Hn]; [intros _; exact vmdk_footer_len_pos | exact I]. }
    destruct ea; [inversion Hm; subst; exact HSa|].
    eapply Step_trans; [exact HSa|]. eapply Inv_add_check; [exact (proj1 HSa) | exact Hm]. }
  destruct e1; [inversion Hp; subst; exact HS1|].
  destruct (negb (_ =? VMDK_DESC_OFFSET)); [inversion Hp; subst; exact HS1|].
  destruct (get_region R_descriptor s1) as [d|]; [|inversion Hp; subst; exact HS1].
  destruct (r_off d =? 0); [|inversion Hp; subst; exact HS1].
  destruct (delete_region R_descriptor s1) as [s2 e2] eqn:Hd.
  assert (HS2 : Step K_any st s1 s2) by (eapply Inv_delete_region; [exact (proj1 HS1) | exact Hd]).
  destruct e2; [inversion Hp; subst; eapply Step_trans; eassumption|].
  eapply Step_trans; [exact HS1|]. eapply Step_trans; [exact HS2|].
  eapply Inv_new_region; [exact (proj1 HS2) | | | exact Hp]; [cbn [rs_end]; discriminate | exact I].
Qed.

Lemma vmdk_rc_ok : rc_ok K_any vmdk_fmt.
Proof.
  intros n st s s' e HI Hc. cbn [f_rcomplete vmdk_fmt] in Hc. unfold vmdk_rcomplete, vmdk_parse_descriptor in Hc.
  destruct n; try (inversion Hc; subst; exact HI).
  destruct (get_region R_descriptor s); [|inversion Hc; subst; exact HI].
  destruct (negb _); inversion Hc; subst; [exact HI | apply Inv_set_ext; exact HI].
Qed.

Lemma vmdk_fmt_ok : fmt_ok K_any vmdk_fmt.
Proof.
  split; [exact vmdk_post_ok|]. split; [exact vmdk_rc_ok|].
  split; cbn; repeat constructor; cbn; try tauto; try discriminate; intuition discriminate.
Qed.

(* region_complete callbacks: Python iterates a SET of newly complete regions (order unspecified), the
   model uses dictionary order.  The order is immaterial: only qcow2 (one region in its life) and vmdk
   (only the name 'descriptor' does anything) have a non-trivial callback. *)
Lemma vmdk_callback_only_descriptor n (s : ist vx) : n <> R_descriptor -> vmdk_rcomplete n s = (s, None).
Proof. intros H. destruct n; try reflexivity. contradiction. Qed.
Lemma unit_formats_no_callback (F : fmt unit) n s :
  In F [raw_fmt; qed_fmt; vhd_fmt; vdi_fmt; iso_fmt; gpt_fmt; luks_fmt; vhdx_fmt] -> f_rcomplete F n s = (s, None).
Proof. cbn [In]. intros H. repeat (destruct H as [<-|H]; [reflexivity|]). contradiction. Qed.
