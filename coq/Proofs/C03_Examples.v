(* Proofs/C03_Examples.v — readings of the signature predicates on the regenerated constants, and
   concrete runs showing that the hypotheses of the C03 theorems can be met (non-vacuity). *)
Require Import OV.Base.Bytes OV.Base.Py OV.Base.Str OV.Base.C06_WrapShape OV.Base.Insp_Struct.
Require Import OV.Gen.Insp_Consts OV.Gen.C06_Wrapper OV.Model.Insp_Engine OV.Model.Insp_All OV.Model.Insp_Vmdk.
Require Import OV.Model.Wrap OV.Model.C03.
Require Import OV.Proofs.Insp_All OV.Proofs.C03_Total OV.Proofs.C03_Sig OV.Proofs.C03_Wrap OV.Proofs.C03_Stable OV.Proofs.C03_Props.
Open Scope N_scope.

(* ---- what the signature predicates say on the pinned tree (values regenerated from /repo) *)
Lemma sig_reading_qcow2 b : sigb F_qcow2 b = (512 <=? blen b) && prefixb [81;70;73;251] b.     (* QFI\xfb *)
Proof. cbn [sigb]. unfold long_enough. cbn [init_regions forallb snd rs_off rs_len]. rewrite andb_true_r. reflexivity. Qed.
Lemma sig_reading_qed b : sigb F_qed b = (512 <=? blen b) && prefixb [81;69;68;0] b.            (* QED\0 *)
Proof. cbn [sigb]. unfold long_enough. cbn [init_regions forallb snd rs_off rs_len]. rewrite andb_true_r. reflexivity. Qed.
Lemma sig_reading_vhd b : sigb F_vhd b = prefixb [99;111;110;101;99;116;105;120] b.               (* conectix *)
Proof. reflexivity. Qed.
Lemma sig_reading_vhdx b : sigb F_vhdx b = prefixb [118;104;100;120;102;105;108;101] b.           (* vhdxfile *)
Proof. reflexivity. Qed.
Lemma sig_reading_vdi b : sigb F_vdi b = (512 <=? blen b) && (le_val (bsub 64 68 b) =? 3201962111).   (* 0xbeda107f at 0x40 *)
Proof. cbn [sigb]. unfold long_enough. cbn [init_regions forallb snd rs_off rs_len]. rewrite andb_true_r. reflexivity. Qed.
Lemma sig_reading_iso b : sigb F_iso b =
  (32768 <=? blen b) && (34816 <=? blen b) &&
  mem_str (bsub 32769 32774 b) [[67;68;48;48;49]; [78;83;82;48;50]; [78;83;82;48;51]].           (* CD001 NSR02 NSR03 *)
Proof. cbn [sigb]. unfold long_enough. cbn [init_regions forallb snd rs_off rs_len]. rewrite andb_true_r. reflexivity. Qed.
Lemma sig_reading_gpt b : sigb F_gpt b =
  (512 <=? blen b) && (le_val (bsub 510 512 b) =? 43605) && negb ((bnth 16 b =? 2) && (bnth 21 b =? 248)).   (* 55 AA, not a FAT boot sector *)
Proof. cbn [sigb]. unfold long_enough. cbn [init_regions forallb snd rs_off rs_len]. rewrite andb_true_r. reflexivity. Qed.
Lemma sig_reading_luks b : sigb F_luks b = beq (btake 6 b) [76;85;75;83;186;190].                 (* LUKS\xba\xbe *)
Proof. reflexivity. Qed.
Lemma sig_reading_vmdk b : sigb F_vmdk b =
  prefixb [75;68;77;86] b ||
  ((64 <=? blen b) && forallb ascii_text (btake 64 b) &&
   occursb [99;114;101;97;116;101;116;121;112;101;61;34] (lower_ascii (OV.Model.C01_Vmdk.upto_nul b))).
  (* KDMV; or text-descriptor mode, inside zone F1: 64 text bytes and the createtype token before the first NUL *)
Proof. reflexivity. Qed.

(* ---- runs *)
Definition zeros (n : nat) : bytes := repeatN 0 n.
(* a 600-byte stream starting with 'conectix', read as 100 + 500 bytes *)
Definition ex_vhd : list bytes := [VHD_MAGIC ++ zeros 92; zeros 500].
(* 'QFI\xfb' + 508 zero bytes: the qcow2 magic with a complete header, and an MBR signature at 510: two formats *)
Definition ex_two : list bytes := [QCOW_MAGIC ++ zeros 506 ++ [85; 170]; zeros 88].
Definition names (l : list str) := l.

Example ex_vhd_detected :
  exists w, read_and_closed None [] ex_vhd w /\ cw_format_name w = Ok (Some (fmt_name F_vhd)).
Proof.
  destruct (no_expectation_reads_through [] ex_vhd) as (w1 & H1).
  exists (cw_close w1). split; [destruct H1 as (tr & un & H1); exists w1, tr, un; auto|].
  assert (Hrc : read_and_closed None [] ex_vhd (cw_close w1)) by (destruct H1 as (tr & un & H1); exists w1, tr, un; auto).
  rewrite (read_and_closed_is _ _ _ _ Hrc). vm_compute. reflexivity.
Qed.

Example ex_two_formats_raise :
  exists w, read_and_closed None [] ex_two w /\ cw_format w = Exn ImageFormatError.
Proof.
  destruct (no_expectation_reads_through [] ex_two) as (w1 & H1).
  assert (Hrc : read_and_closed None [] ex_two (cw_close w1)) by (destruct H1 as (tr & un & H1); exists w1, tr, un; auto).
  exists (cw_close w1). split; [exact Hrc|].
  rewrite (read_and_closed_is _ _ _ _ Hrc). vm_compute. reflexivity.
Qed.

(* with allowed_formats = ['vhd', 'raw'] the decision is reported after the first 512 bytes already *)
Definition ex_allowed : list str := [fmt_name F_vhd; fmt_name F_raw].
Definition ex_vhd512 : list bytes := [VHD_MAGIC ++ zeros 504].
Example ex_early_decision :
  exists w m, read_so_far None ex_allowed ex_vhd512 w /\ cw_format w = Ok (Some m) /\ s_name m = fmt_name F_vhd.
Proof.
  destruct (no_expectation_reads_through ex_allowed ex_vhd512) as (w1 & H1).
  destruct (read_so_far_slots _ _ _ _ H1) as (S1 & F1 & E1).
  assert (Hn : cw_format_name w1 = Ok (Some (fmt_name F_vhd))).
  { rewrite (wrapper_eta w1 _ _ _ S1 F1 E1). vm_compute. reflexivity. }
  destruct (format_of_name w1 _ Hn) as (m & Hm & Hnm). exists w1, m. auto.
Qed.

Example ex_static_allowed : forallb is_static (allowed_fmts [fmt_name F_qcow2; fmt_name F_vhd; fmt_name F_iso; fmt_name F_raw]) = true.
Proof. reflexivity. Qed.

(* ---- the zone hypotheses and the abort hypothesis can be met *)
Require Import OV.Model.C01_Vhdx OV.Proofs.C01_Vhdx_Witness OV.Proofs.C01_Vmdk_Witness OV.Proofs.C03_All OV.Proofs.C03_Abort.

Example ex_vhdx_outside : in_zone F_vhdx wf_image = false.
Proof. destruct wf_image_outside as [H1 H2]. cbn [in_zone]. rewrite H1, H2. reflexivity. Qed.
Example ex_vmdk_outside : in_zone F_vmdk w_sparse = false.
Proof. destruct w_sparse_outside as [H1 H2]. cbn [in_zone]. rewrite H1, H2. reflexivity. Qed.

Example ex_outside_zones : outside_zones [fmt_name F_vhdx; fmt_name F_qcow2; fmt_name F_raw] wf_image.
Proof.
  intros f Hf. unfold allowed_fmts in Hf. apply filter_In in Hf. destruct Hf as [_ Hf].
  destruct f; try reflexivity; try exact ex_vhdx_outside; vm_compute in Hf; discriminate Hf.
Qed.

(* expected_format = qcow2 on 512 zero bytes: the qcow2 inspector is complete without matching after the first chunk *)
Example ex_abort : first_abort istate eat complete cmatch (init F_qcow2) [zeros 512; zeros 10] = Some (0%nat, AbMismatch).
Proof. vm_compute. reflexivity. Qed.

(* a run in which an inspector RAISES and is frozen by the wrapper: KDMV with version 9 ("Unsupported format
   version": ImageFormatError from VMDKInspector.post_process); the read goes through (no expected format), the vmdk
   slot is in the errored set, and format after close is still vmdk (formats does not drop errored inspectors) *)
Definition ex_frozen : list bytes := [VMDK_MAGIC ++ [9; 0; 0; 0] ++ zeros 504; zeros 100].
Example ex_frozen_run :
  exists w, read_and_closed None [] ex_frozen w /\ cw_format_name w = Ok (Some (fmt_name F_vmdk)) /\
            s_err (slot_closed ex_frozen F_vmdk) = true /\ In (slot_closed ex_frozen F_vmdk) (w_slots w).
Proof.
  destruct (no_expectation_reads_through [] ex_frozen) as (w1 & H1).
  assert (Hrc : read_and_closed None [] ex_frozen (cw_close w1)) by (destruct H1 as (tr & un & H1); exists w1, tr, un; auto).
  exists (cw_close w1). split; [exact Hrc|]. rewrite (read_and_closed_is _ _ _ _ Hrc).
  split; [vm_compute; reflexivity|]. split; [vm_compute; reflexivity|]. apply closed_slot_in. reflexivity.
Qed.
