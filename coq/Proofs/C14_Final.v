(* Proofs/C14_Final.v — statements in terms of the declarative literal grammar, on the
   translated source, and is_valid_boolstr for all strings. *)
From Coq Require Import String.
Require Import OV.Base.Bytes OV.Base.Py OV.Base.PyInt OV.Base.Str.
Require Import OV.Model.C14_Py OV.Gen.C14 OV.Model.C14.
Require Import OV.Proofs.C14 OV.Proofs.C14_Str OV.Proofs.C14_Int OV.Proofs.C14_IntGrammar OV.Proofs.C14_Bool OV.Proofs.C14_Num.
Open Scope Z_scope.

(* validate_integer returns z exactly when str(value) is an integer literal denoting z and z is within the bounds *)
Lemma validate_integer_literal lim v lo hi z :
  validate_integer lim v lo hi = Ok z <->
  (exists s, py_str lim v = Ok s /\ int_literal lim s z) /\
  (forall m, lo = Some m -> m <= z) /\ (forall m, hi = Some m -> z <= m).
Proof.
  rewrite validate_integer_ok. unfold int_of_text. split.
  - intros (H & Hlo & Hhi). split; [|split; assumption].
    destruct (py_str lim v) as [s|e]; [|discriminate]. exists s. split; [reflexivity|].
    apply int_parse_iff_literal. exact H.
  - intros ((s & Hs & Hl) & Hlo & Hhi). rewrite Hs. split; [apply int_parse_iff_literal; exact Hl|split; assumption].
Qed.

(* ValueError exactly when it is not such a literal or out of bounds *)
Lemma validate_integer_rejects lim v lo hi :
  validate_integer lim v lo hi = Exn ValueError <->
  ~ exists z, (exists s, py_str lim v = Ok s /\ int_literal lim s z) /\
              (forall m, lo = Some m -> m <= z) /\ (forall m, hi = Some m -> z <= m).
Proof.
  split.
  - intros H (z & Hz). apply validate_integer_literal in Hz. congruence.
  - intros H. destruct (validate_integer_total lim v lo hi) as [(z & Hz)|Hz]; [|exact Hz].
    exfalso. apply H. exists z. apply validate_integer_literal. exact Hz.
Qed.

(* the same on the translated source, with the None / 0 corners spelled out *)
Lemma gen_validate_integer_literal lim v lo hi z :
  gen_validate_integer lim v lo hi = Ok z <->
  (exists s, py_str lim v = Ok s /\ int_literal lim s z) /\
  (forall m, lo = Some m -> m <= z) /\ (forall m, hi = Some m -> z <= m).
Proof. rewrite validate_integer_equiv. apply validate_integer_literal. Qed.

Lemma gen_validate_integer_corners lim v z : int_of_text lim v = Some z ->
  gen_validate_integer lim v None None = Ok z /\
  gen_validate_integer lim v (Some 0) None = (if z <? 0 then Exn ValueError else Ok z) /\
  gen_validate_integer lim v None (Some 0) = (if z >? 0 then Exn ValueError else Ok z) /\
  gen_validate_integer lim v (Some 0) (Some 0) = (if z =? 0 then Ok z else Exn ValueError).
Proof.
  intros H. rewrite !validate_integer_equiv, !validate_integer_spec, H. unfold in_range, below, above.
  repeat split; try reflexivity.
  - destruct (z <? 0); reflexivity.
  - destruct (z >? 0); reflexivity.
  - destruct (z <? 0) eqn:E1; destruct (z >? 0) eqn:E2; destruct (z =? 0) eqn:E3; try reflexivity; lia.
Qed.

Lemma gen_check_string_length_spec lim v mn mx :
  (gen_check_string_length lim v mn mx = Ok tt <->
     exists s, v = PStr s /\ mn <= zlen s /\ (forall m, mx = Some m -> m = 0 \/ zlen s <= m)) /\
  (gen_check_string_length lim v mn mx = Exn TypeError <-> is_str v = false) /\
  (gen_check_string_length lim v mn mx = Exn ValueError <->
     exists s, v = PStr s /\ (zlen s < mn \/ exists m, mx = Some m /\ m <> 0 /\ m < zlen s)) /\
  (gen_check_string_length lim v mn mx = Ok tt \/ gen_check_string_length lim v mn mx = Exn TypeError \/
   gen_check_string_length lim v mn mx = Exn ValueError).
Proof. rewrite check_string_length_equiv. apply check_string_length_spec. Qed.

Lemma gen_check_string_length_corners lim s mn : mn <= zlen s ->
  gen_check_string_length lim (PStr s) mn None = Ok tt /\
  gen_check_string_length lim (PStr s) mn (Some 0) = Ok tt /\
  gen_check_string_length lim (PStr s) mn (Some (zlen s)) = Ok tt /\
  (0 < zlen s -> gen_check_string_length lim (PStr s) mn (Some (zlen s - 1)) = if zlen s =? 1 then Ok tt else Exn ValueError).
Proof.
  intros H. rewrite !check_string_length_equiv. unfold check_string_length.
  replace (zlen s <? mn) with false by lia. repeat split; try reflexivity.
  - destruct (zlen s =? 0) eqn:E; cbn [negb andb]; [reflexivity|]. replace (zlen s >? zlen s) with false by lia. reflexivity.
  - intros Hp. destruct (zlen s =? 1) eqn:E.
    + replace (zlen s - 1 =? 0) with true by lia. reflexivity.
    + replace (zlen s - 1 =? 0) with false by lia. replace (zlen s >? zlen s - 1) with true by lia. reflexivity.
Qed.

(* is_valid_boolstr, all strings: valid exactly when str.lower() of the text is in the generated tuples *)
Lemma is_valid_boolstr_all0 lim s :
  (is_valid_boolstr lim (PStr s) = Ok true <-> In (py_lower s) (TRUE_STRINGS ++ FALSE_STRINGS)) /\
  (is_valid_boolstr lim (PStr s) = Ok false <-> ~ In (py_lower s) (TRUE_STRINGS ++ FALSE_STRINGS)).
Proof.
  rewrite is_valid_boolstr_spec. unfold all_words.
  pose proof (mem_str_In (py_lower s) (TRUE_STRINGS ++ FALSE_STRINGS)) as M.
  destruct (mem_str (py_lower s) (TRUE_STRINGS ++ FALSE_STRINGS)) eqn:E.
  - split; [split; [intros _; apply M; reflexivity|reflexivity]|].
    split; [discriminate|]. intros H. exfalso. apply H, M. reflexivity.
  - split; [split; [discriminate|]|].
    + intros H. apply M in H. discriminate.
    + split; [|reflexivity]. intros _ H. apply M in H. discriminate.
Qed.

Lemma is_valid_boolstr_all lim s :
  (is_valid_boolstr lim (PStr s) = Ok true <-> In (py_lower s) (TRUE_STRINGS ++ FALSE_STRINGS)) /\
  (is_valid_boolstr lim (PStr s) = Ok false <-> ~ In (py_lower s) (TRUE_STRINGS ++ FALSE_STRINGS)) /\
  (gen_is_valid_boolstr lim (PStr s) = is_valid_boolstr lim (PStr s)).
Proof.
  destruct (is_valid_boolstr_all0 lim s) as [H1 H2]. split; [exact H1|]. split; [exact H2|apply is_valid_boolstr_equiv].
Qed.

(* for any value: through str(value) *)
Lemma is_valid_boolstr_value lim v s : py_str lim v = Ok s ->
  is_valid_boolstr lim v = Ok (mem_str (py_lower s) (TRUE_STRINGS ++ FALSE_STRINGS)).
Proof. intros H. unfold is_valid_boolstr, bind. rewrite H. reflexivity. Qed.
