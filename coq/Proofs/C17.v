(* Proofs/C17.v — radix round trip and order preservation for the version helpers *)
Require Import OV.Base.Bytes OV.Base.Py OV.Base.PyInt OV.Base.Str OV.Base.Regex.
Require Import OV.Gen.Versionutils OV.Model.C17.
Open Scope Z_scope.

(* The two radices come from the source; everything below needs them equal and
   >= 2.  The component bound of the theorems is [radix - 1] (999 on the pinned
   tree), not a literal. *)
Lemma radix_agree : radix_to_int = radix_to_str.
Proof. reflexivity. Qed.
Lemma radix_ge2 : 2 <= radix_to_str.
Proof. unfold radix_to_str. lia. Qed.

Definition R := radix_to_str.
Definition comp_ok (c : Z) : Prop := 0 <= c < R.

(* value of a component list given least-significant first *)
Fixpoint val_lsf (l : list Z) : Z :=
  match l with [] => 0 | c :: t => c + R * val_lsf t end.

Lemma fold_val t x : fold_left (fun a y => a * radix_to_int + y) t x
                     = val_lsf (rev t) + x * R ^ Z.of_nat (length t).
Proof.
  revert x. induction t as [|y t IH]; intros x.
  - cbn. lia.
  - cbn [fold_left rev length]. rewrite IH.
    assert (Hs : forall a b, val_lsf (a ++ [b]) = val_lsf a + b * R ^ Z.of_nat (length a)).
    { clear. induction a as [|c a IH]; intros b; cbn [val_lsf app length].
      - cbn. lia.
      - rewrite IH. replace (Z.of_nat (S (length a))) with (Z.succ (Z.of_nat (length a))) by lia.
        rewrite Z.pow_succ_r by lia. lia. }
    rewrite Hs, rev_length.
    replace (Z.of_nat (S (length t))) with (Z.succ (Z.of_nat (length t))) by lia.
    rewrite Z.pow_succ_r by lia. rewrite radix_agree. fold R. lia.
Qed.

Lemma tuple_to_int_val v : v <> [] -> tuple_to_int v = Ok (val_lsf (rev v)).
Proof.
  destruct v as [|x t]; [congruence|]. intros _. cbn [tuple_to_int]. f_equal.
  rewrite fold_val. cbn [rev].
  assert (Hs : forall a b, val_lsf (a ++ [b]) = val_lsf a + b * R ^ Z.of_nat (length a)).
  { clear. induction a as [|c a IH]; intros b; cbn [val_lsf app length].
    - cbn. lia.
    - rewrite IH. replace (Z.of_nat (S (length a))) with (Z.succ (Z.of_nat (length a))) by lia.
      rewrite Z.pow_succ_r by lia. lia. }
  rewrite Hs, rev_length. reflexivity.
Qed.

Lemma val_lsf_nonneg l : Forall comp_ok l -> 0 <= val_lsf l.
Proof.
  induction 1 as [|c t Hc _ IH]; cbn [val_lsf]; [lia|].
  unfold comp_ok in Hc. pose proof radix_ge2. fold R in H. nia.
Qed.

Lemma val_lsf_pos l : Forall comp_ok l -> l <> [] -> last l 1 <> 0 -> 0 < val_lsf l.
Proof.
  pose proof radix_ge2 as HR. fold R in HR.
  induction 1 as [|c t Hc Ht IH]; intros Hne Hlast; [congruence|].
  pose proof (val_lsf_nonneg t Ht) as Hnn. unfold comp_ok in Hc.
  destruct t as [|d t'].
  - cbn in Hlast. cbn [val_lsf]. lia.
  - assert (0 < val_lsf (d :: t')) by (apply IH; [discriminate|exact Hlast]).
    change (val_lsf (c :: d :: t')) with (c + R * val_lsf (d :: t')). nia.
Qed.

(* the loop peels components off, least significant first *)
Lemma ver_loop_val l : forall f acc,
  Forall comp_ok l -> last l 1 <> 0 -> val_lsf l < 2 ^ Z.of_nat f ->
  ver_loop (S f) (val_lsf l) acc = Some (map dec_of_Z (rev l) ++ acc).
Proof.
  pose proof radix_ge2 as HR. fold R in HR.
  induction l as [|c t IH]; intros f acc Hok Hlast Hlt.
  - reflexivity.
  - inversion Hok as [|c' t' Hc Ht]; subst.
    pose proof (val_lsf_nonneg t Ht) as Hnn.
    assert (Hnz : val_lsf (c :: t) <> 0).
    { pose proof (val_lsf_pos (c :: t) Hok). assert (c :: t <> []) by discriminate. intuition lia. }
    cbn [ver_loop]. destruct (val_lsf (c :: t) =? 0) eqn:E; [lia|]. clear E.
    fold R.
    assert (Hdiv : val_lsf (c :: t) / R = val_lsf t).
    { cbn [val_lsf]. unfold comp_ok in Hc. rewrite Z.mul_comm, Z.div_add by lia.
      rewrite Z.div_small by lia. lia. }
    rewrite Hdiv.
    replace (val_lsf (c :: t) - val_lsf t * R) with c by (cbn [val_lsf]; lia).
    destruct f as [|f].
    { change (2 ^ Z.of_nat 0) with 1 in Hlt.
      pose proof (val_lsf_nonneg (c :: t) Hok). lia. }
    rewrite IH.
    + cbn [rev map]. rewrite map_app, <- app_assoc. reflexivity.
    + exact Ht.
    + destruct t as [|d t']; [cbn; lia|exact Hlast].
    + cbn [val_lsf] in Hlt. unfold comp_ok in Hc.
      replace (Z.of_nat (S f)) with (Z.succ (Z.of_nat f)) in Hlt by lia.
      rewrite Z.pow_succ_r in Hlt by lia. nia.
Qed.

Lemma ver_fuel_enough v : 0 <= v -> v < 2 ^ Z.of_nat (S (Z.to_nat (Z.log2 (Z.abs v)))).
Proof.
  intros Hv. rewrite Z.abs_eq by lia.
  destruct (Z.eq_dec v 0) as [->|Hnz]; [cbn; lia|].
  replace (Z.of_nat (S (Z.to_nat (Z.log2 v)))) with (Z.succ (Z.log2 v))
    by (pose proof (Z.log2_nonneg v); lia).
  apply Z.log2_spec. lia.
Qed.

Lemma last_rev_hd (v : list Z) d : last (rev v) d = hd d v.
Proof.
  destruct v as [|x t]; [reflexivity|]. cbn [rev hd].
  rewrite last_last. reflexivity.
Qed.

Lemma Forall_rev' {A} (P : A -> Prop) l : Forall P l -> Forall P (rev l).
Proof. intros H. apply Forall_forall. intros x Hx. apply in_rev in Hx.
  rewrite Forall_forall in H. auto. Qed.

Theorem version_roundtrip_tuple (v : list Z) :
  v <> [] -> Forall comp_ok v -> hd 1 v <> 0 ->
  exists n, tuple_to_int v = Ok n /\
            convert_version_to_str n = Some (join [version_sep] (map dec_of_Z v)).
Proof.
  intros Hne Hok Hhd. exists (val_lsf (rev v)). split; [apply tuple_to_int_val; exact Hne|].
  unfold convert_version_to_str, ver_fuel.
  rewrite ver_loop_val.
  - rewrite rev_involutive, app_nil_r. reflexivity.
  - apply Forall_rev'. exact Hok.
  - rewrite last_rev_hd. exact Hhd.
  - apply ver_fuel_enough. apply val_lsf_nonneg, Forall_rev', Hok.
Qed.

(* order: for equal lengths, comparing integers = comparing tuples lexicographically *)
Fixpoint lex_cmp (a b : list Z) : comparison :=
  match a, b with
  | [], [] => Eq
  | [], _ => Lt
  | _, [] => Gt
  | x :: a', y :: b' => match x ?= y with Eq => lex_cmp a' b' | c => c end
  end.

Lemma val_lsf_bound l : Forall comp_ok l -> val_lsf l < R ^ Z.of_nat (length l).
Proof.
  pose proof radix_ge2 as HR. fold R in HR.
  induction 1 as [|c t Hc Ht IH]; cbn [val_lsf length].
  - cbn. lia.
  - replace (Z.of_nat (S (length t))) with (Z.succ (Z.of_nat (length t))) by lia.
    rewrite Z.pow_succ_r by lia. unfold comp_ok in Hc. nia.
Qed.

Lemma val_app a b : val_lsf (a ++ b) = val_lsf a + R ^ Z.of_nat (length a) * val_lsf b.
Proof.
  induction a as [|c a IH]; cbn [val_lsf app length].
  - change (Z.of_nat 0) with 0. rewrite Z.pow_0_r. lia.
  - rewrite IH. replace (Z.of_nat (S (length a))) with (Z.succ (Z.of_nat (length a))) by lia.
    rewrite Z.pow_succ_r by lia. lia.
Qed.

Theorem int_order_is_lex_order (a b : list Z) :
  length a = length b -> Forall comp_ok a -> Forall comp_ok b ->
  (val_lsf (rev a) ?= val_lsf (rev b)) = lex_cmp a b.
Proof.
  pose proof radix_ge2 as HR. fold R in HR.
  revert b. induction a as [|x a IH]; intros [|y b] Hlen Ha Hb; try discriminate.
  - reflexivity.
  - inversion Ha as [|x' a' Hx Ha']; inversion Hb as [|y' b' Hy Hb']; subst.
    cbn [rev lex_cmp]. rewrite !val_app. cbn [val_lsf]. rewrite !rev_length.
    injection Hlen as Hlen. rewrite <- Hlen.
    pose proof (val_lsf_bound (rev a) (Forall_rev' _ _ Ha')) as Ba.
    pose proof (val_lsf_bound (rev b) (Forall_rev' _ _ Hb')) as Bb.
    pose proof (val_lsf_nonneg (rev a) (Forall_rev' _ _ Ha')) as Na.
    pose proof (val_lsf_nonneg (rev b) (Forall_rev' _ _ Hb')) as Nb.
    rewrite rev_length in Ba, Bb. rewrite <- Hlen in Bb.
    set (P := R ^ Z.of_nat (length a)) in *.
    assert (HP : 0 < P) by (apply Z.pow_pos_nonneg; lia).
    destruct (x ?= y) eqn:E.
    + apply Z.compare_eq in E. subst y. rewrite <- (IH b Hlen Ha' Hb').
      rewrite !Z.compare_eq_iff || idtac.
      destruct (val_lsf (rev a) ?= val_lsf (rev b)) eqn:E2.
      * apply Z.compare_eq in E2. rewrite E2. apply Z.compare_refl.
      * rewrite Z.compare_lt_iff in *. lia.
      * rewrite Z.compare_gt_iff in *. lia.
    + rewrite Z.compare_lt_iff in *. nia.
    + rewrite Z.compare_gt_iff in *. nia.
Qed.

Lemma R_gt_999 : 999 < R.
Proof. unfold R, radix_to_str. lia. Qed.

Lemma comp_999 l : Forall (fun c => 0 <= c <= 999) l -> Forall comp_ok l.
Proof. apply Forall_impl. intros c Hc. unfold comp_ok. pose proof R_gt_999. lia. Qed.

Theorem version_roundtrip_999 (v : list Z) :
  v <> [] -> Forall (fun c => 0 <= c <= 999) v -> hd 1 v <> 0 ->
  exists n, tuple_to_int v = Ok n /\
            convert_version_to_str n = Some (join [version_sep] (map dec_of_Z v)).
Proof. intros H1 H2 H3. apply version_roundtrip_tuple; auto using comp_999. Qed.

Theorem int_order_999 (a b : list Z) :
  length a = length b ->
  Forall (fun c => 0 <= c <= 999) a -> Forall (fun c => 0 <= c <= 999) b ->
  exists na nb, tuple_to_int a = Ok na /\ tuple_to_int b = Ok nb /\ (na ?= nb) = lex_cmp a b
  \/ (a = [] /\ b = []).
Proof.
  intros Hl Ha Hb. exists (val_lsf (rev a)), (val_lsf (rev b)).
  destruct a as [|x a]; destruct b as [|y b]; try discriminate.
  - right. split; reflexivity.
  - left. rewrite !tuple_to_int_val by discriminate. repeat split.
    apply int_order_is_lex_order; auto using comp_999.
Qed.

Lemma comp_map_complete :
  forall o, In o [OpLt; OpLe; OpEq; OpGt; OpGe; OpNe] -> In o (map snd comp_map).
Proof. intros o H. cbn in H. cbn. intuition (subst; auto 10). Qed.

(* the empty tuple and the divergence on negative integers (O3), made explicit *)
Lemma empty_tuple_TypeError : tuple_to_int [] = Exn TypeError.
Proof. reflexivity. Qed.

(* non-vacuity *)
Example roundtrip_example :
  tuple_to_int [1; 0; 999; 23] = Ok 1000999023 /\
  convert_version_to_str 1000999023 = Some (join [version_sep] (map dec_of_Z [1; 0; 999; 23])).
Proof. vm_compute. split; reflexivity. Qed.

(* negative control: a component equal to the radix breaks the round trip *)
Example roundtrip_fails_at_radix :
  exists n, tuple_to_int [1; R] = Ok n /\
            convert_version_to_str n <> Some (join [version_sep] (map dec_of_Z [1; R])).
Proof. eexists. split; [reflexivity|]. vm_compute. discriminate. Qed.

(* is_compatible / satisfied_by against their reading, for ANY order supplied by
   the version library (contract: vle/veq are what packaging's >= and == return) *)
Section Compat1.
  Variable V : Type.
  Variable vle : V -> V -> bool.
  Variable major : V -> Z.
  Lemma is_compatible_spec req cur sm :
    is_compatible V vle major req cur sm = true <->
    (vle req cur = true /\ (sm = true -> major req = major cur)).
  Proof.
    unfold is_compatible. destruct sm; cbn [andb].
    - destruct (major req =? major cur) eqn:E; cbn [negb].
      + apply Z.eqb_eq in E. tauto.
      + apply Z.eqb_neq in E. split; [discriminate|]. intros [_ H]. specialize (H eq_refl). contradiction.
    - split; [intros H; split; [exact H|discriminate]|tauto].
  Qed.
End Compat1.
Section Compat.
  Variable V : Type.
  Variable vle veq : V -> V -> bool.
  Lemma satisfied_by_spec preds v :
    satisfied_by V vle veq preds v = true <->
    (forall p, In p preds -> cmp_holds V vle veq (fst p) v (snd p) = true).
  Proof. unfold satisfied_by. apply forallb_forall. Qed.
End Compat.

(* ---- translator tie: the function regenerated statement by statement from the
   source equals the hand-written model (obligation of every C17 theorem) ---- *)
Require Import OV.Gen.VersionutilsCode.

Lemma gen_loop_equiv fuel v acc :
  gen_convert_version_to_str_loop1 fuel radix_to_str acc v =
  option_map (fun l => (l, 0)) (ver_loop fuel v acc).
Proof.
  revert v acc. induction fuel as [|f IH]; intros v acc; [reflexivity|].
  cbn [gen_convert_version_to_str_loop1 ver_loop].
  destruct (v =? 0) eqn:E; cbn [negb].
  - apply Z.eqb_eq in E. subst. reflexivity.
  - apply IH.
Qed.

Theorem gen_convert_version_to_str_equiv fuel v :
  gen_convert_version_to_str fuel v =
  match ver_loop fuel v [] with
  | Some l => Ok (join [version_sep] l)
  | None => Exn OtherError
  end.
Proof.
  unfold gen_convert_version_to_str.
  change 1000 with radix_to_str. rewrite gen_loop_equiv.
  unfold str, bytes in *.
  match goal with |- context [ver_loop ?a ?b ?c] => destruct (ver_loop a b c) end; reflexivity.
Qed.
