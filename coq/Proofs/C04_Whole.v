(* Proofs/C04_Whole.v — towards a UNIVERSAL whole-function theorem: for a syntactically delimited class of
   messages pre ++ R(K,d,v) ++ post the whole of mask_password (all keys, all twelve substitutions in
   order) returns pre ++ R(K,d,mask) ++ post, and is idempotent on the result.
   Ingredients: the key pre-test skips every other key; the designated pattern rewrites the value
   (rendering derivation [gm], in context); every other pattern of the key cannot match anywhere in
   the message (verified abstract checker, Proofs/C04_Abs.v). *)
From Coq Require Import String.
Require Import OV.Base.Bytes OV.Base.PyInt OV.Base.Str OV.Base.Regex OV.Base.C04_Tmpl.
Require Import OV.Gen.Unicode OV.Gen.C04_Sanitize OV.Gen.C04_Concrete OV.Model.C04 OV.Model.C04_Spec.
Require Import OV.Proofs.C11_Regex OV.Proofs.C04_Regex OV.Proofs.C04 OV.Proofs.C04_Quote OV.Proofs.C04_Abs OV.Proofs.C04_Render.
Open Scope N_scope.

(* ---------- decidable side conditions on the input ---------- *)
Fixpoint ci_prefixb (tbl : list (N * cset)) (k s : str) : bool :=
  match k, s with
  | [], _ => true
  | c :: k', x :: s' => cmem x (ci_lookup tbl c) && ci_prefixb tbl k' s'
  | _ :: _, [] => false
  end.

Lemma ci_prefixb_iff tbl k : forall s, ci_prefixb tbl k s = true <-> ci_prefix tbl k s.
Proof.
  induction k as [|c k IH]; intros s; cbn [ci_prefixb].
  - split; [intros _; exists [], s; split; [reflexivity|constructor]|reflexivity].
  - destruct s as [|x s]; [split; [discriminate|]|].
    + intros (K & s' & E & H). inversion H; subst. discriminate.
    + rewrite andb_true_iff, IH. split.
      * intros [Hx (K & s' & -> & H)]. exists (x :: K), s'. split; [reflexivity|constructor; assumption].
      * intros (K & s' & E & H). inversion H as [|? y ? K' Hy HK']; subst. cbn [app] in E. inversion E; subst.
        split; [assumption|exists K', s'; split; [reflexivity|assumption]].
Qed.

(* the key (in the case-insensitive sense of the patterns) starts at the listed offsets of m only *)
Definition only_at (tbl : list (N * cset)) (k m : str) (des : list nat) : bool :=
  forallb (fun i => negb (ci_prefixb tbl k (skipn i m)) || existsb (Nat.eqb i) des) (seq 0 (S (length m))).

Lemma only_at_spec tbl k m des : only_at tbl k m des = true ->
  forall a b, m = a ++ b -> ci_prefix tbl k b -> In (length a) des.
Proof.
  unfold only_at. intros H a b E Hp. rewrite forallb_forall in H.
  assert (Hin : In (length a) (seq 0 (S (length m)))) by (apply in_seq; rewrite E, app_length; lia).
  specialize (H _ Hin). rewrite E, skipn_app_exact in H. apply ci_prefixb_iff in Hp. rewrite Hp in H. cbn in H.
  apply existsb_exists in H. destruct H as (i & Hi & Ei). apply Nat.eqb_eq in Ei. subst. exact Hi.
Qed.

(* no OTHER sanitize key occurs in lower(m) *)
Definition others_absent (k m : str) : bool :=
  forallb (fun k' => beq k' k || negb (occursb k' (lower m))) gen_keys.

(* ---------- building a concretisation from a segmentation of the message ---------- *)
Section Build.
Variable tbl : list (N * cset).
Variable k : str.
Hypothesis k_ne : k <> [].
Let kcs := map (ci_lookup tbl) k.

Definition seg_valid (p : aseg * str) : Prop :=
  match fst p with
  | AOne cs => exists c, snd p = [c] /\ cmem c cs = true
  | ARun cs ne => all_in cs (snd p) = true /\ (ne = true -> snd p <> [])
  | AKey l => l = kcs /\ casing_ok tbl k (snd p)
  end.
Definition is_key (s : aseg) : bool := match s with AKey _ => true | _ => false end.
Fixpoint key_offsets (off : nat) (L : list (aseg * str)) : list nat :=
  match L with
  | [] => []
  | p :: L' => (if is_key (fst p) then [off] else []) ++ key_offsets (off + length (snd p)) L'
  end.
Fixpoint flat (L : list (aseg * str)) : str :=
  match L with [] => [] | [p] => snd p | p :: L' => snd p ++ flat L' end.
Lemma flat_cons p L : flat (p :: L) = snd p ++ flat L.
Proof. destruct L; [cbn; rewrite app_nil_r; reflexivity|reflexivity]. Qed.

Lemma key_offsets_ge L : forall off i, In i (key_offsets off L) -> (off <= i)%nat.
Proof.
  induction L as [|p L IH]; intros off i H; [destruct H|]. cbn [key_offsets] in H. apply in_app_or in H. destruct H as [H|H].
  - destruct (is_key (fst p)); [destruct H as [<-|[]]; lia|destruct H].
  - specialize (IH _ _ H). lia.
Qed.

Lemma conc_build whole des :
  (forall a b, whole = a ++ b -> ci_prefix tbl k b -> In (length a) des) ->
  forall L done, whole = done ++ flat L -> Forall seg_valid L ->
  (forall i, In i des -> (length done <= i)%nat -> In i (key_offsets (length done) L)) ->
  conc tbl k (map fst L) (flat L).
Proof.
  intros G. induction L as [|[seg t] L IH]; intros done E HV Hd; [constructor|].
  rewrite flat_cons in *. cbn [fst snd map] in *. pose proof (Forall_inv HV) as Hv. pose proof (Forall_inv_tail HV) as HV'.
  assert (E' : whole = (done ++ t) ++ flat L) by (rewrite <- app_assoc; exact E).
  (* a position inside the current segment that is not a key start carries no occurrence *)
  assert (NO : forall a' b', t = a' ++ b' -> b' <> [] -> (is_key seg = true -> a' <> []) -> noocc tbl k (b' ++ flat L)).
  { intros a' b' Et Hb Hk Hp.
    assert (Hin : In (length (done ++ a')) des) by (apply (G (done ++ a') (b' ++ flat L)); [rewrite E, Et, <- !app_assoc; reflexivity|exact Hp]).
    rewrite app_length in Hin. specialize (Hd _ Hin ltac:(lia)). cbn [key_offsets fst snd] in Hd.
    apply in_app_or in Hd. destruct Hd as [Hd|Hd].
    - destruct (is_key seg); [|destruct Hd]. destruct Hd as [Hd|[]]. specialize (Hk eq_refl). destruct a'; [congruence|cbn in Hd; lia].
    - apply key_offsets_ge in Hd. rewrite Et, app_length in Hd. destruct b'; [congruence|cbn in Hd; lia]. }
  assert (IH' : conc tbl k (map fst L) (flat L)).
  { apply (IH (done ++ t) E' HV'). intros i Hi Hle. rewrite app_length in *. specialize (Hd i Hi ltac:(lia)).
    cbn [key_offsets fst snd] in Hd. apply in_app_or in Hd. destruct Hd as [Hd|Hd]; [|exact Hd].
    exfalso. destruct seg as [cs|cs ne|l]; cbn [is_key] in Hd; try (destruct Hd; fail).
    destruct Hd as [Hd|[]]. destruct Hv as [_ Hv]. cbn [snd] in Hv. inversion Hv; subst; [apply k_ne; congruence|cbn in Hle; lia]. }
  destruct seg as [cs|cs ne|l]; unfold seg_valid in Hv; cbn [fst snd] in Hv.
  - destruct Hv as (c & -> & Hc). cbn [app]. constructor; [exact Hc| |exact IH'].
    apply (NO [] [c]); [reflexivity|discriminate|discriminate].
  - destruct Hv as [Hr Hne]. constructor; [exact Hr|exact Hne| |exact IH'].
    intros a b Eab Hb. apply (NO a b Eab Hb). discriminate.
  - destruct Hv as [El HK]. apply conc_key; [exact El|exact HK| |exact IH'].
    intros a b Eab Ha Hb. apply (NO a b Eab Hb). intros _. exact Ha.
Qed.
End Build.

(* ---------- re_sub with one match in the middle ---------- *)
Lemma sub_go_pre r t whole rest : forall b a,
  (forall a' b' q, b = a' ++ b' -> b' <> [] -> match_at r (b' ++ rest) q = None) ->
  sub_go r t whole (b ++ rest) (blen a) 0 = b ++ sub_go r t whole rest (blen (a ++ b)) 0.
Proof.
  induction b as [|c b IH]; intros a H.
  - rewrite app_nil_r. reflexivity.
  - pose proof (H [] (c :: b) (blen a) eq_refl ltac:(discriminate)) as H0. cbn [app] in H0.
    cbn [app sub_go]. rewrite H0. f_equal.
    replace (blen a + 1) with (blen (a ++ [c])) by (rewrite blen_app; cbn; lia).
    rewrite IH; [rewrite <- app_assoc; reflexivity|].
    intros a' b' q E Hb. apply (H (c :: a') b' q); [rewrite E; reflexivity|exact Hb].
Qed.

Lemma sub_ctx r t pre R post g :
  (forall a' b' q, pre = a' ++ b' -> b' <> [] -> match_at r (b' ++ R ++ post) q = None) ->
  R <> [] -> match_at r (R ++ post) (blen pre) = Some (blen (pre ++ R), g) ->
  (forall a' b' q, post = a' ++ b' -> match_at r b' q = None) ->
  re_sub r t (pre ++ R ++ post) = pre ++ expand t (pre ++ R ++ post) g ++ post.
Proof.
  intros Hpre HR Hm Hpost. unfold re_sub. change 0 with (blen (@nil N)) at 1.
  rewrite (sub_go_pre r t _ (R ++ post) pre [] Hpre). cbn [app]. f_equal.
  destruct R as [|c R']; [congruence|]. cbn [app sub_go]. cbn [app] in Hm. rewrite Hm.
  rewrite blen_app, blen_cons. replace (blen pre <? blen pre + (1 + blen R')) with true by lia. f_equal.
  rewrite sub_go_skip. replace (N.to_nat (blen pre + (1 + blen R') - blen pre) - 1)%nat with (length R') by (unfold blen; lia).
  rewrite skipn_app_exact. apply sub_go_none. exact Hpost.
Qed.

Lemma gm_match_at_ctx tbl r pre s pre' s' G : gm tbl r pre s pre' s' G -> match_at r s (blen pre) = Some (blen pre', G).
Proof.
  intros H. unfold match_at. apply (gm_sound _ tbl r pre s pre' s' G H [] _ _). rewrite app_nil_r. reflexivity.
Qed.

Lemma gm_sub_two_ctx tbl r pre S h v tl post mask G pre' h1 hv pre'' :
  gm tbl r pre S pre' post G -> S = h ++ v ++ tl ++ post -> pre' = pre ++ h ++ v ++ tl -> h ++ v ++ tl <> [] ->
  gget G 1 = Some (blen pre, blen h1) -> h1 = pre ++ h ->
  gget G 2 = Some (blen hv, blen pre'') -> hv = pre ++ h ++ v -> pre'' = pre ++ h ++ v ++ tl ->
  (forall a' b' q, pre = a' ++ b' -> b' <> [] -> match_at r (b' ++ S) q = None) ->
  (forall a' b' q, post = a' ++ b' -> match_at r b' q = None) ->
  re_sub r (t2 mask) (pre ++ S) = pre ++ h ++ mask ++ tl ++ post.
Proof.
  intros Hg -> -> Hne G1 -> G2 -> -> Hpre Hpost.
  pose proof (gm_match_at_ctx _ _ _ _ _ _ _ Hg) as Hm.
  replace (pre ++ h ++ v ++ tl ++ post) with (pre ++ (h ++ v ++ tl) ++ post) by (rewrite <- !app_assoc; reflexivity).
  replace (h ++ v ++ tl ++ post) with ((h ++ v ++ tl) ++ post) in Hm, Hpre by (rewrite <- !app_assoc; reflexivity).
  rewrite (sub_ctx r (t2 mask) pre (h ++ v ++ tl) post G Hpre Hne Hm Hpost).
  rewrite (expand_t2 _ _ _ _ _ _ _ G1 G2). f_equal. rewrite <- !app_assoc.
  rewrite (slice_mid pre h (v ++ tl ++ post)). f_equal. f_equal.
  replace (pre ++ h ++ v ++ tl ++ post) with ((pre ++ h ++ v) ++ tl ++ post) by (rewrite <- !app_assoc; reflexivity).
  replace (blen (pre ++ h ++ v ++ tl)) with (blen ((pre ++ h ++ v) ++ tl)) by (rewrite <- !app_assoc; reflexivity).
  rewrite slice_mid. reflexivity.
Qed.

Lemma gm_sub_one_ctx tbl r pre S h v post mask G pre' h1 :
  gm tbl r pre S pre' post G -> S = h ++ v ++ post -> pre' = pre ++ h ++ v -> h ++ v <> [] ->
  gget G 1 = Some (blen pre, blen h1) -> h1 = pre ++ h ->
  (forall a' b' q, pre = a' ++ b' -> b' <> [] -> match_at r (b' ++ S) q = None) ->
  (forall a' b' q, post = a' ++ b' -> match_at r b' q = None) ->
  re_sub r (t1 mask) (pre ++ S) = pre ++ h ++ mask ++ post.
Proof.
  intros Hg -> -> Hne G1 -> Hpre Hpost.
  pose proof (gm_match_at_ctx _ _ _ _ _ _ _ Hg) as Hm.
  replace (pre ++ h ++ v ++ post) with (pre ++ (h ++ v) ++ post) by (rewrite <- !app_assoc; reflexivity).
  replace (h ++ v ++ post) with ((h ++ v) ++ post) in Hm, Hpre by (rewrite <- !app_assoc; reflexivity).
  rewrite (sub_ctx r (t1 mask) pre (h ++ v) post G Hpre Hne Hm Hpost).
  unfold t1. cbn [app expand]. rewrite G1. rewrite <- !app_assoc. rewrite (slice_mid pre h (v ++ post)).
  f_equal. f_equal. rewrite <- (app_nil_r (map TLit mask)) at 1. rewrite expand_lits. cbn [expand]. rewrite app_nil_r. reflexivity.
Qed.

(* ---------- the key's block of mask_password as one fold over (pattern, template) pairs ---------- *)
Definition tagged (k secret : str) : list (re * list titem) :=
  map (fun r => (r, t2 secret)) (gen_tp2 k) ++ map (fun r => (r, t1 secret)) (gen_tp1 k) ++ map (fun r => (r, tw)) (gen_tpw k).
Definition sub_all (L : list (re * list titem)) (m : str) : str := fold_left (fun m rt => re_sub (fst rt) (snd rt) m) L m.

Lemma fold_map_sub (t : list titem) l m :
  fold_left (fun m r => re_sub r t m) l m = sub_all (map (fun r => (r, t)) l) m.
Proof. unfold sub_all. revert m. induction l as [|r l IH]; intros m; [reflexivity|]. cbn [fold_left map fst snd]. apply IH. Qed.

Lemma key_block k secret m :
  fold_left (run_step secret (snd (template_entry k))) gen_steps m = sub_all (tagged k secret) m.
Proof.
  unfold tagged, sub_all. rewrite !fold_left_app. fold (sub_all (map (fun r => (r, t2 secret)) (gen_tp2 k)) m).
  cbn [gen_steps fold_left run_step template_entry snd fst pick].
  rewrite (fold_map_sub (gen_sub_0 secret)). rewrite (fold_map_sub (gen_sub_1 secret)). rewrite (fold_map_sub (gen_sub_2 secret)).
  reflexivity.
Qed.

(* every pair but the j-th leaves its input alone; the j-th maps m to m1 *)
Lemma sub_all_one L : forall j m m1 rj tj,
  nth_error L j = Some (rj, tj) -> re_sub rj tj m = m1 ->
  (forall i r t, nth_error L i = Some (r, t) -> (i < j)%nat -> re_sub r t m = m) ->
  (forall i r t, nth_error L i = Some (r, t) -> (j < i)%nat -> re_sub r t m1 = m1) ->
  sub_all L m = m1.
Proof.
  unfold sub_all. induction L as [|[r t] L IH]; intros j m m1 rj tj Hj Hs Hb Ha; [destruct j; discriminate|].
  cbn [fold_left fst snd]. destruct j as [|j].
  - cbn in Hj. inversion Hj; subst. clear IH Hb.
    assert (G : forall L' x, (forall r t, In (r, t) L' -> re_sub r t x = x) -> fold_left (fun m rt => re_sub (fst rt) (snd rt) m) L' x = x).
    { induction L' as [|[r' t'] L' IH']; intros x H; [reflexivity|]. cbn [fold_left fst snd]. rewrite (H r' t' (or_introl eq_refl)).
      apply IH'. intros; apply H; right; assumption. }
    apply G. intros r t Hin. apply In_nth_error in Hin. destruct Hin as (i & Hi). apply (Ha (S i) r t Hi). lia.
  - rewrite (Hb 0%nat r t eq_refl ltac:(lia)). apply (IH j m m1 rj tj Hj Hs).
    + intros i r' t' Hi Hlt. apply (Hb (S i) r' t' Hi). lia.
    + intros i r' t' Hi Hlt. apply (Ha (S i) r' t' Hi). lia.
Qed.

(* ---------- the fold over the keys ---------- *)
Lemma keys_nodup : NoDup gen_keys.
Proof.
  assert (H : forall l : list str, (fix nd (l : list str) : bool := match l with [] => true | x :: t => negb (existsb (beq x) t) && nd t end) l = true -> NoDup l).
  { induction l as [|x t IH]; intros H; [constructor|]. apply andb_true_iff in H. destruct H as [H1 H2]. constructor; [|auto].
    intros Hin. apply negb_true_iff in H1. assert (existsb (beq x) t = true); [|congruence].
    apply existsb_exists. exists x. split; [exact Hin|apply beq_refl]. }
  apply H. vm_compute. reflexivity.
Qed.

Lemma mask_with_absent secret (tbl : list entry) m :
  (forall e : entry, In e tbl -> occursb (fst e) (lower m) = false) -> mask_with tbl m secret = m.
Proof. intros H. unfold mask_with. apply mask_with_nokey. exact H. Qed.

Lemma mask_password_one_key k m m1 secret :
  In k gen_keys -> occursb k (lower m) = true -> others_absent k m = true -> others_absent k m1 = true ->
  sub_all (tagged k secret) m = m1 -> mask_password m secret = m1.
Proof.
  intros Hin Hocc Hm Hm1 Hs. unfold mask_password. rewrite concrete_templates_equiv. unfold template_table.
  destruct (in_split _ _ Hin) as (l1 & l2 & El). pose proof keys_nodup as ND. rewrite El in ND.
  rewrite El, map_app. cbn [map]. unfold mask_with. rewrite fold_left_app. cbn [fold_left].
  assert (Hno : forall k', In k' (l1 ++ l2) -> k' <> k).
  { intros k' Hk' ->. apply NoDup_remove_2 in ND. exact (ND Hk'). }
  assert (Habs : forall (x : str) ks, others_absent k x = true -> (forall k', In k' ks -> In k' gen_keys /\ k' <> k) ->
            fold_left (apply_key gen_steps secret) (map template_entry ks) x = x).
  { intros x ks Hx Hks. apply mask_with_nokey. intros e He. apply in_map_iff in He. destruct He as (k' & <- & Hk').
    cbn [template_entry fst]. destruct (Hks k' Hk') as [Hg Hne]. unfold others_absent in Hx. rewrite forallb_forall in Hx.
    specialize (Hx k' Hg). apply orb_true_iff in Hx. destruct Hx as [Hx|Hx]; [apply beq_eq in Hx; congruence|].
    apply negb_true_iff in Hx. exact Hx. }
  rewrite (Habs m l1 Hm).
  2:{ intros k' Hk'. split; [rewrite El; apply in_or_app; left; exact Hk'|apply Hno; apply in_or_app; left; exact Hk']. }
  unfold apply_key at 2. cbn [template_entry fst]. rewrite Hocc. fold (template_entry k). rewrite key_block, Hs.
  apply (Habs m1 l2 Hm1). intros k' Hk'. split; [rewrite El; apply in_or_app; right; right; exact Hk'|apply Hno; apply in_or_app; right; exact Hk'].
Qed.

(* ---------- the key occurs in lower(message) ---------- *)
Lemma lower_app a b : lower (a ++ b) = lower a ++ lower b.
Proof. unfold lower. apply flat_map_app. Qed.

Lemma lower_casing k K : forallb key_char k = true -> casing_of k K -> lower K = k.
Proof.
  intros Hk H. induction H as [|c C k K Hc _ IH]; [reflexivity|].
  cbn [forallb] in Hk. apply andb_true_iff in Hk. destruct Hk as [Hc1 Hk].
  change (lower (C :: K)) with (lower1 C ++ lower K). rewrite (IH Hk).
  assert (lower1 C = [c]); [|rewrite H; reflexivity].
  unfold key_char in Hc1. unfold lower1, lower_ascii1, upper_ascii1 in *.
  destruct Hc as [-> | ->].
  - replace (c <? 128) with true by lia. replace ((65 <=? c) && (c <=? 90)) with false by lia. reflexivity.
  - destruct ((97 <=? c) && (c <=? 122)) eqn:E.
    + replace (c - 32 <? 128) with true by lia. replace ((65 <=? c - 32) && (c - 32 <=? 90)) with true by lia. f_equal. lia.
    + replace (c <? 128) with true by lia. replace ((65 <=? c) && (c <=? 90)) with false by lia. reflexivity.
Qed.

Lemma occursb_app_mid k : forall a b, occursb k (a ++ k ++ b) = true.
Proof.
  induction a as [|x a IH]; intros b.
  - cbn [app]. destruct (k ++ b) eqn:E; cbn [occursb]; rewrite <- ?E, prefixb_app; reflexivity.
  - cbn [app occursb]. rewrite IH. apply orb_true_r.
Qed.

Lemma key_occurs k K a b : forallb key_char k = true -> casing_of k K -> occursb k (lower (a ++ K ++ b)) = true.
Proof. intros Hk Hc. rewrite !lower_app, (lower_casing k K Hk Hc). apply occursb_app_mid. Qed.

(* ---------- the three concretisations a rendering proof needs ---------- *)
Section Parts.
Variable tbl : list (N * cset).
Variable k : str.
Hypothesis k_ne : k <> [].

Lemma key_offsets_app L1 : forall off L2,
  key_offsets off (L1 ++ L2) = key_offsets off L1 ++ key_offsets (off + length (flat L1)) L2.
Proof.
  induction L1 as [|p L1 IH]; intros off L2.
  - cbn. rewrite Nat.add_0_r. reflexivity.
  - cbn [app key_offsets]. rewrite IH, flat_cons, app_length, <- app_assoc. do 3 f_equal. lia.
Qed.

Lemma key_offsets_lt L : Forall (seg_valid tbl k) L -> forall off i, In i (key_offsets off L) -> (i < off + length (flat L))%nat.
Proof.
  induction 1 as [|[seg t] L Hv _ IH]; intros off i H; [destruct H|].
  cbn [key_offsets fst snd] in H. rewrite flat_cons, app_length. cbn [snd]. apply in_app_or in H. destruct H as [H|H].
  - destruct seg as [cs|cs ne|l]; cbn [is_key] in H; try (destruct H; fail). destruct H as [<-|[]].
    destruct Hv as [_ Hv]. cbn [snd] in Hv. inversion Hv; subst; [exfalso; apply k_ne; congruence|cbn; lia].
  - specialize (IH _ _ H). lia.
Qed.

Lemma flat_app L1 L2 : flat (L1 ++ L2) = flat L1 ++ flat L2.
Proof. induction L1 as [|p L1 IH]; [reflexivity|]. cbn [app]. rewrite !flat_cons, IH, app_assoc. reflexivity. Qed.

Lemma conc_parts c1 n1 pre Lmid c2 n2 post whole :
  let L := (ARun c1 n1, pre) :: Lmid ++ [(ARun c2 n2, post)] in
  whole = flat L -> Forall (seg_valid tbl k) L ->
  (forall a b, whole = a ++ b -> ci_prefix tbl k b -> In (length a) (key_offsets 0 L)) ->
  conc tbl k (map fst L) whole /\
  (forall a' b', pre = a' ++ b' -> b' <> [] -> conc tbl k (ARun c1 true :: map fst (Lmid ++ [(ARun c2 n2, post)])) (b' ++ flat (Lmid ++ [(ARun c2 n2, post)]))) /\
  conc tbl k [ARun c2 n2] post.
Proof.
  intros L E HV G. split; [|split].
  - rewrite E. apply (conc_build tbl k k_ne whole _ G L []); [exact E|exact HV|]. intros i Hi _. exact Hi.
  - intros a' b' Ep Hb.
    pose proof (conc_build tbl k k_ne whole _ G ((ARun c1 true, b') :: Lmid ++ [(ARun c2 n2, post)]) a') as H.
    rewrite flat_cons in H. cbn [map fst snd] in H. apply H.
    + rewrite E. unfold L. rewrite flat_cons. cbn [snd]. rewrite Ep, <- app_assoc. reflexivity.
    + pose proof (Forall_inv HV) as Hv. pose proof (Forall_inv_tail HV) as HV'. constructor; [|exact HV'].
      destruct Hv as [Hr _]. cbn [fst snd] in *. rewrite Ep in Hr. apply all_in_app in Hr. split; [tauto|intros _; exact Hb].
    + intros i Hi _. unfold L in Hi. cbn [key_offsets fst snd is_key app] in Hi |- *.
      rewrite Ep, app_length in Hi. cbn [Nat.add] in Hi. exact Hi.
  - pose proof (conc_build tbl k k_ne whole _ G [(ARun c2 n2, post)] (flat ((ARun c1 n1, pre) :: Lmid))) as H.
    change (flat [(ARun c2 n2, post)]) with post in H. cbn [map fst] in H. apply H.
    + rewrite E. unfold L. change ((ARun c1 n1, pre) :: Lmid ++ [(ARun c2 n2, post)]) with (((ARun c1 n1, pre) :: Lmid) ++ [(ARun c2 n2, post)]).
      rewrite flat_app. reflexivity.
    + constructor; [|constructor]. apply (Forall_forall (seg_valid tbl k) L); [exact HV|]. unfold L. right. apply in_or_app. right. left. reflexivity.
    + intros i Hi Hle. exfalso. unfold L in Hi.
      change ((ARun c1 n1, pre) :: Lmid ++ [(ARun c2 n2, post)]) with (((ARun c1 n1, pre) :: Lmid) ++ [(ARun c2 n2, post)]) in Hi.
      rewrite key_offsets_app in Hi. cbn [key_offsets fst is_key app] in Hi. rewrite app_nil_r in Hi.
      assert (HV0 : Forall (seg_valid tbl k) ((ARun c1 n1, pre) :: Lmid)).
      { unfold L in HV. change ((ARun c1 n1, pre) :: Lmid ++ [(ARun c2 n2, post)]) with (((ARun c1 n1, pre) :: Lmid) ++ [(ARun c2 n2, post)]) in HV.
        apply Forall_app in HV. tauto. }
      pose proof (key_offsets_lt _ HV0 0%nat i Hi). lia.
Qed.
End Parts.

(* the checker's verdict on one abstract start *)
Lemma am_none tbl k f r A s q : k <> [] ->
  am (map (ci_lookup tbl) k) f r A (fun _ => true) = false -> conc tbl k A s -> match_at r s q = None.
Proof.
  intros Hk H HA. destruct (match_at r s q) as [[e g]|] eqn:Em; [exfalso|reflexivity].
  unfold match_at in Em. apply m_sound in Em. destruct Em as (s' & p' & g' & M & _).
  rewrite (am_sound tbl k Hk f r A s q s' p' (fun _ => true) HA M (fun _ _ => eq_refl)) in H. discriminate.
Qed.

(* a two-group match in context, from its span and group positions *)
Lemma two_group_ctx r pre h v tl post mask g :
  match_at r ((h ++ v ++ tl) ++ post) (blen pre) = Some (blen (pre ++ h ++ v ++ tl), g) -> h ++ v ++ tl <> [] ->
  gget g 1 = Some (blen pre, blen (pre ++ h)) -> gget g 2 = Some (blen (pre ++ h ++ v), blen (pre ++ h ++ v ++ tl)) ->
  (forall a' b' q, pre = a' ++ b' -> b' <> [] -> match_at r (b' ++ (h ++ v ++ tl) ++ post) q = None) ->
  (forall a' b' q, post = a' ++ b' -> match_at r b' q = None) ->
  re_sub r (t2 mask) (pre ++ (h ++ v ++ tl) ++ post) = pre ++ h ++ mask ++ tl ++ post.
Proof.
  intros Hm Hne G1 G2 Hpre Hpost.
  rewrite (sub_ctx r (t2 mask) pre (h ++ v ++ tl) post g Hpre Hne Hm Hpost).
  rewrite (expand_t2 _ _ _ _ _ _ _ G1 G2). f_equal. rewrite <- !app_assoc.
  rewrite (slice_mid pre h (v ++ tl ++ post)). f_equal. f_equal.
  replace (pre ++ h ++ v ++ tl ++ post) with ((pre ++ h ++ v) ++ tl ++ post) by (rewrite <- !app_assoc; reflexivity).
  replace (blen (pre ++ h ++ v ++ tl)) with (blen ((pre ++ h ++ v) ++ tl)) by (rewrite <- !app_assoc; reflexivity).
  rewrite slice_mid. reflexivity.
Qed.
