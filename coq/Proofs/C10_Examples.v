(* Proofs/C10_Examples.v — instances of the hypotheses of the C10 theorems (non-vacuity),
   each next to the theorem it instantiates. *)
From Coq Require Import String.
From Coq Require Import ZArith SpecFloat.
Require Import OV.Base.Bytes OV.Base.Py OV.Base.PyInt OV.Base.Str OV.Base.Regex OV.Base.PyFloat.
Require Import OV.Model.C10_Regex OV.Gen.C10_Units OV.Model.C10.
Require Import OV.Proofs.C10_Regex OV.Proofs.C10_Form OV.Proofs.C10_Float OV.Proofs.C10 OV.Proofs.C10_Qemu.
Open Scope Z_scope.

(* admitted_iff_form / value_is_ieee_evaluation: a text of the form, with its decomposition *)
Example ex_numform : numform (lit "+.5").
Proof. exists (lit "+"), [], (lit "."), (lit "5"). repeat split; auto. discriminate. Qed.

Example ex_form_mixed : form mixed_prefixes (lit "+.5kibit").
Proof.
  exists (lit "+.5"), (lit "ki"), (lit "bit").
  split; [reflexivity|]. split; [exact ex_numform|].
  split; [right; vm_compute; tauto|]. vm_compute; tauto.
Qed.

(* a trailing newline is not admitted any more (repair fc24f32) *)
Example ex_newline_rejected : string_to_bytes (lit "1KB" ++ [10%N]) (lit "IEC") false = Exn ValueError.
Proof. vm_compute. reflexivity. Qed.

Example ex_system_mixed : In (lit "mixed", mixed_prefixes) spec_systems.
Proof. vm_compute. tauto. Qed.

Example ex_value_mixed :
  string_to_bytes (lit "+.5kibit") (lit "mixed") false = Ok (NFloat (S754_finite false 4503599627370496 (-46))).
Proof. vm_compute. reflexivity. Qed.   (* 0.5 * 1024 / 8 = 64.0 *)

(* not_admitted_raises_ValueError: a prefix foreign to the system, an unknown system *)
Example ex_foreign_prefix : forall prefixes, In (lit "IEC", prefixes) spec_systems -> ~ form prefixes (lit "1kB").
Proof.
  intros prefixes HS F.
  destruct (system_facts _ _ HS) as [base [rx [L _]]].
  apply (admitted_iff_form _ _ _ _ HS L) in F.
  revert F. vm_compute in L. injection L as <- <-. vm_compute. discriminate.
Qed.

Example ex_unknown_system : forall prefixes, ~ In (lit "iec", prefixes) spec_systems.
Proof. intros prefixes H. vm_compute in H. intuition congruence. Qed.

(* prefix_table_total: a captured prefix *)
Example ex_captured_prefix : exists base rx e g,
  lookup (lit "IEC") unit_system_info = Some (base, rx) /\
  rz_match rx (lit "7QiB") = Some (e, g) /\ group_text (lit "7QiB") g 2 = Some (lit "Qi").
Proof. vm_compute. repeat eexists. Qed.

(* only_ValueError: a malformed text; a quantity beyond binary64 under return_int (Proofs/C10.v: overflow_witness_int) *)
Example ex_value_error : string_to_bytes (lit "1.KB") (lit "SI") true = Exn ValueError.
Proof. vm_compute. reflexivity. Qed.

(* ceil_is_ceiling: -2.5 *)
Example ex_ceil : ceil_to_Z (S754_finite true 5 (-1)) = Ok (-2).
Proof. reflexivity. Qed.

(* bytes_figure_precedence / qemu_same_arithmetic: the hypotheses are met by qemu-img's own output *)
Example ex_figure_found : exists a e g,
  re_search size_re (lit "1.0K (7 bytes)") = Some (a, e, g) /\ gget g 3%nat <> None.
Proof. vm_compute. repeat eexists. discriminate. Qed.

Example ex_unit_no_figure : exists a e g,
  re_search size_re (lit "1.5G") = Some (a, e, g) /\ group_text (lit "1.5G") g 1 = Some (lit "1.5") /\
  has_e (lit "1.5") = false /\ truthy (group_text (lit "1.5G") g 3) = false /\
  group_text (lit "1.5G") g 2 = Some (lit "G").
Proof. vm_compute. repeat eexists. Qed.
