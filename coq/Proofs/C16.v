Require Import OV.Model.C16.
