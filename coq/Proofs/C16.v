(* Proofs/C16.v — (1) the statement-level translations of Gen/C16_Code.v compute the
   hand-written model ([*_equiv]); (2) the theorems about safe_decode / safe_encode /
   to_utf8 over an arbitrary runtime world with explicit contracts. *)
Require Import OV.Base.Bytes OV.Base.PyInt OV.Base.Str OV.Base.Regex OV.Base.C16_Py.
Require Import OV.Gen.Unicode OV.Gen.C16_Slug OV.Gen.C16_Code OV.Model.C16.
Open Scope N_scope.

(* ---------- translator equivalence ---------- *)

Theorem gen_safe_decode_equiv w text incoming errors :
  gen_safe_decode w text incoming errors = safe_decode w text incoming errors.
Proof.
  unfold gen_safe_decode, safe_decode, decode_with_fallback, resolve_incoming, fallback_encoding.
  destruct text as [s|b|tag]; cbn [isinstance existsb has_type orb negb as_str pval_decode]; try reflexivity.
  destruct (truthy_opt incoming) as [i|]; cbv zeta;
    destruct (bytes_decode w b _ errors) as [r|[]]; reflexivity.
Qed.

Theorem gen_safe_encode_equiv w text incoming encoding errors :
  gen_safe_encode w text incoming encoding errors = safe_encode w text incoming encoding errors.
Proof.
  unfold gen_safe_encode, safe_encode, resolve_incoming.
  destruct text as [s|b|tag]; cbn [isinstance existsb has_type orb negb as_str truthy_pval];
    destruct (truthy_opt incoming) as [i|]; cbv zeta; try reflexivity;
    rewrite !gen_safe_decode_equiv;
    match goal with |- context [truthy_str b && negb (beq ?a ?c)] => destruct (truthy_str b && negb (beq a c)) end;
    try reflexivity;
    match goal with |- context [safe_decode ?a ?b ?c ?d] => destruct (safe_decode a b c d) end; reflexivity.
Qed.

Theorem gen_to_utf8_equiv w text : gen_to_utf8 w text = to_utf8 w text.
Proof. unfold gen_to_utf8, to_utf8, to_utf8_encoding. destruct text; reflexivity. Qed.

Theorem gen_to_slug_equiv w value incoming errors :
  gen_to_slug w value incoming errors = to_slug w value incoming errors.
Proof.
  unfold gen_to_slug, to_slug, slugify. rewrite gen_safe_decode_equiv.
  destruct (safe_decode w value incoming errors); reflexivity.
Qed.

(* ---------- safe_decode ---------- *)
Theorem safe_decode_str_id w s incoming errors : safe_decode w (PStr s) incoming errors = COk s.
Proof. reflexivity. Qed.

(* bytes: the result of bytes.decode(incoming or default, errors) unless that is a
   UnicodeDecodeError, in which case the result — whatever it is — of decoding with the
   fallback codec *)
Theorem safe_decode_bytes w b incoming errors :
  let first := bytes_decode w b (resolve_incoming w incoming) errors in
  (first <> CExn EUnicodeDecodeError -> safe_decode w (PBytes b) incoming errors = first) /\
  (first = CExn EUnicodeDecodeError ->
     safe_decode w (PBytes b) incoming errors = bytes_decode w b fallback_encoding errors).
Proof.
  cbv zeta. unfold safe_decode, decode_with_fallback.
  destruct (bytes_decode w b (resolve_incoming w incoming) errors) as [r|[]]; split; intros H;
    try reflexivity; try discriminate; exfalso; apply H; reflexivity.
Qed.

Theorem safe_decode_type_error w tag incoming errors :
  safe_decode w (POther tag) incoming errors = CExn ETypeError.
Proof. reflexivity. Qed.

(* ---------- str.lower() never yields the empty string from a non-empty one ---------- *)
Lemma lower_multi_nonempty :
  forallb (fun kv => match snd kv with [] => false | _ => true end) lower_multi = true.
Proof. vm_compute. reflexivity. Qed.

Lemma lower_multi_find_nonempty c l v :
  forallb (fun kv : N * list N => match snd kv with [] => false | _ => true end) l = true ->
  lower_multi_find c l = Some v -> v <> [].
Proof.
  induction l as [|[k x] t IH]; intros Hl Hf; [discriminate|].
  cbn [forallb snd] in Hl. apply andb_true_iff in Hl. destruct Hl as [Hx Ht].
  cbn [lower_multi_find] in Hf. destruct (k =? c).
  - injection Hf as <-. destruct x; [discriminate|discriminate].
  - apply IH; assumption.
Qed.

Lemma py_lower1_nonempty c : py_lower1 c <> [].
Proof.
  unfold py_lower1. destruct (lower_run c lower_runs); [discriminate|].
  destruct (lower_multi_find c lower_multi) as [v|] eqn:E; [|discriminate].
  apply (lower_multi_find_nonempty c lower_multi v lower_multi_nonempty E).
Qed.

Lemma py_lower_nonempty s : s <> [] -> py_lower s <> [].
Proof.
  destruct s as [|c t]; [intros H; exfalso; apply H; reflexivity|]. intros _.
  unfold py_lower. cbn [flat_map]. pose proof (py_lower1_nonempty c) as H.
  destruct (py_lower1 c); [exfalso; apply H; reflexivity|discriminate].
Qed.

Lemma resolve_some w e : e <> [] -> resolve_incoming w (Some e) = e.
Proof. destruct e; [intros H; exfalso; apply H; reflexivity|reflexivity]. Qed.

(* ---------- safe_encode ---------- *)
Theorem safe_encode_str w s incoming encoding errors :
  safe_encode w (PStr s) incoming encoding errors = cmap PBytes (str_encode w s (py_lower encoding) errors).
Proof. reflexivity. Qed.

Theorem safe_encode_type_error w tag incoming encoding errors :
  safe_encode w (POther tag) incoming encoding errors = CExn ETypeError.
Proof. reflexivity. Qed.

(* bytes, the two names agree up to letter case: untouched (no codec is even looked up) *)
Theorem safe_encode_bytes_same_codec_id w b incoming encoding errors :
  py_lower encoding = py_lower (resolve_incoming w incoming) ->
  safe_encode w (PBytes b) incoming encoding errors = COk (PBytes b).
Proof.
  intros H. unfold safe_encode. rewrite <- H. rewrite beq_refl. rewrite andb_false_r. reflexivity.
Qed.

(* empty bytes: untouched whatever the names *)
Theorem safe_encode_empty_id w incoming encoding errors :
  safe_encode w (PBytes []) incoming encoding errors = COk (PBytes []).
Proof. reflexivity. Qed.

(* bytes, names differ: decode with the (lower-cased) incoming name — with the UTF-8
   fallback of safe_decode — then encode with the (lower-cased) encoding name *)
Theorem safe_encode_transcodes w b incoming encoding errors :
  b <> [] ->
  py_lower encoding <> py_lower (resolve_incoming w incoming) ->
  safe_encode w (PBytes b) incoming encoding errors =
  cbind (safe_decode w (PBytes b) (Some (py_lower (resolve_incoming w incoming))) errors)
        (fun t => cmap PBytes (str_encode w t (py_lower encoding) errors)).
Proof.
  intros Hb Hne. unfold safe_encode.
  replace (truthy_str b) with true by (destruct b; [exfalso; apply Hb; reflexivity|reflexivity]).
  replace (beq (py_lower encoding) (py_lower (resolve_incoming w incoming))) with false.
  - reflexivity.
  - symmetry. apply not_true_is_false. intros H. apply Hne. apply beq_eq. exact H.
Qed.

(* the same, in terms of the codecs: when lookup does not depend on the letter case of the
   two names and the incoming codec decodes the bytes, the result is the encoding codec
   applied to the decoded text *)
Theorem safe_encode_transcodes_codecs w b incoming encoding errors cin cout t :
  b <> [] ->
  py_lower encoding <> py_lower (resolve_incoming w incoming) ->
  resolve_incoming w incoming <> [] ->
  lookup_lower_ok w (resolve_incoming w incoming) -> lookup_lower_ok w encoding ->
  lookup w (resolve_incoming w incoming) = Some cin -> lookup w encoding = Some cout ->
  dec w cin b errors = COk t ->
  safe_encode w (PBytes b) incoming encoding errors = cmap PBytes (enc w cout t errors).
Proof.
  intros Hb Hne Hi Hli Hle Hcin Hcout Hdec.
  rewrite safe_encode_transcodes by assumption.
  unfold safe_decode, decode_with_fallback.
  rewrite resolve_some by (apply py_lower_nonempty; exact Hi).
  unfold bytes_decode. destruct b as [|x b']; [exfalso; apply Hb; reflexivity|].
  unfold lookup_lower_ok in *. rewrite Hli, Hcin, Hdec. cbn [cbind].
  unfold str_encode. rewrite Hle, Hcout. reflexivity.
Qed.

(* ---------- the round trip ---------- *)
Lemma representsb_spec w c t : representsb w c t = true ->
  exists b, enc w c t strict_name = COk b /\ dec w c b strict_name = COk t.
Proof.
  unfold representsb. destruct (enc w c t strict_name) as [b|] eqn:E; [|discriminate].
  destruct (dec w c b strict_name) as [t'|] eqn:D; [|discriminate].
  intros H. apply beq_eq in H. subst t'. exists b. split; [reflexivity|exact D].
Qed.

(* safe_decode(safe_encode(t, encoding=e, errors), incoming=e, errors) = t for every text the
   codec named e can represent, in any letter case of e and under any error policy *)
Theorem encode_decode_roundtrip w e c t incoming0 errors :
  e <> [] ->
  lookup w e = Some c -> lookup_lower_ok w e ->
  enc_policy_irrelevant w c -> dec_policy_irrelevant w c ->
  dec w c [] strict_name = COk [] ->
  representsb w c t = true ->
  exists b, safe_encode w (PStr t) incoming0 e errors = COk (PBytes b) /\
            safe_decode w (PBytes b) (Some e) errors = COk t.
Proof.
  intros He Hl Hlow Hpe Hpd Hempty Hrep.
  destruct (representsb_spec _ _ _ Hrep) as (b & Henc & Hdec).
  exists b. split.
  - rewrite safe_encode_str. unfold str_encode. unfold lookup_lower_ok in Hlow. rewrite Hlow, Hl.
    rewrite (Hpe _ errors _ Henc). reflexivity.
  - unfold safe_decode, decode_with_fallback. rewrite resolve_some by exact He.
    unfold bytes_decode. destruct b as [|x b'].
    + rewrite Hempty in Hdec. injection Hdec as <-. reflexivity.
    + rewrite Hl. rewrite (Hpd _ errors _ Hdec). reflexivity.
Qed.

(* with the codec-wide round-trip contract, "can represent" is "strict encoding succeeds" *)
Theorem encode_decode_roundtrip_contract w e c t incoming0 errors b0 :
  e <> [] ->
  lookup w e = Some c -> lookup_lower_ok w e ->
  enc_policy_irrelevant w c -> dec_policy_irrelevant w c -> codec_roundtrip w c ->
  dec w c [] strict_name = COk [] ->
  enc w c t strict_name = COk b0 ->
  safe_encode w (PStr t) incoming0 e errors = COk (PBytes b0) /\
  safe_decode w (PBytes b0) (Some e) errors = COk t.
Proof.
  intros He Hl Hlow Hpe Hpd Hrt Hempty Henc.
  assert (Hrep : representsb w c t = true).
  { unfold representsb. rewrite Henc, (Hrt _ _ Henc). apply beq_refl. }
  destruct (encode_decode_roundtrip w e c t incoming0 errors He Hl Hlow Hpe Hpd Hempty Hrep) as (b & H1 & H2).
  assert (b = b0).
  { rewrite safe_encode_str in H1. unfold str_encode in H1. unfold lookup_lower_ok in Hlow. rewrite Hlow, Hl in H1.
    rewrite (Hpe _ errors _ Henc) in H1. cbn [cmap] in H1. injection H1 as <-. reflexivity. }
  subst b. split; assumption.
Qed.

(* ---------- to_utf8 ---------- *)
Theorem to_utf8_spec w :
  (forall b, to_utf8 w (PBytes b) = COk (PBytes b)) /\
  (forall s, to_utf8 w (PStr s) = cmap PBytes (str_encode w s to_utf8_encoding strict_name)) /\
  (forall tag, to_utf8 w (POther tag) = CExn ETypeError).
Proof. repeat split. Qed.

(* ---------- TypeError for every other type, for each function ---------- *)
Theorem type_errors w tag incoming encoding errors :
  safe_decode w (POther tag) incoming errors = CExn ETypeError /\
  safe_encode w (POther tag) incoming encoding errors = CExn ETypeError /\
  to_utf8 w (POther tag) = CExn ETypeError /\
  to_slug w (POther tag) incoming errors = CExn ETypeError.
Proof. repeat split. Qed.

(* ---------- type contract: what comes back when no exception is raised ---------- *)
Theorem result_types w v incoming encoding errors :
  (forall r, safe_encode w v incoming encoding errors = COk r -> exists b, r = PBytes b) /\
  (forall r, to_utf8 w v = COk r -> exists b, r = PBytes b).
Proof.
  split; intros r H.
  - unfold safe_encode in H. destruct v as [s|b|tag]; [| |discriminate].
    + destruct (str_encode w s (py_lower encoding) errors) as [x|]; [|discriminate].
      injection H as <-. eexists. reflexivity.
    + destruct (truthy_str b && negb (beq (py_lower encoding) (py_lower (resolve_incoming w incoming)))).
      * destruct (safe_decode w (PBytes b) _ errors) as [t|]; [|discriminate]. cbn [cbind] in H.
        destruct (str_encode w t (py_lower encoding) errors) as [x|]; [|discriminate].
        injection H as <-. eexists. reflexivity.
      * injection H as <-. eexists. reflexivity.
  - unfold to_utf8 in H. destruct v as [s|b|tag]; [| |discriminate].
    + destruct (str_encode w s to_utf8_encoding strict_name) as [x|]; [|discriminate].
      injection H as <-. eexists. reflexivity.
    + injection H as <-. eexists. reflexivity.
Qed.
