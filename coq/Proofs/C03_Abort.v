(* Proofs/C03_Abort.v — the expected-format abort: InspectWrapper(expected_format=f) raises ImageFormatError at
   the first chunk after which f's inspector is complete without matching.  That decision is FINAL: no
   continuation of the stream can make f's inspector match, nor (outside the known zones) give the content
   f's signature; and after the abort no format query ever names f. *)
Require Import OV.Base.Bytes OV.Base.Py OV.Base.C06_WrapShape OV.Base.Insp_Struct.
Require Import OV.Gen.Insp_Consts OV.Gen.C06_Wrapper OV.Model.Insp_Engine OV.Model.Insp_All.
Require Import OV.Model.Wrap OV.Model.C03.
Require Import OV.Proofs.Insp_All OV.Proofs.C03_Total OV.Proofs.C03_Sig OV.Proofs.Wrap OV.Proofs.C06 OV.Proofs.C03_Wrap
               OV.Proofs.C03_Stable OV.Proofs.C03_Props OV.Proofs.C03_All OV.Proofs.C03_Reach.
Open Scope N_scope.

Notation cfirst_abort := (first_abort istate eat complete cmatch).

Lemma first_abort_mismatch : forall cs i j, cfirst_abort i cs = Some (j, AbMismatch) ->
  exists i', eat_list i (firstn (S j) cs) = (i', None) /\ complete i' = true /\ cmatch i' = false /\ (j < length cs)%nat.
Proof.
  induction cs as [|c cs IH]; intros i j; cbn [first_abort]; [discriminate|].
  destruct (eat i c) as [i1 [e|]] eqn:He; [intros H; inversion H|].
  destruct (complete i1 && negb (cmatch i1)) eqn:Hc.
  - intros H; inversion H; subst. exists i1. cbn [firstn eat_list]. rewrite He.
    apply andb_true_iff in Hc. destruct Hc as [H1 H2]. apply negb_true_iff in H2. cbn [length]. repeat split; auto. lia.
  - destruct (cfirst_abort i1 cs) as [[k b]|] eqn:Hf; [|discriminate]. intros H; inversion H; subst.
    destruct (IH _ _ Hf) as (i' & H1 & H2 & H3 & H4). exists i'. cbn [firstn eat_list length]. rewrite He. repeat split; auto. lia.
Qed.

(* the inspector of the expected format f aborts the stream at chunk j (complete, no match): whatever
   follows, it stays as it is; it does not match after close either; outside f's zones the extended content
   does not carry f's signature *)
Theorem mismatch_abort_final f cs j more :
  cfirst_abort (init f) cs = Some (j, AbMismatch) ->
  let seen := firstn (S j) cs in
  complete (fst (eat_list (init f) seen)) = true /\ cmatch (fst (eat_list (init f) seen)) = false /\
  (exists p, fst (eat_list (init f) (seen ++ more)) = ipos (fst (eat_list (init f) seen)) p) /\
  cmatch (fst (run f (seen ++ more))) = false /\
  (in_zone f (concat (seen ++ more)) = false -> sigb f (concat (seen ++ more)) = false).
Proof.
  intros Hfa seen. destruct (first_abort_mismatch _ _ _ Hfa) as (i' & He & Hc & Hm & _). fold seen in He.
  assert (Hi : fst (eat_list (init f) seen) = i') by (rewrite He; reflexivity).
  rewrite Hi. split; [exact Hc|]. split; [exact Hm|].
  assert (Hc' : complete (fst (eat_list (init f) seen)) = true) by (rewrite Hi; exact Hc).
  destruct (after_more f seen more Hc') as (p & Hp). rewrite Hi in Hp.
  split; [eauto|].
  assert (Hrun : cmatch (fst (run f (seen ++ more))) = false).
  { destruct (run_fst_snd f (seen ++ more)) as [Hr _]. rewrite Hr. unfold cmatch.
    rewrite format_match_finish by (apply eat_list_reachable, reachable_init). rewrite Hp, format_match_ipos. exact Hm. }
  split; [exact Hrun|]. intros Hz. rewrite <- (match_is_signature_all f _ Hz). exact Hrun.
Qed.

Lemma factory_has f : In (fmt_name f, init f) factory.
Proof. unfold factory. apply in_map_iff. exists f. split; [reflexivity | apply all_formats_complete]. Qed.
Lemma factory_nodup : NoDup (map fst factory).
Proof. rewrite factory_names. exact all_formats_names_distinct. Qed.

(* the reader's side: with expected_format = f (allowed), the stream is cut at chunk j with ImageFormatError;
   chunks 0..j have been taken from the source; at that point and after close(), whatever format reports,
   it has its signature in the bytes taken, and (outside f's zones) it is never f *)
Theorem expected_mismatch_abort f allowed cs j :
  allowed_key allowed (fmt_name f) = true ->
  cfirst_abort (init f) cs = Some (j, AbMismatch) ->
  exists w1 tr,
    cw_run_stop (cw_new (Some (fmt_name f)) allowed) (map InChunk cs) =
      (w1, tr, firstn j cs, Some (ImageFormatError, Some (nth j cs [])), map InChunk (skipn (S j) cs)) /\
    forall w m g, (w = w1 \/ w = cw_close w1) -> cw_format w = Ok (Some m) -> s_name m = fmt_name g -> g <> F_raw ->
      sigb g (concat (firstn (S j) cs)) = true /\ (in_zone f (concat (firstn (S j) cs)) = false -> g <> f).
Proof.
  intros Ha Hfa.
  destruct (expected_abort_exact_fresh istate eat finish complete cmatch gen_shape gen_shape_ok factory allowed (fmt_name f) (init f) cs
              factory_nodup (factory_has f) Ha) as (w1 & tr & Hrun).
  rewrite Hfa in Hrun. cbn [abort_exn] in Hrun. exists w1, tr. split; [exact Hrun|].
  intros w m g Hw Hf Hn Hg.
  destruct (first_abort_mismatch _ _ _ Hfa) as (_ & _ & _ & _ & Hj).
  pose proof (stopped_format_signature _ _ _ _ _ _ _ _ Hrun w m g Hw Hf Hn Hg) as Hsig.
  assert (Htk : taken_chunks cs (map InChunk (skipn (S j) cs)) = firstn (S j) cs).
  { unfold taken_chunks. rewrite map_length, skipn_length. f_equal. lia. }
  rewrite Htk in Hsig. split; [exact Hsig|].
  intros Hz ->. destruct (mismatch_abort_final f cs j [] Hfa) as (_ & _ & _ & _ & Hno).
  rewrite app_nil_r in Hno. rewrite (Hno Hz) in Hsig. discriminate.
Qed.
