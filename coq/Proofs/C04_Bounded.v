(* Proofs/C04_Bounded.v — C04_mask_whole_bounded / idempotent_bounded: the WHOLE function (all keys,
   all twelve substitutions in order) on the finite family Model/C04_Sweep.family_quick.
   BOUNDED: a finite family, checked by computation in the kernel VM, in eight shards. *)
Require Import OV.Base.Bytes OV.Base.PyInt OV.Base.Str OV.Base.Regex.
Require Import OV.Model.C04 OV.Model.C04_Spec OV.Model.C04_Sweep.
Require Import OV.Proofs.C04_Sweep0 OV.Proofs.C04_Sweep1 OV.Proofs.C04_Sweep2 OV.Proofs.C04_Sweep3.
Require Import OV.Proofs.C04_Sweep4 OV.Proofs.C04_Sweep5 OV.Proofs.C04_Sweep6 OV.Proofs.C04_Sweep7.

Lemma shard_go_in {A} (n : nat) (x : A) : forall l j, (j < n)%nat -> In x l ->
  exists i, (i < n)%nat /\ In x (shard_go n i j l).
Proof.
  induction l as [|y l IH]; intros j Hj Hin; [destruct Hin|].
  assert (Hj' : ((if Nat.eqb (S j) n then 0 else S j) < n)%nat).
  { destruct (Nat.eqb (S j) n) eqn:E; [lia|]. apply Nat.eqb_neq in E. lia. }
  destruct Hin as [->|Hin].
  - exists j. split; [exact Hj|]. cbn [shard_go]. rewrite Nat.eqb_refl. left. reflexivity.
  - destruct (IH _ Hj' Hin) as (i & Hi & H). exists i. split; [exact Hi|]. cbn [shard_go].
    destruct (Nat.eqb j i); [right|]; exact H.
Qed.

Lemma family_quick_checked c : In c family_quick -> check_case c = true.
Proof.
  intros Hin. destruct (shard_go_in 8 c family_quick 0 ltac:(lia) Hin) as (i & Hi & H).
  unfold shard.
  assert (Hall : forallb check_case (shard 8 i family_quick) = true).
  { destruct i as [|[|[|[|[|[|[|[|i]]]]]]]];
      [exact sweep_shard_0|exact sweep_shard_1|exact sweep_shard_2|exact sweep_shard_3
      |exact sweep_shard_4|exact sweep_shard_5|exact sweep_shard_6|exact sweep_shard_7|lia]. }
  rewrite forallb_forall in Hall. apply Hall. exact H.
Qed.
Lemma check_with_spec f z c : check_with f z c = true -> z (case_msg c) = false ->
  f (case_msg c) (case_mask c) = case_want c /\ f (case_want c) (case_mask c) = case_want c.
Proof.
  unfold check_with. intros H Hz. rewrite Hz in H. cbn [orb] in H. apply andb_true_iff in H.
  destruct H as [H1 H2]. apply beq_eq in H1, H2. split; assumption.
Qed.

(* for every case of the family outside the known-finding zones: exactly the value is replaced by the
   mask (every other character of pre ++ head ++ value ++ tail ++ post is kept), and masking the
   result again changes nothing *)
Lemma mask_whole_bounded c : In c family_quick -> in_zone (case_msg c) = false ->
  mask_password (case_msg c) (case_mask c) = case_want c /\
  mask_password (case_want c) (case_mask c) = case_want c.
Proof. intros Hin Hz. exact (check_with_spec mask_password in_zone c (family_quick_checked c Hin) Hz). Qed.
