(* Proofs/C02_VmdkEx.v — concrete sparse VMDK images satisfying the hypotheses of clean_vmdk_accepted (non-vacuity) *)
From Coq Require Import String.
Require Import OV.Base.Bytes OV.Base.Py OV.Base.PyInt OV.Base.Str OV.Base.Insp_Struct OV.Gen.Insp_Consts OV.Model.Insp_Engine.
Require Import OV.Model.Insp_Vmdk OV.Model.Insp_All OV.Model.C02 OV.Proofs.C02_Vmdk OV.Proofs.C02_VmdkRun.
Open Scope N_scope.

Definition zpad_to (n : nat) (b : bytes) : bytes := b ++ repeatN 0 (n - length b).
Definition sparse_hdr (gd : N) : bytes :=
  lit "KDMV" ++ le_enc 4 1 ++ le_enc 4 3 ++ le_enc 8 2048 ++ le_enc 8 128 ++ le_enc 8 1 ++ le_enc 8 1 ++
  le_enc 4 512 ++ le_enc 8 0 ++ le_enc 8 gd.
Definition ex_desc (ctype : str) : bytes :=
  lit "# Disk DescriptorFile" ++ [10] ++ lit "version=1" ++ [10] ++ lit "createType=" ++ [34] ++ ctype ++ [34] ++ [10] ++
  lit "RW 2048 SPARSE " ++ [34] ++ lit "disk.vmdk" ++ [34] ++ [10] ++ lit "ddb.adapterType = " ++ [34] ++ lit "ide" ++ [34] ++ [10].

(* monolithicSparse: header, descriptor sector *)
Definition ex_vmdk : bytes := zpad_to 512 (sparse_hdr 21) ++ zpad_to 512 (ex_desc (lit "monolithicSparse")).

Lemma descriptor_ok_by_check x : vmdk_check_descriptor (mkIst 0 [] 0 false [] x) = Ok tt -> descriptor_ok x.
Proof. intros H. apply (check_descriptor_iff (mkIst 0 [] 0 false [] x)). exact H. Qed.

Example ex_vmdk_wellformed :
  64 <= blen ex_vmdk /\ hdr_pre ex_vmdk /\ vmdk_desc_sec ex_vmdk * 512 = 512 /\ 512 + dsize ex_vmdk <= blen ex_vmdk /\
  is_ascii_text (bslice 512 (dsize ex_vmdk) ex_vmdk) = true /\
  descriptor_ok (mkVx (Some (text_of (bslice 512 (dsize ex_vmdk) ex_vmdk))) (vmdk_type_of (text_of (bslice 512 (dsize ex_vmdk) ex_vmdk)))) /\
  vmdk_gd ex_vmdk <> gd_at_end.
Proof.
  split; [vm_compute; discriminate|]. split; [split; [vm_compute; reflexivity|left; vm_compute; reflexivity]|].
  split; [vm_compute; reflexivity|]. split; [vm_compute; discriminate|]. split; [vm_compute; reflexivity|].
  split; [apply descriptor_ok_by_check; vm_compute; reflexivity|vm_compute; discriminate].
Qed.

(* streamOptimized: header with gdOffset = GD_AT_END, descriptor, footer marker, footer (copy of the header with the real
   gdOffset), end-of-stream marker *)
Definition ex_vmdk_stream : bytes :=
  zpad_to 512 (sparse_hdr gd_at_end) ++ zpad_to 512 (ex_desc (lit "streamOptimized")) ++
  zpad_to 512 (le_enc 8 1 ++ le_enc 4 0 ++ le_enc 4 3) ++ zpad_to 512 (sparse_hdr 3) ++ repeatN 0 512.

Example ex_vmdk_stream_wellformed :
  64 <= blen ex_vmdk_stream /\ hdr_pre ex_vmdk_stream /\ vmdk_desc_sec ex_vmdk_stream * 512 = 512 /\
  512 + dsize ex_vmdk_stream <= blen ex_vmdk_stream /\
  is_ascii_text (bslice 512 (dsize ex_vmdk_stream) ex_vmdk_stream) = true /\
  descriptor_ok (mkVx (Some (text_of (bslice 512 (dsize ex_vmdk_stream) ex_vmdk_stream)))
                      (vmdk_type_of (text_of (bslice 512 (dsize ex_vmdk_stream) ex_vmdk_stream)))) /\
  vmdk_gd ex_vmdk_stream = gd_at_end /\ 1599 <= blen ex_vmdk_stream /\
  footer_ok ex_vmdk_stream (bslice (blen ex_vmdk_stream - 1536) 1536 ex_vmdk_stream).
Proof.
  split; [vm_compute; discriminate|]. split; [split; [vm_compute; reflexivity|left; vm_compute; reflexivity]|].
  split; [vm_compute; reflexivity|]. split; [vm_compute; discriminate|]. split; [vm_compute; reflexivity|].
  split; [apply descriptor_ok_by_check; vm_compute; reflexivity|].
  split; [vm_compute; reflexivity|]. split; [vm_compute; discriminate|].
  unfold footer_ok. repeat split; try (vm_compute; reflexivity). vm_compute. discriminate.
Qed.
