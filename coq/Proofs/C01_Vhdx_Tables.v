(* Proofs/C01_Vhdx_Tables.v — the two table parsers of VHDXInspector (_find_meta_region,
   _find_meta_entry as modelled in Model/Insp_Vhdx.v) are the whole-buffer table readers of the
   specification (Model/C01_Vhdx.v), and those readers are stable when the buffer grows. *)
Require Import OV.Base.Bytes OV.Base.Py OV.Base.Insp_Struct OV.Gen.Insp_Consts OV.Model.Insp_Engine.
Require Import OV.Model.Insp_Vhdx OV.Model.Insp_All OV.Model.C01_Vhdx.
Require Import OV.Proofs.Insp_Engine.
Open Scope N_scope.

(* ------------------------------------------------------------------ slices *)
Lemma nslice_bslice o l b : nslice o l b = bslice o l b.
Proof. unfold nslice, bslice. rewrite ntake_btake, nskip_bskip. reflexivity. Qed.

Lemma bslice_btake_in o l n a : o + l <= n -> bslice o l (btake n a) = bslice o l a.
Proof.
  intros H. unfold bslice. rewrite bskip_btake, btake_btake. f_equal. lia.
Qed.
Lemma bslice_bskip o l k a : bslice o l (bskip k a) = bslice (k + o) l a.
Proof. unfold bslice. rewrite bskip_bskip. reflexivity. Qed.
Lemma bslice_bslice o l O L a : o + l <= L -> bslice o l (bslice O L a) = bslice (O + o) l a.
Proof. intros H. unfold bslice at 2. rewrite bslice_btake_in by exact H. apply bslice_bskip. Qed.
Lemma btake_bslice n a : btake n a = bslice 0 n a.
Proof. reflexivity. Qed.
Lemma bslice_app_le o l a x : o + l <= blen a -> bslice o l (a ++ x) = bslice o l a.
Proof.
  intros H. unfold bslice. rewrite bskip_app_le by lia. apply btake_app_le. rewrite blen_bskip. lia.
Qed.
Lemma bslice_full_len o l a : o + l <= blen a -> blen (bslice o l a) = l.
Proof. intros H. rewrite blen_bslice. lia. Qed.
(* re-slicing with the length actually obtained *)
Lemma bslice_relen o l a : bslice o (blen (bslice o l a)) a = bslice o l a.
Proof.
  rewrite blen_bslice. unfold bslice. rewrite <- (blen_bskip o a). symmetry. apply btake_min.
Qed.
(* a slice of a prefix is a prefix of the slice *)
Lemma bslice_prefix o l a x : exists y, bslice o l (a ++ x) = bslice o l a ++ y.
Proof.
  unfold bslice. destruct (N.le_gt_cases o (blen a)) as [H|H].
  - rewrite bskip_app_le by exact H.
    destruct (N.le_gt_cases l (blen (bskip o a))) as [H1|H1].
    + exists []. rewrite btake_app_le by exact H1. rewrite app_nil_r. reflexivity.
    + rewrite btake_app_ge by lia. rewrite (btake_all l (bskip o a)) by lia. eexists. reflexivity.
  - rewrite (bskip_all o a) by lia. rewrite btake_nil. eexists. reflexivity.
Qed.

(* ------------------------------------------------------------------ entries *)
Definition guid_test (g : bytes) (e : bytes) : bool := beq (ntake 16 e) g.

Lemma vx_entry_bslice base t i : vx_entry base t i = bslice (base + 32 * N.of_nat i) 32 t.
Proof. apply nslice_bslice. Qed.

(* entries that lie inside a prefix do not change when the buffer grows *)
Lemma entries_app base a x k i :
  base + 32 * N.of_nat (i + k) <= blen a ->
  map (vx_entry base (a ++ x)) (seq i k) = map (vx_entry base a) (seq i k).
Proof.
  intros H. apply map_ext_in. intros j Hj. apply in_seq in Hj.
  rewrite !vx_entry_bslice. apply bslice_app_le. lia.
Qed.

Lemma unpack_ok f b : blen b = sf_size f -> unpack f b = Ok b.
Proof. intros H. unfold unpack. rewrite flen_blen, H, N.eqb_refl. reflexivity. Qed.

Lemma guid_is_16 buf g : blen buf = 16 -> vhdx_guid_is buf g = Ok (beq buf g).
Proof. intros H. unfold vhdx_guid_is. rewrite unpack_ok by exact H. reflexivity. Qed.

(* ------------------------------------------------------------------ the region table walk *)
Definition rt_spec_of (mo : N) : rspec := mkRspec false mo VX_META_LEN None.

Lemma rt_loop_spec t : forall k i,
  16 + 32 * N.of_nat (i + k) <= blen t ->
  vhdx_rt_loop k (bskip (16 + 32 * N.of_nat i) t) =
  Ok (option_map (fun e => rt_spec_of (le_val (nslice 16 8 e)))
                 (find (guid_test VHDX_GUID_METAREGION) (map (vx_entry 16 t) (seq i k)))).
Proof.
  induction k as [|k IH]; intros i H; [reflexivity|].
  cbn [vhdx_rt_loop seq map find].
  set (rest := bskip (16 + 32 * N.of_nat i) t).
  assert (Hr : 32 <= blen rest) by (subst rest; rewrite blen_bskip; lia).
  unfold VHDX_RT_ENTRY, VHDX_RT_GUID, VHDX_RT_REST, VHDX_RT_STRIDE.
  rewrite !ntake_btake. rewrite btake_btake. change (N.min 16 32) with 16.
  rewrite guid_is_16 by (rewrite blen_btake; lia). cbn [bind].
  assert (He : vx_entry 16 t i = btake 32 rest) by (rewrite vx_entry_bslice; reflexivity).
  rewrite He. unfold guid_test at 1. rewrite ntake_btake.
  rewrite btake_btake. change (N.min 16 32) with 16.
  destruct (beq (btake 16 rest) VHDX_GUID_METAREGION) eqn:Hg.
  - rewrite nskip_bskip. rewrite unpack_ok by (rewrite blen_bskip, blen_btake; cbn [sf_size sf_vhdx_rt_rest]; lia).
    cbn [bind option_map]. f_equal. f_equal. unfold rt_spec_of, VX_META_LEN. f_equal.
    unfold sint, sraw. cbn [sf_big sf_fields sf_vhdx_rt_rest nth]. f_equal.
    rewrite nslice_bslice. subst rest.
    rewrite bslice_bskip. reflexivity.
  - rewrite nskip_bskip. subst rest. rewrite bskip_bskip.
    replace (16 + 32 * N.of_nat i + 32) with (16 + 32 * N.of_nat (S i)) by lia.
    apply IH. replace (S i + k)%nat with (i + S k)%nat by lia. exact H.
Qed.

(* _find_meta_region on a state whose header region holds all 64 KiB *)
Lemma find_meta_region_spec (s : ist unit) h :
  rget R_header (i_regs s) = Some h -> blen (r_data h) = VX_HDR_LEN ->
  vhdx_find_meta_region s =
  match vx_region_table (r_data h) with
  | Exn e => Exn e
  | Ok o => Ok (option_map rt_spec_of o)
  end.
Proof.
  intros Hg Hl. unfold vhdx_find_meta_region, get_region. rewrite Hg. cbn [bind].
  unfold VHDX_RT_HDR. rewrite ntake_btake.
  rewrite unpack_ok by (rewrite blen_btake, Hl; reflexivity). cbn [bind].
  unfold vx_region_table. unfold sint, sraw. cbn [sf_big sf_fields sf_vhdx_rt_hdr nth].
  rewrite !nslice_bslice. rewrite !bslice_btake_in by lia.
  destruct (negb (le_val (bslice 0 4 (r_data h)) =? VHDX_REGI)); [reflexivity|].
  destruct (VHDX_RT_LIMIT <=? le_val (bslice 8 4 (r_data h))) eqn:Hc; [reflexivity|].
  unfold VHDX_RT_LIMIT in Hc. unfold VHDX_RT_FIRST. rewrite nskip_bskip.
  pose proof (rt_loop_spec (r_data h) (N.to_nat (le_val (bslice 8 4 (r_data h)))) 0) as HL.
  change (16 + 32 * N.of_nat 0) with 16 in HL. rewrite HL.
  - unfold vx_first_guid. f_equal.
    destruct (find _ _); reflexivity.
  - rewrite Hl. unfold VX_HDR_LEN. lia.
Qed.

(* ------------------------------------------------------------------ the metadata table walk *)
Definition mt_item (e : bytes) : N * N :=
  (le_val (nslice 16 4 e), N.min (le_val (nslice 20 4 e)) VHDX_VHDX_METADATA_TABLE_MAX_SIZE).

Lemma mt_loop_spec g t : forall k i,
  32 + 32 * N.of_nat (i + k) <= blen t ->
  vhdx_mt_loop k g (bskip (32 + 32 * N.of_nat i) t) =
  Ok (option_map mt_item (find (guid_test g) (map (vx_entry 32 t) (seq i k)))).
Proof.
  induction k as [|k IH]; intros i H; [reflexivity|].
  cbn [vhdx_mt_loop seq map find].
  set (rest := bskip (32 + 32 * N.of_nat i) t).
  assert (Hr : 32 <= blen rest) by (subst rest; rewrite blen_bskip; lia).
  unfold VHDX_MT_GUID, VHDX_MT_F_LO, VHDX_MT_F_HI, VHDX_MT_STRIDE2.
  rewrite !ntake_btake.
  rewrite guid_is_16 by (rewrite blen_btake; lia). cbn [bind].
  assert (He : vx_entry 32 t i = btake 32 rest) by (rewrite vx_entry_bslice; reflexivity).
  rewrite He. unfold guid_test at 1. rewrite ntake_btake.
  rewrite btake_btake. change (N.min 16 32) with 16.
  destruct (beq (btake 16 rest) g) eqn:Hg.
  - rewrite nsub_bsub. unfold bsub. change (28 - 16) with 12.
    rewrite unpack_ok by (rewrite blen_btake, blen_bskip; cbn [sf_size sf_vhdx_mt_item]; lia).
    cbn [bind option_map]. f_equal. f_equal. unfold mt_item.
    unfold sint, sraw. cbn [sf_big sf_fields sf_vhdx_mt_item nth].
    rewrite !nslice_bslice. subst rest.
    rewrite !(bslice_btake_in _ _ 12) by lia. rewrite !bslice_bskip.
    rewrite !(bslice_btake_in _ _ 32) by lia. rewrite !bslice_bskip. reflexivity.
  - rewrite nskip_bskip. subst rest. rewrite bskip_bskip.
    replace (32 + 32 * N.of_nat i + 32) with (32 + 32 * N.of_nat (S i)) by lia.
    apply IH. replace (S i + k)%nat with (i + S k)%nat by lia. exact H.
Qed.

(* _find_meta_entry(VIRTUAL_DISK_SIZE) on a state that has a metadata region m *)
Lemma find_meta_entry_spec (s : ist unit) m :
  rget R_metadata (i_regs s) = Some m ->
  vhdx_find_meta_entry VHDX_GUID_VIRTUAL_DISK_SIZE s =
  match vx_meta_table (r_data m) with
  | Exn e => (s, Exn e)
  | Ok None => (s, Ok None)
  | Ok (Some (io, il)) =>
    (set_regs s (rset R_metadata (set_len m (flen (r_data m))) (i_regs s)),
     Ok (Some (mkRspec false (r_off m + io) il None)))
  end.
Proof.
  intros Hg. unfold vhdx_find_meta_entry, get_region. rewrite Hg.
  unfold vx_meta_table, vx_entries_size, vx_meta_count.
  destruct (flen (r_data m) <? VHDX_MT_MIN) eqn:H32; [reflexivity|].
  rewrite flen_blen in *. unfold VHDX_MT_MIN in H32.
  unfold VHDX_MT_HDR. rewrite ntake_btake.
  rewrite unpack_ok by (rewrite blen_btake; cbn [sf_size sf_vhdx_mt_hdr]; lia).
  unfold sint, sraw. cbn [sf_big sf_fields sf_vhdx_mt_hdr nth].
  rewrite !nslice_bslice. rewrite !bslice_btake_in by lia.
  destruct (negb (beq (bslice 0 8 (r_data m)) VHDX_META_SIG)); [reflexivity|].
  set (count := le_val (bslice 10 2 (r_data m))).
  destruct (blen (r_data m) <? VHDX_MT_BASE + count * VHDX_MT_STRIDE) eqn:Hes; [reflexivity|].
  destruct (VHDX_MT_LIMIT <=? count); [reflexivity|].
  unfold VHDX_MT_BASE, VHDX_MT_STRIDE in Hes. unfold VHDX_MT_BASE2. rewrite nskip_bskip.
  pose proof (mt_loop_spec VHDX_GUID_VIRTUAL_DISK_SIZE (r_data m) (N.to_nat count) 0) as HL.
  change (32 + 32 * N.of_nat 0) with 32 in HL. rewrite HL by lia.
  unfold vx_first_guid. fold (guid_test VHDX_GUID_VIRTUAL_DISK_SIZE).
  destruct (find _ _) as [e|]; cbn [option_map]; reflexivity.
Qed.

(* ------------------------------------------------------------------ stability when the buffer grows *)
(* the metadata table reader: once it says something other than "not yet / not there", more bytes
   do not change the answer *)
Lemma meta_table_prefix m x :
  (vx_meta_table m = Ok None /\ (blen m < 32 \/ (32 <= blen m /\ blen m < vx_entries_size m)))
  \/ vx_meta_table (m ++ x) = vx_meta_table m.
Proof.
  unfold vx_meta_table, vx_entries_size, vx_meta_count. rewrite !flen_blen, !nslice_bslice.
  unfold VHDX_MT_MIN.
  destruct (blen m <? 32) eqn:H32; [left; split; [reflexivity | left; lia]|].
  rewrite !(bslice_app_le _ _ m x) by lia.
  replace (blen (m ++ x) <? 32) with false by (rewrite blen_app; lia).
  destruct (negb (beq (bslice 0 8 m) VHDX_META_SIG)); [right; reflexivity|].
  set (count := le_val (bslice 10 2 m)).
  destruct (blen m <? VHDX_MT_BASE + count * VHDX_MT_STRIDE) eqn:Hes; [left; split; [reflexivity | right; lia]|].
  unfold VHDX_MT_BASE, VHDX_MT_STRIDE in *.
  replace (blen (m ++ x) <? 32 + count * 32) with false by (rewrite blen_app; lia).
  right. destruct (VHDX_MT_LIMIT <=? count); [reflexivity|].
  unfold vx_first_guid, VHDX_MT_BASE2. rewrite entries_app by lia. reflexivity.
Qed.

Lemma entries_size_ge m : 32 <= vx_entries_size m.
Proof. unfold vx_entries_size, VHDX_MT_BASE. lia. Qed.

(* the number of entries is read from the first 12 bytes *)
Lemma entries_size_prefix m x : 32 <= blen m -> vx_entries_size (m ++ x) = vx_entries_size m.
Proof.
  intros H. unfold vx_entries_size, vx_meta_count. rewrite !nslice_bslice.
  rewrite bslice_app_le by lia. reflexivity.
Qed.

(* a found item needs the whole entry table, and the table fits in 64 KiB *)
Lemma meta_table_found m io il :
  vx_meta_table m = Ok (Some (io, il)) ->
  32 <= blen m /\ vx_entries_size m <= blen m /\ il <= VX_META_LEN.
Proof.
  unfold vx_meta_table. rewrite !flen_blen.
  destruct (blen m <? VHDX_MT_MIN) eqn:H32; [discriminate|]. unfold VHDX_MT_MIN in H32.
  destruct (negb _); [discriminate|].
  destruct (blen m <? vx_entries_size m) eqn:Hes; [discriminate|].
  destruct (VHDX_MT_LIMIT <=? _); [discriminate|].
  destruct (vx_first_guid _ _ _ _); cbn [option_map]; [|discriminate].
  intros H. inversion H; subst. split; [lia|]. split; [lia|].
  unfold VX_META_LEN, VHDX_META_A, VHDX_META_B, VHDX_VHDX_METADATA_TABLE_MAX_SIZE. lia.
Qed.

Lemma meta_table_short m : blen m < 32 -> vx_meta_table m = Ok None.
Proof. intros H. unfold vx_meta_table. rewrite flen_blen. unfold VHDX_MT_MIN. replace (blen m <? 32) with true by lia. reflexivity. Qed.

(* a bad signature is reported as soon as the 32-byte header is there *)
Lemma meta_table_exn m e :
  vx_meta_table m = Exn e -> blen m <= VX_META_LEN ->
  32 <= blen m /\ beq (bslice 0 8 m) VHDX_META_SIG = false.
Proof.
  unfold vx_meta_table. rewrite !flen_blen, nslice_bslice.
  destruct (blen m <? VHDX_MT_MIN) eqn:H32; [discriminate|]. unfold VHDX_MT_MIN in H32.
  destruct (beq (bslice 0 8 m) VHDX_META_SIG) eqn:Hsig; cbn [negb]; [|intros _ _; split; [lia|reflexivity]].
  destruct (blen m <? vx_entries_size m) eqn:Hes; [discriminate|].
  destruct (VHDX_MT_LIMIT <=? vx_meta_count m) eqn:Hc; [|destruct (vx_first_guid _ _ _ _); discriminate].
  unfold vx_entries_size, VHDX_MT_LIMIT, VHDX_MT_BASE, VHDX_MT_STRIDE, VX_META_LEN, VHDX_META_A, VHDX_META_B in *. intros _ Hl. lia.
Qed.
