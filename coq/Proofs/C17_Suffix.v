(* Proofs/C17_Suffix.v — what re.sub(SUFFIX, '\1', s) computes, for every regex of the shape
        (D1+)(a1|a2|...|an)D2+$        with literal alternatives a_i
   (the shape is recognised by [suffix_parts]; the classes and the alternatives are whatever
   the generated regex contains).  Side conditions on the parts are decidable ([parts_ok]). *)
Require Import OV.Base.Bytes OV.Base.PyInt OV.Base.Regex.
Require Import OV.Proofs.C11_Regex OV.Proofs.C04_Regex OV.Proofs.C17_Regex.
Open Scope N_scope.

Definition suffix_parts (r : re) : option (cset * list str * cset) :=
  match r with
  | Seq (Group 1%nat (Rep d1 1%nat None)) (Seq (Group 2%nat a) (Seq (Rep d2 1%nat None) Eol)) =>
      match alts_of a with Some l => Some (d1, l, d2) | None => None end
  | _ => None
  end.

(* the template '\1' *)
Definition repl_is_g1 (t : list titem) : bool := match t with [TGrp 1%nat] => true | _ => false end.

Definition alt_head (alts : list str) (c : N) : bool :=
  existsb (fun a => match a with x :: _ => x =? c | [] => false end) alts.

(* every alternative is non-empty and made of characters outside both digit classes;
   '\n' is in neither class *)
Definition parts_ok (d1 : cset) (alts : list str) (d2 : cset) : bool :=
  forallb (fun a => match a with [] => false | _ => forallb (fun c => negb (cmem c d1) && negb (cmem c d2)) a end) alts
  && negb (cmem 10 d1) && negb (cmem 10 d2) && negb (alt_head alts 10).

Section Suffix.
Variables (r : re) (d1 : cset) (alts : list str) (d2 : cset).
Hypothesis Hparts : suffix_parts r = Some (d1, alts, d2).
Hypothesis Hok : parts_ok d1 alts d2 = true.

Lemma r_shape : exists a, r = Seq (Group 1%nat (Rep d1 1%nat None)) (Seq (Group 2%nat a) (Seq (Rep d2 1%nat None) Eol)) /\ alts_of a = Some alts.
Proof.
  unfold suffix_parts in Hparts.
  destruct r as [| |x y| | | | | |]; try discriminate.
  destruct x as [| | | | | |i x| |]; try discriminate. destruct i as [|[|i]]; try discriminate.
  destruct x as [| | | |c1 mn mx| | | |]; try discriminate. destruct mn as [|[|mn]]; try discriminate. destruct mx; try discriminate.
  destruct y as [| |y z| | | | | |]; try discriminate.
  destruct y as [| | | | | |i y| |]; try discriminate. destruct i as [|[|[|i]]]; try discriminate.
  destruct z as [| |z w| | | | | |]; try discriminate.
  destruct z as [| | | |c2 mn mx| | | |]; try discriminate. destruct mn as [|[|mn]]; try discriminate. destruct mx; try discriminate.
  destruct w; try discriminate.
  destruct (alts_of y) as [l|] eqn:E; [|discriminate]. injection Hparts as <- <- <-.
  exists y. split; [reflexivity|exact E].
Qed.

Lemma ok_alt a : In a alts -> a <> [] /\ forall c, In c a -> cmem c d1 = false /\ cmem c d2 = false.
Proof.
  intros Hin. unfold parts_ok in Hok. apply andb_true_iff in Hok. destruct Hok as [H _]. apply andb_true_iff in H. destruct H as [H _].
  apply andb_true_iff in H. destruct H as [H _]. rewrite forallb_forall in H. specialize (H a Hin).
  destruct a as [|x a]; [discriminate|]. split; [discriminate|]. intros c Hc.
  rewrite forallb_forall in H. specialize (H c Hc). apply andb_true_iff in H. destruct H as [A B].
  apply negb_true_iff in A, B. auto.
Qed.
Lemma ok_nl1 : cmem 10 d1 = false.
Proof. unfold parts_ok in Hok. apply andb_true_iff in Hok. destruct Hok as [H _]. apply andb_true_iff in H. destruct H as [H _]. apply andb_true_iff in H. destruct H as [_ H]. apply negb_true_iff in H. exact H. Qed.
Lemma ok_nl2 : cmem 10 d2 = false.
Proof. unfold parts_ok in Hok. apply andb_true_iff in Hok. destruct Hok as [H _]. apply andb_true_iff in H. destruct H as [_ H]. apply negb_true_iff in H. exact H. Qed.
Lemma ok_nl_head : alt_head alts 10 = false.
Proof. unfold parts_ok in Hok. apply andb_true_iff in Hok. destruct Hok as [_ H]. apply negb_true_iff in H. exact H. Qed.

Lemma alt_head_d1 c : cmem c d1 = true -> alt_head alts c = false.
Proof.
  intros Hc. unfold alt_head. match goal with |- ?e = false => destruct e eqn:E end; [|reflexivity]. exfalso.
  apply existsb_exists in E. destruct E as [a [Hin Ha]]. destruct a as [|x a]; [discriminate|].
  apply N.eqb_eq in Ha. subst x. destruct (ok_alt _ Hin) as [_ H]. destruct (H c (or_introl eq_refl)). congruence.
Qed.

Lemma alt_head_false_prefix c t a : alt_head alts c = false -> In a alts -> prefixb a (c :: t) = false.
Proof.
  intros Hc Hin. destruct (ok_alt _ Hin) as [Hne _]. destruct a as [|x a]; [congruence|].
  cbn [prefixb]. destruct (x =? c) eqn:E; [|reflexivity]. exfalso.
  unfold alt_head in Hc. assert (existsb (fun a => match a with x :: _ => x =? c | [] => false end) alts = true); [|congruence].
  apply existsb_exists. exists (x :: a). split; [exact Hin|exact E].
Qed.

(* ---------- no match: after the initial D1-run comes a character that starts no alternative ---------- *)
Lemma suffix_no_match s p :
  match nth_error s (run_len d1 s None) with Some c => alt_head alts c = false | None => True end ->
  match_at r s p = None.
Proof.
  intros Hstop. destruct r_shape as [a [-> Ha]]. unfold match_at. cbn [m].
  destruct (Nat.ltb (run_len d1 s None) 1) eqn:L; [reflexivity|]. apply Nat.ltb_ge in L.
  apply try_counts_none; [exact L|]. intros j Hj.
  rewrite (m_alts _ a alts) by exact Ha. apply first_some_none. intros x Hx. unfold alt_k.
  destruct (skipn j s) as [|c t] eqn:E.
  - rewrite prefixb_nil_false by (apply (ok_alt _ Hx)). reflexivity.
  - assert (Hc : nth_error s j = Some c) by (rewrite <- hd_skipn, E; reflexivity).
    rewrite (alt_head_false_prefix c t x); [reflexivity| |exact Hx].
    destruct (Nat.eq_dec j (run_len d1 s None)) as [->|Hne].
    + rewrite Hc in Hstop. exact Hstop.
    + destruct (run_len_in d1 s j ltac:(lia)) as [c' [Hc' Hm]]. rewrite Hc in Hc'. injection Hc' as <-.
      apply alt_head_d1. exact Hm.
Qed.

Lemma suffix_no_match_nl p : match_at r [10] p = None.
Proof. destruct r_shape as [a [-> Ha]]. unfold match_at. cbn [m run_len]. rewrite ok_nl1. reflexivity. Qed.

(* ---------- the match: D1 sfx D2 followed by the end or by a final newline ---------- *)
Definition tail_ok (tail : str) : Prop := tail = [] \/ tail = [10].

Lemma suffix_match D1 sfx D2 tail p :
  all_in d1 D1 = true -> D1 <> [] -> In sfx alts -> all_in d2 D2 = true -> D2 <> [] -> tail_ok tail ->
  match_at r (D1 ++ sfx ++ D2 ++ tail) p =
    Some (p + blen D1 + blen sfx + blen D2, [(2%nat, (p + blen D1, p + blen D1 + blen sfx)); (1%nat, (p, p + blen D1))]).
Proof.
  intros H1 N1 Hin H2 N2 Ht. destruct r_shape as [a [-> Ha]]. unfold match_at. cbn [m].
  destruct (ok_alt _ Hin) as [Hne Hch].
  assert (Hhd : hd_notin d1 (sfx ++ D2 ++ tail) = true).
  { destruct sfx as [|x sfx]; [congruence|]. cbn [app hd_notin]. destruct (Hch x (or_introl eq_refl)) as [-> _]. reflexivity. }
  change (m _ (Rep d1 1 None) (D1 ++ sfx ++ D2 ++ tail) p [] ?k) with (m _ (Rep d1 1 None) (D1 ++ (sfx ++ D2 ++ tail)) p [] k).
  apply m_rep_max; [exact H1|destruct D1; [congruence|cbn; lia]|reflexivity|left; exact Hhd|].
  rewrite (m_alts _ a alts) by exact Ha.
  assert (Htl : hd_notin d2 tail = true) by (destruct Ht as [->| ->]; [reflexivity|cbn [hd_notin]; rewrite ok_nl2; reflexivity]).
  assert (Hend : forall q G, m (N * groups) Eol tail q G (fun _ p' g' => Some (p', g')) = Some (q, G)).
  { intros q G. destruct Ht as [->| ->]; reflexivity. }
  apply first_some_pick with (a := sfx); [exact Hin| |].
  - unfold alt_k. rewrite prefixb_app, skipn_app_exact. cbn [m].
    apply m_rep_max; [exact H2|destruct D2; [congruence|cbn; lia]|reflexivity|left; exact Htl|].
    cbv beta. destruct Ht as [->| ->]; reflexivity.
  - intros b Hb. unfold alt_k. destruct (prefixb b (sfx ++ D2 ++ tail)) eqn:Eb; [|left; reflexivity].
    destruct (ok_alt _ Hb) as [Hbne Hbch].
    destruct (prefixes_comparable b sfx (sfx ++ D2 ++ tail) Eb (prefixb_app _ _)) as [[x Hx]|[x Hx]].
    + (* b is a prefix of sfx *)
      destruct x as [|c x].
      * rewrite app_nil_r in Hx. subst b. right. rewrite skipn_app_exact. cbn [m].
        apply m_rep_max; [exact H2|destruct D2; [congruence|cbn; lia]|reflexivity|left; exact Htl|].
        cbv beta. destruct Ht as [->| ->]; reflexivity.
      * left. subst sfx. rewrite <- app_assoc, skipn_app_exact. cbn [m app run_len].
        destruct (Hch c ltac:(apply in_or_app; right; left; reflexivity)) as [_ ->]. reflexivity.
    + (* sfx is a proper prefix of b: b would contain the first character of D2 *)
      destruct x as [|c x]; [rewrite app_nil_r in Hx; subst b; right|exfalso].
      * rewrite skipn_app_exact. cbn [m].
        apply m_rep_max; [exact H2|destruct D2; [congruence|cbn; lia]|reflexivity|left; exact Htl|].
        cbv beta. destruct Ht as [->| ->]; reflexivity.
      * subst b.
        assert (Hp : prefixb (c :: x) (D2 ++ tail) = true).
        { clear -Eb. induction sfx as [|y sfx IH]; [exact Eb|]. cbn [app prefixb] in Eb. apply andb_true_iff in Eb. apply IH, Eb. }
        destruct D2 as [|d D2]; [congruence|]. cbn [app prefixb] in Hp. apply andb_true_iff in Hp. destruct Hp as [Hp _].
        apply N.eqb_eq in Hp. subst d. cbn [all_in forallb] in H2. apply andb_true_iff in H2. destruct H2 as [H2 _].
        destruct (Hbch c ltac:(apply in_or_app; right; left; reflexivity)). congruence.
Qed.

(* ---------- re.sub ---------- *)
(* "plain" text: no character starts an alternative *)
Definition plain (s : str) : Prop := forall c, In c s -> alt_head alts c = false.

Lemma in_skipn {A} (x : A) j l : In x (skipn j l) -> In x l.
Proof. intros H. rewrite <- (firstn_skipn j l). apply in_or_app. right. exact H. Qed.

Lemma no_match_plain s p : plain s -> match_at r s p = None.
Proof.
  intros Hpl. apply suffix_no_match. pose proof (run_len_stop d1 s) as Hs.
  destruct (nth_error s (run_len d1 s None)) as [c|] eqn:E; [|exact I].
  apply Hpl. eapply nth_error_In. exact E.
Qed.

Lemma no_match_before pre' c rest j p :
  plain (pre' ++ [c]) -> cmem c d1 = false -> (j <= length pre')%nat ->
  match_at r (skipn j ((pre' ++ [c]) ++ rest)) p = None.
Proof.
  intros Hpl Hc Hj. rewrite <- app_assoc. rewrite skipn_app. replace (j - length pre')%nat with 0%nat by lia. cbn [skipn].
  destruct (span_cs_spec d1 (skipn j pre')) as (E & A & B).
  set (u := fst (span_cs d1 (skipn j pre'))) in *. set (w := snd (span_cs d1 (skipn j pre'))) in *.
  rewrite E, <- app_assoc. apply suffix_no_match.
  rewrite (C04_Regex.run_len_exact d1 u (w ++ [c] ++ rest) None A eq_refl).
  2:{ left. destruct w; cbn [app hd_notin]; [rewrite Hc; reflexivity|exact B]. }
  rewrite nth_error_app2 by lia. rewrite Nat.sub_diag.
  destruct w as [|x w]; cbn [app nth_error].
  - apply Hpl. apply in_or_app. right. left. reflexivity.
  - apply Hpl. apply in_or_app. left. apply (in_skipn x j). rewrite E. apply in_or_app. right. left. reflexivity.
Qed.

Definition ends_outside (pre : str) : Prop := pre = [] \/ exists pre' c, pre = pre' ++ [c] /\ cmem c d1 = false.

Theorem re_sub_suffix t pre D1 sfx D2 tail :
  repl_is_g1 t = true -> plain pre -> ends_outside pre ->
  all_in d1 D1 = true -> D1 <> [] -> In sfx alts -> all_in d2 D2 = true -> D2 <> [] -> tail_ok tail ->
  re_sub r t (pre ++ D1 ++ sfx ++ D2 ++ tail) = pre ++ D1 ++ tail.
Proof.
  intros Ht Hpl Hend H1 N1 Hin H2 N2 Htl.
  destruct t as [|[?|[|[|i]]] [|? ?]]; try discriminate. clear Ht.
  unfold re_sub. set (whole := pre ++ D1 ++ sfx ++ D2 ++ tail).
  unfold whole at 2. rewrite sub_go_copy.
  2:{ intros j Hj. destruct Hend as [->|[pre' [c [-> Hc]]]]; [cbn in Hj; lia|].
      apply no_match_before; [exact Hpl|exact Hc|]. rewrite app_length in Hj. cbn in Hj. lia. }
  f_equal. rewrite N.add_0_l.
  rewrite (sub_go_hit r _ whole _ (blen pre) (length (D1 ++ sfx ++ D2))
             [(2%nat, (blen pre + blen D1, blen pre + blen D1 + blen sfx)); (1%nat, (blen pre, blen pre + blen D1))]).
  - cbn [expand gget Nat.eqb]. rewrite app_nil_r. unfold whole.
    replace (blen pre + blen D1) with (blen (pre ++ D1)) by apply blen_app.
    rewrite slice_mid. f_equal.
    replace (D1 ++ sfx ++ D2 ++ tail) with ((D1 ++ sfx ++ D2) ++ tail) by (rewrite <- !app_assoc; reflexivity).
    rewrite skipn_app_exact.
    destruct Htl as [->| ->]; [reflexivity|]. cbn [sub_go]. rewrite suffix_no_match_nl. reflexivity.
  - destruct D1; [congruence|cbn; lia].
  - rewrite !app_length. lia.
  - rewrite (suffix_match D1 sfx D2 tail (blen pre)) by assumption. f_equal. f_equal.
    unfold blen. rewrite !app_length. lia.
Qed.

Theorem re_sub_plain t s : plain s -> re_sub r t s = s.
Proof.
  intros Hpl. unfold re_sub. transitivity (sub_go r t s (s ++ []) 0 0); [rewrite app_nil_r; reflexivity|]. rewrite sub_go_copy.
  - cbn [sub_go]. apply app_nil_r.
  - intros j Hj. rewrite app_nil_r. apply no_match_plain. intros c Hc. apply Hpl. eapply in_skipn. exact Hc.
Qed.

(* plain text followed by one '\n' (what `$` tolerates) is also left alone *)
Theorem re_sub_plain_nl t s : plain s -> re_sub r t (s ++ [10]) = s ++ [10].
Proof.
  intros Hpl. unfold re_sub. rewrite sub_go_copy.
  - cbn [sub_go]. rewrite suffix_no_match_nl. reflexivity.
  - intros j Hj. apply suffix_no_match.
    rewrite skipn_app. replace (j - length s)%nat with 0%nat by lia. cbn [skipn].
    destruct (span_cs_spec d1 (skipn j s)) as (E & A & B).
    set (u := fst (span_cs d1 (skipn j s))) in *. set (w := snd (span_cs d1 (skipn j s))) in *.
    rewrite E, <- app_assoc.
    rewrite (C04_Regex.run_len_exact d1 u (w ++ [10]) None A eq_refl).
    2:{ left. destruct w; cbn [app hd_notin]; [rewrite ok_nl1; reflexivity|exact B]. }
    rewrite nth_error_app2 by lia. rewrite Nat.sub_diag.
    destruct w as [|x w]; cbn [app nth_error].
    + (* the run reaches the newline: Rep then needs an alternative at '\n' *)
      apply ok_nl_head.
    + apply Hpl. apply (in_skipn x j). rewrite E. apply in_or_app. right. left. reflexivity.
Qed.
End Suffix.
