(* Proofs/C16_Codecs.v — the concrete world of Model/C16_Codecs.v satisfies every
   contract the abstract theorems assume:
     * UTF-8: decode (encode t) = t for every surrogate-free text (any error policy),
       and conversely a strictly decodable byte string is the encoding of its text
       (so overlong forms, surrogates and values above U+10FFFF are rejected);
     * Latin-1, ASCII: the same for texts below 256 / 128;
     * an error policy matters only when there is an error;
     * codec-name lookup ignores ASCII letter case;
     * the NFKD fold driven by the generated table yields ASCII and fixes ASCII. *)
From Coq Require Import String.
Require Import OV.Base.Bytes OV.Base.PyInt OV.Base.Str OV.Base.C16_Py.
Require Import OV.Gen.C16_Aliases OV.Gen.C16_Fold OV.Gen.C16_Code.
Require Import OV.Model.C16 OV.Model.C16_Codecs OV.Proofs.C16_Slug.
Open Scope N_scope.

Ltac Zify.zify_post_hook ::= Z.div_mod_to_equations.

Lemma cmap_ok {A B} (f : A -> B) r y : cmap f r = COk y -> exists x, r = COk x /\ y = f x.
Proof. destruct r as [x|e]; cbn; intros H; [injection H as <-; eauto|discriminate]. Qed.

Lemma policy_strict : policy_of strict_name = Strict.
Proof. reflexivity. Qed.

(* ================= UTF-8: decode after encode ================= *)

(* one unfolding step of the decoder (used instead of cbn, which would also compute on N) *)
Lemma utf8_dec_cons p b0 r0 : utf8_dec p (b0 :: r0) =
    if b0 <? 128 then cmap (cons b0) (utf8_dec p r0)
    else if (194 <=? b0) && (b0 <=? 223) then
      match r0 with
      | [] => on_dec_error p (COk [])
      | b1 :: r1 =>
        if is_cont b1 then cmap (cons ((b0 - 192) * 64 + (b1 - 128))) (utf8_dec p r1)
        else on_dec_error p (utf8_dec p r0)
      end
    else if (224 <=? b0) && (b0 <=? 239) then
      match r0 with
      | [] => on_dec_error p (COk [])
      | b1 :: r1 =>
        if second3 b0 b1 then
          match r1 with
          | [] => on_dec_error p (COk [])
          | b2 :: r2 =>
            if is_cont b2 then cmap (cons ((b0 - 224) * 4096 + (b1 - 128) * 64 + (b2 - 128))) (utf8_dec p r2)
            else on_dec_error p (utf8_dec p r1)
          end
        else on_dec_error p (utf8_dec p r0)
      end
    else if (240 <=? b0) && (b0 <=? 244) then
      match r0 with
      | [] => on_dec_error p (COk [])
      | b1 :: r1 =>
        if second4 b0 b1 then
          match r1 with
          | [] => on_dec_error p (COk [])
          | b2 :: r2 =>
            if is_cont b2 then
              match r2 with
              | [] => on_dec_error p (COk [])
              | b3 :: r3 =>
                if is_cont b3 then
                  cmap (cons ((b0 - 240) * 262144 + (b1 - 128) * 4096 + (b2 - 128) * 64 + (b3 - 128))) (utf8_dec p r3)
                else on_dec_error p (utf8_dec p r2)
              end
            else on_dec_error p (utf8_dec p r1)
          end
        else on_dec_error p (utf8_dec p r0)
      end
    else on_dec_error p (utf8_dec p r0).
Proof. reflexivity. Qed.

Lemma some_inj {A} (x y : A) : Some x = Some y -> x = y.
Proof. congruence. Qed.

Lemma utf8_dec_enc1 c bs : utf8_enc1 c = Some bs ->
  forall p rest, utf8_dec p (bs ++ rest) = cmap (cons c) (utf8_dec p rest).
Proof.
  unfold utf8_enc1. intros H p rest.
  destruct (c <? 128) eqn:E1.
  { apply some_inj in H; subst bs. cbv beta iota fix delta [app]. rewrite utf8_dec_cons, E1. reflexivity. }
  destruct (c <? 2048) eqn:E2.
  { apply some_inj in H; subst bs. cbv beta iota fix delta [app]. rewrite utf8_dec_cons.
    replace (192 + c / 64 <? 128) with false by lia.
    replace ((194 <=? 192 + c / 64) && (192 + c / 64 <=? 223)) with true by lia.
    cbv iota.
    replace (is_cont (128 + c mod 64)) with true by (unfold is_cont; lia).
    f_equal. f_equal. lia. }
  destruct (c <? 65536) eqn:E3.
  { destruct ((55296 <=? c) && (c <=? 57343)) eqn:Es; [discriminate|]. apply some_inj in H; subst bs.
    cbv beta iota fix delta [app]. rewrite utf8_dec_cons.
    replace (224 + c / 4096 <? 128) with false by lia.
    replace ((194 <=? 224 + c / 4096) && (224 + c / 4096 <=? 223)) with false by lia.
    replace ((224 <=? 224 + c / 4096) && (224 + c / 4096 <=? 239)) with true by lia.
    cbv iota.
    replace (second3 (224 + c / 4096) (128 + (c / 64) mod 64)) with true.
    2:{ unfold second3, is_cont.
        destruct (224 + c / 4096 =? 224) eqn:Ea; [lia|].
        destruct (224 + c / 4096 =? 237) eqn:Eb; lia. }
    cbv iota.
    replace (is_cont (128 + c mod 64)) with true by (unfold is_cont; lia).
    f_equal. f_equal. lia. }
  destruct (c <? 1114112) eqn:E4; [|discriminate].
  apply some_inj in H; subst bs. cbv beta iota fix delta [app]. rewrite utf8_dec_cons.
  replace (240 + c / 262144 <? 128) with false by lia.
  replace ((194 <=? 240 + c / 262144) && (240 + c / 262144 <=? 223)) with false by lia.
  replace ((224 <=? 240 + c / 262144) && (240 + c / 262144 <=? 239)) with false by lia.
  replace ((240 <=? 240 + c / 262144) && (240 + c / 262144 <=? 244)) with true by lia.
  cbv iota.
  replace (second4 (240 + c / 262144) (128 + (c / 4096) mod 64)) with true.
  2:{ unfold second4, is_cont.
      destruct (240 + c / 262144 =? 240) eqn:Ea; [lia|].
      destruct (240 + c / 262144 =? 244) eqn:Eb; lia. }
  cbv iota.
  replace (is_cont (128 + (c / 64) mod 64)) with true by (unfold is_cont; lia).
  cbv iota.
  replace (is_cont (128 + c mod 64)) with true by (unfold is_cont; lia).
  f_equal. f_equal. lia.
Qed.

Lemma utf8_enc1_scalar c : scalar c = true -> exists bs, utf8_enc1 c = Some bs.
Proof.
  unfold scalar, utf8_enc1. intros H.
  destruct (c <? 128); [eauto|]. destruct (c <? 2048); [eauto|].
  destruct (c <? 65536) eqn:E3.
  - replace ((55296 <=? c) && (c <=? 57343)) with false by lia. eauto.
  - replace (c <? 1114112) with true by lia. eauto.
Qed.

(* every surrogate-free text is encoded, whatever the policy, and decodes back to itself,
   whatever the policy *)
Theorem utf8_roundtrip t : valid_text t = true ->
  exists b, (forall p, utf8_enc p t = COk b) /\ (forall p, utf8_dec p b = COk t).
Proof.
  induction t as [|c t IH]; intros H.
  - exists []. split; reflexivity.
  - cbn [valid_text forallb] in H. apply andb_true_iff in H. destruct H as [Hc Ht].
    destruct (IH Ht) as (b & He & Hd). destruct (utf8_enc1_scalar c Hc) as (bs & Hbs).
    exists (bs ++ b). split; intros p.
    + cbn [utf8_enc]. rewrite Hbs, He. reflexivity.
    + rewrite (utf8_dec_enc1 c bs Hbs), Hd. reflexivity.
Qed.

(* ================= UTF-8: encode after (strict) decode ================= *)

Lemma strong_list_ind {A} (P : list A -> Prop) :
  (forall l, (forall l', (length l' < length l)%nat -> P l') -> P l) -> forall l, P l.
Proof.
  intros H l. assert (G : forall n l, (length l < n)%nat -> P l).
  { induction n as [|n IH]; intros l' Hl; [lia|]. apply H. intros l'' Hl''. apply IH. lia. }
  apply (G (S (length l))). lia.
Qed.

Ltac dec_step IH :=
  match goal with
  | H : cmap (cons ?x) (utf8_dec Strict ?r) = COk ?t |- _ =>
      let t' := fresh "t" in let E := fresh "E" in let Et := fresh "Et" in
      destruct (cmap_ok _ _ _ H) as (t' & E & Et); subst t;
      let Hv := fresh "Hv" in let He := fresh "He" in
      destruct (IH r ltac:(cbn [length]; lia) t' E) as [Hv He]
  end.

(* a strictly decodable byte string is exactly the UTF-8 encoding of a surrogate-free text:
   the decoder accepts no overlong form, no surrogate, nothing above U+10FFFF *)
Theorem utf8_dec_strict_canonical : forall b t,
  utf8_dec Strict b = COk t -> valid_text t = true /\ utf8_enc Strict t = COk b.
Proof.
  induction b as [b IH] using strong_list_ind. intros t H.
  destruct b as [|b0 r0].
  { injection H as <-. split; reflexivity. }
  rewrite utf8_dec_cons in H.
  destruct (b0 <? 128) eqn:E0.
  { dec_step IH. split.
    - cbn [valid_text forallb]. unfold scalar at 1. replace (b0 <? 55296) with true by lia. exact Hv.
    - cbn [utf8_enc]. unfold utf8_enc1. rewrite E0, He. reflexivity. }
  destruct ((194 <=? b0) && (b0 <=? 223)) eqn:E2.
  { destruct r0 as [|b1 r1]; [discriminate|]. destruct (is_cont b1) eqn:C1; [|discriminate].
    dec_step IH. unfold is_cont in C1. split.
    - cbn [valid_text forallb]. unfold scalar at 1.
      replace ((b0 - 192) * 64 + (b1 - 128) <? 55296) with true by lia. exact Hv.
    - cbn [utf8_enc]. unfold utf8_enc1.
      replace ((b0 - 192) * 64 + (b1 - 128) <? 128) with false by lia.
      replace ((b0 - 192) * 64 + (b1 - 128) <? 2048) with true by lia.
      rewrite He. cbn [cmap app]. f_equal. f_equal; [lia|f_equal; lia]. }
  destruct ((224 <=? b0) && (b0 <=? 239)) eqn:E3.
  { destruct r0 as [|b1 r1]; [discriminate|]. destruct (second3 b0 b1) eqn:S3; [|discriminate].
    destruct r1 as [|b2 r2]; [discriminate|]. destruct (is_cont b2) eqn:C2; [|discriminate].
    dec_step IH. unfold is_cont in C2.
    assert (S3' : 128 <= b1 <= 191 /\ (b0 = 224 -> 160 <= b1) /\ (b0 = 237 -> b1 <= 159)).
    { unfold second3, is_cont in S3. destruct (b0 =? 224) eqn:Ea; [lia|]. destruct (b0 =? 237) eqn:Eb; lia. }
    set (c := (b0 - 224) * 4096 + (b1 - 128) * 64 + (b2 - 128)).
    assert (Hc : 2048 <= c < 65536 /\ (c < 55296 \/ 57343 < c) /\
                 c / 4096 = b0 - 224 /\ (c / 64) mod 64 = b1 - 128 /\ c mod 64 = b2 - 128).
    { subst c. lia. }
    split.
    - cbn [valid_text forallb]. unfold scalar at 1. fold c.
      replace ((c <? 55296) || ((57343 <? c) && (c <? 1114112))) with true by lia. exact Hv.
    - cbn [utf8_enc]. unfold utf8_enc1. fold c.
      replace (c <? 128) with false by lia. replace (c <? 2048) with false by lia.
      replace (c <? 65536) with true by lia.
      replace ((55296 <=? c) && (c <=? 57343)) with false by lia.
      rewrite He. cbn [cmap app]. f_equal. f_equal; [lia|f_equal; [lia|f_equal; lia]]. }
  destruct ((240 <=? b0) && (b0 <=? 244)) eqn:E4; [|discriminate].
  destruct r0 as [|b1 r1]; [discriminate|]. destruct (second4 b0 b1) eqn:S4; [|discriminate].
  destruct r1 as [|b2 r2]; [discriminate|]. destruct (is_cont b2) eqn:C2; [|discriminate].
  destruct r2 as [|b3 r3]; [discriminate|]. destruct (is_cont b3) eqn:C3; [|discriminate].
  dec_step IH. unfold is_cont in C2, C3.
  assert (S4' : 128 <= b1 <= 191 /\ (b0 = 240 -> 144 <= b1) /\ (b0 = 244 -> b1 <= 143)).
  { unfold second4, is_cont in S4. destruct (b0 =? 240) eqn:Ea; [lia|]. destruct (b0 =? 244) eqn:Eb; lia. }
  set (c := (b0 - 240) * 262144 + (b1 - 128) * 4096 + (b2 - 128) * 64 + (b3 - 128)).
  assert (Hc : 65536 <= c < 1114112 /\ c / 262144 = b0 - 240 /\ (c / 4096) mod 64 = b1 - 128 /\
               (c / 64) mod 64 = b2 - 128 /\ c mod 64 = b3 - 128).
  { subst c. lia. }
  split.
  - cbn [valid_text forallb]. unfold scalar at 1. fold c.
    replace ((c <? 55296) || ((57343 <? c) && (c <? 1114112))) with true by lia. exact Hv.
  - cbn [utf8_enc]. unfold utf8_enc1. fold c.
    replace (c <? 128) with false by lia. replace (c <? 2048) with false by lia.
    replace (c <? 65536) with false by lia. replace (c <? 1114112) with true by lia.
    rewrite He. cbn [cmap app]. f_equal. f_equal; [lia|f_equal; [lia|f_equal; [lia|f_equal; lia]]].
Qed.

(* ================= an error policy matters only when there is an error ================= *)

Lemma utf8_enc_strict_any s : forall b, utf8_enc Strict s = COk b -> forall p, utf8_enc p s = COk b.
Proof.
  induction s as [|c t IH]; intros b H p; [exact H|]. cbn [utf8_enc] in *.
  destruct (utf8_enc1 c) as [bs|]; [|discriminate].
  destruct (cmap_ok _ _ _ H) as (b' & E & ->). rewrite (IH _ E p). reflexivity.
Qed.

Lemma narrow_enc_strict_any lim s : forall b, narrow_enc lim Strict s = COk b ->
  b = s /\ forallb (fun c => c <? lim) s = true /\ forall p, narrow_enc lim p s = COk s.
Proof.
  induction s as [|c t IH]; intros b H.
  - injection H as <-. repeat split.
  - cbn [narrow_enc] in H. destruct (c <? lim) eqn:E; [|discriminate].
    destruct (cmap_ok _ _ _ H) as (b' & E' & ->). destruct (IH _ E') as (-> & Hall & Hp).
    repeat split.
    + cbn [forallb]. rewrite E, Hall. reflexivity.
    + intros p. cbn [narrow_enc]. rewrite E, Hp. reflexivity.
Qed.

Lemma ascii_dec_strict_any b : forall t, ascii_dec Strict b = COk t -> forall p, ascii_dec p b = COk t.
Proof.
  induction b as [|x r IH]; intros t H p; [exact H|]. cbn [ascii_dec] in *.
  destruct (x <? 128); [|discriminate].
  destruct (cmap_ok _ _ _ H) as (t' & E & ->). rewrite (IH _ E p). reflexivity.
Qed.

Lemma ascii_dec_id p s : forallb (fun c => c <? 128) s = true -> ascii_dec p s = COk s.
Proof.
  induction s as [|c t IH]; intros H; [reflexivity|]. cbn [forallb] in H. apply andb_true_iff in H.
  destruct H as [Hc Ht]. cbn [ascii_dec]. rewrite Hc, (IH Ht). reflexivity.
Qed.

Lemma utf8_dec_strict_any b t : utf8_dec Strict b = COk t -> forall p, utf8_dec p b = COk t.
Proof.
  intros H p. destruct (utf8_dec_strict_canonical b t H) as [Hv He].
  destruct (utf8_roundtrip t Hv) as (b' & He' & Hd').
  rewrite (He' Strict) in He. injection He as <-. apply Hd'.
Qed.

(* ================= the contracts, for the concrete world ================= *)

Theorem world3_enc_policy_irrelevant d c : enc_policy_irrelevant (world3 d) c.
Proof.
  intros t errs b. cbn [enc world3]. unfold enc3. rewrite policy_strict. destruct c; intros H.
  - apply utf8_enc_strict_any. exact H.
  - destruct (narrow_enc_strict_any _ _ _ H) as (-> & _ & Hp). apply Hp.
  - destruct (narrow_enc_strict_any _ _ _ H) as (-> & _ & Hp). apply Hp.
Qed.

Theorem world3_dec_policy_irrelevant d c : dec_policy_irrelevant (world3 d) c.
Proof.
  intros b errs t. cbn [dec world3]. unfold dec3. rewrite policy_strict. destruct c; intros H.
  - apply utf8_dec_strict_any. exact H.
  - exact H.
  - apply ascii_dec_strict_any. exact H.
Qed.

Theorem world3_codec_roundtrip d c : codec_roundtrip (world3 d) c.
Proof.
  intros t b. cbn [enc dec world3]. unfold enc3, dec3. rewrite policy_strict. destruct c; intros H.
  - (* UTF-8: a strict encoding exists only for surrogate-free text *)
    assert (Hv : valid_text t = true).
    { clear -H. revert b H. induction t as [|c t IH]; intros b H; [reflexivity|].
      cbn [utf8_enc] in H. destruct (utf8_enc1 c) as [bs|] eqn:E1; [|discriminate].
      destruct (cmap_ok _ _ _ H) as (b' & E & _). change (valid_text (c :: t)) with (scalar c && valid_text t). rewrite (IH _ E), andb_true_r.
      unfold utf8_enc1 in E1. unfold scalar.
      destruct (c <? 128) eqn:?; [lia|]. destruct (c <? 2048) eqn:?; [lia|].
      destruct (c <? 65536) eqn:?.
      - destruct ((55296 <=? c) && (c <=? 57343)) eqn:?; [discriminate|lia].
      - destruct (c <? 1114112) eqn:?; [lia|discriminate]. }
    destruct (utf8_roundtrip t Hv) as (b' & He & Hd). rewrite (He Strict) in H. injection H as <-. apply Hd.
  - destruct (narrow_enc_strict_any _ _ _ H) as (-> & _ & _). reflexivity.
  - destruct (narrow_enc_strict_any _ _ _ H) as (-> & Hall & _). apply ascii_dec_id. exact Hall.
Qed.

Lemma world3_dec_empty d c : dec (world3 d) c [] strict_name = COk [].
Proof. destruct c; reflexivity. Qed.

(* what each of the three codecs can represent *)
Definition representable3 (c : codec_id) (t : str) : bool :=
  match c with
  | CUtf8 => valid_text t
  | CLatin1 => forallb (fun x => x <? 256) t
  | CAscii => forallb (fun x => x <? 128) t
  end.

Lemma narrow_enc_ok lim p s : forallb (fun c => c <? lim) s = true -> narrow_enc lim p s = COk s.
Proof.
  induction s as [|c t IH]; intros H; [reflexivity|]. cbn [forallb] in H. apply andb_true_iff in H.
  destruct H as [Hc Ht]. cbn [narrow_enc]. rewrite Hc, (IH Ht). reflexivity.
Qed.

Theorem world3_represents d c t : representable3 c t = true -> representsb (world3 d) c t = true.
Proof.
  intros H. unfold representsb. cbn [enc dec world3]. unfold enc3, dec3. rewrite policy_strict.
  destruct c; cbn [representable3] in H.
  - destruct (utf8_roundtrip t H) as (b & He & Hd). rewrite He, Hd. apply beq_refl.
  - rewrite (narrow_enc_ok _ _ _ H). apply beq_refl.
  - rewrite (narrow_enc_ok _ _ _ H), (ascii_dec_id _ _ H). apply beq_refl.
Qed.

(* ================= codec-name lookup and letter case ================= *)

Lemma lower_ascii1_idem c : lower_ascii1 (lower_ascii1 c) = lower_ascii1 c.
Proof. unfold lower_ascii1. destruct ((65 <=? c) && (c <=? 90)) eqn:E; [|rewrite E; reflexivity].
  replace ((65 <=? c + 32) && (c + 32 <=? 90)) with false by lia. reflexivity. Qed.
Lemma is_alnum_lower c : is_alnum_ascii (lower_ascii1 c) = is_alnum_ascii c.
Proof. unfold is_alnum_ascii, lower_ascii1. destruct ((65 <=? c) && (c <=? 90)) eqn:E; lia. Qed.
Lemma dot_lower c : (lower_ascii1 c =? 46) = (c =? 46).
Proof. unfold lower_ascii1. destruct ((65 <=? c) && (c <=? 90)) eqn:E; lia. Qed.

Lemma norm_go_lower s : forall p st, norm_go (lower_ascii s) p st = norm_go s p st.
Proof.
  induction s as [|c t IH]; intros p st; [reflexivity|].
  unfold lower_ascii in *. cbn [map norm_go]. rewrite is_alnum_lower, dot_lower, lower_ascii1_idem, !IH. reflexivity.
Qed.

Theorem lookup3_lower name : forallb is_ascii name = true -> lookup3 (py_lower name) = lookup3 name.
Proof.
  intros H. rewrite (py_lower_ascii _ H). unfold lookup3, norm_name. rewrite norm_go_lower. reflexivity.
Qed.

Lemma lookup3_nonempty name c : lookup3 name = Some c -> name <> [].
Proof. intros H ->. vm_compute in H. discriminate. Qed.

(* ================= the NFKD / ASCII fold ================= *)

Definition fentry_ascii (e : fentry) : bool :=
  match e with
  | FInc lo hi t => (lo <=? hi) && (t + (hi - lo) <? 128)
  | FConst _ _ r => forallb is_ascii r
  end.
Fixpoint ftree_all (P : fentry -> bool) (t : ftree) : bool :=
  match t with FLeaf => true | FNode l e r => ftree_all P l && P e && ftree_all P r end.

Lemma ftree_find_ascii t : ftree_all fentry_ascii t = true -> forall c, forallb is_ascii (ftree_find t c) = true.
Proof.
  induction t as [|l IHl e r IHr]; intros H c; [reflexivity|].
  cbn [ftree_all] in H. apply andb_true_iff in H. destruct H as [H Hr]. apply andb_true_iff in H. destruct H as [Hl He].
  cbn [ftree_find]. destruct (c <? fe_lo e) eqn:E1; [apply IHl; exact Hl|].
  destruct (fe_hi e <? c) eqn:E2; [apply IHr; exact Hr|].
  destruct e as [lo hi tg|lo hi res]; cbn [fe_val fe_lo fe_hi fentry_ascii] in *.
  - cbn [forallb]. unfold is_ascii. lia.
  - exact He.
Qed.

Lemma nfkd_tree_ascii : ftree_all fentry_ascii nfkd_ascii_tree = true.
Proof. vm_compute. reflexivity. Qed.

Theorem world3_fold_ascii_out d : fold_ascii_out (world3 d).
Proof.
  intros s. cbn [ascii_fold world3]. unfold nfkd_ascii. induction s as [|c t IH]; [reflexivity|].
  cbn [flat_map]. rewrite forallb_app, IH, andb_true_r. unfold fold1.
  destruct (c <? 128) eqn:E; [cbn [forallb]; unfold is_ascii; rewrite E; reflexivity|].
  apply ftree_find_ascii. exact nfkd_tree_ascii.
Qed.

Theorem world3_fold_ascii_id d : fold_ascii_id (world3 d).
Proof.
  intros s H. cbn [ascii_fold world3]. unfold nfkd_ascii. induction s as [|c t IH]; [reflexivity|].
  cbn [forallb] in H. apply andb_true_iff in H. destruct H as [Hc Ht].
  cbn [flat_map]. unfold fold1 at 1. unfold is_ascii in Hc. rewrite Hc. cbn [app]. f_equal. apply IH. exact Ht.
Qed.

(* ================= the literals of the source name the UTF-8 codec ================= *)
Lemma fallback_is_utf8 : lookup3 fallback_encoding = Some CUtf8.
Proof. vm_compute. reflexivity. Qed.
Lemma to_utf8_is_utf8 : lookup3 to_utf8_encoding = Some CUtf8.
Proof. vm_compute. reflexivity. Qed.
