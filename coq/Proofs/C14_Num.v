(* Proofs/C14_Num.v — is_int_like, validate_integer, check_string_length *)
From Coq Require Import String.
Require Import OV.Base.Bytes OV.Base.Py OV.Base.PyInt OV.Base.Str.
Require Import OV.Model.C14_Py OV.Gen.C14 OV.Model.C14 OV.Proofs.C14_Int.
Open Scope Z_scope.

Definition within_limit (lim : N) (z : Z) : bool := negb (over_limit lim (ndigits_Z z)).

Lemma str_of_int_ok lim z : within_limit lim z = true -> str_of_int lim z = Ok (dec_of_Z z).
Proof. unfold within_limit. rewrite str_of_int_eq. intros H. apply negb_true_iff in H. rewrite H. reflexivity. Qed.

Lemma str_of_int_over lim z : within_limit lim z = false -> str_of_int lim z = Exn ValueError.
Proof. unfold within_limit. rewrite str_of_int_eq. intros H. apply negb_false_iff in H. rewrite H. reflexivity. Qed.

Lemma within_limit_unlimited z : within_limit 0 z = true.
Proof. reflexivity. Qed.

(* |z| < 10^lim  ->  z is within the limit *)
Lemma within_limit_pow lim z : (1 <= lim)%N -> Z.abs z < 10 ^ Z.of_N lim -> within_limit lim z = true.
Proof.
  intros Hl Hz. unfold within_limit, over_limit. pose proof (ndigits_le z lim Hl Hz).
  apply negb_true_iff. apply andb_false_iff. right. lia.
Qed.

(* the only exception str() raises in this model is ValueError (digit limit) *)
Lemma py_str_exn lim v e : py_str lim v = Exn e -> e = ValueError.
Proof.
  destruct v as [s|z|[|]| |sv iv]; cbn [py_str]; try discriminate.
  rewrite str_of_int_eq. destruct (over_limit lim (ndigits_Z z)); [congruence|discriminate].
Qed.

Lemma catches_VE : catches [ValueError] ValueError = true. Proof. reflexivity. Qed.
Lemma catches_TV_VE : catches [TypeError; ValueError; OverflowError] ValueError = true. Proof. reflexivity. Qed.
Lemma catches_TV_TE : catches [TypeError; ValueError; OverflowError] TypeError = true. Proof. reflexivity. Qed.
Lemma catches_TV_OE : catches [TypeError; ValueError; OverflowError] OverflowError = true. Proof. reflexivity. Qed.

(* ---------- is_int_like ---------- *)
(* generic form: str(v) is the canonical rendering of int(v) *)
Lemma is_int_like_iff lim v :
  is_int_like lim v = Ok true <->
  exists z, py_int_of lim v = Ok z /\ within_limit lim z = true /\ py_str lim v = Ok (dec_of_Z z).
Proof.
  unfold is_int_like, try_except, bind. split.
  - intros H. destruct (py_int_of lim v) as [z|e] eqn:Ei.
    + destruct (within_limit lim z) eqn:Ew.
      * rewrite (str_of_int_ok lim z Ew) in H.
        destruct (py_str lim v) as [s|e] eqn:Es.
        -- exists z. split; [reflexivity|]. split; [exact Ew|].
           assert (Hb : beq (dec_of_Z z) s = true) by congruence.
           apply beq_eq in Hb. congruence.
        -- apply py_str_exn in Es. subst e. rewrite catches_TV_VE in H. discriminate.
      * rewrite (str_of_int_over lim z Ew), catches_TV_VE in H. discriminate.
    + destruct (catches [TypeError; ValueError; OverflowError] e); discriminate.
  - intros (z & -> & Hw & ->). rewrite (str_of_int_ok lim z Hw), beq_refl. reflexivity.
Qed.

(* for a string: it is the decimal rendering of an integer (within the digit limit) *)
Lemma is_int_like_str lim s :
  is_int_like lim (PStr s) = Ok true <-> exists z, s = dec_of_Z z /\ within_limit lim z = true.
Proof.
  rewrite is_int_like_iff. cbn [py_int_of py_str]. split.
  - intros (z & _ & Hw & Hs). exists z. split; [congruence|exact Hw].
  - intros (z & -> & Hw). exists z. unfold within_limit in Hw. apply negb_true_iff in Hw.
    rewrite (int_parse_dec lim z Hw). repeat split. unfold within_limit. rewrite Hw. reflexivity.
Qed.

(* is_int_like never raises on str / int / bool / None *)
Lemma is_int_like_str_total lim s : is_int_like lim (PStr s) = Ok true \/ is_int_like lim (PStr s) = Ok false.
Proof.
  unfold is_int_like, try_except, bind. cbn [py_int_of py_str].
  destruct (int_parse lim 10 s) as [z|]; [|right; reflexivity].
  rewrite str_of_int_eq. destruct (over_limit lim (ndigits_Z z)); [right; reflexivity|].
  destruct (beq (dec_of_Z z) s); [left|right]; reflexivity.
Qed.

Lemma is_int_like_int lim z : is_int_like lim (PInt z) = Ok (within_limit lim z).
Proof.
  unfold is_int_like, try_except, bind, within_limit. cbn [py_int_of py_str]. rewrite str_of_int_eq.
  destruct (over_limit lim (ndigits_Z z)); [reflexivity|]. rewrite beq_refl. reflexivity.
Qed.

Lemma over_limit_1 lim : over_limit lim 1 = false.
Proof. unfold over_limit. destruct lim; [reflexivity|]. apply andb_false_iff. right. lia. Qed.

Lemma is_int_like_bool lim b : is_int_like lim (PBool b) = Ok false.
Proof.
  unfold is_int_like, try_except, bind. cbn [py_int_of py_str]. rewrite str_of_int_eq.
  destruct b.
  - change (ndigits_Z 1) with 1%N. rewrite over_limit_1. reflexivity.
  - change (ndigits_Z 0) with 1%N. rewrite over_limit_1. reflexivity.
Qed.

Lemma is_int_like_none lim : is_int_like lim PNone = Ok false.
Proof. reflexivity. Qed.

(* other objects: an exception from int(v) other than TypeError / ValueError / OverflowError escapes *)
Lemma is_int_like_other_exn lim sv e :
  is_int_like lim (POther sv (Exn e)) = if catches [TypeError; ValueError; OverflowError] e then Ok false else Exn e.
Proof. reflexivity. Qed.

(* floats: int(v) is an integer, or raises OverflowError (inf, -inf) or ValueError (nan) *)
Definition float_like_int (iv : res Z) : bool :=
  match iv with Ok _ => true | Exn OverflowError => true | Exn ValueError => true | Exn _ => false end.

Lemma is_int_like_float lim sv iv : float_like_int iv = true ->
  is_int_like lim (POther sv iv) = Ok true \/ is_int_like lim (POther sv iv) = Ok false.
Proof.
  destruct iv as [z|e].
  - intros _. unfold is_int_like, try_except, bind. cbn [py_int_of py_str]. rewrite str_of_int_eq.
    destruct (over_limit lim (ndigits_Z z)); [right; reflexivity|]. destruct (beq (dec_of_Z z) sv); auto.
  - destruct e; try discriminate; intros _; right; reflexivity.
Qed.

Example is_int_like_inf_nan lim :
  is_int_like lim (POther (lit "inf") (Exn OverflowError)) = Ok false /\
  is_int_like lim (POther (lit "nan") (Exn ValueError)) = Ok false.
Proof. split; reflexivity. Qed.

(* ---------- validate_integer ---------- *)
Definition in_range (z : Z) (lo hi : option Z) : bool := negb (below z lo) && negb (above z hi).

Lemma in_range_spec z lo hi :
  in_range z lo hi = true <-> (forall m, lo = Some m -> m <= z) /\ (forall m, hi = Some m -> z <= m).
Proof.
  unfold in_range, below, above. rewrite andb_true_iff, !negb_true_iff.
  destruct lo as [a|], hi as [b|]; split.
  all: try (intros [H1 H2]; split; intros m Hm; inversion Hm; subst; lia).
  all: intros [H1 H2]; split; try reflexivity;
       try (specialize (H1 _ eq_refl)); try (specialize (H2 _ eq_refl)); lia.
Qed.

(* the integer literal, if the value's text is one: int(str(value)) *)
Definition int_of_text (lim : N) (v : pyval) : option Z :=
  match py_str lim v with Ok s => int_parse lim 10 s | Exn _ => None end.

Lemma validate_integer_spec lim v lo hi :
  validate_integer lim v lo hi =
  match int_of_text lim v with
  | Some z => if in_range z lo hi then Ok z else Exn ValueError
  | None => Exn ValueError
  end.
Proof.
  unfold validate_integer, int_of_text, try_except, bind, in_range.
  destruct (py_str lim v) as [s|e] eqn:Es.
  - cbn [py_int_of]. destruct (int_parse lim 10 s) as [z|]; [|reflexivity].
    destruct (below z lo); [reflexivity|]. destruct (above z hi); reflexivity.
  - apply py_str_exn in Es. subst e. reflexivity.
Qed.

Lemma validate_integer_ok lim v lo hi z :
  validate_integer lim v lo hi = Ok z <->
  int_of_text lim v = Some z /\ (forall m, lo = Some m -> m <= z) /\ (forall m, hi = Some m -> z <= m).
Proof.
  rewrite validate_integer_spec, <- in_range_spec.
  destruct (int_of_text lim v) as [z'|].
  - destruct (in_range z' lo hi) eqn:E; split.
    + intros H. injection H as ->. split; [reflexivity|exact E].
    + intros [H _]. congruence.
    + discriminate.
    + intros [H1 H2]. injection H1 as ->. congruence.
  - split; [discriminate|intros [H _]; discriminate].
Qed.

Lemma validate_integer_total lim v lo hi :
  (exists z, validate_integer lim v lo hi = Ok z) \/ validate_integer lim v lo hi = Exn ValueError.
Proof.
  rewrite validate_integer_spec. destruct (int_of_text lim v) as [z|]; [|right; reflexivity].
  destruct (in_range z lo hi); [left; eauto|right; reflexivity].
Qed.

(* an int, or the canonical rendering of one, is validated to itself exactly when in range *)
Lemma int_of_text_int lim z : within_limit lim z = true -> int_of_text lim (PInt z) = Some z.
Proof.
  intros H. unfold int_of_text. cbn [py_str]. rewrite (str_of_int_ok lim z H).
  apply int_parse_dec. unfold within_limit in H. apply negb_true_iff in H. exact H.
Qed.

Lemma int_of_text_dec lim z : within_limit lim z = true -> int_of_text lim (PStr (dec_of_Z z)) = Some z.
Proof.
  intros H. unfold int_of_text. cbn [py_str].
  apply int_parse_dec. unfold within_limit in H. apply negb_true_iff in H. exact H.
Qed.

Lemma validate_integer_int lim z lo hi : within_limit lim z = true ->
  validate_integer lim (PInt z) lo hi = (if in_range z lo hi then Ok z else Exn ValueError) /\
  validate_integer lim (PStr (dec_of_Z z)) lo hi = (if in_range z lo hi then Ok z else Exn ValueError).
Proof.
  intros H. rewrite !validate_integer_spec, (int_of_text_int lim z H), (int_of_text_dec lim z H). split; reflexivity.
Qed.

(* values that are not integer literals *)
Lemma validate_integer_none_bool lim lo hi b :
  validate_integer lim PNone lo hi = Exn ValueError /\ validate_integer lim (PBool b) lo hi = Exn ValueError.
Proof. split; [|destruct b]; vm_compute; reflexivity. Qed.

(* ---------- check_string_length ---------- *)
Lemma check_string_length_ok v mn mx :
  check_string_length v mn mx = Ok tt <->
  exists s, v = PStr s /\ mn <= zlen s /\ (forall m, mx = Some m -> m = 0 \/ zlen s <= m).
Proof.
  unfold check_string_length. destruct v as [s| | | |]; try (split; [discriminate|intros (s' & H & _); discriminate]).
  destruct (zlen s <? mn) eqn:E1.
  - split; [discriminate|]. intros (s' & H & H1 & _). injection H as <-. lia.
  - destruct mx as [m|].
    + destruct (negb (m =? 0) && (zlen s >? m)) eqn:E2.
      * split; [discriminate|]. intros (s' & H & _ & H2). injection H as <-.
        destruct (H2 m eq_refl); lia.
      * split; [|reflexivity]. intros _. exists s. split; [reflexivity|]. split; [lia|].
        intros m' Hm. injection Hm as <-. lia.
    + split; [|reflexivity]. intros _. exists s. split; [reflexivity|]. split; [lia|]. intros m' Hm. discriminate.
Qed.

Lemma check_string_length_type v mn mx :
  check_string_length v mn mx = Exn TypeError <-> is_str v = false.
Proof.
  unfold check_string_length. destruct v as [s| | | |]; cbn [is_str]; try (split; reflexivity).
  split; [|discriminate]. destruct (zlen s <? mn); [discriminate|].
  destruct mx as [m|]; [destruct (negb (m =? 0) && (zlen s >? m))|]; discriminate.
Qed.

Lemma check_string_length_value v mn mx :
  check_string_length v mn mx = Exn ValueError <->
  exists s, v = PStr s /\ (zlen s < mn \/ exists m, mx = Some m /\ m <> 0 /\ m < zlen s).
Proof.
  unfold check_string_length. destruct v as [s| | | |]; try (split; [discriminate|intros (s' & H & _); discriminate]).
  destruct (zlen s <? mn) eqn:E1.
  - split; [|reflexivity]. intros _. exists s. split; [reflexivity|left; lia].
  - destruct mx as [m|].
    + destruct (negb (m =? 0) && (zlen s >? m)) eqn:E2.
      * split; [|reflexivity]. intros _. exists s. split; [reflexivity|]. right. exists m. repeat split; lia.
      * split; [discriminate|]. intros (s' & H & [H1|(m' & Hm & H2 & H3)]); injection H as <-; [lia|].
        injection Hm as <-. lia.
    + split; [discriminate|]. intros (s' & H & [H1|(m' & Hm & _)]); injection H as <-; [lia|discriminate].
Qed.

(* the three outcomes are the only ones *)
Lemma check_string_length_total v mn mx :
  check_string_length v mn mx = Ok tt \/ check_string_length v mn mx = Exn TypeError \/
  check_string_length v mn mx = Exn ValueError.
Proof.
  unfold check_string_length. destruct v as [s| | | |]; auto.
  destruct (zlen s <? mn); auto. destruct mx as [m|]; auto.
  destruct (negb (m =? 0) && (zlen s >? m)); auto.
Qed.

(* ---------- packaged statements used by Properties/C14.v ---------- *)
Lemma is_int_like_str_unlimited s : is_int_like 0 (PStr s) = Ok true <-> exists z, s = dec_of_Z z.
Proof.
  rewrite is_int_like_str. split; [intros (z & H & _); eauto|intros (z & H); exists z; split; [exact H|reflexivity]].
Qed.

Lemma is_int_like_other_types lim :
  (forall s, is_int_like lim (PStr s) = Ok true \/ is_int_like lim (PStr s) = Ok false) /\
  (forall z, is_int_like lim (PInt z) = Ok (within_limit lim z)) /\
  (forall b, is_int_like lim (PBool b) = Ok false) /\
  is_int_like lim PNone = Ok false /\
  (forall sv iv, float_like_int iv = true ->
     is_int_like lim (POther sv iv) = Ok true \/ is_int_like lim (POther sv iv) = Ok false) /\
  (forall sv e, is_int_like lim (POther sv (Exn e)) = if catches [TypeError; ValueError; OverflowError] e then Ok false else Exn e).
Proof.
  split; [apply is_int_like_str_total|]. split; [apply is_int_like_int|]. split; [apply is_int_like_bool|].
  split; [apply is_int_like_none|]. split; [apply is_int_like_float|apply is_int_like_other_exn].
Qed.

Lemma check_string_length_spec v mn mx :
  (check_string_length v mn mx = Ok tt <->
     exists s, v = PStr s /\ mn <= zlen s /\ (forall m, mx = Some m -> m = 0 \/ zlen s <= m)) /\
  (check_string_length v mn mx = Exn TypeError <-> is_str v = false) /\
  (check_string_length v mn mx = Exn ValueError <->
     exists s, v = PStr s /\ (zlen s < mn \/ exists m, mx = Some m /\ m <> 0 /\ m < zlen s)) /\
  (check_string_length v mn mx = Ok tt \/ check_string_length v mn mx = Exn TypeError \/
   check_string_length v mn mx = Exn ValueError).
Proof.
  split; [apply check_string_length_ok|]. split; [apply check_string_length_type|].
  split; [apply check_string_length_value|apply check_string_length_total].
Qed.
