(* Proofs/C17_Equiv.v — translator tie: the functions regenerated statement by statement from
   oslo_utils/versionutils.py (Gen/C17_Code.v) equal the hand-written model the theorems are about. *)
Require Import OV.Base.Bytes OV.Base.Py OV.Base.PyInt OV.Base.Str OV.Base.Regex OV.Base.C17_Py.
Require Import OV.Gen.Versionutils OV.Gen.C17_Code OV.Model.C17 OV.Model.C17_Spec.
Require Import OV.Proofs.C17_Regex OV.Proofs.C17_PredRe OV.Proofs.C17_Str OV.Proofs.C17_Pred OV.Proofs.C17.
Open Scope Z_scope.

(* the regexes translated at the call sites are the ones of Gen/Versionutils.v *)
Lemma gen_re_1_is_suffix_re : gen_re_1 = suffix_re. Proof. reflexivity. Qed.
Lemma gen_re_2_is_predicate_re : gen_re_2 = predicate_re. Proof. reflexivity. Qed.

Lemma map_res_int l : map_res (fun part => py_int_res part) l = match map_opt py_int l with Some v => Ok v | None => Exn ValueError end.
Proof.
  induction l as [|x l IH]; [reflexivity|]. cbn [map_res map_opt]. unfold py_int_res at 1.
  destruct (py_int x); [|reflexivity]. rewrite IH. destruct (map_opt py_int l); reflexivity.
Qed.

Theorem gen_convert_version_to_tuple_equiv s :
  gen_convert_version_to_tuple s = match version_to_tuple s with Some v => Ok v | None => Exn ValueError end.
Proof.
  unfold gen_convert_version_to_tuple, version_to_tuple, strip_suffix. rewrite gen_re_1_is_suffix_re.
  change [TGrp 1] with suffix_repl. change 46%N with version_sep. rewrite map_res_int.
  destruct (map_opt py_int _); reflexivity.
Qed.

Theorem gen_convert_version_to_int_str_equiv s : gen_convert_version_to_int_str s = convert_version_to_int_str s.
Proof.
  unfold gen_convert_version_to_int_str, convert_version_to_int_str. rewrite gen_convert_version_to_tuple_equiv.
  destruct (version_to_tuple s) as [v|]; [|reflexivity]. destruct v as [|x t]; reflexivity.
Qed.

Theorem gen_convert_version_to_int_tuple_equiv v : gen_convert_version_to_int_tuple v = tuple_to_int v.
Proof. unfold gen_convert_version_to_int_tuple. destruct v as [|x t]; reflexivity. Qed.

Theorem gen_is_compatible_equiv (V : Type) (vparse : str -> option V) (vle : V -> V -> bool) (major : V -> Z) req cur sm :
  gen_is_compatible vparse vle major req cur sm = is_compatible_str V vparse vle major req cur sm.
Proof.
  unfold gen_is_compatible, is_compatible_str, vparse_res, is_compatible.
  destruct (vparse req) as [r|]; [|reflexivity]. destruct (vparse cur) as [c|]; [|reflexivity].
  destruct sm; cbn [andb]; [|reflexivity]. destruct (negb (major r =? major c)); reflexivity.
Qed.

(* ---------- VersionPredicate ---------- *)
Lemma assoc_b_str {A} k (l : list (str * A)) : assoc_b k l = assoc_str k l.
Proof. induction l as [|[k' v] l IH]; [reflexivity|]. cbn [assoc_b assoc_str]. rewrite IH. reflexivity. Qed.

Lemma cmp_apply_holds (V : Type) (vle veq : V -> V -> bool) o a b : cmp_apply vle veq o a b = cmp_holds V vle veq o a b.
Proof. destruct o; reflexivity. Qed.

Section PredEquiv.
  Variable V : Type.
  Variable vparse : str -> option V.
  Variable vle veq : V -> V -> bool.

  (* the operator text kept by the implementation, looked up in the table *)
  Definition conv_pred (p : option bytes * V) : option (cmpop * V) :=
    match assoc_opt (fst p) comp_map with Some o => Some (o, snd p) | None => None end.

  Lemma gen_parse_predicate_part part :
    match parse_predicate part with
    | None => gen_parse_predicate vparse part = Exn ValueError
    | Some (op, ver) =>
        (vparse ver = None /\ gen_parse_predicate vparse part = Exn ValueError) \/
        (exists v k, vparse ver = Some v /\ gen_parse_predicate vparse part = Ok (Some k, v) /\ assoc_b k comp_map = Some op)
    end.
  Proof.
    unfold gen_parse_predicate. rewrite gen_re_2_is_predicate_re.
    rewrite parse_predicate_eq. unfold psplit. rewrite (re_match_pred _ _ _ _ pred_parts_gen pred_ok_gen).
    destruct (pred_split pred_ws pred_ops pred_nw part) as [[[[[a1 o] a2] ver] a3]|] eqn:E; [|reflexivity].
    destruct (pred_split_sound _ _ _ _ _ _ _ _ _ E) as (-> & Ho & _).
    destruct (ops_are_keys o Ho) as [op Hop]. rewrite Hop.
    cbn [option_map pred_groups]. unfold group_of, group_text. cbn [snd gget Nat.eqb].
    replace (blen a1 + blen o)%N with (blen (a1 ++ o)) by apply blen_app.
    rewrite (C04_Regex.slice_mid a1 o (a2 ++ ver ++ a3)).
    replace (a1 ++ o ++ a2 ++ ver ++ a3) with ((a1 ++ o ++ a2) ++ ver ++ a3) by (rewrite <- !app_assoc; reflexivity).
    replace (blen (a1 ++ o) + blen a2)%N with (blen (a1 ++ o ++ a2)) by (rewrite !blen_app; lia).
    replace (blen (a1 ++ o ++ a2) + blen ver)%N with (blen ((a1 ++ o ++ a2) ++ ver)) by (rewrite !blen_app; lia).
    rewrite (C04_Regex.slice_mid (a1 ++ o ++ a2) ver a3).
    unfold vparse_opt, vparse_res. destruct (vparse ver) as [v|].
    - right. exists v, o. split; [reflexivity|]. split; [reflexivity|]. rewrite assoc_b_str. exact Hop.
    - left. split; reflexivity.
  Qed.

  Definition init_of_parts (parts : list str) : res (list (cmpop * V)) :=
    match map_opt parse_predicate parts with
    | None => Exn ValueError
    | Some l => match map_opt (parse_version_of V vparse) l with Some l' => Ok l' | None => Exn ValueError end
    end.

  Lemma init_of_parts_cases parts : (exists l, init_of_parts parts = Ok l) \/ init_of_parts parts = Exn ValueError.
  Proof.
    unfold init_of_parts. destruct (map_opt parse_predicate parts); [|right; reflexivity].
    destruct (map_opt _ l); [left; eauto|right; reflexivity].
  Qed.

  Lemma init_parts_equiv parts :
    init_of_parts parts =
    match map_res (fun pred => gen_parse_predicate vparse pred) parts with
    | Exn e => Exn e
    | Ok l => match map_opt conv_pred l with Some l' => Ok l' | None => Exn KeyError end
    end.
  Proof.
    induction parts as [|p t IH]; [reflexivity|].
    cbn [map_res]. pose proof (gen_parse_predicate_part p) as Hp.
    unfold init_of_parts in *. cbn [map_opt].
    destruct (parse_predicate p) as [[op ver]|].
    - destruct Hp as [[Hv ->]|[v [k [Hv [-> Hk]]]]].
      + destruct (map_opt parse_predicate t) as [r|]; [|reflexivity].
        cbn [map_opt]. unfold parse_version_of at 1. cbn [snd]. rewrite Hv. reflexivity.
      + match goal with |- context [map_res ?f t] => destruct (map_res f t) as [l|e] end.
        * cbn [map_opt]. unfold conv_pred at 1. cbn [fst snd assoc_opt]. rewrite Hk.
          destruct (map_opt parse_predicate t) as [r|].
          -- cbn [map_opt]. unfold parse_version_of at 1. cbn [fst snd]. rewrite Hv.
             destruct (map_opt (parse_version_of V vparse) r) as [r'|]; destruct (map_opt conv_pred l) as [l'|]; congruence.
          -- destruct (map_opt conv_pred l); congruence.
        * destruct (map_opt parse_predicate t) as [r|]; [|exact IH].
          cbn [map_opt]. unfold parse_version_of at 1. cbn [fst snd]. rewrite Hv.
          destruct (map_opt (parse_version_of V vparse) r); [discriminate|exact IH].
    - rewrite Hp. reflexivity.
  Qed.

  Theorem gen_predicate_init_equiv s :
    predicate_init V vparse s =
    match gen_predicate_init vparse s with
    | Exn e => Exn e
    | Ok l => match map_opt conv_pred l with Some l' => Ok l' | None => Exn KeyError end
    end.
  Proof.
    unfold gen_predicate_init. change (predicate_init V vparse s) with (init_of_parts (split_char 44%N s)).
    rewrite init_parts_equiv. match goal with |- context [map_res ?f ?x] => destruct (map_res f x) end; reflexivity.
  Qed.

  Lemma gen_loop_sat vs v l : forall l', map_opt conv_pred l = Some l' ->
    gen_satisfied_by_loop1 vle veq vs v l = Ok (if satisfied_by V vle veq l' v then None else Some false).
  Proof.
    induction l as [|[c x] l IH]; intros l' H; cbn [map_opt] in H.
    - injection H as <-. reflexivity.
    - unfold conv_pred at 1 in H. cbn [fst snd] in H. destruct (assoc_opt c comp_map) as [o|] eqn:Eo; [|discriminate].
      destruct (map_opt conv_pred l) as [r|]; [|discriminate]. injection H as <-.
      cbn [gen_satisfied_by_loop1]. rewrite Eo, cmp_apply_holds. unfold satisfied_by. cbn [forallb fst snd].
      destruct (cmp_holds V vle veq o v x); cbn [negb andb]; [|reflexivity]. apply IH. reflexivity.
  Qed.

  Theorem gen_satisfied_by_equiv l l' vs : map_opt conv_pred l = Some l' ->
    gen_satisfied_by vparse vle veq l vs = predicate_satisfied_by V vparse vle veq l' vs.
  Proof.
    intros H. unfold gen_satisfied_by, predicate_satisfied_by, vparse_res. destruct (vparse vs) as [v|]; [|reflexivity].
    rewrite (gen_loop_sat vs v l l' H). destruct (satisfied_by V vle veq l' v); reflexivity.
  Qed.
End PredEquiv.
