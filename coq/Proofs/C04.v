(* Proofs/C04.v — mask_password: the translator tie (concrete regexes = templates at
   the generated keys), the key list, the no-key theorem, the frame theorems for every
   substitution the function performs. *)
From Coq Require Import String.
Require Import OV.Base.Bytes OV.Base.PyInt OV.Base.Str OV.Base.Regex OV.Base.C04_Tmpl.
Require Import OV.Gen.C04_Sanitize OV.Gen.C04_Concrete OV.Model.C04 OV.Model.C04_Spec OV.Proofs.C04_Regex.
Open Scope N_scope.

(* ---------- the compile loop: what the module compiled is the templates at its keys ---------- *)
Lemma concrete_templates_equiv : gen_concrete = template_table.
Proof. vm_compute. reflexivity. Qed.

Lemma concrete_keys : map fst gen_concrete = gen_keys.
Proof. rewrite concrete_templates_equiv. unfold template_table. rewrite map_map. cbn [fst template_entry]. apply map_id. Qed.

(* ---------- lower = str.lower() of Base/Str ---------- *)
Definition N_range (n : nat) : list N := map N.of_nat (seq 0 n).
Lemma N_range_in c n : c < N.of_nat n -> In c (N_range n).
Proof.
  intros H. unfold N_range. apply in_map_iff. exists (N.to_nat c). split; [lia|]. apply in_seq. lia.
Qed.

Lemma lower1_ascii_ok : forallb (fun c => beq (py_lower1 c) [lower_ascii1 c]) (N_range 128) = true.
Proof. vm_compute. reflexivity. Qed.

Lemma lower1_eq c : lower1 c = py_lower1 c.
Proof.
  unfold lower1. destruct (c <? 128) eqn:E; [|reflexivity]. apply N.ltb_lt in E.
  pose proof lower1_ascii_ok as H. rewrite forallb_forall in H.
  specialize (H c (N_range_in c 128 ltac:(cbn; lia))). apply beq_eq in H. symmetry. exact H.
Qed.

Lemma lower_eq s : lower s = py_lower s.
Proof. unfold lower, py_lower. induction s as [|c s IH]; [reflexivity|]. cbn [flat_map]. rewrite lower1_eq, IH. reflexivity. Qed.

(* ---------- the key list ---------- *)
Lemma spec_keys_count : length spec_keys_35 = 35%nat.
Proof. reflexivity. Qed.

Lemma keys_cover_spec : incl spec_keys_35 gen_keys /\ Forall (fun k => key_ok k = true) gen_keys.
Proof.
  split.
  - assert (H : forallb (fun k => existsb (beq k) gen_keys) spec_keys_35 = true) by (vm_compute; reflexivity).
    rewrite forallb_forall in H. intros k Hk. specialize (H k Hk). apply existsb_exists in H.
    destruct H as (k' & Hin & He). apply beq_eq in He. subst. exact Hin.
  - apply Forall_forall. apply forallb_forall. vm_compute. reflexivity.
Qed.

(* ---------- a message without any sanitize key is returned unchanged ---------- *)
Lemma mask_with_nokey steps secret m : forall tbl : list entry,
  (forall e : entry, In e tbl -> occursb (fst e) (lower m) = false) ->
  fold_left (apply_key steps secret) tbl m = m.
Proof.
  induction tbl as [|e tbl IH]; intros H; [reflexivity|]. cbn [fold_left].
  assert (E : apply_key steps secret m e = m) by (unfold apply_key; rewrite (H e (or_introl eq_refl)); reflexivity).
  rewrite E. apply IH. intros e' He'. apply H. right. exact He'.
Qed.

Lemma no_key_unchanged m secret :
  (forall k, In k gen_keys -> occursb k (py_lower m) = false) -> mask_password m secret = m.
Proof.
  intros H. unfold mask_password, mask_with. apply mask_with_nokey. intros e He.
  rewrite lower_eq. apply H. rewrite <- concrete_keys. apply in_map. exact He.
Qed.

(* ---------- frame: every substitution mask_password performs ---------- *)
Lemma gen_steps_shape :
  map fst gen_steps = [SelP2; SelP1; SelPW] /\
  (forall secret, map (fun st => snd st secret) gen_steps = [t2 secret; t1 secret; tw]).
Proof. split; [reflexivity|intros; reflexivity]. Qed.

Lemma concrete_shapes :
  forallb (fun e : entry => forallb two_group_shape (fst (snd e)) &&
                            forallb one_group_shape (fst (snd (snd e))) &&
                            forallb one_group_shape (snd (snd (snd e)))) gen_concrete = true.
Proof. vm_compute. reflexivity. Qed.

Lemma entry_shapes e : In e gen_concrete ->
  (forall r, In r (pick SelP2 (snd e)) -> two_group_shape r = true) /\
  (forall r, In r (pick SelP1 (snd e)) -> one_group_shape r = true) /\
  (forall r, In r (pick SelPW (snd e)) -> one_group_shape r = true).
Proof.
  intros He. pose proof concrete_shapes as H. rewrite forallb_forall in H. specialize (H e He).
  destruct e as [k [p2 [p1 pw]]]. cbn [fst snd pick] in *.
  apply andb_true_iff in H. destruct H as [H H3]. apply andb_true_iff in H. destruct H as [H1 H2].
  rewrite forallb_forall in H1, H2, H3. auto.
Qed.

(* the same, generically in the key: the shape is a property of the TEMPLATE *)
Lemma gids_keyseq tbl k rest : gids (keyseq tbl k rest) = gids rest.
Proof. induction k as [|c k IH]; [reflexivity|]. cbn [keyseq gids app]. exact IH. Qed.

Lemma template_shapes k :
  forallb two_group_shape (gen_tp2 k) = true /\ forallb one_group_shape (gen_tp1 k) = true /\
  forallb one_group_shape (gen_tpw k) = true.
Proof.
  repeat split;
    cbv [gen_tp2 gen_tp1 gen_tpw gen_tp2_0 gen_tp2_1 gen_tp2_2 gen_tp2_3 gen_tp2_4 gen_tp2_5 gen_tp2_6 gen_tp2_7
         gen_tp2_8 gen_tp2_9 gen_tp1_0 gen_tpw_0 forallb two_group_shape one_group_shape no_gid];
    cbn [gids app]; rewrite ?gids_keyseq; reflexivity.
Qed.

(* sub_frame: whatever the message, a _PATTERNS_2 substitution changes only the text between
   group 1 and group 2 of each match; a _PATTERNS_1 substitution only the text after group 1;
   the wildcard substitution DELETES the text after group 1 of each match (finding K12). *)
Lemma sub_frame e secret s : In e gen_concrete ->
  (forall r, In r (pick SelP2 (snd e)) -> sub2_rel r secret 0 s (re_sub r (t2 secret) s)) /\
  (forall r, In r (pick SelP1 (snd e)) -> sub1_rel r secret 0 s (re_sub r (t1 secret) s)) /\
  (forall r, In r (pick SelPW (snd e)) -> sub1_rel r [] 0 s (re_sub r tw s)).
Proof.
  intros He. destruct (entry_shapes e He) as (H2 & H1 & Hw). repeat split; intros r Hr.
  - apply re_sub_frame_two. auto.
  - apply re_sub_frame_one. auto.
  - apply re_sub_frame_wild. auto.
Qed.
