(* Proofs/C02_VmdkC01.v — consequences of C01's vmdk_refines_spec for C02 (the run invariant of
   Proofs/C02_VmdkRun.v is kept: it needs no zone hypothesis for the Pass => ... direction and none about F3;
   C01's theorem adds the streams WITHOUT a valid sparse header that are outside the text zone F1). *)
Require Import OV.Base.Bytes OV.Base.Py OV.Base.PyInt OV.Base.Str OV.Base.Insp_Struct OV.Gen.Insp_Consts OV.Model.Insp_Engine.
Require Import OV.Model.Insp_Vmdk OV.Model.Insp_All OV.Model.C01_Vmdk OV.Model.C02.
Require Import OV.Proofs.C01_Vmdk_Run.
Open Scope N_scope.

(* outside the zones the safety verdict is the specification's, for every chunking *)
Theorem vmdk_safety_is_spec b cs :
  concat cs = b -> zone_vmdk_text b = false -> zone_vmdk_shortfoot b = false ->
  safety (fst (Insp_All.run F_vmdk cs)) = v_safety (vmdk_spec b).
Proof.
  intros Hb Z1 Z2. rewrite <- (vmdk_refines_spec b cs Hb (conj Z1 Z2)). reflexivity.
Qed.

Lemma spec_safety_violation c fm : spec_safety c fm [(K_descriptor, violation)] <> Pass.
Proof. unfold spec_safety. destruct c; [|discriminate]. destruct fm; discriminate. Qed.

(* at least 64 bytes without the KDMV signature or with a version outside 1..3, outside the text zone:
   ImageFormatError in eat_chunk and never a Pass *)
Theorem vmdk_invalid_header_never_passes b cs :
  concat cs = b -> zone_vmdk_text b = false ->
  VMDK_MIN_SPARSE_HEADER <= blen b ->
  negb (beq (vh_sig b) VMDK_MAGIC_PP) || negb (ver_ok (vh_ver b)) = true ->
  snd (Insp_All.run F_vmdk cs) = Some ImageFormatError /\ safety (fst (Insp_All.run F_vmdk cs)) <> Pass.
Proof.
  intros Hb Z1 Hl Hbad.
  assert (Z2 : zone_vmdk_shortfoot b = false).
  { unfold zone_vmdk_shortfoot. destruct (valid_magic_ver b) eqn:E; [|reflexivity]. exfalso.
    unfold valid_magic_ver in E. apply andb_true_iff in E. destruct E as [E1 E2].
    apply orb_true_iff in Hbad. destruct Hbad as [H|H]; apply negb_true_iff in H.
    - unfold vh_sig, vh in H.
      assert (Hs : sraw sf_vmdk_sparse 0 (btake VMDK_MIN_SPARSE_HEADER b) = btake 4 b).
      { change (sraw sf_vmdk_sparse 0 (btake VMDK_MIN_SPARSE_HEADER b)) with (bslice 0 4 (btake 64 b)).
        unfold bslice. rewrite bskip_0, btake_btake. reflexivity. }
      rewrite Hs in H. congruence.
    - unfold vh_ver, vh in H.
      assert (Hv : sint sf_vmdk_sparse 1 (btake VMDK_MIN_SPARSE_HEADER b) = le_val (bslice 4 4 b)).
      { change (sint sf_vmdk_sparse 1 (btake VMDK_MIN_SPARSE_HEADER b)) with (le_val (bslice 4 4 (btake 64 b))).
        f_equal. unfold bslice. rewrite bskip_btake, btake_btake. reflexivity. }
      rewrite Hv in H. congruence. }
  pose proof (vmdk_refines_spec b cs Hb (conj Z1 Z2)) as H. unfold vmdk_spec in H.
  replace (blen b <? VMDK_MIN_SPARSE_HEADER) with false in H by lia. rewrite Hbad in H.
  unfold verdict_of in H. injection H as H1 _ _ _ H5. split; [exact H1|]. rewrite H5. apply spec_safety_violation.
Qed.
