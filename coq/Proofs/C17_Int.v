(* Proofs/C17_Int.v — exactly which strings int() accepts: py_int s <> None <-> int_literal s *)
Require Import OV.Base.Bytes OV.Base.PyInt OV.Base.Str OV.Gen.Unicode OV.Model.C17_Spec.
Open Scope N_scope.

(* ---------- facts read off the generated Unicode tables ---------- *)
Lemma not_digit_us : is_digit 95 = false. Proof. vm_compute. reflexivity. Qed.
Lemma not_digit_plus : is_digit 43 = false. Proof. vm_compute. reflexivity. Qed.
Lemma not_digit_minus : is_digit 45 = false. Proof. vm_compute. reflexivity. Qed.
Lemma not_space_plus : int_space 43 = false. Proof. vm_compute. reflexivity. Qed.
Lemma not_space_minus : int_space 45 = false. Proof. vm_compute. reflexivity. Qed.

Definition tables_disjoint : bool :=
  forallb (fun st => forallb (fun r => (st + 9 <? fst r) || (snd r <? st)) py_space) nd_starts.
Lemma tables_disjoint_ok : tables_disjoint = true. Proof. vm_compute. reflexivity. Qed.

Lemma digit_in_range c l d : digit_in c l = Some d -> exists st, In st l /\ st <= c < st + 10.
Proof.
  induction l as [|st l IH]; [discriminate|]. cbn [digit_in].
  destruct ((st <=? c) && (c <? st + 10)) eqn:E.
  - intros _. exists st. split; [left; reflexivity|lia].
  - intros H. destruct (IH H) as [s' [Hin Hr]]. exists s'. split; [right; exact Hin|exact Hr].
Qed.

Lemma cmem_range c l : cmem c l = true -> exists r, In r l /\ fst r <= c <= snd r.
Proof.
  induction l as [|[lo hi] l IH]; [discriminate|]. cbn [cmem]. intros H. apply orb_true_iff in H. destruct H as [H|H].
  - exists (lo, hi). split; [left; reflexivity|cbn; lia].
  - destruct (IH H) as [r [Hin Hr]]. exists r. split; [right; exact Hin|exact Hr].
Qed.

Lemma digit_not_space c : is_digit c = true -> int_space c = false.
Proof.
  unfold is_digit, digit_val. destruct (digit_in c nd_starts) as [d|] eqn:E; [|discriminate]. intros _.
  destruct (digit_in_range _ _ _ E) as [st [Hst Hr]].
  unfold int_space. destruct (is_space c) eqn:S; [|reflexivity]. exfalso.
  unfold is_space in S. destruct (cmem_range _ _ S) as [r [Hin Hc]].
  pose proof tables_disjoint_ok as T. unfold tables_disjoint in T.
  rewrite forallb_forall in T. specialize (T st Hst). rewrite forallb_forall in T. specialize (T r Hin). lia.
Qed.

(* ---------- digits_us against int_body ---------- *)
Lemma digit_ne_us c : is_digit c = true -> (c =? 95) = false.
Proof. intros H. destruct (c =? 95) eqn:E; [|reflexivity]. apply N.eqb_eq in E. subst. rewrite not_digit_us in H. discriminate. Qed.

Lemma digit_ne c x : is_digit c = true -> is_digit x = false -> (c =? x) = false.
Proof. intros H Hx. destruct (c =? x) eqn:E; [|reflexivity]. apply N.eqb_eq in E. subst. congruence. Qed.

Lemma is_digit_val c : is_digit c = true -> exists d, digit_val c = Some d.
Proof. unfold is_digit. destruct (digit_val c) as [d|]; [eauto|discriminate]. Qed.

Lemma int_body_cons c b : is_digit c = true -> int_body b -> int_body (c :: b).
Proof.
  intros Hc Hb. inversion Hb as [d [Hne Hd]|d b' [Hne Hd] Hb']; subst.
  - apply ib_one. split; [discriminate|constructor; assumption].
  - change (c :: d ++ 95 :: b') with ((c :: d) ++ 95 :: b'). apply ib_more; [|exact Hb'].
    split; [discriminate|constructor; assumption].
Qed.

Lemma digits_us_sound s : forall acc b n, digits_us s acc b = Some n ->
  (b = false -> int_body s) /\ (b = true -> s = [] \/ int_body s \/ exists b', s = 95 :: b' /\ int_body b').
Proof.
  induction s as [|c t IH]; intros acc b n H; cbn [digits_us] in H.
  - destruct b; [|discriminate]. split; [discriminate|]. intros _. left. reflexivity.
  - destruct (c =? 95) eqn:E.
    + apply N.eqb_eq in E. subst c. destruct b; [|discriminate].
      destruct (IH _ _ _ H) as [I _]. split; [discriminate|]. intros _. right. right. exists t. split; [reflexivity|apply I; reflexivity].
    + destruct (digit_val c) as [d|] eqn:D; [|discriminate].
      assert (Hc : is_digit c = true) by (unfold is_digit; rewrite D; reflexivity).
      destruct (IH _ _ _ H) as [_ I]. specialize (I eq_refl).
      assert (B : int_body (c :: t)).
      { destruct I as [->|[I|[b' [-> I]]]].
        - apply ib_one. split; [discriminate|constructor; [exact Hc|constructor]].
        - apply int_body_cons; assumption.
        - change (c :: 95 :: b') with ([c] ++ 95 :: b'). apply ib_more; [|exact I].
          split; [discriminate|constructor; [exact Hc|constructor]]. }
      split; intros _; [exact B|right; left; exact B].
Qed.

Lemma digits_run d : Forall (fun c => is_digit c = true) d -> d <> [] ->
  forall acc b, exists acc', forall rest, digits_us (d ++ rest) acc b = digits_us rest acc' true.
Proof.
  induction 1 as [|c d Hc Hd IH]; intros Hne acc b; [congruence|].
  destruct (is_digit_val c Hc) as [v Hv].
  destruct d as [|c2 d].
  - exists (acc * 10 + v). intros rest. cbn [app digits_us]. rewrite (digit_ne_us c Hc), Hv. reflexivity.
  - destruct (IH ltac:(discriminate) (acc * 10 + v) true) as [acc' IH'].
    exists acc'. intros rest. cbn [app digits_us]. rewrite (digit_ne_us c Hc), Hv. apply IH'.
Qed.

Lemma digits_us_complete s : int_body s -> forall acc b, exists n, digits_us s acc b = Some n.
Proof.
  induction 1 as [d [Hne Hd]|d b' [Hne Hd] Hb IH]; intros acc b.
  - destruct (digits_run d Hd Hne acc b) as [acc' H]. exists acc'. rewrite <- (app_nil_r d), H. reflexivity.
  - destruct (digits_run d Hd Hne acc b) as [acc' H]. rewrite H. cbn [digits_us N.eqb Pos.eqb]. apply IH.
Qed.

(* ---------- stripping ---------- *)
Lemma ilstrip_decomp s : exists w, s = w ++ ilstrip s /\ all_int_space w.
Proof.
  induction s as [|c t IH]; [exists []; split; [reflexivity|constructor]|]. cbn [ilstrip].
  destruct (int_space c) eqn:E.
  - destruct IH as [w [Hw Hs]]. exists (c :: w). split; [cbn [app]; f_equal; exact Hw|constructor; assumption].
  - exists []. split; [reflexivity|constructor].
Qed.

Lemma all_int_space_rev w : all_int_space w -> all_int_space (rev w).
Proof. unfold all_int_space. intros H. apply Forall_forall. intros x Hx. apply in_rev in Hx. rewrite Forall_forall in H. auto. Qed.

Lemma istrip_decomp s : exists w1 w2, s = w1 ++ istrip s ++ w2 /\ all_int_space w1 /\ all_int_space w2.
Proof.
  destruct (ilstrip_decomp s) as [w1 [H1 S1]]. unfold istrip, irstrip.
  destruct (ilstrip_decomp (rev (ilstrip s))) as [w2 [H2 S2]].
  exists w1, (rev w2). split; [|split; [exact S1|apply all_int_space_rev; exact S2]].
  rewrite <- rev_app_distr, <- H2, rev_involutive. exact H1.
Qed.

Lemma ilstrip_spaces w rest : all_int_space w -> ilstrip (w ++ rest) = ilstrip rest.
Proof. induction 1 as [|c w Hc _ IH]; [reflexivity|]. cbn [app ilstrip]. rewrite Hc. exact IH. Qed.

Lemma istrip_core w1 x mid y w2 :
  all_int_space w1 -> all_int_space w2 -> int_space x = false -> int_space y = false ->
  forall core, (core = x :: mid ++ [y] \/ (core = [x] /\ x = y)) -> istrip (w1 ++ core ++ w2) = core.
Proof.
  intros S1 S2 Hx Hy core Hc. unfold istrip, irstrip. rewrite ilstrip_spaces by exact S1.
  assert (E1 : ilstrip (core ++ w2) = core ++ w2).
  { destruct Hc as [->|[-> _]]; cbn [app ilstrip]; rewrite Hx; reflexivity. }
  rewrite E1, rev_app_distr. rewrite ilstrip_spaces by (apply all_int_space_rev; exact S2).
  destruct Hc as [->|[-> <-]].
  - change (x :: mid ++ [y]) with ((x :: mid) ++ [y]). rewrite rev_app_distr. cbn [rev app ilstrip]. rewrite Hy.
    change (y :: rev mid ++ [x]) with ([y] ++ rev (x :: mid)). rewrite rev_app_distr, rev_involutive. reflexivity.
  - cbn [rev app ilstrip]. rewrite Hx. reflexivity.
Qed.

Lemma int_body_first b : int_body b -> exists c t, b = c :: t /\ is_digit c = true.
Proof.
  intros H. destruct H as [d [Hne Hd]|d b' [Hne Hd] _]; destruct d as [|c d]; try congruence;
    inversion Hd; subst; eexists _, _; (split; [reflexivity|assumption]).
Qed.

Lemma int_body_last b : int_body b -> exists t y, b = t ++ [y] /\ is_digit y = true.
Proof.
  induction 1 as [d [Hne Hd]|d b' _ _ IH].
  - destruct (exists_last Hne) as [t [y ->]]. exists t, y. split; [reflexivity|].
    rewrite Forall_forall in Hd. apply Hd. apply in_or_app. right. left. reflexivity.
  - destruct IH as [t [y [-> Hy]]]. exists (d ++ 95 :: t), y. split; [rewrite <- app_assoc; reflexivity|exact Hy].
Qed.

(* ---------- the characterisation ---------- *)
Theorem py_int_accepts s : py_int s <> None <-> int_literal s.
Proof.
  split.
  - intros H. destruct (istrip_decomp s) as [w1 [w2 [E [S1 S2]]]]. unfold py_int in H.
    destruct (istrip s) as [|c t] eqn:Ec; [congruence|].
    destruct (c =? 43) eqn:E43; [|destruct (c =? 45) eqn:E45].
    + apply N.eqb_eq in E43. subst c. destruct (digits_us t 0 false) as [n|] eqn:D; [|cbn in H; congruence].
      exists w1, [43], t, w2. repeat split; auto; [right; left; reflexivity|].
      apply (digits_us_sound _ _ _ _ D). reflexivity.
    + apply N.eqb_eq in E45. subst c. destruct (digits_us t 0 false) as [n|] eqn:D; [|cbn in H; congruence].
      exists w1, [45], t, w2. repeat split; auto; [right; right; reflexivity|].
      apply (digits_us_sound _ _ _ _ D). reflexivity.
    + destruct (digits_us (c :: t) 0 false) as [n|] eqn:D; [|cbn in H; congruence].
      exists w1, [], (c :: t), w2. repeat split; auto; [left; reflexivity|].
      apply (digits_us_sound _ _ _ _ D). reflexivity.
  - intros (w1 & sg & b & w2 & -> & S1 & S2 & Hsg & Hb).
    destruct (int_body_first b Hb) as [c [t [Eb Hc]]]. destruct (int_body_last b Hb) as [t' [y [Eb' Hy]]].
    assert (Hcore : istrip (w1 ++ (sg ++ b) ++ w2) = sg ++ b).
    { destruct Hsg as [->|[->| ->]]; [cbn [app]|change (([43] ++ b) ++ w2) with ((43 :: b) ++ w2); change ([43] ++ b) with (43 :: b)|change (([45] ++ b) ++ w2) with ((45 :: b) ++ w2); change ([45] ++ b) with (45 :: b)].
      - destruct t' as [|c' t'].
        + apply (istrip_core w1 y [] y w2 S1 S2); try (apply digit_not_space; exact Hy). right. split; [exact Eb'|reflexivity].
        + cbn [app] in Eb'. apply (istrip_core w1 c' t' y w2 S1 S2); [| |left; exact Eb'].
          * rewrite Eb in Eb'. injection Eb' as <- _. apply digit_not_space. exact Hc.
          * apply digit_not_space. exact Hy.
      - apply (istrip_core w1 43 t' y w2 S1 S2); [apply not_space_plus|apply digit_not_space; exact Hy|left; rewrite Eb'; reflexivity].
      - apply (istrip_core w1 45 t' y w2 S1 S2); [apply not_space_minus|apply digit_not_space; exact Hy|left; rewrite Eb'; reflexivity]. }
    rewrite <- app_assoc in Hcore. unfold py_int. rewrite Hcore.
    destruct Hsg as [->|[->| ->]]; cbn [app].
    + rewrite Eb.
      rewrite (digit_ne c 43 Hc not_digit_plus), (digit_ne c 45 Hc not_digit_minus).
      rewrite <- Eb. destruct (digits_us_complete b Hb 0 false) as [n ->]. discriminate.
    + cbn [N.eqb Pos.eqb]. destruct (digits_us_complete b Hb 0 false) as [n ->]. discriminate.
    + cbn [N.eqb Pos.eqb]. destruct (digits_us_complete b Hb 0 false) as [n ->]. discriminate.
Qed.

Corollary py_int_rejects s : py_int s = None <-> ~ int_literal s.
Proof.
  rewrite <- py_int_accepts. destruct (py_int s) as [z|].
  - split; [discriminate|]. intros H. exfalso. apply H. discriminate.
  - split; [intros _ H; apply H; reflexivity|reflexivity].
Qed.

(* a trailing newline (or any blank) does not change the value *)
Lemma ilstrip_app_nl s : ilstrip (s ++ [10]) = match ilstrip s with [] => [] | l => l ++ [10] end.
Proof.
  induction s as [|c t IH]; [reflexivity|]. cbn [app ilstrip]. destruct (int_space c); [exact IH|reflexivity].
Qed.

Lemma py_int_trailing_nl s : py_int (s ++ [10]) = py_int s.
Proof.
  unfold py_int, istrip, irstrip. f_equal. rewrite ilstrip_app_nl.
  destruct (ilstrip s) as [|c t]; [reflexivity|].
  rewrite rev_app_distr. cbn [rev app ilstrip]. reflexivity.
Qed.
