(* Proofs/C09.v — lemmas for property C09. *)
From Coq Require Import List Arith NArith Bool Lia.
Import ListNotations.
Require Import OV.Base.C09_HL OV.Gen.C09_Excutils OV.Model.C09.

(* ------------------------------------------------------------------ translated helper bodies = hand-written versions *)

Lemma sare_init_equiv : forall r0 lab st, sare_new r0 lab st = mksare r0 None None [] lab.
Proof. reflexivity. Qed.

Lemma force_equiv : forall h,
  run_force h = let '(s', st', i) := force_hand (hs h) (hst h) in (with_st (with_s h s') st', HRaise i).
Proof.
  intros [[rr ty va tb0 lab] st lt lv lb at_ av ab chk ini p].
  unfold run_force, force_hand, gen_force, raise_value; cbn.
  destruct va as [i|]; destruct ty as [c|]; cbn; try reflexivity.
  - destruct (tb_eqb (tb_of st i) tb0); reflexivity.
  - destruct (tb_eqb (tb_of st i) tb0); reflexivity.
  - destruct (ctor0 c); cbn; try reflexivity.
    destruct (tb_eqb _ tb0); reflexivity.
Qed.

Lemma capture_equiv : forall chk s st,
  do_capture chk s st =
  let '(s', st', r) := capture_hand chk s st in
  (s', st', match r with Some j => HRaise j | None => HRetSelf end).
Proof.
  intros chk [rr ty va tb0 lab] [hp n k l r].
  unfold do_capture, capture_hand, hrun, gen_capture.
  destruct k as [|i rest]; destruct chk; reflexivity.
Qed.

Lemma do_force_equiv : forall wf s st,
  do_force wf s st = let '(s', st', i) := force_hand s st in (s', add_frame wf i st', Raised i).
Proof.
  intros wf s st. unfold do_force. rewrite force_equiv. cbn [hs hst hinit_state].
  destruct (force_hand s st) as [[s' st'] i]. reflexivity.
Qed.

Lemma pop_push : forall i st, pop (push i st) = st.
Proof. intros i [h n k l r]. reflexivity. Qed.

Lemma exit_equiv : forall wf s st out,
  with_exit FnExit gen_exit nopred wf s st out = exit_hand wf s st out.
Proof.
  intros wf [rr ty va tb0 lab] st out.
  unfold with_exit, exit_hand, hrun, gen_exit.
  destruct out as [|i].
  - cbn -[run_force force_hand]. destruct rr; cbn -[run_force force_hand]; [|reflexivity].
    rewrite force_equiv. cbn -[force_hand].
    destruct (force_hand _ st) as [[s' st'] j]. reflexivity.
  - cbn. destruct rr; cbn.
    + destruct st; reflexivity.
    + destruct st; reflexivity.
Qed.

Lemma filt_exit_equiv : forall p wf s st out,
  with_exit FnFiltExit gen_filt_exit p wf s st out =
  let '(st', out') := filt_exit_hand p wf st out in (s, st', out').
Proof.
  intros p wf s st out.
  unfold with_exit, filt_exit_hand, hrun, gen_filt_exit, pred_exc.
  destruct out as [|i]; cbn; [reflexivity|].
  unfold call_pred; cbn.
  replace (cls_of (push i st) i) with (cls_of st i) by reflexivity.
  destruct (pv p (Some (cls_of st i))); cbn; try (destruct st; reflexivity).
Qed.

Lemma filt_call_equiv : forall p x s st, do_filt_call p x s st = filt_call_hand p x st.
Proof.
  intros p x s [hp n k l r].
  unfold do_filt_call, filt_call_hand, hrun, gen_filt_call, pred_exc, raise_value.
  destruct k as [|c rest]; destruct x as [i|]; cbn; unfold call_pred; cbn.
  all: match goal with |- context [pv ?q ?a] => destruct (pv q a) end; cbn; try reflexivity.
  all: try (match goal with |- context [Nat.eqb ?a ?b] => destruct (Nat.eqb a b); cbn; try reflexivity end).
  all: match goal with |- context [tb_eqb ?a ?b] => destruct (tb_eqb a b); reflexivity end.
Qed.
