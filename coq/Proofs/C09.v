(* Proofs/C09.v — lemmas for property C09. *)
From Coq Require Import List Arith NArith Bool Lia.
Import ListNotations.
Require Import OV.Base.C09_HL OV.Gen.C09_Excutils OV.Model.C09.

(* ------------------------------------------------------------------ translated helper bodies = hand-written versions *)

Lemma sare_init_equiv : forall r0 lab st, sare_new r0 lab st = mksare r0 None None [] lab.
Proof. reflexivity. Qed.

Lemma force_equiv : forall h,
  run_force h = let '(s', st', i) := force_hand (hs h) (hst h) in (with_st (with_s h s') st', HRaise i).
Proof.
  intros [[rr ty va tb0 lab] st lt lv lb at_ av ab chk ini p].
  unfold run_force, force_hand, gen_force, raise_value; cbn.
  destruct va as [i|]; destruct ty as [c|]; cbn; try reflexivity.
  - destruct (tb_eqb (tb_of st i) tb0); reflexivity.
  - destruct (tb_eqb (tb_of st i) tb0); reflexivity.
  - destruct (ctor0 c); cbn; try reflexivity.
    destruct (tb_eqb _ tb0); reflexivity.
Qed.

Lemma capture_equiv : forall chk s st,
  do_capture chk s st =
  let '(s', st', r) := capture_hand chk s st in
  (s', st', match r with Some j => HRaise j | None => HRetSelf end).
Proof.
  intros chk [rr ty va tb0 lab] [hp n k l r].
  unfold do_capture, capture_hand, hrun, gen_capture.
  destruct k as [|i rest]; destruct chk; reflexivity.
Qed.

Lemma do_force_equiv : forall wf s st,
  do_force wf s st = let '(s', st', i) := force_hand s st in (s', add_frame wf i st', Raised i).
Proof.
  intros wf s st. unfold do_force. rewrite force_equiv. cbn [hs hst hinit_state].
  destruct (force_hand s st) as [[s' st'] i]. reflexivity.
Qed.

Lemma pop_push : forall i st, pop (push i st) = st.
Proof. intros i [h n k l r]. reflexivity. Qed.

Lemma exit_equiv : forall wf s st out,
  with_exit FnExit gen_exit nopred wf s st out = exit_hand wf s st out.
Proof.
  intros wf [rr ty va tb0 lab] st out.
  unfold with_exit, exit_hand, hrun, gen_exit.
  destruct out as [|i].
  - cbn -[run_force force_hand]. destruct rr; cbn -[run_force force_hand]; [|reflexivity].
    rewrite force_equiv. cbn -[force_hand].
    destruct (force_hand _ st) as [[s' st'] j]. reflexivity.
  - cbn. destruct rr; cbn.
    + destruct st; reflexivity.
    + destruct st; reflexivity.
Qed.

Lemma filt_exit_equiv : forall p wf s st out,
  with_exit FnFiltExit gen_filt_exit p wf s st out =
  let '(st', out') := filt_exit_hand p wf st out in (s, st', out').
Proof.
  intros p wf s st out.
  unfold with_exit, filt_exit_hand, hrun, gen_filt_exit, pred_exc.
  destruct out as [|i]; cbn; [reflexivity|].
  unfold call_pred; cbn.
  replace (cls_of (push i st) i) with (cls_of st i) by reflexivity.
  destruct (pv p (Some (cls_of st i))); cbn; try (destruct st; reflexivity).
Qed.

Lemma filt_call_equiv : forall p x s st, do_filt_call p x s st = filt_call_hand p x st.
Proof.
  intros p x s [hp n k l r].
  unfold do_filt_call, filt_call_hand, hrun, gen_filt_call, pred_exc, raise_value.
  destruct k as [|c rest]; destruct x as [i|]; cbn; unfold call_pred; cbn.
  all: match goal with |- context [pv ?q ?a] => destruct (pv q a) end; cbn; try reflexivity.
  all: try (match goal with |- context [Nat.eqb ?a ?b] => destruct (Nat.eqb a b); cbn; try reflexivity end).
  all: match goal with |- context [tb_eqb ?a ?b] => destruct (tb_eqb a b); reflexivity end.
Qed.

(* ------------------------------------------------------------------ basic facts about the state *)

Lemma frame_eqb_refl : forall f, frame_eqb f f = true.
Proof. destruct f as [l|f k| | | | | | | | |]; cbn; try reflexivity; [apply N.eqb_refl|destruct f, k; reflexivity]. Qed.
Lemma tb_eqb_refl : forall t, tb_eqb t t = true.
Proof. induction t as [|f t IH]; cbn; [reflexivity|]. rewrite frame_eqb_refl, IH. reflexivity. Qed.
Lemma hfn_eqb_eq : forall a b, hfn_eqb a b = true -> a = b.
Proof. destruct a, b; cbn; congruence. Qed.
Lemma rkind_eqb_eq : forall a b, rkind_eqb a b = true -> a = b.
Proof. destruct a, b; cbn; congruence. Qed.
Lemma frame_eqb_eq : forall a b, frame_eqb a b = true -> a = b.
Proof.
  destruct a, b; cbn; try congruence.
  - intro H. apply N.eqb_eq in H. congruence.
  - intro H. apply andb_true_iff in H. destruct H as [H1 H2].
    apply hfn_eqb_eq in H1. apply rkind_eqb_eq in H2. congruence.
Qed.
Lemma tb_eqb_eq : forall a b, tb_eqb a b = true -> a = b.
Proof.
  induction a as [|x a IH]; destruct b as [|y b]; cbn; try congruence.
  intro H. apply andb_true_iff in H. destruct H as [H1 H2].
  apply frame_eqb_eq in H1. apply IH in H2. congruence.
Qed.

(* everything that existed keeps its class, origin and cause; objects are only added; the stack of
   handled exceptions is the same *)
Definition stable (st st' : state) : Prop :=
  next st <= next st' /\ hstack st' = hstack st /\
  forall o, o < next st ->
    ecls (heap st' o) = ecls (heap st o) /\ eorg (heap st' o) = eorg (heap st o) /\ ecause (heap st' o) = ecause (heap st o).

Lemma stable_refl : forall st, stable st st.
Proof. intro st. repeat split; auto. Qed.
Lemma stable_trans : forall a b c, stable a b -> stable b c -> stable a c.
Proof.
  intros a b c [N1 [H1 O1]] [N2 [H2 O2]]. split; [lia|]. split; [congruence|].
  intros o Ho. destruct (O1 o Ho) as [A1 [B1 C1]]. destruct (O2 o ltac:(lia)) as [A2 [B2 C2]].
  repeat split; congruence.
Qed.

Lemma upd_same : forall h i o, upd h i o i = o.
Proof. intros. unfold upd. rewrite Nat.eqb_refl. reflexivity. Qed.
Lemma upd_other : forall h i o j, j <> i -> upd h i o j = h j.
Proof. intros h i o j H. unfold upd. apply Nat.eqb_neq in H. rewrite H. reflexivity. Qed.

Lemma set_tb_stable : forall i t st, stable st (set_tb i t st).
Proof.
  intros i t st. split; [cbn; lia|]. split; [reflexivity|].
  intros o _. cbn. unfold upd. destruct (Nat.eqb o i) eqn:E; [apply Nat.eqb_eq in E; subst; cbn; auto|auto].
Qed.
Lemma add_frame_stable : forall f i st, stable st (add_frame f i st).
Proof. intros. apply set_tb_stable. Qed.
Lemma alloc_stable : forall o st, stable st (fst (alloc o st)).
Proof.
  intros o st. split; [cbn; lia|]. split; [reflexivity|].
  intros j Hj. cbn. rewrite upd_other by lia. auto.
Qed.
Lemma add_log_stable : forall e st, stable st (add_log e st).
Proof. intros. repeat split; auto. Qed.
Lemma count_remove_stable : forall st, stable st (count_remove st).
Proof. intros. repeat split; auto. Qed.

Lemma tb_of_set_tb : forall i t st, tb_of (set_tb i t st) i = t.
Proof. intros. unfold tb_of, set_tb. cbn. rewrite upd_same. reflexivity. Qed.
Lemma tb_of_add_frame : forall f i st, tb_of (add_frame f i st) i = f :: tb_of st i.
Proof. intros. unfold add_frame. apply tb_of_set_tb. Qed.
Lemma tb_of_add_frame_other : forall f i j st, j <> i -> tb_of (add_frame f i st) j = tb_of st j.
Proof. intros. unfold add_frame, tb_of, set_tb. cbn. rewrite upd_other by assumption. reflexivity. Qed.

Lemma raise_value_stable : forall fn i t st, stable st (raise_value fn i t st).
Proof.
  intros. unfold raise_value. destruct (tb_eqb _ _).
  - apply add_frame_stable.
  - eapply stable_trans; [apply set_tb_stable|apply add_frame_stable].
Qed.
(* raising the value with the saved traceback: afterwards its traceback is the saved one plus the raising frame *)
Lemma raise_value_tb : forall fn i t st,
  exists k, (k = KVal \/ k = KWtb) /\ tb_of (raise_value fn i t st) i = FHelper fn k :: t.
Proof.
  intros. unfold raise_value. destruct (tb_eqb (tb_of st i) t) eqn:E.
  - apply tb_eqb_eq in E. exists KVal. split; [auto|]. rewrite tb_of_add_frame. congruence.
  - exists KWtb. split; [auto|]. rewrite tb_of_add_frame, tb_of_set_tb. reflexivity.
Qed.
Lemma raise_value_logs : forall fn i t st, logs (raise_value fn i t st) = logs st.
Proof. intros. unfold raise_value. destruct (tb_eqb _ _); reflexivity. Qed.

Lemma force_hand_stable : forall s st s' st' i, force_hand s st = (s', st', i) -> stable st st'.
Proof.
  intros s st s' st' i H. unfold force_hand in H.
  destruct (value s) as [v|].
  - inversion H; subst. apply raise_value_stable.
  - destruct (type_ s) as [c|].
    + destruct (ctor0 c).
      * inversion H; subst. eapply stable_trans; [apply (alloc_stable (mkobj c [] ONew None))|apply raise_value_stable].
      * inversion H; subst. apply (alloc_stable (mkobj cls_type [FHelper FnForce KCtor] ONew None)).
    + inversion H; subst. apply (alloc_stable (mkobj cls_runtime [FHelper FnForce KRt] ONew None)).
Qed.

Lemma capture_hand_stable : forall chk s st s' st' r, capture_hand chk s st = (s', st', r) -> stable st st'.
Proof.
  intros chk s st s' st' r H. unfold capture_hand in H.
  destruct (hstack st) as [|i rest].
  - destruct chk; inversion H; subst; [apply (alloc_stable (mkobj cls_runtime [FHelper FnCapture KRt] ONew None))|apply stable_refl].
  - inversion H; subst. apply stable_refl.
Qed.

Lemma exit_hand_stable : forall wf s st out s' st' out', exit_hand wf s st out = (s', st', out') -> stable st st'.
Proof.
  intros wf s st out s' st' out' H. unfold exit_hand in H. destruct out as [|i].
  - destruct (reraise s).
    + destruct (force_hand s st) as [[s1 st1] j] eqn:F. inversion H; subst.
      eapply stable_trans; [eapply force_hand_stable; eassumption|].
      eapply stable_trans; apply add_frame_stable.
    + inversion H; subst. apply stable_refl.
  - destruct (reraise s); inversion H; subst; [apply add_log_stable|apply stable_refl].
Qed.

Lemma filt_exit_hand_stable : forall p wf st out st' out', filt_exit_hand p wf st out = (st', out') -> stable st st'.
Proof.
  intros p wf st out st' out' H. unfold filt_exit_hand in H. destruct out as [|i].
  - inversion H; subst. apply stable_refl.
  - destruct (pv p _); inversion H; subst; try apply stable_refl.
    + eapply stable_trans; [apply (alloc_stable (pred_exc p FnFiltExit))|apply add_frame_stable].
    + eapply stable_trans; [apply add_frame_stable|]. eapply stable_trans; apply add_frame_stable.
Qed.

Lemma filt_call_hand_stable : forall p x st st' r, filt_call_hand p x st = (st', r) -> stable st st'.
Proof.
  intros p x st st' r H. unfold filt_call_hand in H.
  destruct (pv p _).
  - destruct (opt_nat_eqb _ _).
    + destruct (hd_error (hstack st)); inversion H; subst;
        [apply raise_value_stable|apply (alloc_stable (mkobj cls_type [FHelper FnFiltCall KCtor] ONew None))].
    + destruct x; inversion H; subst;
        [apply add_frame_stable|apply (alloc_stable (mkobj cls_type [FHelper FnFiltCall KVal] ONew None))].
  - inversion H; subst. apply stable_refl.
  - inversion H; subst. apply (alloc_stable (pred_exc p FnFiltCall)).
  - destruct x; inversion H; subst;
      [eapply stable_trans; apply add_frame_stable|apply (alloc_stable (mkobj cls_type _ ONew None))].
Qed.

(* ------------------------------------------------------------------ entering / leaving the with statement *)

Lemma sare_enter_active : forall wf r0 lab st o rest,
  hstack st = o :: rest ->
  sare_enter wf (sare_new r0 lab st) st = (mksare r0 (Some (cls_of st o)) (Some o) (tb_of st o) lab, st, Normal).
Proof.
  intros wf r0 lab st o rest H. unfold sare_enter. rewrite capture_equiv, sare_init_equiv.
  unfold capture_hand. rewrite H. reflexivity.
Qed.

Lemma sare_enter_stable : forall wf s st s' st' out, sare_enter wf s st = (s', st', out) -> stable st st'.
Proof.
  intros wf s st s' st' out H. unfold sare_enter in H. rewrite capture_equiv in H.
  destruct (capture_hand gen_enter_check s st) as [[s1 st1] r] eqn:C.
  apply capture_hand_stable in C. destruct r as [j|]; inversion H; subst.
  - eapply stable_trans; [eassumption|]. eapply stable_trans; apply add_frame_stable.
  - assumption.
Qed.

Lemma with_same_stable : forall wf block s st s3 st3 ob out,
  (forall s st s' st' o, block s st = (s', st', o) -> stable st st') ->
  with_same wf block s st = (s3, st3, ob, out) -> stable st st3.
Proof.
  intros wf block s st s3 st3 ob out HB H. unfold with_same in H.
  destruct (sare_enter wf s st) as [[s1 st1] o1] eqn:E.
  apply sare_enter_stable in E. destruct o1 as [|j].
  - destruct (block s1 st1) as [[s2 st2] o2] eqn:B. apply HB in B.
    rewrite exit_equiv in H.
    destruct (exit_hand wf s2 st2 o2) as [[s4 st4] o4] eqn:X. apply exit_hand_stable in X.
    inversion H; subst. eapply stable_trans; [eassumption|]. eapply stable_trans; eassumption.
  - inversion H; subst. assumption.
Qed.
Lemma with_sare_stable : forall r0 lab wf block st s3 st3 ob out,
  (forall s st s' st' o, block s st = (s', st', o) -> stable st st') ->
  with_sare r0 lab wf block st = (s3, st3, ob, out) -> stable st st3.
Proof. intros r0 lab wf block st s3 st3 ob out HB H. exact (with_same_stable _ _ _ _ _ _ _ _ HB H). Qed.

Lemma stable_push : forall i a b, stable (push i a) b -> stable a (pop b).
Proof.
  intros i a b [N [H O]]. split; [exact N|]. split; [cbn in *; rewrite H; reflexivity|exact O].
Qed.

(* the modelled interpreter never changes the class / origin of an existing object, never forgets one,
   and leaves the stack of handled exceptions as it found it — for every body (induction, no bound) *)
Lemma exec_stable : forall b s st s' st' out, exec b s st = (s', st', out) -> stable st st'.
Proof.
  induction b as [|c k|c k l|v|a IHa b IHb|a IHa h IHh|r0 l b IHb|r0 b IHb|l|l|p l b IHb|p a l|l b IHb|];
    intros s st s' st' out H; cbn [exec] in H.
  - inversion H; subst. apply stable_refl.
  - inversion H; subst. apply (alloc_stable (mkobj c (FProg 1 :: FOrig :: pre_tb k) (OSite 0) None)).
  - inversion H; subst. apply (alloc_stable (mkobj c (FProg l :: pre_tb k) (OSite l) None)).
  - inversion H; subst. apply stable_refl.
  - destruct (exec a s st) as [[s1 st1] o1] eqn:A. apply IHa in A. destruct o1.
    + apply IHb in H. eapply stable_trans; eassumption.
    + inversion H; subst. assumption.
  - destruct (exec a s st) as [[s1 st1] o1] eqn:A. apply IHa in A. destruct o1 as [|i].
    + inversion H; subst. assumption.
    + destruct (exec h s1 (push i st1)) as [[s2 st2] o2] eqn:B. apply IHh in B.
      inversion H; subst. eapply stable_trans; [eassumption|]. eapply stable_push; eassumption.
  - destruct (with_sare r0 l (FProg l) (fun s' st' => exec b s' st') st) as [[[s3 st3] ob] o3] eqn:W.
    inversion H; subst. eapply with_sare_stable; [|eassumption].
    intros; eapply IHb; eassumption.
  - destruct (exec b (sare_new r0 2 st) st) as [[s1 st1] o1] eqn:B. inversion H; subst. eapply IHb; eassumption.
  - rewrite do_force_equiv in H. destruct (force_hand s st) as [[s1 st1] i] eqn:F.
    inversion H; subst. eapply stable_trans; [eapply force_hand_stable; eassumption|apply add_frame_stable].
  - unfold do_capture_stmt in H. rewrite capture_equiv in H.
    destruct (capture_hand gen_capture_default_check s st) as [[s1 st1] r] eqn:C. apply capture_hand_stable in C.
    destruct r; inversion H; subst; [eapply stable_trans; [eassumption|apply add_frame_stable]|assumption].
  - destruct (exec b s st) as [[s1 st1] o1] eqn:B. apply IHb in B.
    rewrite filt_exit_equiv in H.
    destruct (filt_exit_hand p (FProg l) st1 o1) as [st2 o2] eqn:X. apply filt_exit_hand_stable in X.
    inversion H; subst. eapply stable_trans; eassumption.
  - assert (A : exists st1 x, stable st st1 /\
        match do_filt_call p x s st1 with
        | (st2, Some j) => (s, add_frame (FProg l) j st2, Raised j)
        | (st2, None) => (s, st2, Normal)
        end = (s', st', out)).
    { destruct a as [|c m| |i|c m].
      - exists st, (hd_error (hstack st)). split; [apply stable_refl|exact H].
      - exists (fst (alloc (mkobj c [] (OSite m) None) st)), (Some (next st)).
        split; [apply alloc_stable|exact H].
      - exists st, None. split; [apply stable_refl|exact H].
      - exists st, (Some i). split; [apply stable_refl|exact H].
      - exists (fst (alloc (mkobj c [FPre] (OSite m) None) st)), (Some (next st)).
        split; [apply alloc_stable|exact H]. }
    destruct A as [st1 [x [S1 A]]]. rewrite filt_call_equiv in A.
    destruct (filt_call_hand p x st1) as [st2 r] eqn:F. apply filt_call_hand_stable in F.
    destruct r; inversion A; subst.
    + eapply stable_trans; [eassumption|]. eapply stable_trans; [eassumption|apply add_frame_stable].
    + eapply stable_trans; eassumption.
  - destruct (with_same (FProg l) (fun s' st' => exec b s' st') s st) as [[[s3 st3] ob] o3] eqn:W.
    inversion H; subst. eapply with_same_stable; [|eassumption].
    intros; eapply IHb; eassumption.
  - destruct (hstack st) as [|i rest]; inversion H; subst; [apply stable_refl|apply set_tb_stable].
Qed.

(* a body that does not call force_reraise()/capture() on its own context leaves what the context
   captured untouched (only the reraise flag can change) — induction on the body, no bound *)
Lemma exec_keeps_capture : forall b s st s' st' out,
  direct_free0 b = true -> exec b s st = (s', st', out) ->
  type_ s' = type_ s /\ value s' = value s /\ tb s' = tb s /\ slab s' = slab s.
Proof.
  induction b as [|c k|c k l|v|a IHa b IHb|a IHa h IHh|r0 l b IHb|r0 b IHb|l|l|p l b IHb|p a l|l b IHb|];
    intros s st s' st' out D H; cbn [exec] in H; cbn [direct_free0] in D; try discriminate.
  - inversion H; subst. auto.
  - inversion H; subst. auto.
  - inversion H; subst. auto.
  - inversion H; subst. auto.
  - apply andb_true_iff in D. destruct D as [Da Db].
    destruct (exec a s st) as [[s1 st1] o1] eqn:A. apply (IHa _ _ _ _ _ Da) in A. destruct o1.
    + apply (IHb _ _ _ _ _ Db) in H. intuition congruence.
    + inversion H; subst. assumption.
  - apply andb_true_iff in D. destruct D as [Da Dh].
    destruct (exec a s st) as [[s1 st1] o1] eqn:A. apply (IHa _ _ _ _ _ Da) in A. destruct o1 as [|i].
    + inversion H; subst. assumption.
    + destruct (exec h s1 (push i st1)) as [[s2 st2] o2] eqn:B. apply (IHh _ _ _ _ _ Dh) in B.
      inversion H; subst. intuition congruence.
  - destruct (with_sare _ _ _ _ _) as [[[s3 st3] ob] o3]. inversion H; subst. auto.
  - destruct (exec b _ _) as [[s1 st1] o1]. inversion H; subst. auto.
  - destruct (exec b s st) as [[s1 st1] o1] eqn:B. apply (IHb _ _ _ _ _ D) in B.
    destruct (with_exit _ _ _ _ _ _ _) as [[s2 st2] o2]. inversion H; subst. assumption.
  - destruct (match a with ACur => _ | ANew c m => _ | ANone => _ | AObj i => _ | AStored c m => _ end) as [st1 x].
    destruct (do_filt_call p x s st1) as [st2 [j|]]; inversion H; subst; auto.
  - destruct (hstack st) as [|i rest]; inversion H; subst; auto.
Qed.

(* ------------------------------------------------------------------ save_and_reraise_exception *)

Definition same_object (st st' : state) (o : nat) : Prop :=
  ecls (heap st' o) = ecls (heap st o) /\ eorg (heap st' o) = eorg (heap st o).

Lemma stable_same_object : forall st st' o, stable st st' -> o < next st -> same_object st st' o.
Proof. intros st st' o [_ [_ O]] Ho. destruct (O o Ho) as [A [B _]]. split; assumption. Qed.

(* the context as __enter__ leaves it when exception o is being handled: whatever the object held
   before (a stale type_, an earlier capture) is overwritten; only the flag and the logger stay *)
Definition reentered (s : sare) (st : state) (o : nat) : sare :=
  mksare (reraise s) (Some (cls_of st o)) (Some o) (tb_of st o) (slab s).
Definition entered (r0 : bool) (lab : N) (st : state) (o : nat) : sare :=
  mksare r0 (Some (cls_of st o)) (Some o) (tb_of st o) lab.

Lemma sare_enter_any : forall wf s st o rest,
  hstack st = o :: rest -> sare_enter wf s st = (reentered s st o, st, Normal).
Proof.
  intros wf s st o rest H. unfold sare_enter. rewrite capture_equiv.
  unfold capture_hand. rewrite H. reflexivity.
Qed.

Lemma with_same_unfold_gen : forall wf block s st o rest,
  hstack st = o :: rest ->
  with_same wf block s st =
  let '(s2, st2, out) := block (reentered s st o) st in
  let '(s3, st3, out') := exit_hand wf s2 st2 out in (s3, st3, out, out').
Proof.
  intros wf block s st o rest H. unfold with_same. rewrite (sare_enter_any _ _ _ _ _ H).
  destruct (block (reentered s st o) st) as [[s2 st2] out]. rewrite exit_equiv. reflexivity.
Qed.

Lemma with_sare_unfold : forall r0 lab wf b st o rest,
  hstack st = o :: rest ->
  with_sare r0 lab wf (fun s st => exec b s st) st =
  let '(s2, st2, out) := exec b (entered r0 lab st o) st in
  let '(s3, st3, out') := exit_hand wf s2 st2 out in (s3, st3, out, out').
Proof.
  intros r0 lab wf b st o rest H.
  exact (with_same_unfold_gen wf (fun s st => exec b s st) (sare_new r0 lab st) st o rest H).
Qed.

(* body completes: the exception active on entry is raised again — the same object, its traceback the
   one captured on entry plus the three frames of the re-raise — iff the flag is on at exit;
   otherwise nothing is raised and nothing changes; nothing is logged in either case *)
Lemma sare_normal_exit_lemma : forall r0 lab wf b st o rest s3 st3 out',
  hstack st = o :: rest -> o < next st -> direct_free0 b = true ->
  with_sare r0 lab wf (fun s st => exec b s st) st = (s3, st3, Normal, out') ->
  exists s2 st2,
    exec b (entered r0 lab st o) st = (s2, st2, Normal) /\ reraise s3 = reraise s2 /\
    (reraise s2 = true ->
       out' = Raised o /\ same_object st st3 o /\ logs st3 = logs st2 /\
       exists k, (k = KVal \/ k = KWtb) /\
                 tb_of st3 o = wf :: FHelper FnExit KCall :: FHelper FnForce k :: tb_of st o) /\
    (reraise s2 = false -> out' = Normal /\ st3 = st2).
Proof.
  intros r0 lab wf b st o rest s3 st3 out' HS Ho D W.
  rewrite (with_sare_unfold _ _ _ _ _ _ _ HS) in W.
  destruct (exec b (entered r0 lab st o) st) as [[s2 st2] out] eqn:E.
  destruct (exit_hand wf s2 st2 out) as [[s4 st4] o4] eqn:X. inversion W; subst. clear W.
  exists s2, st2. split; [reflexivity|].
  pose proof (exec_keeps_capture _ _ _ _ _ _ D E) as [Ht [Hv [Hb _]]]. cbn in Ht, Hv, Hb.
  pose proof (exec_stable _ _ _ _ _ _ E) as [Hn [_ HO]].
  unfold exit_hand in X. destruct (reraise s2) eqn:R.
  - unfold force_hand in X. rewrite Hv in X. inversion X; subst. clear X.
    split; [cbn; exact R|]. split; [|discriminate]. intros _.
    split; [reflexivity|].
    destruct (raise_value_tb FnForce o (tb s2) st2) as [k [Hk Tk]].
    split; [|split].
    + apply stable_same_object; [|exact Ho].
      eapply stable_trans; [exact (exec_stable _ _ _ _ _ _ E)|].
      eapply stable_trans; [apply raise_value_stable|]. eapply stable_trans; apply add_frame_stable.
    + cbn. apply raise_value_logs.
    + exists k. split; [exact Hk|]. rewrite !tb_of_add_frame, Tk, Hb. reflexivity.
  - inversion X; subst. split; [exact R|]. split; [discriminate|]. auto.
Qed.

(* body raises x: x propagates (same object, nothing added to it), the context is not touched, and the
   original is logged exactly when the flag is on at that moment — for EVERY body; when the body does not
   call force_reraise()/capture() on its own context, what is logged is the original exception with the
   traceback captured on entry *)
Lemma sare_body_raises_lemma : forall r0 lab wf b st o rest s3 st3 x out',
  hstack st = o :: rest ->
  with_sare r0 lab wf (fun s st => exec b s st) st = (s3, st3, Raised x, out') ->
  exists st2,
    exec b (entered r0 lab st o) st = (s3, st2, Raised x) /\ out' = Raised x /\
    st3 = (if reraise s3 then add_log (mklog (slab s3) (type_ s3) (value s3) (tb s3)) st2 else st2) /\
    (direct_free0 b = true ->
       slab s3 = lab /\ type_ s3 = Some (cls_of st o) /\ value s3 = Some o /\ tb s3 = tb_of st o).
Proof.
  intros r0 lab wf b st o rest s3 st3 x out' HS W.
  rewrite (with_sare_unfold _ _ _ _ _ _ _ HS) in W.
  destruct (exec b (entered r0 lab st o) st) as [[s2 st2] out] eqn:E.
  destruct (exit_hand wf s2 st2 out) as [[s4 st4] o4] eqn:X. inversion W; subst. clear W.
  unfold exit_hand in X. inversion X; subst. clear X.
  exists st2. split; [reflexivity|]. split; [reflexivity|]. split; [reflexivity|].
  intro D. pose proof (exec_keeps_capture _ _ _ _ _ _ D E) as [Ht [Hv [Hb Hl]]]. cbn in Ht, Hv, Hb, Hl. auto.
Qed.

(* the same two facts when an EXISTING context object is entered (again): what counts is the exception active on
   this, the latest, entry; whatever the object held from earlier use is irrelevant *)
Lemma sare_reuse_normal_exit_lemma : forall wf b s st o rest s3 st3 out',
  hstack st = o :: rest -> o < next st -> direct_free0 b = true ->
  with_same wf (fun s st => exec b s st) s st = (s3, st3, Normal, out') ->
  exists s2 st2,
    exec b (reentered s st o) st = (s2, st2, Normal) /\ reraise s3 = reraise s2 /\
    (reraise s2 = true ->
       out' = Raised o /\ same_object st st3 o /\ logs st3 = logs st2 /\
       exists k, (k = KVal \/ k = KWtb) /\
                 tb_of st3 o = wf :: FHelper FnExit KCall :: FHelper FnForce k :: tb_of st o) /\
    (reraise s2 = false -> out' = Normal /\ st3 = st2).
Proof.
  intros wf b s st o rest s3 st3 out' HS Ho D W.
  rewrite (with_same_unfold_gen _ _ _ _ _ _ HS) in W.
  destruct (exec b (reentered s st o) st) as [[s2 st2] out] eqn:E.
  destruct (exit_hand wf s2 st2 out) as [[s4 st4] o4] eqn:X. inversion W; subst. clear W.
  exists s2, st2. split; [reflexivity|].
  pose proof (exec_keeps_capture _ _ _ _ _ _ D E) as [Ht [Hv [Hb _]]]. cbn in Ht, Hv, Hb.
  pose proof (exec_stable _ _ _ _ _ _ E) as [Hn [_ HO]].
  unfold exit_hand in X. destruct (reraise s2) eqn:R.
  - unfold force_hand in X. rewrite Hv in X. inversion X; subst. clear X.
    split; [cbn; exact R|]. split; [|discriminate]. intros _.
    split; [reflexivity|].
    destruct (raise_value_tb FnForce o (tb s2) st2) as [k [Hk Tk]].
    split; [|split].
    + apply stable_same_object; [|exact Ho].
      eapply stable_trans; [exact (exec_stable _ _ _ _ _ _ E)|].
      eapply stable_trans; [apply raise_value_stable|]. eapply stable_trans; apply add_frame_stable.
    + cbn. apply raise_value_logs.
    + exists k. split; [exact Hk|]. rewrite !tb_of_add_frame, Tk, Hb. reflexivity.
  - inversion X; subst. split; [exact R|]. split; [discriminate|]. auto.
Qed.

Lemma sare_reuse_body_raises_lemma : forall wf b s st o rest s3 st3 x out',
  hstack st = o :: rest ->
  with_same wf (fun s st => exec b s st) s st = (s3, st3, Raised x, out') ->
  exists st2,
    exec b (reentered s st o) st = (s3, st2, Raised x) /\ out' = Raised x /\
    st3 = (if reraise s3 then add_log (mklog (slab s3) (type_ s3) (value s3) (tb s3)) st2 else st2) /\
    (direct_free0 b = true ->
       slab s3 = slab s /\ type_ s3 = Some (cls_of st o) /\ value s3 = Some o /\ tb s3 = tb_of st o).
Proof.
  intros wf b s st o rest s3 st3 x out' HS W.
  rewrite (with_same_unfold_gen _ _ _ _ _ _ HS) in W.
  destruct (exec b (reentered s st o) st) as [[s2 st2] out] eqn:E.
  destruct (exit_hand wf s2 st2 out) as [[s4 st4] o4] eqn:X. inversion W; subst. clear W.
  unfold exit_hand in X. inversion X; subst. clear X.
  exists st2. split; [reflexivity|]. split; [reflexivity|]. split; [reflexivity|].
  intro D. pose proof (exec_keeps_capture _ _ _ _ _ _ D E) as [Ht [Hv [Hb Hl]]]. cbn in Ht, Hv, Hb, Hl. auto.
Qed.

(* the capture()/force_reraise() protocol without a with statement *)
Lemma sare_direct_protocol_lemma : forall r0 l1 l2 b s st o rest s' st' out,
  hstack st = o :: rest -> o < next st -> direct_free0 b = true ->
  exec (Direct r0 (Seq (CaptureDirect l1) (Seq b (ForceReraise l2)))) s st = (s', st', out) ->
  exists s2 st2 ob,
    exec b (entered r0 2 st o) st = (s2, st2, ob) /\
    match ob with
    | Raised x => out = Raised x /\ st' = st2
    | Normal => out = Raised o /\ same_object st st' o /\
                exists k, (k = KVal \/ k = KWtb) /\ tb_of st' o = FProg l2 :: FHelper FnForce k :: tb_of st o
    end.
Proof.
  intros r0 l1 l2 b s st o rest s' st' out HS Ho D H.
  cbn [exec] in H. unfold do_capture_stmt in H. rewrite capture_equiv, sare_init_equiv in H.
  unfold capture_hand in H. rewrite HS in H. cbn -[exec do_force] in H.
  change (mksare r0 (Some (cls_of st o)) (Some o) (tb_of st o) 2) with (entered r0 2 st o) in H.
  destruct (exec b (entered r0 2 st o) st) as [[s2 st2] ob] eqn:E.
  exists s2, st2, ob. split; [reflexivity|].
  destruct ob as [|x].
  - rewrite do_force_equiv in H.
    pose proof (exec_keeps_capture _ _ _ _ _ _ D E) as [Ht [Hv [Hb _]]]. cbn in Ht, Hv, Hb.
    pose proof (exec_stable _ _ _ _ _ _ E) as [Hn [_ HO]].
    unfold force_hand in H. rewrite Hv in H. inversion H; subst. clear H.
    split; [reflexivity|].
    destruct (raise_value_tb FnForce o (tb s2) st2) as [k [Hk Tk]].
    split.
    + apply stable_same_object; [|exact Ho].
      eapply stable_trans; [exact (exec_stable _ _ _ _ _ _ E)|].
      eapply stable_trans; [apply raise_value_stable|apply add_frame_stable].
    + exists k. split; [exact Hk|]. rewrite tb_of_add_frame, Tk, Hb. reflexivity.
  - inversion H; subst. auto.
Qed.

(* ------------------------------------------------------------------ finding K13: the unrestricted statement is false *)

(* "body completes with the flag on => the exception active on entry is what comes out", for every body *)
Definition sare_full_statement : Prop :=
  forall r0 lab wf b st o rest,
    hstack st = o :: rest -> o < next st ->
    let '(s3, _, outb, out') := with_sare r0 lab wf (fun s st => exec b s st) st in
    outb = Normal -> reraise s3 = true -> out' = Raised o.

Definition plain_cls := mkcls 0 true true true.
Definition mand_cls := mkcls 1 false true true.
(* the program state after   try: raise_orig()  except BaseException:   *)
Definition handling_orig (c : cls) : state :=
  match exec (RaiseOrig c 0) (sare_blank 0) st0 with
  | (_, st, Raised i) => push i st
  | (_, st, Normal) => st
  end.
(* try: ctx.force_reraise()  except BaseException: pass *)
Definition k13_body : body := Try (ForceReraise 10) Noop.

Lemma k13_refutes : ~ sare_full_statement.
Proof.
  intro H. specialize (H true 2%N (FProg 2) k13_body (handling_orig plain_cls) 0 [] eq_refl).
  specialize (H ltac:(cbn; lia)).
  vm_compute in H. specialize (H eq_refl eq_refl). discriminate.
Qed.

(* what does come out: a fresh instance of the class, or TypeError when the class needs arguments *)
Lemma k13_invents_plain :
  let '(_, st3, _, out') := with_sare true 2 (FProg 2) (fun s st => exec k13_body s st) (handling_orig plain_cls) in
  out' = Raised 1 /\ eorg (heap st3 1) = ONew /\ ecls (heap st3 1) = plain_cls.
Proof. vm_compute. auto. Qed.
Lemma k13_invents_typeerror :
  let '(_, st3, _, out') := with_sare true 2 (FProg 2) (fun s st => exec k13_body s st) (handling_orig mand_cls) in
  out' = Raised 1 /\ eorg (heap st3 1) = ONew /\ ecls (heap st3 1) = cls_type.
Proof. vm_compute. auto. Qed.

(* ------------------------------------------------------------------ exception_filter *)

Ltac heap_tac :=
  unfold add_frame, set_tb, tb_of, alloc; cbn;
  repeat (progress (unfold upd; cbn; rewrite ?Nat.eqb_refl; cbn)); auto.

(* as a context manager (plain instance, decorator-made, bound method: the same __exit__) *)
Lemma filter_exit_lemma : forall p l b s st s1 st1 out,
  exec b s st = (s1, st1, out) ->
  match out with
  | Normal => exec (Filter p l b) s st = (s1, st1, Normal)
  | Raised i =>
      match pv p (Some (cls_of st1 i)) with
      | PTruthy => exec (Filter p l b) s st = (s1, st1, Normal)
      | PFalsy => exec (Filter p l b) s st = (s1, st1, Raised i)
      | PRaise =>
          exists st2, exec (Filter p l b) s st = (s1, st2, Raised (next st1)) /\ stable st1 st2 /\
                      next st2 = S (next st1) /\ ecls (heap st2 (next st1)) = praise_cls p /\
                      eorg (heap st2 (next st1)) = OSite (plab p)
      | PReraise =>
          exists st2, exec (Filter p l b) s st = (s1, st2, Raised i) /\ stable st1 st2
      end
  end.
Proof.
  intros p l b s st s1 st1 out E. cbn [exec]. rewrite E, filt_exit_equiv. unfold filt_exit_hand.
  destruct out as [|i]; [reflexivity|].
  destruct (pv p (Some (cls_of st1 i))); try reflexivity.
  - eexists. split; [reflexivity|]. split.
    + eapply stable_trans; [apply (alloc_stable (pred_exc p FnFiltExit))|apply add_frame_stable].
    + cbn. rewrite !upd_same. cbn. auto.
  - eexists. split; [reflexivity|].
    eapply stable_trans; [apply add_frame_stable|]. eapply stable_trans; apply add_frame_stable.
Qed.

(* called directly with an exception object i *)
Lemma filter_call_obj_lemma : forall p l s st i,
  match pv p (Some (cls_of st i)) with
  | PTruthy => exec (FilterCall p (AObj i) l) s st = (s, st, Normal)
  | PFalsy =>
      exists st', exec (FilterCall p (AObj i) l) s st = (s, st', Raised i) /\ stable st st' /\
                  tb_of st' i = FProg l :: FHelper FnFiltCall KVal :: tb_of st i
  | PRaise =>
      exists st', exec (FilterCall p (AObj i) l) s st = (s, st', Raised (next st)) /\ stable st st' /\
                  ecls (heap st' (next st)) = praise_cls p /\ eorg (heap st' (next st)) = OSite (plab p)
  | PReraise => exists st', exec (FilterCall p (AObj i) l) s st = (s, st', Raised i) /\ stable st st'
  end.
Proof.
  intros p l s st i. cbn [exec]. rewrite filt_call_equiv. unfold filt_call_hand. cbn [option_map].
  destruct (pv p (Some (cls_of st i))).
  - destruct (opt_nat_eqb (hd_error (hstack st)) (Some i)) eqn:Q.
    + destruct (hd_error (hstack st)) as [c|] eqn:Hd; cbn in Q; [|discriminate].
      apply Nat.eqb_eq in Q. subst c.
      eexists. split; [reflexivity|]. split.
      * eapply stable_trans; [apply raise_value_stable|apply add_frame_stable].
      * rewrite tb_of_add_frame. unfold raise_value. rewrite tb_eqb_refl, tb_of_add_frame. reflexivity.
    + eexists. split; [reflexivity|]. split.
      * eapply stable_trans; apply add_frame_stable.
      * rewrite !tb_of_add_frame. reflexivity.
  - reflexivity.
  - eexists. split; [reflexivity|]. split.
    + eapply stable_trans; [apply (alloc_stable (pred_exc p FnFiltCall))|apply add_frame_stable].
    + cbn. rewrite !upd_same. cbn. auto.
  - eexists. split; [reflexivity|].
    eapply stable_trans; [apply add_frame_stable|]. eapply stable_trans; apply add_frame_stable.
Qed.

(* called with the exception being handled *)
Lemma filter_call_cur_lemma : forall p l s st o rest,
  hstack st = o :: rest -> exec (FilterCall p ACur l) s st = exec (FilterCall p (AObj o) l) s st.
Proof. intros p l s st o rest H. cbn [exec]. rewrite H. reflexivity. Qed.

(* no current exception and handed None: accepted -> nothing; rejected -> a TypeError is raised
   (exc_type() with exc_type None), nothing that existed is touched *)
Lemma filter_call_none_lemma : forall p l s st,
  hstack st = [] ->
  match pv p None with
  | PTruthy => exec (FilterCall p ANone l) s st = (s, st, Normal)
  | PFalsy => exists st', exec (FilterCall p ANone l) s st = (s, st', Raised (next st)) /\ stable st st' /\
                          ecls (heap st' (next st)) = cls_type /\ eorg (heap st' (next st)) = ONew
  | PRaise => exists st', exec (FilterCall p ANone l) s st = (s, st', Raised (next st)) /\ stable st st' /\
                          ecls (heap st' (next st)) = praise_cls p
  | PReraise => exists st', exec (FilterCall p ANone l) s st = (s, st', Raised (next st)) /\ stable st st' /\
                            ecls (heap st' (next st)) = cls_type
  end.
Proof.
  intros p l s st H. cbn [exec]. rewrite filt_call_equiv. unfold filt_call_hand. cbn [option_map]. rewrite H.
  destruct (pv p None); cbn.
  - eexists. split; [reflexivity|]. split.
    + eapply stable_trans; [apply (alloc_stable (mkobj cls_type [FHelper FnFiltCall KCtor] ONew None))|apply add_frame_stable].
    + heap_tac.
  - reflexivity.
  - eexists. split; [reflexivity|]. split.
    + eapply stable_trans; [apply (alloc_stable (pred_exc p FnFiltCall))|apply add_frame_stable].
    + heap_tac.
  - eexists. split; [reflexivity|]. split.
    + eapply stable_trans; [apply (alloc_stable (mkobj cls_type [FHelper FnFiltCall KCall; FHelper FnFiltCall KCtor] ONew None))|apply add_frame_stable].
    + heap_tac.
Qed.

Lemma filter_get_lemma : forall (O : Type) (upred : O -> predspec) (obj : O), filt_get upred obj = upred obj.
Proof. reflexivity. Qed.

(* ------------------------------------------------------------------ remove_path_on_error *)

Lemma with_sare_unfold_gen : forall r0 lab wf block st o rest,
  hstack st = o :: rest ->
  with_sare r0 lab wf block st =
  let '(s2, st2, out) := block (entered r0 lab st o) st in
  let '(s3, st3, out') := exit_hand wf s2 st2 out in (s3, st3, out, out').
Proof.
  intros r0 lab wf block st o rest H. exact (with_same_unfold_gen wf block (sare_new r0 lab st) st o rest H).
Qed.

Lemma raise_value_removed : forall fn i t st, removed (raise_value fn i t st) = removed st.
Proof. intros. unfold raise_value. destruct (tb_eqb _ _); reflexivity. Qed.
Lemma raise_value_hstack : forall fn i t st, hstack (raise_value fn i t st) = hstack st.
Proof. intros. unfold raise_value. destruct (tb_eqb _ _); reflexivity. Qed.
Lemma raise_value_next : forall fn i t st, next (raise_value fn i t st) = next st.
Proof. intros. unfold raise_value. destruct (tb_eqb _ _); reflexivity. Qed.

(* the block raised an Exception and remove() returns: remove() was called once, then the ORIGINAL
   exception comes out — same object, same traceback as when it left the block, nothing logged *)
Lemma rpoe_removes_then_reraises : forall wf st i,
  isexc (cls_of st i) = true ->
  exists st', rpoe_exit None wf st (Raised i) = (st', Raised i) /\
              removed st' = N.succ (removed st) /\ tb_of st' i = tb_of st i /\
              stable st st' /\ logs st' = logs st.
Proof.
  intros wf st i E. unfold rpoe_exit. unfold gen_rpoe_catch.
  assert (E' : isexc (cls_of (add_frame FRpoe i st) i) = true).
  { unfold cls_of, add_frame, set_tb. cbn. rewrite upd_same. exact E. }
  rewrite E'.
  rewrite (with_sare_unfold_gen _ _ _ _ _ i (hstack st)) by reflexivity.
  change gen_rpoe_reraise with true.
  cbn -[raise_value add_frame set_tb tb_of pop push count_remove].
  rewrite Nat.eqb_refl.
  eexists. split; [reflexivity|]. split; [|split; [|split]].
  - cbn. rewrite raise_value_removed. reflexivity.
  - apply tb_of_set_tb.
  - eapply stable_trans; [apply (add_frame_stable FRpoe i)|].
    eapply stable_trans; [|apply set_tb_stable].
    eapply (stable_push i).
    eapply stable_trans; [apply count_remove_stable|].
    eapply stable_trans; [apply raise_value_stable|].
    eapply stable_trans; apply add_frame_stable.
  - cbn. rewrite raise_value_logs. reflexivity.
Qed.

(* remove() itself raises: its exception (a new object) propagates and the original is logged once *)
Lemma rpoe_remover_raises : forall wf st i c,
  i < next st -> isexc (cls_of st i) = true ->
  exists st', rpoe_exit (Some c) wf st (Raised i) = (st', Raised (next st)) /\
              removed st' = N.succ (removed st) /\ stable st st' /\
              ecls (heap st' (next st)) = c /\
              logs st' = logs st ++ [mklog 9 (Some (cls_of st i)) (Some i) (FRpoe :: tb_of st i)].
Proof.
  intros wf st i c Hi E. unfold rpoe_exit. unfold gen_rpoe_catch.
  assert (E' : isexc (cls_of (add_frame FRpoe i st) i) = true).
  { unfold cls_of, add_frame, set_tb. cbn. rewrite upd_same. exact E. }
  rewrite E'.
  rewrite (with_sare_unfold_gen _ _ _ _ _ i (hstack st)) by reflexivity.
  change gen_rpoe_reraise with true.
  cbn -[add_frame set_tb tb_of pop push count_remove add_log].
  replace (next (count_remove (push i (add_frame FRpoe i st)))) with (next st) by reflexivity.
  assert (Q : Nat.eqb (next st) i = false) by (apply Nat.eqb_neq; lia).
  rewrite Q.
  eexists. split; [reflexivity|]. split; [reflexivity|]. split; [|split].
  - eapply stable_trans; [apply (add_frame_stable FRpoe i)|].
    eapply stable_trans; [|apply add_frame_stable]. eapply stable_trans; [|apply add_frame_stable].
    eapply (stable_push i).
    eapply stable_trans; [apply count_remove_stable|].
    eapply stable_trans; [apply (alloc_stable (mkobj c [FRpoe; FRemover] (OSite 3000) None))|].
    apply add_log_stable.
  - heap_tac.
  - cbn. unfold cls_of, tb_of. cbn. rewrite !upd_same. reflexivity.
Qed.

(* a BaseException that is not an Exception is not caught by the helper: nothing is removed, nothing is
   logged, and it comes out unchanged *)
Lemma rpoe_base_exception_passes : forall rm wf st i,
  isexc (cls_of st i) = false ->
  exists st', rpoe_exit rm wf st (Raised i) = (st', Raised i) /\
              removed st' = removed st /\ tb_of st' i = tb_of st i /\ stable st st' /\ logs st' = logs st.
Proof.
  intros rm wf st i E. unfold rpoe_exit. unfold gen_rpoe_catch.
  assert (E' : isexc (cls_of (add_frame FRpoe i st) i) = false).
  { unfold cls_of, add_frame, set_tb. cbn. rewrite upd_same. exact E. }
  rewrite E'. eexists. split; [reflexivity|]. split; [reflexivity|]. split; [apply tb_of_set_tb|].
  split; [|reflexivity].
  eapply stable_trans; [apply (add_frame_stable FRpoe i)|apply set_tb_stable].
Qed.

Lemma rpoe_no_exception : forall rm wf st, rpoe_exit rm wf st Normal = (st, Normal).
Proof. reflexivity. Qed.

(* ------------------------------------------------------------------ raise_with_cause *)

(* no cause keyword: the cause (attribute and __cause__) is the exception being handled, if any; the
   object raised is a new one of the requested class *)
Lemma rwc_cause_lemma : forall c wf st,
  exists st', rwc c None wf st = (st', Raised (next st)) /\ stable st st' /\
              ecls (heap st' (next st)) = c /\ eorg (heap st' (next st)) = ONew /\
              ecause (heap st' (next st)) = hd_error (hstack st) /\
              rwc_dunder_cause st' (next st) = hd_error (hstack st).
Proof.
  intros c wf st. unfold rwc. change gen_rwc_cause_from_active with true. cbn -[alloc].
  eexists. split; [reflexivity|]. split; [apply alloc_stable|].
  unfold rwc_dunder_cause. change gen_rwc_raise_from_cause with true. cbn. rewrite !upd_same. cbn. auto.
Qed.
Lemma rwc_given_lemma : forall c g wf st,
  exists st', rwc c (Some g) wf st = (st', Raised (next st)) /\ stable st st' /\
              ecls (heap st' (next st)) = c /\ ecause (heap st' (next st)) = g /\
              rwc_dunder_cause st' (next st) = g.
Proof.
  intros c g wf st. unfold rwc. cbn -[alloc].
  eexists. split; [reflexivity|]. split; [apply alloc_stable|].
  unfold rwc_dunder_cause. change gen_rwc_raise_from_cause with true. cbn. rewrite !upd_same. cbn. auto.
Qed.

(* ------------------------------------------------------------------ non-vacuity: instances of the hypotheses *)

(* try: raise K (caught); ctx.reraise = False; with nested: pass (caught); ctx.reraise = True *)
Definition ex_body : body :=
  Seq (Try (RaiseNew mand_cls 0 10) (SetReraise false))
      (Seq (Try (Nested true 11 Noop) Noop) (SetReraise true)).

Example sare_normal_exit_example :
  hstack (handling_orig mand_cls) = [0] /\ 0 < next (handling_orig mand_cls) /\ direct_free0 ex_body = true /\
  exists s3 st3 out', with_sare false 2 (FProg 2) (fun s st => exec ex_body s st) (handling_orig mand_cls)
                      = (s3, st3, Normal, out') /\ reraise s3 = true /\ out' = Raised 0.
Proof.
  split; [reflexivity|]. split; [cbn; lia|]. split; [reflexivity|].
  eexists. eexists. eexists. split; [vm_compute; reflexivity|]. split; reflexivity.
Qed.

Example sare_body_raises_example :
  exists s3 st3 out', with_sare true 2 (FProg 2) (fun s st => exec (Seq ex_body (RaiseNew plain_cls 1 20)) s st)
                                (handling_orig mand_cls) = (s3, st3, Raised 2, out') /\ out' = Raised 2 /\
                      length (logs st3) = 1.
Proof. eexists. eexists. eexists. split; [vm_compute; reflexivity|]. split; reflexivity. Qed.

Example sare_direct_protocol_example :
  exists s' st', exec (Direct true (Seq (CaptureDirect 2) (Seq ex_body (ForceReraise 3)))) (sare_blank 0)
                      (handling_orig plain_cls) = (s', st', Raised 0).
Proof. eexists. eexists. vm_compute. reflexivity. Qed.

Definition ex_pred : predspec :=
  mkpred (fun oc => match oc with Some c => if ctor0 c then PTruthy else PFalsy | None => PRaise end) plain_cls 1002 [].
Example filter_example_suppressed :
  exists s st, exec (Filter ex_pred 2 (RaiseNew plain_cls 0 10)) (sare_blank 0) st0 = (s, st, Normal).
Proof. eexists. eexists. vm_compute. reflexivity. Qed.
Example filter_example_propagated :
  exists s st, exec (Filter ex_pred 2 (RaiseNew mand_cls 0 10)) (sare_blank 0) st0 = (s, st, Raised 0).
Proof. eexists. eexists. vm_compute. reflexivity. Qed.
Example rpoe_example :
  isexc (cls_of (handling_orig plain_cls) 0) = true /\ 0 < next (handling_orig plain_cls) /\
  isexc (cls_of (handling_orig (mkcls 2 true false true)) 0) = false.
Proof. split; [reflexivity|]. split; [cbn; lia|reflexivity]. Qed.

(* ------------------------------------------------------------------ the original traceback is never lost (all bodies) *)

Definition tb_suffix (T t : list frame) : Prop := exists pre, t = pre ++ T.
(* object o still carries T at the end of its traceback, and so does whatever context s saved for it *)
Definition keeps (o : nat) (T : list frame) (s : sare) (st : state) : Prop :=
  tb_suffix T (tb_of st o) /\ (value s = Some o -> tb_suffix T (tb s)).

Lemma tb_suffix_refl : forall T, tb_suffix T T.
Proof. intro T. exists []. reflexivity. Qed.
Lemma tb_suffix_cons : forall T t f, tb_suffix T t -> tb_suffix T (f :: t).
Proof. intros T t f [pre H]. exists (f :: pre). rewrite H. reflexivity. Qed.

Lemma tb_of_set_tb_other : forall i t st j, j <> i -> tb_of (set_tb i t st) j = tb_of st j.
Proof. intros. unfold tb_of, set_tb. cbn. rewrite upd_other by assumption. reflexivity. Qed.
Lemma tb_of_alloc_old : forall x st o, o < next st -> tb_of (fst (alloc x st)) o = tb_of st o.
Proof. intros. unfold tb_of, alloc. cbn. rewrite upd_other by lia. reflexivity. Qed.

Lemma add_frame_suffix : forall T f i st o, tb_suffix T (tb_of st o) -> tb_suffix T (tb_of (add_frame f i st) o).
Proof.
  intros T f i st o H. destruct (Nat.eq_dec o i) as [->|N].
  - rewrite tb_of_add_frame. apply tb_suffix_cons. exact H.
  - rewrite tb_of_add_frame_other by assumption. exact H.
Qed.
Lemma raise_value_suffix : forall T fn i t st o,
  tb_suffix T (tb_of st o) -> (i = o -> tb_suffix T t) -> tb_suffix T (tb_of (raise_value fn i t st) o).
Proof.
  intros T fn i t st o H Ht. unfold raise_value. destruct (tb_eqb _ _).
  - apply add_frame_suffix. exact H.
  - apply add_frame_suffix. destruct (Nat.eq_dec o i) as [->|N].
    + rewrite tb_of_set_tb. apply Ht. reflexivity.
    + rewrite tb_of_set_tb_other by assumption. exact H.
Qed.
Lemma alloc_suffix : forall T x st o, o < next st -> tb_suffix T (tb_of st o) -> tb_suffix T (tb_of (fst (alloc x st)) o).
Proof. intros. rewrite tb_of_alloc_old by assumption. assumption. Qed.

Lemma force_hand_keeps : forall o T s st s' st' i,
  o < next st -> keeps o T s st -> force_hand s st = (s', st', i) -> keeps o T s' st'.
Proof.
  intros o T s st s' st' i Ho [K1 K2] H. unfold force_hand in H.
  destruct (value s) as [v|] eqn:V.
  - inversion H; subst. split; [|cbn; discriminate].
    apply raise_value_suffix; [exact K1|]. intros ->. apply K2. reflexivity.
  - destruct (type_ s) as [c|].
    + destruct (ctor0 c); inversion H; subst.
      * split; [|cbn; discriminate].
        apply raise_value_suffix; [apply (alloc_suffix T (mkobj c [] ONew None)); assumption|].
        intro E. cbn in Ho. lia.
      * split; [|cbn; discriminate]. apply (alloc_suffix T (mkobj cls_type [FHelper FnForce KCtor] ONew None)); assumption.
    + inversion H; subst. split.
      * apply (alloc_suffix T (mkobj cls_runtime [FHelper FnForce KRt] ONew None)); assumption.
      * rewrite V. discriminate.
Qed.

Lemma capture_hand_keeps : forall o T chk s st s' st' r,
  o < next st -> keeps o T s st -> capture_hand chk s st = (s', st', r) -> keeps o T s' st'.
Proof.
  intros o T chk s st s' st' r Ho [K1 K2] H. unfold capture_hand in H.
  destruct (hstack st) as [|i rest].
  - destruct chk; inversion H; subst.
    + split; [apply (alloc_suffix T (mkobj cls_runtime [FHelper FnCapture KRt] ONew None)); assumption|exact K2].
    + split; [exact K1|cbn; discriminate].
  - inversion H; subst. split; [exact K1|]. cbn. intro E. inversion E; subst. exact K1.
Qed.

Lemma exit_hand_keeps : forall o T wf s st out s' st' out',
  o < next st -> keeps o T s st -> exit_hand wf s st out = (s', st', out') -> keeps o T s' st'.
Proof.
  intros o T wf s st out s' st' out' Ho K H. unfold exit_hand in H. destruct out as [|i].
  - destruct (reraise s).
    + destruct (force_hand s st) as [[s1 st1] j] eqn:F. inversion H; subst.
      destruct (force_hand_keeps _ _ _ _ _ _ _ Ho K F) as [K1 K2].
      split; [apply add_frame_suffix, add_frame_suffix; exact K1|exact K2].
    + inversion H; subst. exact K.
  - destruct K as [K1 K2]. destruct (reraise s); inversion H; subst; split; assumption.
Qed.

Lemma keeps_state_only : forall o T s s' st, keeps o T s st -> (value s' = Some o -> tb_suffix T (tb s')) -> keeps o T s' st.
Proof. intros o T s s' st [K1 _] H. split; assumption. Qed.

Lemma with_same_keeps : forall o T wf block s st s3 st3 ob out,
  (forall s st s' st' x, o < next st -> keeps o T s st -> block s st = (s', st', x) -> keeps o T s' st' /\ stable st st') ->
  o < next st -> keeps o T s st ->
  with_same wf block s st = (s3, st3, ob, out) -> keeps o T s3 st3.
Proof.
  intros o T wf block s st s3 st3 ob out HB Ho K H. unfold with_same in H.
  unfold sare_enter in H. rewrite capture_equiv in H.
  destruct (capture_hand gen_enter_check s st) as [[s1 st1] r] eqn:C.
  pose proof (capture_hand_keeps _ _ _ _ _ _ _ _ Ho K C) as K1.
  pose proof (capture_hand_stable _ _ _ _ _ _ C) as [N1 _].
  destruct r as [j|].
  - inversion H; subst. destruct K1 as [A B]. split; [apply add_frame_suffix, add_frame_suffix; exact A|exact B].
  - destruct (block s1 st1) as [[s2 st2] o2] eqn:B.
    assert (Ho1 : o < next st1) by lia.
    destruct (HB _ _ _ _ _ Ho1 K1 B) as [K2 [N2 _]].
    rewrite exit_equiv in H.
    destruct (exit_hand wf s2 st2 o2) as [[s4 st4] o4] eqn:X. inversion H; subst.
    eapply exit_hand_keeps; [|exact K2|exact X]. lia.
Qed.
Lemma with_sare_keeps : forall o T r0 lab wf block st s3 st3 ob out s,
  (forall s st s' st' x, o < next st -> keeps o T s st -> block s st = (s', st', x) -> keeps o T s' st' /\ stable st st') ->
  o < next st -> keeps o T s st ->
  with_sare r0 lab wf block st = (s3, st3, ob, out) -> keeps o T s3 st3.
Proof.
  intros o T r0 lab wf block st s3 st3 ob out s HB Ho K H.
  eapply (with_same_keeps o T); [exact HB|exact Ho| |exact H].
  destruct K as [K1 _]. split; [exact K1|cbn; discriminate].
Qed.

Lemma keeps_push : forall o T s st i, keeps o T s st -> keeps o T s (push i st).
Proof. intros o T s st i K. exact K. Qed.
Lemma keeps_pop : forall o T s st, keeps o T s st -> keeps o T s (pop st).
Proof. intros o T s st K. exact K. Qed.

(* Whatever the body does — K13 misuse included — an existing exception object never loses the traceback it
   had: T stays a suffix of o's traceback, and of the traceback any context saved for o.  Induction, no bound. *)
Lemma exec_keeps_traceback : forall b o T s st s' st' out,
  tamper_free b = true ->
  o < next st -> keeps o T s st -> exec b s st = (s', st', out) -> keeps o T s' st'.
Proof.
  induction b as [|c k|c k l|v|a IHa b IHb|a IHa h IHh|r0 l b IHb|r0 b IHb|l|l|p l b IHb|p a l|l b IHb|];
    intros o T s st s' st' out TF Ho K H; cbn [exec] in H; cbn [tamper_free] in TF; try discriminate.
  all: try (apply andb_true_iff in TF; destruct TF as [TFa TFb]).
  - inversion H; subst. exact K.
  - inversion H; subst. destruct K as [K1 K2]. split; [|exact K2].
    apply (alloc_suffix T (mkobj c (FProg 1 :: FOrig :: pre_tb k) (OSite 0) None)); assumption.
  - inversion H; subst. destruct K as [K1 K2]. split; [|exact K2].
    apply (alloc_suffix T (mkobj c (FProg l :: pre_tb k) (OSite l) None)); assumption.
  - inversion H; subst. exact K.
  - destruct (exec a s st) as [[s1 st1] o1] eqn:A.
    pose proof (IHa _ _ _ _ _ _ _ TFa Ho K A) as K1. pose proof (exec_stable _ _ _ _ _ _ A) as [N1 _].
    destruct o1.
    + eapply IHb; [exact TFb| |exact K1|exact H]. lia.
    + inversion H; subst. exact K1.
  - destruct (exec a s st) as [[s1 st1] o1] eqn:A.
    pose proof (IHa _ _ _ _ _ _ _ TFa Ho K A) as K1. pose proof (exec_stable _ _ _ _ _ _ A) as [N1 _].
    destruct o1 as [|i].
    + inversion H; subst. exact K1.
    + destruct (exec h s1 (push i st1)) as [[s2 st2] o2] eqn:B. inversion H; subst.
      apply keeps_pop. eapply IHh; [exact TFb| |apply keeps_push; exact K1|exact B]. cbn. lia.
  - destruct (with_sare r0 l (FProg l) (fun s' st' => exec b s' st') st) as [[[s3 st3] ob] o3] eqn:W.
    inversion H; subst.
    assert (K3 : keeps o T s3 st').
    { eapply (with_sare_keeps o T); [|exact Ho|exact K|exact W].
      intros s0 st0 s0' st0' x Ho0 K0 E. split; [eapply IHb; eassumption|eapply exec_stable; eassumption]. }
    destruct K as [_ K2]. destruct K3 as [K31 _]. split; assumption.
  - destruct (exec b (sare_new r0 2 st) st) as [[s1 st1] o1] eqn:B. inversion H; subst.
    assert (K0 : keeps o T (sare_new r0 2 st) st) by (destruct K as [K1 _]; split; [exact K1|cbn; discriminate]).
    destruct (IHb _ _ _ _ _ _ _ TF Ho K0 B) as [A _]. destruct K as [_ K2]. split; assumption.
  - rewrite do_force_equiv in H. destruct (force_hand s st) as [[s1 st1] i] eqn:F. inversion H; subst.
    destruct (force_hand_keeps _ _ _ _ _ _ _ Ho K F) as [A B]. split; [apply add_frame_suffix; exact A|exact B].
  - unfold do_capture_stmt in H. rewrite capture_equiv in H.
    destruct (capture_hand gen_capture_default_check s st) as [[s1 st1] r] eqn:C.
    destruct (capture_hand_keeps _ _ _ _ _ _ _ _ Ho K C) as [A B].
    destruct r; inversion H; subst; split; try assumption. apply add_frame_suffix; exact A.
  - destruct (exec b s st) as [[s1 st1] o1] eqn:B.
    pose proof (IHb _ _ _ _ _ _ _ TF Ho K B) as [A1 A2]. pose proof (exec_stable _ _ _ _ _ _ B) as [N1 _].
    rewrite filt_exit_equiv in H. unfold filt_exit_hand in H.
    destruct o1 as [|i]; [inversion H; subst; split; assumption|].
    destruct (pv p _); inversion H; subst; try (split; assumption).
    + split; [|exact A2]. apply add_frame_suffix. apply (alloc_suffix T (pred_exc p FnFiltExit)); [lia|exact A1].
    + split; [|exact A2]. apply add_frame_suffix, add_frame_suffix, add_frame_suffix. exact A1.
  - destruct K as [K1 K2].
    assert (A : exists st1 x, next st <= next st1 /\ tb_suffix T (tb_of st1 o) /\
        match do_filt_call p x s st1 with
        | (st2, Some j) => (s, add_frame (FProg l) j st2, Raised j)
        | (st2, None) => (s, st2, Normal)
        end = (s', st', out)).
    { destruct a as [|c m| |i|c m].
      - exists st, (hd_error (hstack st)). split; [lia|]. split; [exact K1|exact H].
      - exists (fst (alloc (mkobj c [] (OSite m) None) st)), (Some (next st)).
        split; [cbn; lia|]. split; [apply alloc_suffix; assumption|exact H].
      - exists st, None. split; [lia|]. split; [exact K1|exact H].
      - exists st, (Some i). split; [lia|]. split; [exact K1|exact H].
      - exists (fst (alloc (mkobj c [FPre] (OSite m) None) st)), (Some (next st)).
        split; [cbn; lia|]. split; [apply alloc_suffix; assumption|exact H]. }
    destruct A as [st1 [x [N1 [S1 A]]]]. rewrite filt_call_equiv in A. unfold filt_call_hand in A.
    assert (Ho1 : o < next st1) by lia.
    destruct (pv p _).
    + destruct (opt_nat_eqb _ _).
      * destruct (hd_error (hstack st1)) as [i|]; inversion A; subst; split; try exact K2.
        -- apply add_frame_suffix, raise_value_suffix; [exact S1|]. intros ->. exact S1.
        -- apply add_frame_suffix. apply (alloc_suffix T (mkobj cls_type [FHelper FnFiltCall KCtor] ONew None)); assumption.
      * destruct x as [i|]; inversion A; subst; split; try exact K2.
        -- apply add_frame_suffix, add_frame_suffix. exact S1.
        -- apply add_frame_suffix. apply (alloc_suffix T (mkobj cls_type [FHelper FnFiltCall KVal] ONew None)); assumption.
    + inversion A; subst. split; [exact S1|exact K2].
    + inversion A; subst. split; [|exact K2].
      apply add_frame_suffix. apply (alloc_suffix T (pred_exc p FnFiltCall)); assumption.
    + destruct x as [i|]; inversion A; subst; split; try exact K2.
      * apply add_frame_suffix, add_frame_suffix, add_frame_suffix. exact S1.
      * apply add_frame_suffix. apply (alloc_suffix T (mkobj cls_type _ ONew None)); assumption.
  - destruct (with_same (FProg l) (fun s' st' => exec b s' st') s st) as [[[s3 st3] ob] o3] eqn:W.
    inversion H; subst.
    eapply (with_same_keeps o T); [|exact Ho|exact K|exact W].
    intros s0 st0 s0' st0' x Ho0 K0 E. split; [eapply IHb; eassumption|eapply exec_stable; eassumption].
Qed.

(* ------------------------------------------------------------------ the context object used again after its with block *)

(* what force_reraise() does on a context that still holds o with traceback T0 *)
Lemma do_force_saved : forall wf s st o,
  value s = Some o ->
  exists s' st', do_force wf s st = (s', st', Raised o) /\ stable st st' /\
                 exists k, (k = KVal \/ k = KWtb) /\ tb_of st' o = wf :: FHelper FnForce k :: tb s.
Proof.
  intros wf s st o V. rewrite do_force_equiv. unfold force_hand. rewrite V.
  eexists. eexists. split; [reflexivity|]. split.
  - eapply stable_trans; [apply raise_value_stable|apply add_frame_stable].
  - destruct (raise_value_tb FnForce o (tb s) st) as [k [Hk Tk]]. exists k. split; [exact Hk|].
    rewrite tb_of_add_frame, Tk. reflexivity.
Qed.

(* with ctx: body  ends normally with the flag off (nothing raised); a later ctx.force_reraise() raises the
   exception saved on entry: same object, traceback = the one captured on entry plus the two frames *)
Lemma sare_post_block_force_lemma : forall r0 lab wf wf' b st o rest s3 st3,
  hstack st = o :: rest -> o < next st -> direct_free0 b = true ->
  with_sare r0 lab wf (fun s st => exec b s st) st = (s3, st3, Normal, Normal) ->
  exists s' st', do_force wf' s3 st3 = (s', st', Raised o) /\ same_object st st' o /\
                 exists k, (k = KVal \/ k = KWtb) /\ tb_of st' o = wf' :: FHelper FnForce k :: tb_of st o.
Proof.
  intros r0 lab wf wf' b st o rest s3 st3 HS Ho D W.
  rewrite (with_sare_unfold _ _ _ _ _ _ _ HS) in W.
  destruct (exec b (entered r0 lab st o) st) as [[s2 st2] ob] eqn:E.
  unfold exit_hand in W. destruct ob as [|x]; [|inversion W].
  destruct (reraise s2) eqn:F.
  - destruct (force_hand s2 st2) as [[sa sta] j]. inversion W.
  - inversion W; subst. clear W.
    pose proof (exec_keeps_capture _ _ _ _ _ _ D E) as [_ [Hv [Hb _]]]. cbn in Hv, Hb.
    destruct (do_force_saved wf' s3 st3 o Hv) as [s' [st' [Q [S [k [Hk Tk]]]]]].
    exists s', st'. split; [exact Q|]. split.
    + apply stable_same_object; [|exact Ho]. eapply stable_trans; [exact (exec_stable _ _ _ _ _ _ E)|exact S].
    + exists k. split; [exact Hk|]. rewrite Tk, Hb. reflexivity.
Qed.

(* the block raised (its exception propagated out of the with statement and was handled by the caller);
   a later ctx.force_reraise() still raises the exception saved on entry *)
Lemma sare_post_raise_force_lemma : forall r0 lab wf wf' b st o rest s3 st3 x out',
  hstack st = o :: rest -> o < next st -> direct_free0 b = true ->
  with_sare r0 lab wf (fun s st => exec b s st) st = (s3, st3, Raised x, out') ->
  exists s' st', do_force wf' s3 (pop (push x st3)) = (s', st', Raised o) /\ same_object st st' o /\
                 exists k, (k = KVal \/ k = KWtb) /\ tb_of st' o = wf' :: FHelper FnForce k :: tb_of st o.
Proof.
  intros r0 lab wf wf' b st o rest s3 st3 x out' HS Ho D W. rewrite pop_push.
  destruct (sare_body_raises_lemma _ _ _ _ _ _ _ _ _ _ _ HS W) as [st2 [E [_ [_ HD]]]].
  destruct (HD D) as [_ [_ [Hv Hb]]].
  destruct (do_force_saved wf' s3 st3 o Hv) as [s' [st' [Q [S [k [Hk Tk]]]]]].
  exists s', st'. split; [exact Q|]. split.
  - apply stable_same_object; [|exact Ho].
    eapply stable_trans; [|exact S].
    eapply with_sare_stable; [|exact W]. intros; eapply exec_stable; eassumption.
  - exists k. split; [exact Hk|]. rewrite Tk, Hb. reflexivity.
Qed.

(* ctx.capture(); ctx.force_reraise() on ANY context (fresh, or re-used after a with block with any body and
   any outcome) while o is being handled: o is raised, the same object, its traceback just extended *)
Lemma capture_then_force_lemma : forall wfc wf s st o rest,
  hstack st = o :: rest ->
  exists s1 s' st', do_capture_stmt wfc s st = (s1, st, Normal) /\
                    do_force wf s1 st = (s', st', Raised o) /\ stable st st' /\
                    tb_of st' o = wf :: FHelper FnForce KVal :: tb_of st o.
Proof.
  intros wfc wf s st o rest HS. unfold do_capture_stmt. rewrite capture_equiv. unfold capture_hand. rewrite HS.
  eexists. eexists. eexists. split; [reflexivity|]. rewrite do_force_equiv. unfold force_hand. cbn [value tb].
  split; [reflexivity|]. split.
  - eapply stable_trans; [apply raise_value_stable|apply add_frame_stable].
  - rewrite tb_of_add_frame. unfold raise_value. rewrite tb_eqb_refl, tb_of_add_frame. reflexivity.
Qed.

(* re-use after a with block, whatever its body (K13 misuse included) and outcome: the original traceback T
   is still at the end of what comes out *)
Lemma sare_post_capture_force_lemma : forall r0 lab wf wfc wf' b st o rest s3 st3 ob out' T,
  tamper_free b = true ->
  hstack st = o :: rest -> o < next st -> tb_suffix T (tb_of st o) ->
  with_sare r0 lab wf (fun s st => exec b s st) st = (s3, st3, ob, out') ->
  exists s1 s' st', do_capture_stmt wfc s3 st3 = (s1, st3, Normal) /\
                    do_force wf' s1 st3 = (s', st', Raised o) /\ same_object st st' o /\
                    tb_suffix T (tb_of st' o).
Proof.
  intros r0 lab wf wfc wf' b st o rest s3 st3 ob out' T TF HS Ho HT W.
  assert (S3 : stable st st3) by (eapply with_sare_stable; [|exact W]; intros; eapply exec_stable; eassumption).
  assert (HS3 : hstack st3 = o :: rest) by (destruct S3 as [_ [H _]]; congruence).
  assert (K3 : keeps o T s3 st3).
  { eapply (with_sare_keeps o T _ _ _ _ _ _ _ _ _ (sare_blank 0)); [|exact Ho| |exact W].
    - intros s0 st0 s0' st0' x Ho0 K0 E.
      split; [eapply exec_keeps_traceback; [exact TF|exact Ho0|exact K0|exact E]|eapply exec_stable; eassumption].
    - split; [exact HT|cbn; discriminate]. }
  destruct (capture_then_force_lemma wfc wf' s3 st3 o rest HS3) as [s1 [s' [st' [C [F [S Tb]]]]]].
  exists s1, s', st'. split; [exact C|]. split; [exact F|]. split.
  - apply stable_same_object; [|exact Ho]. eapply stable_trans; eassumption.
  - rewrite Tb. apply tb_suffix_cons, tb_suffix_cons. destruct K3 as [A _]. exact A.
Qed.

Example sare_post_block_example :
  exists s3 st3, with_sare false 2 (FProg 2) (fun s st => exec (Try (RaiseNew mand_cls 0 10) Noop) s st)
                           (handling_orig mand_cls) = (s3, st3, Normal, Normal).
Proof. eexists. eexists. vm_compute. reflexivity. Qed.


(* ------------------------------------------------------------------ tampering with __traceback__ *)

(* the body sets the handled exception's __traceback__ to None and re-raises it elsewhere; the with statement
   still re-raises it with exactly the traceback captured on entry (this is what with_traceback(self.tb) is for) *)
Definition tamper_body : body := Seq Tamper (Try (FilterCall nopred ACur 12) Noop).
Example tamper_example :
  direct_free0 tamper_body = true /\ tamper_free tamper_body = false /\
  exists s3 st3, with_sare true 2 (FProg 2) (fun s st => exec tamper_body s st) (handling_orig plain_cls)
                 = (s3, st3, Normal, Raised 0) /\
                 tb_of st3 0 = FProg 2 :: FHelper FnExit KCall :: FHelper FnForce KWtb :: tb_of (handling_orig plain_cls) 0.
Proof.
  split; [reflexivity|]. split; [reflexivity|]. eexists. eexists. split; vm_compute; reflexivity.
Qed.

(* two instances of a class with a bound-method filter: each gets its own predicate *)
Lemma filter_get_instances_lemma : forall (O : Type) (upred : O -> predspec) (o1 o2 : O),
  filt_get upred o1 = upred o1 /\ filt_get upred o2 = upred o2.
Proof. intros. split; reflexivity. Qed.

(* a stored exception (raised and caught elsewhere, so it carries traceback [FPre]) handed to the filter while it is NOT
   the exception being handled — no active exception, or inside an unrelated except block: rejected -> that same
   object, its own traceback kept and extended by the two frames of the call (never the active exception's) *)
Lemma filter_call_stored_lemma : forall p l s st c m,
  pv p (Some c) = PFalsy ->
  exists st', exec (FilterCall p (AStored c m) l) s st = (s, st', Raised (next st)) /\ stable st st' /\
              ecls (heap st' (next st)) = c /\ eorg (heap st' (next st)) = OSite m /\
              tb_of st' (next st) = [FProg l; FHelper FnFiltCall KVal; FPre].
Proof.
  intros p l s st c m V. cbn [exec]. cbn [alloc]. rewrite filt_call_equiv. unfold filt_call_hand. cbn [option_map].
  assert (C : cls_of (fst (alloc (mkobj c [FPre] (OSite m) None) st)) (next st) = c)
    by (unfold cls_of, alloc; cbn; rewrite upd_same; reflexivity).
  cbn [alloc fst] in C. rewrite C, V.
  destruct (opt_nat_eqb _ _) eqn:Q.
  - destruct (hd_error _) as [i|] eqn:Hd; cbn in Q; [|discriminate]. apply Nat.eqb_eq in Q. subst i.
    eexists. split; [reflexivity|]. split.
    + eapply stable_trans; [apply (alloc_stable (mkobj c [FPre] (OSite m) None))|].
      eapply stable_trans; [apply raise_value_stable|apply add_frame_stable].
    + unfold raise_value. rewrite tb_eqb_refl. heap_tac.
  - eexists. split; [reflexivity|]. split.
    + eapply stable_trans; [apply (alloc_stable (mkobj c [FPre] (OSite m) None))|].
      eapply stable_trans; apply add_frame_stable.
    + heap_tac.
Qed.

(* ------------------------------------------------------------------ filters of filters (exception_filter.__init__) *)

Lemma filt_init_fun_lemma : forall n p, filt_pred (filt_init (CFun n p)) = p /\ fnamed_of (filt_init (CFun n p)) = n.
Proof. intros. split; reflexivity. Qed.

(* wrapping a filter that has the wrapper attributes: update_wrapper's __dict__ merge replaces the predicate attribute by
   the inner filter's own predicate, so the doubly wrapped filter consults the REAL predicate *)
Lemma filt_init_named_filter_lemma : forall f,
  fnamed_of f = true -> filt_pred (filt_init (CFilt f)) = filt_pred f /\ fnamed_of (filt_init (CFilt f)) = true.
Proof.
  intros [c n] H. cbn in H. subst n. unfold filt_init. change gen_filt_init_order with AssignThenWrap. cbn. auto.
Qed.

(* function filter of a function filter, stacked decorators, bound method of a doubly decorated method *)
Lemma filt_double_named_lemma : forall p, filt_pred (filt_init (CFilt (filt_init (CFun true p)))) = p.
Proof. intro p. reflexivity. Qed.

(* K14: when the innermost callable lacks the wrapper attributes nothing is merged: the outer predicate is the inner
   FILTER, whose __call__ returns None for what it accepts and re-raises what it rejects *)
Lemma filt_double_unnamed_lemma : forall p, filt_pred (filt_init (CFilt (filt_init (CFun false p)))) = as_pred p.
Proof. intro p. reflexivity. Qed.

Definition filter_of_filter_full_statement : Prop :=
  forall n p x, pv (filt_pred (filt_init (CFilt (filt_init (CFun n p))))) x = pv p x.
Definition accept_all : predspec := mkpred (fun _ => PTruthy) plain_cls 1002 [].
Lemma k14_refutes : ~ filter_of_filter_full_statement.
Proof. intro H. specialize (H false accept_all None). vm_compute in H. discriminate. Qed.
(* the accepted exception is NOT suppressed by the doubly wrapped filter *)
Lemma k14_not_suppressed :
  exists s st, exec (Filter (filt_pred (filt_init (CFilt (filt_init (CFun false accept_all))))) 2 (RaiseNew plain_cls 0 10))
                    (sare_blank 0) st0 = (s, st, Raised 0).
Proof. eexists. eexists. vm_compute. reflexivity. Qed.

(* truthiness of the exception object plays no role in capture(): a falsy active exception is captured like any other *)
Definition falsy_cls := mkcls 6 true true false.
Example capture_falsy_example :
  exists s st, do_capture_stmt (FProg 2) (sare_blank 0) (handling_orig falsy_cls) = (s, st, Normal) /\ value s = Some 0.
Proof. eexists. eexists. split; vm_compute; reflexivity. Qed.
