Require Import OV.Base.C09_HL OV.Gen.C09_Excutils OV.Model.C09.
