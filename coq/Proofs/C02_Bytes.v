(* Proofs/C02_Bytes.v — slicing and decoding lemmas used by the per-format proofs of C02 *)
Require Import OV.Base.Bytes OV.Base.Py OV.Base.Insp_Struct.
Open Scope N_scope.

Lemma bslice_bsub lo hi b : bsub lo hi b = bslice lo (hi - lo) b.
Proof. reflexivity. Qed.

Lemma nsub_bslice lo hi b : nsub lo hi b = bslice lo (hi - lo) b.
Proof. rewrite nsub_bsub. reflexivity. Qed.

Lemma ntake_bslice n b : ntake n b = bslice 0 n b.
Proof. rewrite ntake_btake. unfold bslice. rewrite bskip_0. reflexivity. Qed.

Lemma bslice_bslice o l o' l' b : o' + l' <= l -> bslice o' l' (bslice o l b) = bslice (o + o') l' b.
Proof.
  intros H. unfold bslice. rewrite bskip_btake, bskip_bskip, btake_btake. f_equal. lia.
Qed.

Lemma bslice_full b n : blen b <= n -> bslice 0 n b = b.
Proof. intros H. unfold bslice. rewrite bskip_0. apply btake_all. exact H. Qed.

Lemma blen_bslice_full o l b : o + l <= blen b -> blen (bslice o l b) = l.
Proof. intros H. rewrite blen_bslice. lia. Qed.

Lemma nth_skipn {A} (n i : nat) (l : list A) d : nth i (skipn n l) d = nth (n + i) l d.
Proof.
  revert l. induction n as [|n IH]; intros l; [reflexivity|].
  destruct l as [|x l]; cbn [skipn plus nth]; [destruct i; reflexivity|apply IH].
Qed.

Lemma nth_firstn {A} (n i : nat) (l : list A) d : (i < n)%nat -> nth i (firstn n l) d = nth i l d.
Proof.
  revert i l. induction n as [|n IH]; intros i l H; [lia|].
  destruct l as [|x l]; [destruct i; reflexivity|]. destruct i as [|i]; [reflexivity|].
  cbn [firstn nth]. apply IH. lia.
Qed.

Lemma bnth_bslice o l i b : i < l -> bnth i (bslice o l b) = bnth (o + i) b.
Proof.
  intros H. unfold bnth, bslice, btake, bskip. rewrite nth_firstn by lia. rewrite nth_skipn. f_equal. lia.
Qed.

Lemma bidx_ok d i : i < blen d -> bidx d i = Ok (bnth i d).
Proof. intros H. unfold bidx. rewrite flen_blen. replace (i <? blen d) with true by lia. reflexivity. Qed.

Lemma bidx_exn d i : blen d <= i -> bidx d i = Exn IndexError.
Proof. intros H. unfold bidx. rewrite flen_blen. replace (i <? blen d) with false by lia. reflexivity. Qed.

Lemma unpack_ok f d : blen d = sf_size f -> unpack f d = Ok d.
Proof. intros H. unfold unpack. rewrite flen_blen, H, N.eqb_refl. reflexivity. Qed.

Lemma unpack_exn f d : blen d <> sf_size f -> unpack f d = Exn StructError.
Proof. intros H. unfold unpack. rewrite flen_blen. replace (blen d =? sf_size f) with false by lia. reflexivity. Qed.

(* a one-byte slice is the byte *)
Lemma bslice_one o b : o < blen b -> bslice o 1 b = [bnth o b].
Proof.
  intros H. unfold bslice, bnth, btake, bskip, blen in *.
  change (N.to_nat 1) with 1%nat.
  rewrite <- (firstn_skipn (N.to_nat o) b) at 2.
  rewrite app_nth2 by (rewrite firstn_length; lia).
  rewrite firstn_length. replace (N.to_nat o - Nat.min (N.to_nat o) (length b))%nat with 0%nat by lia.
  destruct (skipn (N.to_nat o) b) as [|x t] eqn:Hs.
  - assert (length (skipn (N.to_nat o) b) = 0%nat) by (rewrite Hs; reflexivity). rewrite skipn_length in *. lia.
  - reflexivity.
Qed.

Lemma le_val_one x : le_val [x] = x.
Proof. cbn. lia. Qed.
Lemma be_val_one x : be_val [x] = x.
Proof. unfold be_val. cbn. lia. Qed.

(* splitting a slice *)
Lemma bslice_split o l1 l2 b : bslice o (l1 + l2) b = bslice o l1 b ++ bslice (o + l1) l2 b.
Proof.
  unfold bslice. rewrite <- bskip_bskip.
  set (s := bskip o b). unfold btake, bskip.
  replace (N.to_nat (l1 + l2)) with (N.to_nat l1 + N.to_nat l2)%nat by lia.
  rewrite <- (firstn_skipn (N.to_nat l1) s) at 1.
  rewrite firstn_app, firstn_firstn.
  replace (Nat.min (N.to_nat l1 + N.to_nat l2) (N.to_nat l1)) with (N.to_nat l1) by lia.
  f_equal. rewrite firstn_length.
  destruct (Nat.le_gt_cases (N.to_nat l1) (length s)).
  - f_equal. lia.
  - rewrite skipn_all2 by lia. rewrite !firstn_nil. reflexivity.
Qed.

Lemma In_firstn' {A} n (l : list A) x : In x (firstn n l) -> In x l.
Proof.
  revert l. induction n as [|n IH]; intros l H; [destruct H|].
  destruct l as [|y l]; [destruct H|]. cbn [firstn] in H. destruct H as [->|H]; [left; reflexivity|right; auto].
Qed.
Lemma In_skipn' {A} n (l : list A) x : In x (skipn n l) -> In x l.
Proof.
  revert l. induction n as [|n IH]; intros l H; [exact H|].
  destruct l as [|y l]; [destruct H|]. cbn [skipn] in H. right. auto.
Qed.

Lemma all_bytes_bslice o l b : all_bytes b = true -> all_bytes (bslice o l b) = true.
Proof.
  unfold all_bytes, bslice, btake, bskip. intros H. apply forallb_forall. intros x Hx.
  apply (proj1 (forallb_forall _ _) H). apply In_firstn' in Hx. eapply In_skipn'. exact Hx.
Qed.

Lemma all_bytes_bnth i b : all_bytes b = true -> bnth i b < 256.
Proof.
  unfold all_bytes, bnth. intros H.
  destruct (Nat.lt_ge_cases (N.to_nat i) (length b)) as [Hl|Hl].
  - assert (Hin : In (nth (N.to_nat i) b 0) b) by (apply nth_In; exact Hl).
    apply (proj1 (forallb_forall _ _) H) in Hin. unfold is_byte in Hin. lia.
  - rewrite nth_overflow by lia. lia.
Qed.

(* le_val / be_val of a concatenation *)
Lemma le_val_app a b : le_val (a ++ b) = le_val a + 256 ^ blen a * le_val b.
Proof.
  induction a as [|x a IH]; cbn [app le_val].
  - rewrite blen_nil, N.pow_0_r. cbn [le_val]. lia.
  - rewrite IH, blen_cons. replace (1 + blen a) with (N.succ (blen a)) by lia. rewrite N.pow_succ_r'. lia.
Qed.

Lemma be_val_cons x b : be_val (x :: b) = x * 256 ^ blen b + be_val b.
Proof.
  unfold be_val. cbn [rev]. rewrite le_val_app. cbn [le_val].
  replace (blen (rev b)) with (blen b) by (unfold blen; rewrite rev_length; reflexivity). lia.
Qed.

Lemma be_val_bound b : all_bytes b = true -> be_val b < 256 ^ blen b.
Proof.
  intros H. unfold be_val.
  replace (blen b) with (blen (rev b)) by (unfold blen; rewrite rev_length; reflexivity).
  apply le_val_bound. unfold all_bytes in *. apply forallb_forall. intros x Hx. apply in_rev in Hx.
  apply (proj1 (forallb_forall _ _) H). exact Hx.
Qed.

Lemma beq_true_eq a b : beq a b = true -> a = b.
Proof. apply beq_eq. Qed.
Lemma beq_false_neq a b : beq a b = false -> a <> b.
Proof. intros H E. apply beq_eq in E. congruence. Qed.

(* prefix test against a slice *)
Lemma prefixb_bslice p o l b : blen p <= l -> prefixb p (bslice o l b) = beq (bslice o (blen p) b) p.
Proof.
  intros H. rewrite prefixb_btake. f_equal.
  change (btake (blen p) (bslice o l b)) with (bslice 0 (blen p) (bslice o l b)) at 1.
  - rewrite bslice_bslice by lia. f_equal. lia.
Qed.
