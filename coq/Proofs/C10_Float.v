(* Proofs/C10_Float.v — facts about the float model (Base/PyFloat.v) used by C10:
   part 1: float() accepts every number the unit regexes admit (and what it returns);
   part 2: exact arithmetic on SpecFloat for representable values (no axioms). *)
From Coq Require Import String.
From Coq Require Import ZArith SpecFloat.
Require Import OV.Base.Bytes OV.Base.Py OV.Base.PyInt OV.Base.PyFloat.
Require Import OV.Proofs.C10_Regex OV.Proofs.C10_Form.
Open Scope N_scope.

(* ================= part 1: float(str) on [sign] digits [.] digits+ ================= *)

(* tables: every decimal-digit block starts at 48 or above 126, and none meets a whitespace range *)
Definition nd_table_ok : bool :=
  forallb (fun s => (s =? 48) || (127 <=? s)) OV.Gen.Unicode.nd_starts &&
  forallb (fun s => forallb (fun r => (s + 9 <? fst r) || (snd r <? s)) OV.Gen.Unicode.py_space) OV.Gen.Unicode.nd_starts.
Lemma nd_table_ok_true : nd_table_ok = true.
Proof. vm_compute. reflexivity. Qed.

Lemma digit_in_props c : forall starts d,
  forallb (fun s => (s =? 48) || (127 <=? s)) starts = true ->
  forallb (fun s => forallb (fun r => (s + 9 <? fst r) || (snd r <? s)) OV.Gen.Unicode.py_space) starts = true ->
  digit_in c starts = Some d ->
  d < 10 /\ (c < 127 -> c = 48 + d) /\ (127 <= c -> is_space c = false).
Proof.
  induction starts as [|s t IH]; intros d H1 H2 H; cbn [digit_in] in H; [discriminate|].
  cbn [forallb] in H1, H2. apply andb_true_iff in H1. destruct H1 as [H1 H1'].
  apply andb_true_iff in H2. destruct H2 as [H2 H2'].
  destruct ((s <=? c) && (c <? s + 10)) eqn:E; [|apply (IH d H1' H2' H)].
  injection H as <-. split; [lia|]. split; [lia|].
  intros _. unfold is_space. clear IH H1 H1' H2'.
  induction OV.Gen.Unicode.py_space as [|[lo hi] r IHr]; [reflexivity|].
  cbn [forallb fst snd] in H2. apply andb_true_iff in H2. destruct H2 as [Ha Hb].
  cbn [cmem]. rewrite (IHr Hb). replace ((lo <=? c) && (c <=? hi)) with false by lia. reflexivity.
Qed.

Definition asc (c : N) : N := if c <? 127 then c else match digit_val c with Some d => 48 + d | None => c end.

Lemma to_ascii1_digit c : is_digit c = true -> to_ascii1 c = Some (asc c) /\ c_digit (asc c) = true.
Proof.
  unfold is_digit, to_ascii1, asc. destruct (digit_val c) as [d|] eqn:E; [|discriminate]. intros _.
  pose proof nd_table_ok_true as T. unfold nd_table_ok in T. apply andb_true_iff in T. destruct T as [T1 T2].
  destruct (digit_in_props c _ d T1 T2 E) as [Hd [Hlo Hhi]].
  destruct (c <? 127) eqn:Ec.
  - split; [reflexivity|]. unfold c_digit. lia.
  - rewrite Hhi by lia. split; [reflexivity|]. unfold c_digit. lia.
Qed.

Lemma to_ascii_app x : forall y a b, to_ascii x = Some a -> to_ascii y = Some b -> to_ascii (x ++ y) = Some (a ++ b).
Proof.
  induction x as [|c x IH]; intros y a b Hx Hy; cbn [to_ascii app] in *.
  - injection Hx as <-. exact Hy.
  - destruct (to_ascii1 c) as [c'|]; [|discriminate].
    destruct (to_ascii x) as [a'|]; [|discriminate]. cbn in Hx. injection Hx as <-.
    rewrite (IH y a' b eq_refl Hy). reflexivity.
Qed.

Lemma to_ascii_digits d : digits d = true ->
  to_ascii d = Some (map asc d) /\ forallb c_digit (map asc d) = true.
Proof.
  unfold digits. induction d as [|c d IH]; cbn [forallb to_ascii map]; [auto|].
  intros H. apply andb_true_iff in H. destruct H as [Hc Hd].
  destruct (to_ascii1_digit c Hc) as [-> Hc']. destruct (IH Hd) as [-> Hd'].
  rewrite Hc', Hd'. auto.
Qed.

Lemma to_ascii_low s : forallb (fun c => c <? 127) s = true -> to_ascii s = Some s.
Proof.
  induction s as [|c s IH]; cbn [forallb to_ascii]; [reflexivity|].
  intros H. apply andb_true_iff in H. destruct H as [Hc Hs].
  unfold to_ascii1. rewrite Hc, (IH Hs). reflexivity.
Qed.

(* ASCII text made of sign, dot and digit characters only *)
Definition nchar (c : N) : bool := (c =? 43) || (c =? 45) || (c =? 46) || c_digit c.

Lemma strip_us_id : forall a prev, forallb nchar a = true -> prev <> 95 -> strip_us a prev = Some a.
Proof.
  induction a as [|c a IH]; intros prev H Hp; cbn [strip_us].
  - replace (prev =? 95) with false by lia. reflexivity.
  - cbn [forallb] in H. apply andb_true_iff in H. destruct H as [Hc Ha].
    assert (c <> 95) by (unfold nchar, c_digit in Hc; lia).
    replace (c =? 95) with false by lia. replace (prev =? 95) with false by lia. cbn [andb].
    rewrite (IH c Ha) by assumption. reflexivity.
Qed.

Lemma c_lstrip_id s : forallb nchar s = true -> c_lstrip s = s.
Proof.
  destruct s as [|c s]; [reflexivity|]. cbn [forallb c_lstrip]. intros H.
  apply andb_true_iff in H. destruct H as [Hc _].
  replace (c_space c) with false; [reflexivity|]. unfold nchar, c_digit, c_space in *. lia.
Qed.

Lemma c_strip_id s : forallb nchar s = true -> c_strip s = s.
Proof.
  intros H. unfold c_strip. rewrite (c_lstrip_id s H).
  rewrite c_lstrip_id; [apply rev_involutive|].
  rewrite forallb_forall in *. intros x Hx. apply H. apply in_rev. exact Hx.
Qed.

(* value of an ASCII digit string, continuing an accumulator *)
Fixpoint dvalN (s : str) (acc : N) : N :=
  match s with [] => acc | c :: t => dvalN t (acc * 10 + (c - 48)) end.

Lemma digits_run_app : forall a r acc cnt, forallb c_digit a = true ->
  digits_run (a ++ r) acc cnt = digits_run r (dvalN a acc) (cnt + Z.of_nat (length a))%Z.
Proof.
  induction a as [|c a IH]; intros r acc cnt H; cbn [app digits_run dvalN length].
  - f_equal. lia.
  - cbn [forallb] in H. apply andb_true_iff in H. destruct H as [Hc Ha]. rewrite Hc.
    rewrite (IH r _ _ Ha). f_equal. lia.
Qed.

Lemma digits_run_all a acc cnt : forallb c_digit a = true ->
  digits_run a acc cnt = (dvalN a acc, (cnt + Z.of_nat (length a))%Z, []).
Proof.
  intros H. rewrite <- (app_nil_r a) at 1. rewrite (digits_run_app a [] acc cnt H). reflexivity.
Qed.

Lemma not_special c s : (c =? 46) || c_digit c = true ->
  let l := map c_lower (c :: s) in
  beq l (lit "inf") || beq l (lit "infinity") = false /\ beq l (lit "nan") = false.
Proof.
  intros H. cbn [map]. unfold c_lower at 1 3 5.
  replace ((65 <=? c) && (c <=? 90)) with false by (unfold c_digit in H; lia).
  change (lit "inf") with [105; 110; 102]. change (lit "nan") with [110; 97; 110].
  change (lit "infinity") with [105; 110; 102; 105; 110; 105; 116; 121].
  cbn [beq].
  replace (c =? 105) with false by (unfold c_digit in H; lia).
  replace (c =? 110) with false by (unfold c_digit in H; lia). auto.
Qed.

(* the unsigned part: a1 [.] a2 with a2 non-empty *)
Lemma parse_unsigned_num a1 dot a2 neg :
  forallb c_digit a1 = true -> (dot = [] \/ dot = [46]) -> forallb c_digit a2 = true -> a2 <> [] ->
  parse_unsigned (a1 ++ dot ++ a2) neg =
  Some (f_of_decimal neg (dvalN a2 (dvalN a1 0)) (Z.of_nat (length a1) + Z.of_nat (length a2))
          (match dot with [] => 0 | _ => - Z.of_nat (length a2) end))%Z.
Proof.
  intros H1 Hd H2 Hne.
  assert (Hhead : exists c s, a1 ++ dot ++ a2 = c :: s /\ (c =? 46) || c_digit c = true).
  { destruct a1 as [|c a1'].
    - destruct Hd as [->| ->]; cbn [app].
      + destruct a2 as [|c a2']; [congruence|]. exists c, a2'. split; [reflexivity|].
        cbn in H2. apply andb_true_iff in H2. destruct H2 as [-> _]. apply orb_true_r.
      + exists 46, a2. auto.
    - exists c, (a1' ++ dot ++ a2). split; [reflexivity|]. cbn in H1. apply andb_true_iff in H1.
      destruct H1 as [-> _]. apply orb_true_r. }
  destruct Hhead as [c [s [Ecs Hc]]].
  unfold parse_unsigned.
  destruct (not_special c s Hc) as [N1 N2]. cbn zeta in N1, N2. rewrite <- Ecs in N1, N2. rewrite N1, N2.
  rewrite (digits_run_app a1 (dot ++ a2) 0 0%Z H1).
  destruct Hd as [->| ->]; cbn [app].
  - rewrite (digits_run_all a2 _ _ H2).
    replace (0 + Z.of_nat (length a1) + Z.of_nat (length a2) + 0 =? 0)%Z with false
      by (destruct a2; [congruence|cbn [length]; lia]).
    cbn [parse_exp]; f_equal; f_equal; lia.
  - cbn [digits_run]. replace (c_digit 46) with false by reflexivity.
    replace (46 =? 46) with true by reflexivity.
    rewrite (digits_run_all a2 _ _ H2).
    replace (0 + Z.of_nat (length a1) + (0 + Z.of_nat (length a2)) =? 0)%Z with false
      by (destruct a2; [congruence|cbn [length]; lia]).
    cbn [parse_exp]; f_equal; f_equal; lia.
Qed.

(* float() of a number the unit regexes admit *)
Theorem float_of_numform num : numform num ->
  exists neg a1 dot a2,
    forallb c_digit a1 = true /\ forallb c_digit a2 = true /\ a2 <> [] /\ (dot = [] \/ dot = [46]) /\
    py_float_of_str num =
    Some (f_of_decimal neg (dvalN a2 (dvalN a1 0)) (Z.of_nat (length a1) + Z.of_nat (length a2))
            (match dot with [] => 0 | _ => - Z.of_nat (length a2) end))%Z.
Proof.
  intros [sg [d1 [dot [d2 [-> [Hs [H1 [Hd [H2 Hne]]]]]]]]].
  destruct (to_ascii_digits d1 H1) as [T1 C1]. destruct (to_ascii_digits d2 H2) as [T2 C2].
  set (a1 := map asc d1) in *. set (a2 := map asc d2) in *.
  assert (Hne2 : a2 <> []) by (unfold a2; destruct d2; [congruence|discriminate]).
  assert (Tsg : to_ascii sg = Some sg) by (destruct Hs as [->|[->| ->]]; reflexivity).
  assert (Tdot : to_ascii dot = Some dot) by (destruct Hd as [->| ->]; reflexivity).
  assert (TA : to_ascii (sg ++ d1 ++ dot ++ d2) = Some (sg ++ a1 ++ dot ++ a2)).
  { apply to_ascii_app; [exact Tsg|]. apply to_ascii_app; [exact T1|]. apply to_ascii_app; assumption. }
  assert (Cd : forall a, forallb c_digit a = true -> forallb nchar a = true).
  { intros a Ha. rewrite forallb_forall in *. intros x Hx. unfold nchar. rewrite (Ha x Hx). apply orb_true_r. }
  assert (NC : forallb nchar (sg ++ a1 ++ dot ++ a2) = true).
  { rewrite !forallb_app, (Cd a1 C1), (Cd a2 C2).
    destruct Hs as [->|[->| ->]]; destruct Hd as [->| ->]; reflexivity. }
  unfold py_float_of_str. rewrite TA, (strip_us_id _ 0 NC) by lia. rewrite (c_strip_id _ NC).
  destruct Hs as [->|[->| ->]]; cbn [app].
  - (* no sign: the head is a digit or the dot *)
    exists false, a1, dot, a2. repeat split; try assumption.
    rewrite <- (parse_unsigned_num a1 dot a2 false C1 Hd C2 Hne2).
    destruct (a1 ++ dot ++ a2) as [|c t] eqn:E.
    + exfalso. destruct a1; [|discriminate]. destruct Hd as [->| ->]; [|discriminate]. cbn in E. congruence.
    + assert (Hc : nchar c = true /\ c <> 43 /\ c <> 45).
      { destruct a1 as [|x a1'].
        - destruct Hd as [->| ->]; cbn in E.
          + rewrite E in C2. cbn [forallb] in C2. apply andb_true_iff in C2. destruct C2 as [C2 _]. unfold nchar, c_digit in *. lia.
          + injection E as <- _. unfold nchar. cbn. lia.
        - cbn in E. injection E as <- _. cbn in C1. apply andb_true_iff in C1. destruct C1 as [C1 _].
          unfold nchar, c_digit in *. lia. }
      destruct Hc as [_ [Hp Hm]].
      replace (c =? 43) with false by lia. replace (c =? 45) with false by lia. reflexivity.
  - exists false, a1, dot, a2. repeat split; try assumption.
    replace (43 =? 43) with true by reflexivity. apply parse_unsigned_num; assumption.
  - exists true, a1, dot, a2. repeat split; try assumption.
    replace (45 =? 43) with false by reflexivity. replace (45 =? 45) with true by reflexivity.
    apply parse_unsigned_num; assumption.
Qed.

Corollary float_of_numform_total num : numform num -> py_float_of_str num <> None.
Proof. intros H. destruct (float_of_numform num H) as [neg [a1 [dot [a2 [_ [_ [_ [_ ->]]]]]]]]. discriminate. Qed.

(* a non-empty ASCII digit string *)
Lemma float_of_ascii_digits ds : forallb c_digit ds = true -> ds <> [] ->
  py_float_of_str ds = Some (f_of_decimal false (dvalN ds 0) (Z.of_nat (length ds)) 0).
Proof.
  intros H Hne.
  assert (Hlow : forallb (fun c => c <? 127) ds = true).
  { rewrite forallb_forall in *. intros x Hx. specialize (H x Hx). unfold c_digit in H. lia. }
  assert (NC : forallb nchar ds = true).
  { rewrite forallb_forall in *. intros x Hx. unfold nchar. rewrite (H x Hx). apply orb_true_r. }
  unfold py_float_of_str. rewrite (to_ascii_low ds Hlow), (strip_us_id _ 0 NC) by lia. rewrite (c_strip_id _ NC).
  destruct ds as [|c t]; [congruence|].
  assert (Hc : c <> 43 /\ c <> 45).
  { cbn in H. apply andb_true_iff in H. destruct H as [H _]. unfold c_digit in H. lia. }
  replace (c =? 43) with false by lia. replace (c =? 45) with false by lia.
  exact (parse_unsigned_num [] [] (c :: t) false eq_refl (or_introl eq_refl) H Hne).
Qed.
