(* Proofs/C10_Float.v — facts about the float model (Base/PyFloat.v) used by C10:
   part 1: float() accepts every number the unit regexes admit (and what it returns);
   part 2: exact arithmetic on SpecFloat for representable values (no axioms). *)
From Coq Require Import String.
From Coq Require Import ZArith SpecFloat.
Require Import OV.Base.Bytes OV.Base.Py OV.Base.PyInt OV.Base.PyFloat.
Require Import OV.Proofs.C10_Regex OV.Proofs.C10_Form.
Open Scope N_scope.

(* ================= part 1: float(str) on [sign] digits [.] digits+ ================= *)

(* tables: every decimal-digit block starts at 48 or above 126, and none meets a whitespace range *)
Definition nd_table_ok : bool :=
  forallb (fun s => (s =? 48) || (127 <=? s)) OV.Gen.Unicode.nd_starts &&
  forallb (fun s => forallb (fun r => (s + 9 <? fst r) || (snd r <? s)) OV.Gen.Unicode.py_space) OV.Gen.Unicode.nd_starts.
Lemma nd_table_ok_true : nd_table_ok = true.
Proof. vm_compute. reflexivity. Qed.

Lemma digit_in_props c : forall starts d,
  forallb (fun s => (s =? 48) || (127 <=? s)) starts = true ->
  forallb (fun s => forallb (fun r => (s + 9 <? fst r) || (snd r <? s)) OV.Gen.Unicode.py_space) starts = true ->
  digit_in c starts = Some d ->
  d < 10 /\ (c < 127 -> c = 48 + d) /\ (127 <= c -> is_space c = false).
Proof.
  induction starts as [|s t IH]; intros d H1 H2 H; cbn [digit_in] in H; [discriminate|].
  cbn [forallb] in H1, H2. apply andb_true_iff in H1. destruct H1 as [H1 H1'].
  apply andb_true_iff in H2. destruct H2 as [H2 H2'].
  destruct ((s <=? c) && (c <? s + 10)) eqn:E; [|apply (IH d H1' H2' H)].
  injection H as <-. split; [lia|]. split; [lia|].
  intros _. unfold is_space. clear IH H1 H1' H2'.
  induction OV.Gen.Unicode.py_space as [|[lo hi] r IHr]; [reflexivity|].
  cbn [forallb fst snd] in H2. apply andb_true_iff in H2. destruct H2 as [Ha Hb].
  cbn [cmem]. rewrite (IHr Hb). replace ((lo <=? c) && (c <=? hi)) with false by lia. reflexivity.
Qed.

Definition asc (c : N) : N := if c <? 127 then c else match digit_val c with Some d => 48 + d | None => c end.

Lemma to_ascii1_digit c : is_digit c = true -> to_ascii1 c = Some (asc c) /\ c_digit (asc c) = true.
Proof.
  unfold is_digit, to_ascii1, asc. destruct (digit_val c) as [d|] eqn:E; [|discriminate]. intros _.
  pose proof nd_table_ok_true as T. unfold nd_table_ok in T. apply andb_true_iff in T. destruct T as [T1 T2].
  destruct (digit_in_props c _ d T1 T2 E) as [Hd [Hlo Hhi]].
  destruct (c <? 127) eqn:Ec.
  - split; [reflexivity|]. unfold c_digit. lia.
  - rewrite Hhi by lia. split; [reflexivity|]. unfold c_digit. lia.
Qed.

Lemma to_ascii_app x : forall y a b, to_ascii x = Some a -> to_ascii y = Some b -> to_ascii (x ++ y) = Some (a ++ b).
Proof.
  induction x as [|c x IH]; intros y a b Hx Hy; cbn [to_ascii app] in *.
  - injection Hx as <-. exact Hy.
  - destruct (to_ascii1 c) as [c'|]; [|discriminate].
    destruct (to_ascii x) as [a'|]; [|discriminate]. cbn in Hx. injection Hx as <-.
    rewrite (IH y a' b eq_refl Hy). reflexivity.
Qed.

Lemma to_ascii_digits d : digits d = true ->
  to_ascii d = Some (map asc d) /\ forallb c_digit (map asc d) = true.
Proof.
  unfold digits. induction d as [|c d IH]; cbn [forallb to_ascii map]; [auto|].
  intros H. apply andb_true_iff in H. destruct H as [Hc Hd].
  destruct (to_ascii1_digit c Hc) as [-> Hc']. destruct (IH Hd) as [-> Hd'].
  rewrite Hc', Hd'. auto.
Qed.

Lemma to_ascii_low s : forallb (fun c => c <? 127) s = true -> to_ascii s = Some s.
Proof.
  induction s as [|c s IH]; cbn [forallb to_ascii]; [reflexivity|].
  intros H. apply andb_true_iff in H. destruct H as [Hc Hs].
  unfold to_ascii1. rewrite Hc, (IH Hs). reflexivity.
Qed.

(* ASCII text made of sign, dot and digit characters only *)
Definition nchar (c : N) : bool := (c =? 43) || (c =? 45) || (c =? 46) || c_digit c.

Lemma strip_us_id : forall a prev, forallb nchar a = true -> prev <> 95 -> strip_us a prev = Some a.
Proof.
  induction a as [|c a IH]; intros prev H Hp; cbn [strip_us].
  - replace (prev =? 95) with false by lia. reflexivity.
  - cbn [forallb] in H. apply andb_true_iff in H. destruct H as [Hc Ha].
    assert (c <> 95) by (unfold nchar, c_digit in Hc; lia).
    replace (c =? 95) with false by lia. replace (prev =? 95) with false by lia. cbn [andb].
    rewrite (IH c Ha) by assumption. reflexivity.
Qed.

Lemma c_lstrip_id s : forallb nchar s = true -> c_lstrip s = s.
Proof.
  destruct s as [|c s]; [reflexivity|]. cbn [forallb c_lstrip]. intros H.
  apply andb_true_iff in H. destruct H as [Hc _].
  replace (c_space c) with false; [reflexivity|]. unfold nchar, c_digit, c_space in *. lia.
Qed.

Lemma c_strip_id s : forallb nchar s = true -> c_strip s = s.
Proof.
  intros H. unfold c_strip. rewrite (c_lstrip_id s H).
  rewrite c_lstrip_id; [apply rev_involutive|].
  rewrite forallb_forall in *. intros x Hx. apply H. apply in_rev. exact Hx.
Qed.

(* value of an ASCII digit string, continuing an accumulator *)
Fixpoint dvalN (s : str) (acc : N) : N :=
  match s with [] => acc | c :: t => dvalN t (acc * 10 + (c - 48)) end.

Lemma digits_run_app : forall a r acc cnt, forallb c_digit a = true ->
  digits_run (a ++ r) acc cnt = digits_run r (dvalN a acc) (cnt + Z.of_nat (length a))%Z.
Proof.
  induction a as [|c a IH]; intros r acc cnt H; cbn [app digits_run dvalN length].
  - f_equal. lia.
  - cbn [forallb] in H. apply andb_true_iff in H. destruct H as [Hc Ha]. rewrite Hc.
    rewrite (IH r _ _ Ha). f_equal. lia.
Qed.

Lemma digits_run_all a acc cnt : forallb c_digit a = true ->
  digits_run a acc cnt = (dvalN a acc, (cnt + Z.of_nat (length a))%Z, []).
Proof.
  intros H. rewrite <- (app_nil_r a) at 1. rewrite (digits_run_app a [] acc cnt H). reflexivity.
Qed.

Lemma not_special c s : (c =? 46) || c_digit c = true ->
  let l := map c_lower (c :: s) in
  beq l (lit "inf") || beq l (lit "infinity") = false /\ beq l (lit "nan") = false.
Proof.
  intros H. cbn [map]. unfold c_lower at 1 3 5.
  replace ((65 <=? c) && (c <=? 90)) with false by (unfold c_digit in H; lia).
  change (lit "inf") with [105; 110; 102]. change (lit "nan") with [110; 97; 110].
  change (lit "infinity") with [105; 110; 102; 105; 110; 105; 116; 121].
  cbn [beq].
  replace (c =? 105) with false by (unfold c_digit in H; lia).
  replace (c =? 110) with false by (unfold c_digit in H; lia). auto.
Qed.

(* the unsigned part: a1 [.] a2 with a2 non-empty *)
Lemma parse_unsigned_num a1 dot a2 neg :
  forallb c_digit a1 = true -> (dot = [] \/ dot = [46]) -> forallb c_digit a2 = true -> a2 <> [] ->
  parse_unsigned (a1 ++ dot ++ a2) neg =
  Some (f_of_decimal neg (dvalN a2 (dvalN a1 0)) (Z.of_nat (length a1) + Z.of_nat (length a2))
          (match dot with [] => 0 | _ => - Z.of_nat (length a2) end))%Z.
Proof.
  intros H1 Hd H2 Hne.
  assert (Hhead : exists c s, a1 ++ dot ++ a2 = c :: s /\ (c =? 46) || c_digit c = true).
  { destruct a1 as [|c a1'].
    - destruct Hd as [->| ->]; cbn [app].
      + destruct a2 as [|c a2']; [congruence|]. exists c, a2'. split; [reflexivity|].
        cbn in H2. apply andb_true_iff in H2. destruct H2 as [-> _]. apply orb_true_r.
      + exists 46, a2. auto.
    - exists c, (a1' ++ dot ++ a2). split; [reflexivity|]. cbn in H1. apply andb_true_iff in H1.
      destruct H1 as [-> _]. apply orb_true_r. }
  destruct Hhead as [c [s [Ecs Hc]]].
  unfold parse_unsigned.
  destruct (not_special c s Hc) as [N1 N2]. cbn zeta in N1, N2. rewrite <- Ecs in N1, N2. rewrite N1, N2.
  rewrite (digits_run_app a1 (dot ++ a2) 0 0%Z H1).
  destruct Hd as [->| ->]; cbn [app].
  - rewrite (digits_run_all a2 _ _ H2).
    replace (0 + Z.of_nat (length a1) + Z.of_nat (length a2) + 0 =? 0)%Z with false
      by (destruct a2; [congruence|cbn [length]; lia]).
    cbn [parse_exp]; f_equal; f_equal; lia.
  - cbn [digits_run]. replace (c_digit 46) with false by reflexivity.
    replace (46 =? 46) with true by reflexivity.
    rewrite (digits_run_all a2 _ _ H2).
    replace (0 + Z.of_nat (length a1) + (0 + Z.of_nat (length a2)) =? 0)%Z with false
      by (destruct a2; [congruence|cbn [length]; lia]).
    cbn [parse_exp]; f_equal; f_equal; lia.
Qed.

(* float() of a number the unit regexes admit *)
Theorem float_of_numform num : numform num ->
  exists neg a1 dot a2,
    forallb c_digit a1 = true /\ forallb c_digit a2 = true /\ a2 <> [] /\ (dot = [] \/ dot = [46]) /\
    py_float_of_str num =
    Some (f_of_decimal neg (dvalN a2 (dvalN a1 0)) (Z.of_nat (length a1) + Z.of_nat (length a2))
            (match dot with [] => 0 | _ => - Z.of_nat (length a2) end))%Z.
Proof.
  intros [sg [d1 [dot [d2 [-> [Hs [H1 [Hd [H2 Hne]]]]]]]]].
  destruct (to_ascii_digits d1 H1) as [T1 C1]. destruct (to_ascii_digits d2 H2) as [T2 C2].
  set (a1 := map asc d1) in *. set (a2 := map asc d2) in *.
  assert (Hne2 : a2 <> []) by (unfold a2; destruct d2; [congruence|discriminate]).
  assert (Tsg : to_ascii sg = Some sg) by (destruct Hs as [->|[->| ->]]; reflexivity).
  assert (Tdot : to_ascii dot = Some dot) by (destruct Hd as [->| ->]; reflexivity).
  assert (TA : to_ascii (sg ++ d1 ++ dot ++ d2) = Some (sg ++ a1 ++ dot ++ a2)).
  { apply to_ascii_app; [exact Tsg|]. apply to_ascii_app; [exact T1|]. apply to_ascii_app; assumption. }
  assert (Cd : forall a, forallb c_digit a = true -> forallb nchar a = true).
  { intros a Ha. rewrite forallb_forall in *. intros x Hx. unfold nchar. rewrite (Ha x Hx). apply orb_true_r. }
  assert (NC : forallb nchar (sg ++ a1 ++ dot ++ a2) = true).
  { rewrite !forallb_app, (Cd a1 C1), (Cd a2 C2).
    destruct Hs as [->|[->| ->]]; destruct Hd as [->| ->]; reflexivity. }
  unfold py_float_of_str. rewrite TA, (strip_us_id _ 0 NC) by lia. rewrite (c_strip_id _ NC).
  destruct Hs as [->|[->| ->]]; cbn [app].
  - (* no sign: the head is a digit or the dot *)
    exists false, a1, dot, a2. repeat split; try assumption.
    rewrite <- (parse_unsigned_num a1 dot a2 false C1 Hd C2 Hne2).
    destruct (a1 ++ dot ++ a2) as [|c t] eqn:E.
    + exfalso. destruct a1; [|discriminate]. destruct Hd as [->| ->]; [|discriminate]. cbn in E. congruence.
    + assert (Hc : nchar c = true /\ c <> 43 /\ c <> 45).
      { destruct a1 as [|x a1'].
        - destruct Hd as [->| ->]; cbn in E.
          + rewrite E in C2. cbn [forallb] in C2. apply andb_true_iff in C2. destruct C2 as [C2 _]. unfold nchar, c_digit in *. lia.
          + injection E as <- _. unfold nchar. cbn. lia.
        - cbn in E. injection E as <- _. cbn in C1. apply andb_true_iff in C1. destruct C1 as [C1 _].
          unfold nchar, c_digit in *. lia. }
      destruct Hc as [_ [Hp Hm]].
      replace (c =? 43) with false by lia. replace (c =? 45) with false by lia. reflexivity.
  - exists false, a1, dot, a2. repeat split; try assumption.
    replace (43 =? 43) with true by reflexivity. apply parse_unsigned_num; assumption.
  - exists true, a1, dot, a2. repeat split; try assumption.
    replace (45 =? 43) with false by reflexivity. replace (45 =? 45) with true by reflexivity.
    apply parse_unsigned_num; assumption.
Qed.

Corollary float_of_numform_total num : numform num -> py_float_of_str num <> None.
Proof. intros H. destruct (float_of_numform num H) as [neg [a1 [dot [a2 [_ [_ [_ [_ ->]]]]]]]]. discriminate. Qed.

(* a non-empty ASCII digit string *)
Lemma float_of_ascii_digits ds : forallb c_digit ds = true -> ds <> [] ->
  py_float_of_str ds = Some (f_of_decimal false (dvalN ds 0) (Z.of_nat (length ds)) 0).
Proof.
  intros H Hne.
  assert (Hlow : forallb (fun c => c <? 127) ds = true).
  { rewrite forallb_forall in *. intros x Hx. specialize (H x Hx). unfold c_digit in H. lia. }
  assert (NC : forallb nchar ds = true).
  { rewrite forallb_forall in *. intros x Hx. unfold nchar. rewrite (H x Hx). apply orb_true_r. }
  unfold py_float_of_str. rewrite (to_ascii_low ds Hlow), (strip_us_id _ 0 NC) by lia. rewrite (c_strip_id _ NC).
  destruct ds as [|c t]; [congruence|].
  assert (Hc : c <> 43 /\ c <> 45).
  { cbn in H. apply andb_true_iff in H. destruct H as [H _]. unfold c_digit in H. lia. }
  replace (c =? 43) with false by lia. replace (c =? 45) with false by lia.
  exact (parse_unsigned_num [] [] (c :: t) false eq_refl (or_introl eq_refl) H Hne).
Qed.

(* ================= part 2: exact arithmetic on representable values ================= *)
Open Scope Z_scope.

Definition dig (p : positive) : Z := Zpos (digits2_pos p).

Lemma dig_pos p : 1 <= dig p.
Proof. unfold dig. lia. Qed.

Lemma dig_xO p : dig p~0 = dig p + 1.
Proof. unfold dig. cbn [digits2_pos]. lia. Qed.
Lemma dig_xI p : dig p~1 = dig p + 1.
Proof. unfold dig. cbn [digits2_pos]. lia. Qed.

Lemma pow2_succ k : 0 <= k -> 2 ^ (k + 1) = 2 * 2 ^ k.
Proof. intros. rewrite Z.pow_add_r by lia. lia. Qed.

Lemma dig_bounds p : 2 ^ (dig p - 1) <= Zpos p < 2 ^ dig p.
Proof.
  induction p as [p IH|p IH|].
  - rewrite dig_xI. pose proof (dig_pos p).
    assert (E : 2 ^ dig p = 2 * 2 ^ (dig p - 1)) by (rewrite <- pow2_succ by lia; f_equal; lia).
    replace (dig p + 1 - 1) with (dig p) by lia. rewrite pow2_succ by lia. rewrite Pos2Z.inj_xI.
    set (A := 2 ^ dig p) in *. set (B := 2 ^ (dig p - 1)) in *. clearbody A B. lia.
  - rewrite dig_xO. pose proof (dig_pos p).
    assert (E : 2 ^ dig p = 2 * 2 ^ (dig p - 1)) by (rewrite <- pow2_succ by lia; f_equal; lia).
    replace (dig p + 1 - 1) with (dig p) by lia. rewrite pow2_succ by lia. change (Z.pos p~0) with (2 * Z.pos p).
    set (A := 2 ^ dig p) in *. set (B := 2 ^ (dig p - 1)) in *. clearbody A B. lia.
  - cbn. lia.
Qed.

Lemma dig_unique p d : 2 ^ (d - 1) <= Zpos p < 2 ^ d -> dig p = d.
Proof.
  intros [H1 H2]. pose proof (dig_bounds p) as [B1 B2]. pose proof (dig_pos p).
  destruct (Z.lt_trichotomy (dig p) d) as [L|[E|L]]; [|exact E|].
  - assert (2 ^ dig p <= 2 ^ (d - 1)) by (apply Z.pow_le_mono_r; lia). lia.
  - assert (0 <= d) by (destruct (Z.neg_nonneg_cases d) as [N|N]; [rewrite (Z.pow_neg_r 2 d N) in H2; lia|exact N]).
    assert (2 ^ d <= 2 ^ (dig p - 1)) by (apply Z.pow_le_mono_r; lia). lia.
Qed.

Lemma dig_shift p j : 0 <= j -> dig (Z.to_pos (Zpos p * 2 ^ j)) = dig p + j.
Proof.
  intros Hj. apply dig_unique. pose proof (dig_bounds p) as [B1 B2]. pose proof (dig_pos p).
  assert (0 < 2 ^ j) by (apply Z.pow_pos_nonneg; lia).
  rewrite Z2Pos.id by lia.
  replace (dig p + j - 1) with (dig p - 1 + j) by lia. rewrite !Z.pow_add_r by lia. nia.
Qed.

(* ---- shifting right by k bits a multiple of 2^k ---- *)
Definition it {A} (f : A -> A) (n : nat) (x : A) : A := nat_rect (fun _ => A) x (fun _ => f) n.
Lemma it_comm {A} (f : A -> A) n x : it f n (f x) = f (it f n x).
Proof. induction n as [|n IH]; cbn; [reflexivity|]. unfold it in IH. rewrite IH. reflexivity. Qed.
Lemma it_add {A} (f : A -> A) a b x : it f (a + b) x = it f a (it f b x).
Proof. induction a as [|a IH]; cbn; [reflexivity|]. unfold it in IH. rewrite IH. reflexivity. Qed.
Lemma iter_pos_it {A} (f : A -> A) p x : SpecFloat.iter_pos f p x = it f (Pos.to_nat p) x.
Proof.
  revert x. induction p as [p IH|p IH|]; intros x; cbn [SpecFloat.iter_pos].
  - rewrite !IH. rewrite Pos2Nat.inj_xI.
    replace (S (2 * Pos.to_nat p)) with (S (Pos.to_nat p + Pos.to_nat p)) by lia.
    change (it f (S (Pos.to_nat p + Pos.to_nat p)) x) with (f (it f (Pos.to_nat p + Pos.to_nat p) x)).
    rewrite it_add, !it_comm. reflexivity.
  - rewrite !IH. rewrite Pos2Nat.inj_xO.
    replace (2 * Pos.to_nat p)%nat with (Pos.to_nat p + Pos.to_nat p)%nat by lia.
    rewrite it_add. reflexivity.
  - reflexivity.
Qed.

Definition rec0 (m : Z) : shr_record := Build_shr_record m false false.

Lemma shr_1_even x : 0 < x -> shr_1 (rec0 (2 * x)) = rec0 x.
Proof. destruct x as [|p|p]; try lia. intros _. reflexivity. Qed.

Lemma it_shr n : forall x, 0 < x -> it shr_1 n (rec0 (x * 2 ^ Z.of_nat n)) = rec0 x.
Proof.
  induction n as [|n IH]; intros x Hx.
  - cbn. f_equal. lia.
  - change (it shr_1 (S n) (rec0 (x * 2 ^ Z.of_nat (S n)))) with (shr_1 (it shr_1 n (rec0 (x * 2 ^ Z.of_nat (S n))))).
    rewrite <- it_comm.
    replace (x * 2 ^ Z.of_nat (S n)) with (2 * (x * 2 ^ Z.of_nat n))
      by (rewrite Nat2Z.inj_succ, Z.pow_succ_r by lia; lia).
    rewrite shr_1_even by (assert (0 < 2 ^ Z.of_nat n) by (apply Z.pow_pos_nonneg; lia); nia).
    apply IH. exact Hx.
Qed.

Lemma shr_exact m e k : 0 < m -> 0 < k -> shr (rec0 (m * 2 ^ k)) e k = (rec0 m, e + k).
Proof.
  intros Hm Hk. destruct k as [|p|p]; try lia. unfold shr. rewrite iter_pos_it.
  rewrite <- (positive_nat_Z p) at 1. rewrite it_shr by exact Hm. reflexivity.
Qed.

Lemma fexp53 x : -1074 <= x - 53 -> fexp 53 1024 x = x - 53.
Proof. unfold fexp, emin. lia. Qed.

(* binary_round_aux on an exact input, normal range *)
Lemma aux_noshift s mx ex :
  -1074 <= dig mx + ex - 53 -> dig mx <= 53 -> ex <= 971 ->
  binary_round_aux 53 1024 s (Zpos mx) ex loc_Exact = S754_finite s mx ex.
Proof.
  intros R D E. unfold binary_round_aux, shr_fexp.
  change (Zdigits2 (Z.pos mx)) with (dig mx).
  rewrite fexp53 by lia. unfold shr_record_of_loc.
  assert (S1 : shr (Build_shr_record (Z.pos mx) false false) ex (dig mx + ex - 53 - ex) = (Build_shr_record (Z.pos mx) false false, ex)).
  { unfold shr. destruct (dig mx + ex - 53 - ex) eqn:K; try reflexivity. lia. }
  rewrite S1. cbn [shr_m loc_of_shr_record round_nearest_even].
  change (Zdigits2 (Z.pos mx)) with (dig mx). rewrite fexp53 by lia. rewrite S1. cbn [shr_m].
  replace (Zle_bool ex (1024 - 53)) with true; [reflexivity|]. symmetry. apply Zle_is_le_bool. lia.
Qed.

Lemma aux_shift s mx ex m' :
  let k := dig mx - 53 in
  -1074 <= dig mx + ex - 53 -> 0 < k -> Zpos mx = Zpos m' * 2 ^ k -> ex + k <= 971 ->
  binary_round_aux 53 1024 s (Zpos mx) ex loc_Exact = S754_finite s m' (ex + k).
Proof.
  intros k R K M E. unfold binary_round_aux, shr_fexp.
  change (Zdigits2 (Z.pos mx)) with (dig mx).
  rewrite fexp53 by lia. unfold shr_record_of_loc.
  replace (dig mx + ex - 53 - ex) with k by (unfold k; lia).
  change (Build_shr_record (Z.pos mx) false false) with (rec0 (Z.pos mx)).
  rewrite M. rewrite shr_exact by lia.
  cbn [rec0 shr_m loc_of_shr_record round_nearest_even].
  change (Zdigits2 (Z.pos m')) with (dig m').
  assert (Dm : dig m' = 53).
  { assert (Hd : dig mx = dig m' + k).
    { rewrite <- (dig_shift m' k) by lia. f_equal. rewrite <- M. reflexivity. }
    unfold k in Hd. lia. }
  rewrite Dm. rewrite fexp53 by (unfold k in *; lia).
  replace (53 + (ex + k) - 53 - (ex + k)) with 0 by lia. cbn [shr shr_m].
  replace (Zle_bool (ex + k) (1024 - 53)) with true; [reflexivity|]. symmetry. apply Zle_is_le_bool. lia.
Qed.

(* the binary64 value (-1)^s * q * 2^t for a q of at most 53 bits (normal range), in canonical form *)
Definition normal (s : bool) (q : positive) (t : Z) : float64 :=
  S754_finite s (Z.to_pos (Zpos q * 2 ^ (53 - dig q))) (t - 53 + dig q).

Lemma pow2_pos k : 0 <= k -> 0 < 2 ^ k.
Proof. intros. apply Z.pow_pos_nonneg; lia. Qed.

Lemma normal_mant_dig q : dig q <= 53 -> dig (Z.to_pos (Zpos q * 2 ^ (53 - dig q))) = 53.
Proof. intros H. rewrite dig_shift by lia. lia. Qed.

Lemma normal_mant_Z q : dig q <= 53 -> Zpos (Z.to_pos (Zpos q * 2 ^ (53 - dig q))) = Zpos q * 2 ^ (53 - dig q).
Proof. intros H. apply Z2Pos.id. pose proof (pow2_pos (53 - dig q)). nia. Qed.

(* correctly rounding q * 2^j is exact *)
Lemma round_normal s q j : dig q <= 53 -> 0 <= j -> dig q + j - 53 <= 971 ->
  binary_round 53 1024 s (Z.to_pos (Zpos q * 2 ^ j)) 0 = normal s q j.
Proof.
  intros Hq Hj Hr. pose proof (dig_pos q) as Hq1.
  set (mx := Z.to_pos (Zpos q * 2 ^ j)).
  assert (Hd : dig mx = dig q + j) by (apply dig_shift; exact Hj).
  assert (HZ : Zpos mx = Zpos q * 2 ^ j) by (apply Z2Pos.id; pose proof (pow2_pos j Hj); nia).
  unfold binary_round. change (Z.pos (digits2_pos mx)) with (dig mx).
  rewrite fexp53 by lia. unfold shl_align.
  destruct (dig mx + 0 - 53 - 0) as [|p|p] eqn:K.
  - rewrite aux_noshift by lia. unfold normal. f_equal; [|lia].
    apply Pos2Z.inj. rewrite normal_mant_Z, HZ by lia. f_equal. f_equal. lia.
  - rewrite (aux_shift s mx 0 (Z.to_pos (Zpos q * 2 ^ (53 - dig q)))); try lia.
    + unfold normal. f_equal. lia.
    + rewrite normal_mant_Z, HZ by lia. rewrite <- Z.mul_assoc, <- Z.pow_add_r by lia. f_equal. f_equal. lia.
  - assert (E : shift_pos p mx = Z.to_pos (Zpos q * 2 ^ (53 - dig q))).
    { apply Pos2Z.inj. rewrite shift_pos_correct, normal_mant_Z, HZ by lia.
      change (Z.pow_pos 2 p) with (2 ^ Z.pos p).
      rewrite Z.mul_comm, <- Z.mul_assoc, <- Z.pow_add_r by lia. f_equal. f_equal. lia. }
    rewrite E. rewrite aux_noshift; [|try rewrite normal_mant_dig by lia; lia..].
    unfold normal. f_equal. lia.
Qed.

Lemma dig_mul_lower q1 q2 : dig q1 + dig q2 - 1 <= dig (q1 * q2).
Proof.
  pose proof (dig_bounds q1) as [A1 _]. pose proof (dig_bounds q2) as [A2 _].
  pose proof (dig_bounds (q1 * q2)) as [_ B]. pose proof (dig_pos q1). pose proof (dig_pos q2). pose proof (dig_pos (q1 * q2)).
  destruct (Z_le_gt_dec (dig q1 + dig q2 - 1) (dig (q1 * q2))) as [L|G]; [exact L|exfalso].
  assert (P : 2 ^ dig (q1 * q2) <= 2 ^ (dig q1 - 1 + (dig q2 - 1))) by (apply Z.pow_le_mono_r; lia).
  rewrite Z.pow_add_r in P by lia. rewrite Pos2Z.inj_mul in B.
  pose proof (pow2_pos (dig q1 - 1)). pose proof (pow2_pos (dig q2 - 1)). nia.
Qed.

(* the product of two exact values whose product still fits 53 bits is exact *)
Lemma mul_normal s1 q1 t1 s2 q2 t2 :
  dig q1 <= 53 -> dig q2 <= 53 -> dig (q1 * q2) <= 53 ->
  -1074 <= t1 + t2 - 53 + dig (q1 * q2) -> t1 + t2 - 53 + dig (q1 * q2) <= 971 ->
  f_mul (normal s1 q1 t1) (normal s2 q2 t2) = normal (xorb s1 s2) (q1 * q2) (t1 + t2).
Proof.
  intros H1 H2 H12 Rl Rh. pose proof (dig_pos q1). pose proof (dig_pos q2). pose proof (dig_mul_lower q1 q2) as DL.
  unfold f_mul, normal at 1 2, SFmul.
  set (m1 := Z.to_pos (Zpos q1 * 2 ^ (53 - dig q1))). set (m2 := Z.to_pos (Zpos q2 * 2 ^ (53 - dig q2))).
  set (D := dig (q1 * q2)) in *.
  assert (HM : Zpos (m1 * m2) = Zpos (q1 * q2) * 2 ^ (106 - dig q1 - dig q2)).
  { rewrite !Pos2Z.inj_mul. unfold m1, m2. rewrite !normal_mant_Z by lia.
    replace (106 - dig q1 - dig q2) with ((53 - dig q1) + (53 - dig q2)) by lia.
    rewrite Z.pow_add_r by lia. lia. }
  assert (HD : dig (m1 * m2) = D + (106 - dig q1 - dig q2)).
  { rewrite <- (dig_shift (q1 * q2)) by lia. f_equal. rewrite <- HM. reflexivity. }
  rewrite (aux_shift _ (m1 * m2) _ (Z.to_pos (Zpos (q1 * q2) * 2 ^ (53 - D)))); try lia.
  - unfold normal. fold D. f_equal. lia.
  - rewrite HM, normal_mant_Z by (fold D; lia). fold D.
    rewrite <- Z.mul_assoc, <- Z.pow_add_r by lia. f_equal. f_equal. lia.
Qed.

Lemma div_eucl_eq a b : Z.div_eucl a b = (a / b, a mod b).
Proof. unfold Z.div, Z.modulo. destruct (Z.div_eucl a b). reflexivity. Qed.

Lemma div_core m1 e1 : dig m1 = 53 -> -1074 <= e1 - 4 ->
  SFdiv_core_binary 53 1024 (Zpos m1) e1 4503599627370496 (-49) = (Zpos m1~0, e1 - 4, loc_Exact).
Proof.
  intros D R. unfold SFdiv_core_binary. cbv zeta.
  change (Zdigits2 (Z.pos m1)) with (dig m1). rewrite D.
  change (Zdigits2 4503599627370496) with 53.
  replace (53 + e1 - (53 + -49)) with (e1 + 49) by lia. rewrite fexp53 by lia.
  replace (Z.min (e1 + 49 - 53) (e1 - -49)) with (e1 - 4) by lia.
  replace (e1 - -49 - (e1 - 4)) with 53 by lia.
  rewrite Z.shiftl_mul_pow2 by lia. rewrite div_eucl_eq.
  change (2 ^ 53) with (2 * 4503599627370496).
  replace (Z.pos m1 * (2 * 4503599627370496)) with (Z.pos m1~0 * 4503599627370496) by (rewrite (Pos2Z.inj_xO m1); lia).
  rewrite Z.div_mul, Z.mod_mul by lia. reflexivity.
Qed.

(* dividing an exact value by 8.0 is exact *)
Lemma div8_normal s q t : dig q <= 53 -> -1074 <= t - 3 - 53 + dig q - 1 -> t - 3 - 53 + dig q <= 971 ->
  f_div (normal s q t) (S754_finite false 4503599627370496 (-49)) = Some (normal s q (t - 3)).
Proof.
  intros Hq Rl Rh. unfold f_div. cbn [f_is_zero]. f_equal.
  unfold normal. set (m1 := Z.to_pos (Zpos q * 2 ^ (53 - dig q))).
  assert (Dm : dig m1 = 53) by (apply normal_mant_dig; exact Hq).
  unfold SFdiv. rewrite div_core by (try exact Dm; lia).
  rewrite (aux_shift _ (m1~0) _ m1); try (rewrite dig_xO, Dm; lia).
  rewrite dig_xO, Dm. rewrite Bool.xorb_false_r. f_equal. lia.
Qed.

(* the value of an exact float, when it is an integer *)
Lemma ceil_normal s q t : dig q <= 53 -> 0 <= t ->
  ceil_to_Z (normal s q t) = Ok ((if s then -1 else 1) * (Zpos q * 2 ^ t)).
Proof.
  intros Hq Ht. pose proof (dig_pos q). unfold normal, ceil_to_Z. rewrite normal_mant_Z by exact Hq.
  set (m := Zpos q * 2 ^ (53 - dig q)).
  assert (Hm : Zpos (Z.to_pos m) = m) by (apply normal_mant_Z; exact Hq).
  replace (if s then Z.neg (Z.to_pos m) else m) with ((if s then -1 else 1) * m)
    by (destruct s; [change (Z.neg (Z.to_pos m)) with (- Z.pos (Z.to_pos m)); rewrite Hm|]; lia).
  unfold f_pow2. f_equal.
  destruct (0 <=? t - 53 + dig q) eqn:E.
  - unfold m. rewrite <- !Z.mul_assoc, <- Z.pow_add_r by lia. f_equal. f_equal. f_equal. lia.
  - assert (E2 : m = (Zpos q * 2 ^ t) * 2 ^ (- (t - 53 + dig q))).
    { unfold m. rewrite <- Z.mul_assoc, <- Z.pow_add_r by lia. f_equal. f_equal. lia. }
    rewrite E2. pose proof (pow2_pos (- (t - 53 + dig q))).
    replace (- ((if s then -1 else 1) * (Z.pos q * 2 ^ t * 2 ^ (- (t - 53 + dig q)))))
      with ((- ((if s then -1 else 1) * (Z.pos q * 2 ^ t))) * 2 ^ (- (t - 53 + dig q))) by lia.
    rewrite Z.div_mul by lia. lia.
Qed.

(* ---- representable positive integers: odd part times a power of two ---- *)
Fixpoint odd_part (p : positive) : positive * Z :=
  match p with
  | xO p' => let '(q, j) := odd_part p' in (q, j + 1)
  | _ => (p, 0)
  end.

Lemma odd_part_spec p : let '(q, j) := odd_part p in
  0 <= j /\ Zpos p = Zpos q * 2 ^ j /\ Z.odd (Zpos q) = true.
Proof.
  induction p as [p IH|p IH|]; cbn [odd_part].
  - split; [lia|]. split; [lia|reflexivity].
  - destruct (odd_part p) as [q j]. destruct IH as [Hj [Hp Ho]].
    split; [lia|]. split; [|exact Ho].
    change (Z.pos p~0) with (2 * Z.pos p). rewrite Hp, Z.pow_add_r by lia. lia.
  - split; [lia|]. split; [lia|reflexivity].
Qed.

(* the decidable hypothesis: at most 53 significant bits *)
Definition repr53b (p : positive) : bool := dig (fst (odd_part p)) <=? 53.

Lemma dig_le_of_lt p k : 0 <= k -> Zpos p < 2 ^ k -> dig p <= k.
Proof.
  intros Hk H. pose proof (dig_bounds p) as [B _]. pose proof (dig_pos p).
  destruct (Z_le_gt_dec (dig p) k) as [L|G]; [exact L|exfalso].
  assert (2 ^ k <= 2 ^ (dig p - 1)) by (apply Z.pow_le_mono_r; lia). lia.
Qed.

Lemma dig_mono p q : Zpos p <= Zpos q -> dig p <= dig q.
Proof.
  intros H. pose proof (dig_bounds q) as [_ B]. apply dig_le_of_lt; [pose proof (dig_pos q); lia|lia].
Qed.

Lemma odd_part_le p : Zpos (fst (odd_part p)) <= Zpos p.
Proof.
  pose proof (odd_part_spec p) as S. destruct (odd_part p) as [q j]. destruct S as [Hj [Hp _]].
  cbn [fst]. pose proof (pow2_pos j Hj). nia.
Qed.

Lemma repr53b_of_lt p : Zpos p < 2 ^ 53 -> repr53b p = true.
Proof.
  intros H. unfold repr53b. apply Z.leb_le. apply dig_le_of_lt; [lia|].
  pose proof (odd_part_le p). lia.
Qed.

(* an odd number times 2^j that is a multiple of 2^k has j >= k *)
Lemma odd_pow_div q j a k : Z.odd q = true -> 0 <= j -> 0 <= k -> q * 2 ^ j = a * 2 ^ k -> k <= j.
Proof.
  intros Ho Hj Hk E. destruct (Z_le_gt_dec k j) as [L|G]; [exact L|exfalso].
  replace k with (j + (k - j)) in E by lia. rewrite Z.pow_add_r in E by lia.
  pose proof (pow2_pos j Hj).
  assert (E2 : q = a * 2 ^ (k - j)) by nia.
  replace (k - j) with (1 + (k - j - 1)) in E2 by lia. rewrite Z.pow_add_r in E2 by lia.
  rewrite E2 in Ho. replace (a * (2 ^ 1 * 2 ^ (k - j - 1))) with (2 * (a * 2 ^ (k - j - 1))) in Ho by (change (2 ^ 1) with 2; lia).
  rewrite Z.odd_mul in Ho. discriminate.
Qed.

Lemma normal_scale s q j : 0 <= j -> dig q + j <= 53 -> normal s (Z.to_pos (Zpos q * 2 ^ j)) 0 = normal s q j.
Proof.
  intros Hj H. pose proof (dig_pos q). pose proof (pow2_pos j Hj).
  unfold normal. rewrite dig_shift by exact Hj. f_equal; [|lia].
  f_equal. rewrite Z2Pos.id by nia. rewrite <- Z.mul_assoc, <- Z.pow_add_r by lia. f_equal. f_equal. lia.
Qed.

(* float(int) of a representable positive integer *)
Lemma round_odd_part s p : repr53b p = true -> dig p <= 1024 ->
  binary_round 53 1024 s p 0 = normal s (fst (odd_part p)) (snd (odd_part p)).
Proof.
  intros R B. unfold repr53b in R. apply Z.leb_le in R.
  pose proof (odd_part_spec p) as S. destruct (odd_part p) as [q j]. destruct S as [Hj [Hp _]]. cbn [fst snd] in *.
  assert (E : p = Z.to_pos (Zpos q * 2 ^ j)) by (rewrite <- Hp; reflexivity).
  rewrite E at 1. apply round_normal; try assumption.
  rewrite <- (dig_shift q j Hj), <- E. lia.
Qed.

(* float() of [sign] ASCII digits *)
Lemma float_of_signed_ascii_digits sg ds : (sg = [] \/ sg = [43%N] \/ sg = [45%N]) ->
  forallb c_digit ds = true -> ds <> [] ->
  py_float_of_str (sg ++ ds) =
  Some (f_of_decimal (beq sg [45%N]) (dvalN ds 0) (Z.of_nat (length ds)) 0).
Proof.
  intros Hs H Hne. destruct Hs as [->|[->| ->]].
  - apply float_of_ascii_digits; assumption.
  - assert (Hlow : forallb (fun c => (c <? 127)%N) (43%N :: ds) = true).
    { cbn [forallb]. rewrite forallb_forall in *. apply andb_true_iff. split; [reflexivity|].
      rewrite forallb_forall. intros x Hx. specialize (H x Hx). unfold c_digit in H. lia. }
    assert (NC : forallb nchar (43%N :: ds) = true).
    { cbn [forallb]. apply andb_true_iff. split; [reflexivity|]. rewrite forallb_forall in *. intros x Hx.
      unfold nchar. rewrite (H x Hx). apply orb_true_r. }
    cbn [app]. unfold py_float_of_str. rewrite (to_ascii_low _ Hlow), (strip_us_id _ 0%N NC) by lia. rewrite (c_strip_id _ NC).
    replace (43 =? 43)%N with true by reflexivity.
    exact (parse_unsigned_num [] [] ds false eq_refl (or_introl eq_refl) H Hne).
  - assert (Hlow : forallb (fun c => (c <? 127)%N) (45%N :: ds) = true).
    { cbn [forallb]. apply andb_true_iff. split; [reflexivity|].
      rewrite forallb_forall in *. intros x Hx. specialize (H x Hx). unfold c_digit in H. lia. }
    assert (NC : forallb nchar (45%N :: ds) = true).
    { cbn [forallb]. apply andb_true_iff. split; [reflexivity|]. rewrite forallb_forall in *. intros x Hx.
      unfold nchar. rewrite (H x Hx). apply orb_true_r. }
    cbn [app]. unfold py_float_of_str. rewrite (to_ascii_low _ Hlow), (strip_us_id _ 0%N NC) by lia. rewrite (c_strip_id _ NC).
    replace (45 =? 43)%N with false by reflexivity. replace (45 =? 45)%N with true by reflexivity.
    exact (parse_unsigned_num [] [] ds true eq_refl (or_introl eq_refl) H Hne).
Qed.

Lemma c_digit_is_digit ds : forallb c_digit ds = true -> digits ds = true.
Proof.
  unfold digits. intros H. rewrite forallb_forall in *. intros x Hx. specialize (H x Hx).
  unfold is_digit. rewrite (digit_val_ascii x H). reflexivity.
Qed.

(* float() of [sign] Unicode decimal digits: the value of the digits *)
Lemma float_of_signed_digits sg ds : (sg = [] \/ sg = [43%N] \/ sg = [45%N]) ->
  digits ds = true -> ds <> [] ->
  py_float_of_str (sg ++ ds) =
  Some (f_of_decimal (beq sg [45%N]) (dvalN (map asc ds) 0) (Z.of_nat (length ds)) 0).
Proof.
  intros Hs Hd Hne.
  destruct (to_ascii_digits ds Hd) as [T C]. set (a := map asc ds) in *.
  assert (La : length a = length ds) by (unfold a; apply map_length).
  assert (Na : a <> []) by (unfold a; destruct ds; [congruence|discriminate]).
  assert (Tsg : to_ascii sg = Some sg) by (destruct Hs as [->|[->| ->]]; reflexivity).
  assert (NC : forallb nchar (sg ++ a) = true).
  { rewrite forallb_app. apply andb_true_iff. split; [destruct Hs as [->|[->| ->]]; reflexivity|].
    rewrite forallb_forall in *. intros x Hx. unfold nchar. rewrite (C x Hx). apply orb_true_r. }
  unfold py_float_of_str. rewrite (to_ascii_app sg ds sg a Tsg T), (strip_us_id _ 0%N NC) by lia. rewrite (c_strip_id _ NC).
  rewrite <- La.
  destruct Hs as [->|[->| ->]]; cbn [app].
  - destruct a as [|c t] eqn:Ea; [congruence|]. rewrite <- Ea in *.
    assert (Hc : c <> 43%N /\ c <> 45%N).
    { rewrite Ea in C. cbn in C. apply andb_true_iff in C. destruct C as [C _]. unfold c_digit in C. lia. }
    rewrite Ea. replace (c =? 43)%N with false by lia. replace (c =? 45)%N with false by lia. rewrite <- Ea.
    exact (parse_unsigned_num [] [] a false eq_refl (or_introl eq_refl) C Na).
  - replace (43 =? 43)%N with true by reflexivity.
    exact (parse_unsigned_num [] [] a false eq_refl (or_introl eq_refl) C Na).
  - replace (45 =? 43)%N with false by reflexivity. replace (45 =? 45)%N with true by reflexivity.
    exact (parse_unsigned_num [] [] a true eq_refl (or_introl eq_refl) C Na).
Qed.

(* rounding keeps the sign *)
Lemma binary_round_aux_sign s m e l :
  match binary_round_aux 53 1024 s m e l with
  | S754_zero s' | S754_infinity s' | S754_finite s' _ _ => s' = s
  | S754_nan => True
  end.
Proof.
  unfold binary_round_aux. destruct (shr_fexp 53 1024 m e l) as [mrs e'].
  destruct (shr_fexp 53 1024 _ e' loc_Exact) as [mrs'' e''].
  destruct (shr_m mrs''); [reflexivity| |exact I]. destruct (Zle_bool e'' (1024 - 53)); reflexivity.
Qed.

Lemma float_of_pos_sign p x : float_of_Z (Zpos p) = Some x ->
  match x with S754_zero s | S754_finite s _ _ => s = false | S754_infinity _ => False | S754_nan => True end.
Proof.
  unfold float_of_Z, f_normalize. cbn [binary_normalize]. unfold binary_round.
  destruct (shl_align p 0 _) as [mz ez].
  pose proof (binary_round_aux_sign false (Zpos mz) ez loc_Exact) as S.
  change fprec with 53. change femax with 1024.
  destruct (binary_round_aux 53 1024 false (Zpos mz) ez loc_Exact); intros H; try discriminate; injection H as <-; exact S.
Qed.
