(* Proofs/C13.v — StopWatch: (A) the statement-level translation of the source
   (Gen/C13_StopWatch.v) equals the hand model (Model/C13.v) method by method;
   (B) invariants of all reachable configurations and the lemmas behind Properties/C13.v. *)
From Coq Require Import ZArith List Bool Lia Sorting.Sorted.
Require Import OV.Base.Bytes OV.Base.Py OV.Base.C13_Types OV.Gen.C13_StopWatch OV.Model.C13.
Import ListNotations.
Open Scope Z_scope.

(* ===================================================================== *)
(* A. translation = model                                                *)
(* ===================================================================== *)

(* the three values the model's state stands for: None and the two class constants *)
Definition enc_state (s : wstate) : ostate :=
  match s with SNone => None | SStarted => Some C13_STARTED | SStopped => Some C13_STOPPED end.

Definition enc (c : cfg) : gst :=
  (enc_state (w_state (fst c)), w_started (fst c), w_stopped (fst c), w_splits (fst c), w_duration (fst c), snd c).

Definition enc_out {A} (o : out A) : gst * res A := (enc (fst o), snd o).

(* the state tags are distinct strings (otherwise the three states would collapse) *)
Lemma state_tags_distinct : C13_STARTED <> C13_STOPPED.
Proof. intro H. apply beq_eq in H. vm_compute in H. discriminate H. Qed.

Lemma enc_state_inj s1 s2 : enc_state s1 = enc_state s2 -> s1 = s2.
Proof.
  destruct s1, s2; cbn; intro H; try reflexivity; try discriminate H;
    injection H as H; exfalso; apply state_tags_distinct; congruence.
Qed.

Lemma last_opt_some {A} (y : A) r : exists z, last_opt (y :: r) = Some z.
Proof.
  revert y. induction r as [|a r IH]; intro y; [exists y; reflexivity|].
  destruct (IH a) as [z Hz]. exists z. exact Hz.
Qed.

Lemma last_opt_cons {A} (x : A) l :
  last_opt (x :: l) = match last_opt l with Some y => Some y | None => Some x end.
Proof.
  destruct l as [|y r]; [reflexivity|].
  destruct (last_opt_some y r) as [z Hz]. rewrite Hz. exact Hz.
Qed.

Lemma last_opt_app {A} (l : list A) x : last_opt (l ++ [x]) = Some x.
Proof.
  induction l as [|y r IH]; [reflexivity|].
  change ((y :: r) ++ [x]) with (y :: (r ++ [x])). rewrite last_opt_cons, IH. reflexivity.
Qed.

Lemma nonempty_last {A} (l : list A) :
  match last_opt l with Some _ => nonempty l = true | None => l = [] end.
Proof.
  induction l as [|y r IH]; [reflexivity|]. rewrite last_opt_cons.
  destruct (last_opt r); reflexivity.
Qed.

Lemma delta_nonneg_A a b : 0 <= delta a b.
Proof. unfold delta. lia. Qed.

Ltac by_cases w :=
  destruct w as [[| |] [?s|] [?p|] ?l [?d|]]; try reflexivity.

(* two outcomes that differ in the returned number only: arithmetic *)
Ltac same_number :=
  try reflexivity;
  match goal with
  | |- (_, Ok (Some ?a)) = (_, Ok (Some ?b)) => replace a with b by lia; reflexivity
  | |- (_, Ok ?a) = (_, Ok ?b) => replace a with b by lia; reflexivity
  end.

(* evaluate the state tests of a translated method on an encoded state *)
Ltac norm :=
  cbn [enc_state w_state w_started w_stopped w_splits w_duration ostate_eqb fst snd];
  change (beq C13_STARTED C13_STARTED) with true; change (beq C13_STARTED C13_STOPPED) with false;
  change (beq C13_STOPPED C13_STOPPED) with true; change (beq C13_STOPPED C13_STARTED) with false;
  cbn [negb orb andb]; cbv iota.

(* the proofs below are by evaluation on each of the three states; arithmetic side conditions go to lia, so
   that a behaviour-preserving rewrite of a comparison or of max() in the source still proves *)
Lemma gen_delta_seconds_equiv earlier later : gen_delta_seconds earlier later = delta earlier later.
Proof. unfold gen_delta_seconds, delta. lia. Qed.

Local Opaque delta.   (* keep [rewrite gen_delta_seconds_equiv] from unifying through delta *)

Lemma gen_Split_equiv e l :
  gen_Split e l = mkSplit e l /\ gen_Split_elapsed (mkSplit e l) = e /\ gen_Split_length (mkSplit e l) = l.
Proof. repeat split. Qed.

Lemma gen_init_equiv clk g1 g2 g3 g4 g5 t duration :
  gen_init clk g1 g2 g3 g4 g5 t duration =
  match init duration with
  | Ok w => (enc (w, t), Ok tt)
  | Exn e => ((g1, g2, g3, g4, g5, t), Exn e)
  end.
Proof.
  unfold gen_init, init. destruct duration as [d|]; [|reflexivity].
  repeat match goal with |- context [if ?c then _ else _] => destruct c eqn:? end; try reflexivity; lia.
Qed.

Lemma gen_start_equiv clk w t :
  gen_start clk (enc_state (w_state w)) (w_started w) (w_stopped w) (w_splits w) (w_duration w) t = enc_out (start clk w t).
Proof. by_cases w. Qed.

Lemma gen_stop_equiv clk w t :
  gen_stop clk (enc_state (w_state w)) (w_started w) (w_stopped w) (w_splits w) (w_duration w) t = enc_out (stop clk w t).
Proof. by_cases w. Qed.

Lemma gen_resume_equiv clk w t :
  gen_resume clk (enc_state (w_state w)) (w_started w) (w_stopped w) (w_splits w) (w_duration w) t = enc_out (resume w t).
Proof. by_cases w. Qed.

Lemma gen_restart_equiv clk w t :
  gen_restart clk (enc_state (w_state w)) (w_started w) (w_stopped w) (w_splits w) (w_duration w) t = enc_out (restart clk w t).
Proof. by_cases w. Qed.

Lemma gen_elapsed_equiv clk w t maximum :
  gen_elapsed clk (enc_state (w_state w)) (w_started w) (w_stopped w) (w_splits w) (w_duration w) t maximum
  = enc_out (elapsed clk w t maximum).
Proof.
  destruct w as [[| |] [s|] [p|] l d]; destruct maximum as [m|]; try reflexivity;
    unfold gen_elapsed, elapsed, enc_out, enc, clamp_max; norm; rewrite ?gen_delta_seconds_equiv; try reflexivity;
    pose proof (delta_nonneg_A s (clk t)); try pose proof (delta_nonneg_A s p);
    repeat match goal with |- context [if ?c then _ else _] => destruct c eqn:? end;
    same_number.
Qed.

(* from here on the translated elapsed() is used through its equivalence only *)
Ltac use_elapsed clk st sa so sl sd t m :=
  let HE := fresh "HE" in
  pose proof (gen_elapsed_equiv clk (mkWatch st sa so sl sd) t m) as HE;
  cbn [enc_state w_state w_started w_stopped w_splits w_duration] in HE; rewrite HE; clear HE;
  unfold elapsed, enc_out, enc, clamp_max; norm.

Lemma gen_split_equiv clk w t :
  gen_split clk (enc_state (w_state w)) (w_started w) (w_stopped w) (w_splits w) (w_duration w) t = enc_out (split_ clk w t).
Proof.
  destruct w as [[| |] [s|] p l d]; try reflexivity; unfold gen_split, split_, enc_out, enc; norm.
  use_elapsed clk SStarted (Some s) p l d t (@None Z). unfold set_splits. norm.
    pose proof (nonempty_last l) as HL.
    destruct (last_opt l) as [x|] eqn:EL.
    + rewrite HL. rewrite !last_opt_app. unfold gen_Split, gen_Split_elapsed. rewrite (gen_delta_seconds_equiv (sp_elapsed x)). reflexivity.
    + subst l. cbn [nonempty app]. reflexivity.
Qed.

Lemma gen_leftover_equiv clk w t return_none :
  gen_leftover clk (enc_state (w_state w)) (w_started w) (w_stopped w) (w_splits w) (w_duration w) t return_none
  = enc_out (leftover clk w t return_none).
Proof.
  destruct w as [[| |] sa p l [d|]]; destruct return_none; try reflexivity;
    unfold gen_leftover, leftover, enc_out, enc; norm;
    use_elapsed clk SStarted sa p l (Some d) t (@None Z); destruct sa; norm; same_number.
Qed.

Lemma gen_expired_equiv clk w t :
  gen_expired clk (enc_state (w_state w)) (w_started w) (w_stopped w) (w_splits w) (w_duration w) t = enc_out (expired clk w t).
Proof.
  destruct w as [[| |] sa so l [d|]]; try reflexivity; unfold gen_expired, expired, enc_out, enc; norm.
  - use_elapsed clk SStarted sa so l (Some d) t (@None Z). destruct sa; norm; same_number.
  - use_elapsed clk SStopped sa so l (Some d) t (@None Z). destruct sa, so; norm; same_number.
Qed.

Lemma gen_has_started_equiv clk w t :
  gen_has_started clk (enc_state (w_state w)) (w_started w) (w_stopped w) (w_splits w) (w_duration w) t = enc_out (has_started w t).
Proof. by_cases w. Qed.

Lemma gen_has_stopped_equiv clk w t :
  gen_has_stopped clk (enc_state (w_state w)) (w_started w) (w_stopped w) (w_splits w) (w_duration w) t = enc_out (has_stopped w t).
Proof. by_cases w. Qed.

Lemma gen_splits_equiv clk w t :
  gen_splits clk (enc_state (w_state w)) (w_started w) (w_stopped w) (w_splits w) (w_duration w) t = enc_out (splits w t).
Proof. by_cases w. Qed.

Lemma gen_enter_equiv clk w t :
  gen_enter clk (enc_state (w_state w)) (w_started w) (w_stopped w) (w_splits w) (w_duration w) t = enc_out (enter clk w t).
Proof. by_cases w. Qed.

(* whatever the exception triple is: the arguments are ignored, the return value is None (never True: the
   exception of the with-body is not suppressed) *)
Lemma gen_exit_equiv clk w t type value traceback :
  gen_exit clk (enc_state (w_state w)) (w_started w) (w_stopped w) (w_splits w) (w_duration w) t type value traceback
  = (enc (fst (exit_ clk w t)), match snd (exit_ clk w t) with Ok _ => Ok None | Exn e => Exn e end).
Proof. destruct type, value, traceback; by_cases w. Qed.

Local Transparent delta.

(* the default arguments of the source are the ones the property's calls use *)
Lemma gen_defaults_equiv :
  gen_elapsed_default_maximum = None /\ gen_leftover_default_return_none = false /\ gen_init_default_duration = None.
Proof. repeat split. Qed.

(* ===================================================================== *)
(* B. properties of the model                                            *)
(* ===================================================================== *)

Arguments delta : simpl never.
Arguments clamp_max : simpl never.

Lemma delta_nonneg a b : 0 <= delta a b.
Proof. unfold delta. lia. Qed.

Lemma delta_exact a b : a <= b -> delta a b = b - a.
Proof. unfold delta. lia. Qed.

Lemma clamp_max_nonneg m e : 0 <= e -> 0 <= clamp_max m e.
Proof. unfold clamp_max. destruct m as [m|]; [destruct (e >? m)|]; lia. Qed.

Lemma clamp_max_none e : clamp_max None e = e.
Proof. reflexivity. Qed.

Lemma clamp_max_some m e : clamp_max (Some m) e = if e <=? m then e else Z.max 0 m.
Proof. unfold clamp_max. destruct (e >? m) eqn:E1, (e <=? m) eqn:E2; lia. Qed.

Lemma clamp_max_le m e : clamp_max (Some m) e <= Z.max 0 m.
Proof. rewrite clamp_max_some. destruct (e <=? m) eqn:E; lia. Qed.

Lemma monotone_uptob_spec clk n : monotone_uptob clk n = true <-> monotone_upto clk n.
Proof.
  unfold monotone_uptob, monotone_upto. rewrite forallb_forall. split.
  - intros H i Hi. apply Z.leb_le, H, in_seq. lia.
  - intros H i Hi. apply in_seq in Hi. apply Z.leb_le, H. lia.
Qed.

Lemma monotone_le clk n : monotone_upto clk n -> forall i j, (i <= j < n)%nat -> clk i <= clk j.
Proof.
  intros H i j [Hij Hj]. induction j as [|j IH].
  - assert (i = 0%nat) by lia. subst. lia.
  - destruct (Nat.eq_dec i (S j)) as [->|Hne]; [lia|].
    transitivity (clk j); [apply IH; lia|apply H; lia].
Qed.

Lemma monotone_upto_weaken clk n m : (m <= n)%nat -> monotone_upto clk n -> monotone_upto clk m.
Proof. intros Hm H i Hi. apply H. lia. Qed.

Section Invariant.
Variable clk : nat -> Z.

(* the splits obtained by reading the clock at the ticks ks while started_at = s *)
Fixpoint build (s : Z) (prev : option Z) (ks : list nat) : list split :=
  match ks with
  | [] => []
  | k :: r =>
      let e := delta s (clk k) in
      mkSplit e (match prev with Some p => delta p e | None => e end) :: build s (Some e) r
  end.

Definition lastE (prev : option Z) (l : list split) : option Z :=
  match last_opt l with Some x => Some (sp_elapsed x) | None => prev end.

Lemma build_snoc s prev ks k :
  build s prev (ks ++ [k]) =
  build s prev ks ++ [mkSplit (delta s (clk k))
                        (match lastE prev (build s prev ks) with
                         | Some p => delta p (delta s (clk k)) | None => delta s (clk k) end)].
Proof.
  revert prev. induction ks as [|a r IH]; intro prev; [reflexivity|].
  cbn [build app]. rewrite IH. do 3 f_equal.
  unfold lastE. rewrite last_opt_cons.
  destruct (last_opt (build s (Some (delta s (clk a))) r)); reflexivity.
Qed.

Definition ticks_ok (i t : nat) (ks : list nat) : Prop :=
  StronglySorted lt ks /\ Forall (fun k => (i < k < t)%nat) ks.

Lemma ticks_ok_nil i t : ticks_ok i t [].
Proof. split; constructor. Qed.

Lemma ticks_ok_weaken i t t' ks : (t <= t')%nat -> ticks_ok i t ks -> ticks_ok i t' ks.
Proof.
  intros Ht [Hs Hf]. split; [exact Hs|].
  eapply Forall_impl; [|exact Hf]. cbn. intros; lia.
Qed.

Lemma StronglySorted_snoc (ks : list nat) t :
  StronglySorted lt ks -> Forall (fun k => (k < t)%nat) ks -> StronglySorted lt (ks ++ [t]).
Proof.
  induction 1 as [|a r Hs IH Ha]; intro Hf; cbn [app].
  - constructor; constructor.
  - inversion Hf as [|? ? Hat Hr]; subst. constructor; [apply IH; exact Hr|].
    apply Forall_app. split; [exact Ha|constructor; [exact Hat|constructor]].
Qed.

Lemma ticks_ok_snoc i t ks : (i < t)%nat -> ticks_ok i t ks -> ticks_ok i (S t) (ks ++ [t]).
Proof.
  intros Hi [Hs Hf]. split.
  - apply StronglySorted_snoc; [exact Hs|]. eapply Forall_impl; [|exact Hf]. cbn. intros; lia.
  - apply Forall_app. split; [eapply Forall_impl; [|exact Hf]; cbn; intros; lia|].
    constructor; [lia|constructor].
Qed.

(* the invariant of every reachable configuration *)
Definition wf (c : cfg) : Prop :=
  let w := fst c in
  let t := snd c in
  match w_state w with
  | SNone => w_started w = None /\ w_stopped w = None /\ w_splits w = []
  | SStarted =>
      exists i ks, (i < t)%nat /\ w_started w = Some (clk i) /\ ticks_ok i t ks /\
                   w_splits w = build (clk i) None ks
  | SStopped =>
      exists i j ks, (i < j < t)%nat /\ w_started w = Some (clk i) /\ w_stopped w = Some (clk j) /\
                     ticks_ok i t ks /\ w_splits w = build (clk i) None ks
  end.

Ltac wcases w :=
  destruct w as [st sa so sl sd]; destruct st;
  cbn [fst snd w_state w_started w_stopped w_splits w_duration set_state set_splits] in *.

Lemma init_wf duration w0 : init duration = Ok w0 -> wf (w0, 0%nat).
Proof.
  unfold init. destruct duration as [d|]; [destruct (d <? 0)|]; intro H; inversion H; subst;
    cbn; repeat split.
Qed.

Lemma start_wf w t : wf (w, t) -> wf (fst (start clk w t)).
Proof.
  unfold wf, start. wcases w; intro H; cbn [fst snd w_state w_started w_stopped w_splits w_duration].
  - exists t, []. split; [lia|]. split; [reflexivity|]. split; [apply ticks_ok_nil|reflexivity].
  - exact H.
  - exists t, []. split; [lia|]. split; [reflexivity|]. split; [apply ticks_ok_nil|reflexivity].
Qed.

Lemma stop_wf w t : wf (w, t) -> wf (fst (stop clk w t)).
Proof.
  unfold wf, stop. wcases w; intro H; cbn [fst snd w_state w_started w_stopped w_splits w_duration]; try exact H.
  destruct H as (i & ks & Hi & Hs & Hk & Hb). exists i, t, ks.
  split; [lia|]. split; [exact Hs|]. split; [reflexivity|]. split; [|exact Hb].
  eapply ticks_ok_weaken; [|exact Hk]. lia.
Qed.

Lemma resume_wf w t : wf (w, t) -> wf (fst (resume w t)).
Proof.
  unfold wf, resume. wcases w; intro H; cbn [fst snd w_state w_started w_stopped w_splits w_duration]; try exact H.
  destruct H as (i & j & ks & Hi & Hs & Hp & Hk & Hb). exists i, ks.
  split; [lia|]. split; [exact Hs|]. split; [exact Hk|exact Hb].
Qed.

Lemma restart_wf w t : wf (w, t) -> wf (fst (restart clk w t)).
Proof.
  unfold wf, restart. wcases w; intro H; cbn [fst snd w_state w_started w_stopped w_splits w_duration].
  - exists t, []. split; [lia|]. split; [reflexivity|]. split; [apply ticks_ok_nil|reflexivity].
  - exists (S t), []. split; [lia|]. split; [reflexivity|]. split; [apply ticks_ok_nil|reflexivity].
  - exists t, []. split; [lia|]. split; [reflexivity|]. split; [apply ticks_ok_nil|reflexivity].
Qed.

Lemma elapsed_wf w t m : wf (w, t) -> wf (fst (elapsed clk w t m)).
Proof.
  unfold wf, elapsed. wcases w; intro H; cbn [fst snd w_state w_started w_stopped w_splits w_duration].
  - exact H.
  - destruct H as (i & ks & Hi & Hs & Hk & Hb). subst sa.
    cbn [fst snd w_state w_started w_stopped w_splits w_duration].
    exists i, ks. split; [lia|]. split; [reflexivity|]. split; [|exact Hb].
    eapply ticks_ok_weaken; [|exact Hk]. lia.
  - destruct H as (i & j & ks & Hi & Hs & Hp & Hk & Hb). subst sa so.
    cbn [fst snd w_state w_started w_stopped w_splits w_duration].
    exists i, j, ks. split; [lia|]. split; [reflexivity|]. split; [reflexivity|]. split; [exact Hk|exact Hb].
Qed.

Lemma split_wf w t : wf (w, t) -> wf (fst (split_ clk w t)).
Proof.
  unfold wf, split_. wcases w; intro H; cbn [fst snd w_state w_started w_stopped w_splits w_duration]; try exact H.
  destruct H as (i & ks & Hi & Hs & Hk & Hb). subst sa.
  cbn [fst snd w_state w_started w_stopped w_splits w_duration set_splits].
  exists i, (ks ++ [t]). split; [lia|]. split; [reflexivity|]. split.
  - apply ticks_ok_snoc; assumption.
  - rewrite build_snoc, <- Hb. unfold lastE. destruct (last_opt sl); reflexivity.
Qed.

Lemma leftover_wf w t rn : wf (w, t) -> wf (fst (leftover clk w t rn)).
Proof.
  intro H. unfold leftover.
  destruct (w_state w); try exact H. destruct (w_duration w); [|destruct rn; exact H].
  pose proof (elapsed_wf w t None H) as HE.
  destruct (elapsed clk w t None) as [c [e|x]]; exact HE.
Qed.

Lemma expired_wf w t : wf (w, t) -> wf (fst (expired clk w t)).
Proof.
  intro H. unfold expired.
  destruct (w_state w); try exact H; (destruct (w_duration w); [|exact H]);
    pose proof (elapsed_wf w t None H) as HE;
    destruct (elapsed clk w t None) as [c [e|x]]; exact HE.
Qed.

Lemma exit_wf w t : wf (w, t) -> wf (fst (exit_ clk w t)).
Proof.
  intro H. unfold exit_. pose proof (stop_wf w t H) as HS.
  destruct (stop clk w t) as [c [u|x]]; [exact HS|]. destruct x; exact HS.
Qed.

Lemma fst_wrap {A} (f : A -> value) (o : out A) : fst (wrap f o) = fst o.
Proof. destruct o as [c [a|e]]; reflexivity. Qed.

Lemma step_wf o w t : wf (w, t) -> wf (fst (step clk o w t)).
Proof.
  intro H. destruct o; unfold step; rewrite fst_wrap.
  - apply start_wf, H.
  - apply stop_wf, H.
  - apply resume_wf, H.
  - apply restart_wf, H.
  - apply split_wf, H.
  - apply elapsed_wf, H.
  - apply leftover_wf, H.
  - apply expired_wf, H.
  - exact H.
  - exact H.
  - exact H.
  - apply start_wf, H.
  - apply exit_wf, H.
Qed.

Lemma final_wf ops : forall w t, wf (w, t) -> wf (final clk ops w t).
Proof.
  induction ops as [|o r IH]; intros w t H; [exact H|].
  cbn [final]. pose proof (step_wf o w t H) as HS.
  destruct (step clk o w t) as [[w' t'] res]. apply IH, HS.
Qed.

Lemma reachable_wf c : reachable clk c -> wf c.
Proof.
  intros (d & w0 & ops & Hi & Hf). subst c. apply final_wf. eapply init_wf, Hi.
Qed.

Lemma final_app ops1 ops2 w t :
  final clk (ops1 ++ ops2) w t = final clk ops2 (fst (final clk ops1 w t)) (snd (final clk ops1 w t)).
Proof.
  revert w t. induction ops1 as [|o r IH]; intros w t; [reflexivity|].
  cbn [app final]. destruct (step clk o w t) as [[w' t'] res]. apply IH.
Qed.

Lemma reachable_step o w t : reachable clk (w, t) -> reachable clk (fst (step clk o w t)).
Proof.
  intros (d & w0 & ops & Hi & Hf). exists d, w0, (ops ++ [o]). split; [exact Hi|].
  rewrite final_app, Hf. cbn [fst snd final]. destruct (step clk o w t) as [[w' t'] res]. reflexivity.
Qed.

Lemma reachable_init duration w0 : init duration = Ok w0 -> reachable clk (w0, 0%nat).
Proof. intro H. exists duration, w0, []. split; [exact H|reflexivity]. Qed.

(* every configuration of a history is reachable, so a statement about all reachable
   configurations and all next calls is a statement about every call of every history *)
Lemma trace_Forall (P : cfg * res value -> Prop) :
  (forall o w t, reachable clk (w, t) -> P (step clk o w t)) ->
  forall ops w t, reachable clk (w, t) -> Forall P (trace clk ops w t).
Proof.
  intros HP ops. induction ops as [|o r IH]; intros w t HR; [constructor|].
  cbn [trace]. pose proof (reachable_step o w t HR) as HS. pose proof (HP o w t HR) as HPo.
  destruct (step clk o w t) as [[w' t'] res] eqn:E. constructor; [exact HPo|apply IH, HS].
Qed.

End Invariant.

Section Props.
Variable clk : nat -> Z.

Ltac wcases w :=
  destruct w as [st sa so sl sd]; destruct st;
  cbn [fst snd w_state w_started w_stopped w_splits w_duration set_state set_splits] in *.

(* ---- elapsed ---- *)

Lemma elapsed_nonneg w t m c e : elapsed clk w t m = (c, Ok e) -> 0 <= e.
Proof.
  unfold elapsed. destruct (w_state w), (w_started w), (w_stopped w); intro H; inversion H; subst;
    apply clamp_max_nonneg, delta_nonneg.
Qed.

Lemma elapsed_running w t :
  reachable clk (w, t) -> w_state w = SStarted ->
  exists s, w_started w = Some s /\
    (forall m, elapsed clk w t m = ((w, S t), Ok (clamp_max m (Z.max 0 (clk t - s))))) /\
    (monotone_uptob clk (S t) = true -> 0 <= clk t - s /\ elapsed clk w t None = ((w, S t), Ok (clk t - s))).
Proof.
  intros HR HS. apply reachable_wf in HR. unfold wf in HR. cbn [fst snd] in HR. rewrite HS in HR.
  destruct HR as (i & ks & Hi & Hst & _ & _). exists (clk i). split; [exact Hst|].
  assert (HE : forall m, elapsed clk w t m = (w, S t, Ok (clamp_max m (Z.max 0 (clk t - clk i))))).
  { intro m. unfold elapsed. rewrite HS, Hst. reflexivity. }
  split; [exact HE|]. intro HM. apply monotone_uptob_spec in HM.
  assert (clk i <= clk t) by (apply (monotone_le clk (S t) HM); lia).
  split; [lia|]. rewrite HE, clamp_max_none. do 2 f_equal. lia.
Qed.

Lemma elapsed_stopped w t :
  reachable clk (w, t) -> w_state w = SStopped ->
  exists s p, w_started w = Some s /\ w_stopped w = Some p /\
    (forall m, elapsed clk w t m = ((w, t), Ok (clamp_max m (Z.max 0 (p - s))))) /\
    (monotone_uptob clk t = true -> 0 <= p - s /\ elapsed clk w t None = ((w, t), Ok (p - s))).
Proof.
  intros HR HS. apply reachable_wf in HR. unfold wf in HR. cbn [fst snd] in HR. rewrite HS in HR.
  destruct HR as (i & j & ks & Hi & Hst & Hsp & _ & _). exists (clk i), (clk j).
  split; [exact Hst|]. split; [exact Hsp|].
  assert (HE : forall m, elapsed clk w t m = (w, t, Ok (clamp_max m (Z.max 0 (clk j - clk i))))).
  { intro m. unfold elapsed. rewrite HS, Hst, Hsp. reflexivity. }
  split; [exact HE|]. intro HM. apply monotone_uptob_spec in HM.
  assert (clk i <= clk j) by (apply (monotone_le clk t HM); lia).
  split; [lia|]. rewrite HE, clamp_max_none. do 2 f_equal. lia.
Qed.

Lemma elapsed_max w t m c e :
  elapsed clk w t (Some m) = (c, Ok e) ->
  exists e0, elapsed clk w t None = (c, Ok e0) /\
             e = (if e0 <=? m then e0 else Z.max 0 m) /\ e <= Z.max 0 m /\ (0 <= m -> e <= m).
Proof.
  unfold elapsed. destruct (w_state w), (w_started w) as [s|], (w_stopped w) as [p|]; intro H; inversion H; subst;
    (eexists; split; [reflexivity|]); rewrite clamp_max_none;
    (split; [apply clamp_max_some|]); pose proof (clamp_max_le m) as HL;
    (split; [apply HL|intro; etransitivity; [apply HL|lia]]).
Qed.

(* ---- leftover / expired ---- *)

Lemma leftover_spec w t rn :
  w_state w = SStarted ->
  match w_duration w with
  | Some d => forall c e, elapsed clk w t None = (c, Ok e) ->
                          leftover clk w t rn = (c, Ok (Some (Z.max 0 (d - e))))
  | None => leftover clk w t rn = ((w, t), if rn then Ok None else Exn RuntimeError)
  end.
Proof.
  intro HS. unfold leftover. rewrite HS. destruct (w_duration w) as [d|].
  - intros c e HE. rewrite HE. reflexivity.
  - destruct rn; reflexivity.
Qed.

Lemma expired_spec w t :
  w_state w <> SNone ->
  match w_duration w with
  | Some d => forall c e, elapsed clk w t None = (c, Ok e) ->
                          exists b, expired clk w t = (c, Ok b) /\ (b = true <-> e > d)
  | None => expired clk w t = ((w, t), Ok false)
  end.
Proof.
  intro HS. unfold expired. destruct (w_state w); [congruence| |]; (destruct (w_duration w) as [d|]; [|reflexivity]);
    intros c e HE; rewrite HE; exists (e >? d); (split; [reflexivity|]); rewrite Z.gtb_gt; reflexivity.
Qed.

(* ---- legality ---- *)

Lemma illegal_raises o w t : legal o w = false -> step clk o w t = ((w, t), Exn RuntimeError).
Proof.
  destruct o; try destruct return_none; wcases w; try destruct sd; cbn; intro H; try discriminate H; reflexivity.
Qed.

Lemma legal_returns o w t :
  reachable clk (w, t) -> legal o w = true -> exists c v, step clk o w t = (c, Ok v).
Proof.
  intros HR HL. apply reachable_wf in HR. unfold wf in HR.
  destruct o; try destruct return_none; wcases w; try destruct sd; cbn in HL; try discriminate HL;
    try (destruct HR as (i & ks & Hi & Hst & _ & _); subst sa);
    try (destruct HR as (i & j & ks & Hi & Hst & Hsp & _ & _); subst sa so);
    cbn; eexists; eexists; reflexivity.
Qed.

Lemma only_runtime_errors o w t c e :
  reachable clk (w, t) -> step clk o w t = (c, Exn e) -> e = RuntimeError /\ c = (w, t) /\ legal o w = false.
Proof.
  intros HR HS. destruct (legal o w) eqn:HL.
  - destruct (legal_returns o w t HR HL) as (c' & v & HS'). congruence.
  - rewrite (illegal_raises o w t HL) in HS. inversion HS. auto.
Qed.

Lemma legality_table w m rn :
  map (fun o => legal o w) (all_ops m rn) =
  match w_state w with
  | SNone =>    [true; false; false; true; false; false; false; false; true; true; true; true; true; true]
  | SStarted => [true; true;  false; true; true;  true;
                 match w_duration w with Some _ => true | None => rn end;
                                                                true;  true; true; true; true; true; true]
  | SStopped => [true; true;  true;  true; false; true;  false; true;  true; true; true; true; true; true]
  end.
Proof. wcases w; reflexivity. Qed.

(* ---- number of clock readings ---- *)

Lemma step_cost o w t : snd (fst (step clk o w t)) = (t + cost o w)%nat.
Proof.
  destruct o; try destruct return_none; wcases w; try destruct sa; try destruct so; try destruct sd; cbn; lia.
Qed.

(* ---- (re)starts, stops and the timestamps ---- *)

Lemma restart_effect o w t :
  effective_restart o w = true ->
  exists t', step clk o w t = ((mkWatch SStarted (Some (clk t')) None [] (w_duration w), S t'), Ok VSelf) /\ (t <= t')%nat.
Proof.
  destruct o; wcases w; cbn; intro H; try discriminate H;
    try (exists t; split; [reflexivity|lia]); exists (S t); split; [reflexivity|lia].
Qed.

Lemma started_at_frame o w t :
  effective_restart o w = false -> w_started (fst (fst (step clk o w t))) = w_started w.
Proof.
  destruct o; try destruct return_none; wcases w; try destruct sa; try destruct so; try destruct sd; cbn; intro H;
    try discriminate H; reflexivity.
Qed.

Lemma stop_effect o w t :
  effective_stop o w = true ->
  exists v, step clk o w t =
            ((mkWatch SStopped (w_started w) (Some (clk t)) (w_splits w) (w_duration w), S t), Ok v).
Proof.
  destruct o; wcases w; cbn; intro H; try discriminate H; eexists; reflexivity.
Qed.

Lemma stopped_at_frame o w t :
  effective_stop o w = false -> effective_restart o w = false ->
  w_stopped (fst (fst (step clk o w t))) = w_stopped w.
Proof.
  destruct o; try destruct return_none; wcases w; try destruct sa; try destruct so; try destruct sd; cbn; intros H1 H2;
    try discriminate H1; try discriminate H2; reflexivity.
Qed.

Lemma state_transitions o w t :
  w_state (fst (fst (step clk o w t))) =
  if effective_restart o w then SStarted
  else if effective_stop o w then SStopped
  else match o, w_state w with OResume, SStopped => SStarted | _, s => s end.
Proof.
  destruct o; try destruct return_none; wcases w; try destruct sa; try destruct so; try destruct sd; reflexivity.
Qed.

(* ---- the context-manager protocol ---- *)

(* __exit__ with or without an exception triple: never raises, returns None (the exception of the body
   propagates), stops a running watch at the reading it takes and leaves any other watch as it is *)
Lemma exit_spec exc w t :
  step clk (OExit exc) w t =
  (match w_state w with
   | SStarted => (mkWatch SStopped (w_started w) (Some (clk t)) (w_splits w) (w_duration w), S t)
   | _ => (w, t)
   end, Ok VNone).
Proof. wcases w; reflexivity. Qed.

Lemma step_not_none o w t : w_state w <> SNone -> w_state (fst (fst (step clk o w t))) <> SNone.
Proof.
  intro H. rewrite state_transitions.
  destruct (effective_restart o w); [discriminate|]. destruct (effective_stop o w); [discriminate|].
  destruct o; try exact H; destruct (w_state w); try exact H; discriminate.
Qed.

Lemma final_not_none ops : forall w t, w_state w <> SNone -> w_state (fst (final clk ops w t)) <> SNone.
Proof.
  induction ops as [|o r IH]; intros w t H; [exact H|].
  cbn [final]. pose proof (step_not_none o w t H) as HS.
  destruct (step clk o w t) as [[w' t'] res]. apply IH, HS.
Qed.

(* after  with sw: body [raise X]  the watch is stopped, whatever the body did and whether or not it raised;
   if the body left it running, _stopped_at is the reading taken by __exit__ *)
Lemma with_block_stops body exc w0 t0 :
  let c1 := final clk (OEnter :: body) w0 t0 in
  let c2 := final clk (with_block body exc) w0 t0 in
  w_state (fst c2) = SStopped /\
  (w_state (fst c1) = SStarted -> w_stopped (fst c2) = Some (clk (snd c1)) /\ snd c2 = S (snd c1)) /\
  (w_state (fst c1) = SStopped -> c2 = c1).
Proof.
  intros c1 c2. subst c2. unfold with_block.
  change (OEnter :: body ++ [OExit exc]) with ((OEnter :: body) ++ [OExit exc]).
  rewrite final_app. fold c1. cbn [final]. rewrite exit_spec.
  assert (HN : w_state (fst c1) <> SNone).
  { subst c1. destruct w0 as [[| |] a b l d]; cbn [final step enter start wrap w_state w_duration];
      apply final_not_none; cbn [w_state]; discriminate. }
  destruct c1 as [w1 t1]. cbn [fst snd] in *.
  destruct (w_state w1) eqn:E; [congruence| |]; cbn [fst snd w_state w_stopped].
  - split; [reflexivity|]. split; [intros _; split; reflexivity|discriminate].
  - split; [exact E|]. split; [discriminate|reflexivity].
Qed.

(* ---- splits ---- *)

Lemma split_records w t c sp :
  split_ clk w t = (c, Ok sp) ->
  exists e, elapsed clk w t None = ((w, snd c), Ok e) /\ sp_elapsed sp = e /\
            sp_length sp = match last_opt (w_splits w) with
                           | Some l => Z.max 0 (e - sp_elapsed l) | None => e end /\
            fst c = set_splits w (w_splits w ++ [sp]).
Proof.
  unfold split_, elapsed. destruct (w_state w); try discriminate. destruct (w_started w) as [s|]; [|discriminate].
  intro H. inversion H; subst. cbn [snd fst]. eexists. split; [reflexivity|].
  rewrite clamp_max_none. cbn [sp_elapsed sp_length]. repeat split.
Qed.

Lemma splits_frame o w t :
  w_splits (fst (fst (step clk o w t))) =
  if effective_restart o w then []
  else match o, snd (step clk o w t) with
       | OSplit, Ok (VSplit sp) => w_splits w ++ [sp]
       | _, _ => w_splits w
       end.
Proof.
  destruct o; try destruct return_none; wcases w; try destruct sa; try destruct so; try destruct sd; reflexivity.
Qed.

Lemma build_elapsed s prev ks :
  map sp_elapsed (build clk s prev ks) = map (fun k => delta s (clk k)) ks.
Proof.
  revert prev. induction ks as [|k r IH]; intro prev; [reflexivity|].
  cbn [build map sp_elapsed]. rewrite IH. reflexivity.
Qed.

Lemma build_clamped s prev ks : clamped_diffs_from prev (build clk s prev ks).
Proof.
  revert prev. induction ks as [|k r IH]; intro prev; [exact I|].
  cbn [build clamped_diffs_from sp_elapsed sp_length]. split; [reflexivity|apply IH].
Qed.

Lemma build_nonneg s prev ks :
  Forall (fun x => 0 <= sp_elapsed x /\ 0 <= sp_length x) (build clk s prev ks).
Proof.
  revert prev. induction ks as [|k r IH]; intro prev; [constructor|].
  cbn [build]. constructor; [|apply IH]. cbn [sp_elapsed sp_length].
  split; [apply delta_nonneg|]. destruct prev; apply delta_nonneg.
Qed.

Lemma sorted_elapsed i t ks :
  monotone_upto clk t -> ticks_ok i t ks ->
  StronglySorted Z.le (map (fun k => delta (clk i) (clk k)) ks).
Proof.
  intros HM [Hs Hf]. induction Hs as [|a r Hs IH Ha]; [constructor|].
  inversion Hf as [|? ? Hat Hr]; subst. cbn [map]. constructor; [apply IH, Hr|].
  rewrite Forall_map. rewrite Forall_forall in *. intros k Hk.
  assert (clk a <= clk k) by (apply (monotone_le clk t HM); specialize (Ha k Hk); specialize (Hr k Hk); lia).
  unfold delta. lia.
Qed.

Lemma clamped_sorted_diffs l : forall p,
  clamped_diffs_from (Some p) l -> StronglySorted Z.le (p :: map sp_elapsed l) -> diffs_from p l.
Proof.
  induction l as [|x r IH]; intros p HC HS; [exact I|].
  cbn [clamped_diffs_from diffs_from map] in *. destruct HC as [HL HC].
  inversion HS as [|? ? HS' Hall]; subst. inversion Hall as [|? ? Hpx _]; subst.
  split; [rewrite HL; apply delta_exact, Hpx|]. apply IH; [exact HC|exact HS'].
Qed.

Lemma splits_clamped w t :
  reachable clk (w, t) ->
  clamped_diffs_from None (w_splits w) /\ Forall (fun x => 0 <= sp_elapsed x /\ 0 <= sp_length x) (w_splits w).
Proof.
  intro HR. apply reachable_wf in HR. unfold wf in HR. cbn [fst snd] in HR.
  destruct (w_state w).
  - destruct HR as (_ & _ & ->). split; [exact I|constructor].
  - destruct HR as (i & ks & _ & _ & _ & ->). split; [apply build_clamped|apply build_nonneg].
  - destruct HR as (i & j & ks & _ & _ & _ & _ & ->). split; [apply build_clamped|apply build_nonneg].
Qed.

Lemma splits_monotone w t :
  reachable clk (w, t) -> monotone_uptob clk t = true ->
  StronglySorted Z.le (map sp_elapsed (w_splits w)) /\ diffs_from 0 (w_splits w).
Proof.
  intros HR HM. apply monotone_uptob_spec in HM.
  destruct (splits_clamped w t HR) as [HC HN].
  apply reachable_wf in HR. unfold wf in HR. cbn [fst snd] in HR.
  assert (HS : StronglySorted Z.le (map sp_elapsed (w_splits w))).
  { destruct (w_state w).
    - destruct HR as (_ & _ & ->). constructor.
    - destruct HR as (i & ks & _ & _ & Hk & ->). rewrite build_elapsed. eapply sorted_elapsed; eassumption.
    - destruct HR as (i & j & ks & _ & _ & _ & Hk & ->). rewrite build_elapsed. eapply sorted_elapsed; eassumption. }
  split; [exact HS|].
  destruct (w_splits w) as [|x r]; [exact I|].
  cbn [clamped_diffs_from diffs_from map] in *. destruct HC as [HL HC].
  split; [lia|]. apply clamped_sorted_diffs; assumption.
Qed.

(* ---- histories ---- *)

Lemma history_numbers_nonneg duration w0 ops :
  init duration = Ok w0 ->
  Forall (fun cr => forall z, snd cr = Ok (VNum z) -> 0 <= z) (trace clk ops w0 0%nat).
Proof.
  intro Hi. apply trace_Forall; [|eapply reachable_init, Hi].
  intros o w t _ z. destruct o; unfold step, wrap; cbn [snd].
  all: try match goal with |- context [match ?m with (_, _) => _ end] => destruct m as [c [a|e]] eqn:E end; cbn [snd]; intro H; try discriminate H.
  - inversion H; subst. eapply elapsed_nonneg, E.
  - destruct a as [z'|]; inversion H; subst. clear H.
    unfold leftover in E. destruct (w_state w); try discriminate E.
    destruct (w_duration w); [|destruct return_none; discriminate E].
    destruct (elapsed clk w t None) as [c' [e'|x]]; inversion E. lia.
Qed.

Lemma history_only_runtime_errors duration w0 ops :
  init duration = Ok w0 ->
  Forall (fun cr => forall e, snd cr = Exn e -> e = RuntimeError) (trace clk ops w0 0%nat).
Proof.
  intro Hi. apply trace_Forall; [|eapply reachable_init, Hi].
  intros o w t HR e. destruct (step clk o w t) as [c r] eqn:E. cbn [snd]. intro H. subst r.
  eapply only_runtime_errors; eassumption.
Qed.

End Props.

(* ===================================================================== *)
(* C. non-vacuity: instances of the hypotheses, and negative controls     *)
(* ===================================================================== *)

Definition ex_clk : nat -> Z := fun n => 100 + 3 * Z.of_nat n.
Definition ex_back : nat -> Z := fun n => 100 - Z.of_nat n.
Definition ex_watch : watch := mkWatch SNone None None [] (Some 5).
Definition ex_ops : list op := [OStart; OSplit; OSplit; OStop; OResume; OSplit].

Lemma ex_watch_init : init (Some 5) = Ok ex_watch.
Proof. reflexivity. Qed.

(* a reachable running watch under a monotonic clock: start@100, splits@103,106, stop@109, resume, split@112 *)
Example ex_running :
  let c := final ex_clk ex_ops ex_watch 0 in
  reachable ex_clk c /\ w_state (fst c) = SStarted /\ snd c = 5%nat /\
  monotone_uptob ex_clk 6 = true /\
  w_splits (fst c) = [mkSplit 3 3; mkSplit 6 3; mkSplit 12 6] /\
  elapsed ex_clk (fst c) 5 None = ((fst c, 6%nat), Ok 15) /\
  elapsed ex_clk (fst c) 5 (Some 4) = ((fst c, 6%nat), Ok 4) /\
  leftover ex_clk (fst c) 5 false = ((fst c, 6%nat), Ok (Some 0)) /\
  expired ex_clk (fst c) 5 = ((fst c, 6%nat), Ok true).
Proof.
  split; [exists (Some 5), ex_watch, ex_ops; split; reflexivity|]. vm_compute. repeat split.
Qed.

(* a reachable stopped watch *)
Example ex_stopped :
  let c := final ex_clk [OStart; OSplit; OStop] ex_watch 0 in
  reachable ex_clk c /\ w_state (fst c) = SStopped /\ monotone_uptob ex_clk (snd c) = true /\
  elapsed ex_clk (fst c) (snd c) None = (c, Ok 6) /\
  legal OSplit (fst c) = false /\ legal OResume (fst c) = true /\ legal (OLeftover true) (fst c) = false.
Proof.
  split; [exists (Some 5), ex_watch, [OStart; OSplit; OStop]; split; reflexivity|]. vm_compute. repeat split.
Qed.

(* illegal calls exist in every state; on a fresh watch: stop, resume, split, elapsed, leftover, expired *)
Example ex_illegal :
  map (fun o => legal o ex_watch) (all_ops None false) =
  [true; false; false; true; false; false; false; false; true; true; true; true; true; true] /\
  step ex_clk OResume ex_watch 0 = ((ex_watch, 0%nat), Exn RuntimeError).
Proof. split; reflexivity. Qed.

(* negative control: on a clock that runs backwards the elapsed time is clamped at 0,
   it is NOT the (negative) clock distance — the monotonic-clock hypothesis is needed *)
Example ex_backwards_clock :
  let c := final ex_back [OStart] ex_watch 0 in
  monotone_uptob ex_back 2 = false /\
  elapsed ex_back (fst c) (snd c) None = ((fst c, 2%nat), Ok 0) /\ ex_back 1 - ex_back 0 = -1.
Proof. vm_compute. repeat split. Qed.

(* negative control: a negative maximum is answered by 0, which exceeds it — "never exceeds the
   requested maximum" needs 0 <= maximum (it contradicts "never negative" otherwise) *)
Example ex_negative_maximum :
  let c := final ex_clk [OStart] ex_watch 0 in
  elapsed ex_clk (fst c) (snd c) (Some (-1)) = ((fst c, 2%nat), Ok 0).
Proof. vm_compute. reflexivity. Qed.

(* ===================================================================== *)
(* D. the timestamps, history-wise                                       *)
(* ===================================================================== *)
Section Timestamps.
Variable clk : nat -> Z.

Lemma no_restart_keeps_started ops : forall w t,
  restarts_in clk ops w t = false -> w_started (fst (final clk ops w t)) = w_started w.
Proof.
  induction ops as [|o r IH]; intros w t H; [reflexivity|].
  cbn [restarts_in final] in *. apply orb_false_elim in H. destruct H as [H1 H2].
  pose proof (started_at_frame clk o w t H1) as HF.
  destruct (step clk o w t) as [[w' t'] res]. cbn [fst] in HF. rewrite (IH w' t' H2). exact HF.
Qed.

(* _started_at is the last clock reading taken by the last (re)start of the history *)
Lemma started_at_is_last_restart ops1 o ops2 w0 t0 :
  let c1 := final clk ops1 w0 t0 in
  effective_restart o (fst c1) = true ->
  let c2 := fst (step clk o (fst c1) (snd c1)) in
  restarts_in clk ops2 (fst c2) (snd c2) = false ->
  w_started (fst (final clk (ops1 ++ o :: ops2) w0 t0)) = Some (clk (snd c2 - 1)) /\ (snd c1 < snd c2)%nat.
Proof.
  intros c1 HR c2 HN. rewrite final_app. fold c1. cbn [final].
  destruct (restart_effect clk o (fst c1) (snd c1) HR) as (t' & HS & Ht).
  subst c2. rewrite HS in *. cbn [fst snd] in *.
  rewrite (no_restart_keeps_started ops2 _ _ HN). cbn [w_started].
  split; [do 2 f_equal; lia|lia].
Qed.

Lemma no_stop_keeps_stopped ops : forall w t,
  stops_in clk ops w t = false -> w_stopped (fst (final clk ops w t)) = w_stopped w.
Proof.
  induction ops as [|o r IH]; intros w t H; [reflexivity|].
  cbn [stops_in final] in *. apply orb_false_elim in H. destruct H as [H1 H2].
  apply orb_false_elim in H1. destruct H1 as [H0 H1].
  pose proof (stopped_at_frame clk o w t H0 H1) as HF.
  destruct (step clk o w t) as [[w' t'] res]. cbn [fst] in HF. rewrite (IH w' t' H2). exact HF.
Qed.

(* _stopped_at is the clock reading taken by the last stop of the history *)
Lemma stopped_at_is_last_stop ops1 o ops2 w0 t0 :
  let c1 := final clk ops1 w0 t0 in
  effective_stop o (fst c1) = true ->
  let c2 := fst (step clk o (fst c1) (snd c1)) in
  stops_in clk ops2 (fst c2) (snd c2) = false ->
  w_stopped (fst (final clk (ops1 ++ o :: ops2) w0 t0)) = Some (clk (snd c1)).
Proof.
  intros c1 HR c2 HN. rewrite final_app. fold c1. cbn [final].
  destruct (stop_effect clk o (fst c1) (snd c1) HR) as (v & HS).
  subst c2. rewrite HS in *. cbn [fst snd] in *.
  rewrite (no_stop_keeps_stopped ops2 _ _ HN). reflexivity.
Qed.

End Timestamps.

(* instance: start@100 ... the last (re)start of ex_ops ++ [ORestart; OSplit; OStop] is the restart *)
Example ex_last_restart :
  let ops1 := ex_ops in
  let c1 := final ex_clk ops1 ex_watch 0 in
  effective_restart ORestart (fst c1) = true /\
  restarts_in ex_clk [OSplit; OStop] (fst (fst (step ex_clk ORestart (fst c1) (snd c1)))) 7 = false /\
  w_started (fst (final ex_clk (ops1 ++ ORestart :: [OSplit; OStop]) ex_watch 0)) = Some (ex_clk 6).
Proof. vm_compute. repeat split. Qed.

(* the literal "never exceeds the maximum" for every maximum is false: elapsed(maximum=-1) = 0 on a running watch *)
Lemma elapsed_max_literal_refuted : ~ C13_elapsed_max_full_statement.
Proof.
  intro H.
  specialize (H ex_clk (mkWatch SStarted (Some 100) None [] None) 1%nat (-1) _ _ eq_refl).
  vm_compute in H. apply H. reflexivity.
Qed.
