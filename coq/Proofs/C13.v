From Coq Require Import ZArith List Bool Lia.
Require Import OV.Base.Bytes OV.Base.Py OV.Base.C13_Types OV.Gen.C13_StopWatch OV.Model.C13.
Lemma stub : True. Proof. exact I. Qed.
