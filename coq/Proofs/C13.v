(* Proofs/C13.v — StopWatch, for EVERY number type T and operations N : num T (no hypothesis on N):
   (A) the statement-level translation of the source (Gen/C13_StopWatch.v) equals the hand model
       (Model/C13.v) method by method;
   (B) invariants of all reachable configurations and every clause of the property that does not
       depend on the order/arithmetic of T: the state machine, legality, frames, the shape of every
       returned number.  Order-dependent clauses: Proofs/C13_Order.v; instances: C13_Z.v, C13_Float.v. *)
From Coq Require Import List Bool Lia Sorting.Sorted PeanoNat.
Require Import OV.Base.Bytes OV.Base.Py OV.Base.C13_Types OV.Gen.C13_StopWatch OV.Model.C13.
Import ListNotations.

(* ===================================================================== *)
(* A. translation = model                                                *)
(* ===================================================================== *)

(* the three values the model's state stands for: None and the two class constants *)
Definition enc_state (s : wstate) : ostate :=
  match s with SNone => None | SStarted => Some C13_STARTED | SStopped => Some C13_STOPPED end.

Definition enc {T} (c : cfg T) : gst T :=
  (enc_state (w_state (fst c)), w_started (fst c), w_stopped (fst c), w_splits (fst c), w_duration (fst c), snd c).

Definition enc_out {T A} (o : out T A) : gst T * res A := (enc (fst o), snd o).

(* the state tags are distinct strings (otherwise the three states would collapse) *)
Lemma state_tags_distinct : C13_STARTED <> C13_STOPPED.
Proof. intro H. apply beq_eq in H. vm_compute in H. discriminate H. Qed.

Lemma enc_state_inj s1 s2 : enc_state s1 = enc_state s2 -> s1 = s2.
Proof.
  destruct s1, s2; cbn; intro H; try reflexivity; try discriminate H;
    injection H as H; exfalso; apply state_tags_distinct; congruence.
Qed.

Lemma last_opt_some {A} (y : A) r : exists z, last_opt (y :: r) = Some z.
Proof.
  revert y. induction r as [|a r IH]; intro y; [exists y; reflexivity|].
  destruct (IH a) as [z Hz]. exists z. exact Hz.
Qed.

Lemma last_opt_cons {A} (x : A) l :
  last_opt (x :: l) = match last_opt l with Some y => Some y | None => Some x end.
Proof.
  destruct l as [|y r]; [reflexivity|].
  destruct (last_opt_some y r) as [z Hz]. rewrite Hz. exact Hz.
Qed.

Lemma last_opt_app {A} (l : list A) x : last_opt (l ++ [x]) = Some x.
Proof.
  induction l as [|y r IH]; [reflexivity|].
  change ((y :: r) ++ [x]) with (y :: (r ++ [x])). rewrite last_opt_cons, IH. reflexivity.
Qed.

Lemma nonempty_last {A} (l : list A) :
  match last_opt l with Some _ => nonempty l = true | None => l = [] end.
Proof.
  induction l as [|y r IH]; [reflexivity|]. rewrite last_opt_cons.
  destruct (last_opt r); reflexivity.
Qed.

Section Equiv.
Variable T : Type.
Variable N : num T.
Variable clk : nat -> T.

Ltac by_cases w :=
  destruct w as [[| |] [?s|] [?p|] ?l [?d|]]; try reflexivity.

(* evaluate the state tests of a translated method on an encoded state *)
Ltac norm :=
  cbn [enc_state w_state w_started w_stopped w_splits w_duration ostate_eqb fst snd];
  change (beq C13_STARTED C13_STARTED) with true; change (beq C13_STARTED C13_STOPPED) with false;
  change (beq C13_STOPPED C13_STOPPED) with true; change (beq C13_STOPPED C13_STARTED) with false;
  cbn [negb orb andb]; cbv iota.

(* The proofs are by evaluation on each of the three states, for an arbitrary number type: the translated
   text must use the same comparisons, subtractions and max() as the model — under float semantics
   max(0.0, x) and max(x, 0.0), or > and >=, are different functions. *)
Lemma gen_delta_seconds_equiv earlier later : gen_delta_seconds T N earlier later = delta N earlier later.
Proof. reflexivity. Qed.

Lemma gen_Split_equiv (e l : T) :
  gen_Split T e l = mkSplit e l /\ gen_Split_elapsed T (mkSplit e l) = e /\ gen_Split_length T (mkSplit e l) = l.
Proof. repeat split. Qed.

Lemma gen_init_equiv g1 g2 g3 g4 g5 t duration :
  gen_init T N clk g1 g2 g3 g4 g5 t duration =
  match init N duration with
  | Ok w => (enc (w, t), Ok tt)
  | Exn e => ((g1, g2, g3, g4, g5, t), Exn e)
  end.
Proof.
  unfold gen_init, init. destruct duration as [d|]; [|reflexivity].
  destruct (n_gtb N (n_zero N) d); reflexivity.
Qed.

Lemma gen_start_equiv w t :
  gen_start T N clk (enc_state (w_state w)) (w_started w) (w_stopped w) (w_splits w) (w_duration w) t = enc_out (start N clk w t).
Proof. by_cases w. Qed.

Lemma gen_stop_equiv w t :
  gen_stop T N clk (enc_state (w_state w)) (w_started w) (w_stopped w) (w_splits w) (w_duration w) t = enc_out (stop N clk w t).
Proof. by_cases w. Qed.

Lemma gen_resume_equiv w t :
  gen_resume T N clk (enc_state (w_state w)) (w_started w) (w_stopped w) (w_splits w) (w_duration w) t = enc_out (resume N clk w t).
Proof. by_cases w. Qed.

Lemma gen_restart_equiv w t :
  gen_restart T N clk (enc_state (w_state w)) (w_started w) (w_stopped w) (w_splits w) (w_duration w) t = enc_out (restart N clk w t).
Proof. by_cases w. Qed.

Lemma gen_elapsed_equiv w t maximum :
  gen_elapsed T N clk (enc_state (w_state w)) (w_started w) (w_stopped w) (w_splits w) (w_duration w) t maximum
  = enc_out (elapsed N clk w t maximum).
Proof.
  destruct w as [[| |] [s|] [p|] l d]; destruct maximum as [m|]; try reflexivity;
    unfold gen_elapsed, elapsed, enc_out, enc, clamp_max; norm;
    change (gen_delta_seconds T N ?a ?b) with (delta N a b);
    match goal with |- context [if n_gtb N ?a ?b then _ else _] => destruct (n_gtb N a b) end; reflexivity.
Qed.

(* from here on the translated elapsed() is used through its equivalence only *)
Ltac use_elapsed st sa so sl sd t m :=
  let HE := fresh "HE" in
  pose proof (gen_elapsed_equiv (mkWatch st sa so sl sd) t m) as HE;
  cbn [enc_state w_state w_started w_stopped w_splits w_duration] in HE; rewrite HE; clear HE;
  unfold elapsed, enc_out, enc, clamp_max; norm.

Lemma gen_split_equiv w t :
  gen_split T N clk (enc_state (w_state w)) (w_started w) (w_stopped w) (w_splits w) (w_duration w) t = enc_out (split_ N clk w t).
Proof.
  destruct w as [[| |] [s|] p l d]; try reflexivity; unfold gen_split, split_, enc_out, enc; norm.
  use_elapsed SStarted (Some s) p l d t (@None T). unfold set_splits. norm.
  pose proof (nonempty_last l) as HL.
  destruct (last_opt l) as [x|] eqn:EL.
  - rewrite HL. rewrite !last_opt_app. reflexivity.
  - subst l. cbn [nonempty app]. reflexivity.
Qed.

Lemma gen_leftover_equiv w t return_none :
  gen_leftover T N clk (enc_state (w_state w)) (w_started w) (w_stopped w) (w_splits w) (w_duration w) t return_none
  = enc_out (leftover N clk w t return_none).
Proof.
  destruct w as [[| |] sa p l [d|]]; destruct return_none; try reflexivity;
    unfold gen_leftover, leftover, enc_out, enc; norm;
    use_elapsed SStarted sa p l (Some d) t (@None T); destruct sa; norm; reflexivity.
Qed.

Lemma gen_expired_equiv w t :
  gen_expired T N clk (enc_state (w_state w)) (w_started w) (w_stopped w) (w_splits w) (w_duration w) t = enc_out (expired N clk w t).
Proof.
  destruct w as [[| |] sa so l [d|]]; try reflexivity; unfold gen_expired, expired, enc_out, enc; norm.
  - use_elapsed SStarted sa so l (Some d) t (@None T). destruct sa; norm; reflexivity.
  - use_elapsed SStopped sa so l (Some d) t (@None T). destruct sa, so; norm; reflexivity.
Qed.

Lemma gen_has_started_equiv w t :
  gen_has_started T N clk (enc_state (w_state w)) (w_started w) (w_stopped w) (w_splits w) (w_duration w) t = enc_out (has_started w t).
Proof. by_cases w. Qed.

Lemma gen_has_stopped_equiv w t :
  gen_has_stopped T N clk (enc_state (w_state w)) (w_started w) (w_stopped w) (w_splits w) (w_duration w) t = enc_out (has_stopped w t).
Proof. by_cases w. Qed.

Lemma gen_splits_equiv w t :
  gen_splits T N clk (enc_state (w_state w)) (w_started w) (w_stopped w) (w_splits w) (w_duration w) t = enc_out (splits w t).
Proof. by_cases w. Qed.

Lemma gen_enter_equiv w t :
  gen_enter T N clk (enc_state (w_state w)) (w_started w) (w_stopped w) (w_splits w) (w_duration w) t = enc_out (enter N clk w t).
Proof. by_cases w. Qed.

(* whatever the exception triple is: the arguments are ignored, the return value is None (never True: the
   exception of the with-body is not suppressed) *)
Lemma gen_exit_equiv w t type value traceback :
  gen_exit T N clk (enc_state (w_state w)) (w_started w) (w_stopped w) (w_splits w) (w_duration w) t type value traceback
  = (enc (fst (exit_ N clk w t)), match snd (exit_ N clk w t) with Ok _ => Ok None | Exn e => Exn e end).
Proof. destruct type, value, traceback; by_cases w. Qed.

(* the default arguments of the source are the ones the property's calls use *)
Lemma gen_defaults_equiv :
  gen_elapsed_default_maximum T = None /\ gen_leftover_default_return_none T = false /\ gen_init_default_duration T = None.
Proof. repeat split. Qed.

End Equiv.

(* ===================================================================== *)
(* B. the state machine, for every number type                            *)
(* ===================================================================== *)

Arguments delta : simpl never.
Arguments clamp_max : simpl never.
Arguments max0 : simpl never.

Section Machine.
Variable T : Type.
Variable N : num T.
Variable clk : nat -> T.

(* ---- the shape of max(0.0, x): 0.0, or x itself when x > 0.0 ---- *)

(* "zero or positive": the only values max(0.0, .) returns *)
Definition pos0 (v : T) : Prop := v = n_zero N \/ n_gtb N v (n_zero N) = true.

Lemma max0_cases x :
  (n_gtb N x (n_zero N) = true /\ max0 N x = x) \/ (n_gtb N x (n_zero N) = false /\ max0 N x = n_zero N).
Proof. unfold max0, n_max. destruct (n_gtb N x (n_zero N)); auto. Qed.

Lemma max0_pos0 x : pos0 (max0 N x).
Proof. destruct (max0_cases x) as [[H ->]|[H ->]]; [right; exact H|left; reflexivity]. Qed.

Lemma delta_pos0 a b : pos0 (delta N a b).
Proof. apply max0_pos0. Qed.

Lemma clamp_max_pos0 m e : pos0 e -> pos0 (clamp_max N m e).
Proof.
  intro H. unfold clamp_max. destruct m as [m|]; [|exact H].
  destruct (n_gtb N e m); [apply max0_pos0|exact H].
Qed.

Lemma clamp_max_cases m e :
  (n_gtb N e m = false /\ clamp_max N (Some m) e = e) \/
  (n_gtb N e m = true /\ clamp_max N (Some m) e = max0 N m).
Proof. unfold clamp_max. destruct (n_gtb N e m); auto. Qed.

(* ---- the invariant ---- *)

Definition lastE (prev : option T) (l : list (split T)) : option T :=
  match last_opt l with Some x => Some (sp_elapsed x) | None => prev end.

Lemma build_snoc s prev ks k :
  build N clk s prev (ks ++ [k]) =
  build N clk s prev ks ++ [mkSplit (delta N s (clk k))
                        (match lastE prev (build N clk s prev ks) with
                         | Some p => delta N p (delta N s (clk k)) | None => delta N s (clk k) end)].
Proof.
  revert prev. induction ks as [|a r IH]; intro prev; [reflexivity|].
  cbn [build app]. rewrite IH. do 3 f_equal.
  unfold lastE. rewrite last_opt_cons.
  destruct (last_opt (build N clk s (Some (delta N s (clk a))) r)); reflexivity.
Qed.

Definition ticks_ok (i t : nat) (ks : list nat) : Prop :=
  StronglySorted lt ks /\ Forall (fun k => (i < k < t)%nat) ks.

Lemma ticks_ok_nil i t : ticks_ok i t [].
Proof. split; constructor. Qed.

Lemma ticks_ok_weaken i t t' ks : (t <= t')%nat -> ticks_ok i t ks -> ticks_ok i t' ks.
Proof.
  intros Ht [Hs Hf]. split; [exact Hs|].
  eapply Forall_impl; [|exact Hf]. cbn. intros; lia.
Qed.

Lemma StronglySorted_snoc (ks : list nat) t :
  StronglySorted lt ks -> Forall (fun k => (k < t)%nat) ks -> StronglySorted lt (ks ++ [t]).
Proof.
  induction 1 as [|a r Hs IH Ha]; intro Hf; cbn [app].
  - constructor; constructor.
  - inversion Hf as [|? ? Hat Hr]; subst. constructor; [apply IH; exact Hr|].
    apply Forall_app. split; [exact Ha|constructor; [exact Hat|constructor]].
Qed.

Lemma ticks_ok_snoc i t ks : (i < t)%nat -> ticks_ok i t ks -> ticks_ok i (S t) (ks ++ [t]).
Proof.
  intros Hi [Hs Hf]. split.
  - apply StronglySorted_snoc; [exact Hs|]. eapply Forall_impl; [|exact Hf]. cbn. intros; lia.
  - apply Forall_app. split; [eapply Forall_impl; [|exact Hf]; cbn; intros; lia|].
    constructor; [lia|constructor].
Qed.

(* the invariant of every reachable configuration: the timestamps are clock readings taken in this order,
   the splits are the ones [build] computes from the readings taken by the split calls *)
Definition wf (c : cfg T) : Prop :=
  let w := fst c in
  let t := snd c in
  match w_state w with
  | SNone => w_started w = None /\ w_stopped w = None /\ w_splits w = []
  | SStarted =>
      exists i ks, (i < t)%nat /\ w_started w = Some (clk i) /\ ticks_ok i t ks /\
                   w_splits w = build N clk (clk i) None ks
  | SStopped =>
      exists i j ks, (i < j < t)%nat /\ w_started w = Some (clk i) /\ w_stopped w = Some (clk j) /\
                     ticks_ok i t ks /\ w_splits w = build N clk (clk i) None ks
  end.

Ltac wcases w :=
  destruct w as [st sa so sl sd]; destruct st;
  cbn [fst snd w_state w_started w_stopped w_splits w_duration set_state set_splits] in *.

Lemma init_wf duration w0 : init N duration = Ok w0 -> wf (w0, 0%nat).
Proof.
  unfold init. destruct duration as [d|]; [destruct (n_gtb N (n_zero N) d)|]; intro H; inversion H; subst;
    cbn; repeat split.
Qed.

Lemma start_wf w t : wf (w, t) -> wf (fst (start N clk w t)).
Proof.
  unfold wf, start. wcases w; intro H; cbn [fst snd w_state w_started w_stopped w_splits w_duration].
  - exists t, []. split; [lia|]. split; [reflexivity|]. split; [apply ticks_ok_nil|reflexivity].
  - exact H.
  - exists t, []. split; [lia|]. split; [reflexivity|]. split; [apply ticks_ok_nil|reflexivity].
Qed.

Lemma stop_wf w t : wf (w, t) -> wf (fst (stop N clk w t)).
Proof.
  unfold wf, stop. wcases w; intro H; cbn [fst snd w_state w_started w_stopped w_splits w_duration]; try exact H.
  destruct H as (i & ks & Hi & Hs & Hk & Hb). exists i, t, ks.
  split; [lia|]. split; [exact Hs|]. split; [reflexivity|]. split; [|exact Hb].
  eapply ticks_ok_weaken; [|exact Hk]. lia.
Qed.

Lemma resume_wf w t : wf (w, t) -> wf (fst (resume N clk w t)).
Proof.
  unfold wf, resume. wcases w; intro H; cbn [fst snd w_state w_started w_stopped w_splits w_duration]; try exact H.
  destruct H as (i & j & ks & Hi & Hs & Hp & Hk & Hb). exists i, ks.
  split; [lia|]. split; [exact Hs|]. split; [exact Hk|exact Hb].
Qed.

Lemma restart_wf w t : wf (w, t) -> wf (fst (restart N clk w t)).
Proof.
  unfold wf, restart. wcases w; intro H; cbn [fst snd w_state w_started w_stopped w_splits w_duration].
  - exists t, []. split; [lia|]. split; [reflexivity|]. split; [apply ticks_ok_nil|reflexivity].
  - exists (S t), []. split; [lia|]. split; [reflexivity|]. split; [apply ticks_ok_nil|reflexivity].
  - exists t, []. split; [lia|]. split; [reflexivity|]. split; [apply ticks_ok_nil|reflexivity].
Qed.

Lemma elapsed_wf w t m : wf (w, t) -> wf (fst (elapsed N clk w t m)).
Proof.
  unfold wf, elapsed. wcases w; intro H; cbn [fst snd w_state w_started w_stopped w_splits w_duration].
  - exact H.
  - destruct H as (i & ks & Hi & Hs & Hk & Hb). subst sa.
    cbn [fst snd w_state w_started w_stopped w_splits w_duration].
    exists i, ks. split; [lia|]. split; [reflexivity|]. split; [|exact Hb].
    eapply ticks_ok_weaken; [|exact Hk]. lia.
  - destruct H as (i & j & ks & Hi & Hs & Hp & Hk & Hb). subst sa so.
    cbn [fst snd w_state w_started w_stopped w_splits w_duration].
    exists i, j, ks. split; [lia|]. split; [reflexivity|]. split; [reflexivity|]. split; [exact Hk|exact Hb].
Qed.

Lemma split_wf w t : wf (w, t) -> wf (fst (split_ N clk w t)).
Proof.
  unfold wf, split_. wcases w; intro H; cbn [fst snd w_state w_started w_stopped w_splits w_duration]; try exact H.
  destruct H as (i & ks & Hi & Hs & Hk & Hb). subst sa.
  cbn [fst snd w_state w_started w_stopped w_splits w_duration set_splits].
  exists i, (ks ++ [t]). split; [lia|]. split; [reflexivity|]. split.
  - apply ticks_ok_snoc; assumption.
  - rewrite build_snoc, <- Hb. unfold lastE. destruct (last_opt sl); reflexivity.
Qed.

Lemma leftover_wf w t rn : wf (w, t) -> wf (fst (leftover N clk w t rn)).
Proof.
  intro H. unfold leftover.
  destruct (w_state w); try exact H. destruct (w_duration w); [|destruct rn; exact H].
  pose proof (elapsed_wf w t None H) as HE.
  destruct (elapsed N clk w t None) as [c [e|x]]; exact HE.
Qed.

Lemma expired_wf w t : wf (w, t) -> wf (fst (expired N clk w t)).
Proof.
  intro H. unfold expired.
  destruct (w_state w); try exact H; (destruct (w_duration w); [|exact H]);
    pose proof (elapsed_wf w t None H) as HE;
    destruct (elapsed N clk w t None) as [c [e|x]]; exact HE.
Qed.

Lemma exit_wf w t : wf (w, t) -> wf (fst (exit_ N clk w t)).
Proof.
  intro H. unfold exit_. pose proof (stop_wf w t H) as HS.
  destruct (stop N clk w t) as [c [u|x]]; [exact HS|]. destruct x; exact HS.
Qed.

Lemma fst_wrap {A} (f : A -> value T) (o : out T A) : fst (wrap f o) = fst o.
Proof. destruct o as [c [a|e]]; reflexivity. Qed.

Lemma step_wf o w t : wf (w, t) -> wf (fst (step N clk o w t)).
Proof.
  intro H. destruct o; unfold step; rewrite fst_wrap.
  - apply start_wf, H.
  - apply stop_wf, H.
  - apply resume_wf, H.
  - apply restart_wf, H.
  - apply split_wf, H.
  - apply elapsed_wf, H.
  - apply leftover_wf, H.
  - apply expired_wf, H.
  - exact H.
  - exact H.
  - exact H.
  - apply start_wf, H.
  - apply exit_wf, H.
Qed.

Lemma final_wf ops : forall w t, wf (w, t) -> wf (final N clk ops w t).
Proof.
  induction ops as [|o r IH]; intros w t H; [exact H|].
  cbn [final]. pose proof (step_wf o w t H) as HS.
  destruct (step N clk o w t) as [[w' t'] res]. apply IH, HS.
Qed.

Lemma reachable_wf c : reachable N clk c -> wf c.
Proof.
  intros (d & w0 & ops & Hi & Hf). subst c. apply final_wf. eapply init_wf, Hi.
Qed.

Lemma final_app ops1 ops2 w t :
  final N clk (ops1 ++ ops2) w t = final N clk ops2 (fst (final N clk ops1 w t)) (snd (final N clk ops1 w t)).
Proof.
  revert w t. induction ops1 as [|o r IH]; intros w t; [reflexivity|].
  cbn [app final]. destruct (step N clk o w t) as [[w' t'] res]. apply IH.
Qed.

Lemma reachable_step o w t : reachable N clk (w, t) -> reachable N clk (fst (step N clk o w t)).
Proof.
  intros (d & w0 & ops & Hi & Hf). exists d, w0, (ops ++ [o]). split; [exact Hi|].
  rewrite final_app, Hf. cbn [fst snd final]. destruct (step N clk o w t) as [[w' t'] res]. reflexivity.
Qed.

Lemma reachable_init duration w0 : init N duration = Ok w0 -> reachable N clk (w0, 0%nat).
Proof. intro H. exists duration, w0, []. split; [exact H|reflexivity]. Qed.

(* every configuration of a history is reachable, so a statement about all reachable
   configurations and all next calls is a statement about every call of every history *)
Lemma trace_Forall (P : cfg T * res (value T) -> Prop) :
  (forall o w t, reachable N clk (w, t) -> P (step N clk o w t)) ->
  forall ops w t, reachable N clk (w, t) -> Forall P (trace N clk ops w t).
Proof.
  intros HP ops. induction ops as [|o r IH]; intros w t HR; [constructor|].
  cbn [trace]. pose proof (reachable_step o w t HR) as HS. pose proof (HP o w t HR) as HPo.
  destruct (step N clk o w t) as [[w' t'] res] eqn:E. constructor; [exact HPo|apply IH, HS].
Qed.

(* ---- elapsed: what the code computes, and the shape of the result ---- *)

Lemma elapsed_pos0 w t m c e : elapsed N clk w t m = (c, Ok e) -> pos0 e.
Proof.
  unfold elapsed. destruct (w_state w), (w_started w), (w_stopped w); intro H; inversion H; subst;
    apply clamp_max_pos0, delta_pos0.
Qed.

(* while running: one clock reading, the watch is unchanged, the value is _delta_seconds(started_at, now)
   cut at the maximum; started_at is an earlier clock reading *)
Lemma elapsed_running w t :
  reachable N clk (w, t) -> w_state w = SStarted ->
  exists i, (i < t)%nat /\ w_started w = Some (clk i) /\
    forall m, elapsed N clk w t m = ((w, S t), Ok (clamp_max N m (delta N (clk i) (clk t)))).
Proof.
  intros HR HS. apply reachable_wf in HR. unfold wf in HR. cbn [fst snd] in HR. rewrite HS in HR.
  destruct HR as (i & ks & Hi & Hst & _ & _). exists i. split; [exact Hi|]. split; [exact Hst|].
  intro m. unfold elapsed. rewrite HS, Hst. reflexivity.
Qed.

(* while stopped: no clock reading, the value is _delta_seconds(started_at, stopped_at) *)
Lemma elapsed_stopped w t :
  reachable N clk (w, t) -> w_state w = SStopped ->
  exists i j, (i < j < t)%nat /\ w_started w = Some (clk i) /\ w_stopped w = Some (clk j) /\
    forall m, elapsed N clk w t m = ((w, t), Ok (clamp_max N m (delta N (clk i) (clk j)))).
Proof.
  intros HR HS. apply reachable_wf in HR. unfold wf in HR. cbn [fst snd] in HR. rewrite HS in HR.
  destruct HR as (i & j & ks & Hi & Hst & Hsp & _ & _). exists i, j.
  split; [exact Hi|]. split; [exact Hst|]. split; [exact Hsp|].
  intro m. unfold elapsed. rewrite HS, Hst, Hsp. reflexivity.
Qed.

(* elapsed(maximum) is elapsed() cut at the maximum, at the same clock reading *)
Lemma elapsed_max w t m c e :
  elapsed N clk w t (Some m) = (c, Ok e) ->
  exists e0, elapsed N clk w t None = (c, Ok e0) /\ e = clamp_max N (Some m) e0.
Proof.
  unfold elapsed. destruct (w_state w), (w_started w) as [s|], (w_stopped w) as [p|]; intro H; inversion H; subst;
    eexists; split; reflexivity.
Qed.

(* ---- leftover / expired ---- *)

Lemma leftover_spec w t rn :
  w_state w = SStarted ->
  match w_duration w with
  | Some d => forall c e, elapsed N clk w t None = (c, Ok e) ->
                          leftover N clk w t rn = (c, Ok (Some (max0 N (n_sub N d e))))
  | None => leftover N clk w t rn = ((w, t), if rn then Ok None else Exn RuntimeError)
  end.
Proof.
  intro HS. unfold leftover. rewrite HS. destruct (w_duration w) as [d|].
  - intros c e HE. rewrite HE. reflexivity.
  - destruct rn; reflexivity.
Qed.

Lemma expired_spec w t :
  w_state w <> SNone ->
  match w_duration w with
  | Some d => forall c e, elapsed N clk w t None = (c, Ok e) -> expired N clk w t = (c, Ok (n_gtb N e d))
  | None => expired N clk w t = ((w, t), Ok false)
  end.
Proof.
  intro HS. unfold expired. destruct (w_state w); [congruence| |]; (destruct (w_duration w) as [d|]; [|reflexivity]);
    intros c e HE; rewrite HE; reflexivity.
Qed.

(* ---- legality ---- *)

Lemma illegal_raises o w t : legal o w = false -> step N clk o w t = ((w, t), Exn RuntimeError).
Proof.
  destruct o; try destruct return_none; wcases w; try destruct sd; cbn; intro H; try discriminate H; reflexivity.
Qed.

Lemma legal_returns o w t :
  reachable N clk (w, t) -> legal o w = true -> exists c v, step N clk o w t = (c, Ok v).
Proof.
  intros HR HL. apply reachable_wf in HR. unfold wf in HR.
  destruct o; try destruct return_none; wcases w; try destruct sd; cbn in HL; try discriminate HL;
    try (destruct HR as (i & ks & Hi & Hst & _ & _); subst sa);
    try (destruct HR as (i & j & ks & Hi & Hst & Hsp & _ & _); subst sa so);
    cbn; eexists; eexists; reflexivity.
Qed.

Lemma only_runtime_errors o w t c e :
  reachable N clk (w, t) -> step N clk o w t = (c, Exn e) -> e = RuntimeError /\ c = (w, t) /\ legal o w = false.
Proof.
  intros HR HS. destruct (legal o w) eqn:HL.
  - destruct (legal_returns o w t HR HL) as (c' & v & HS'). congruence.
  - rewrite (illegal_raises o w t HL) in HS. inversion HS. auto.
Qed.

Lemma legality_table (w : watch T) m rn :
  map (fun o => legal o w) (all_ops m rn) =
  match w_state w with
  | SNone =>    [true; false; false; true; false; false; false; false; true; true; true; true; true; true]
  | SStarted => [true; true;  false; true; true;  true;
                 match w_duration w with Some _ => true | None => rn end;
                                                                true;  true; true; true; true; true; true]
  | SStopped => [true; true;  true;  true; false; true;  false; true;  true; true; true; true; true; true]
  end.
Proof. wcases w; reflexivity. Qed.

(* ---- number of clock readings ---- *)

Lemma step_cost o w t : snd (fst (step N clk o w t)) = (t + cost o w)%nat.
Proof.
  destruct o; try destruct return_none; wcases w; try destruct sa; try destruct so; try destruct sd; cbn; lia.
Qed.

(* ---- (re)starts, stops and the timestamps ---- *)

Lemma restart_effect o w t :
  effective_restart o w = true ->
  exists t', step N clk o w t = ((mkWatch SStarted (Some (clk t')) None [] (w_duration w), S t'), Ok VSelf) /\ (t <= t')%nat.
Proof.
  destruct o; wcases w; cbn; intro H; try discriminate H;
    try (exists t; split; [reflexivity|lia]); exists (S t); split; [reflexivity|lia].
Qed.

Lemma started_at_frame o w t :
  effective_restart o w = false -> w_started (fst (fst (step N clk o w t))) = w_started w.
Proof.
  destruct o; try destruct return_none; wcases w; try destruct sa; try destruct so; try destruct sd; cbn; intro H;
    try discriminate H; reflexivity.
Qed.

Lemma stop_effect o w t :
  effective_stop o w = true ->
  exists v, step N clk o w t =
            ((mkWatch SStopped (w_started w) (Some (clk t)) (w_splits w) (w_duration w), S t), Ok v).
Proof.
  destruct o; wcases w; cbn; intro H; try discriminate H; eexists; reflexivity.
Qed.

Lemma stopped_at_frame o w t :
  effective_stop o w = false -> effective_restart o w = false ->
  w_stopped (fst (fst (step N clk o w t))) = w_stopped w.
Proof.
  destruct o; try destruct return_none; wcases w; try destruct sa; try destruct so; try destruct sd; cbn; intros H1 H2;
    try discriminate H1; try discriminate H2; reflexivity.
Qed.

Lemma state_transitions o w t :
  w_state (fst (fst (step N clk o w t))) =
  if effective_restart o w then SStarted
  else if effective_stop o w then SStopped
  else match o, w_state w with OResume, SStopped => SStarted | _, s => s end.
Proof.
  destruct o; try destruct return_none; wcases w; try destruct sa; try destruct so; try destruct sd; reflexivity.
Qed.

(* ---- the context-manager protocol ---- *)

(* __exit__ with or without an exception triple: never raises, returns None (the exception of the body
   propagates), stops a running watch at the reading it takes and leaves any other watch as it is *)
Lemma exit_spec exc w t :
  step N clk (OExit exc) w t =
  (match w_state w with
   | SStarted => (mkWatch SStopped (w_started w) (Some (clk t)) (w_splits w) (w_duration w), S t)
   | _ => (w, t)
   end, Ok VNone).
Proof. wcases w; reflexivity. Qed.

Lemma step_not_none o w t : w_state w <> SNone -> w_state (fst (fst (step N clk o w t))) <> SNone.
Proof.
  intro H. rewrite state_transitions.
  destruct (effective_restart o w); [discriminate|]. destruct (effective_stop o w); [discriminate|].
  destruct o; try exact H; destruct (w_state w); try exact H; discriminate.
Qed.

Lemma final_not_none ops : forall w t, w_state w <> SNone -> w_state (fst (final N clk ops w t)) <> SNone.
Proof.
  induction ops as [|o r IH]; intros w t H; [exact H|].
  cbn [final]. pose proof (step_not_none o w t H) as HS.
  destruct (step N clk o w t) as [[w' t'] res]. apply IH, HS.
Qed.

(* after  with sw: body [raise X]  the watch is stopped, whatever the body did and whether or not it raised;
   if the body left it running, _stopped_at is the reading taken by __exit__ *)
Lemma with_block_stops body exc w0 t0 :
  let c1 := final N clk (OEnter :: body) w0 t0 in
  let c2 := final N clk (with_block body exc) w0 t0 in
  w_state (fst c2) = SStopped /\
  (w_state (fst c1) = SStarted -> w_stopped (fst c2) = Some (clk (snd c1)) /\ snd c2 = S (snd c1)) /\
  (w_state (fst c1) = SStopped -> c2 = c1).
Proof.
  intros c1 c2. subst c2. unfold with_block.
  change (OEnter :: body ++ [OExit exc]) with ((OEnter :: body) ++ [OExit exc]).
  rewrite final_app. fold c1. cbn [final]. rewrite exit_spec.
  assert (HN : w_state (fst c1) <> SNone).
  { subst c1. destruct w0 as [[| |] a b l d]; cbn [final step enter start wrap w_state w_duration];
      apply final_not_none; cbn [w_state]; discriminate. }
  destruct c1 as [w1 t1]. cbn [fst snd] in *.
  destruct (w_state w1) eqn:E; [congruence| |]; cbn [fst snd w_state w_stopped].
  - split; [reflexivity|]. split; [intros _; split; reflexivity|discriminate].
  - split; [exact E|]. split; [discriminate|reflexivity].
Qed.

(* ---- splits ---- *)

Lemma split_records w t c sp :
  split_ N clk w t = (c, Ok sp) ->
  exists e, elapsed N clk w t None = ((w, snd c), Ok e) /\ sp_elapsed sp = e /\
            sp_length sp = match last_opt (w_splits w) with
                           | Some l => delta N (sp_elapsed l) e | None => e end /\
            fst c = set_splits w (w_splits w ++ [sp]).
Proof.
  unfold split_, elapsed. destruct (w_state w); try discriminate. destruct (w_started w) as [s|]; [|discriminate].
  intro H. inversion H; subst. cbn [snd fst]. eexists. split; [reflexivity|].
  cbn [sp_elapsed sp_length clamp_max]. repeat split.
Qed.

Lemma splits_frame o w t :
  w_splits (fst (fst (step N clk o w t))) =
  if effective_restart o w then []
  else match o, snd (step N clk o w t) with
       | OSplit, Ok (VSplit sp) => w_splits w ++ [sp]
       | _, _ => w_splits w
       end.
Proof.
  destruct o; try destruct return_none; wcases w; try destruct sa; try destruct so; try destruct sd; reflexivity.
Qed.

Lemma build_elapsed s prev ks :
  map sp_elapsed (build N clk s prev ks) = map (fun k => delta N s (clk k)) ks.
Proof.
  revert prev. induction ks as [|k r IH]; intro prev; [reflexivity|].
  cbn [build map sp_elapsed]. rewrite IH. reflexivity.
Qed.

Lemma build_clamped s prev ks : clamped_diffs_from N prev (build N clk s prev ks).
Proof.
  revert prev. induction ks as [|k r IH]; intro prev; [exact I|].
  cbn [build clamped_diffs_from sp_elapsed sp_length]. split; [reflexivity|apply IH].
Qed.

Lemma build_pos0 s prev ks :
  Forall (fun x => pos0 (sp_elapsed x) /\ pos0 (sp_length x)) (build N clk s prev ks).
Proof.
  revert prev. induction ks as [|k r IH]; intro prev; [constructor|].
  cbn [build]. constructor; [|apply IH]. cbn [sp_elapsed sp_length].
  split; [apply delta_pos0|]. destruct prev; apply delta_pos0.
Qed.

(* the splits of a reachable watch are the readings taken by the split calls since the last (re)start,
   at increasing ticks after the start tick *)
Lemma splits_are_built w t :
  reachable N clk (w, t) ->
  w_splits w = [] \/
  exists i ks, (i < t)%nat /\ w_started w = Some (clk i) /\ ticks_ok i t ks /\ w_splits w = build N clk (clk i) None ks.
Proof.
  intro HR. apply reachable_wf in HR. unfold wf in HR. cbn [fst snd] in HR.
  destruct (w_state w).
  - left. tauto.
  - right. destruct HR as (i & ks & Hi & Hs & Hk & Hb). exists i, ks. auto.
  - right. destruct HR as (i & j & ks & Hi & Hs & _ & Hk & Hb). exists i, ks. split; [lia|auto].
Qed.

(* on any clock and for any number type: lengths are what _delta_seconds gives, every value is zero-or-positive *)
Lemma splits_clamped w t :
  reachable N clk (w, t) ->
  clamped_diffs_from N None (w_splits w) /\ Forall (fun x => pos0 (sp_elapsed x) /\ pos0 (sp_length x)) (w_splits w).
Proof.
  intro HR. destruct (splits_are_built w t HR) as [->|(i & ks & _ & _ & _ & ->)].
  - split; [exact I|constructor].
  - split; [apply build_clamped|apply build_pos0].
Qed.

(* ---- histories ---- *)

Lemma history_numbers_pos0 duration w0 ops :
  init N duration = Ok w0 ->
  Forall (fun cr => forall z, snd cr = Ok (VNum z) -> pos0 z) (trace N clk ops w0 0%nat).
Proof.
  intro Hi. apply trace_Forall; [|eapply reachable_init, Hi].
  intros o w t _ z. destruct o; unfold step, wrap; cbn [snd].
  all: try match goal with |- context [match ?m with (_, _) => _ end] => destruct m as [c [a|e]] eqn:E end; cbn [snd]; intro H; try discriminate H.
  - inversion H; subst. eapply elapsed_pos0, E.
  - destruct a as [z'|]; inversion H; subst. clear H.
    unfold leftover in E. destruct (w_state w); try discriminate E.
    destruct (w_duration w); [|destruct return_none; discriminate E].
    destruct (elapsed N clk w t None) as [c' [e'|x]]; inversion E. apply max0_pos0.
Qed.

Lemma history_only_runtime_errors duration w0 ops :
  init N duration = Ok w0 ->
  Forall (fun cr => forall e, snd cr = Exn e -> e = RuntimeError) (trace N clk ops w0 0%nat).
Proof.
  intro Hi. apply trace_Forall; [|eapply reachable_init, Hi].
  intros o w t HR e. destruct (step N clk o w t) as [c r] eqn:E. cbn [snd]. intro H. subst r.
  eapply only_runtime_errors; eassumption.
Qed.

(* ---- the timestamps, history-wise ---- *)

Lemma no_restart_keeps_started ops : forall w t,
  restarts_in N clk ops w t = false -> w_started (fst (final N clk ops w t)) = w_started w.
Proof.
  induction ops as [|o r IH]; intros w t H; [reflexivity|].
  cbn [restarts_in final] in *. apply orb_false_elim in H. destruct H as [H1 H2].
  pose proof (started_at_frame o w t H1) as HF.
  destruct (step N clk o w t) as [[w' t'] res]. cbn [fst] in HF. rewrite (IH w' t' H2). exact HF.
Qed.

(* _started_at is the last clock reading taken by the last (re)start of the history *)
Lemma started_at_is_last_restart ops1 o ops2 w0 t0 :
  let c1 := final N clk ops1 w0 t0 in
  effective_restart o (fst c1) = true ->
  let c2 := fst (step N clk o (fst c1) (snd c1)) in
  restarts_in N clk ops2 (fst c2) (snd c2) = false ->
  w_started (fst (final N clk (ops1 ++ o :: ops2) w0 t0)) = Some (clk (snd c2 - 1)) /\ (snd c1 < snd c2)%nat.
Proof.
  intros c1 HR c2 HN. rewrite final_app. fold c1. cbn [final].
  destruct (restart_effect o (fst c1) (snd c1) HR) as (t' & HS & Ht).
  subst c2. rewrite HS in *. cbn [fst snd] in *.
  rewrite (no_restart_keeps_started ops2 _ _ HN). cbn [w_started].
  split; [do 2 f_equal; lia|lia].
Qed.

Lemma no_stop_keeps_stopped ops : forall w t,
  stops_in N clk ops w t = false -> w_stopped (fst (final N clk ops w t)) = w_stopped w.
Proof.
  induction ops as [|o r IH]; intros w t H; [reflexivity|].
  cbn [stops_in final] in *. apply orb_false_elim in H. destruct H as [H1 H2].
  apply orb_false_elim in H1. destruct H1 as [H0 H1].
  pose proof (stopped_at_frame o w t H0 H1) as HF.
  destruct (step N clk o w t) as [[w' t'] res]. cbn [fst] in HF. rewrite (IH w' t' H2). exact HF.
Qed.

(* _stopped_at is the clock reading taken by the last stop of the history *)
Lemma stopped_at_is_last_stop ops1 o ops2 w0 t0 :
  let c1 := final N clk ops1 w0 t0 in
  effective_stop o (fst c1) = true ->
  let c2 := fst (step N clk o (fst c1) (snd c1)) in
  stops_in N clk ops2 (fst c2) (snd c2) = false ->
  w_stopped (fst (final N clk (ops1 ++ o :: ops2) w0 t0)) = Some (clk (snd c1)).
Proof.
  intros c1 HR c2 HN. rewrite final_app. fold c1. cbn [final].
  destruct (stop_effect o (fst c1) (snd c1) HR) as (v & HS).
  subst c2. rewrite HS in *. cbn [fst snd] in *.
  rewrite (no_stop_keeps_stopped ops2 _ _ HN). reflexivity.
Qed.

End Machine.
