(* Proofs/Insp_Engine.v — lemmas about the capture engine (Model/Insp_Engine.v). *)
Require Import OV.Base.Bytes OV.Base.Py OV.Base.Insp_Struct OV.Gen.Insp_Consts OV.Model.Insp_Engine.
Open Scope N_scope.

(* ------------------------------------------------------------------ small facts *)
Lemma rname_beq_eq a b : rname_beq a b = true <-> a = b.
Proof. split; [apply internal_rname_dec_bl | apply internal_rname_dec_lb]. Qed.
Lemma rname_beq_refl a : rname_beq a a = true.
Proof. apply rname_beq_eq. reflexivity. Qed.
Lemma cname_beq_eq a b : cname_beq a b = true <-> a = b.
Proof. split; [apply internal_cname_dec_bl | apply internal_cname_dec_lb]. Qed.

Lemma mem_rname_In n l : mem_rname n l = true <-> In n l.
Proof.
  induction l as [|k t IH]; cbn [mem_rname In]; [split; [discriminate | tauto]|].
  rewrite orb_true_iff, rname_beq_eq, IH. tauto.
Qed.
Lemma mem_nat_In n l : mem_nat n l = true <-> In n l.
Proof.
  induction l as [|k t IH]; cbn [mem_nat In]; [split; [discriminate | tauto]|].
  rewrite orb_true_iff, Nat.eqb_eq, IH. tauto.
Qed.

Lemma btake_min n a : btake n a = btake (N.min n (blen a)) a.
Proof.
  destruct (N.le_gt_cases n (blen a)) as [H|H].
  - replace (N.min n (blen a)) with n by lia. reflexivity.
  - replace (N.min n (blen a)) with (blen a) by lia. rewrite !btake_all by lia. reflexivity.
Qed.

Lemma bslice_nil off st : bslice off 0 st = [].
Proof. unfold bslice. apply btake_0. Qed.

(* a slice of the stream stays the same slice when the stream grows *)
Lemma slice_ext d off st c : d = bslice off (blen d) st -> d = bslice off (blen d) (st ++ c).
Proof.
  intros H. destruct d as [|x d]; [rewrite blen_nil, bslice_nil; reflexivity|].
  assert (Hl : blen (x :: d) = N.min (blen (x :: d)) (blen st - off)).
  { rewrite H at 1. apply blen_bslice. }
  rewrite blen_cons in *. unfold bslice in *.
  rewrite bskip_app_le by lia. rewrite btake_app_le; [exact H|]. rewrite blen_bskip. lia.
Qed.

(* ------------------------------------------------------------------ capture_slice: a fixed region without min_length *)
(* [on_track st r]: the region holds exactly the part of its window that the stream [st] has reached *)
Definition on_track (st : bytes) (r : region) : Prop := r_data r = bslice (r_off r) (r_len r) st.

Lemma capture_step st c r :
  r_min r = None -> on_track st r ->
  let r' := if rcomplete r then r else cap_fixed r c (blen st + blen c) in
  r_end r = false ->
  on_track (st ++ c) r' /\ r_id r' = r_id r /\ r_end r' = r_end r /\ r_off r' = r_off r /\ r_len r' = r_len r
  /\ r_min r' = r_min r /\ r_fin r' = r_fin r.
Proof.
  intros Hmin Hon r' Hend. subst r'. unfold rcomplete, base_complete. rewrite Hend, Hmin, flen_blen.
  unfold on_track in *.
  assert (Hl : blen (r_data r) = N.min (r_len r) (blen st - r_off r)).
  { rewrite Hon at 1. apply blen_bslice. }
  destruct (r_len r =? blen (r_data r)) eqn:Hc.
  - (* complete: skipped; the window is already inside st *)
    split; [|repeat split; auto].
    rewrite Hon. unfold bslice.
    destruct (N.le_gt_cases (r_off r) (blen st)) as [Ho|Ho].
    + rewrite bskip_app_le by lia. rewrite btake_app_le; [reflexivity|]. rewrite blen_bskip. lia.
    + assert (r_len r = 0) by lia. rewrite H. rewrite !btake_0. reflexivity.
  - unfold cap_fixed. rewrite !flen_blen.
    replace (blen st + blen c - blen c) with (blen st) by lia.
    destruct ((blen st <=? r_off r + blen (r_data r)) && (r_off r + blen (r_data r) <=? blen st + blen c)) eqn:Hcond;
      cbn [set_data r_data r_id r_end r_off r_len r_min r_fin]; (split; [|repeat split; auto]).
    + rewrite ntake_btake, nskip_bskip. unfold bslice.
      destruct (N.le_gt_cases (r_off r) (blen st)) as [Ho|Ho].
      * (* region already started: wanted = |st| *)
        replace (r_off r + blen (r_data r) - blen st) with 0 by lia. rewrite bskip_0.
        rewrite bskip_app_le by lia. f_equal. f_equal.
        rewrite Hon. unfold bslice. apply btake_all. rewrite blen_bskip. lia.
      * (* region starts inside this chunk *)
        assert (Hd : r_data r = []) by (apply blen_0_nil; lia).
        rewrite Hd, blen_nil, N.add_0_r. cbn [app].
        rewrite bskip_app_ge by lia. reflexivity.
    + (* the chunk ends before the region starts *)
      assert (Ho : blen st + blen c < r_off r) by lia.
      assert (Hd : r_data r = []) by (apply blen_0_nil; lia).
      rewrite Hd. unfold bslice. rewrite bskip_all; [rewrite btake_nil; reflexivity|]. rewrite blen_app. lia.
Qed.

(* ------------------------------------------------------------------ the retained-bytes invariant of one region *)
(* what a region holds is the stream's bytes at its offset, never more than its length; an
   EndCaptureRegion that holds something ends at the current position (while not finished) *)
Definition RI (st : bytes) (fin : bool) (r : region) : Prop :=
  blen (r_data r) <= r_len r /\
  r_data r = bslice (r_off r) (blen (r_data r)) st /\
  (r_end r = true -> 0 < r_len r /\ (fin = false -> r_data r = [] \/ r_off r + blen (r_data r) = blen st)).

Lemma RI_fresh st fin id sp : (rs_end sp = true -> 0 < rs_len sp) -> RI st fin (region_of_spec id sp).
Proof.
  intros H. unfold RI, region_of_spec. cbn [r_data r_len r_off r_end]. rewrite blen_nil, bslice_nil.
  split; [lia|]. split; [reflexivity|]. intros He. split; [apply H; exact He|]. intros _. left. reflexivity.
Qed.

Lemma cap_fixed_RI pre c r :
  r_end r = false -> RI (pre ++ c) false r -> RI (pre ++ c) false (cap_fixed r c (blen (pre ++ c))).
Proof.
  intros Hend (Hlen & Hsl & _). unfold cap_fixed. rewrite !flen_blen, blen_app.
  replace (blen pre + blen c - blen c) with (blen pre) by lia.
  destruct ((blen pre <=? r_off r + blen (r_data r)) && (r_off r + blen (r_data r) <=? blen pre + blen c)) eqn:Hcond.
  2:{ unfold RI. split; [exact Hlen|]. split; [exact Hsl|]. intros He. rewrite Hend in He. discriminate. }
  unfold RI. cbn [set_data r_data r_len r_off r_end]. rewrite Hend.
  rewrite ntake_btake, nskip_bskip.
  set (st := pre ++ c) in *.
  assert (HX : r_data r ++ bskip (r_off r + blen (r_data r) - blen pre) c = bskip (r_off r) st).
  { rewrite <- (btake_bskip_app (blen (r_data r)) (bskip (r_off r) st)).
    f_equal; [exact Hsl|]. rewrite bskip_bskip. subst st. rewrite bskip_app_ge by lia. reflexivity. }
  rewrite HX. split; [|split].
  - rewrite blen_btake. lia.
  - unfold bslice. rewrite blen_btake. rewrite <- btake_min. reflexivity.
  - discriminate.
Qed.

Lemma cap_end_RI pre c r :
  r_end r = true -> 0 < r_len r ->
  (r_data r = [] \/ (r_data r = bslice (r_off r) (blen (r_data r)) pre /\ r_off r + blen (r_data r) = blen pre)) ->
  RI (pre ++ c) false (cap_end r c (blen (pre ++ c))).
Proof.
  intros Hend Hpos Hd.
  (* what is accumulated is a suffix of the stream *)
  assert (HX : exists k, k <= blen (pre ++ c) /\ r_data r ++ c = bskip k (pre ++ c)).
  { destruct Hd as [Hd | [Hsl Ha]].
    - exists (blen pre). rewrite Hd, blen_app. split; [lia|]. rewrite bskip_app_ge by lia.
      replace (blen pre - blen pre) with 0 by lia. reflexivity.
    - exists (r_off r). rewrite blen_app. split; [lia|]. rewrite bskip_app_le by lia. f_equal.
      rewrite Hsl. unfold bslice. apply btake_all. rewrite blen_bskip. lia. }
  destruct HX as (k & Hk & HX).
  set (st := pre ++ c) in *.
  unfold cap_end, nlast. replace (r_len r =? 0) with false by lia.
  rewrite flen_blen, nskip_bskip. rewrite HX. rewrite bskip_bskip, blen_bskip.
  unfold RI. cbn [set_off set_data r_data r_len r_off r_end]. rewrite flen_blen, blen_bskip.
  split; [lia|]. split.
  - unfold bslice. rewrite btake_all by (rewrite blen_bskip; lia). f_equal. lia.
  - intros _. split; [lia|]. intros _. right. lia.
Qed.

Lemma RI_ext_fixed st c fin r : r_end r = false -> RI st fin r -> RI (st ++ c) fin r.
Proof.
  intros Hend (Hlen & Hsl & _). unfold RI. split; [exact Hlen|]. split; [apply slice_ext; exact Hsl|].
  intros He. rewrite Hend in He. discriminate.
Qed.

Lemma RI_ext_fin st c r : RI st true r -> RI (st ++ c) true r.
Proof.
  intros (Hlen & Hsl & He). unfold RI. split; [exact Hlen|]. split; [apply slice_ext; exact Hsl|].
  intros H. split; [apply He; exact H|]. discriminate.
Qed.

Lemma RI_set_fin st fin r b : RI st fin r -> RI st true (set_fin r b).
Proof.
  intros (Hlen & Hsl & He). unfold RI. cbn [set_fin r_data r_len r_off r_end].
  split; [exact Hlen|]. split; [exact Hsl|]. intros H. split; [apply He; exact H|]. discriminate.
Qed.

Lemma RI_to_fin st fin r : RI st fin r -> RI st true r.
Proof. intros (Hlen & Hsl & He). unfold RI. split; [exact Hlen|]. split; [exact Hsl|]. intros H. split; [apply He; exact H|]. discriminate. Qed.

(* one step of _capture on one region: the first presentation of a chunk *)
Lemma rcapture_RI_first st c r :
  RI st false r ->
  RI (st ++ c) false (if r_end r || negb (rcomplete r) then rcapture r c (blen (st ++ c)) else r).
Proof.
  intros HR. destruct (r_end r) eqn:Hend; cbn [orb].
  - unfold rcapture. rewrite Hend. destruct HR as (Hlen & Hsl & He). destruct (He Hend) as [Hp Ha].
    apply cap_end_RI; auto. destruct (Ha eq_refl) as [Hn | Hanch]; [left; exact Hn | right; split; assumption].
  - pose proof (RI_ext_fixed st c false r Hend HR) as HR'.
    destruct (negb (rcomplete r)); [|exact HR'].
    unfold rcapture. rewrite Hend. apply cap_fixed_RI; assumption.
Qed.

(* ... and the re-presentation of the same chunk to a region that is still empty *)
Lemma rcapture_RI_again pre c r :
  RI (pre ++ c) false r -> r_data r = [] ->
  RI (pre ++ c) false (if r_end r || negb (rcomplete r) then rcapture r c (blen (pre ++ c)) else r).
Proof.
  intros HR Hd. destruct (r_end r) eqn:Hend; cbn [orb].
  - unfold rcapture. rewrite Hend. destruct HR as (Hlen & Hsl & He). destruct (He Hend) as [Hp Ha].
    apply cap_end_RI; auto.
  - destruct (negb (rcomplete r)); [|exact HR].
    unfold rcapture. rewrite Hend. apply cap_fixed_RI; assumption.
Qed.

(* ------------------------------------------------------------------ the engine invariant *)
Lemma NoDup_fst_inj {A B} (l : list (A * B)) k a b :
  NoDup (map fst l) -> In (k, a) l -> In (k, b) l -> a = b.
Proof.
  induction l as [|[k' v] t IH]; cbn [map fst In]; intros Hnd Ha Hb; [contradiction|].
  inversion Hnd as [|? ? Hnin Hnd']; subst.
  destruct Ha as [Ha | Ha], Hb as [Hb | Hb].
  - congruence.
  - inversion Ha; subst. exfalso. apply Hnin. apply (in_map fst) in Hb. exact Hb.
  - inversion Hb; subst. exfalso. apply Hnin. apply (in_map fst) in Ha. exact Ha.
  - apply IH; assumption.
Qed.

Definition cap1 (only : list rname) (chunk : bytes) (pos : N) (p : rname * region) : rname * region :=
  let '(n, r) := p in
  if (match only with [] => false | _ => negb (mem_rname n only) end) then (n, r)
  else if r_end r || negb (rcomplete r) then (n, rcapture r chunk pos)
  else (n, r).
Lemma capture_regs_map only c pos l : capture_regs only c pos l = map (cap1 only c pos) l.
Proof. reflexivity. Qed.

Lemma rcapture_id r c pos : r_id (rcapture r c pos) = r_id r.
Proof.
  unfold rcapture, cap_end, cap_fixed. destruct (r_end r); [reflexivity|].
  destruct (_ && _); reflexivity.
Qed.
Lemma cap1_fst only c pos p : fst (cap1 only c pos p) = fst p.
Proof. destruct p as [n r]. unfold cap1. destruct (match only with [] => false | _ => _ end); [reflexivity|]. destruct (_ || _); reflexivity. Qed.
Lemma cap1_id only c pos p : r_id (snd (cap1 only c pos p)) = r_id (snd p).
Proof. destruct p as [n r]. unfold cap1. destruct (match only with [] => false | _ => _ end); [reflexivity|]. destruct (_ || _); [apply rcapture_id|reflexivity]. Qed.

Lemma capture_regs_names only c pos l : map fst (capture_regs only c pos l) = map fst l.
Proof. rewrite capture_regs_map, map_map. apply map_ext. intros p. apply cap1_fst. Qed.
Lemma capture_regs_ids only c pos l : ids (capture_regs only c pos l) = ids l.
Proof. unfold ids. rewrite capture_regs_map, map_map. apply map_ext. intros p. apply cap1_id. Qed.

Lemma Forall_map_intro {A B} (P : B -> Prop) (f : A -> B) l :
  (forall x, In x l -> P (f x)) -> Forall P (map f l).
Proof. intros H. apply Forall_forall. intros y Hy. apply in_map_iff in Hy. destruct Hy as (x & <- & Hx). auto. Qed.

Lemma new_names_In known l n :
  In n (new_names known l) <-> exists r, In (n, r) l /\ ~ In (r_id r) known.
Proof.
  unfold new_names. rewrite in_map_iff. split.
  - intros ([n' r] & <- & Hf). apply filter_In in Hf. destruct Hf as [Hin Hb]. exists r. split; [exact Hin|].
    cbn [snd] in Hb. intros Hk. apply mem_nat_In in Hk. rewrite Hk in Hb. discriminate.
  - intros (r & Hin & Hk). exists (n, r). split; [reflexivity|]. apply filter_In. split; [exact Hin|].
    cbn [snd]. destruct (mem_nat (r_id r) known) eqn:Hm; [|reflexivity]. apply mem_nat_In in Hm. contradiction.
Qed.


Lemma rcapture_end r c pos : r_end (rcapture r c pos) = r_end r.
Proof.
  unfold rcapture, cap_end, cap_fixed. destruct (r_end r) eqn:H; [cbn [set_off set_data r_end]; exact H|].
  destruct (_ && _); cbn [set_data r_end]; exact H.
Qed.
Lemma cap1_end only c pos p : r_end (snd (cap1 only c pos p)) = r_end (snd p).
Proof. destruct p as [n r]. unfold cap1. destruct (match only with [] => false | _ => _ end); [reflexivity|]. destruct (_ || _); [apply rcapture_end|reflexivity]. Qed.

Section Invariant.
Context {X : Type}.
(* a format may fix which names are EndCaptureRegions ([K name is_end]); the engine never changes a region's kind *)
Variable K : rname -> bool -> Prop.
Definition kinds_ok (l : regions) : Prop := Forall (fun p => K (fst p) (r_end (snd p))) l.

Lemma kinds_capture only c pos l : kinds_ok l -> kinds_ok (capture_regs only c pos l).
Proof.
  unfold kinds_ok. intros H. rewrite capture_regs_map. apply Forall_map_intro. intros p Hin.
  rewrite Forall_forall in H. rewrite cap1_fst, cap1_end. apply H. exact Hin.
Qed.

(* what every reachable inspector state satisfies with respect to the stream [st] presented so far *)
Definition Inv (st : bytes) (s : ist X) : Prop :=
  i_pos s = blen st /\ NoDup (map fst (i_regs s)) /\
  Forall (fun p => RI st (i_fin s) (snd p)) (i_regs s) /\ kinds_ok (i_regs s).

(* region objects that did not exist in [old] are empty *)
Definition fresh_empty (old new : regions) : Prop :=
  forall p, In p new -> ~ In (r_id (snd p)) (ids old) -> r_data (snd p) = [].

(* the obligations of a format: its hooks keep the invariant and create regions empty *)
Definition post_ok (F : fmt X) : Prop :=
  forall st s s' e, Inv st s -> f_post F s = (s', e) ->
    Inv st s' /\ fresh_empty (i_regs s) (i_regs s') /\ i_fin s' = i_fin s.
Definition rc_ok (F : fmt X) : Prop :=
  forall n st s s' e, Inv st s -> f_rcomplete F n s = (s', e) -> Inv st s'.

Lemma Inv_capture_first st (s : ist X) c :
  Inv st s -> i_fin s = false ->
  Inv (st ++ c) (set_regs (set_pos s (i_pos s + flen c)) (capture_regs [] c (i_pos s + flen c) (i_regs s))).
Proof.
  intros (Hpos & Hnd & Hall & HK) Hfin. unfold Inv. cbn [set_regs set_pos i_pos i_regs i_fin].
  rewrite flen_blen, Hpos, <- blen_app. split; [reflexivity|]. split; [|split; [|apply kinds_capture; exact HK]].
  - rewrite capture_regs_names. exact Hnd.
  - rewrite capture_regs_map. apply Forall_map_intro. intros [n r] Hin.
    rewrite Forall_forall in Hall. specialize (Hall _ Hin). cbn [snd] in Hall. rewrite Hfin in *.
    unfold cap1. pose proof (rcapture_RI_first st c r Hall) as H.
    destruct (r_end r || negb (rcomplete r)); exact H.
Qed.

Lemma Inv_capture_again pre c (s : ist X) only :
  Inv (pre ++ c) s -> i_fin s = false -> only <> [] ->
  (forall n r, In (n, r) (i_regs s) -> In n only -> r_data r = []) ->
  Inv (pre ++ c) (set_regs s (capture_regs only c (i_pos s) (i_regs s))).
Proof.
  intros (Hpos & Hnd & Hall & HK) Hfin Hne Hempty. unfold Inv. cbn [set_regs i_pos i_regs i_fin].
  split; [exact Hpos|]. split; [|split; [|apply kinds_capture; exact HK]].
  - rewrite capture_regs_names. exact Hnd.
  - rewrite capture_regs_map. apply Forall_map_intro. intros [n r] Hin.
    rewrite Forall_forall in Hall. pose proof (Hall _ Hin) as HR. cbn [snd] in HR. rewrite Hfin in *.
    unfold cap1. destruct only as [|k t]; [contradiction|].
    destruct (mem_rname n (k :: t)) eqn:Hm; cbn [negb]; [|exact HR].
    apply mem_rname_In in Hm. pose proof (Hempty n r Hin Hm) as Hd.
    rewrite Hpos. pose proof (rcapture_RI_again pre c r HR Hd) as H.
    destruct (r_end r || negb (rcomplete r)); exact H.
Qed.

Lemma Inv_settle (F : fmt X) pre c : post_ok F ->
  forall fuel known (s s' : ist X) e,
  Inv (pre ++ c) s ->
  (forall p, In p (i_regs s) -> ~ In (r_id (snd p)) known -> r_data (snd p) = []) ->
  settle fuel F c known s = (s', e) -> Inv (pre ++ c) s'.
Proof.
  intros HF. induction fuel as [|fuel IH]; intros known s s' e HI Hfresh Hs; cbn [settle] in Hs.
  - destruct (new_names known (i_regs s)); inversion Hs; subst; exact HI.
  - destruct (new_names known (i_regs s)) as [|n0 new] eqn:Hnew; [inversion Hs; subst; exact HI|].
    unfold do_capture in Hs. destruct (i_fin s) eqn:Hfin; [inversion Hs; subst; exact HI|].
    set (s1 := set_regs s (capture_regs (n0 :: new) c (i_pos s) (i_regs s))) in *.
    assert (HI1 : Inv (pre ++ c) s1).
    { apply Inv_capture_again; auto; [discriminate|].
      intros n r Hin Hn. rewrite <- Hnew in Hn. apply new_names_In in Hn. destruct Hn as (r' & Hin' & Hk).
      destruct HI as (_ & Hnd & _ & _). rewrite (NoDup_fst_inj _ _ _ _ Hnd Hin Hin').
      apply (Hfresh (n, r') Hin' Hk). }
    destruct (f_post F s1) as [s2 [e2|]] eqn:Hp.
    + inversion Hs; subst. destruct (HF _ _ _ _ HI1 Hp) as [H _]. exact H.
    + destruct (HF _ _ _ _ HI1 Hp) as (HI2 & Hfe & _).
      apply (IH _ _ _ _ HI2) in Hs; [exact Hs|].
      intros p Hin Hk. apply (Hfe p Hin). exact Hk.
Qed.

Lemma Inv_callbacks (F : fmt X) st : rc_ok F ->
  forall names (s s' : ist X) e, Inv st s -> run_callbacks F names s = (s', e) -> Inv st s'.
Proof.
  intros HF. induction names as [|n t IH]; intros s s' e HI Hr; cbn [run_callbacks] in Hr.
  - inversion Hr; subst; exact HI.
  - destruct (f_rcomplete F n s) as [s1 [e1|]] eqn:Hc.
    + inversion Hr; subst. exact (HF _ _ _ _ _ HI Hc).
    + apply (IH _ _ _ (HF _ _ _ _ _ HI Hc) Hr).
Qed.

Lemma Inv_ext_fin st c (s : ist X) : Inv st s -> i_fin s = true -> Inv (st ++ c) (set_pos s (i_pos s + flen c)).
Proof.
  intros (Hpos & Hnd & Hall & HK) Hfin. unfold Inv. cbn [set_pos i_pos i_regs i_fin].
  rewrite flen_blen, Hpos, <- blen_app. split; [reflexivity|]. split; [exact Hnd|]. split; [|exact HK].
  rewrite Hfin in *. eapply Forall_impl; [|exact Hall]. intros p. apply RI_ext_fin.
Qed.

(* eat_chunk keeps the invariant, whether it returns or raises *)
Theorem Inv_eat_chunk (F : fmt X) st (s s' : ist X) c e :
  post_ok F -> rc_ok F -> Inv st s -> eat_chunk F s c = (s', e) -> Inv (st ++ c) s'.
Proof.
  intros HP HC HI He. unfold eat_chunk, do_capture in He. cbn [set_pos i_fin i_regs i_pos] in He.
  destruct (i_fin s) eqn:Hfin.
  - inversion He; subst. apply Inv_ext_fin; assumption.
  - set (s1 := set_regs (set_pos s (i_pos s + flen c)) (capture_regs [] c (i_pos s + flen c) (i_regs s))) in *.
    pose proof (Inv_capture_first st s c HI Hfin) as HI1. fold s1 in HI1.
    destruct (f_post F s1) as [s2 [e2|]] eqn:Hp.
    + inversion He; subst. destruct (HP _ _ _ _ HI1 Hp) as [H _]. exact H.
    + destruct (HP _ _ _ _ HI1 Hp) as (HI2 & Hfe & _).
      destruct (settle eat_fuel F c (ids (i_regs s)) s2) as [s3 [e3|]] eqn:Hs.
      * inversion He; subst. refine (Inv_settle F st c HP _ _ _ _ _ HI2 _ Hs).
        intros p Hin Hk. apply (Hfe p Hin). subst s1. cbn [set_regs i_regs]. rewrite capture_regs_ids. exact Hk.
      * eapply Inv_callbacks; [exact HC| |exact He].
        refine (Inv_settle F st c HP _ _ _ _ _ HI2 _ Hs).
        intros p Hin Hk. apply (Hfe p Hin). subst s1. cbn [set_regs i_regs]. rewrite capture_regs_ids. exact Hk.
Qed.

Lemma Inv_finish st (s : ist X) : Inv st s -> Inv st (finish s).
Proof.
  intros (Hpos & Hnd & Hall & HK). unfold Inv, finish. cbn [i_pos i_regs i_fin].
  split; [exact Hpos|]. split; [|split].
  - rewrite map_map. cbn [fst]. exact Hnd.
  - apply Forall_map_intro. intros p Hin. rewrite Forall_forall in Hall. specialize (Hall _ Hin).
    cbn [snd]. destruct (r_end (snd p)); [eapply RI_set_fin; exact Hall | eapply RI_to_fin; exact Hall].
  - unfold kinds_ok in *. apply Forall_map_intro. intros p Hin. rewrite Forall_forall in HK. specialize (HK _ Hin).
    cbn [fst snd].
    assert (Hq : r_end (if r_end (snd p) then set_fin (snd p) true else snd p) = r_end (snd p)).
    { destruct (r_end (snd p)) eqn:He; [cbn [set_fin r_end]; exact He | exact He]. }
    rewrite Hq. exact HK.
Qed.

Lemma Inv_init (F : fmt X) :
  NoDup (map fst (init_regions (f_id F))) ->
  Forall (fun p => (rs_end (snd p) = true -> 0 < rs_len (snd p)) /\ K (fst p) (rs_end (snd p))) (init_regions (f_id F)) ->
  Inv [] (init_ist F).
Proof.
  intros Hnd Hpos. unfold Inv, init_ist, kinds_ok. cbn [i_pos i_regs i_fin]. split; [reflexivity|].
  generalize 0%nat as id. induction (init_regions (f_id F)) as [|[n sp] t IH]; intros id; cbn [init_regs map fst].
  - split; [|split]; constructor.
  - inversion Hnd as [|? ? Hnin Hnd']; subst. inversion Hpos as [|? ? [Hp Hk] Hpos']; subst.
    destruct (IH Hnd' Hpos' (S id)) as (H1 & H2 & H3). split; [|split].
    + constructor; [|exact H1].
      clear - Hnin. revert id. induction t as [|[n' sp'] t IHt]; intros id; cbn [init_regs map fst In] in *; [tauto|].
      intros [->|H]; [apply Hnin; left; reflexivity|]. apply (IHt (fun H' => Hnin (or_intror H')) (S id) H).
    + constructor; [|exact H2]. cbn [snd]. apply RI_fresh. exact Hp.
    + constructor; [|exact H3]. exact Hk.
Qed.

(* every state an inspector can be driven into: any chunks (also after an exception, also after
   finish), finish at any time *)
Inductive reach (F : fmt X) : bytes -> ist X -> Prop :=
| reach_init : reach F [] (init_ist F)
| reach_eat st s c s' e : reach F st s -> eat_chunk F s c = (s', e) -> reach F (st ++ c) s'
| reach_finish st s : reach F st s -> reach F st (finish s).

Definition fmt_ok (F : fmt X) : Prop :=
  post_ok F /\ rc_ok F /\ NoDup (map fst (init_regions (f_id F))) /\
  Forall (fun p => (rs_end (snd p) = true -> 0 < rs_len (snd p)) /\ K (fst p) (rs_end (snd p))) (init_regions (f_id F)).

Theorem reach_Inv (F : fmt X) st s : fmt_ok F -> reach F st s -> Inv st s.
Proof.
  intros (HP & HC & Hnd & Hpos) Hr. induction Hr as [|st s c s' e Hr IH He|st s Hr IH].
  - apply Inv_init; assumption.
  - eapply Inv_eat_chunk; eauto.
  - apply Inv_finish. exact IH.
Qed.

(* DESIGN C01 item 2: whatever an inspector retains for a region is exactly the stream's bytes at
   that region's (current) offset, and never more than the region's length *)
Theorem retained_is_stream_slice (F : fmt X) st s n r :
  fmt_ok F -> reach F st s -> In (n, r) (i_regs s) ->
  r_data r = bslice (r_off r) (blen (r_data r)) st /\ blen (r_data r) <= r_len r /\ i_pos s = blen st.
Proof.
  intros HF Hr Hin. destruct (reach_Inv F st s HF Hr) as (Hpos & _ & Hall & _).
  rewrite Forall_forall in Hall. destruct (Hall _ Hin) as (Hlen & Hsl & _). cbn [snd] in *. auto.
Qed.

End Invariant.

(* ------------------------------------------------------------------ the hooks' building blocks keep the invariant *)
Definition old_or_empty (old new : regions) : Prop :=
  forall p, In p new -> In p old \/ r_data (snd p) = [].
Lemma ooe_refl l : old_or_empty l l.
Proof. intros p H. left. exact H. Qed.
Lemma ooe_trans a b c : old_or_empty a b -> old_or_empty b c -> old_or_empty a c.
Proof. intros H1 H2 p Hp. destruct (H2 p Hp) as [H|H]; [apply H1; exact H | right; exact H]. Qed.
Lemma ooe_fresh a b : old_or_empty a b -> fresh_empty a b.
Proof.
  intros H p Hp Hid. destruct (H p Hp) as [Ho|He]; [|exact He].
  exfalso. apply Hid. unfold ids. apply in_map_iff. exists p. split; [reflexivity|exact Ho].
Qed.
Lemma ooe_ids a b c : ids b = ids a -> old_or_empty b c -> fresh_empty a c.
Proof.
  intros Hi H p Hp Hid. destruct (H p Hp) as [Ho|He]; [|exact He].
  exfalso. apply Hid. rewrite <- Hi. unfold ids. apply in_map_iff. exists p. split; [reflexivity|exact Ho].
Qed.

Lemma rget_None_notin n l : rget n l = None -> ~ In n (map fst l).
Proof.
  induction l as [|[k r] t IH]; cbn [rget map fst In]; [tauto|].
  destruct (rname_beq k n) eqn:Hb; [discriminate|]. intros H [Hk|Hin]; [|exact (IH H Hin)].
  subst. rewrite rname_beq_refl in Hb. discriminate.
Qed.
Lemma rget_Some_In n l r : rget n l = Some r -> In (n, r) l.
Proof.
  induction l as [|[k r'] t IH]; cbn [rget In]; [discriminate|].
  destruct (rname_beq k n) eqn:Hb; [|intros H; right; exact (IH H)].
  apply rname_beq_eq in Hb. intros H. inversion H; subst. left. reflexivity.
Qed.
Lemma rdel_In n l p : In p (rdel n l) -> In p l.
Proof.
  induction l as [|[k r] t IH]; cbn [rdel In]; [tauto|].
  destruct (rname_beq k n); [intros H; right; exact H|]. cbn [In]. intros [H|H]; [left; exact H | right; exact (IH H)].
Qed.
Lemma rdel_NoDup n l : NoDup (map fst l) -> NoDup (map fst (rdel n l)).
Proof.
  induction l as [|[k r] t IH]; cbn [rdel map fst]; [intros H; exact H|].
  intros H. inversion H as [|? ? Hn Hd]; subst. destruct (rname_beq k n); [exact Hd|].
  cbn [map fst]. constructor; [|exact (IH Hd)].
  intros Hin. apply Hn. apply in_map_iff in Hin. destruct Hin as (p & Hf & Hp). apply rdel_In in Hp.
  apply in_map_iff. exists p. split; assumption.
Qed.
Lemma rset_names n r l : map fst (rset n r l) = map fst l.
Proof.
  induction l as [|[k r'] t IH]; cbn [rset map fst]; [reflexivity|].
  destruct (rname_beq k n) eqn:Hb; cbn [map fst]; [reflexivity | rewrite IH; reflexivity].
Qed.
Lemma rset_In n r l p : In p (rset n r l) -> In p l \/ (p = (n, r) /\ rget n l <> None).
Proof.
  induction l as [|[k r'] t IH]; cbn [rset rget In]; [tauto|].
  destruct (rname_beq k n) eqn:Hb.
  - apply rname_beq_eq in Hb. subst. cbn [In]. intros [H|H]; [right; split; [symmetry; exact H | discriminate] | left; right; exact H].
  - cbn [In]. intros [H|H]; [left; left; exact H|]. destruct (IH H) as [H'|H']; [left; right; exact H' | right; exact H'].
Qed.
Lemma rset_ids n r l m : rget n l = Some m -> r_id r = r_id m -> ids (rset n r l) = ids l.
Proof.
  unfold ids. induction l as [|[k r'] t IH]; cbn [rset rget map]; [reflexivity|].
  destruct (rname_beq k n); cbn [map snd]; intros H Hi.
  - inversion H; subst. rewrite Hi. reflexivity.
  - rewrite (IH H Hi). reflexivity.
Qed.

Lemma NoDup_snoc {A} (l : list A) x : NoDup l -> ~ In x l -> NoDup (l ++ [x]).
Proof.
  induction l as [|y t IH]; cbn [app]; intros Hn Hx; [constructor; [tauto|constructor]|].
  inversion Hn as [|? ? Hy Hd]; subst. constructor.
  - intros Hin. apply in_app_or in Hin. destruct Hin as [H|[H|[]]]; [exact (Hy H)|]. subst. apply Hx. left. reflexivity.
  - apply IH; [exact Hd|]. intros H. apply Hx. right. exact H.
Qed.

Section Hooks.
Context {X : Type}.
Variable K : rname -> bool -> Prop.

Lemma Inv_same_regs st (s s' : ist X) :
  Inv K st s -> i_pos s' = i_pos s -> i_regs s' = i_regs s -> i_fin s' = i_fin s -> Inv K st s'.
Proof. intros (H1 & H2 & H3 & H4) Hp Hr Hf. unfold Inv. rewrite Hp, Hr, Hf. auto. Qed.

Lemma Inv_new_region st (s s' : ist X) n sp e :
  Inv K st s -> (rs_end sp = true -> 0 < rs_len sp) -> K n (rs_end sp) ->
  new_region n sp s = (s', e) ->
  Inv K st s' /\ old_or_empty (i_regs s) (i_regs s') /\ i_fin s' = i_fin s.
Proof.
  intros HI Hp Hk Hn. unfold new_region, has_region, rhas in Hn.
  destruct (rget n (i_regs s)) eqn:Hg; inversion Hn; subst; clear Hn.
  - split; [exact HI|]. split; [apply ooe_refl | reflexivity].
  - destruct HI as (H1 & H2 & H3 & H4). unfold Inv, kinds_ok. cbn [i_pos i_regs i_fin]. split; [|split; [|reflexivity]].
    + split; [exact H1|]. split; [|split].
      * rewrite map_app. cbn [map fst]. apply NoDup_snoc; [exact H2 | apply rget_None_notin; exact Hg].
      * apply Forall_app. split; [exact H3|]. constructor; [|constructor]. cbn [snd]. apply RI_fresh. exact Hp.
      * apply Forall_app. split; [exact H4|]. constructor; [|constructor]. cbn [fst snd region_of_spec r_end]. exact Hk.
    + intros p Hin. apply in_app_or in Hin. destruct Hin as [H|[<-|[]]]; [left; exact H | right; reflexivity].
Qed.

Lemma Inv_delete_region st (s s' : ist X) n e :
  Inv K st s -> delete_region n s = (s', e) ->
  Inv K st s' /\ old_or_empty (i_regs s) (i_regs s') /\ i_fin s' = i_fin s.
Proof.
  intros HI Hd. unfold delete_region in Hd. destruct (has_region n s); inversion Hd; subst; clear Hd.
  - destruct HI as (H1 & H2 & H3 & H4). unfold Inv, kinds_ok. cbn [set_regs i_pos i_regs i_fin].
    split; [|split; [|reflexivity]].
    + split; [exact H1|]. split; [apply rdel_NoDup; exact H2|]. split.
      * apply Forall_forall. intros p Hp. rewrite Forall_forall in H3. apply H3. eapply rdel_In; exact Hp.
      * apply Forall_forall. intros p Hp. unfold kinds_ok in H4. rewrite Forall_forall in H4. apply H4. eapply rdel_In; exact Hp.
    + intros p Hp. left. eapply rdel_In; exact Hp.
  - split; [exact HI|]. split; [apply ooe_refl | reflexivity].
Qed.

Lemma Inv_add_check st (s s' : ist X) c e :
  Inv K st s -> add_check c s = (s', e) ->
  Inv K st s' /\ old_or_empty (i_regs s) (i_regs s') /\ i_fin s' = i_fin s.
Proof.
  intros HI Ha. unfold add_check in Ha. destruct (mem_cname c (i_checks s)); inversion Ha; subst; clear Ha;
    (split; [|split; [apply ooe_refl | reflexivity]]); [exact HI|].
  eapply Inv_same_regs; [exact HI| | |]; reflexivity.
Qed.

Lemma Inv_set_ext st (s : ist X) x : Inv K st s -> Inv K st (set_ext s x).
Proof. intros HI. eapply Inv_same_regs; [exact HI| | |]; reflexivity. Qed.

(* in-place replacement of the region stored under n by one that satisfies the region invariant *)
Lemma Inv_rset st (s : ist X) n m m' :
  Inv K st s -> rget n (i_regs s) = Some m -> RI st (i_fin s) m' -> K n (r_end m') ->
  Inv K st (set_regs s (rset n m' (i_regs s))).
Proof.
  intros (H1 & H2 & H3 & H4) Hg HR Hk. unfold Inv, kinds_ok. cbn [set_regs i_pos i_regs i_fin].
  split; [exact H1|]. split; [rewrite rset_names; exact H2|]. split.
  - apply Forall_forall. intros p Hp. apply rset_In in Hp. destruct Hp as [Hp|[-> _]].
    + rewrite Forall_forall in H3. apply H3. exact Hp.
    + exact HR.
  - apply Forall_forall. intros p Hp. apply rset_In in Hp. destruct Hp as [Hp|[-> _]].
    + unfold kinds_ok in H4. rewrite Forall_forall in H4. apply H4. exact Hp.
    + exact Hk.
Qed.

Lemma Inv_region_RI st (s : ist X) n r : Inv K st s -> rget n (i_regs s) = Some r -> RI st (i_fin s) r /\ K n (r_end r).
Proof.
  intros (_ & _ & H3 & H4) Hg. apply rget_Some_In in Hg. unfold kinds_ok in H4. rewrite Forall_forall in H3, H4.
  split; [apply (H3 _ Hg) | apply (H4 _ Hg)].
Qed.
End Hooks.

(* ------------------------------------------------------------------ capture_slice / end_capture_tail over chunk lists *)
(* what FileInspector._capture does to ONE region over successive chunks (first presentation of each chunk) *)
Fixpoint feed (r : region) (pos : N) (cs : list bytes) : region :=
  match cs with
  | [] => r
  | c :: t => feed (if r_end r || negb (rcomplete r) then rcapture r c (pos + blen c) else r) (pos + blen c) t
  end.

Lemma cap1_all c pos n r : cap1 [] c pos (n, r) = (n, if r_end r || negb (rcomplete r) then rcapture r c pos else r).
Proof. unfold cap1. destruct (r_end r || negb (rcomplete r)); reflexivity. Qed.

Lemma feed_on_track r st cs :
  r_end r = false -> r_min r = None -> on_track st r ->
  on_track (st ++ concat cs) (feed r (blen st) cs) /\ r_off (feed r (blen st) cs) = r_off r /\ r_len (feed r (blen st) cs) = r_len r.
Proof.
  revert r st. induction cs as [|c t IH]; intros r st He Hm Ht; cbn [feed concat].
  - rewrite app_nil_r. auto.
  - pose proof (capture_step st c r Hm Ht He) as (H1 & H2 & H3 & H4 & H5 & H6 & H7).
    assert (Hr : (if r_end r || negb (rcomplete r) then rcapture r c (blen st + blen c) else r)
                 = (if rcomplete r then r else cap_fixed r c (blen st + blen c))).
    { rewrite He. cbn [orb]. unfold rcapture. rewrite He. destruct (rcomplete r); reflexivity. }
    rewrite Hr.
    destruct (IH _ (st ++ c) (eq_trans H3 He) (eq_trans H6 Hm) H1) as (G1 & G2 & G3).
    rewrite blen_app in G1, G2, G3.
    rewrite app_assoc. split; [exact G1|]. split; congruence.
Qed.

(* DESIGN C01 item 1: a fixed region without min_length that is empty when the stream position is
   p <= offset holds, after ANY chunk list (empty chunks allowed), exactly stream[off : off+len] *)
Theorem capture_slice r st cs :
  r_end r = false -> r_min r = None -> r_data r = [] -> blen st <= r_off r ->
  r_data (feed r (blen st) cs) = bslice (r_off r) (r_len r) (st ++ concat cs).
Proof.
  intros He Hm Hd Hp.
  assert (Ht : on_track st r).
  { unfold on_track. rewrite Hd. unfold bslice. rewrite bskip_all by exact Hp. rewrite btake_nil. reflexivity. }
  destruct (feed_on_track r st cs He Hm Ht) as (H1 & H2 & H3). unfold on_track in H1. rewrite H1, H2, H3. reflexivity.
Qed.

(* the last n bytes (all of them when there are fewer) *)
Definition btail (n : N) (b : bytes) : bytes := bskip (blen b - n) b.
Lemma blen_btail n b : blen (btail n b) = N.min n (blen b).
Proof. unfold btail. rewrite blen_bskip. lia. Qed.
Lemma btail_app n a c : btail n (btail n a ++ c) = btail n (a ++ c).
Proof.
  unfold btail. rewrite blen_app, blen_bskip.
  rewrite <- (bskip_app_le (blen a - n) a c) by lia. rewrite bskip_bskip, blen_app. f_equal. lia.
Qed.
Lemma cap_end_data r c pos : 0 < r_len r -> r_data (cap_end r c pos) = btail (r_len r) (r_data r ++ c).
Proof.
  intros H. unfold cap_end, nlast. replace (r_len r =? 0) with false by lia.
  cbn [set_off set_data r_data]. rewrite flen_blen, nskip_bskip. reflexivity.
Qed.
Lemma cap_end_fields r c pos :
  r_end (cap_end r c pos) = r_end r /\ r_len (cap_end r c pos) = r_len r /\ r_min (cap_end r c pos) = r_min r
  /\ r_off (cap_end r c pos) = pos - blen (r_data (cap_end r c pos)).
Proof. unfold cap_end. cbn [set_off set_data r_end r_len r_min r_off r_data]. rewrite flen_blen. auto. Qed.

Lemma feed_end_aux r pos cs A :
  r_end r = true -> 0 < r_len r -> r_data r = btail (r_len r) A ->
  let r' := feed r pos cs in
  r_data r' = btail (r_len r) (A ++ concat cs) /\ r_len r' = r_len r /\ r_min r' = r_min r /\ r_end r' = true.
Proof.
  revert r pos A. induction cs as [|c t IH]; intros r pos A He Hl Hd; cbn [feed concat]; cbv zeta.
  - rewrite app_nil_r. auto.
  - rewrite He. cbn [orb]. unfold rcapture. rewrite He.
    destruct (cap_end_fields r c (pos + blen c)) as (F1 & F2 & F3 & _).
    assert (Hd' : r_data (cap_end r c (pos + blen c)) = btail (r_len (cap_end r c (pos + blen c))) (A ++ c)).
    { rewrite F2, (cap_end_data r c _ Hl), Hd. apply btail_app. }
    destruct (IH (cap_end r c (pos + blen c)) (pos + blen c) (A ++ c) (eq_trans F1 He) (eq_ind_r (fun x => 0 < x) Hl F2) Hd')
      as (G1 & G2 & G3 & G4).
    cbv zeta in *. rewrite G1, G2, G3, F2, F3, <- app_assoc. auto.
Qed.

(* DESIGN C01 item 3: an EndCaptureRegion(n) that is present (empty) from stream position p0 holds,
   after any chunk list and finish, the last min(n, total - p0) bytes of the stream, and is complete
   iff that is n *)
Theorem end_capture_tail r p0 cs :
  r_end r = true -> r_min r = None -> 0 < r_len r -> r_data r = [] ->
  let r' := set_fin (feed r p0 cs) true in
  r_data r' = btail (r_len r) (concat cs) /\
  blen (r_data r') = N.min (r_len r) (blen (concat cs)) /\
  (rcomplete r' = true <-> r_len r <= blen (concat cs)).
Proof.
  intros He Hm Hl Hd. cbv zeta.
  assert (Hd0 : r_data r = btail (r_len r) []) by (rewrite Hd; reflexivity).
  destruct (feed_end_aux r p0 cs [] He Hl Hd0) as (G1 & G2 & G3 & G4). cbv zeta in *. cbn [app] in G1.
  cbn [set_fin r_data]. split; [exact G1|]. split; [rewrite G1; apply blen_btail|].
  unfold rcomplete, base_complete. cbn [set_fin r_end r_min r_len r_data r_fin].
  rewrite G4, G3, Hm, G2, G1, flen_blen, blen_btail, andb_true_r. lia.
Qed.
