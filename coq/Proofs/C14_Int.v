(* Proofs/C14_Int.v — int(str, 10|16) of Model/C14_Py.v: parse-after-print for decimal
   renderings, and the value / rendering of 32-hex-digit strings. *)
Require Import OV.Base.Bytes OV.Base.Py OV.Base.PyInt OV.Base.Str OV.Gen.Unicode OV.Model.C14_Py.
Open Scope N_scope.

(* ---------------------------------------------------------------- transform *)
Lemma transform_ascii s : Forall (fun c => c < 127) s -> transform s = Some s.
Proof.
  induction 1 as [|c t Hc Ht IH]; [reflexivity|].
  cbn [transform]. unfold tr_char. replace (c <? 127) with true by lia. rewrite IH. reflexivity.
Qed.

Lemma digits_lt_127 s : all_ascii_digits s = true -> Forall (fun c => c < 127) s.
Proof.
  unfold all_ascii_digits. induction s as [|c t IH]; intros H; [constructor|].
  cbn [forallb] in H. apply andb_true_iff in H. destruct H as [Hc Ht].
  constructor; [unfold ascii_digit in Hc; lia|auto].
Qed.

(* str(z): the digit count is checked, then the rendering is returned *)
Lemma str_of_int_eq lim z :
  str_of_int lim z = if over_limit lim (ndigits_Z z) then Exn ValueError else Ok (dec_of_Z z).
Proof. unfold str_of_int, ndigits_Z. destruct z; reflexivity. Qed.

(* ---------------------------------------------------------------- base 10 *)
Lemma digit_of_10 c : ascii_digit c = true -> digit_of 10 c = Some (c - 48).
Proof.
  unfold ascii_digit, digit_of. intros H.
  replace ((48 <=? c) && (c <=? 57)) with true by lia.
  replace (c - 48 <? 10) with true by lia. reflexivity.
Qed.

Lemma scan_digits s acc nd : all_ascii_digits s = true ->
  scan 10 s acc nd false = Some (dval s acc, nd + blen s, []).
Proof.
  revert acc nd. induction s as [|c t IH]; intros acc nd H.
  - cbn [scan dval]. rewrite blen_nil, N.add_0_r. reflexivity.
  - unfold all_ascii_digits in H. cbn [forallb] in H. apply andb_true_iff in H. destruct H as [Hc Ht].
    cbn [scan dval]. replace (c =? 95) with false by (unfold ascii_digit in Hc; lia).
    rewrite (digit_of_10 c Hc). rewrite (IH _ _ Ht). rewrite blen_cons. do 2 f_equal. f_equal. lia.
Qed.

Lemma c_isspace_digit c : ascii_digit c = true -> c_isspace c = false.
Proof. unfold ascii_digit, c_isspace. lia. Qed.

Lemma int_ascii_digits lim s : all_ascii_digits s = true -> s <> [] ->
  over_limit lim (blen s) = false ->
  int_ascii lim 10 s = Some (Z.of_N (dval s 0)).
Proof.
  intros Hd Hne Hlim. destruct s as [|c t]; [congruence|].
  assert (Hc : ascii_digit c = true) by (unfold all_ascii_digits in Hd; cbn in Hd; apply andb_true_iff in Hd; tauto).
  unfold int_ascii. cbn [lstrip_c]. rewrite (c_isspace_digit c Hc).
  unfold split_sign. unfold ascii_digit in Hc.
  replace (c =? 43) with false by lia. replace (c =? 45) with false by lia.
  unfold skip_prefix. destruct t as [|x t'].
  - unfold starts_with_underscore. replace (c =? 95) with false by lia.
    rewrite (scan_digits [c] 0 0 Hd).
    change (0 + blen [c] =? 0) with false. cbn [forallb negb andb]. rewrite N.add_0_l, Hlim. reflexivity.
  - change (10 =? 16) with false. cbn [andb].
    unfold starts_with_underscore. replace (c =? 95) with false by lia.
    rewrite (scan_digits (c :: x :: t') 0 0 Hd).
    replace (0 + blen (c :: x :: t') =? 0) with false by (rewrite blen_cons; lia).
    cbn [forallb negb andb]. rewrite N.add_0_l. change (10 =? 10) with true. cbn [andb]. rewrite Hlim. reflexivity.
Qed.

Lemma ndigits_abs_pos p : ndigits_Z (Zpos p) = blen (dec_of_N (Npos p)).
Proof. reflexivity. Qed.
Lemma ndigits_abs_neg p : ndigits_Z (Zneg p) = blen (dec_of_N (Npos p)).
Proof. reflexivity. Qed.

(* int(str(z)) = z, provided the rendering is within the digit limit *)
Theorem int_parse_dec lim z : over_limit lim (ndigits_Z z) = false ->
  int_parse lim 10 (dec_of_Z z) = Some z.
Proof.
  intros Hlim. unfold int_parse. destruct z as [|p|p]; unfold dec_of_Z.
  - rewrite transform_ascii by (repeat constructor; lia).
    rewrite int_ascii_digits; [reflexivity|reflexivity|discriminate|exact Hlim].
  - rewrite transform_ascii by (apply digits_lt_127, dec_of_N_digits).
    rewrite int_ascii_digits; [rewrite dval_dec_of_N; reflexivity|apply dec_of_N_digits|apply dec_of_N_nonnil|exact Hlim].
  - assert (Hd := dec_of_N_digits (N.pos p)).
    rewrite transform_ascii by (constructor; [lia|apply digits_lt_127, Hd]).
    pose proof (dec_of_N_nonnil (N.pos p)) as Hne.
    rewrite ndigits_abs_neg in Hlim.
    pose proof (int_ascii_digits lim (dec_of_N (N.pos p)) Hd Hne Hlim) as Hpos.
    rewrite dval_dec_of_N in Hpos.
    unfold int_ascii in *. cbn [lstrip_c]. change (c_isspace 45) with false.
    destruct (dec_of_N (N.pos p)) as [|c t] eqn:E; [congruence|].
    assert (Hc : ascii_digit c = true) by (unfold all_ascii_digits in Hd; cbn in Hd; apply andb_true_iff in Hd; tauto).
    cbn [lstrip_c] in Hpos. rewrite (c_isspace_digit c Hc) in Hpos.
    unfold split_sign in *. change (45 =? 43) with false. change (45 =? 45) with true. cbn iota.
    unfold ascii_digit in Hc.
    replace (c =? 43) with false in Hpos by lia. replace (c =? 45) with false in Hpos by lia.
    destruct (starts_with_underscore (skip_prefix 10 (c :: t))); [discriminate|].
    destruct (scan 10 (skip_prefix 10 (c :: t)) 0 0 false) as [[[v nd] rest]|]; [|discriminate].
    destruct (nd =? 0); [discriminate|]. destruct (negb (forallb c_isspace rest)); [discriminate|].
    destruct ((10 =? 10) && over_limit lim nd); [discriminate|].
    injection Hpos as Hv. f_equal. lia.
Qed.

(* the number of digits of a rendering, against powers of ten *)
Lemma dec_fuel_length f n acc k : 1 <= k -> n < 10 ^ k ->
  blen (dec_fuel f n acc) <= k + blen acc.
Proof.
  revert n acc k. induction f as [|f IH]; intros n acc k Hk Hn; cbn [dec_fuel]; [lia|].
  destruct (n / 10 =? 0) eqn:E.
  - rewrite blen_cons. lia.
  - assert (Hq : n / 10 <> 0) by lia.
    assert (H10 : 10 <= n).
    { destruct (N.lt_ge_cases n 10) as [Hlt|Hge]; [|exact Hge]. rewrite (N.div_small n 10 Hlt) in Hq. congruence. }
    assert (Hk2 : 2 <= k).
    { destruct (N.eq_dec k 1) as [->|]; [|lia]. change (10 ^ 1) with 10 in Hn. lia. }
    assert (Hn' : n / 10 < 10 ^ (k - 1)).
    { apply N.div_lt_upper_bound; [lia|]. replace k with (N.succ (k - 1)) in Hn by lia.
      rewrite N.pow_succ_r' in Hn. exact Hn. }
    specialize (IH (n / 10) ((48 + n mod 10) :: acc) (k - 1)).
    rewrite blen_cons in IH. assert (1 <= k - 1) by lia. specialize (IH H Hn'). lia.
Qed.

Lemma ndigits_le z k : 1 <= k -> (Z.abs z < 10 ^ Z.of_N k)%Z -> ndigits_Z z <= k.
Proof.
  intros Hk Hz. unfold ndigits_Z, dec_of_N.
  assert (Hn : Z.abs_N z < 10 ^ k).
  { apply N2Z.inj_lt. rewrite N2Z.inj_abs_N, N2Z.inj_pow. exact Hz. }
  pose proof (dec_fuel_length (S (N.to_nat (N.log2 (Z.abs_N z)))) (Z.abs_N z) [] k Hk Hn) as H.
  rewrite blen_nil in H. lia.
Qed.

(* ---------------------------------------------------------------- base 16 *)
Definition is_hex (c : N) : bool :=
  ((48 <=? c) && (c <=? 57)) || ((97 <=? c) && (c <=? 102)) || ((65 <=? c) && (c <=? 70)).
Definition is_lhex (c : N) : bool := ((48 <=? c) && (c <=? 57)) || ((97 <=? c) && (c <=? 102)).
Definition hv (c : N) : N := match digit_of 16 c with Some d => d | None => 0 end.
Fixpoint hval (s : str) (acc : N) : N :=
  match s with [] => acc | c :: t => hval t (acc * 16 + hv c) end.

Lemma digit_of_16 c : is_hex c = true -> digit_of 16 c = Some (hv c) /\ hv c < 16.
Proof.
  unfold hv, digit_of, is_hex. intros H.
  destruct ((48 <=? c) && (c <=? 57)) eqn:E1.
  - replace (c - 48 <? 16) with true by lia. split; [reflexivity|lia].
  - destruct ((97 <=? c) && (c <=? 122)) eqn:E2.
    + assert (c <= 102) by lia. replace (c - 87 <? 16) with true by lia. split; [reflexivity|lia].
    + destruct ((65 <=? c) && (c <=? 90)) eqn:E3; [|lia].
      assert (c <= 70) by lia. replace (c - 55 <? 16) with true by lia. split; [reflexivity|lia].
Qed.

Lemma hexdig_hv c : is_hex c = true -> hexdig (hv c) = lower_ascii1 c.
Proof.
  unfold hv, digit_of, is_hex, hexdig, lower_ascii1. intros H.
  destruct ((48 <=? c) && (c <=? 57)) eqn:E1.
  - replace (c - 48 <? 16) with true by lia. replace (c - 48 <? 10) with true by lia.
    replace ((65 <=? c) && (c <=? 90)) with false by lia. lia.
  - destruct ((97 <=? c) && (c <=? 122)) eqn:E2.
    + assert (c <= 102) by lia. replace (c - 87 <? 16) with true by lia.
      replace (c - 87 <? 10) with false by lia. replace ((65 <=? c) && (c <=? 90)) with false by lia. lia.
    + destruct ((65 <=? c) && (c <=? 90)) eqn:E3; [|lia].
      assert (c <= 70) by lia. replace (c - 55 <? 16) with true by lia.
      replace (c - 55 <? 10) with false by lia. lia.
Qed.

Lemma scan_hex s acc nd : forallb is_hex s = true ->
  scan 16 s acc nd false = Some (hval s acc, nd + blen s, []).
Proof.
  revert acc nd. induction s as [|c t IH]; intros acc nd H.
  - cbn [scan hval]. rewrite blen_nil, N.add_0_r. reflexivity.
  - cbn [forallb] in H. apply andb_true_iff in H. destruct H as [Hc Ht].
    cbn [scan hval]. replace (c =? 95) with false by (unfold is_hex in Hc; lia).
    destruct (digit_of_16 c Hc) as [-> _]. rewrite (IH _ _ Ht). rewrite blen_cons. do 2 f_equal. f_equal. lia.
Qed.

Lemma hval_app a b acc : hval (a ++ b) acc = hval b (hval a acc).
Proof. revert acc. induction a as [|c a IH]; intros acc; cbn [app hval]; auto. Qed.

Lemma hval_bound s : forallb is_hex s = true -> hval s 0 < 16 ^ blen s.
Proof.
  induction s as [|c t IH] using rev_ind; intros H.
  - cbn. lia.
  - rewrite forallb_app in H. apply andb_true_iff in H. destruct H as [Ht Hc].
    cbn [forallb] in Hc. rewrite andb_true_r in Hc.
    rewrite hval_app. cbn [hval]. rewrite blen_app. change (blen [c]) with 1.
    replace (blen t + 1) with (N.succ (blen t)) by lia. rewrite N.pow_succ_r'.
    specialize (IH Ht). destruct (digit_of_16 c Hc) as [_ Hv]. lia.
Qed.

Lemma hexle_step k v d : d < 16 -> hexle (S k) (v * 16 + d) = hexdig d :: hexle k v.
Proof.
  intros Hd. cbn [hexle].
  assert (H1 : (v * 16 + d) mod 16 = d).
  { rewrite N.add_comm, N.mod_add by lia. apply N.mod_small. exact Hd. }
  assert (H2 : (v * 16 + d) / 16 = v).
  { rewrite N.add_comm, N.div_add by lia. rewrite (N.div_small d 16 Hd). lia. }
  rewrite H1, H2. reflexivity.
Qed.

Lemma hexle_hval r : forallb is_hex r = true ->
  hexle (length r) (hval (rev r) 0) = map lower_ascii1 r.
Proof.
  induction r as [|c r IH]; intros H; [reflexivity|].
  cbn [forallb] in H. apply andb_true_iff in H. destruct H as [Hc Hr].
  cbn [rev length map]. rewrite hval_app. cbn [hval].
  destruct (digit_of_16 c Hc) as [_ Hv]. rewrite hexle_step by exact Hv.
  rewrite (IH Hr), (hexdig_hv c Hc). reflexivity.
Qed.

Lemma forallb_rev {A} (f : A -> bool) l : forallb f (rev l) = forallb f l.
Proof.
  induction l as [|x l IH]; [reflexivity|]. cbn [rev forallb]. rewrite forallb_app, IH. cbn [forallb].
  rewrite andb_true_r. apply andb_comm.
Qed.

(* '%032x' % int(h, 16) = h.lower() for 32 hex digits *)
Lemma hex32_hval h : forallb is_hex h = true -> length h = 32%nat ->
  hex32 (hval h 0) = lower_ascii h.
Proof.
  intros Hh Hl. unfold hex32, lower_ascii.
  rewrite <- (rev_involutive h) at 1. rewrite <- Hl, <- (rev_length h).
  rewrite hexle_hval by (rewrite forallb_rev; exact Hh).
  rewrite <- map_rev, rev_involutive. reflexivity.
Qed.

Lemma hexle_lhex k n : forallb is_lhex (hexle k n) = true /\ length (hexle k n) = k.
Proof.
  revert n. induction k as [|k IH]; intros n; [split; reflexivity|].
  cbn [hexle forallb length]. destruct (IH (n / 16)) as [I1 I2]. rewrite I1, I2.
  split; [|reflexivity]. rewrite andb_true_r.
  pose proof (N.mod_upper_bound n 16). unfold hexdig, is_lhex.
  destruct (n mod 16 <? 10) eqn:E; lia.
Qed.

Lemma hex32_lhex n : forallb is_lhex (hex32 n) = true /\ length (hex32 n) = 32%nat.
Proof.
  unfold hex32. destruct (hexle_lhex 32 n) as [H1 H2].
  rewrite forallb_rev, rev_length. split; assumption.
Qed.

Lemma is_hex_lt_127 s : forallb is_hex s = true -> Forall (fun c => c < 127) s.
Proof.
  induction s as [|c t IH]; intros H; [constructor|].
  cbn [forallb] in H. apply andb_true_iff in H. destruct H as [Hc Ht].
  constructor; [unfold is_hex in Hc; lia|auto].
Qed.

(* int(h, 16) for a non-empty string of hex digits (no sign, no prefix, no underscore) *)
Lemma int_parse_hex lim h : forallb is_hex h = true -> h <> [] ->
  int_parse lim 16 h = Some (Z.of_N (hval h 0)).
Proof.
  intros Hh Hne. unfold int_parse. rewrite transform_ascii by (apply is_hex_lt_127, Hh).
  destruct h as [|c t]; [congruence|].
  pose proof Hh as Hh0. cbn [forallb] in Hh0. apply andb_true_iff in Hh0. destruct Hh0 as [Hc Ht].
  unfold int_ascii. cbn [lstrip_c].
  replace (c_isspace c) with false by (unfold c_isspace, is_hex in *; lia).
  unfold split_sign.
  replace (c =? 43) with false by (unfold is_hex in Hc; lia).
  replace (c =? 45) with false by (unfold is_hex in Hc; lia).
  assert (Hp : skip_prefix 16 (c :: t) = c :: t).
  { unfold skip_prefix. destruct t as [|x t']; [reflexivity|].
    cbn [forallb] in Ht. apply andb_true_iff in Ht. destruct Ht as [Hx _].
    replace ((x =? 120) || (x =? 88)) with false by (unfold is_hex in Hx; lia).
    rewrite andb_false_r. reflexivity. }
  rewrite Hp. unfold starts_with_underscore.
  replace (c =? 95) with false by (unfold is_hex in Hc; lia).
  rewrite (scan_hex (c :: t) 0 0 Hh).
  replace (0 + blen (c :: t) =? 0) with false by (rewrite blen_cons; lia).
  cbn [forallb negb]. change (16 =? 10) with false. cbn [andb]. reflexivity.
Qed.

(* ---------------------------------------------------------------- the ASCII literal grammar of int(s) *)
(* whitespace* [+-]? digits (_ digits)* whitespace*   (whitespace = C isspace) *)
Definition digit_group (g : str) : bool := match g with [] => false | _ => all_ascii_digits g end.
Definition digit_groups (ds : list str) : bool := match ds with [] => false | _ => forallb digit_group ds end.
Definition sign_text (sg : option bool) : str :=
  match sg with None => [] | Some false => [43] | Some true => [45] end.
Definition signed (sg : option bool) (n : N) : Z :=
  match sg with Some true => (- Z.of_N n)%Z | _ => Z.of_N n end.

Lemma lstrip_c_app pre r : forallb c_isspace pre = true -> lstrip_c (pre ++ r) = lstrip_c r.
Proof.
  induction pre as [|c pre IH]; intros H; [reflexivity|].
  cbn [forallb] in H. apply andb_true_iff in H. destruct H as [Hc Hp].
  cbn [app lstrip_c]. rewrite Hc. apply IH, Hp.
Qed.

Lemma scan_group g r acc nd b : digit_group g = true ->
  scan 10 (g ++ r) acc nd b = scan 10 r (dval g acc) (nd + blen g) false.
Proof.
  destruct g as [|c t]; [discriminate|]. cbn [digit_group]. intros H.
  unfold all_ascii_digits in H. cbn [forallb] in H. apply andb_true_iff in H. destruct H as [Hc Ht].
  cbn [app scan dval]. replace (c =? 95) with false by (unfold ascii_digit in Hc; lia).
  rewrite (digit_of_10 c Hc). rewrite blen_cons.
  clear Hc. generalize (acc * 10 + (c - 48)). clear acc. intros a. replace (nd + (1 + blen t)) with ((nd + 1) + blen t) by lia.
  generalize (nd + 1). clear nd. intros nd. revert a nd.
  induction t as [|d t IH]; intros a nd.
  - cbn [app dval]. rewrite blen_nil. f_equal. lia.
  - cbn [forallb] in Ht. apply andb_true_iff in Ht. destruct Ht as [Hd Ht'].
    cbn [app scan dval]. replace (d =? 95) with false by (unfold ascii_digit in Hd; lia).
    rewrite (digit_of_10 d Hd). rewrite (IH Ht'). rewrite blen_cons. f_equal. lia.
Qed.

Lemma scan_stop post acc nd : forallb c_isspace post = true -> scan 10 post acc nd false = Some (acc, nd, post).
Proof.
  destruct post as [|c t]; [reflexivity|]. cbn [forallb]. intros H. apply andb_true_iff in H. destruct H as [Hc _].
  cbn [scan]. unfold c_isspace in Hc. replace (c =? 95) with false by lia.
  unfold digit_of. replace ((48 <=? c) && (c <=? 57)) with false by lia.
  replace ((97 <=? c) && (c <=? 122)) with false by lia. replace ((65 <=? c) && (c <=? 90)) with false by lia.
  reflexivity.
Qed.

Lemma scan_groups ds post acc nd b : digit_groups ds = true -> forallb c_isspace post = true ->
  scan 10 (join [95] ds ++ post) acc nd b = Some (dval (concat ds) acc, nd + blen (concat ds), post).
Proof.
  destruct ds as [|g ds]; [discriminate|]. cbn [digit_groups]. intros H Hp.
  revert g acc nd b H. induction ds as [|g2 t IH]; intros g acc nd b H.
  - cbn [forallb] in H. rewrite andb_true_r in H. cbn [join concat]. rewrite app_nil_r.
    rewrite (scan_group g post acc nd b H). apply scan_stop, Hp.
  - cbn [forallb] in H. apply andb_true_iff in H. destruct H as [Hg Hr].
    rewrite join_cons. rewrite <- !app_assoc. rewrite (scan_group g _ acc nd b Hg).
    cbn [app scan]. cbn [N.eqb Pos.eqb].
    rewrite (IH g2 _ _ true Hr). change (concat (g :: g2 :: t)) with (g ++ concat (g2 :: t)).
    rewrite dval_app, blen_app. rewrite N.add_assoc. reflexivity.
Qed.

Lemma skip_prefix_10 s : skip_prefix 10 s = s.
Proof. destruct s as [|z [|x t]]; reflexivity. Qed.

Lemma groups_head ds post : digit_groups ds = true ->
  exists c t, join [95] ds ++ post = c :: t /\ ascii_digit c = true.
Proof.
  destruct ds as [|g ds]; [discriminate|]. cbn [digit_groups forallb]. intros H.
  apply andb_true_iff in H. destruct H as [Hg _]. destruct g as [|c g']; [discriminate|].
  cbn [digit_group] in Hg. unfold all_ascii_digits in Hg. cbn [forallb] in Hg. apply andb_true_iff in Hg.
  destruct ds as [|g2 ds']; [cbn [join]|rewrite join_cons]; exists c; eexists; (split; [reflexivity|tauto]).
Qed.

Lemma groups_lt_127 ds : digit_groups ds = true -> Forall (fun c => c < 127) (join [95] ds).
Proof.
  destruct ds as [|g ds]; [discriminate|]. cbn [digit_groups]. revert g.
  induction ds as [|g2 t IH]; intros g H; cbn [forallb] in H; apply andb_true_iff in H; destruct H as [Hg Hr].
  - cbn [join]. destruct g; [discriminate|]. apply digits_lt_127, Hg.
  - rewrite join_cons. apply Forall_app. split; [destruct g; [discriminate|]; apply digits_lt_127, Hg|].
    apply Forall_app. split; [repeat constructor; lia|apply IH, Hr].
Qed.

Lemma groups_nonempty ds : digit_groups ds = true -> blen (concat ds) <> 0.
Proof.
  destruct ds as [|g ds]; [discriminate|]. cbn [digit_groups forallb concat]. intros H.
  apply andb_true_iff in H. destruct H as [Hg _]. destruct g; [discriminate|]. rewrite blen_app, blen_cons. lia.
Qed.

Lemma isspace_lt_127 s : forallb c_isspace s = true -> Forall (fun c => c < 127) s.
Proof.
  induction s as [|c t IH]; intros H; [constructor|]. cbn [forallb] in H. apply andb_true_iff in H.
  destruct H as [Hc Ht]. constructor; [unfold c_isspace in Hc; lia|auto].
Qed.

Theorem int_literal_ascii lim pre sg ds post :
  forallb c_isspace pre = true -> forallb c_isspace post = true -> digit_groups ds = true ->
  over_limit lim (blen (concat ds)) = false ->
  int_parse lim 10 (pre ++ sign_text sg ++ join [95] ds ++ post) = Some (signed sg (dval (concat ds) 0)).
Proof.
  intros Hpre Hpost Hds Hlim. unfold int_parse.
  rewrite transform_ascii.
  2:{ apply Forall_app. split; [apply isspace_lt_127, Hpre|]. apply Forall_app. split.
      - destruct sg as [[|]|]; repeat constructor; lia.
      - apply Forall_app. split; [apply groups_lt_127, Hds|apply isspace_lt_127, Hpost]. }
  unfold int_ascii. rewrite lstrip_c_app by exact Hpre.
  destruct (groups_head ds post Hds) as (c & t & Ebody & Hc).
  assert (Hscan : forall b, scan 10 (c :: t) 0 0 b = Some (dval (concat ds) 0, blen (concat ds), post)).
  { intros b. rewrite <- Ebody. rewrite (scan_groups ds post 0 0 b Hds Hpost). rewrite N.add_0_l. reflexivity. }
  assert (Hfin : forall neg : bool, (if starts_with_underscore (skip_prefix 10 (c :: t)) then None
            else match scan 10 (skip_prefix 10 (c :: t)) 0 0 false with
                 | None => None
                 | Some (v, nd, rest) =>
                     if nd =? 0 then None else if negb (forallb c_isspace rest) then None
                     else if (10 =? 10) && over_limit lim nd then None
                     else Some (if neg then (- Z.of_N v)%Z else Z.of_N v)
                 end) = Some (if neg then (- Z.of_N (dval (concat ds) 0))%Z else Z.of_N (dval (concat ds) 0))).
  { intros neg. rewrite skip_prefix_10. unfold starts_with_underscore.
    replace (c =? 95) with false by (unfold ascii_digit in Hc; lia). rewrite Hscan.
    pose proof (groups_nonempty ds Hds) as Hne. replace (blen (concat ds) =? 0) with false by lia.
    rewrite Hpost. cbn [negb]. change (10 =? 10) with true. cbn [andb]. rewrite Hlim. reflexivity. }
  destruct sg as [[|]|]; cbn [sign_text app signed].
  - cbn [lstrip_c]. change (c_isspace 45) with false. unfold split_sign. change (45 =? 43) with false. change (45 =? 45) with true.
    cbn iota. rewrite Ebody. apply (Hfin true).
  - cbn [lstrip_c]. change (c_isspace 43) with false. unfold split_sign. change (43 =? 43) with true.
    cbn iota. rewrite Ebody. apply (Hfin false).
  - rewrite Ebody. cbn [lstrip_c]. rewrite (c_isspace_digit c Hc). unfold split_sign.
    replace (c =? 43) with false by (unfold ascii_digit in Hc; lia).
    replace (c =? 45) with false by (unfold ascii_digit in Hc; lia). apply (Hfin false).
Qed.

Example int_literal_example :
  int_parse 4300 10 ([32; 9] ++ sign_text (Some true) ++ join [95] [[49; 50]; [51]] ++ [10]) = Some (-123)%Z.
Proof. vm_compute. reflexivity. Qed.
