(* Proofs/C10_Regex.v — a relational (declarative) semantics for the regex type of
   Base/Regex.v and its relation to the backtracking matcher [m]:

     m_sound     every answer of the matcher comes from a derivation of [mt]
                 whose end configuration is accepted by the continuation;
     m_complete  whenever a derivation exists whose end configuration the
                 continuation accepts, the matcher answers (with some accepted
                 configuration — priorities decide which).

   [mt r s p g s' p' g']: r consumes a prefix of the remaining subject s (at
   absolute position p, groups g) leaving s' (position p', groups g'). *)
Require Import OV.Base.Bytes OV.Base.PyInt OV.Base.Regex.
Open Scope N_scope.

Definition allin (cs : cset) (w : str) : bool := forallb (fun c => cmem c cs) w.
Definition le_opt (n : nat) (mx : option nat) : Prop :=
  match mx with Some k => (n <= k)%nat | None => True end.

Inductive mt : re -> str -> N -> groups -> str -> N -> groups -> Prop :=
| mt_eps : forall s p g, mt Eps s p g s p g
| mt_chr : forall cs c t p g, cmem c cs = true -> mt (Chr cs) (c :: t) p g t (p + 1) g
| mt_seq : forall a b s p g s1 p1 g1 s2 p2 g2,
    mt a s p g s1 p1 g1 -> mt b s1 p1 g1 s2 p2 g2 -> mt (Seq a b) s p g s2 p2 g2
| mt_alt_l : forall a b s p g s' p' g', mt a s p g s' p' g' -> mt (Alt a b) s p g s' p' g'
| mt_alt_r : forall a b s p g s' p' g', mt b s p g s' p' g' -> mt (Alt a b) s p g s' p' g'
| mt_rep : forall cs mn mx w s' p g,
    allin cs w = true -> (mn <= length w)%nat -> le_opt (length w) mx ->
    mt (Rep cs mn mx) (w ++ s') p g s' (p + blen w) g
| mt_opt_some : forall a s p g s' p' g', mt a s p g s' p' g' -> mt (Opt a) s p g s' p' g'
| mt_opt_none : forall a s p g, mt (Opt a) s p g s p g
| mt_group : forall i a s p g s' p' g',
    mt a s p g s' p' g' -> mt (Group i a) s p g s' p' ((i, (p, p')) :: g')
| mt_bol : forall s g, mt Bol s 0 g s 0 g
| mt_eol_nil : forall p g, mt Eol [] p g [] p g
| mt_eol_nl : forall p g, mt Eol [10] p g [10] p g.

(* ---------- run_len / try_counts ---------- *)

Lemma run_len_split cs : forall s mx n,
  (n <= run_len cs s mx)%nat ->
  exists w, s = w ++ skipn n s /\ length w = n /\ allin cs w = true /\ le_opt n mx.
Proof.
  induction s as [|c t IH]; intros mx n H.
  - cbn in H. assert (n = 0%nat) by lia. subst. exists []. repeat split; try reflexivity.
    destruct mx; cbn; lia.
  - destruct n as [|n'].
    + exists []. repeat split; try reflexivity. destruct mx; cbn; lia.
    + cbn [run_len] in H.
      destruct mx as [k|].
      * destruct k as [|k']; [lia|].
        destruct (cmem c cs) eqn:Ec; [|lia].
        cbn [option_map pred] in H.
        destruct (IH (Some k') n') as [w [Hs [Hl [Ha Hm]]]]; [lia|].
        exists (c :: w). cbn [skipn app length allin forallb]. rewrite Ec.
        repeat split; [f_equal; exact Hs | lia | exact Ha | cbn in *; lia].
      * destruct (cmem c cs) eqn:Ec; [|lia].
        cbn [option_map] in H.
        destruct (IH None n') as [w [Hs [Hl [Ha Hm]]]]; [lia|].
        exists (c :: w). cbn [skipn app length allin forallb]. rewrite Ec.
        repeat split; [f_equal; exact Hs | lia | exact Ha].
Qed.

Lemma run_len_ge cs : forall w s' mx,
  allin cs w = true -> le_opt (length w) mx -> (length w <= run_len cs (w ++ s') mx)%nat.
Proof.
  induction w as [|c w IH]; intros s' mx Ha Hm.
  - cbn. lia.
  - cbn [allin forallb] in Ha. apply andb_true_iff in Ha. destruct Ha as [Hc Hw].
    cbn [app run_len length].
    destruct mx as [k|].
    + cbn in Hm. destruct k as [|k']; [lia|]. rewrite Hc. cbn [option_map pred].
      specialize (IH s' (Some k') Hw). cbn in IH. lia.
    + rewrite Hc. specialize (IH s' None Hw I). cbn [option_map]. lia.
Qed.

Lemma skipn_app_exact {A} (w s' : list A) : skipn (length w) (w ++ s') = s'.
Proof. induction w; cbn; auto. Qed.

Lemma try_counts_sound R s p g (k : cont R) mn : forall n x,
  (mn <= n)%nat -> try_counts R s p g k mn n = Some x ->
  exists j, (mn <= j <= n)%nat /\ k (skipn j s) (p + N.of_nat j) g = Some x.
Proof.
  induction n as [|n IH]; intros x Hmn H; cbn [try_counts] in H.
  - destruct (k (skipn 0 s) (p + N.of_nat 0) g) eqn:E; [|discriminate].
    exists 0%nat. split; [lia|]. congruence.
  - destruct (k (skipn (S n) s) (p + N.of_nat (S n)) g) eqn:E.
    + exists (S n). split; [lia|]. congruence.
    + destruct (Nat.ltb n mn) eqn:El; [discriminate|].
      apply Nat.ltb_ge in El.
      destruct (IH x El H) as [j [Hj Hk]]. exists j. split; [lia|exact Hk].
Qed.

Lemma try_counts_complete R s p g (k : cont R) mn j : forall n,
  (mn <= j <= n)%nat -> k (skipn j s) (p + N.of_nat j) g <> None ->
  try_counts R s p g k mn n <> None.
Proof.
  induction n as [|n IH]; intros Hj Hk; cbn [try_counts].
  - assert (j = 0%nat) by lia. subst.
    destruct (k (skipn 0 s) (p + N.of_nat 0) g); [discriminate|congruence].
  - destruct (k (skipn (S n) s) (p + N.of_nat (S n)) g) eqn:E; [discriminate|].
    destruct (Nat.eq_dec j (S n)) as [->|Hne]; [congruence|].
    destruct (Nat.ltb n mn) eqn:El.
    + apply Nat.ltb_lt in El. lia.
    + apply IH; [lia|exact Hk].
Qed.

Lemma eol_cases (s : str) :
  match s with [] => true | [10] => true | _ => false end = true -> s = [] \/ s = [10].
Proof.
  destruct s as [|c t]; [auto|].
  destruct t as [|d t']; [|destruct c as [|q]; [discriminate|]; repeat (destruct q as [q|q|]; try discriminate)].
  destruct c as [|q]; [discriminate|].
  repeat (destruct q as [q|q|]; try discriminate). auto.
Qed.

(* ---------- soundness ---------- *)

Theorem m_sound R r : forall s p g (k : cont R) x,
  m R r s p g k = Some x ->
  exists s' p' g', mt r s p g s' p' g' /\ k s' p' g' = Some x.
Proof.
  induction r as [|cs|a IHa b IHb|a IHa b IHb|cs mn mx|a IHa|i a IHa| |]; intros s p g k x H; cbn [m] in H.
  - exists s, p, g. split; [constructor|exact H].
  - destruct s as [|c t]; [discriminate|]. destruct (cmem c cs) eqn:Ec; [|discriminate].
    exists t, (p + 1), g. split; [constructor; exact Ec|exact H].
  - apply IHa in H. destruct H as [s1 [p1 [g1 [Ha Hb]]]].
    apply IHb in Hb. destruct Hb as [s2 [p2 [g2 [Hb Hk]]]].
    exists s2, p2, g2. split; [econstructor; eassumption|exact Hk].
  - destruct (m R a s p g k) eqn:Ea.
    + injection H as <-. apply IHa in Ea. destruct Ea as [s' [p' [g' [Ha Hk]]]].
      exists s', p', g'. split; [apply mt_alt_l; exact Ha|exact Hk].
    + apply IHb in H. destruct H as [s' [p' [g' [Hb Hk]]]].
      exists s', p', g'. split; [apply mt_alt_r; exact Hb|exact Hk].
  - destruct (Nat.ltb (run_len cs s mx) mn) eqn:El; [discriminate|].
    apply Nat.ltb_ge in El.
    apply try_counts_sound in H; [|exact El].
    destruct H as [j [Hj Hk]].
    destruct (run_len_split cs s mx j) as [w [Hs [Hl [Ha Hm]]]]; [lia|].
    exists (skipn j s), (p + N.of_nat j), g. split; [|exact Hk].
    rewrite Hs at 1. replace (N.of_nat j) with (blen w) by (unfold blen; congruence).
    constructor; [exact Ha|lia|rewrite Hl; exact Hm].
  - destruct (m R a s p g k) eqn:Ea.
    + injection H as <-. apply IHa in Ea. destruct Ea as [s' [p' [g' [Ha Hk]]]].
      exists s', p', g'. split; [apply mt_opt_some; exact Ha|exact Hk].
    + exists s, p, g. split; [apply mt_opt_none|exact H].
  - apply IHa in H. destruct H as [s' [p' [g' [Ha Hk]]]].
    exists s', p', ((i, (p, p')) :: g'). split; [constructor; exact Ha|exact Hk].
  - destruct (p =? 0) eqn:Ep; [|discriminate]. apply N.eqb_eq in Ep. subst.
    exists s, 0, g. split; [constructor|exact H].
  - assert (Hs : match s with [] => true | [10] => true | _ => false end = true).
    { destruct s as [|c t]; [reflexivity|]. destruct t as [|d t'].
      - destruct c as [|q]; [discriminate|]. repeat (destruct q as [q|q|]; try discriminate). reflexivity.
      - destruct c as [|q]; [discriminate|]. repeat (destruct q as [q|q|]; try discriminate). }
    destruct (eol_cases s Hs) as [->| ->].
    + exists [], p, g. split; [constructor|exact H].
    + exists [10], p, g. split; [constructor|exact H].
Qed.

(* ---------- completeness ---------- *)

Theorem m_complete R r s p g s' p' g' :
  mt r s p g s' p' g' -> forall (k : cont R), k s' p' g' <> None -> m R r s p g k <> None.
Proof.
  induction 1 as [s p g|cs c t p g Hc|a b s p g s1 p1 g1 s2 p2 g2 Ha IHa Hb IHb
                 |a b s p g s' p' g' Ha IHa|a b s p g s' p' g' Hb IHb
                 |cs mn mx w s' p g Ha Hmn Hmx
                 |a s p g s' p' g' Ha IHa|a s p g
                 |i a s p g s' p' g' Ha IHa|s g|p g|p g]; intros k Hk; cbn [m].
  - exact Hk.
  - rewrite Hc. exact Hk.
  - apply IHa. apply IHb. exact Hk.
  - specialize (IHa k Hk). destruct (m R a s p g k); [discriminate|congruence].
  - destruct (m R a s p g k); [discriminate|]. apply IHb. exact Hk.
  - pose proof (run_len_ge cs w s' mx Ha Hmx) as Hr.
    destruct (Nat.ltb (run_len cs (w ++ s') mx) mn) eqn:El.
    + apply Nat.ltb_lt in El. lia.
    + apply (try_counts_complete R (w ++ s') p g k mn (length w)); [lia|].
      rewrite skipn_app_exact. exact Hk.
  - specialize (IHa k Hk). destruct (m R a s p g k); [discriminate|congruence].
  - destruct (m R a s p g k); [discriminate|exact Hk].
  - apply IHa. exact Hk.
  - exact Hk.
  - exact Hk.
  - exact Hk.
Qed.

(* ---------- re_match / re_search in terms of derivations ---------- *)

Lemma re_match_sound r s e g :
  re_match r s = Some (e, g) -> exists s', mt r s 0 [] s' e g.
Proof.
  unfold re_match, match_at. intros H. apply m_sound in H.
  destruct H as [s' [p' [g' [Hm Hk]]]]. injection Hk as -> ->. exists s'. exact Hm.
Qed.

Lemma re_match_complete r s s' e g :
  mt r s 0 [] s' e g -> re_match r s <> None.
Proof.
  unfold re_match, match_at. intros H. eapply m_complete; [exact H|discriminate].
Qed.

Lemma match_at_sound r s p e g :
  match_at r s p = Some (e, g) -> exists s', mt r s p [] s' e g.
Proof.
  unfold match_at. intros H. apply m_sound in H.
  destruct H as [s' [p' [g' [Hm Hk]]]]. injection Hk as -> ->. exists s'. exact Hm.
Qed.

Lemma search_from_sound r : forall s p a e g,
  search_from r s p = Some (a, e, g) ->
  exists pre s1 s', s = pre ++ s1 /\ a = p + blen pre /\ mt r s1 a [] s' e g.
Proof.
  induction s as [|c t IH]; intros p a e g H; cbn [search_from] in H.
  - destruct (match_at r [] p) as [[e' g']|] eqn:E; [|discriminate].
    injection H as <- <- <-. apply match_at_sound in E. destruct E as [s' Hm].
    exists [], [], s'. repeat split; [rewrite blen_nil; lia|exact Hm].
  - destruct (match_at r (c :: t) p) as [[e' g']|] eqn:E.
    + injection H as <- <- <-. apply match_at_sound in E. destruct E as [s' Hm].
      exists [], (c :: t), s'. repeat split; [rewrite blen_nil; lia|exact Hm].
    + apply IH in H. destruct H as [pre [s1 [s' [Hs [Ha Hm]]]]].
      exists (c :: pre), s1, s'. repeat split; [cbn; f_equal; exact Hs|rewrite blen_cons; lia|exact Hm].
Qed.

(* consumed text and positions *)
Lemma mt_consumes r s p g s' p' g' :
  mt r s p g s' p' g' -> exists w, s = w ++ s' /\ p' = p + blen w.
Proof.
  induction 1.
  - exists []. split; [reflexivity|rewrite blen_nil; lia].
  - exists [c]. split; [reflexivity|reflexivity].
  - destruct IHmt1 as [w1 [-> ->]]. destruct IHmt2 as [w2 [-> ->]].
    exists (w1 ++ w2). split; [rewrite app_assoc; reflexivity|rewrite blen_app; lia].
  - exact IHmt.
  - exact IHmt.
  - exists w. split; reflexivity.
  - exact IHmt.
  - exists []. split; [reflexivity|rewrite blen_nil; lia].
  - exact IHmt.
  - exists []. split; [reflexivity|reflexivity].
  - exists []. split; [reflexivity|rewrite blen_nil; lia].
  - exists []. split; [reflexivity|rewrite blen_nil; lia].
Qed.

(* the text of a group whose span is known *)
Lemma slice_mid (a w b : str) : slice (a ++ w ++ b) (blen a) (blen a + blen w) = w.
Proof.
  unfold slice, bsub. rewrite bskip_app_ge by lia. rewrite N.sub_diag, bskip_0.
  replace (blen a + blen w - blen a) with (blen w) by lia.
  rewrite btake_app_le by lia. apply btake_all. lia.
Qed.

(* ---------- re.match of `body\Z` (Model/C10_Regex.v) ---------- *)
Require Import OV.Model.C10_Regex.

Lemma re_match_end_sound r s e g :
  re_match_end r true s = Some (e, g) -> mt r s 0 [] [] e g.
Proof.
  unfold re_match_end. intros H. apply m_sound in H.
  destruct H as [s' [p' [g' [Hm Hk]]]]. destruct s' as [|c t]; [|discriminate].
  injection Hk as -> ->. exact Hm.
Qed.

Lemma re_match_end_complete r s e g :
  mt r s 0 [] [] e g -> re_match_end r true s <> None.
Proof.
  unfold re_match_end. intros H. eapply m_complete; [exact H|discriminate].
Qed.
