(* Proofs/C15_Net.v — IPNetwork(text) with value / prefix length / first: agreement with C11's
   acceptance model (hence its declarative iff), bounds, and `first` = host bits cleared. *)
Require Import OV.Base.Bytes OV.Base.Py OV.Base.PyInt OV.Base.Str OV.Base.C11_Lib.
Require Import OV.Gen.C11_Netutils OV.Model.C11 OV.Model.C11_Spec.
Require Import OV.Proofs.C11_Split OV.Proofs.C11_V4 OV.Proofs.C11_V6 OV.Proofs.C11 OV.Proofs.C11_Aton OV.Proofs.C11_Net.
Require Import OV.Gen.C15_Netutils OV.Model.C15 OV.Model.C15_Text OV.Proofs.C15_Eui.
Open Scope N_scope.

(* ------------------------------------------------------------------ agreement with C11.parse_ip_network *)

Definition nres_outcome (r : nres) : ares := match r with NNet _ _ => AOk true | NRaise e => ARaise e end.
Definition netres_outcome (r : netres) : ares := match r with Net _ _ _ => AOk true | NetRaise e => ARaise e end.

Lemma mask_prefix_some v6 m :
  (exists k, mask_prefix v6 m = Some k) <-> is_netmask v6 m || is_hostmask m = true.
Proof.
  unfold mask_prefix. destruct (is_netmask v6 m); cbn [orb].
  - split; [reflexivity|eexists; reflexivity].
  - destruct (is_hostmask m); split; intros H; try reflexivity; try (eexists; reflexivity).
    + destruct H; discriminate.
    + discriminate.
Qed.

Lemma parse_v_outcome v6 s : nres_outcome (parse_ip_network_v v6 s) = parse_ip_network v6 s.
Proof.
  unfold parse_ip_network_v, parse_ip_network. destruct (split_first 47 s) as [a o].
  destruct (ipaddress_of v6 a) as [value|e]; [|reflexivity].
  destruct o as [p|]; [|reflexivity].
  destruct (py_int_str p) as [z|].
  - destruct ((0 <=? z)%Z && (z <=? Z.of_N (ip_width v6))%Z); reflexivity.
  - destruct (ipaddress_of v6 p) as [m|e]; [|reflexivity].
    unfold mask_prefix. destruct (is_netmask v6 m); [reflexivity|]. destruct (is_hostmask m); reflexivity.
Qed.

Lemma ipnetwork_v_outcome s : netres_outcome (ipnetwork_v s) = ipnetwork s.
Proof.
  unfold ipnetwork_v, ipnetwork. rewrite <- !parse_v_outcome.
  destruct (parse_ip_network_v false s) as [v k|[| | | |]]; try reflexivity.
  cbn [nres_outcome]. destruct (parse_ip_network_v true s); reflexivity.
Qed.

(* IPNetwork(text) is constructed exactly for C11's network texts *)
Theorem ipnetwork_v_accepts s :
  (exists v6 value plen, ipnetwork_v s = Net v6 value plen) <-> network_text false s \/ network_text true s.
Proof.
  rewrite <- ipnetwork_iff, <- ipnetwork_v_outcome.
  destruct (ipnetwork_v s) as [v6 v k|e]; cbn [netres_outcome]; split; intros H; try reflexivity; try discriminate.
  - eexists _, _, _. reflexivity.
  - destruct H as (? & ? & ? & H). discriminate.
Qed.

(* it raises AddrFormatError or ValueError, nothing else *)
Lemma ipnetwork_v_raises s e : ipnetwork_v s = NetRaise e -> e = AAddrFormatError \/ e = AValueError.
Proof.
  intros H. pose proof (ipnetwork_v_outcome s) as O. rewrite H in O. cbn [netres_outcome] in O.
  unfold ipnetwork in O.
  destruct (parse_ip_network_outcomes false s) as [E|[E|E]]; rewrite E in O.
  - discriminate.
  - destruct (parse_ip_network_outcomes true s) as [E'|[E'|E']]; rewrite E' in O; inversion O; auto.
  - inversion O; auto.
Qed.

(* ------------------------------------------------------------------ an IPv6 network text *)

Lemma v6_result_parse s value plen :
  ipnetwork_v s = Net true value plen -> parse_ip_network_v true s = NNet value plen.
Proof.
  unfold ipnetwork_v. destruct (parse_ip_network_v false s) as [v k|[| | | |]]; try discriminate.
  destruct (parse_ip_network_v true s); [intros H; inversion H; reflexivity|discriminate].
Qed.

Lemma v6_result_text s value plen : ipnetwork_v s = Net true value plen -> network_text true s.
Proof.
  intros H. apply v6_result_parse in H. apply parse_ip_network_iff. rewrite <- parse_v_outcome, H. reflexivity.
Qed.

Lemma v6_result_has_colon s value plen : ipnetwork_v s = Net true value plen -> In 58 s.
Proof.
  intros H. apply v6_result_text in H. destruct H as [a [T E]]. cbn [addr_text] in T.
  pose proof (ipv6_text_has_colon a T) as Hc.
  destruct E as [->|[p [-> _]]]; [exact Hc|]. apply in_or_app. left. exact Hc.
Qed.

Lemma parse_v_bounds v6 s value plen :
  parse_ip_network_v v6 s = NNet value plen -> value < 2 ^ ip_width v6 /\ plen <= ip_width v6.
Proof.
  unfold parse_ip_network_v. destruct (split_first 47 s) as [a o].
  destruct (ipaddress_of v6 a) as [v|e] eqn:EA; [|discriminate].
  assert (B : v < 2 ^ ip_width v6) by (apply ipaddress_of_iff in EA; eapply addr_value_bound; exact EA).
  destruct o as [p|]; [|intros H; inversion H; subst; split; [exact B|lia]].
  destruct (py_int_str p) as [z|].
  - destruct ((0 <=? z)%Z && (z <=? Z.of_N (ip_width v6))%Z) eqn:R; [|discriminate].
    intros H. inversion H; subst. split; [exact B|lia].
  - destruct (ipaddress_of v6 p) as [m|e]; [|discriminate].
    unfold mask_prefix. destruct (is_netmask v6 m); [intros H; inversion H; subst; split; [exact B|lia]|].
    destruct (is_hostmask m); [intros H; inversion H; subst; split; [exact B|lia]|discriminate].
Qed.

Lemma v6_result_bounds s value plen : ipnetwork_v s = Net true value plen -> value < 2 ^ 128 /\ plen <= 128.
Proof. intros H. apply v6_result_parse in H. exact (parse_v_bounds true s value plen H). Qed.

(* a text with a ':' is no IPv4 address for is_valid_ipv4, strictly or loosely *)
Lemma colon_not_ipv4 strict s : In 58 s -> valid_ipv4 strict s = AOk false.
Proof.
  intros H. apply existsb_eqb_In in H. unfold valid_ipv4, is_valid_ipv4.
  destruct s as [|c t]; [reflexivity|].
  unfold netaddr_valid_ipv4_pton, netaddr_valid_ipv4_aton. rewrite H.
  destruct strict; reflexivity.
Qed.

(* the forms the property's quantifier names: address, address/decimal prefix length *)
Theorem ipnetwork_v_plain a value : ipv6_value a value -> ipnetwork_v a = Net true value 128.
Proof.
  intros V. assert (T : ipv6_text a) by (apply (addr_value_text true); exists value; exact V).
  assert (P4 : parse_ip_network false a = ARaise AAddrFormatError).
  { apply parse4_on_v6. exists a. split; [exact T|left; reflexivity]. }
  unfold ipnetwork_v. rewrite <- parse_v_outcome in P4.
  destruct (parse_ip_network_v false a) as [v k|e]; [discriminate|]. cbn [nres_outcome] in P4. inversion P4; subst.
  unfold parse_ip_network_v. rewrite (split_first_none 47 a (addr_text_no_slash true a T)).
  apply (ipaddress_of_iff true) in V. rewrite V. reflexivity.
Qed.

Theorem ipnetwork_v_decimal a value n : ipv6_value a value -> n <= 128 ->
  ipnetwork_v (a ++ 47 :: dec_of_N n) = Net true value n.
Proof.
  intros V Hn. assert (T : ipv6_text a) by (apply (addr_value_text true); exists value; exact V).
  assert (PI : py_int_str (dec_of_N n) = Some (Z.of_N n)).
  { pose proof (pyint_dec (Z.of_N n)) as H. unfold pyint, py_int_of in H.
    replace (dec_of_Z (Z.of_N n)) with (dec_of_N n) in H.
    - destruct (py_int_str (dec_of_N n)); [inversion H; reflexivity|discriminate].
    - destruct n; reflexivity. }
  assert (P4 : parse_ip_network false (a ++ 47 :: dec_of_N n) = ARaise AAddrFormatError).
  { apply parse4_on_v6. exists a. split; [exact T|right]. exists (dec_of_N n). split; [reflexivity|].
    left. exists (Z.of_N n). split; [exact PI|]. cbn [ip_width]. lia. }
  unfold ipnetwork_v. rewrite <- parse_v_outcome in P4.
  destruct (parse_ip_network_v false (a ++ 47 :: dec_of_N n)) as [v k|e]; [discriminate|].
  cbn [nres_outcome] in P4. inversion P4; subst.
  unfold parse_ip_network_v. rewrite (split_first_some 47 a _ (addr_text_no_slash true a T)).
  apply (ipaddress_of_iff true) in V. rewrite V, PI. cbn [ip_width].
  replace ((0 <=? Z.of_N n)%Z && (Z.of_N n <=? Z.of_N 128)%Z) with true by lia.
  rewrite N2Z.id. reflexivity.
Qed.

Theorem ipnetwork_v_decimal_both a value n : ipv6_value a value -> n <= 128 ->
  ipnetwork_v (a ++ 47 :: dec_of_N n) = Net true value n /\ ipnetwork_v a = Net true value 128.
Proof. intros V Hn. split; [apply ipnetwork_v_decimal; assumption|apply ipnetwork_v_plain; exact V]. Qed.

(* ------------------------------------------------------------------ first = host bits cleared *)

Lemma lxor_masks w h : 0 < w -> h <= w -> N.lxor (2 ^ w - 1) (2 ^ h - 1) = 2 ^ w - 2 ^ h.
Proof.
  intros Hw Hh. rewrite N.lxor_comm.
  assert (P : 2 ^ h <= 2 ^ w) by (apply N.pow_le_mono_r; lia).
  assert (P0 : 0 < 2 ^ h) by (apply N.neq_0_lt_0, N.pow_nonzero; lia).
  rewrite lxor_ones by lia. lia.
Qed.

Lemma N2Z_inj_land a b : Z.of_N (N.land a b) = Z.land (Z.of_N a) (Z.of_N b).
Proof. destruct a, b; reflexivity. Qed.

Lemma net_first_Z value plen : value < 2 ^ 128 -> plen <= 128 ->
  let h := (128 - Z.of_N plen)%Z in
  Z.of_N (net_first true value plen) = (Z.of_N value / 2 ^ h * 2 ^ h)%Z.
Proof.
  intros Hv Hp h. unfold net_first. cbn [ip_width].
  rewrite lxor_masks by lia.
  rewrite N2Z_inj_land.
  assert (Hh : (0 <= h <= 128)%Z) by (subst h; lia).
  assert (E : Z.of_N (2 ^ 128 - 2 ^ (128 - plen)) = Z.shiftl (Z.ones (128 - h)) h).
  { rewrite Z.shiftl_mul_pow2, Z.ones_equiv by lia.
    assert (P : 2 ^ (128 - plen) <= 2 ^ 128) by (apply N.pow_le_mono_r; lia).
    rewrite N2Z.inj_sub by exact P. rewrite !N2Z.inj_pow. rewrite N2Z.inj_sub by lia.
    fold h. change (Z.of_N 2) with 2%Z. change (Z.of_N 128) with 128%Z.
    rewrite Z.mul_pred_l, <- Z.pow_add_r by lia. replace (128 - h + h)%Z with 128%Z by lia. reflexivity. }
  rewrite E, land_shifted_ones by lia.
  f_equal. apply Z.mod_small. split; [apply Z.div_pos; [lia|apply Z.pow_pos_nonneg; lia]|].
  apply Z.div_lt_upper_bound; [apply Z.pow_pos_nonneg; lia|].
  rewrite <- Z.pow_add_r by lia. replace (h + (128 - h))%Z with 128%Z by lia.
  change (2 ^ 128)%Z with (Z.of_N (2 ^ 128)). lia.
Qed.

(* a prefix length of at most 64 leaves the low 64 bits of the network address clear *)
Lemma net_first_low_clear value plen : value < 2 ^ 128 -> plen <= 64 ->
  (0 <= Z.of_N (net_first true value plen) < 2 ^ 128)%Z /\ (Z.of_N (net_first true value plen) mod 2 ^ 64 = 0)%Z.
Proof.
  intros Hv Hp. split.
  - split; [lia|]. rewrite net_first_Z by lia. cbv zeta.
    set (h := (128 - Z.of_N plen)%Z). assert (Hh : (0 <= h)%Z) by (subst h; lia).
    assert (P : (0 < 2 ^ h)%Z) by (apply Z.pow_pos_nonneg; lia).
    pose proof (Z.mul_div_le (Z.of_N value) (2 ^ h) P) as L.
    change (2 ^ 128)%Z with (Z.of_N (2 ^ 128)). lia.
  - rewrite net_first_Z by lia. cbv zeta.
    set (h := (128 - Z.of_N plen)%Z). assert (Hh : (64 <= h <= 128)%Z) by (subst h; lia).
    replace (2 ^ h)%Z with (2 ^ (h - 64) * 2 ^ 64)%Z at 2
      by (rewrite <- Z.pow_add_r by lia; f_equal; lia).
    rewrite Z.mul_assoc. apply Z.mod_mul. lia.
Qed.
