(* Proofs/C01_Vhdx_Step.v — one eat_chunk of VHDXInspector, executed symbolically.

   Outside the backward-pointer zone every state the inspector goes through is [vst skel st]: the
   regions listed in the skeleton [skel] (name, offset, length), each holding exactly the part of its
   window that the stream [st] has reached.  The skeleton is one of
       SK0                      ident, header
       SK1 mo L                 + metadata at mo (length L)
       SK2 mo L vo il           + vds at vo (length il)
   This file computes eat_chunk on such states: first capture (engine, generic in the skeleton), then
   post_process (three cases), then the `while new_regions` loop (the D1 repair), whose fuel is never
   used up. *)
Require Import OV.Base.Bytes OV.Base.Py OV.Base.Insp_Struct OV.Gen.Insp_Consts OV.Model.Insp_Engine.
Require Import OV.Model.Insp_Vhdx OV.Model.Insp_All OV.Model.C01_Vhdx.
Require Import OV.Proofs.Insp_Engine OV.Proofs.Insp_Static OV.Proofs.C01_Vhdx_Tables.
Open Scope N_scope.

Definition skeleton := list (rname * rspec).

(* the state after the stream [st] when the regions are those of [skel] *)
Definition vst (skel : skeleton) (st : bytes) : ist unit :=
  mkIst (blen st) (fill_regs 0 skel st) (length skel) false [K_null] tt.

(* ... and right after post_process created region n (still empty) *)
Definition fresh_st (skel : skeleton) (st : bytes) (n : rname) (sp : rspec) : ist unit :=
  mkIst (blen st) (fill_regs 0 skel st ++ [(n, region_of_spec (length skel) sp)]) (S (length skel)) false [K_null] tt.

(* ------------------------------------------------------------------ engine, generic in the skeleton *)
Lemma fill_regs_app id l1 l2 st :
  fill_regs id (l1 ++ l2) st = fill_regs id l1 st ++ fill_regs (id + length l1) l2 st.
Proof.
  revert id. induction l1 as [|[n sp] t IH]; intros id; cbn [app fill_regs length].
  - rewrite Nat.add_0_r. reflexivity.
  - rewrite IH. rewrite Nat.add_succ_r. reflexivity.
Qed.

Lemma ids_fill id l st : ids (fill_regs id l st) = seq id (length l).
Proof.
  revert id. induction l as [|[n sp] t IH]; intros id; cbn [fill_regs ids map snd r_id length seq]; [reflexivity|].
  f_equal. apply IH.
Qed.

Lemma ids_app a b : ids (a ++ b) = ids a ++ ids b.
Proof. unfold ids. apply map_app. Qed.

Lemma new_names_known l : new_names (ids l) l = [].
Proof. apply new_names_nil. intros p Hp. unfold ids. apply in_map_iff. exists p. split; [reflexivity|exact Hp]. Qed.

Lemma mem_nat_seq_ge k i n : (i + n <= k)%nat -> mem_nat k (seq i n) = false.
Proof.
  intros H. destruct (mem_nat k (seq i n)) eqn:Hm; [|reflexivity].
  apply mem_nat_In in Hm. apply in_seq in Hm. lia.
Qed.

Lemma new_names_fresh skel st n sp :
  new_names (seq 0 (length skel)) (fill_regs 0 skel st ++ [(n, region_of_spec (length skel) sp)]) = [n].
Proof.
  unfold new_names. rewrite filter_app, map_app.
  pose proof (new_names_known (fill_regs 0 skel st)) as H0. unfold new_names in H0. rewrite ids_fill in H0. rewrite H0.
  cbn [filter snd region_of_spec r_id app]. rewrite mem_nat_seq_ge by lia. reflexivity.
Qed.

(* regions whose name is not asked for are left alone *)
Lemma capture_only_other n c pos id skel st :
  mem_rname n (map fst skel) = false ->
  capture_regs [n] c pos (fill_regs id skel st) = fill_regs id skel st.
Proof.
  revert id. induction skel as [|[k sp] t IH]; intros id Hm; cbn [fill_regs]; [reflexivity|].
  cbn [map fst mem_rname] in Hm. apply orb_false_iff in Hm. destruct Hm as [Hk Ht].
  rewrite capture_regs_map. cbn [map]. rewrite <- capture_regs_map, (IH _ Ht). f_equal.
  unfold cap1. cbn [mem_rname].
  assert (Hnk : rname_beq n k = false).
  { destruct (rname_beq n k) eqn:E; [|reflexivity]. apply rname_beq_eq in E. subst. rewrite rname_beq_refl in Hk. discriminate. }
  rewrite Hnk. reflexivity.
Qed.

(* the re-presentation of the chunk to a region created during this chunk, when the region does not
   start before the chunk (forward pointer): it takes exactly its part of the chunk *)
Lemma capture_fresh skel st c n sp :
  mem_rname n (map fst skel) = false -> rs_end sp = false -> rs_min sp = None -> blen st <= rs_off sp ->
  capture_regs [n] c (blen st + blen c) (fill_regs 0 skel (st ++ c) ++ [(n, region_of_spec (length skel) sp)])
  = fill_regs 0 (skel ++ [(n, sp)]) (st ++ c).
Proof.
  intros Hm He Hmin Hoff. rewrite fill_regs_app. cbn [fill_regs Nat.add].
  rewrite capture_regs_map, map_app, <- capture_regs_map. rewrite (capture_only_other _ _ _ _ _ _ Hm). f_equal.
  cbn [map]. f_equal. unfold cap1. cbn [mem_rname]. rewrite rname_beq_refl. cbn [orb negb].
  destruct sp as [e o l m]. cbn [rs_end rs_off rs_len rs_min] in *. subst e m.
  unfold region_of_spec. cbn [rs_end rs_off rs_len rs_min].
  pose proof (capture_step_mk (length skel) o l st c) as H. cbv zeta in H.
  assert (Hnil : bslice o l st = []).
  { unfold bslice. rewrite bskip_all by exact Hoff. apply btake_nil. }
  rewrite Hnil in H. rewrite <- H.
  match goal with |- (if ?b then _ else _) = _ => destruct b end; reflexivity.
Qed.

Lemma vhdx_no_callbacks names (s : ist unit) : run_callbacks vhdx_fmt names s = (s, None).
Proof. apply run_callbacks_none. reflexivity. Qed.

(* eat_chunk on a tracked state: capture, then post_process, then the loop *)
Lemma eat_chunk_vst skel st c :
  eat_chunk vhdx_fmt (vst skel st) c =
  match vhdx_post (vst skel (st ++ c)) with
  | (s2, Some e) => (s2, Some e)
  | (s2, None) => settle eat_fuel vhdx_fmt c (seq 0 (length skel)) s2
  end.
Proof.
  unfold eat_chunk, do_capture. cbn [vst i_fin i_pos i_regs set_pos set_regs].
  rewrite flen_blen, capture_regs_fill, ids_fill. cbn [f_post vhdx_fmt].
  assert (E : set_regs (set_pos (vst skel st) (blen st + blen c)) (fill_regs 0 skel (st ++ c)) = vst skel (st ++ c)).
  { unfold vst, set_regs, set_pos. cbn [i_pos i_regs i_next i_fin i_checks i_ext]. rewrite blen_app. reflexivity. }
  rewrite E.
  destruct (vhdx_post (vst skel (st ++ c))) as [s2 [e|]]; [reflexivity|].
  destruct (settle eat_fuel vhdx_fmt c (seq 0 (length skel)) s2) as [s3 [e|]]; [reflexivity|].
  apply vhdx_no_callbacks.
Qed.

(* the loop when nothing new was created *)
Lemma settle_done fuel c skel st :
  settle fuel vhdx_fmt c (seq 0 (length skel)) (vst skel st) = (vst skel st, None).
Proof.
  assert (H : new_names (seq 0 (length skel)) (i_regs (vst skel st)) = []).
  { cbn [vst i_regs]. rewrite <- (ids_fill 0 skel st). apply new_names_known. }
  destruct fuel; cbn [settle]; rewrite H; reflexivity.
Qed.

(* the loop when post_process has just created region n: one more capture, one more post_process *)
Lemma settle_fresh fuel c skel st n sp :
  mem_rname n (map fst skel) = false -> rs_end sp = false -> rs_min sp = None -> blen st <= rs_off sp ->
  settle (S fuel) vhdx_fmt c (seq 0 (length skel)) (fresh_st skel (st ++ c) n sp) =
  match vhdx_post (vst (skel ++ [(n, sp)]) (st ++ c)) with
  | (s2, Some e) => (s2, Some e)
  | (s2, None) => settle fuel vhdx_fmt c (seq 0 (length (skel ++ [(n, sp)]))) s2
  end.
Proof.
  intros Hm He Hmin Hoff. cbn [settle].
  assert (N1 : new_names (seq 0 (length skel)) (i_regs (fresh_st skel (st ++ c) n sp)) = [n]) by apply new_names_fresh.
  rewrite N1.
  assert (D : do_capture [n] c (fresh_st skel (st ++ c) n sp) = (vst (skel ++ [(n, sp)]) (st ++ c), None)).
  { unfold do_capture, fresh_st, vst, set_regs. cbn [i_pos i_regs i_next i_fin i_checks i_ext].
    rewrite blen_app. rewrite (capture_fresh skel st c n sp Hm He Hmin Hoff).
    rewrite app_length. cbn [length]. rewrite Nat.add_1_r. reflexivity. }
  rewrite D. cbn [f_post vhdx_fmt].
  replace (ids (i_regs (vst (skel ++ [(n, sp)]) (st ++ c)))) with (seq 0 (length (skel ++ [(n, sp)])))
    by (symmetry; apply ids_fill).
  reflexivity.
Qed.

(* ------------------------------------------------------------------ the three skeletons *)
Definition SK0 : skeleton :=
  [(R_ident, mkRspec false 0 VX_IDENT_LEN None); (R_header, mkRspec false VX_HDR_OFF VX_HDR_LEN None)].
Definition SK1 (mo L : N) : skeleton := SK0 ++ [(R_metadata, mkRspec false mo L None)].
Definition SK2 (mo L vo il : N) : skeleton := SK1 mo L ++ [(R_vds, mkRspec false vo il None)].

(* the regions and the check of _initialize, as regenerated from the source *)
Lemma vhdx_init_regions : init_regions F_vhdx = SK0.
Proof. reflexivity. Qed.
Lemma vhdx_init_checks : init_checks F_vhdx = [K_null].
Proof. reflexivity. Qed.

Lemma vhdx_init : init_ist vhdx_fmt = vst SK0 [].
Proof.
  unfold init_ist, vst. cbn [f_id vhdx_fmt f_ext0]. rewrite vhdx_init_regions, vhdx_init_checks.
  rewrite (init_regs_fill 0 SK0) by reflexivity. reflexivity.
Qed.

Definition hdr_region (st : bytes) : region :=
  mkRegion 1 false VX_HDR_OFF VX_HDR_LEN None (bslice VX_HDR_OFF VX_HDR_LEN st) false.
Definition meta_region (mo L : N) (st : bytes) : region :=
  mkRegion 2 false mo L None (bslice mo L st) false.

Lemma hdr_complete st : rcomplete (hdr_region st) = (VX_HDR_END <=? blen st).
Proof.
  unfold rcomplete, base_complete, hdr_region. cbn [r_end r_min r_len r_data].
  rewrite flen_blen, blen_bslice. unfold VX_HDR_LEN, VX_HDR_OFF, VX_HDR_END.
  destruct (262144 <=? blen st) eqn:H; lia.
Qed.

(* post_process, skeleton SK0, before the header is complete: inert *)
Lemma post_SK0_early st : blen st < VX_HDR_END -> vhdx_post (vst SK0 st) = (vst SK0 st, None).
Proof.
  intros H. unfold vhdx_post.
  change (get_region R_header (vst SK0 st)) with (Ok (A:=region) (hdr_region st)).
  cbv beta iota.
  rewrite hdr_complete. replace (VX_HDR_END <=? blen st) with false by lia. reflexivity.
Qed.

(* post_process, skeleton SK0, header complete: read the region table *)
Lemma post_SK0_late st :
  VX_HDR_END <= blen st ->
  vhdx_post (vst SK0 st) =
  match vx_region_table (bslice VX_HDR_OFF VX_HDR_LEN st) with
  | Exn e => (vst SK0 st, Some e)
  | Ok None => (vst SK0 st, None)
  | Ok (Some mo) => (fresh_st SK0 st R_metadata (rt_spec_of mo), None)
  end.
Proof.
  intros H. unfold vhdx_post.
  change (get_region R_header (vst SK0 st)) with (Ok (A:=region) (hdr_region st)).
  cbv beta iota.
  rewrite hdr_complete. replace (VX_HDR_END <=? blen st) with true by lia.
  change (has_region R_metadata (vst SK0 st)) with false. cbn [negb andb].
  rewrite (find_meta_region_spec (vst SK0 st) (hdr_region st)); [|reflexivity|].
  - cbn [hdr_region r_data].
    destruct (vx_region_table (bslice VX_HDR_OFF VX_HDR_LEN st)) as [[mo|]|e]; cbn [option_map]; reflexivity.
  - cbn [hdr_region r_data]. rewrite blen_bslice. unfold VX_HDR_LEN, VX_HDR_OFF, VX_HDR_END in *. lia.
Qed.

(* post_process, skeleton SK1: read the metadata table; a found item shrinks the metadata region to
   what it holds and creates vds *)
Lemma post_SK1 mo L st :
  vhdx_post (vst (SK1 mo L) st) =
  match vx_meta_table (bslice mo L st) with
  | Exn e => (vst (SK1 mo L) st, Some e)
  | Ok None => (vst (SK1 mo L) st, None)
  | Ok (Some (io, il)) =>
    (fresh_st (SK1 mo (blen (bslice mo L st))) st R_vds (mkRspec false (mo + io) il None), None)
  end.
Proof.
  unfold vhdx_post.
  change (get_region R_header (vst (SK1 mo L) st)) with (Ok (A:=region) (hdr_region st)).
  cbv beta iota.
  change (has_region R_metadata (vst (SK1 mo L) st)) with true.
  change (has_region R_vds (vst (SK1 mo L) st)) with false.
  rewrite andb_false_r. cbn [negb andb].
  rewrite (find_meta_entry_spec (vst (SK1 mo L) st) (meta_region mo L st)) by reflexivity.
  cbn [meta_region r_data r_off].
  destruct (vx_meta_table (bslice mo L st)) as [[[io il]|]|e]; try reflexivity.
  rewrite flen_blen.
  replace (set_regs (vst (SK1 mo L) st) (rset R_metadata (set_len (meta_region mo L st) (blen (bslice mo L st))) (i_regs (vst (SK1 mo L) st))))
    with (vst (SK1 mo (blen (bslice mo L st))) st); [reflexivity|].
  unfold vst, SK1, SK0, set_regs, set_len, meta_region.
  cbn [i_pos i_regs i_next i_fin i_checks i_ext app fill_regs rset rname_beq length rs_off rs_len r_id r_end r_off r_min r_data r_fin].
  rewrite bslice_relen. reflexivity.
Qed.

(* post_process, skeleton SK2: nothing left to do *)
Lemma post_SK2 mo L vo il st : vhdx_post (vst (SK2 mo L vo il) st) = (vst (SK2 mo L vo il) st, None).
Proof.
  unfold vhdx_post.
  change (get_region R_header (vst (SK2 mo L vo il) st)) with (Ok (A:=region) (hdr_region st)).
  cbv beta iota.
  change (has_region R_metadata (vst (SK2 mo L vo il) st)) with true.
  change (has_region R_vds (vst (SK2 mo L vo il) st)) with true.
  rewrite andb_false_r. reflexivity.
Qed.

(* ------------------------------------------------------------------ eat_chunk per skeleton *)
(* what the chunk leaves behind once the metadata region exists: the metadata table as far as the
   stream has it decides *)
Definition after_meta (mo L : N) (st' : bytes) : ist unit * option exn :=
  match vx_meta_table (bslice mo L st') with
  | Exn e => (vst (SK1 mo L) st', Some e)
  | Ok None => (vst (SK1 mo L) st', None)
  | Ok (Some (io, il)) => (vst (SK2 mo (blen (bslice mo L st')) (mo + io) il) st', None)
  end.

(* post_process on SK1 followed by the loop; two units of fuel are enough *)
Lemma post_loop_SK1 fuel mo L st c :
  (forall io il, vx_meta_table (bslice mo L (st ++ c)) = Ok (Some (io, il)) -> blen st <= mo + io) ->
  match vhdx_post (vst (SK1 mo L) (st ++ c)) with
  | (s2, Some e) => (s2, Some e)
  | (s2, None) => settle (S (S fuel)) vhdx_fmt c (seq 0 (length (SK1 mo L))) s2
  end = after_meta mo L (st ++ c).
Proof.
  intros Hfw. rewrite post_SK1. unfold after_meta.
  destruct (vx_meta_table (bslice mo L (st ++ c))) as [[[io il]|]|e] eqn:Hmt; [| |reflexivity].
  - change (length (SK1 mo L)) with (length (SK1 mo (blen (bslice mo L (st ++ c))))).
    rewrite settle_fresh; [|reflexivity|reflexivity|reflexivity|exact (Hfw io il eq_refl)].
    fold (SK2 mo (blen (bslice mo L (st ++ c))) (mo + io) il).
    rewrite post_SK2. apply settle_done.
  - apply settle_done.
Qed.

Lemma eat_chunk_SK0 st c :
  (forall mo, vx_region_table (bslice VX_HDR_OFF VX_HDR_LEN (st ++ c)) = Ok (Some mo) -> VX_HDR_END <= blen (st ++ c) ->
     blen st <= mo /\
     forall io il, vx_meta_table (bslice mo VX_META_LEN (st ++ c)) = Ok (Some (io, il)) -> blen st <= mo + io) ->
  eat_chunk vhdx_fmt (vst SK0 st) c =
  if blen (st ++ c) <? VX_HDR_END then (vst SK0 (st ++ c), None)
  else match vx_region_table (bslice VX_HDR_OFF VX_HDR_LEN (st ++ c)) with
       | Exn e => (vst SK0 (st ++ c), Some e)
       | Ok None => (vst SK0 (st ++ c), None)
       | Ok (Some mo) => after_meta mo VX_META_LEN (st ++ c)
       end.
Proof.
  intros Hfw. destruct (blen (st ++ c) <? VX_HDR_END) eqn:Hh.
  - rewrite eat_chunk_vst, post_SK0_early by lia. apply settle_done.
  - destruct (vx_region_table (bslice VX_HDR_OFF VX_HDR_LEN (st ++ c))) as [[mo|]|e] eqn:Hrt.
    + destruct (Hfw mo eq_refl) as [Hmo Hio]; [lia|].
      rewrite eat_chunk_vst, post_SK0_late by lia. rewrite Hrt.
      unfold eat_fuel. rewrite settle_fresh; [|reflexivity|reflexivity|reflexivity|cbn [rt_spec_of rs_off]; lia].
      fold (SK1 mo VX_META_LEN). apply post_loop_SK1. exact Hio.
    + rewrite eat_chunk_vst, post_SK0_late by lia. rewrite Hrt. apply settle_done.
    + rewrite eat_chunk_vst, post_SK0_late by lia. rewrite Hrt. reflexivity.
Qed.

Lemma eat_chunk_SK1 mo L st c :
  (forall io il, vx_meta_table (bslice mo L (st ++ c)) = Ok (Some (io, il)) -> blen st <= mo + io) ->
  eat_chunk vhdx_fmt (vst (SK1 mo L) st) c = after_meta mo L (st ++ c).
Proof. intros H. rewrite eat_chunk_vst. unfold eat_fuel. apply post_loop_SK1. exact H. Qed.

Lemma eat_chunk_SK2 mo L vo il st c :
  eat_chunk vhdx_fmt (vst (SK2 mo L vo il) st) c = (vst (SK2 mo L vo il) (st ++ c), None).
Proof. rewrite eat_chunk_vst, post_SK2. apply settle_done. Qed.
