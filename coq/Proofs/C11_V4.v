(* Proofs/C11_V4.v — the strict IPv4 text form: model recogniser <-> dotted quad. *)
Require Import OV.Base.Bytes OV.Base.Py OV.Base.PyInt OV.Base.Str OV.Base.C11_Lib.
Require Import OV.Gen.C11_Netutils OV.Model.C11 OV.Model.C11_Spec OV.Proofs.C11_Split.
Open Scope N_scope.

Ltac Zify.zify_post_hook ::= Z.div_mod_to_equations.

(* ---------- finite sweeps over 0..k-1 ---------- *)
Lemma forall_below (P : N -> bool) (k : nat) :
  forallb P (map N.of_nat (seq 0 k)) = true -> forall n, n < N.of_nat k -> P n = true.
Proof.
  intros H n Hn. rewrite forallb_forall in H. apply H.
  replace n with (N.of_nat (N.to_nat n)) by lia. apply in_map. apply in_seq. lia.
Qed.

Definition small_dec (n : N) : str :=
  if n <? 10 then [48 + n]
  else if n <? 100 then [48 + n / 10; 48 + n mod 10]
  else [48 + n / 100; 48 + (n / 10) mod 10; 48 + n mod 10].

Lemma dec_small n : n < 256 -> dec_of_N n = small_dec n.
Proof.
  intros H. apply beq_eq. revert n H.
  apply (forall_below (fun n => beq (dec_of_N n) (small_dec n)) 256). vm_compute. reflexivity.
Qed.

Lemma octetb_dec n : n <= 255 -> octetb (dec_of_N n) = true.
Proof.
  intros H. assert (H' : n < 256) by lia. revert n H' H.
  intros n H _. revert n H.
  apply (forall_below (fun n => octetb (dec_of_N n)) 256). vm_compute. reflexivity.
Qed.

Lemma no_leading_zero_dec n : n <= 255 -> leading_zero_part (dec_of_N n) = false.
Proof.
  intros H. assert (H' : n < 256) by lia. clear H.
  apply negb_true_iff. revert n H'.
  apply (forall_below (fun n => negb (leading_zero_part (dec_of_N n))) 256). vm_compute. reflexivity.
Qed.

Lemma ascii_digit_range c : ascii_digit c = true -> 48 <= c <= 57.
Proof. unfold ascii_digit. lia. Qed.

Lemma octetb_inv f : octetb f = true -> exists n, n <= 255 /\ f = dec_of_N n.
Proof.
  destruct f as [|a [|b [|c [|d t]]]]; cbn [octetb]; intros H; try discriminate.
  - apply ascii_digit_range in H.
    exists (a - 48). split; [lia|]. rewrite dec_small by lia. unfold small_dec.
    replace (a - 48 <? 10) with true by lia. f_equal. lia.
  - apply andb_true_iff in H. destruct H as [H Hz]. apply andb_true_iff in H. destruct H as [Ha Hb].
    apply ascii_digit_range in Ha, Hb. apply negb_true_iff, N.eqb_neq in Hz.
    exists ((a - 48) * 10 + (b - 48)). split; [lia|]. rewrite dec_small by lia. unfold small_dec.
    replace ((a - 48) * 10 + (b - 48) <? 10) with false by lia.
    replace ((a - 48) * 10 + (b - 48) <? 100) with true by lia.
    f_equal; [|f_equal]; lia.
  - apply andb_true_iff in H. destruct H as [H Hv]. apply andb_true_iff in H. destruct H as [H Hz].
    apply andb_true_iff in H. destruct H as [H Hc]. apply andb_true_iff in H. destruct H as [Ha Hb].
    apply ascii_digit_range in Ha, Hb, Hc. apply negb_true_iff, N.eqb_neq in Hz. apply N.leb_le in Hv.
    exists ((a - 48) * 100 + (b - 48) * 10 + (c - 48)). split; [lia|]. rewrite dec_small by lia. unfold small_dec.
    replace ((a - 48) * 100 + (b - 48) * 10 + (c - 48) <? 10) with false by lia.
    replace ((a - 48) * 100 + (b - 48) * 10 + (c - 48) <? 100) with false by lia.
    f_equal; [|f_equal; [|f_equal]]; lia.
Qed.

Lemma octetb_iff f : octetb f = true <-> exists n, n <= 255 /\ f = dec_of_N n.
Proof.
  split; [apply octetb_inv|]. intros [n [Hn ->]]. apply octetb_dec. exact Hn.
Qed.

(* characters of a canonical decimal *)
Lemma digits_notin c f : all_ascii_digits f = true -> ascii_digit c = false -> ~ In c f.
Proof.
  unfold all_ascii_digits. intros H Hc Hin. rewrite forallb_forall in H. rewrite (H _ Hin) in Hc. discriminate.
Qed.

Lemma dec_notin c n : ascii_digit c = false -> ~ In c (dec_of_N n).
Proof. apply digits_notin, dec_of_N_digits. Qed.

(* ---------- inet_pton(AF_INET) <-> dotted quad ---------- *)
Lemma pton4b_iff s : pton4b s = true <-> dotted_quad s.
Proof.
  unfold pton4b, dotted_quad. split.
  - intros H. pose proof (join_split 46 s) as J.
    destruct (split_char 46 s) as [|a [|b [|c [|d [|e t]]]]]; try discriminate.
    apply andb_true_iff in H. destruct H as [H Hd]. apply andb_true_iff in H. destruct H as [H Hc].
    apply andb_true_iff in H. destruct H as [Ha Hb].
    apply octetb_inv in Ha, Hb, Hc, Hd.
    destruct Ha as [na [? ->]], Hb as [nb [? ->]], Hc as [nc [? ->]], Hd as [nd [? ->]].
    exists na, nb, nc, nd. repeat split; try assumption. symmetry. exact J.
  - intros [a [b [c [d [Ha [Hb [Hc [Hd ->]]]]]]]].
    unfold dots. rewrite split_join.
    + rewrite !octetb_dec by assumption. reflexivity.
    + discriminate.
    + repeat constructor; apply dec_notin; reflexivity.
Qed.

(* text of a dotted quad: digits and dots only *)
Definition quad_char (c : N) : bool := ascii_digit c || (c =? 46).

Lemma join_forallb (P : N -> bool) sep fs :
  forallb P sep = true -> Forall (fun f => forallb P f = true) fs -> forallb P (join sep fs) = true.
Proof.
  intros Hs. induction fs as [|x t IH]; intros H; [reflexivity|].
  inversion H as [|? ? Hx Ht]; subst. destruct t as [|y t'].
  - exact Hx.
  - rewrite join_cons_ne by discriminate. rewrite !forallb_app, Hx, Hs. cbn [andb]. apply IH, Ht.
Qed.

Lemma dec_quad_chars n : forallb quad_char (dec_of_N n) = true.
Proof.
  pose proof (dec_of_N_digits n) as H. unfold all_ascii_digits in H.
  rewrite forallb_forall in *. intros c Hc. unfold quad_char. rewrite (H c Hc). reflexivity.
Qed.

Lemma quad_chars s : dotted_quad s -> forallb quad_char s = true.
Proof.
  intros [a [b [c [d [_ [_ [_ [_ ->]]]]]]]]. apply join_forallb; [reflexivity|].
  repeat constructor; apply dec_quad_chars.
Qed.

Lemma forallb_impl (P Q : N -> bool) s : (forall c, P c = true -> Q c = true) -> forallb P s = true -> forallb Q s = true.
Proof. intros I H. rewrite forallb_forall in *. intros c Hc. apply I, H, Hc. Qed.

Lemma quad_nonempty s : dotted_quad s -> s <> [].
Proof.
  intros [a [b [c [d [_ [_ [_ [_ ->]]]]]]]]. unfold dots. cbn [join].
  pose proof (dec_of_N_nonnil a). destruct (dec_of_N a); [congruence|discriminate].
Qed.

Lemma existsb_false_forallb {A} (P : A -> bool) l : existsb P l = false <-> forallb (fun x => negb (P x)) l = true.
Proof.
  induction l as [|x t IH]; cbn; [tauto|].
  rewrite orb_false_iff, andb_true_iff, negb_true_iff, IH. tauto.
Qed.

(* netaddr.valid_ipv4(s, INET_PTON) *)
Lemma netaddr_v4_true_iff s : netaddr_valid_ipv4_pton s = AOk true <-> dotted_quad s.
Proof.
  unfold netaddr_valid_ipv4_pton, inet_pton. split.
  - destruct (existsb (N.eqb 58) s); [discriminate|].
    destruct (existsb leading_zero_part (split_char 46 s)); [discriminate|].
    destruct (cstr_ok s); cbn [negb]; [|discriminate].
    destruct (pton4b s) eqn:E; [|discriminate]. intros _. apply pton4b_iff. exact E.
  - intros Q. pose proof (quad_chars s Q) as Hc.
    replace (existsb (N.eqb 58) s) with false.
    2:{ symmetry. apply existsb_false_forallb. revert Hc. apply forallb_impl.
        intros c. unfold quad_char, ascii_digit. lia. }
    replace (existsb leading_zero_part (split_char 46 s)) with false.
    2:{ symmetry. destruct Q as [a [b [c [d [Ha [Hb [Hc' [Hd ->]]]]]]]].
        unfold dots. rewrite split_join; [|discriminate|repeat constructor; apply dec_notin; reflexivity].
        cbn [existsb]. rewrite !no_leading_zero_dec by assumption. reflexivity. }
    replace (cstr_ok s) with true.
    2:{ symmetry. unfold cstr_ok. revert Hc. apply forallb_impl.
        intros c. unfold quad_char, ascii_digit, cstr_char_ok. lia. }
    cbn [negb]. apply pton4b_iff in Q. rewrite Q. reflexivity.
Qed.

Lemma guard_true tuple r : guard tuple r = AOk true <-> r = AOk true.
Proof.
  unfold guard. destruct r as [b|e].
  - tauto.
  - destruct (caught tuple e); split; intros H; discriminate.
Qed.

(* is_valid_ipv4(address) with strict=True, whatever the unused non-strict oracle says *)
Lemma ipv4_strict_iff aton s : is_valid_ipv4 true aton s = AOk true <-> dotted_quad s.
Proof.
  unfold is_valid_ipv4. destruct s as [|c t].
  - split; [discriminate|]. intros Q. apply quad_nonempty in Q. congruence.
  - rewrite guard_true. apply netaddr_v4_true_iff.
Qed.
