(* Proofs/C07_Vmdk.v — C07 for the VMDK inspector: for a well-formed hosted sparse extent, every chunking ends
   with virtual_size = capacity * 512, and every prefix shorter than header + descriptor reports 0. *)
From Coq Require Import String.
Require Import OV.Base.Bytes OV.Base.Py OV.Base.PyInt OV.Base.Str OV.Base.Insp_Struct OV.Gen.Insp_Consts
               OV.Model.Insp_Engine OV.Model.Insp_All OV.Model.Insp_Vmdk OV.Model.C07 OV.Proofs.C07_Engine.
Open Scope N_scope.

(* ---------- str.find ---------- *)
Lemma find_from_shift sub s i : find_from sub s i = option_map (fun j => i + j) (find_from sub s 0).
Proof.
  revert i. induction s as [|x s IH]; intros i; cbn [find_from].
  - destruct (prefixb sub []); cbn [option_map]; [f_equal; lia|reflexivity].
  - destruct (prefixb sub (x :: s)); cbn [option_map]; [f_equal; lia|].
    rewrite (IH (i + 1)), (IH (0 + 1)). destruct (find_from sub s 0); cbn [option_map]; [f_equal; lia|reflexivity].
Qed.

(* the text of a descriptor: up to the first NUL (desc_data.index(b'\x00')) *)
Lemma find_nul_upto d :
  match find VMDK_NUL d with Some i => ntake i d | None => d end = upto_nul d.
Proof.
  unfold find. change VMDK_NUL with [0].
  induction d as [|x d IH]; [reflexivity|].
  cbn [find_from prefixb upto_nul]. rewrite N.eqb_sym. destruct (x =? 0) eqn:E; cbn [andb].
  - rewrite ntake_btake. reflexivity.
  - rewrite find_from_shift. change (0 + 1) with 1. destruct (find_from [0] d 0) as [j|] eqn:F; cbn [option_map].
    + rewrite ntake_btake in *. unfold btake in *. replace (N.to_nat (1 + j)) with (S (N.to_nat j)) by lia.
      cbn [firstn]. f_equal. exact IH.
    + f_equal. exact IH.
Qed.

(* _parse_descriptor's createType extraction agrees with the specification's [declared_type] whenever the latter
   is defined (a closing quote within 63 characters) *)
Lemma vmdk_type_of_declared d ty :
  declared_type d = Some ty -> vmdk_type_of (lower_ascii (upto_nul d)) = ty /\ lower_ascii (upto_nul d) <> [].
Proof.
  unfold declared_type, vmdk_type_of. set (t := lower_ascii (upto_nul d)).
  change VMDK_CREATETYPE with SPEC_VMDK_KEY. change VMDK_QUOTE with [34]. intros H.
  destruct (find SPEC_VMDK_KEY t) as [i|] eqn:Fi; [|discriminate]. split.
  - rewrite flen_blen. unfold find_at. rewrite find_from_shift.
    unfold find in H. destruct (find_from [34] (bskip (i + blen SPEC_VMDK_KEY) t) 0) as [j|] eqn:Fj; [|discriminate].
    cbn [option_map]. destruct (j <? 64) eqn:Ej; [|discriminate]. injection H as <-.
    change VMDK_TYPE_CAP with 64.
    replace ((Z.of_N (i + blen SPEC_VMDK_KEY + j) - Z.of_N (i + blen SPEC_VMDK_KEY) <? Z.of_N 64)%Z) with true by lia.
    rewrite zslice_range by lia. rewrite !N2Z.id. unfold bsub. f_equal. lia.
  - intros Ht. rewrite Ht in Fi. vm_compute in Fi. discriminate.
Qed.

Lemma prefix_bslice p w o L : is_prefix p w = true -> o + L <= blen p -> bslice o L p = bslice o L w.
Proof.
  unfold is_prefix. intros Hp H. apply prefixb_spec in Hp. destruct Hp as [t ->].
  unfold bslice. destruct (N.eq_dec L 0) as [->|HL]; [rewrite !btake_0; reflexivity|].
  rewrite bskip_app_le by lia. symmetry. apply btake_app_le. rewrite blen_bskip. lia.
Qed.

Lemma is_prefix_refl b : is_prefix b b = true.
Proof. unfold is_prefix. rewrite <- (app_nil_r b) at 2. apply prefixb_app. Qed.

Lemma is_prefix_app_l p b c : is_prefix p b = true -> is_prefix p (b ++ c) = true.
Proof.
  unfold is_prefix. intros H. apply prefixb_spec in H. destruct H as [t ->]. rewrite <- app_assoc. apply prefixb_app.
Qed.

Lemma is_prefix_trans a b c : is_prefix a b = true -> is_prefix b c = true -> is_prefix a c = true.
Proof.
  unfold is_prefix. intros H1 H2. apply prefixb_spec in H1. destruct H1 as [t ->].
  apply prefixb_spec in H2. destruct H2 as [u ->]. rewrite <- app_assoc. apply prefixb_app.
Qed.

Lemma is_prefix_blen a b : is_prefix a b = true -> blen a <= blen b.
Proof. unfold is_prefix. intros H. apply prefixb_spec in H. destruct H as [t ->]. rewrite blen_app. lia. Qed.

Lemma is_prefix_btake n b : is_prefix (btake n b) b = true.
Proof. unfold is_prefix. rewrite <- (btake_bskip_app n b) at 2. apply prefixb_app. Qed.

Lemma is_prefix_take a b : is_prefix a b = true -> a = btake (blen a) b.
Proof.
  unfold is_prefix. intros H. apply prefixb_spec in H. destruct H as [t ->].
  rewrite btake_app_le by lia. symmetry. apply btake_all. lia.
Qed.

Lemma full_iff_reached (o L n : N) : 1 <= L -> (L =? N.min L (n - o)) = (o + L <=? n).
Proof. intros H. destruct (o + L <=? n) eqn:E; [apply N.leb_le in E; apply N.eqb_eq|apply N.leb_gt in E; apply N.eqb_neq]; lia. Qed.

Section VmdkImage.
Variables (w : bytes) (sectors version desc_num : N).
Hypothesis Hsec : sectors < 2 ^ 64.
Hypothesis Hdn : desc_num < 2 ^ 64.
Hypothesis Hwf : wf_vmdk sectors version desc_num w = true.
Let ds := vmdk_desc_size desc_num.
Let D := bslice 512 ds w.
Let gd := le_val (bslice 56 8 w).

(* the conjuncts of wf_vmdk *)
Lemma wf_parts :
  bslice 0 4 w = SPEC_VMDK_MAGIC /\ bslice 4 4 w = le_enc 4 version /\ (version = 1 \/ version = 2 \/ version = 3) /\
  bslice 12 8 w = le_enc 8 sectors /\ bslice 28 8 w = le_enc 8 1 /\ bslice 36 8 w = le_enc 8 desc_num /\
  1 <= desc_num /\ 512 + ds <= blen w /\ wf_vmdk_desc D = true.
Proof.
  pose proof Hwf as W. unfold wf_vmdk in W. fold ds in W. fold D in W.
  repeat (apply andb_true_iff in W; destruct W as [W ?]).
  rewrite prefixb_bslice in W.
  repeat match goal with H : beq _ _ = true |- _ => apply beq_eq in H end.
  repeat split; try assumption; try lia.
Qed.

Lemma ds_bounds : 512 <= ds /\ ds <= 1048575.
Proof. destruct wf_parts as (_ & _ & _ & _ & _ & _ & H & _). unfold ds, vmdk_desc_size, SPEC_VMDK_DESC_CAP. lia. Qed.

(* _parse_sparse_header('header') once the region holds at least 64 bytes of the image *)
Lemma sparse_header (s : ist vx) h :
  rget R_header (i_regs s) = Some h -> is_prefix (r_data h) w = true -> 64 <= blen (r_data h) ->
  vmdk_parse_sparse s R_header 0 = Ok (SPEC_VMDK_MAGIC, version, 1, desc_num, gd).
Proof.
  intros Hg Hp Hl. destruct wf_parts as (M & V & Vr & S & DS & DN & _).
  unfold vmdk_parse_sparse, get_region. rewrite Hg. cbn [bind].
  rewrite nsub_bslice. change (0 + VMDK_MIN_SPARSE_HEADER - 0) with 64.
  rewrite (prefix_bslice _ w 0 64 Hp) by lia.
  assert (Hw : 64 <= blen w) by (apply is_prefix_blen in Hp; lia).
  rewrite unpack_ok by (rewrite blen_bslice; change (sf_size sf_vmdk_sparse) with 64; lia). cbn [bind].
  unfold sint, sraw. cbn [sf_vmdk_sparse sf_big sf_fields nth].
  rewrite !bslice_bslice by (vm_compute; discriminate). rewrite !N.add_0_l.
  rewrite M, V, DS, DN. fold gd.
  rewrite (le_val_enc 4 version) by (destruct Vr as [->|[->| ->]]; vm_compute; reflexivity).
  rewrite (le_val_enc 8 1) by (vm_compute; reflexivity).
  rewrite (le_val_enc 8 desc_num) by exact Hdn. reflexivity.
Qed.

(* ---------- the shapes of the inspector object ---------- *)
Definition vh (data : bytes) : region := mkRegion 0 false 0 512 (Some 64) data false.
Definition vd0 (data : bytes) : region := mkRegion 1 false 0 VMDK_DESC_MAX_SIZE (Some 4) data false.
Definition vd (id : nat) (b : bytes) : region := mkRegion id false 512 ds None (bslice 512 ds b) false.
(* before the sparse header is complete: header region + the provisional descriptor region at offset 0 *)
Definition stA (pos : N) (hd dd : bytes) (x : vx) : ist vx :=
  mkIst pos [(R_header, vh hd); (R_descriptor, vd0 dd)] 2 false [K_descriptor] x.
(* afterwards: header (frozen), descriptor at 512 (holding the slice of [db]), without / with the footer region *)
Definition vf (fo : N) (fd : bytes) : region := mkRegion 2 true fo 1536 None fd false.
Definition stB (pos : N) (hd db : bytes) (x : vx) : ist vx :=
  mkIst pos [(R_header, vh hd); (R_descriptor, vd 2 db)] 3 false [K_descriptor] x.
Definition stC (pos : N) (hd : bytes) (fo : N) (fd : bytes) (db : bytes) (x : vx) : ist vx :=
  mkIst pos [(R_header, vh hd); (R_footer, vf fo fd); (R_descriptor, vd 3 db)] 4 false [K_descriptor; K_footer] x.

Lemma rcomplete_vh hd : rcomplete (vh hd) = (64 <=? blen hd).
Proof. unfold rcomplete, base_complete, vh. cbn [r_end r_min r_data]. rewrite flen_blen. reflexivity. Qed.
Lemma rcomplete_vd0 dd : rcomplete (vd0 dd) = (4 <=? blen dd).
Proof. unfold rcomplete, base_complete, vd0. cbn [r_end r_min r_data]. rewrite flen_blen. reflexivity. Qed.
Lemma rcomplete_vd id b : rcomplete (vd id b) = (512 + ds <=? blen b).
Proof.
  unfold rcomplete, base_complete, vd. cbn [r_end r_min r_len r_data]. rewrite flen_blen, blen_bslice.
  apply full_iff_reached. pose proof ds_bounds as [B1 B2]. clear - B1. lia.
Qed.

Lemma cap1_vh_incomplete b c : blen b < 64 -> cap1 c (blen b + flen c) (vh b) = vh (bslice 0 512 (b ++ c)).
Proof.
  intros H. unfold cap1. rewrite rcomplete_vh. replace (64 <=? blen b) with false by lia.
  cbn [vh r_end orb negb]. unfold rcapture. cbn [r_end].
  rewrite cap_fixed_slice; [reflexivity|]. unfold holds. cbn [vh r_data r_off r_len]. symmetry. apply bslice_0_all. lia.
Qed.
Lemma cap1_vh_complete hd c pos : 64 <= blen hd -> cap1 c pos (vh hd) = vh hd.
Proof. intros H. unfold cap1. rewrite rcomplete_vh. replace (64 <=? blen hd) with true by lia. reflexivity. Qed.
Lemma cap1_vd0_complete dd c pos : 4 <= blen dd -> cap1 c pos (vd0 dd) = vd0 dd.
Proof. intros H. unfold cap1. rewrite rcomplete_vd0. replace (4 <=? blen dd) with true by lia. reflexivity. Qed.
Lemma cap1_vd0_incomplete b c : blen b < 4 -> cap1 c (blen b + flen c) (vd0 b) = vd0 (bslice 0 VMDK_DESC_MAX_SIZE (b ++ c)).
Proof.
  intros H. unfold cap1. rewrite rcomplete_vd0. replace (4 <=? blen b) with false by lia.
  cbn [vd0 r_end orb negb]. unfold rcapture. cbn [r_end].
  rewrite cap_fixed_slice; [reflexivity|]. unfold holds. cbn [vd0 r_data r_off r_len]. symmetry. apply bslice_0_all.
  change VMDK_DESC_MAX_SIZE with 1048575. lia.
Qed.
Lemma cap1_vd id b c : cap1 c (blen b + flen c) (vd id b) = vd id (b ++ c).
Proof. rewrite cap1_plain with (b := b); [reflexivity|split; reflexivity|reflexivity]. Qed.
Lemma cap1_vf fo fd c pos : cap1 c pos (vf fo fd) = vf (pos - flen (nlast 1536 (fd ++ c))) (nlast 1536 (fd ++ c)).
Proof. reflexivity. Qed.


(* ---------- post_process on each shape ---------- *)
Lemma post_A_incomplete pos hd dd x : blen hd < 64 -> vmdk_post (stA pos hd dd x) = (stA pos hd dd x, None).
Proof.
  intros H. unfold vmdk_post, stA. cbn [i_regs rget]. change (rname_beq R_header R_header) with true. cbv iota.
  rewrite rcomplete_vh. replace (64 <=? blen hd) with false by lia. reflexivity.
Qed.

Lemma bslice_beyond o L b : blen b <= o -> bslice o L b = [].
Proof. intros H. unfold bslice. rewrite bskip_all by exact H. apply btake_nil. Qed.

(* the chunk that completes the sparse header: the footer region (when announced) and the real descriptor region appear *)
Lemma post_A_complete pos hd dd x db :
  64 <= blen hd -> is_prefix hd w = true -> blen db <= 512 ->
  vmdk_post (stA pos hd dd x) =
  if gd =? VMDK_GD_AT_END then (stC pos hd 1536 [] db x, None) else (stB pos hd db x, None).
Proof.
  intros Hl Hp Hdb. unfold vmdk_post.
  assert (Hg : rget R_header (i_regs (stA pos hd dd x)) = Some (vh hd)) by reflexivity.
  rewrite Hg. rewrite rcomplete_vh. replace (64 <=? blen hd) with true by lia. cbn [negb].
  rewrite (sparse_header _ (vh hd) Hg Hp Hl).
  change VMDK_MAGIC_PP with SPEC_VMDK_MAGIC. rewrite beq_refl. cbn [negb].
  destruct wf_parts as (_ & _ & Vr & _).
  replace ((version =? VMDK_VER_A) || (version =? VMDK_VER_B) || (version =? VMDK_VER_C)) with true
    by (destruct Vr as [->|[->| ->]]; reflexivity).
  cbn [negb]. change (1 * VMDK_SECTOR_A) with 512. change (512 =? VMDK_DESC_OFFSET) with true. cbn [negb].
  change (N.min (desc_num * VMDK_SECTOR_B) VMDK_DESC_MAX_SIZE) with ds.
  unfold stB, stC, vd. rewrite (bslice_beyond 512 ds db Hdb).
  destruct (gd =? VMDK_GD_AT_END); reflexivity.
Qed.

Lemma post_B pos hd db x :
  64 <= blen hd -> is_prefix hd w = true -> (gd =? VMDK_GD_AT_END) = false ->
  vmdk_post (stB pos hd db x) = (stB pos hd db x, None).
Proof.
  intros Hl Hp Hgd. unfold vmdk_post.
  assert (Hg : rget R_header (i_regs (stB pos hd db x)) = Some (vh hd)) by reflexivity.
  rewrite Hg. rewrite rcomplete_vh. replace (64 <=? blen hd) with true by lia. cbn [negb].
  rewrite (sparse_header _ (vh hd) Hg Hp Hl).
  change VMDK_MAGIC_PP with SPEC_VMDK_MAGIC. rewrite beq_refl. cbn [negb].
  destruct wf_parts as (_ & _ & Vr & _).
  replace ((version =? VMDK_VER_A) || (version =? VMDK_VER_B) || (version =? VMDK_VER_C)) with true
    by (destruct Vr as [->|[->| ->]]; reflexivity).
  cbn [negb]. rewrite Hgd. cbn [andb]. change (1 * VMDK_SECTOR_A) with 512. change (512 =? VMDK_DESC_OFFSET) with true.
  reflexivity.
Qed.

Lemma post_C pos hd fo fd db x :
  64 <= blen hd -> is_prefix hd w = true ->
  vmdk_post (stC pos hd fo fd db x) = (stC pos hd fo fd db x, None).
Proof.
  intros Hl Hp. unfold vmdk_post.
  assert (Hg : rget R_header (i_regs (stC pos hd fo fd db x)) = Some (vh hd)) by reflexivity.
  rewrite Hg. rewrite rcomplete_vh. replace (64 <=? blen hd) with true by lia. cbn [negb].
  rewrite (sparse_header _ (vh hd) Hg Hp Hl).
  change VMDK_MAGIC_PP with SPEC_VMDK_MAGIC. rewrite beq_refl. cbn [negb].
  destruct wf_parts as (_ & _ & Vr & _).
  replace ((version =? VMDK_VER_A) || (version =? VMDK_VER_B) || (version =? VMDK_VER_C)) with true
    by (destruct Vr as [->|[->| ->]]; reflexivity).
  cbn [negb]. change (has_region R_footer (stC pos hd fo fd db x)) with true. rewrite andb_false_r.
  change (1 * VMDK_SECTOR_A) with 512. change (512 =? VMDK_DESC_OFFSET) with true.
  reflexivity.
Qed.

(* ---------- _parse_descriptor ---------- *)
Lemma first4 (l : bytes) a b c d : bslice 0 4 l = [a; b; c; d] -> exists t, l = a :: b :: c :: d :: t.
Proof.
  destruct l as [|x0 [|x1 [|x2 [|x3 t]]]]; cbn; intros H; try discriminate.
  injection H as -> -> -> ->. exists t. reflexivity.
Qed.

(* the image starts with 'KDMV', the version byte (1..3) and a NUL *)
Lemma w_head : exists v t, (v = 1 \/ v = 2 \/ v = 3) /\ w = 75 :: 68 :: 77 :: 86 :: v :: 0 :: 0 :: 0 :: t.
Proof.
  destruct wf_parts as (M & V & Vr & _).
  destruct (first4 w 75 68 77 86 M) as [t Ht]. exists version.
  assert (V' : bslice 0 4 t = [version; 0; 0; 0]).
  { rewrite Ht in V. change (bslice 4 4 (75 :: 68 :: 77 :: 86 :: t)) with (bslice 0 4 t) in V. rewrite V.
    destruct Vr as [->|[->| ->]]; reflexivity. }
  destruct (first4 t _ _ _ _ V') as [t' Ht']. exists t'. split; [exact Vr|]. rewrite Ht, Ht'. reflexivity.
Qed.

(* the provisional descriptor region (offset 0, min_length 4) of a sparse image never yields a createType *)
Definition provisional_ok (x : vx) : Prop := v_vmdktype x = VMDK_NOTFOUND.

Lemma parse_provisional pos hd dd x :
  is_prefix dd w = true -> 4 <= blen dd ->
  exists x', vmdk_parse_descriptor (stA pos hd dd x) = (stA pos hd dd x', None) /\ provisional_ok x'.
Proof.
  intros Hp Hl. destruct w_head as (v & t & Hv & Hw).
  unfold vmdk_parse_descriptor, get_region. cbn [stA i_regs rget].
  change (rname_beq R_header R_descriptor) with false. change (rname_beq R_descriptor R_descriptor) with true. cbv iota.
  cbn [vd0 r_data]. rewrite find_nul_upto.
  assert (Hu : upto_nul dd = [75; 68; 77; 86] \/ upto_nul dd = [75; 68; 77; 86; v]).
  { unfold is_prefix in Hp. rewrite Hw in Hp.
    destruct dd as [|a0 [|a1 [|a2 [|a3 [|a4 [|a5 r]]]]]]; try (exfalso; cbn in Hl; lia).
    - cbn in Hp. repeat (apply andb_true_iff in Hp; destruct Hp as [? Hp]).
      repeat match goal with H : (_ =? _) = true |- _ => apply N.eqb_eq in H end. subst. left. reflexivity.
    - cbn in Hp. repeat (apply andb_true_iff in Hp; destruct Hp as [? Hp]).
      repeat match goal with H : (_ =? _) = true |- _ => apply N.eqb_eq in H end. subst. right.
      destruct Hv as [->|[->| ->]]; reflexivity.
    - cbn [prefixb] in Hp. repeat (apply andb_true_iff in Hp; destruct Hp as [? Hp]).
      repeat match goal with H : (_ =? _) = true |- _ => apply N.eqb_eq in H end. subst. right.
      destruct Hv as [->|[->| ->]]; reflexivity. }
  destruct Hu as [-> | ->].
  - eexists. split; [reflexivity|reflexivity].
  - destruct Hv as [->|[->| ->]]; (eexists; split; [reflexivity|reflexivity]).
Qed.

(* the attributes set by the real descriptor *)
Definition vx_final : vx := mkVx (Some (lower_ascii (upto_nul D))) (vmdk_type_of (lower_ascii (upto_nul D))).

Lemma is_ascii_spec l : forallb is_ascii l = forallb (fun c => c <? 128) l.
Proof. reflexivity. Qed.

Lemma parse_real (s : ist vx) d :
  rget R_descriptor (i_regs s) = Some d -> r_data d = D ->
  vmdk_parse_descriptor s = (set_ext s vx_final, None).
Proof.
  intros Hg Hd. destruct wf_parts as (_ & _ & _ & _ & _ & _ & _ & _ & Wd).
  unfold vmdk_parse_descriptor, get_region. rewrite Hg, Hd, find_nul_upto.
  unfold wf_vmdk_desc in Wd. apply andb_true_iff in Wd. destruct Wd as [Wa _].
  rewrite is_ascii_spec, Wa. reflexivity.
Qed.

Lemma vx_final_ok : desc_text_truthy vx_final = true /\ mem_str (v_vmdktype vx_final) VMDK_SUBFORMATS = true.
Proof.
  destruct wf_parts as (_ & _ & _ & _ & _ & _ & _ & _ & Wd).
  unfold wf_vmdk_desc in Wd. apply andb_true_iff in Wd. destruct Wd as [_ Wt].
  destruct (declared_type D) as [ty|] eqn:Ed; [|discriminate].
  destruct (vmdk_type_of_declared D ty Ed) as [H1 H2].
  unfold vx_final, desc_text_truthy. cbn [v_desc_text v_vmdktype]. rewrite H1. split.
  - destruct (lower_ascii (upto_nul D)); [contradiction|reflexivity].
  - exact Wt.
Qed.

(* ---------- the invariant: the inspector object after consuming the prefix [b] of the image ---------- *)
Definition ext_ok (b : bytes) (x : vx) : Prop :=
  if blen b <? 512 + ds then provisional_ok x else x = vx_final.

Inductive vinv (b : bytes) : ist vx -> Prop :=
| VA dd x : blen b < 64 -> is_prefix dd b = true -> (blen dd < 4 -> dd = b) -> provisional_ok x ->
            vinv b (stA (blen b) b dd x)
| VB hd x : 64 <= blen b -> is_prefix hd w = true -> 64 <= blen hd -> (gd =? VMDK_GD_AT_END) = false -> ext_ok b x ->
            vinv b (stB (blen b) hd b x)
| VC hd fo fd x : 64 <= blen b -> is_prefix hd w = true -> 64 <= blen hd -> ext_ok b x ->
            vinv b (stC (blen b) hd fo fd b x).

Lemma vinv_init : vinv [] (init_ist vmdk_fmt).
Proof.
  change (init_ist vmdk_fmt) with (stA (blen []) [] [] (mkVx None VMDK_NOTFOUND)).
  apply VA; reflexivity.
Qed.

Lemma capture_A c pos hd dd x :
  capture_regs [] c pos (i_regs (stA (blen hd) hd dd x)) = [(R_header, cap1 c pos (vh hd)); (R_descriptor, cap1 c pos (vd0 dd))].
Proof. rewrite capture_regs_all. reflexivity. Qed.

Lemma ext_ok_provisional b x : blen b < 512 + ds -> provisional_ok x -> ext_ok b x.
Proof. intros H P. unfold ext_ok. replace (blen b <? 512 + ds) with true by lia. exact P. Qed.

Lemma capture_only_B c pos h d :
  capture_regs [R_descriptor] c pos [(R_header, h); (R_descriptor, d)] = [(R_header, h); (R_descriptor, cap1 c pos d)].
Proof. unfold capture_regs, cap1. cbn [map mem_rname]. change (rname_beq R_descriptor R_header) with false.
  change (rname_beq R_descriptor R_descriptor) with true. cbn [orb negb]. destruct (r_end d || negb (rcomplete d)); reflexivity. Qed.

Lemma capture_only_C c pos h f d :
  capture_regs [R_footer; R_descriptor] c pos [(R_header, h); (R_footer, f); (R_descriptor, d)]
  = [(R_header, h); (R_footer, cap1 c pos f); (R_descriptor, cap1 c pos d)].
Proof. unfold capture_regs, cap1. cbn [map mem_rname]. change (rname_beq R_descriptor R_header) with false.
  change (rname_beq R_footer R_header) with false. change (rname_beq R_footer R_footer) with true.
  change (rname_beq R_footer R_descriptor) with false.
  change (rname_beq R_descriptor R_descriptor) with true. cbn [orb negb].
  destruct (r_end d || negb (rcomplete d)); destruct (r_end f || negb (rcomplete f)); reflexivity. Qed.

Lemma rcomplete_vf fo fd : rcomplete (vf fo fd) = false.
Proof. unfold rcomplete, vf. cbn [r_end r_fin]. apply andb_false_r. Qed.

(* the real descriptor region holds the whole descriptor once the stream reaches its end *)
Lemma vd_data_full id b : is_prefix b w = true -> 512 + ds <= blen b -> r_data (vd id b) = D.
Proof. intros Hp H. cbn [vd r_data]. unfold D. apply prefix_bslice; [exact Hp|lia]. Qed.

(* callbacks after a chunk, shape B: the header callback is a no-op, the descriptor callback parses the descriptor *)
Lemma callbacks_B (hnew dnew : bool) pos hd b x :
  (dnew = true -> is_prefix b w = true /\ 512 + ds <= blen b) ->
  run_callbacks vmdk_fmt ((if hnew then [R_header] else []) ++ (if dnew then [R_descriptor] else [])) (stB pos hd b x)
  = (stB pos hd b (if dnew then vx_final else x), None).
Proof.
  intros H. destruct hnew; cbn [app run_callbacks f_rcomplete vmdk_fmt vmdk_rcomplete];
  (destruct dnew; cbn [run_callbacks f_rcomplete vmdk_fmt vmdk_rcomplete]; [|reflexivity]);
  destruct (H eq_refl) as [Hp Hl];
  rewrite (parse_real _ (vd 2 b)) by (try reflexivity; apply vd_data_full; assumption); reflexivity.
Qed.

Lemma callbacks_C (hnew dnew : bool) pos hd fo fd b x :
  (dnew = true -> is_prefix b w = true /\ 512 + ds <= blen b) ->
  run_callbacks vmdk_fmt ((if hnew then [R_header] else []) ++ (if dnew then [R_descriptor] else [])) (stC pos hd fo fd b x)
  = (stC pos hd fo fd b (if dnew then vx_final else x), None).
Proof.
  intros H. destruct hnew; cbn [app run_callbacks f_rcomplete vmdk_fmt vmdk_rcomplete];
  (destruct dnew; cbn [run_callbacks f_rcomplete vmdk_fmt vmdk_rcomplete]; [|reflexivity]);
  destruct (H eq_refl) as [Hp Hl];
  rewrite (parse_real _ (vd 3 b)) by (try reflexivity; apply vd_data_full; assumption); reflexivity.
Qed.

(* A -> A or A -> B/C *)
Lemma step_A b dd x c :
  blen b < 64 -> is_prefix dd b = true -> (blen dd < 4 -> dd = b) -> provisional_ok x ->
  is_prefix (b ++ c) w = true ->
  exists s', eat_chunk vmdk_fmt (stA (blen b) b dd x) c = (s', None) /\ vinv (b ++ c) s'.
Proof.
  intros Hb Hdd Hsmall Hx Hw. pose proof ds_bounds as [B1 B2].
  rewrite eat_chunk_unfold by reflexivity. cbn zeta. cbn [stA i_pos i_next i_checks i_ext].
  change [(R_header, vh b); (R_descriptor, vd0 dd)] with (i_regs (stA (blen b) b dd x)).
  rewrite capture_A. rewrite (cap1_vh_incomplete b c Hb).
  set (dd' := if 4 <=? blen dd then dd else bslice 0 VMDK_DESC_MAX_SIZE (b ++ c)).
  assert (Hcap : cap1 c (blen b + flen c) (vd0 dd) = vd0 dd').
  { unfold dd'. destruct (4 <=? blen dd) eqn:E.
    - apply cap1_vd0_complete. lia.
    - assert (Hd : dd = b) by (apply Hsmall; lia). subst dd. apply cap1_vd0_incomplete. lia. }
  rewrite Hcap.
  change (f_post vmdk_fmt) with vmdk_post.
  match goal with |- context [vmdk_post ?st] => change st with (stA (blen b + flen c) (bslice 0 512 (b ++ c)) dd' x) end.
  assert (Hpos : blen b + flen c = blen (b ++ c)) by (rewrite flen_blen, blen_app; reflexivity).
  assert (Hdd' : is_prefix dd' (b ++ c) = true).
  { unfold dd'. destruct (4 <=? blen dd); [apply is_prefix_app_l; exact Hdd|apply is_prefix_btake]. }
  assert (Hdd'4 : blen dd' < 4 -> dd' = b ++ c).
  { unfold dd'. destruct (4 <=? blen dd) eqn:E; [lia|]. rewrite blen_bslice. change VMDK_DESC_MAX_SIZE with 1048575.
    intros H. apply bslice_0_all. lia. }
  destruct (blen (b ++ c) <? 64) eqn:E64.
  - (* still before the header is complete *)
    assert (Hhd : bslice 0 512 (b ++ c) = b ++ c) by (apply bslice_0_all; lia).
    rewrite Hhd. rewrite post_A_incomplete by lia.
    rewrite settle_done by reflexivity.
    unfold newly_complete, complete_ids, ids. cbn [stA i_regs filter map snd fst].
    rewrite !rcomplete_vh, !rcomplete_vd0.
    replace (64 <=? blen b) with false by lia. replace (64 <=? blen (b ++ c)) with false by lia.
    cbn [andb filter map].
    destruct (4 <=? blen dd) eqn:E4.
    + (* the provisional descriptor was parsed earlier *)
      assert (dd' = dd) as -> by (unfold dd'; try rewrite E4; reflexivity).
      rewrite ?E4. cbn [map r_id vd0 mem_nat Nat.eqb orb negb andb filter snd fst run_callbacks].
      eexists. split; [reflexivity|]. rewrite Hpos. apply VA; try assumption. lia.
    + cbn [map mem_nat negb]. rewrite andb_true_r.
      destruct (4 <=? blen dd') eqn:E4'.
      * cbn [filter map fst snd run_callbacks f_rcomplete vmdk_fmt vmdk_rcomplete].
        destruct (parse_provisional (blen b + flen c) (b ++ c) dd' x) as (x' & Hparse & Hx').
        { eapply is_prefix_trans; eassumption. } { lia. }
        rewrite Hparse. eexists. split; [reflexivity|]. rewrite Hpos. apply VA; try assumption. lia.
      * cbn [filter map run_callbacks]. eexists. split; [reflexivity|]. rewrite Hpos. apply VA; try assumption. lia.
  - (* this chunk completes the sparse header *)
    set (hd' := bslice 0 512 (b ++ c)).
    assert (Hhp : is_prefix hd' w = true) by (eapply is_prefix_trans; [apply (is_prefix_btake 512)|exact Hw]).
    assert (Hhl : 64 <= blen hd') by (unfold hd'; rewrite blen_bslice; lia).
    rewrite (post_A_complete _ hd' dd' x b Hhl Hhp ltac:(lia)).
    assert (Hpre : complete_ids (i_regs (stA (blen b) b dd x)) = if 4 <=? blen dd then [1%nat] else []).
    { unfold complete_ids, ids. cbn [stA i_regs filter map snd]. rewrite rcomplete_vh, rcomplete_vd0.
      replace (64 <=? blen b) with false by lia. destruct (4 <=? blen dd); reflexivity. }
    rewrite Hpre.
    destruct (gd =? VMDK_GD_AT_END) eqn:Egd.
    + unfold eat_fuel. rewrite (settle_step vmdk_fmt _ c _ _ R_footer [R_descriptor]) by reflexivity.
      cbn zeta. cbn [stC i_regs i_pos set_regs i_next i_fin i_checks i_ext]. rewrite capture_only_C, cap1_vf, cap1_vd.
      change (f_post vmdk_fmt) with vmdk_post.
      match goal with |- context [vmdk_post ?st] =>
        change st with (stC (blen b + flen c) hd' (blen b + flen c - flen (nlast 1536 ([] ++ c))) (nlast 1536 ([] ++ c)) (b ++ c) x) end.
      rewrite post_C by assumption. rewrite settle_done by reflexivity.
      unfold newly_complete. cbn [stC i_regs filter map snd fst].
      rewrite rcomplete_vh, rcomplete_vf, rcomplete_vd.
      replace (64 <=? blen hd') with true by lia. cbn [andb vh vd r_id].
      replace (negb (mem_nat 0 (if 4 <=? blen dd then [1%nat] else []))) with true by (destruct (4 <=? blen dd); reflexivity).
      replace (negb (mem_nat 3 (if 4 <=? blen dd then [1%nat] else []))) with true by (destruct (4 <=? blen dd); reflexivity).
      rewrite andb_true_r.
      match goal with |- context [run_callbacks vmdk_fmt ?names ?st] =>
        replace names with ((if true then [R_header] else []) ++ (if 512 + ds <=? blen (b ++ c) then [R_descriptor] else []))
          by (destruct (512 + ds <=? blen (b ++ c)); reflexivity) end.
      match goal with |- context [run_callbacks vmdk_fmt _ (stC ?p ?h ?fo ?fd ?bb ?xx)] =>
        pose proof (callbacks_C true (512 + ds <=? blen (b ++ c)) p h fo fd bb xx) as Hcb end.
      cbn [app] in Hcb. cbn [app]. rewrite Hcb by (intros H; split; [exact Hw|lia]).
      eexists. split; [reflexivity|]. rewrite Hpos. apply VC; try assumption; try lia.
      unfold ext_ok. destruct (512 + ds <=? blen (b ++ c)) eqn:Ec.
      * replace (blen (b ++ c) <? 512 + ds) with false by lia. reflexivity.
      * replace (blen (b ++ c) <? 512 + ds) with true by lia. exact Hx.
    + unfold eat_fuel. rewrite (settle_step vmdk_fmt _ c _ _ R_descriptor []) by reflexivity.
      cbn zeta. cbn [stB i_regs i_pos set_regs i_next i_fin i_checks i_ext]. rewrite capture_only_B, cap1_vd.
      change (f_post vmdk_fmt) with vmdk_post.
      match goal with |- context [vmdk_post ?st] => change st with (stB (blen b + flen c) hd' (b ++ c) x) end.
      rewrite post_B by assumption. rewrite settle_done by reflexivity.
      unfold newly_complete. cbn [stB i_regs filter map snd fst].
      rewrite rcomplete_vh, rcomplete_vd.
      replace (64 <=? blen hd') with true by lia. cbn [andb vh vd r_id].
      replace (negb (mem_nat 0 (if 4 <=? blen dd then [1%nat] else []))) with true by (destruct (4 <=? blen dd); reflexivity).
      replace (negb (mem_nat 2 (if 4 <=? blen dd then [1%nat] else []))) with true by (destruct (4 <=? blen dd); reflexivity).
      rewrite andb_true_r.
      match goal with |- context [run_callbacks vmdk_fmt ?names ?st] =>
        replace names with ((if true then [R_header] else []) ++ (if 512 + ds <=? blen (b ++ c) then [R_descriptor] else []))
          by (destruct (512 + ds <=? blen (b ++ c)); reflexivity) end.
      match goal with |- context [run_callbacks vmdk_fmt _ (stB ?p ?h ?bb ?xx)] =>
        pose proof (callbacks_B true (512 + ds <=? blen (b ++ c)) p h bb xx) as Hcb end.
      cbn [app] in Hcb. cbn [app]. rewrite Hcb by (intros H; split; [exact Hw|lia]).
      eexists. split; [reflexivity|]. rewrite Hpos. apply VB; try assumption; try lia.
      unfold ext_ok. destruct (512 + ds <=? blen (b ++ c)) eqn:Ec.
      * replace (blen (b ++ c) <? 512 + ds) with false by lia. reflexivity.
      * replace (blen (b ++ c) <? 512 + ds) with true by lia. exact Hx.
Qed.

Lemma ext_ok_step b c x :
  ext_ok b x ->
  ext_ok (b ++ c) (if (512 + ds <=? blen (b ++ c)) && negb (512 + ds <=? blen b) then vx_final else x).
Proof.
  unfold ext_ok. rewrite blen_app. intros H.
  destruct (512 + ds <=? blen b) eqn:E1; destruct (512 + ds <=? blen b + blen c) eqn:E2; cbn [andb negb].
  - replace (blen b + blen c <? 512 + ds) with false by lia. replace (blen b <? 512 + ds) with false in H by lia. exact H.
  - lia.
  - replace (blen b + blen c <? 512 + ds) with false by lia. reflexivity.
  - replace (blen b + blen c <? 512 + ds) with true by lia. replace (blen b <? 512 + ds) with true in H by lia. exact H.
Qed.

Lemma step_B b hd x c :
  64 <= blen b -> is_prefix hd w = true -> 64 <= blen hd -> (gd =? VMDK_GD_AT_END) = false -> ext_ok b x ->
  is_prefix (b ++ c) w = true ->
  exists s', eat_chunk vmdk_fmt (stB (blen b) hd b x) c = (s', None) /\ vinv (b ++ c) s'.
Proof.
  intros Hb Hhp Hhl Hgd Hx Hw.
  assert (Hpos : blen b + flen c = blen (b ++ c)) by (rewrite flen_blen, blen_app; reflexivity).
  rewrite eat_chunk_unfold by reflexivity. cbn zeta. cbn [stB i_pos i_next i_checks i_ext i_regs].
  rewrite capture_regs_all. cbn [map fst snd]. rewrite cap1_vh_complete by exact Hhl. rewrite cap1_vd.
  change (f_post vmdk_fmt) with vmdk_post.
  match goal with |- context [vmdk_post ?st] => change st with (stB (blen b + flen c) hd (b ++ c) x) end.
  rewrite post_B by assumption. rewrite settle_done by reflexivity.
  unfold newly_complete, complete_ids, ids. cbn [stB i_regs filter map snd fst].
  rewrite !rcomplete_vh, !rcomplete_vd. replace (64 <=? blen hd) with true by lia. cbn [filter map snd fst vh r_id].
  set (was := 512 + ds <=? blen b). set (now := 512 + ds <=? blen (b ++ c)).
  match goal with |- context [run_callbacks vmdk_fmt ?names ?st] =>
    replace names with (if now && negb was then [R_descriptor] else [])
      by (destruct was, now; reflexivity) end.
  match goal with |- context [run_callbacks vmdk_fmt _ (stB ?p ?h ?bb ?xx)] =>
    pose proof (callbacks_B false (now && negb was) p h bb xx) as Hcb end.
  cbn [app] in Hcb. rewrite Hcb by (intros H; split; [exact Hw|unfold now in H; lia]).
  eexists. split; [reflexivity|]. rewrite Hpos. apply VB; try assumption.
  - rewrite blen_app. lia.
  - apply ext_ok_step. exact Hx.
Qed.

Lemma step_C b hd fo fd x c :
  64 <= blen b -> is_prefix hd w = true -> 64 <= blen hd -> ext_ok b x ->
  is_prefix (b ++ c) w = true ->
  exists s', eat_chunk vmdk_fmt (stC (blen b) hd fo fd b x) c = (s', None) /\ vinv (b ++ c) s'.
Proof.
  intros Hb Hhp Hhl Hx Hw.
  assert (Hpos : blen b + flen c = blen (b ++ c)) by (rewrite flen_blen, blen_app; reflexivity).
  rewrite eat_chunk_unfold by reflexivity. cbn zeta. cbn [stC i_pos i_next i_checks i_ext i_regs].
  rewrite capture_regs_all. cbn [map fst snd]. rewrite cap1_vh_complete by exact Hhl. rewrite cap1_vd, cap1_vf.
  change (f_post vmdk_fmt) with vmdk_post.
  match goal with |- context [vmdk_post ?st] =>
    change st with (stC (blen b + flen c) hd (blen b + flen c - flen (nlast 1536 (fd ++ c))) (nlast 1536 (fd ++ c)) (b ++ c) x) end.
  rewrite post_C by assumption. rewrite settle_done by reflexivity.
  unfold newly_complete, complete_ids, ids. cbn [stC i_regs filter map snd fst].
  rewrite !rcomplete_vh, !rcomplete_vd, !rcomplete_vf. replace (64 <=? blen hd) with true by lia.
  cbn [filter map snd fst vh r_id andb].
  set (was := 512 + ds <=? blen b). set (now := 512 + ds <=? blen (b ++ c)).
  match goal with |- context [run_callbacks vmdk_fmt ?names ?st] =>
    replace names with (if now && negb was then [R_descriptor] else [])
      by (destruct was, now; reflexivity) end.
  match goal with |- context [run_callbacks vmdk_fmt _ (stC ?p ?h ?o ?d ?bb ?xx)] =>
    pose proof (callbacks_C false (now && negb was) p h o d bb xx) as Hcb end.
  cbn [app] in Hcb. rewrite Hcb by (intros H; split; [exact Hw|unfold now in H; lia]).
  eexists. split; [reflexivity|]. rewrite Hpos. apply VC; try assumption.
  - rewrite blen_app. lia.
  - apply ext_ok_step. exact Hx.
Qed.

(* one chunk preserves the invariant *)
Lemma vinv_step b s c :
  vinv b s -> is_prefix (b ++ c) w = true -> exists s', eat_chunk vmdk_fmt s c = (s', None) /\ vinv (b ++ c) s'.
Proof.
  intros [dd x H1 H2 H3 H4|hd x H1 H2 H3 H4 H5|hd fo fd x H1 H2 H3 H4] Hw.
  - apply step_A; assumption.
  - apply step_B; assumption.
  - apply step_C; assumption.
Qed.

Lemma is_prefix_app_inv b c : is_prefix (b ++ c) w = true -> is_prefix b w = true.
Proof. intros H. eapply is_prefix_trans; [|exact H]. unfold is_prefix. apply prefixb_app. Qed.

(* every chunking of a prefix of the image *)
Lemma vinv_all cs b s :
  vinv b s -> is_prefix (b ++ concat cs) w = true ->
  exists s', eat_all vmdk_fmt s cs = (s', None) /\ vinv (b ++ concat cs) s'.
Proof.
  revert b s. induction cs as [|c cs IH]; intros b s Hi Hw; cbn [eat_all concat] in *.
  - rewrite app_nil_r. exists s. split; [reflexivity|exact Hi].
  - rewrite app_assoc in Hw. destruct (vinv_step b s c Hi (is_prefix_app_inv _ _ Hw)) as (s1 & E1 & I1).
    rewrite E1. destruct (IH _ _ I1 Hw) as (s2 & E2 & I2). exists s2. rewrite app_assoc. split; assumption.
Qed.

(* ---------- virtual_size on the invariant states ---------- *)
Lemma vsize_provisional (s : ist vx) : provisional_ok (i_ext s) -> vmdk_vsize s = Ok 0%Z.
Proof.
  unfold provisional_ok, vmdk_vsize. intros H. rewrite H.
  destruct (desc_text_truthy (i_ext s)); reflexivity.
Qed.

Lemma vsize_final (s : ist vx) hd :
  i_ext s = vx_final -> rget R_header (i_regs s) = Some (vh hd) -> is_prefix hd w = true -> 64 <= blen hd ->
  vmdk_vsize s = Ok (Z.of_N (sectors * 512)).
Proof.
  intros He Hg Hp Hl. destruct vx_final_ok as [T1 T2]. destruct wf_parts as (_ & _ & _ & S & _).
  unfold vmdk_vsize, has_region, rhas, get_region. rewrite He, T1, T2, Hg. cbn [negb bind vh r_data].
  rewrite ntake_bslice. change VMDK_VS_SLICE with 44. rewrite (prefix_bslice hd w 0 44 Hp) by lia.
  assert (Hw : 64 <= blen w) by (apply is_prefix_blen in Hp; lia).
  rewrite unpack_ok by (rewrite blen_bslice; change (sf_size sf_vmdk_vs) with 44; lia). cbn [bind].
  unfold sint, sraw. cbn [sf_vmdk_vs sf_big sf_fields nth].
  rewrite (bslice_bslice 0 44 12 8 w) by (vm_compute; discriminate). rewrite N.add_0_l, S.
  rewrite (le_val_enc 8 sectors) by exact Hsec. reflexivity.
Qed.

Definition vmdk_size_at (b : bytes) : res Z :=
  if blen b <? 512 + ds then Ok 0%Z else Ok (Z.of_N (sectors * 512)).

Lemma vinv_vsize b s : vinv b s -> vmdk_vsize s = vmdk_size_at b /\ vmdk_vsize (Insp_Engine.finish s) = vmdk_size_at b.
Proof.
  pose proof ds_bounds as [B1 B2]. unfold vmdk_size_at.
  intros [dd x H1 H2 H3 H4|hd x H1 H2 H3 H4 H5|hd fo fd x H1 H2 H3 H4].
  - replace (blen b <? 512 + ds) with true by lia. split; apply vsize_provisional; exact H4.
  - unfold ext_ok in H5. destruct (blen b <? 512 + ds).
    + split; apply vsize_provisional; exact H5.
    + split; apply (vsize_final _ hd); try assumption; reflexivity.
  - unfold ext_ok in H4. destruct (blen b <? 512 + ds).
    + split; apply vsize_provisional; exact H4.
    + split; apply (vsize_final _ hd); try assumption; reflexivity.
Qed.
End VmdkImage.

(* ---------- the theorems ---------- *)
Lemma vmdk_feed_inv w sectors version desc_num cs :
  sectors < 2 ^ 64 -> desc_num < 2 ^ 64 -> wf_vmdk sectors version desc_num w = true ->
  is_prefix (concat cs) w = true ->
  exists s, feed F_vmdk cs = (I_vmdk s, None) /\ vinv w desc_num (concat cs) s.
Proof.
  intros Hs Hd Hwf Hp. unfold feed. change (init F_vmdk) with (I_vmdk (init_ist vmdk_fmt)). rewrite eat_list_vmdk.
  destruct (vinv_all w sectors version desc_num Hs Hd Hwf cs [] _ (vinv_init w desc_num) Hp) as (s & E & I).
  cbn [app] in *. rewrite E. exists s. split; [reflexivity|exact I].
Qed.

Lemma vsize_vmdk_prefix_lemma w sectors version desc_num cs :
  sectors < 2 ^ 64 -> desc_num < 2 ^ 64 -> wf_vmdk sectors version desc_num w = true ->
  is_prefix (concat cs) w = true ->
  quiet F_vmdk cs /\
  vsize_now F_vmdk cs = (if blen (concat cs) <? vmdk_known_at desc_num then Ok 0%Z else Ok (Z.of_N (sectors * 512))) /\
  vsize_end F_vmdk cs = (if blen (concat cs) <? vmdk_known_at desc_num then Ok 0%Z else Ok (Z.of_N (sectors * 512))).
Proof.
  intros Hs Hd Hwf Hp. destruct (vmdk_feed_inv w sectors version desc_num cs Hs Hd Hwf Hp) as (s & E & I).
  destruct (vinv_vsize w sectors version desc_num Hs Hd Hwf _ _ I) as [V1 V2].
  unfold quiet, vsize_now, vsize_end, run. fold (feed F_vmdk cs). rewrite E. cbn [fst snd finish virtual_size f_vsize vmdk_fmt].
  repeat split; assumption.
Qed.

Lemma vsize_vmdk_wellformed_lemma sectors version desc_num b cs :
  sectors < 2 ^ 64 -> desc_num < 2 ^ 64 -> wf_vmdk sectors version desc_num b = true -> concat cs = b ->
  quiet F_vmdk cs /\ vsize_end F_vmdk cs = Ok (Z.of_N (sectors * 512)).
Proof.
  intros Hs Hd Hwf Hc.
  destruct (vsize_vmdk_prefix_lemma b sectors version desc_num cs Hs Hd Hwf) as (Q & _ & V).
  { rewrite Hc. apply is_prefix_refl. }
  split; [exact Q|]. rewrite V, Hc.
  destruct (wf_parts b sectors version desc_num Hs Hd Hwf) as (_ & _ & _ & _ & _ & _ & _ & L & _).
  unfold vmdk_known_at. replace (blen b <? 512 + vmdk_desc_size desc_num) with false by lia. reflexivity.
Qed.

Lemma vsize_zero_while_unknown_vmdk_lemma w sectors version desc_num cs :
  sectors < 2 ^ 64 -> desc_num < 2 ^ 64 -> wf_vmdk sectors version desc_num w = true ->
  is_prefix (concat cs) w = true -> blen (concat cs) < vmdk_known_at desc_num ->
  quiet F_vmdk cs /\ vsize_now F_vmdk cs = Ok 0%Z /\ vsize_end F_vmdk cs = Ok 0%Z.
Proof.
  intros Hs Hd Hwf Hp Hl.
  destruct (vsize_vmdk_prefix_lemma w sectors version desc_num cs Hs Hd Hwf Hp) as (Q & V1 & V2).
  rewrite V1, V2. replace (blen (concat cs) <? vmdk_known_at desc_num) with true by lia. repeat split; assumption.
Qed.
