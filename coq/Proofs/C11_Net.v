(* Proofs/C11_Net.v — netaddr.IPNetwork(text): powers of two and masks, address values,
   characterisation of parse_ip_network. *)
From Coq Require Import String.
Require Import OV.Base.Bytes OV.Base.Py OV.Base.PyInt OV.Base.Str OV.Base.C11_Lib.
Require Import OV.Gen.C11_Netutils OV.Model.C11 OV.Model.C11_Spec OV.Proofs.C11_Split OV.Proofs.C11_V4 OV.Proofs.C11_V6 OV.Proofs.C11_Aton OV.Proofs.C11.
Open Scope N_scope.

(* ---------- x & (x - 1) == 0 <-> x is 0 or a power of two ---------- *)
Definition f_land (p : positive) : N := N.land (Npos p) (Pos.pred_N p).

Lemma f_land_xO q : f_land (xO q) = N.double (f_land q).
Proof. unfold f_land. destruct q as [r|r|]; reflexivity. Qed.

Lemma f_land_xI q : f_land (xI q) = Npos (xO q).
Proof.
  unfold f_land. cbn [Pos.pred_N N.land Pos.land].
  pose proof (N.land_diag (Npos q)) as D. cbn [N.land] in D. rewrite D. reflexivity.
Qed.

Lemma pos_pow2 p : f_land p = 0 <-> exists j, Npos p = 2 ^ j.
Proof.
  induction p as [q IH|q IH|].
  - rewrite f_land_xI. split; [discriminate|]. intros [j H]. exfalso.
    destruct (N.eq_dec j 0) as [->|Hj]; [cbn in H; lia|].
    replace j with (N.succ (j - 1)) in H by lia. rewrite N.pow_succ_r' in H. lia.
  - rewrite f_land_xO. split.
    + intros H. assert (H0 : f_land q = 0) by (destruct (f_land q); [reflexivity|discriminate]).
      apply IH in H0. destruct H0 as [j Hj]. exists (N.succ j). rewrite N.pow_succ_r'. lia.
    + intros [j H]. destruct (N.eq_dec j 0) as [->|Hj]; [cbn in H; lia|].
      replace j with (N.succ (j - 1)) in H by lia. rewrite N.pow_succ_r' in H.
      assert (Hq : Npos q = 2 ^ (j - 1)) by lia.
      destruct IH as [_ IH2]. rewrite IH2 by (exists (j - 1); exact Hq). reflexivity.
  - split; [intros _; exists 0; reflexivity|reflexivity].
Qed.

Lemma pow2_or_zero_iff x : 0 < x -> (pow2_or_zero x = true <-> exists j, x = 2 ^ j).
Proof.
  intros Hx. unfold pow2_or_zero. destruct x as [|p]; [lia|].
  replace (Npos p - 1) with (Pos.pred_N p) by (rewrite N.pos_pred_spec, N.sub_1_r; reflexivity).
  rewrite N.eqb_eq. apply pos_pow2.
Qed.

Lemma pow2_le_exp j w : 2 ^ j <= 2 ^ w -> j <= w.
Proof. intros H. apply (N.pow_le_mono_r_iff 2); [lia|exact H]. Qed.

Lemma lxor_ones m w : 0 < w -> m < 2 ^ w -> N.lxor m (2 ^ w - 1) = 2 ^ w - 1 - m.
Proof.
  intros Hw H. replace (2 ^ w - 1) with (N.ones w) by (rewrite N.ones_equiv; lia).
  change (N.lxor m (N.ones w)) with (N.lnot m w).
  assert (L : m + N.lnot m w = N.ones w).
  { apply N.add_lnot_diag_low. destruct m as [|p]; [cbn; exact Hw|].
    apply N.log2_lt_pow2; [lia|exact H]. }
  lia.
Qed.

Theorem mask_iff v6 m : m < 2 ^ ip_width v6 ->
  (is_netmask v6 m || is_hostmask m = true <-> mask_value (ip_width v6) m).
Proof.
  intros Hm. set (w := ip_width v6) in *. unfold is_netmask, is_hostmask, mask_value. fold w.
  assert (Hw : 0 < w) by (subst w; destruct v6; cbn; lia).
  rewrite orb_true_iff, (lxor_ones m w Hw Hm), !pow2_or_zero_iff by lia.
  assert (P : 0 < 2 ^ w) by (apply N.neq_0_lt_0, N.pow_nonzero; lia).
  split.
  - intros [[j Hj]|[j Hj]].
    + exists j. split; [apply pow2_le_exp; lia|left; lia].
    + exists j. split; [apply pow2_le_exp; lia|right; lia].
  - intros [j [Hj [H|H]]].
    + left. exists j. assert (2 ^ j <= 2 ^ w) by (apply N.pow_le_mono_r; lia). lia.
    + right. exists j. assert (0 < 2 ^ j) by (apply N.neq_0_lt_0, N.pow_nonzero; lia). lia.
Qed.

(* ---------- IPv4 address value ---------- *)
Lemma octet_val_dec n : octet_val (dec_of_N n) = n.
Proof. apply dval_dec_of_N. Qed.

Theorem pton4_value_iff s m : pton4_value s = Some m <-> quad_value s m.
Proof.
  unfold pton4_value, quad_value. split.
  - pose proof (join_split 46 s) as J.
    destruct (split_char 46 s) as [|a [|b [|c [|d [|e t]]]]]; try discriminate.
    destruct (octetb a && octetb b && octetb c && octetb d) eqn:E; [|discriminate]. intros [= <-].
    apply andb_true_iff in E. destruct E as [E Hd]. apply andb_true_iff in E. destruct E as [E Hc].
    apply andb_true_iff in E. destruct E as [Ha Hb].
    apply octetb_inv in Ha, Hb, Hc, Hd.
    destruct Ha as [na [? ->]], Hb as [nb [? ->]], Hc as [nc [? ->]], Hd as [nd [? ->]].
    exists na, nb, nc, nd. rewrite !octet_val_dec. repeat split; try assumption. symmetry. exact J.
  - intros [a [b [c [d [Ha [Hb [Hc [Hd [-> ->]]]]]]]]].
    unfold dots. rewrite split_join; [|discriminate|repeat constructor; apply dec_notin; reflexivity].
    rewrite !octetb_dec by assumption. cbn [andb]. rewrite !octet_val_dec. reflexivity.
Qed.

Lemma quad_value_quad s m : quad_value s m -> dotted_quad s.
Proof. intros [a [b [c [d [Ha [Hb [Hc [Hd [-> _]]]]]]]]]. exists a, b, c, d. repeat split; assumption. Qed.

Lemma quad_has_value s : dotted_quad s -> exists m, quad_value s m.
Proof. intros [a [b [c [d [Ha [Hb [Hc [Hd ->]]]]]]]]. eexists. exists a, b, c, d. repeat split; try assumption; reflexivity. Qed.

Lemma quad_value_bound s m : quad_value s m -> m < 2 ^ 32.
Proof. intros [a [b [c [d [Ha [Hb [Hc [Hd [_ ->]]]]]]]]]. change (2 ^ 32) with 4294967296. lia. Qed.

(* the three pre-checks pass on a dotted quad *)
Lemma quad_checks s : dotted_quad s ->
  existsb (N.eqb 58) s = false /\ existsb leading_zero_part (split_char 46 s) = false /\ cstr_ok s = true.
Proof.
  intros Q. pose proof (quad_chars s Q) as Hc. repeat split.
  - apply existsb_false_forallb. revert Hc. apply forallb_impl. intros c. unfold quad_char, ascii_digit. lia.
  - destruct Q as [a [b [c [d [Ha [Hb [Hc' [Hd ->]]]]]]]].
    unfold dots. rewrite split_join; [|discriminate|repeat constructor; apply dec_notin; reflexivity].
    cbn [existsb]. rewrite !no_leading_zero_dec by assumption. reflexivity.
  - unfold cstr_ok. revert Hc. apply forallb_impl. intros c. unfold quad_char, ascii_digit, cstr_char_ok. lia.
Qed.

Lemma str_to_int4_iff s m : str_to_int false s = PVal m <-> quad_value s m.
Proof.
  unfold str_to_int. split.
  - destruct (existsb (N.eqb 58) s); [discriminate|].
    destruct (existsb leading_zero_part (split_char 46 s)); [discriminate|].
    destruct (cstr_ok s); cbn [negb]; [|discriminate].
    destruct (pton4_value s) as [v|] eqn:E; [|discriminate]. intros [= <-]. apply pton4_value_iff. exact E.
  - intros Q. destruct (quad_checks s (quad_value_quad s m Q)) as [-> [-> ->]]. cbn [negb].
    apply pton4_value_iff in Q. rewrite Q. reflexivity.
Qed.

(* ---------- IPv6 address value: defined exactly where the recogniser accepts, and below 2^128 ---------- *)
Definition small16 (u : N) : Prop := u < 65536.

Lemma hex_digit_val_lt c : is_hex c = true -> hex_digit_val c < 16.
Proof. unfold is_hex, hex_digit_val. intros H. destruct (c <=? 57) eqn:E1; [lia|]. destruct (c <=? 70) eqn:E2; lia. Qed.

Lemma hexval_small f : h16b f = true -> small16 (hexval f).
Proof.
  unfold h16b, small16, hexval. destruct f as [|a [|b [|c [|d [|e t]]]]]; try discriminate; cbn [length forallb radix_val];
    intros H; repeat (apply andb_true_iff in H; destruct H as [? H]);
    repeat match goal with X : is_hex _ = true |- _ => apply hex_digit_val_lt in X end; try lia.
Qed.

Lemma units_hv_spec fs : match units_hv fs with
                         | Some us => units_h fs = Some (length us) /\ Forall small16 us
                         | None => units_h fs = None
                         end.
Proof.
  induction fs as [|f t IH]; cbn [units_hv units_h]; [split; [reflexivity|constructor]|].
  destruct (h16b f) eqn:E; [|reflexivity].
  destruct (units_hv t) as [us|]; cbn [option_map].
  - destruct IH as [-> F]. cbn [option_map length]. split; [reflexivity|constructor; [apply hexval_small, E|exact F]].
  - rewrite IH. reflexivity.
Qed.

Lemma pton4_value_b f : match pton4_value f with Some v => pton4b f = true /\ v < 2 ^ 32 | None => pton4b f = false end.
Proof.
  destruct (pton4_value f) as [v|] eqn:E.
  - apply pton4_value_iff in E. split; [apply pton4b_iff, (quad_value_quad _ _ E)|apply (quad_value_bound _ _ E)].
  - destruct (pton4b f) eqn:P; [|reflexivity]. apply pton4b_iff, quad_has_value in P. destruct P as [m Q].
    apply pton4_value_iff in Q. congruence.
Qed.

Lemma units_v_spec fs : match units_v fs with
                        | Some us => units fs = Some (length us) /\ Forall small16 us
                        | None => units fs = None
                        end.
Proof.
  induction fs as [|f t IH]; [split; [reflexivity|constructor]|].
  destruct t as [|f2 t2].
  - cbn [units_v units]. destruct (h16b f) eqn:E.
    + split; [reflexivity|constructor; [apply hexval_small, E|constructor]].
    + pose proof (pton4_value_b f) as P. destruct (pton4_value f) as [v|].
      * destruct P as [-> Hv]. split; [reflexivity|]. change (2 ^ 32) with 4294967296 in Hv.
        constructor; [|constructor; [|constructor]]; unfold small16.
        -- apply N.div_lt_upper_bound; lia.
        -- apply N.mod_upper_bound. lia.
      * rewrite P. reflexivity.
  - change (units_v (f :: f2 :: t2)) with (if h16b f then option_map (cons (hexval f)) (units_v (f2 :: t2)) else None).
    change (units (f :: f2 :: t2)) with (if h16b f then option_map S (units (f2 :: t2)) else None).
    destruct (h16b f) eqn:E; [|reflexivity].
    destruct (units_v (f2 :: t2)) as [us|]; cbn [option_map].
    + destruct IH as [-> F]. cbn [option_map length]. split; [reflexivity|constructor; [apply hexval_small, E|exact F]].
    + rewrite IH. reflexivity.
Qed.

Lemma tail_units_v_spec r : match tail_units_v r with
                            | Some us => tail_units r = Some (length us) /\ Forall small16 us
                            | None => tail_units r = None
                            end.
Proof.
  unfold tail_units_v, tail_units. destruct r as [|f t]; [reflexivity|].
  destruct f as [|c f'].
  - destruct t as [|f2 t2]; [split; [reflexivity|constructor]|]. apply units_v_spec.
  - apply units_v_spec.
Qed.

Lemma pton6_fields_v_spec s' : match pton6_fields_v s' with
                               | Some us => pton6_fields s' = true /\ length us = 8%nat /\ Forall small16 us
                               | None => pton6_fields s' = false
                               end.
Proof.
  unfold pton6_fields_v, pton6_fields. destruct (cut_empty (split_char 58 s')) as [[l0 r0]|].
  - pose proof (units_hv_spec l0) as HL. pose proof (tail_units_v_spec r0) as HR.
    destruct (units_hv l0) as [a|]; [|rewrite HL; reflexivity]. destruct HL as [-> Fa].
    destruct (tail_units_v r0) as [b|]; [|rewrite HR; reflexivity]. destruct HR as [-> Fb].
    destruct (length a + length b <=? 7)%nat eqn:E; [|reflexivity]. apply Nat.leb_le in E.
    split; [reflexivity|]. split.
    + rewrite !app_length, repeat_length. lia.
    + apply Forall_app. split; [exact Fa|]. apply Forall_app. split; [|exact Fb].
      apply Forall_forall. intros x Hx. apply repeat_spec in Hx. subst x. unfold small16. lia.
  - pose proof (units_v_spec (split_char 58 s')) as H.
    destruct (units_v (split_char 58 s')) as [us|]; [|rewrite H; reflexivity]. destruct H as [-> F].
    destruct (Nat.eqb (length us) 8) eqn:E; [|reflexivity]. apply Nat.eqb_eq in E.
    split; [reflexivity|]. split; assumption.
Qed.

Lemma pton6_units_spec s : match pton6_units s with
                           | Some us => pton6b s = true /\ length us = 8%nat /\ Forall small16 us
                           | None => pton6b s = false
                           end.
Proof.
  unfold pton6_units, pton6b. destruct s as [|c t]; [reflexivity|].
  destruct (c =? 58); [|apply pton6_fields_v_spec].
  destruct t as [|c2 t2]; [reflexivity|]. destruct (c2 =? 58); [apply pton6_fields_v_spec|reflexivity].
Qed.

Lemma fold_units_bound us acc k : Forall small16 us -> acc < 65536 ^ k ->
  fold_left (fun a u => a * 65536 + u) us acc < 65536 ^ (k + N.of_nat (length us)).
Proof.
  revert acc k. induction us as [|u t IH]; intros acc k F Ha; cbn [fold_left length].
  - rewrite N.add_0_r. exact Ha.
  - inversion F as [|? ? Hu Ft]; subst. unfold small16 in Hu.
    replace (k + N.of_nat (S (length t))) with (N.succ k + N.of_nat (length t)) by lia.
    apply IH; [exact Ft|]. rewrite N.pow_succ_r'. lia.
Qed.

Lemma pton6_value_text s : (exists m, pton6_value s = Some m) <-> ipv6_text s.
Proof.
  rewrite <- pton6b_iff. unfold pton6_value. pose proof (pton6_units_spec s) as H.
  destruct (pton6_units s) as [us|]; cbn [option_map].
  - destruct H as [-> _]. split; [reflexivity|intros _; eexists; reflexivity].
  - rewrite H. split; [intros [m X]; discriminate|discriminate].
Qed.

Lemma pton6_value_bound s m : pton6_value s = Some m -> m < 2 ^ 128.
Proof.
  unfold pton6_value. pose proof (pton6_units_spec s) as H.
  destruct (pton6_units s) as [us|]; cbn [option_map]; [|discriminate]. destruct H as [_ [L F]]. intros [= <-].
  pose proof (fold_units_bound us 0 0 F) as B. rewrite L in B.
  replace (65536 ^ (0 + N.of_nat 8)) with (2 ^ 128) in B by (vm_compute; reflexivity).
  apply B. cbn. lia.
Qed.

(* ---------- the units of an IPv6 text, declaratively ---------- *)
Definition field_units (fs : list str) : list N :=
  flat_map (fun f => if h16b f then [hexval f]
                     else match pton4_value f with Some m => quad_units m | None => [] end) fs.

Lemma field_units_h16 g : Forall h16 g -> field_units g = map hexval g.
Proof.
  induction 1 as [|f t Hf _ IH]; [reflexivity|]. unfold field_units in *. cbn [flat_map map].
  apply h16b_iff in Hf. rewrite Hf, IH. reflexivity.
Qed.

Lemma field_units_app a b : field_units (a ++ b) = field_units a ++ field_units b.
Proof. unfold field_units. apply flat_map_app. Qed.

Lemma field_units_quad q m : quad_value q m -> field_units [q] = quad_units m.
Proof.
  intros Q. unfold field_units. cbn [flat_map]. rewrite (quad_not_h16 q (quad_value_quad q m Q)).
  apply pton4_value_iff in Q. rewrite Q. apply app_nil_r.
Qed.

Lemma units_hv_h16 l : Forall h16 l -> units_hv l = Some (map hexval l).
Proof.
  induction 1 as [|f t Hf _ IH]; [reflexivity|]. cbn [units_hv map]. apply h16b_iff in Hf. rewrite Hf, IH. reflexivity.
Qed.

Lemma units_v_field fs us : units_v fs = Some us -> us = field_units fs.
Proof.
  revert us. induction fs as [|f t IH]; intros us H.
  - injection H as <-. reflexivity.
  - destruct t as [|f2 t2].
    + cbn [units_v] in H. unfold field_units. cbn [flat_map]. destruct (h16b f).
      * injection H as <-. reflexivity.
      * destruct (pton4_value f); [injection H as <-; symmetry; apply app_nil_r|discriminate].
    + change (units_v (f :: f2 :: t2)) with (if h16b f then option_map (cons (hexval f)) (units_v (f2 :: t2)) else None) in H.
      destruct (h16b f) eqn:E; [|discriminate]. destruct (units_v (f2 :: t2)) as [us'|]; [|discriminate].
      injection H as <-. rewrite (IH us' eq_refl). unfold field_units. cbn [flat_map]. rewrite E. reflexivity.
Qed.

Lemma units_v_of_shape R n : tail_shape R n -> units_v R = Some (field_units R) /\ length (field_units R) = n.
Proof.
  intros H. apply units_spec in H. pose proof (units_v_spec R) as S.
  destruct (units_v R) as [us|] eqn:E; [|congruence]. destruct S as [S _].
  rewrite (units_v_field R us E) in *. split; [reflexivity|congruence].
Qed.

Lemma tail_units_v_of R n : tail_shape R n ->
  tail_units_v (match R with [] => [[]] | _ => R end) = Some (field_units R) /\ length (field_units R) = n.
Proof.
  intros H. destruct R as [|x t].
  - destruct H as [[_ ->]|[g [q [E _]]]]; [split; reflexivity|destruct g; discriminate].
  - pose proof (tail_shape_plain _ _ H) as P. inversion P as [|? ? [Hx _] _]; subst.
    unfold tail_units_v. destruct x as [|c x']; [congruence|].
    destruct (units_v_of_shape _ _ H) as [U L]. split; [destruct t; exact U|exact L].
Qed.

Lemma pton6_units_nocolon c t : c <> 58 -> pton6_units (c :: t) = pton6_fields_v (c :: t).
Proof. intros H. unfold pton6_units. apply N.eqb_neq in H. rewrite H. reflexivity. Qed.

Lemma pton6_units_full R : tail_shape R 8 -> pton6_units (colons R) = Some (field_units R).
Proof.
  intros H. pose proof (tail_shape_plain _ _ H) as P.
  destruct R as [|x R'].
  { destruct H as [[_ H]|[g [q [E _]]]]; [discriminate|destruct g; discriminate]. }
  inversion P as [|? ? Px _]; subst.
  destruct (colons_head_plain x R' Px) as [c [t [E Hc]]]. rewrite E.
  rewrite pton6_units_nocolon by exact Hc. rewrite <- E.
  unfold pton6_fields_v. rewrite (split_colons_tail _ P).
  rewrite cut_empty_none by (apply plain_nonempty, P).
  destruct (units_v_of_shape _ _ H) as [-> L]. rewrite L. reflexivity.
Qed.

Lemma pton6_units_compressed l R n : Forall h16 l -> tail_shape R n -> (length l + n <= 7)%nat ->
  pton6_units (colons l ++ [58; 58] ++ colons R) = Some (map hexval l ++ repeat 0 (8 - length l - n) ++ field_units R).
Proof.
  intros Hl HR Hn. pose proof (tail_shape_plain _ _ HR) as PR. pose proof (Forall_h16_plain _ Hl) as Pl.
  destruct (tail_units_v_of _ _ HR) as [TU TL].
  destruct l as [|x l'].
  - cbn [colons join app]. unfold pton6_units. cbn [N.eqb Pos.eqb].
    unfold pton6_fields_v. rewrite split_cons_sep. cbn [cut_empty units_hv].
    rewrite (split_colons_tail _ PR), TU, TL. cbn [length map app] in *.
    replace (0 + n <=? 7)%nat with true by (symmetry; apply Nat.leb_le; lia). reflexivity.
  - pose proof (Forall_inv Pl) as Px.
    destruct (colons_head_plain x l' Px) as [c [t [E Hc]]].
    rewrite E. cbn [app]. rewrite pton6_units_nocolon by exact Hc.
    change (c :: t ++ 58 :: 58 :: colons R) with ((c :: t) ++ 58 :: (58 :: colons R)). rewrite <- E.
    unfold pton6_fields_v. rewrite split_app, split_cons_sep.
    unfold colons at 1. rewrite split_join by (discriminate || apply plain_nocolon, Pl).
    rewrite cut_empty_some by (apply plain_nonempty, Pl).
    rewrite (units_hv_h16 _ Hl), (split_colons_tail _ PR), TU, TL, map_length.
    replace (length (x :: l') + n <=? 7)%nat with true by (symmetry; apply Nat.leb_le; exact Hn). reflexivity.
Qed.

Lemma ipv6_units_text s us : ipv6_units s us -> ipv6_text s.
Proof.
  intros [[g [Hg [L [-> _]]]]|[[g [q [m [Hg [L [Q [-> _]]]]]]]|[[l [r [Hl [Hr [Hn [-> _]]]]]]|[l [r [q [m [Hl [Hr [Q [Hn [-> _]]]]]]]]]]]].
  - left. exists g. repeat split; assumption.
  - right. left. exists g, q. repeat split; try assumption. exact (quad_value_quad _ _ Q).
  - right. right. left. exists l, r. repeat split; assumption.
  - right. right. right. exists l, r, q. repeat split; try assumption. exact (quad_value_quad _ _ Q).
Qed.

Lemma ipv6_units_complete s us : ipv6_units s us -> pton6_units s = Some us.
Proof.
  intros [[g [Hg [L [-> ->]]]]|[[g [q [m [Hg [L [Q [-> ->]]]]]]]|[[l [r [Hl [Hr [Hn [-> ->]]]]]]|[l [r [q [m [Hl [Hr [Q [Hn [-> ->]]]]]]]]]]]].
  - rewrite pton6_units_full by (left; split; [exact Hg|symmetry; exact L]). rewrite field_units_h16 by exact Hg. reflexivity.
  - rewrite pton6_units_full by (right; exists g, q; split; [reflexivity|]; split; [exact Hg|]; split; [exact (quad_value_quad _ _ Q)|lia]).
    rewrite field_units_app, field_units_h16, (field_units_quad q m Q) by exact Hg. reflexivity.
  - rewrite (pton6_units_compressed l r (length r)); [| exact Hl | left; split; [exact Hr|reflexivity] | exact Hn].
    rewrite field_units_h16 by exact Hr. reflexivity.
  - rewrite (pton6_units_compressed l (r ++ [q]) (length r + 2)); [| exact Hl | right; exists r, q; split; [reflexivity|]; split; [exact Hr|]; split; [exact (quad_value_quad _ _ Q)|reflexivity] | lia].
    rewrite field_units_app, field_units_h16, (field_units_quad q m Q) by exact Hr.
    replace (8 - length l - (length r + 2))%nat with (6 - length l - length r)%nat by lia. reflexivity.
Qed.

Lemma ipv6_text_units s : ipv6_text s -> exists us, ipv6_units s us.
Proof.
  intros [[g [Hg [L ->]]]|[[g [q [Hg [L [Q ->]]]]]|[[l [r [Hl [Hr [Hn ->]]]]]|[l [r [q [Hl [Hr [Q [Hn ->]]]]]]]]]].
  - eexists. left. exists g. repeat split; try assumption.
  - destruct (quad_has_value q Q) as [m Qm]. eexists. right. left. exists g, q, m. repeat split; try assumption.
  - eexists. right. right. left. exists l, r. repeat split; try assumption.
  - destruct (quad_has_value q Q) as [m Qm]. eexists. right. right. right. exists l, r, q, m. repeat split; try assumption.
Qed.

Theorem pton6_units_iff s us : pton6_units s = Some us <-> ipv6_units s us.
Proof.
  split; [|apply ipv6_units_complete].
  intros H. assert (T : ipv6_text s).
  { apply pton6b_iff. pose proof (pton6_units_spec s) as S. rewrite H in S. apply S. }
  destruct (ipv6_text_units s T) as [us' U]. pose proof (ipv6_units_complete s us' U) as C. congruence.
Qed.

Theorem pton6_value_iff s m : pton6_value s = Some m <-> ipv6_value s m.
Proof.
  unfold pton6_value, ipv6_value, units_to_N. split.
  - destruct (pton6_units s) as [us|] eqn:E; [|discriminate]. intros [= <-]. exists us. split; [apply pton6_units_iff; exact E|reflexivity].
  - intros [us [U ->]]. apply pton6_units_iff in U. rewrite U. reflexivity.
Qed.

Lemma str_to_int6_iff s m : str_to_int true s = PVal m <-> pton6_value s = Some m.
Proof.
  unfold str_to_int. split.
  - destruct (cstr_ok s); cbn [negb]; [|discriminate]. destruct (pton6_value s); [intros [= ->]; reflexivity|discriminate].
  - intros H. assert (T : ipv6_text s) by (apply pton6_value_text; exists m; exact H).
    pose proof (v6_chars_cstr s (ipv6_text_chars s T)) as C. rewrite C. cbn [negb]. rewrite H. reflexivity.
Qed.

(* ---------- IPAddress(text, version, INET_PTON) ---------- *)
Lemma addr_value_bound v6 s m : addr_value v6 s m -> m < 2 ^ ip_width v6.
Proof. destruct v6; cbn [addr_value ip_width]; [intros H; apply pton6_value_iff in H; revert H; apply pton6_value_bound|apply quad_value_bound]. Qed.

Lemma addr_value_text v6 s : (exists m, addr_value v6 s m) <-> addr_text v6 s.
Proof.
  destruct v6; cbn [addr_value addr_text]; [rewrite <- pton6_value_text; split; intros [m H]; exists m; apply pton6_value_iff; exact H|].
  split; [intros [m H]; exact (quad_value_quad _ _ H)|apply quad_has_value].
Qed.

Lemma str_to_int_iff v6 s m : str_to_int v6 s = PVal m <-> addr_value v6 s m.
Proof. destruct v6; [cbn [addr_value]; rewrite <- pton6_value_iff; apply str_to_int6_iff|apply str_to_int4_iff]. Qed.

Lemma addr_text_no_slash v6 s : addr_text v6 s -> ~ In 47 s.
Proof.
  destruct v6; cbn [addr_text]; intros H Hin.
  - apply ipv6_text_chars in H. rewrite forallb_forall in H. specialize (H _ Hin). discriminate.
  - apply quad_chars in H. rewrite forallb_forall in H. specialize (H _ Hin). discriminate.
Qed.

Lemma ipaddress_of_iff v6 s m : ipaddress_of v6 s = PVal m <-> addr_value v6 s m.
Proof.
  unfold ipaddress_of. destruct (existsb (N.eqb 47) s) eqn:E.
  - apply existsb_eqb_In in E. split; [discriminate|]. intros H. exfalso.
    apply (addr_text_no_slash v6 s); [apply addr_value_text; exists m; exact H|exact E].
  - apply str_to_int_iff.
Qed.

Lemma ipaddress_of_outcomes v6 s :
  (exists m, ipaddress_of v6 s = PVal m) \/ ipaddress_of v6 s = PRaise AAddrFormatError \/ ipaddress_of v6 s = PRaise AValueError.
Proof.
  unfold ipaddress_of, str_to_int. destruct (existsb (N.eqb 47) s); [right; right; reflexivity|].
  destruct v6.
  - destruct (cstr_ok s); cbn [negb]; [|right; right; reflexivity].
    destruct (pton6_value s); [left; eexists; reflexivity|right; left; reflexivity].
  - destruct (existsb (N.eqb 58) s); [right; left; reflexivity|].
    destruct (existsb leading_zero_part (split_char 46 s)); [right; left; reflexivity|].
    destruct (cstr_ok s); cbn [negb]; [|right; right; reflexivity].
    destruct (pton4_value s); [left; eexists; reflexivity|right; left; reflexivity].
Qed.

(* ---------- addr.split('/', 1) ---------- *)
Lemma split_first_none c s : ~ In c s -> split_first c s = (s, None).
Proof.
  induction s as [|x t IH]; intros H; cbn [split_first]; [reflexivity|].
  destruct (x =? c) eqn:E; [apply N.eqb_eq in E; subst; exfalso; apply H; left; reflexivity|].
  rewrite IH by (intros Hin; apply H; right; exact Hin). reflexivity.
Qed.

Lemma split_first_some c a p : ~ In c a -> split_first c (a ++ c :: p) = (a, Some p).
Proof.
  induction a as [|x t IH]; intros H; cbn [split_first app]; [rewrite N.eqb_refl; reflexivity|].
  destruct (x =? c) eqn:E; [apply N.eqb_eq in E; subst; exfalso; apply H; left; reflexivity|].
  rewrite IH by (intros Hin; apply H; right; exact Hin). reflexivity.
Qed.

Lemma split_first_inv c s a o : split_first c s = (a, o) ->
  ~ In c a /\ match o with None => s = a | Some p => s = a ++ c :: p end.
Proof.
  revert a o. induction s as [|x t IH]; intros a o H; cbn [split_first] in H.
  - injection H as <- <-. split; [intros []|reflexivity].
  - destruct (x =? c) eqn:E.
    + injection H as <- <-. apply N.eqb_eq in E. subst. split; [intros []|reflexivity].
    + destruct (split_first c t) as [a' o'] eqn:S. injection H as <- <-.
      destruct (IH a' o' eq_refl) as [Hn Ho]. split.
      * intros [Hx|Hin]; [apply N.eqb_neq in E; congruence|exact (Hn Hin)].
      * destruct o'; cbn [app]; f_equal; exact Ho.
Qed.

(* ---------- parse_ip_network ---------- *)
Lemma prefix_branch v6 p :
  match py_int_str p with
  | Some z => if (0 <=? z)%Z && (z <=? Z.of_N (ip_width v6))%Z then AOk true else ARaise AAddrFormatError
  | None => match ipaddress_of v6 p with
            | PRaise e => ARaise e
            | PVal m => if is_netmask v6 m || is_hostmask m then AOk true else ARaise AAddrFormatError
            end
  end = AOk true <-> prefix_text v6 p.
Proof.
  unfold prefix_text. destruct (py_int_str p) as [z|].
  - destruct ((0 <=? z)%Z && (z <=? Z.of_N (ip_width v6))%Z) eqn:E; split.
    + intros _. left. exists z. split; [reflexivity|lia].
    + reflexivity.
    + discriminate.
    + intros [[z' [[= <-] H]]|[H _]]; [lia|discriminate].
  - destruct (ipaddress_of v6 p) as [m|e] eqn:EA.
    + apply ipaddress_of_iff in EA. pose proof (addr_value_bound v6 p m EA) as B.
      destruct (is_netmask v6 m || is_hostmask m) eqn:EM; split.
      * intros _. right. split; [reflexivity|]. exists m. split; [exact EA|]. apply mask_iff; assumption.
      * reflexivity.
      * discriminate.
      * intros [[z [H _]]|[_ [m' [H' M]]]]; [discriminate|]. exfalso.
        assert (m' = m).
        { destruct v6; cbn [addr_value] in *; [apply pton6_value_iff in H', EA; congruence|].
          apply pton4_value_iff in H', EA. congruence. }
        subst m'. apply (mask_iff v6 m B) in M. congruence.
    + split; [discriminate|]. intros [[z [H _]]|[_ [m [H _]]]]; [discriminate|].
      apply ipaddress_of_iff in H. congruence.
Qed.

Theorem parse_ip_network_iff v6 s : parse_ip_network v6 s = AOk true <-> network_text v6 s.
Proof.
  unfold parse_ip_network, network_text. split.
  - destruct (split_first 47 s) as [a o] eqn:S. apply split_first_inv in S. destruct S as [Hn Ho].
    destruct (ipaddress_of v6 a) as [m|e] eqn:EA; [|discriminate].
    assert (T : addr_text v6 a) by (apply addr_value_text; exists m; apply ipaddress_of_iff; exact EA).
    destruct o as [p|].
    + intros H. apply prefix_branch in H. exists a. split; [exact T|]. right. exists p. split; assumption.
    + intros _. exists a. split; [exact T|left; exact Ho].
  - intros [a [T [->|[p [-> P]]]]]; pose proof (addr_text_no_slash v6 a T) as Hn.
    + rewrite (split_first_none 47 a Hn). apply addr_value_text in T. destruct T as [m T].
      apply ipaddress_of_iff in T. rewrite T. reflexivity.
    + rewrite (split_first_some 47 a p Hn). apply addr_value_text in T. destruct T as [m T].
      apply ipaddress_of_iff in T. rewrite T. apply prefix_branch. exact P.
Qed.

Lemma parse_ip_network_outcomes v6 s :
  parse_ip_network v6 s = AOk true \/ parse_ip_network v6 s = ARaise AAddrFormatError \/ parse_ip_network v6 s = ARaise AValueError.
Proof.
  unfold parse_ip_network. destruct (split_first 47 s) as [a o].
  destruct (ipaddress_of_outcomes v6 a) as [[m ->]|[->| ->]]; [|right; left; reflexivity|right; right; reflexivity].
  destruct o as [p|]; [|left; reflexivity].
  destruct (py_int_str p) as [z|].
  - destruct ((0 <=? z)%Z && (z <=? Z.of_N (ip_width v6))%Z); [left|right; left]; reflexivity.
  - destruct (ipaddress_of_outcomes v6 p) as [[m' ->]|[->| ->]]; [|right; left; reflexivity|right; right; reflexivity].
    destruct (is_netmask v6 m' || is_hostmask m'); [left|right; left]; reflexivity.
Qed.

(* an IPv6 address text in front makes the IPv4 attempt fail with AddrFormatError *)
Lemma ipv6_text_has_colon a : ipv6_text a -> In 58 a.
Proof.
  intros H. destruct (in_dec N.eq_dec 58 a) as [Hin|Hn]; [exact Hin|]. exfalso.
  apply pton6b_iff in H. unfold pton6b in H. destruct a as [|c t]; [discriminate|].
  destruct (c =? 58) eqn:E; [apply N.eqb_eq in E; subst; apply Hn; left; reflexivity|].
  unfold pton6_fields in H. rewrite (split_notin 58 _ Hn) in H. cbn [cut_empty units] in H.
  destruct (h16b (c :: t)); [discriminate|]. destruct (pton4b (c :: t)); discriminate.
Qed.

Lemma parse4_on_v6 s : network_text true s -> parse_ip_network false s = ARaise AAddrFormatError.
Proof.
  intros [a [T E]]. cbn [addr_text] in T. pose proof (addr_text_no_slash true a T) as Hn.
  pose proof (ipv6_text_has_colon a T) as Hc. apply existsb_eqb_In in Hc.
  assert (IA : ipaddress_of false a = PRaise AAddrFormatError).
  { unfold ipaddress_of, str_to_int.
    replace (existsb (N.eqb 47) a) with false by (symmetry; destruct (existsb (N.eqb 47) a) eqn:X; [apply existsb_eqb_In in X; contradiction|reflexivity]).
    rewrite Hc. reflexivity. }
  unfold parse_ip_network. destruct E as [->|[p [-> _]]].
  - rewrite (split_first_none 47 a Hn), IA. reflexivity.
  - rewrite (split_first_some 47 a p Hn), IA. reflexivity.
Qed.

Theorem ipnetwork_iff s : ipnetwork s = AOk true <-> network_text false s \/ network_text true s.
Proof.
  unfold ipnetwork. rewrite <- !parse_ip_network_iff. split.
  - destruct (parse_ip_network false s) as [b|e] eqn:E4.
    + intros ->. left. reflexivity.
    + destruct e; try discriminate. intros H. right. exact H.
  - intros [H|H]; [rewrite H; reflexivity|].
    apply parse_ip_network_iff in H. rewrite (parse4_on_v6 s H). apply parse_ip_network_iff. exact H.
Qed.

Lemma ipnetwork_contract s : net_contract (ipnetwork s) = true.
Proof.
  unfold ipnetwork. destruct (parse_ip_network_outcomes false s) as [->|[->| ->]]; try reflexivity.
  destruct (parse_ip_network_outcomes true s) as [->|[->| ->]]; reflexivity.
Qed.

Lemma ipnetwork6_contract s : net_contract (ipnetwork6 s) = true.
Proof. unfold ipnetwork6. destruct (parse_ip_network_outcomes true s) as [->|[->| ->]]; reflexivity. Qed.

Lemma ipnetwork_bool s b : ipnetwork s = AOk b -> b = true.
Proof.
  unfold ipnetwork. destruct (parse_ip_network_outcomes false s) as [->|[->| ->]]; try congruence.
  destruct (parse_ip_network_outcomes true s) as [->|[->| ->]]; congruence.
Qed.

(* ---------- a prefix text is not empty and does not start with '/' ---------- *)
Lemma ilstrip_snoc x c : int_space c = false -> exists y, ilstrip (x ++ [c]) = y ++ [c].
Proof.
  intros Hc. induction x as [|d t IH]; cbn [app ilstrip].
  - rewrite Hc. exists []. reflexivity.
  - destruct (int_space d); [exact IH|]. exists (d :: t). reflexivity.
Qed.

Lemma py_int_slash m : py_int (47 :: m) = None.
Proof.
  unfold py_int, istrip, irstrip.
  assert (S47 : int_space 47 = false) by (vm_compute; reflexivity).
  cbn [ilstrip]. rewrite S47. cbn [rev].
  destruct (ilstrip_snoc (rev m) 47 S47) as [y ->]. rewrite rev_app_distr. cbn [rev app].
  cbn [N.eqb Pos.eqb]. cbn [digits_us N.eqb Pos.eqb].
  replace (digit_val 47) with (@None N) by (vm_compute; reflexivity). reflexivity.
Qed.

Lemma prefix_text_head v6 p : prefix_text v6 p -> p <> [] /\ forall m, p <> 47 :: m.
Proof.
  intros [[z [H _]]|[_ [m [H _]]]].
  - unfold py_int_str in H. destruct (existsb is_ascii_sep p); [discriminate|]. split.
    + intros ->. vm_compute in H. discriminate.
    + intros m ->. rewrite py_int_slash in H. discriminate.
  - assert (T : addr_text v6 p) by (apply addr_value_text; exists m; exact H). split.
    + intros ->. destruct v6; cbn [addr_text] in T; [apply ipv6_text_nonempty in T|apply quad_nonempty in T]; congruence.
    + intros m' ->. apply (addr_text_no_slash v6 _ T). left. reflexivity.
Qed.

(* ---------- the validators without oracle arguments ---------- *)
Theorem valid_cidr_iff s : valid_cidr s = AOk true <-> cidr_text s.
Proof.
  unfold valid_cidr, cidr_text, is_valid_cidr. change cidr_sep with 47. change cidr_seg_bad_max with 1%Z. split.
  - destruct (ipnetwork s) as [b|e] eqn:EN; [|destruct (caught cidr_caught e); discriminate].
    pose proof (ipnetwork_bool s b EN). subst b. apply ipnetwork_iff in EN.
    intros H.
    assert (Hs : In 47 s).
    { destruct (in_dec N.eq_dec 47 s) as [Hin|Hn]; [exact Hin|]. rewrite (split_notin 47 s Hn) in H. cbn in H. discriminate. }
    destruct EN as [[a [T E]]|[a [T E]]]; (destruct E as [->|[p [-> P]]]; [exfalso; exact (addr_text_no_slash _ a T Hs)|]);
      exists a, p; (split; [reflexivity|]); [left|right]; split; assumption.
  - intros [a [p [-> H]]].
    assert (X : exists v6, addr_text v6 a /\ prefix_text v6 p).
    { destruct H as [[Q P]|[Q P]]; [exists false|exists true]; split; assumption. }
    destruct X as [v6 [T P]].
    assert (EN : ipnetwork (a ++ 47 :: p) = AOk true).
    { apply ipnetwork_iff. destruct v6; [right|left]; exists a; (split; [exact T|]); right; exists p; split; (reflexivity || assumption). }
    rewrite EN. pose proof (addr_text_no_slash v6 a T) as Hn. destruct (prefix_text_head v6 p P) as [Hne Hh].
    rewrite split_app, (split_notin 47 a Hn).
    pose proof (split_nonnil 47 p) as Sn. destruct (split_char 47 p) as [|p1 rest] eqn:SP; [congruence|].
    cbn [app length].
    match goal with |- context [if ?c then _ else _] => destruct c eqn:Eq end; [lia|].
    destruct p1 as [|c0 p1']; [|reflexivity]. exfalso.
    apply split_head_empty in SP. destruct SP as [->|[t ->]]; [congruence|exact (Hh t eq_refl)].
Qed.

Theorem valid_ipv6_cidr_iff s : valid_ipv6_cidr s = AOk true <-> network_text true s.
Proof.
  unfold valid_ipv6_cidr, ipnetwork6. rewrite is_valid_ipv6_cidr_logic, <- parse_ip_network_iff. split.
  - intros [b H]. destruct (parse_ip_network_outcomes true s) as [E|[E|E]]; rewrite E in H; [exact E|discriminate|discriminate].
  - intros H. exists true. exact H.
Qed.

Theorem valid_ip_iff s : valid_ip s = AOk true <->
  s <> [] /\ ((~ In 58 s /\ cstr_ok s = true /\ aton_text s) \/ ipv6_scoped_text s).
Proof.
  unfold valid_ip. rewrite (is_valid_ip_logic _ s (netaddr_aton_contract s)), netaddr_aton_iff. reflexivity.
Qed.

Theorem valid_ipv4_nonstrict_iff s : valid_ipv4 false s = AOk true <->
  s <> [] /\ ~ In 58 s /\ cstr_ok s = true /\ aton_text s.
Proof. unfold valid_ipv4. rewrite ipv4_nonstrict_logic, netaddr_aton_iff. reflexivity. Qed.

Theorem validators_total_closed s :
  (exists b, valid_ipv4 false s = AOk b) /\ (exists b, valid_ip s = AOk b) /\
  (exists b, valid_cidr s = AOk b) /\ (exists b, valid_ipv6_cidr s = AOk b).
Proof.
  apply validators_total_oracles; [apply netaddr_aton_contract|apply ipnetwork_contract|apply ipnetwork6_contract].
Qed.

(* the family the property names: address '/' ASCII decimal digits *)
Corollary cidr_decimal_prefix a n : (dotted_quad a \/ ipv6_text a) ->
  (valid_cidr (a ++ 47 :: dec_of_N n) = AOk true <-> n <= (if in_dec N.eq_dec 58 a then 128 else 32)).
Proof.
  intros Ha. rewrite valid_cidr_iff.
  assert (PI : py_int_str (dec_of_N n) = Some (Z.of_N n)).
  { pose proof (pyint_dec (Z.of_N n)) as H. unfold pyint, py_int_of in H.
    replace (dec_of_Z (Z.of_N n)) with (dec_of_N n) in H by (destruct n; reflexivity).
    destruct (py_int_str (dec_of_N n)); [injection H as ->; reflexivity|discriminate]. }
  assert (PT : forall v6, prefix_text v6 (dec_of_N n) <-> n <= ip_width v6).
  { intros v6. unfold prefix_text. rewrite PI. split.
    - intros [[z [[= <-] H]]|[H _]]; [lia|discriminate].
    - intros H. left. exists (Z.of_N n). split; [reflexivity|lia]. }
  assert (Hn : ~ In 47 a).
  { destruct Ha as [Q|Q]; [apply (addr_text_no_slash false a Q)|apply (addr_text_no_slash true a Q)]. }
  assert (U : forall a' p', a ++ 47 :: dec_of_N n = a' ++ 47 :: p' -> ~ In 47 a' -> a' = a /\ p' = dec_of_N n).
  { intros a' p' E Hn'. pose proof (split_first_some 47 a (dec_of_N n) Hn) as S1. rewrite E in S1.
    rewrite (split_first_some 47 a' p' Hn') in S1. injection S1 as -> ->. split; reflexivity. }
  destruct (in_dec N.eq_dec 58 a) as [Hc|Hc]; split.
  - intros [a' [p' [E [[Q P]|[Q P]]]]].
    + destruct (U a' p' E (addr_text_no_slash false a' Q)) as [-> ->]. exfalso.
      apply quad_chars in Q. rewrite forallb_forall in Q. specialize (Q _ Hc). discriminate.
    + destruct (U a' p' E (addr_text_no_slash true a' Q)) as [-> ->]. apply (PT true). exact P.
  - intros H. exists a, (dec_of_N n). split; [reflexivity|]. right. split; [|apply (PT true); exact H].
    destruct Ha as [Q|Q]; [|exact Q]. exfalso. apply quad_chars in Q. rewrite forallb_forall in Q. specialize (Q _ Hc). discriminate.
  - intros [a' [p' [E [[Q P]|[Q P]]]]].
    + destruct (U a' p' E (addr_text_no_slash false a' Q)) as [-> ->]. apply (PT false). exact P.
    + destruct (U a' p' E (addr_text_no_slash true a' Q)) as [-> ->]. exfalso. exact (Hc (ipv6_text_has_colon _ Q)).
  - intros H. exists a, (dec_of_N n). split; [reflexivity|]. left. split; [|apply (PT false); exact H].
    destruct Ha as [Q|Q]; [exact Q|]. exfalso. exact (Hc (ipv6_text_has_colon _ Q)).
Qed.

(* ---------- non-vacuity ---------- *)
Example ex_aton : aton_text (lit "0x7f.1") /\ aton_text (lit "017700000001") /\ aton_text (lit "1.2.3.4 junk") /\ aton_text (lit "1.2.65535")
  /\ ~ aton_text (lit "1.2.3.08") /\ ~ aton_text (lit "1.2.65536") /\ ~ aton_text (lit "1.2.3.4.5") /\ ~ aton_text (lit "1.2.3.4x") /\ ~ aton_text (lit "0x").
Proof.
  repeat split; try (apply aton_ok_iff; vm_compute; reflexivity); intros H; apply aton_ok_iff in H; vm_compute in H; discriminate.
Qed.
Example ex_ip : valid_ip (lit "127.1") = AOk true /\ valid_ip (lit "fe80::1%eth0") = AOk true /\ valid_ip (lit "1.2.3.4 :") = AOk false
  /\ valid_ip (lit "") = AOk false /\ valid_ipv4 true (lit "127.1") = AOk false.
Proof. repeat split; vm_compute; reflexivity. Qed.
Example ex_cidr_text : cidr_text (lit "10.0.0.0/8") /\ cidr_text (lit "10.0.0.0/255.255.255.0") /\ cidr_text (lit "10.0.0.0/0.0.0.255")
  /\ cidr_text (lit "::/ffff::") /\ cidr_text (lit "2600::/64") /\ cidr_text (lit "10.0.0.0/ 08")
  /\ ~ cidr_text (lit "10.0.0.0/33") /\ ~ cidr_text (lit "10.0.0.0") /\ ~ cidr_text (lit "10.0.0.0/") /\ ~ cidr_text (lit "10.0.0.0/8/8")
  /\ ~ cidr_text (lit "10.0.0.0//8") /\ ~ cidr_text (lit "10.0.0.0/255.0.255.0") /\ ~ cidr_text (lit "::/129") /\ ~ cidr_text (lit "10.0.0.0/ffff::").
Proof.
  repeat split; try (apply valid_cidr_iff; vm_compute; reflexivity); intros H; apply valid_cidr_iff in H; vm_compute in H; discriminate.
Qed.
Example ex_mask : mask_value 32 4294967040 /\ mask_value 32 255 /\ mask_value 32 0 /\ ~ mask_value 32 4278255360.
Proof.
  repeat split; try (apply (mask_iff false); vm_compute; reflexivity).
  intros H. apply (mask_iff false) in H; [vm_compute in H; discriminate|vm_compute; reflexivity].
Qed.
Example ex_v6_value : ipv6_value (lit "ffff::") (2 ^ 128 - 2 ^ 112) /\ ipv6_value (lit "::ffff:1.2.3.4") 281470698652420 /\ ipv6_value (lit "::1") 1.
Proof. repeat split; apply pton6_value_iff; vm_compute; reflexivity. Qed.
