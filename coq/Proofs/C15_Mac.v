(* Proofs/C15_Mac.v — netaddr.EUI(text): every accepted EUI-48 text denotes a value below 2^48;
   the six-group forms (':' or '-', 1..2 hex digits per group, either case) and what
   str(EUI) prints in the mac_unix_expanded dialect are read back to their value. *)
From Coq Require Import String.
Require Import OV.Base.Bytes OV.Base.Py OV.Base.PyInt OV.Base.Str OV.Base.C11_Lib.
Require Import OV.Model.C11 OV.Proofs.C11_Split.
Require Import OV.Gen.C15_Netutils OV.Model.C15 OV.Model.C15_Text.
Open Scope N_scope.

Ltac Zify.zify_post_hook ::= Z.div_mod_to_equations.

(* ------------------------------------------------------------------ hex words *)

Lemma radix16_bound f acc : forallb is_hex f = true ->
  radix_val 16 hex_digit_val f acc < (acc + 1) * 16 ^ N.of_nat (length f).
Proof.
  revert acc. induction f as [|c f IH]; intros acc H; cbn [radix_val length].
  - cbn. lia.
  - cbn [forallb] in H. apply andb_true_iff in H. destruct H as [Hc Hf].
    specialize (IH (acc * 16 + hex_digit_val c) Hf).
    assert (D : hex_digit_val c < 16).
    { unfold is_hex in Hc. unfold hex_digit_val.
      destruct (c <=? 57) eqn:E1; [lia|]. destruct (c <=? 70) eqn:E2; lia. }
    rewrite Nat2N.inj_succ, N.pow_succ_r'. nia.
Qed.

Lemma hexval_bound f : forallb is_hex f = true -> hexval f < 16 ^ N.of_nat (length f).
Proof. intros H. pose proof (radix16_bound f 0 H). unfold hexval. lia. Qed.

Lemma hexword_bound lo hi bits f : hexword lo hi f = true -> 4 * N.of_nat hi <= bits -> hexval f < 2 ^ bits.
Proof.
  unfold hexword. intros H Hb. apply andb_true_iff in H. destruct H as [H Hx].
  apply andb_true_iff in H. destruct H as [_ Hl]. apply Nat.leb_le in Hl.
  eapply N.lt_le_trans; [apply hexval_bound; exact Hx|].
  replace 16 with (2 ^ 4) by reflexivity. rewrite <- N.pow_mul_r. apply N.pow_le_mono_r; lia.
Qed.

Lemma fold_words_bound bits ws acc : Forall (fun w => hexval w < 2 ^ bits) ws ->
  fold_left (fun a w => a * 2 ^ bits + hexval w) ws acc < (acc + 1) * 2 ^ (bits * N.of_nat (length ws)).
Proof.
  revert acc. induction ws as [|w ws IH]; intros acc H; cbn [fold_left length].
  - rewrite N.mul_0_r. cbn. lia.
  - inversion H as [|? ? Hw Hws]; subst. specialize (IH (acc * 2 ^ bits + hexval w) Hws).
    rewrite Nat2N.inj_succ, N.mul_succ_r, N.pow_add_r.
    assert (0 < 2 ^ (bits * N.of_nat (length ws))) by (apply N.neq_0_lt_0, N.pow_nonzero; lia).
    nia.
Qed.

Lemma words_val_bound bits ws : Forall (fun w => hexval w < 2 ^ bits) ws ->
  words_val bits ws < 2 ^ (bits * N.of_nat (length ws)).
Proof. intros H. pose proof (fold_words_bound bits ws 0 H). unfold words_val. lia. Qed.

Lemma fmt_match_some sep n lo hi s ws : fmt_match sep n lo hi s = Some ws ->
  length ws = n /\ forallb (hexword lo hi) ws = true.
Proof.
  unfold fmt_match. destruct ((length (split_char sep s) =? n)%nat && forallb (hexword lo hi) (split_char sep s)) eqn:E; [|discriminate].
  intros H. inversion H; subst. apply andb_true_iff in E. destruct E as [E1 E2].
  apply Nat.eqb_eq in E1. split; assumption.
Qed.

Lemma fmt_bound sep n lo hi bits s ws : fmt_match sep n lo hi s = Some ws -> 4 * N.of_nat hi <= bits ->
  words_val bits ws < 2 ^ (bits * N.of_nat n).
Proof.
  intros H Hb. destruct (fmt_match_some _ _ _ _ _ _ H) as [<- F].
  apply words_val_bound. rewrite forallb_forall in F. apply Forall_forall. intros w Hw.
  eapply hexword_bound; [apply F; exact Hw|exact Hb].
Qed.

Lemma bare_bound n bits s ws : bare_match n s = Some ws -> 4 * N.of_nat n <= bits -> words_val bits ws < 2 ^ bits.
Proof.
  unfold bare_match. destruct ((length s =? n)%nat && forallb is_hex s) eqn:E; [|discriminate].
  intros H Hb. inversion H; subst. apply andb_true_iff in E. destruct E as [E1 E2]. apply Nat.eqb_eq in E1.
  unfold words_val. cbn [fold_left]. rewrite N.mul_0_l, N.add_0_l.
  eapply N.lt_le_trans; [apply hexval_bound; exact E2|].
  replace 16 with (2 ^ 4) by reflexivity. rewrite <- N.pow_mul_r, E1. apply N.pow_le_mono_r; lia.
Qed.

(* every text the EUI-48 formats accept denotes a value below 2^48 *)
Lemma eui48_str_bound s v : eui48_str s = Some v -> v < 2 ^ 48.
Proof.
  unfold eui48_str, eui48_formats. set (t := dollar s). clearbody t. cbn [first_match].
  repeat match goal with
  | |- match ?f t with Some _ => _ | None => _ end = Some v -> _ =>
      let E := fresh "E" in destruct (f t) as [ws|] eqn:E;
      [intros H; inversion H; subst;
       first [ exact (fmt_bound _ 6 _ 2 8 _ _ E ltac:(cbn; lia))
             | exact (fmt_bound _ 3 _ 4 16 _ _ E ltac:(cbn; lia))
             | exact (fmt_bound _ 2 _ 6 24 _ _ E ltac:(cbn; lia))
             | exact (bare_bound 12 48 _ _ E ltac:(cbn; lia))
             | exact (bare_bound 11 48 _ _ E ltac:(cbn; lia)) ] |]
  end.
  discriminate.
Qed.

(* "a MAC text denoting a 48-bit value": whatever EUI(text) takes for an EUI-48 is below 2^48 *)
Theorem eui_of_text_48_range m v : eui_of_text m = Some (EUI48 v) -> (0 <= v < 2 ^ 48)%Z.
Proof.
  unfold eui_of_text. destruct (eui48_str m) as [n|] eqn:E.
  - intros H. inversion H; subst. apply eui48_str_bound in E.
    change (2 ^ 48)%Z with (Z.of_N (2 ^ 48)). lia.
  - unfold int_in. destruct (py_int_str m) as [z|].
    + destruct ((0 <=? z)%Z && (z <=? 2 ^ 48 - 1)%Z) eqn:R.
      * intros H. inversion H; subst. lia.
      * destruct (eui64_str m); [discriminate|].
        destruct ((0 <=? z)%Z && (z <=? 2 ^ 64 - 1)%Z); discriminate.
    + destruct (eui64_str m); discriminate.
Qed.

(* ------------------------------------------------------------------ six groups joined by ':' or '-' *)

Lemma dollar_no_nl s : ~ In 10 s -> dollar s = s.
Proof.
  intros H. unfold dollar. destruct (rev s) as [|c r] eqn:E; [reflexivity|].
  destruct (N.eq_dec c 10) as [->|Hc].
  - exfalso. apply H. apply in_rev. rewrite E. left. reflexivity.
  - destruct c as [|p]; [reflexivity|]. repeat (destruct p as [p|p|]; try reflexivity). congruence.
Qed.

Lemma In_join c sep ws : In c (join [sep] ws) -> c = sep \/ exists w, In w ws /\ In c w.
Proof.
  induction ws as [|w ws IH]; [intros []|].
  destruct ws as [|w' ws'].
  - cbn [join]. intros H. right. exists w. split; [left; reflexivity|exact H].
  - rewrite join_cons. intros H. apply in_app_or in H. destruct H as [H|H].
    + right. exists w. split; [left; reflexivity|exact H].
    + cbn [app] in H. destruct H as [<-|H]; [left; reflexivity|].
      destruct (IH H) as [->|[x [Hx Hc]]]; [left; reflexivity|]. right. exists x. split; [right; exact Hx|exact Hc].
Qed.

Lemma is_hex_chars c : is_hex c = true -> c <> 10 /\ c <> 58 /\ c <> 45 /\ c <> 46.
Proof. unfold is_hex. intros H. repeat split; intros ->; discriminate. Qed.

Lemma hexword_chars lo hi w c : hexword lo hi w = true -> In c w -> is_hex c = true.
Proof.
  unfold hexword. intros H Hc. apply andb_true_iff in H. destruct H as [_ H].
  rewrite forallb_forall in H. apply H. exact Hc.
Qed.

Theorem eui_of_text_six_groups sep ws : sep = 58 \/ sep = 45 ->
  length ws = 6%nat -> forallb (hexword 1 2) ws = true ->
  eui_of_text (join [sep] ws) = Some (EUI48 (Z.of_N (words_val 8 ws))).
Proof.
  intros Hsep Hl Hw. rewrite forallb_forall in Hw.
  assert (Hhex : forall c, In c (join [sep] ws) -> c = sep \/ is_hex c = true).
  { intros c Hc. destruct (In_join _ _ _ Hc) as [->|[w [Hin Hcw]]]; [left; reflexivity|].
    right. eapply hexword_chars; [apply Hw; exact Hin|exact Hcw]. }
  assert (Hnl : ~ In 10 (join [sep] ws)).
  { intros H. destruct (Hhex _ H) as [E|E]; [destruct Hsep; subst; discriminate|discriminate]. }
  assert (Hne : ws <> []) by (destruct ws; [discriminate|discriminate]).
  assert (Hns : Forall (fun f => ~ In sep f) ws).
  { apply Forall_forall. intros w Hin Hc. pose proof (hexword_chars _ _ _ _ (Hw w Hin) Hc) as Hx.
    apply is_hex_chars in Hx. destruct Hsep; subst; tauto. }
  assert (M : fmt_match sep 6 1 2 (join [sep] ws) = Some ws).
  { unfold fmt_match. rewrite (split_join sep ws Hne Hns), Hl. cbn [Nat.eqb andb].
    replace (forallb (hexword 1 2) ws) with true; [reflexivity|].
    symmetry. apply forallb_forall. exact Hw. }
  unfold eui_of_text, eui48_str. rewrite (dollar_no_nl _ Hnl). unfold eui48_formats. cbn [first_match].
  destruct Hsep as [->| ->].
  - rewrite M. reflexivity.
  - assert (N58 : ~ In 58 (join [45] ws)).
    { intros H. destruct (Hhex _ H) as [E|E]; discriminate. }
    unfold fmt_match at 1. rewrite (split_notin 58 _ N58). cbn [length Nat.eqb andb].
    rewrite M. reflexivity.
Qed.

(* ------------------------------------------------------------------ str(EUI), mac_unix_expanded *)

Definition byte_range : list N := map N.of_nat (seq 0 256).
Lemma in_byte_range b : b < 256 -> In b byte_range.
Proof.
  intros H. unfold byte_range. apply in_map_iff. exists (N.to_nat b). split; [lia|].
  apply in_seq. lia.
Qed.
Lemma hex2_ok b : b < 256 -> hexword 1 2 (hex2 b) = true /\ hexval (hex2 b) = b.
Proof.
  intros H. assert (A : forallb (fun b => hexword 1 2 (hex2 b) && (hexval (hex2 b) =? b)) byte_range = true)
    by (vm_compute; reflexivity).
  rewrite forallb_forall in A. specialize (A b (in_byte_range b H)).
  apply andb_true_iff in A. destruct A as [A1 A2]. apply N.eqb_eq in A2. split; assumption.
Qed.

Lemma mac_bytes_small v : Forall (fun b => b < 256) (mac_bytes v).
Proof. unfold mac_bytes. repeat constructor; apply N.mod_lt; lia. Qed.

Lemma words_val_bytes v : v < 2 ^ 48 -> words_val 8 (map hex2 (mac_bytes v)) = v.
Proof.
  intros Hv. unfold words_val, mac_bytes. cbn [map fold_left].
  rewrite !(fun b H => proj2 (hex2_ok b H)) by (apply N.mod_lt; lia).
  change (2 ^ 8) with 256. change (2 ^ 40) with 1099511627776. change (2 ^ 32) with 4294967296.
  change (2 ^ 24) with 16777216. change (2 ^ 16) with 65536.
  change (2 ^ 48) with 281474976710656 in Hv. lia.
Qed.

(* str(EUI(v)) is read back as v *)
Theorem eui_print_parse v : v < 2 ^ 48 -> eui_of_text (eui48_print v) = Some (EUI48 (Z.of_N v)).
Proof.
  intros Hv. unfold eui48_print.
  rewrite (eui_of_text_six_groups 58 (map hex2 (mac_bytes v))).
  - rewrite words_val_bytes by exact Hv. reflexivity.
  - left. reflexivity.
  - reflexivity.
  - apply forallb_forall. intros w Hw. apply in_map_iff in Hw. destruct Hw as [b [<- Hb]].
    pose proof (mac_bytes_small v) as S. rewrite Forall_forall in S. apply hex2_ok, S, Hb.
Qed.

Example ex_print : eui48_print 0x00163e334455 = lit "00:16:3e:33:44:55".
Proof. vm_compute. reflexivity. Qed.
Example ex_parse_dash_upper : eui_of_text (lit "00-16-3E-33-44-55") = Some (EUI48 0x00163e334455).
Proof. vm_compute. reflexivity. Qed.
Example ex_parse_cisco : eui_of_text (lit "0016.3e33.4455") = Some (EUI48 0x00163e334455).
Proof. vm_compute. reflexivity. Qed.
Example ex_parse_bare : eui_of_text (lit "00163e334455") = Some (EUI48 0x00163e334455).
Proof. vm_compute. reflexivity. Qed.
Example ex_parse_short_groups : eui_of_text (lit "0:16:3e:33:44:5") = Some (EUI48 0x00163e334405).
Proof. vm_compute. reflexivity. Qed.
Example ex_parse_bad : eui_of_text (lit "00:16:3e:33:44") = None /\ eui_of_text (lit "zz") = None.
Proof. split; vm_compute; reflexivity. Qed.
