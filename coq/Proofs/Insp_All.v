(* Proofs/Insp_All.v — engine theorems lifted to the uniform interface of Model/Insp_All.v *)
Require Import OV.Base.Bytes OV.Base.Py OV.Base.Insp_Struct OV.Gen.Insp_Consts OV.Model.Insp_Engine.
Require Import OV.Model.Insp_Raw OV.Model.Insp_Qcow2 OV.Model.Insp_Qed OV.Model.Insp_Vhd OV.Model.Insp_Vdi
               OV.Model.Insp_Iso OV.Model.Insp_Gpt OV.Model.Insp_Luks OV.Model.Insp_Vhdx OV.Model.Insp_Vmdk OV.Model.Insp_All.
Require Import OV.Proofs.Insp_Engine OV.Proofs.Insp_FmtOk.
Open Scope N_scope.

(* every state an inspector object of any of the ten classes can be driven into: any chunks
   (also after an exception, also after finish), finish at any time *)
Inductive ireach : bytes -> istate -> Prop :=
| ireach_init f : ireach [] (init f)
| ireach_eat st i c i' e : ireach st i -> eat i c = (i', e) -> ireach (st ++ c) i'
| ireach_finish st i : ireach st i -> ireach st (finish i).

Lemma ufmt_ok f : f <> F_qcow2 -> f <> F_vmdk -> fmt_ok K_fixed (ufmt f).
Proof.
  intros H1 H2. destruct f; try contradiction; cbn [ufmt].
  - exact raw_fmt_ok. - exact vhd_fmt_ok. - exact vhdx_fmt_ok. - exact vdi_fmt_ok. - exact qed_fmt_ok.
  - exact iso_fmt_ok. - exact gpt_fmt_ok. - exact luks_fmt_ok.
Qed.

Definition ireach_spec (st : bytes) (i : istate) : Prop :=
  match i with
  | I_unit f s => f <> F_qcow2 /\ f <> F_vmdk /\ reach (ufmt f) st s
  | I_qcow s => reach qcow_fmt st s
  | I_vmdk s => reach vmdk_fmt st s
  end.

Lemma ireach_reach st i : ireach st i -> ireach_spec st i.
Proof.
  intros H. induction H as [f|st i c i' e H IH He|st i H IH].
  - destruct f; cbn [init ireach_spec]; try (split; [discriminate|split; [discriminate|apply reach_init]]); apply reach_init.
  - destruct i as [f s|s|s]; cbn [eat ireach_spec] in *.
    + destruct (eat_chunk (ufmt f) s c) as [s' e'] eqn:Hc. inversion He; subst. destruct IH as (H1 & H2 & H3).
      split; [exact H1|]. split; [exact H2|]. eapply reach_eat; eassumption.
    + destruct (eat_chunk qcow_fmt s c) as [s' e'] eqn:Hc. inversion He; subst. eapply reach_eat; eassumption.
    + destruct (eat_chunk vmdk_fmt s c) as [s' e'] eqn:Hc. inversion He; subst. eapply reach_eat; eassumption.
  - destruct i as [f s|s|s]; cbn [Insp_All.finish ireach_spec] in *.
    + destruct IH as (H1 & H2 & H3). split; [exact H1|]. split; [exact H2|]. apply reach_finish. exact H3.
    + apply reach_finish. exact IH.
    + apply reach_finish. exact IH.
Qed.

(* C01, last sentence: whatever an inspector retains for a region of the file is exactly the
   stream's bytes at that region's offsets — for all ten inspectors, every byte string, every
   chunking (empty chunks included), at every point of the stream, also after an exception. *)
Theorem retained_is_stream_slice_all st i n r :
  ireach st i -> In (n, r) (regions_of i) ->
  r_data r = bslice (r_off r) (blen (r_data r)) st /\ blen (r_data r) <= r_len r /\ position i = blen st.
Proof.
  intros H Hin. apply ireach_reach in H. destruct i as [f s|s|s]; cbn [ireach_spec regions_of position] in *.
  - destruct H as (H1 & H2 & H3). exact (retained_is_stream_slice K_fixed (ufmt f) st s n r (ufmt_ok f H1 H2) H3 Hin).
  - exact (retained_is_stream_slice K_fixed qcow_fmt st s n r qcow_fmt_ok H Hin).
  - exact (retained_is_stream_slice K_any vmdk_fmt st s n r vmdk_fmt_ok H Hin).
Qed.

Lemma run_ireach f cs i e : run f cs = (i, e) -> exists st, ireach st i.
Proof.
  unfold run. intros H.
  assert (G : forall cs i0 st0 i1 e1, ireach st0 i0 -> eat_list i0 cs = (i1, e1) -> exists st, ireach st i1).
  { clear. induction cs as [|c t IH]; intros i0 st0 i1 e1 H0 He; cbn [eat_list] in He.
    - inversion He; subst. exists st0. exact H0.
    - destruct (eat i0 c) as [i' [x|]] eqn:Hc.
      + inversion He; subst. exists (st0 ++ c). eapply ireach_eat; eassumption.
      + eapply IH; [|exact He]. eapply ireach_eat; eassumption. }
  destruct (eat_list (init f) cs) as [i1 e1] eqn:Hl. inversion H; subst.
  destruct (G _ _ _ _ _ (ireach_init f) Hl) as [st Hst]. exists st. apply ireach_finish. exact Hst.
Qed.
