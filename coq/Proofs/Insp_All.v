(* Proofs/Insp_All.v — engine theorems lifted to the uniform interface of Model/Insp_All.v *)
Require Import OV.Base.Bytes OV.Base.Py OV.Base.Insp_Struct OV.Gen.Insp_Consts OV.Model.Insp_Engine.
Require Import OV.Model.Insp_Raw OV.Model.Insp_Qcow2 OV.Model.Insp_Qed OV.Model.Insp_Vhd OV.Model.Insp_Vdi
               OV.Model.Insp_Iso OV.Model.Insp_Gpt OV.Model.Insp_Luks OV.Model.Insp_Vhdx OV.Model.Insp_Vmdk OV.Model.Insp_All.
Require Import OV.Proofs.Insp_Engine OV.Proofs.Insp_FmtOk.
Open Scope N_scope.

(* every state an inspector object of any of the ten classes can be driven into: any chunks
   (also after an exception, also after finish), finish at any time *)
Inductive ireach : bytes -> istate -> Prop :=
| ireach_init f : ireach [] (init f)
| ireach_eat st i c i' e : ireach st i -> eat i c = (i', e) -> ireach (st ++ c) i'
| ireach_finish st i : ireach st i -> ireach st (finish i).

Lemma ufmt_ok f : f <> F_qcow2 -> f <> F_vmdk -> fmt_ok K_fixed (ufmt f).
Proof.
  intros H1 H2. destruct f; try contradiction; cbn [ufmt].
  - exact raw_fmt_ok. - exact vhd_fmt_ok. - exact vhdx_fmt_ok. - exact vdi_fmt_ok. - exact qed_fmt_ok.
  - exact iso_fmt_ok. - exact gpt_fmt_ok. - exact luks_fmt_ok.
Qed.

Definition ireach_spec (st : bytes) (i : istate) : Prop :=
  match i with
  | I_unit f s => f <> F_qcow2 /\ f <> F_vmdk /\ reach (ufmt f) st s
  | I_qcow s => reach qcow_fmt st s
  | I_vmdk s => reach vmdk_fmt st s
  end.

Lemma ireach_reach st i : ireach st i -> ireach_spec st i.
Proof.
  intros H. induction H as [f|st i c i' e H IH He|st i H IH].
  - destruct f; cbn [init ireach_spec]; try (split; [discriminate|split; [discriminate|apply reach_init]]); apply reach_init.
  - destruct i as [f s|s|s]; cbn [eat ireach_spec] in *.
    + destruct (eat_chunk (ufmt f) s c) as [s' e'] eqn:Hc. inversion He; subst. destruct IH as (H1 & H2 & H3).
      split; [exact H1|]. split; [exact H2|]. eapply reach_eat; eassumption.
    + destruct (eat_chunk qcow_fmt s c) as [s' e'] eqn:Hc. inversion He; subst. eapply reach_eat; eassumption.
    + destruct (eat_chunk vmdk_fmt s c) as [s' e'] eqn:Hc. inversion He; subst. eapply reach_eat; eassumption.
  - destruct i as [f s|s|s]; cbn [Insp_All.finish ireach_spec] in *.
    + destruct IH as (H1 & H2 & H3). split; [exact H1|]. split; [exact H2|]. apply reach_finish. exact H3.
    + apply reach_finish. exact IH.
    + apply reach_finish. exact IH.
Qed.

(* C01, last sentence: whatever an inspector retains for a region of the file is exactly the
   stream's bytes at that region's offsets — for all ten inspectors, every byte string, every
   chunking (empty chunks included), at every point of the stream, also after an exception. *)
Theorem retained_is_stream_slice_all st i n r :
  ireach st i -> In (n, r) (regions_of i) ->
  r_data r = bslice (r_off r) (blen (r_data r)) st /\ blen (r_data r) <= r_len r /\ position i = blen st.
Proof.
  intros H Hin. apply ireach_reach in H. destruct i as [f s|s|s]; cbn [ireach_spec regions_of position] in *.
  - destruct H as (H1 & H2 & H3). exact (retained_is_stream_slice K_fixed (ufmt f) st s n r (ufmt_ok f H1 H2) H3 Hin).
  - exact (retained_is_stream_slice K_fixed qcow_fmt st s n r qcow_fmt_ok H Hin).
  - exact (retained_is_stream_slice K_any vmdk_fmt st s n r vmdk_fmt_ok H Hin).
Qed.

Lemma run_ireach f cs i e : run f cs = (i, e) -> exists st, ireach st i.
Proof.
  unfold run. intros H.
  assert (G : forall cs i0 st0 i1 e1, ireach st0 i0 -> eat_list i0 cs = (i1, e1) -> exists st, ireach st i1).
  { clear. induction cs as [|c t IH]; intros i0 st0 i1 e1 H0 He; cbn [eat_list] in He.
    - inversion He; subst. exists st0. exact H0.
    - destruct (eat i0 c) as [i' [x|]] eqn:Hc.
      + inversion He; subst. exists (st0 ++ c). eapply ireach_eat; eassumption.
      + eapply IH; [|exact He]. eapply ireach_eat; eassumption. }
  destruct (eat_list (init f) cs) as [i1 e1] eqn:Hl. inversion H; subst.
  destruct (G _ _ _ _ _ (ireach_init f) Hl) as [st Hst]. exists st. apply ireach_finish. exact Hst.
Qed.

(* ------------------------------------------------------------------ refinement of the static inspectors *)
Require Import OV.Proofs.Insp_Static.

(* the inspectors without private attributes whose regions all come from _initialize *)
Definition is_static_unit (f : fmt_id) : bool :=
  match f with F_raw | F_qed | F_vhd | F_vdi | F_iso | F_gpt | F_luks => true | _ => false end.

Lemma static_unit_facts f : is_static_unit f = true ->
  f_post (ufmt f) = no_post /\ f_rcomplete (ufmt f) = no_rcomplete /\ f_id (ufmt f) = f /\
  static_specs (init_regions f) = true /\ f <> F_qcow2 /\ f <> F_vmdk.
Proof. destruct f; intros H; try discriminate H; repeat split; try reflexivity; discriminate. Qed.

(* spec: the state of inspector f after the whole buffer b — a function of b alone (no chunks, no
   streaming): position |b|, every region holds b[off : off+len], finished *)
Definition spec_unit (f : fmt_id) (b : bytes) : istate := I_unit f (ideal (ufmt f) b true tt).

Lemma run_unit f cs : is_static_unit f = true -> run f cs = (spec_unit f (concat cs), None).
Proof.
  intros Hs. destruct (static_unit_facts f Hs) as (Hp & Hc & Hi & Hsp & Hq & Hv).
  assert (Hsp' : static_specs (init_regions (f_id (ufmt f))) = true) by (rewrite Hi; exact Hsp).
  pose proof (static_run (ufmt f) Hp Hsp' Hc cs) as Hr. unfold run_fmt in Hr.
  unfold run, spec_unit.
  assert (Hinit : init f = I_unit f (init_ist (ufmt f))) by (destruct f; try discriminate Hs; reflexivity).
  rewrite Hinit.
  assert (G : forall cs s, eat_list (I_unit f s) cs = (let '(s', e) := eat_all (ufmt f) s cs in (I_unit f s', e))).
  { clear. induction cs as [|c t IH]; intros s; cbn [eat_list eat_all]; [reflexivity|].
    cbn [eat]. destruct (eat_chunk (ufmt f) s c) as [s' [e|]]; [reflexivity|]. apply IH. }
  rewrite G. destruct (eat_all (ufmt f) (init_ist (ufmt f)) cs) as [s' e'].
  pose proof (f_equal fst Hr) as Hf. pose proof (f_equal snd Hr) as He. cbn [fst snd] in Hf, He. rewrite He. change (finish (I_unit f s')) with (I_unit f (Insp_Engine.finish s')). rewrite Hf. destruct (f_ext0 (ufmt f)). reflexivity.
Qed.

Require Import OV.Proofs.Insp_StaticQcow.

Lemma run_qcow cs : run F_qcow2 cs = (I_qcow (ideal qcow_fmt (concat cs) true (qext (concat cs))), None).
Proof.
  pose proof (qcow_run cs) as Hr. unfold run_fmt in Hr. unfold run. cbn [init].
  assert (G : forall cs s, eat_list (I_qcow s) cs = (let '(s', e) := eat_all qcow_fmt s cs in (I_qcow s', e))).
  { clear. induction cs as [|c t IH]; intros s; cbn [eat_list eat_all]; [reflexivity|].
    cbn [eat]. destruct (eat_chunk qcow_fmt s c) as [s' [e|]]; [reflexivity|]. apply IH. }
  rewrite G. destruct (eat_all qcow_fmt (init_ist qcow_fmt) cs) as [s' e'].
  pose proof (f_equal fst Hr) as Hf. pose proof (f_equal snd Hr) as He. cbn [fst snd] in Hf, He. rewrite He.
  change (finish (I_qcow s')) with (I_qcow (Insp_Engine.finish s')). rewrite Hf. reflexivity.
Qed.

(* the eight inspectors whose regions all come from _initialize, without min_length *)
Definition is_static (f : fmt_id) : bool :=
  match f with F_vhdx | F_vmdk => false | _ => true end.

(* spec_f: the inspector's final state as a function of the whole buffer — no chunks, no streaming *)
Definition spec_state (f : fmt_id) (b : bytes) : istate :=
  match f with
  | F_qcow2 => I_qcow (ideal qcow_fmt b true (qext b))
  | _ => spec_unit f b
  end.
Definition spec_verdict (f : fmt_id) (b : bytes) : verdict := verdict_of (spec_state f b, None).

Theorem static_inspector_refines_spec_state f cs :
  is_static f = true -> run f cs = (spec_state f (concat cs), None).
Proof.
  intros H. destruct f; try discriminate H; try (apply run_unit; reflexivity). apply run_qcow.
Qed.

Theorem static_inspector_refines_spec f cs :
  is_static f = true -> verdict_of (run f cs) = spec_verdict f (concat cs).
Proof. intros H. unfold spec_verdict. rewrite (static_inspector_refines_spec_state f cs H). reflexivity. Qed.

Corollary chunking_independent f cs1 cs2 :
  is_static f = true -> concat cs1 = concat cs2 -> run f cs1 = run f cs2.
Proof. intros H Hc. rewrite !static_inspector_refines_spec_state by exact H. rewrite Hc. reflexivity. Qed.

Definition nonempty (c : bytes) : bool := match c with [] => false | _ => true end.
Lemma concat_filter_nonempty cs : concat (filter nonempty cs) = concat cs.
Proof. induction cs as [|c t IH]; [reflexivity|]. destruct c; cbn [filter nonempty concat app]; [exact IH | rewrite IH; reflexivity]. Qed.

Corollary empty_chunks_irrelevant f cs :
  is_static f = true -> run f (filter nonempty cs) = run f cs.
Proof. intros H. apply chunking_independent; [exact H | apply concat_filter_nonempty]. Qed.

